#!/venv/bin/python
"""Regenerate the generated tables of DESIGN.md section 0 (0.6 seeded changes from seeded/*/meta.json, 0.8 per-property
status from the plugins' own metadata, the findings list from known_findings.json).  Usage: tools_gen_design_tables.py"""
import glob
import importlib
import json
import os
import re
import sys

V = os.path.dirname(os.path.abspath(__file__))
sys.path.insert(0, V)
os.environ.setdefault("PYTHONPATH", "/repo")


def esc(s):
    return str(s).replace("|", "\\|").replace("\n", " ")


def t06():
    rows = ["| id | needs, in order to manifest | result of `./check` | confirmed (demo with / without, suite) |", "|---|---|---|---|"]
    for m in sorted(glob.glob(os.path.join(V, "seeded", "*", "meta.json"))):
        d = json.load(open(m))
        c = os.path.join(os.path.dirname(m), "confirm.json")
        conf = "-"
        if os.path.exists(c):
            cj = json.load(open(c))
            conf = "%s / %s, %s" % (cj.get("demo_exit_with_change"), cj.get("demo_exit_without_change"), re.sub(r" in [0-9.]+s.*", "", cj.get("suite_with_change", "")))
        rows.append("| %s | %s | %s | %s |" % (d["id"], esc(d["needs_to_manifest"]), esc(d["check_result"]), esc(conf)))
    return "\n".join(rows)


def t08():
    rows = ["| | theorems in `coq/Properties/Cxx.v` (all closed) | what is proved / how it is tied (plugin LEVEL_TEXT) | trusted / outside (plugin LEVEL_NOTE) |", "|---|---|---|---|"]
    for p in [l.strip() for l in open(os.path.join(V, "harness", "ready.txt")) if l.strip()]:
        pl = importlib.import_module("harness.props." + p.lower())
        rows.append("| %s | %s | %s | %s |" % (p, ", ".join("`%s`" % t for t in pl.THEOREMS), esc(pl.LEVEL_TEXT), esc(pl.LEVEL_NOTE)))
    return "\n".join(rows)


def tfind():
    k = json.load(open(os.path.join(V, "known_findings.json")))
    rows = ["| id | what fails | witness |", "|---|---|---|"]
    for f in k["findings"]:
        rows.append("| %s | %s | %s |" % (f["id"], esc(f["description"]), esc(f.get("witness", ""))))
    fx = ["", "Repaired (`fixed:` entries):", ""]
    for f in k.get("fixed", []):
        fx.append("* " + esc(f if isinstance(f, str) else f.get("line") or json.dumps(f)))
    return "\n".join(rows + fx)


def main():
    p = os.path.join(V, "DESIGN.md")
    s = open(p).read()
    for name, fn in (("0.6", t06), ("0.8", t08), ("findings", tfind)):
        b, e = "<!-- BEGIN GENERATED %s -->" % name, "<!-- END GENERATED %s -->" % name
        if b not in s:
            print("marker missing:", name)
            continue
        i, j = s.index(b) + len(b), s.index(e)
        s = s[:i] + "\n" + fn() + "\n" + s[j:]
    open(p, "w").write(s)


main()
