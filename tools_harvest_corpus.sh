#!/bin/bash
# For every seeded change (or the ids given) run the property's quick check against the change in a scratch copy
# (VERIF_REPO) and keep the minimal failing input it reports as a corpus case corpus/<Cxx>/seeded-<id>.json, so
# that it is replayed first on every later run.  Also rewrites seeded/<id>/lastrun.json with the outcome.
cd "$(dirname "$0")"
ids=${@:-$(ls seeded)}
S=$(mktemp -d /tmp/harvest.XXXX)
for id in $ids; do
  prop=${id%%-*}
  [ "$id" = "C18-f" ] && continue      # changes the translated dialect table; run by hand
  rm -rf "$S/repo"; mkdir -p "$S/repo"; cp -r /repo/alembic "$S/repo/"
  if ! (cd "$S/repo" && patch -p1 -s < "$OLDPWD/seeded/$id/patch.diff" >/dev/null 2>&1); then echo "$id: patch does not apply"; continue; fi
  out=$(VERIF_NO_EVIDENCE=1 VERIF_REPO="$S/repo" nice ./check "$prop" 2>&1 | grep -v "^KNOWN")
  line=$(echo "$out" | grep "^VIOLATION" | head -1)
  summ=$(echo "$out" | tail -1)
  python3 - "$id" "$prop" "$line" "$summ" <<'PY'
import json,sys,os,re
id_,prop,line,summ=sys.argv[1:5]
res={"violation_line":line,"summary":summ}
m=re.search(r"replay=(\S+)",line)
if m and "no-failing-input-found" not in line:
    d=json.load(open(m.group(1)))
    if d.get("kind")=="failing-input" and d.get("human") is not None:
        os.makedirs("corpus/%s"%prop,exist_ok=True)
        json.dump({"human":d["human"],"origin":"minimal failing input reported when seeded change %s was applied"%id_},
                  open("corpus/%s/seeded-%s.json"%(prop,id_),"w"),indent=1)
        res["corpus"]="corpus/%s/seeded-%s.json"%(prop,id_)
json.dump(res,open("seeded/%s/lastrun.json"%id_,"w"),indent=1)
print(id_,"|",line,"|",summ[-60:])
PY
done
rm -rf "$S"
