(* Lists of N used as finite sets: membership, removal, dedupe, subset — executable
   definitions with their characterising lemmas.  Stdlib only. *)
From Coq Require Export List NArith Arith Lia Bool.
Export ListNotations.

Definition memN (x:N) (l:list N) : bool := existsb (N.eqb x) l.
Lemma memN_In x l : memN x l = true <-> In x l.
Proof. unfold memN. rewrite existsb_exists. split.
  - intros [y [Hy He]]. apply N.eqb_eq in He. subst; auto.
  - intros H. exists x. split; auto. apply N.eqb_refl. Qed.
Lemma memN_nIn x l : memN x l = false <-> ~ In x l.
Proof. rewrite <- memN_In. destruct (memN x l); split; congruence. Qed.
Lemma memN_reflect x l : reflect (In x l) (memN x l).
Proof. destruct (memN x l) eqn:E; constructor; [apply memN_In|apply memN_nIn]; auto. Qed.

Definition removeN (x:N) (l:list N) : list N := filter (fun y => negb (N.eqb x y)) l.
Lemma removeN_In x y l : In y (removeN x l) <-> In y l /\ y <> x.
Proof. unfold removeN. rewrite filter_In. rewrite negb_true_iff, N.eqb_neq. intuition. Qed.

(* order-preserving dedupe keeping the first occurrence (python: sqlautil.dedupe_tuple / OrderedSet) *)
Fixpoint dedupe_acc (seen l : list N) : list N :=
  match l with
  | [] => []
  | x :: r => if memN x seen then dedupe_acc seen r else x :: dedupe_acc (x :: seen) r
  end.
Definition dedupe (l:list N) : list N := dedupe_acc [] l.
Lemma dedupe_acc_In seen l x : In x (dedupe_acc seen l) <-> In x l /\ ~ In x seen.
Proof. revert seen; induction l as [|a r IH]; intros seen; cbn [dedupe_acc].
  - simpl; tauto.
  - destruct (memN_reflect a seen) as [Ha|Ha].
    + rewrite IH. simpl. split; [tauto|]. intros [[->|H] Hn]; tauto.
    + simpl. rewrite IH. simpl. split.
      * intros [->|[H Hn]]; [tauto|]. split; [tauto|]. intro; apply Hn; auto.
      * intros [[->|H] Hn]; [tauto|]. destruct (N.eq_dec a x) as [->|Hne]; [tauto|]. right. split; auto.
        intros [E|E]; [congruence|tauto]. Qed.
Lemma dedupe_In l x : In x (dedupe l) <-> In x l.
Proof. unfold dedupe. rewrite dedupe_acc_In. simpl; tauto. Qed.
Lemma dedupe_acc_NoDup seen l : NoDup (dedupe_acc seen l).
Proof. revert seen; induction l as [|a r IH]; intros seen; cbn [dedupe_acc]; [constructor|].
  destruct (memN a seen); auto. constructor; auto. rewrite dedupe_acc_In. simpl. tauto. Qed.
Lemma dedupe_NoDup l : NoDup (dedupe l).
Proof. apply dedupe_acc_NoDup. Qed.

Definition subsetN (a b : list N) : bool := forallb (fun x => memN x b) a.
Lemma subsetN_incl a b : subsetN a b = true <-> incl a b.
Proof. unfold subsetN, incl. rewrite forallb_forall. split; intros H x Hx; [apply memN_In|apply memN_In]; auto. Qed.
Definition seteqN (a b : list N) : bool := subsetN a b && subsetN b a.
Lemma seteqN_spec a b : seteqN a b = true <-> (forall x, In x a <-> In x b).
Proof. unfold seteqN. rewrite andb_true_iff, !subsetN_incl. unfold incl. firstorder. Qed.

Definition interN (a b : list N) : list N := filter (fun x => memN x b) a.
Lemma interN_In a b x : In x (interN a b) <-> In x a /\ In x b.
Proof. unfold interN. rewrite filter_In, memN_In. tauto. Qed.
Definition diffN (a b : list N) : list N := filter (fun x => negb (memN x b)) a.
Lemma diffN_In a b x : In x (diffN a b) <-> In x a /\ ~ In x b.
Proof. unfold diffN. rewrite filter_In, negb_true_iff, memN_nIn. tauto. Qed.

Fixpoint nodupb (l:list N) : bool :=
  match l with [] => true | x :: r => negb (memN x r) && nodupb r end.
Lemma nodupb_NoDup l : nodupb l = true <-> NoDup l.
Proof. induction l as [|x r IH]; simpl. { split; auto. constructor. }
  rewrite andb_true_iff, negb_true_iff, memN_nIn, IH. split.
  - intros [? ?]; constructor; auto.
  - inversion 1; auto. Qed.

Fixpoint list_eqb {A} (eqb:A->A->bool) (a b:list A) : bool :=
  match a, b with
  | [], [] => true
  | x::a', y::b' => eqb x y && list_eqb eqb a' b'
  | _, _ => false
  end.
Lemma list_eqbN_eq a b : list_eqb N.eqb a b = true <-> a = b.
Proof. revert b; induction a as [|x a IH]; destruct b as [|y b]; simpl; try (split; congruence).
  rewrite andb_true_iff, N.eqb_eq, IH. split; [intros [-> ->]; auto| inversion 1; auto]. Qed.

(* multiset equality on lists of N, by counting *)
Definition countN (x:N) (l:list N) : nat := length (filter (N.eqb x) l).
Definition permb (a b : list N) : bool :=
  Nat.eqb (length a) (length b) && forallb (fun x => Nat.eqb (countN x a) (countN x b)) (a ++ b).
