(* What the correspondence engine evaluates inside Coq: the indices of the cases on
   which a boolean relation between an input and the implementation's output fails. *)
From Coq Require Import List NArith.
Import ListNotations.
Fixpoint bad_idx_from {A B} (f : A -> B -> bool) (k:N) (l : list (A*B)) : list N :=
  match l with
  | [] => []
  | (a,b) :: r => if f a b then bad_idx_from f (N.succ k) r else k :: bad_idx_from f (N.succ k) r
  end.
Definition bad_idx {A B} (f : A -> B -> bool) (l : list (A*B)) : list N := bad_idx_from f 0%N l.
Fixpoint true_idx_from {A} (f : A -> bool) (k:N) (l : list A) : list N :=
  match l with
  | [] => []
  | a :: r => if f a then k :: true_idx_from f (N.succ k) r else true_idx_from f (N.succ k) r
  end.
Definition true_idx {A} (f : A -> bool) (l : list A) : list N := true_idx_from f 0%N l.
