(* Proofs for C03: decider soundness, the step invariant of HeadMaintainer.update_to_step, the trace theorem. *)
From AV Require Import Model.Heads Spec.C03 Proofs.C03Graph.
From Coq Require Import Permutation.

(* ================================================================== A. spec-level facts *)
Lemma has_child_in_spec G A x : has_child_in G A x = true <-> exists y, In y A /\ In x (all_down G y).
Proof. unfold has_child_in. rewrite existsb_exists. split; intros [y [H1 H2]]; exists y; split; auto; apply memN_In; auto. Qed.
Lemma maxl_In G A x : In x (maxl G A) <-> In x A /\ forall y, In y A -> ~ In x (all_down G y).
Proof. unfold maxl. rewrite filter_In, negb_true_iff. split; intros [H1 H2]; split; auto.
  - intros y Hy Hx. assert (has_child_in G A x = true) by (apply has_child_in_spec; eauto). congruence.
  - destruct (has_child_in G A x) eqn:E; auto. apply has_child_in_spec in E. destruct E as [y [Hy Hx]]. exfalso; eapply H2; eauto. Qed.
Lemma maxl_NoDup G A : NoDup A -> NoDup (maxl G A).
Proof. apply NoDup_filter. Qed.

Lemma closed_path G A x y : closed G A -> In x A -> path (all_down G) x y -> In y A.
Proof. intros C Hx P. induction P; auto. apply IHP. eapply C; eauto. Qed.

Definition noself (G:graph) : Prop := forall x, ~ In x (all_down G x).

Lemma is_head_maxl G A x : closed G A -> noself G -> (is_head G A x <-> In x (maxl G A)).
Proof. intros C NS. rewrite maxl_In. split; intros [H1 H2]; split; auto.
  - intros y Hy Hx. destruct (N.eq_dec y x) as [->|Hne]. { eapply NS; eauto. }
    apply (H2 y Hy Hne). apply path_edge; auto.
  - intros y Hy Hne P. destruct (path_last _ _ _ P) as [?|[w [Pw Hw]]]; [congruence|].
    apply (H2 w); auto. eapply closed_path; eauto. Qed.

Lemma maxl_antichain G A x y : closed G A -> In x (maxl G A) -> In y (maxl G A) -> x <> y -> ~ path (all_down G) x y.
Proof. intros C Hx Hy Hne P. apply maxl_In in Hx, Hy. destruct Hx as [Hx _]. destruct Hy as [Hy Hy2].
  destruct (path_last _ _ _ P) as [?|[w [Pw Hw]]]; [congruence|]. apply (Hy2 w); auto. apply (closed_path G A x w); auto. Qed.

(* closedness / duplicate-freeness of the ghost applied set along valid steps *)
Lemma ghost_closed G A r up : closed G A -> valid_step G A r up -> closed G (ghost r up A).
Proof. intros C V. destruct up; cbn [ghost valid_step] in *.
  - destruct V as [_ [Hs _]]. intros x p [->|Hx] Hp; [right; apply Hs; auto|right; eapply C; eauto].
  - destruct V as [Hr Hn]. intros x p Hx Hp. apply removeN_In in Hx. destruct Hx as [Hx Hne].
    apply removeN_In. split; [eapply C; eauto|]. intros ->. eapply Hn; eauto. Qed.
Lemma ghost_NoDup A r up G : NoDup A -> valid_step G A r up -> NoDup (ghost r up A).
Proof. intros ND V. destruct up; cbn [ghost valid_step] in *.
  - constructor; tauto.
  - apply NoDup_filter; auto. Qed.

(* ================================================================== B. boolean reflections *)
Lemma permb_count a b : permb a b = true -> forall x, countN x a = countN x b.
Proof. unfold permb. rewrite andb_true_iff, forallb_forall. intros [_ H] x.
  destruct (in_dec N.eq_dec x (a ++ b)) as [Hin|Hout].
  - apply Nat.eqb_eq. auto.
  - rewrite !countN_nIn; auto; intro; apply Hout; apply in_or_app; auto. Qed.
Lemma permb_In a b : permb a b = true -> forall x, In x a <-> In x b.
Proof. intros H x. rewrite !countN_In, (permb_count _ _ H). tauto. Qed.

Lemma wf_refsb_spec G : wf_refsb G = true -> wf_refs G.
Proof. unfold wf_refsb, wf_refs. rewrite andb_true_iff, nodupb_NoDup, forallb_forall. intros [H1 H2]. split; auto.
  intros r Hr. specialize (H2 r Hr). rewrite andb_true_iff, !subsetN_incl in H2. auto. Qed.
Lemma all_down_In G r : NoDup (ids G) -> In r G -> all_down G (r_id r) = all_down_r r.
Proof. intros. unfold all_down, of_rev. rewrite find_rev_In; auto. Qed.
Lemma noselfb_spec G : NoDup (ids G) -> noselfb G = true -> noself G.
Proof. unfold noselfb, noself. rewrite forallb_forall. intros ND H x Hx.
  unfold all_down, of_rev in Hx. destruct (find_rev G x) as [r|] eqn:E; [|destruct Hx].
  apply find_rev_Some in E. destruct E as [Hr <-]. specialize (H r Hr). rewrite negb_true_iff, memN_nIn in H. auto. Qed.

Lemma all_down_out G x : ~ In x (ids G) -> all_down G x = [].
Proof. apply of_rev_out. Qed.
Lemma closure_spec G l : exists A, closure G l = Some A /\ forall z, In z A <-> exists t, In t l /\ path (all_down G) t z.
Proof. apply reach_set_spec. apply all_down_out. Qed.
Lemma closure_closed G l A : closure G l = Some A -> closed G A.
Proof. intros E. destruct (closure_spec G l) as [A' [E' S]]. rewrite E in E'. inversion E'; subst A'.
  intros x p Hx Hp. apply S in Hx. destruct Hx as [t [Ht P]]. apply S. exists t. split; auto. eapply path_snoc; eauto. Qed.

Lemma valid_stepb_spec G A r up : valid_stepb G A r up = true -> valid_step G A r up.
Proof. unfold valid_stepb, valid_step. destruct up.
  - rewrite !andb_true_iff, negb_true_iff, memN_In, subsetN_incl, memN_nIn. tauto.
  - rewrite andb_true_iff, negb_true_iff, memN_In. intros [H1 H2]. split; auto. intros y Hy Hr.
    assert (has_child_in G A r = true) by (apply has_child_in_spec; eauto). congruence. Qed.

Lemma rows_okb_spec G A rws : closed G A -> noself G -> rows_okb G A rws = true -> rows_ok G A rws.
Proof. intros C NS. unfold rows_okb. rewrite !andb_true_iff, nodupb_NoDup. intros [[ND PB] CL].
  pose proof (permb_In _ _ PB) as EQ.
  destruct (closure_spec G rws) as [K [EK SK]]. rewrite EK in CL. rewrite seteqN_spec in CL.
  split; [auto|]. split; [|split].
  - intros x. rewrite (is_head_maxl G A x C NS). auto.
  - intros x y Hx Hy. apply (maxl_antichain G A); auto; apply EQ; auto.
  - intros z. rewrite <- CL. apply SK. Qed.

Lemma one_rowb_spec s : one_rowb s = true -> one_row s.
Proof. destruct s; cbn; auto; apply Nat.eqb_eq. Qed.
Lemma Forall_one_rowb l : forallb one_rowb l = true -> Forall one_row l.
Proof. rewrite forallb_forall, Forall_forall. intros H x Hx. apply one_rowb_spec; auto. Qed.

Lemma steps_holdb_spec G : noself G -> forall steps A os, closed G A -> steps_holdb G A steps os = true ->
  steps_hold G A steps os /\ closed G (ghost_steps steps A).
Proof. intros NS. induction steps as [|st steps IH]; intros A os C H.
  - destruct os; [|discriminate]. cbn; auto.
  - destruct st as [r up|]; [|discriminate]. destruct os as [|[rws stmts|e] os]; try discriminate.
    cbn [steps_holdb] in H. rewrite !andb_true_iff in H. destruct H as [[[H1 H2] H3] H4].
    apply valid_stepb_spec in H1. pose proof (ghost_closed _ _ _ _ C H1) as C'.
    destruct (IH _ _ C' H4) as [I1 I2]. cbn [steps_hold ghost_steps]. split; auto.
    split; auto. split; [apply rows_okb_spec; auto|]. split; auto. apply Forall_one_rowb; auto. Qed.

Lemma real_heads_In G x : NoDup (ids G) -> (In x (real_heads G) <-> In x (ids G) /\ no_child_in_G G x).
Proof. intros ND. unfold real_heads, no_child_in_G. rewrite in_map_iff. split.
  - intros [r [E Hr]]. apply filter_In in Hr. destruct Hr as [Hr Hn]. subst x. split; [apply in_map; auto|].
    intros c _ Hc. apply (all_nextrev_iff G) in Hc; auto. destruct (all_nextrev G (r_id r)); [destruct Hc|discriminate].
  - intros [Hx Hn]. unfold ids in Hx. apply in_map_iff in Hx. destruct Hx as [r [E Hr]]. exists r. split; auto.
    apply filter_In. split; auto. rewrite E. destruct (all_nextrev G x) as [|c l] eqn:EE; auto. exfalso.
    assert (Hc : In c (all_nextrev G x)) by (rewrite EE; left; auto).
    pose proof Hc as Hc'. apply (all_nextrev_iff G) in Hc; auto. apply (Hn c); auto.
    unfold all_nextrev in Hc'. apply children_by_In in Hc'. destruct Hc' as [r' [Hr' [E' _]]]. subst c. apply in_map; auto. Qed.

Lemma end_okb_spec G e rws : NoDup (ids G) -> end_okb G e rws = true -> end_ok G e rws.
Proof. intros ND. destruct e; cbn; auto.
  - rewrite seteqN_spec. intros H x. rewrite H. apply real_heads_In; auto.
  - destruct rws; auto; discriminate. Qed.

Lemma cmds_holdb_spec G : noself G -> NoDup (ids G) -> forall cmds A rws outs, closed G A ->
  cmds_holdb G A rws cmds outs = true -> cmds_hold G A rws cmds outs.
Proof. intros NS ND. induction cmds as [|[e steps] cmds IH]; intros A rws outs C H.
  - destruct outs; [cbn; auto|discriminate].
  - destruct outs as [|os outs]; [discriminate|]. cbn [cmds_holdb] in H. rewrite !andb_true_iff in H.
    destruct H as [[H1 H2] H3]. destruct (steps_holdb_spec G NS _ _ _ C H1) as [S1 S2].
    cbn [cmds_hold]. split; auto. split; [apply end_okb_spec; auto|]. apply IH; auto. Qed.

Lemma each_holdb_spec G : noself G -> NoDup (ids G) -> forall cmds A rws outs, closed G A ->
  each_holdb G A rws cmds outs = true -> each_hold G A rws cmds outs.
Proof. intros NS ND. induction cmds as [|c cmds IH]; intros A rws outs C H.
  - destruct outs; [cbn; auto|discriminate].
  - destruct outs as [|os outs]; [discriminate|]. cbn [each_holdb] in H. rewrite andb_true_iff in H. destruct H as [H1 H2].
    cbn [each_hold]. split; [apply cmds_holdb_spec; auto|apply IH; auto]. Qed.

Theorem decider_sound i o : check_C03 i o = true -> C03_holds i o.
Proof. destruct i as [[[G rws0] reset] cmds]. unfold check_C03, C03_holds. intros H PRE. rewrite PRE in H.
  unfold pre_C03 in PRE. rewrite !andb_true_iff in PRE. destruct PRE as [[[[W NSb] _] _] _].
  apply wf_refsb_spec in W. destruct W as [ND W]. pose proof (noselfb_spec G ND NSb) as NS.
  destruct (closure G rws0) as [A0|] eqn:E; [|discriminate]. exists A0. split; auto.
  pose proof (closure_closed _ _ _ E) as C.
  destruct reset; [apply each_holdb_spec|apply cmds_holdb_spec]; auto. Qed.

(* ================================================================== C. HeadMaintainer primitives *)
(* heads and rows are in step: same set, both duplicate-free *)
Definition sync (s:hm) : Prop := NoDup (heads s) /\ NoDup (rows s) /\ forall x, In x (heads s) <-> In x (rows s).

(* the call succeeds, every statement matches one row, state stays in step, and the new head set is S' *)
Definition eff (r : res (hm * list stmt)) (S' : N -> Prop) : Prop :=
  exists s' st, r = Ok (s', st) /\ sync s' /\ Forall one_row st /\ forall x, In x (heads s') <-> S' x.

Lemma eff_ext r (S1 S2 : N -> Prop) : eff r S1 -> (forall x, S1 x <-> S2 x) -> eff r S2.
Proof. intros [s' [st [E [Sy [F H]]]]] EQ. exists s', st. split; auto. split; auto. split; auto. intros x. rewrite H. apply EQ. Qed.

Lemma removeN_NoDup x l : NoDup l -> NoDup (removeN x l).
Proof. apply NoDup_filter. Qed.
Lemma count_one x l : NoDup l -> In x l -> countN x l = 1.
Proof. intros ND Hin. apply countN_In in Hin. pose proof (proj1 (countN_NoDup l) ND x). lia. Qed.

Lemma upd_rows_In f t l x : In x (upd_rows f t l) <-> (x = t /\ In f l) \/ (In x l /\ x <> f).
Proof. unfold upd_rows. rewrite in_map_iff. split.
  - intros [y [E Hy]]. destruct (N.eqb_spec y f) as [Ey|Hne]; [left|right]; subst; auto.
  - intros [[-> Hf]|[Hx Hne]].
    + exists f. rewrite N.eqb_refl. auto.
    + exists x. destruct (N.eqb_spec x f); [congruence|auto]. Qed.
Lemma upd_rows_NoDup f t l : NoDup l -> ~ In t l -> NoDup (upd_rows f t l).
Proof. induction 1 as [|a l Ha ND IH]; intros Ht; [constructor|]. cbn [upd_rows map].
  assert (Ht' : ~ In t l) by (intro; apply Ht; right; auto). constructor; [|apply IH; auto].
  fold (upd_rows f t l). rewrite upd_rows_In. destruct (N.eqb_spec a f) as [->|Hne].
  - intros [[_ Hf]|[H1 H2]]; auto.
  - intros [[-> _]|[H1 H2]]; auto. apply Ht; left; auto. Qed.

Lemma NoDup_snoc (v:N) l : NoDup l -> ~ In v l -> NoDup (l ++ [v]).
Proof. intros ND Hv. apply (Permutation_NoDup (l := v :: l)); [apply Permutation_cons_append|constructor; auto]. Qed.

Lemma eff_insert v s : sync s -> ~ In v (heads s) -> eff (insert_version v s) (fun x => x = v \/ In x (heads s)).
Proof. intros [N1 [N2 EQ]] Hv. unfold insert_version. apply memN_nIn in Hv. rewrite Hv. apply memN_nIn in Hv.
  eexists _, _. split; [reflexivity|]. unfold sync. cbn [heads rows]. split; [|split].
  - split; [constructor; auto|]. split.
    + apply NoDup_snoc; auto. rewrite <- EQ; auto.
    + intros x. rewrite in_app_iff. cbn [In]. rewrite EQ. intuition.
  - repeat constructor.
  - intros x. cbn [In]. intuition. Qed.

Lemma eff_delete v s : sync s -> In v (heads s) -> eff (delete_version v s) (fun x => In x (heads s) /\ x <> v).
Proof. intros [N1 [N2 EQ]] Hv. unfold delete_version. apply memN_In in Hv. rewrite Hv. apply memN_In in Hv.
  rewrite (count_one v (rows s)); [|auto|apply EQ; auto]. cbn [Nat.eqb].
  eexists _, _. split; [reflexivity|]. unfold sync. cbn [heads rows]. split; [|split].
  - split; [apply removeN_NoDup; auto|]. split; [apply removeN_NoDup; auto|].
    intros x. rewrite !removeN_In, EQ. tauto.
  - repeat constructor.
  - intros x. apply removeN_In. Qed.

Lemma eff_update f t s : sync s -> In f (heads s) -> ~ In t (heads s) ->
  eff (update_version f t s) (fun x => x = t \/ (In x (heads s) /\ x <> f)).
Proof. intros [N1 [N2 EQ]] Hf Ht. unfold update_version. apply memN_nIn in Ht. rewrite Ht. apply memN_nIn in Ht.
  apply memN_In in Hf. rewrite Hf. apply memN_In in Hf.
  rewrite (count_one f (rows s)); [|auto|apply EQ; auto]. cbn [Nat.eqb].
  eexists _, _. split; [reflexivity|]. unfold sync. cbn [heads rows]. split; [|split].
  - split; [|split].
    + constructor; [|apply removeN_NoDup; auto]. rewrite removeN_In. tauto.
    + apply upd_rows_NoDup; auto. rewrite <- EQ; auto.
    + intros x. cbn [In]. rewrite removeN_In, upd_rows_In, <- !EQ. intuition.
  - repeat constructor.
  - intros x. cbn [In]. rewrite removeN_In. intuition. Qed.

Lemma eff_then a f (S1 S2 : N -> Prop) :
  eff a S1 -> (forall s1, sync s1 -> (forall x, In x (heads s1) <-> S1 x) -> eff (f s1) S2) -> eff (then_ a f) S2.
Proof. intros [s1 [st1 [E1 [Sy1 [F1 H1]]]]] K. destruct (K s1 Sy1 H1) as [s2 [st2 [E2 [Sy2 [F2 H2]]]]].
  exists s2, (st1 ++ st2). unfold then_. rewrite E1. cbn [bind fst snd]. rewrite E2. cbn [bind fst snd].
  split; auto. split; auto. split; auto. apply Forall_app; auto. Qed.

Lemma eff_each_delete l : forall s, sync s -> NoDup l -> incl l (heads s) ->
  eff (each delete_version l s) (fun x => In x (heads s) /\ ~ In x l).
Proof. induction l as [|v l IH]; intros s Sy ND Hin.
  - exists s, []. cbn [each]. split; [reflexivity|]. split; auto. split; [constructor|]. intros x; cbn [In]; tauto.
  - inversion ND as [|? ? Hv ND']; subst. cbn [each].
    change (bind (delete_version v s) (fun p => bind (each delete_version l (fst p)) (fun q => Ok (fst q, snd p ++ snd q))))
      with (then_ (delete_version v s) (each delete_version l)).
    eapply eff_then; [apply eff_delete; auto; apply Hin; left; auto|].
    intros s1 Sy1 H1. eapply eff_ext; [apply IH; auto|].
    + intros x Hx. apply H1. split; [apply Hin; right; auto|]. intros ->; auto.
    + intros x. cbv beta. rewrite H1. cbn [In]. intuition. Qed.

Lemma eff_each_insert l : forall s, sync s -> NoDup l -> (forall x, In x l -> ~ In x (heads s)) ->
  eff (each insert_version l s) (fun x => In x (heads s) \/ In x l).
Proof. induction l as [|v l IH]; intros s Sy ND Hout.
  - exists s, []. cbn [each]. split; [reflexivity|]. split; auto. split; [constructor|]. intros x; cbn [In]; tauto.
  - inversion ND as [|? ? Hv ND']; subst. cbn [each].
    change (bind (insert_version v s) (fun p => bind (each insert_version l (fst p)) (fun q => Ok (fst q, snd p ++ snd q))))
      with (then_ (insert_version v s) (each insert_version l)).
    eapply eff_then; [apply eff_insert; auto; apply Hout; left; auto|].
    intros s1 Sy1 H1. eapply eff_ext; [apply IH; auto|].
    + intros x Hx. rewrite H1. intros [->|Hh]; auto. apply (Hout x); auto. right; auto.
    + intros x. cbv beta. rewrite H1. cbn [In]. intuition. Qed.

(* ================================================================== D. graph facts *)
(* what the proofs need of a loaded history *)
Record gwf (G:graph) : Prop := mkGwf {
  g_refs : forall x y, In y (all_down G x) -> In y (ids G);
  g_acyc : ~ cyclic (all_down G);
  g_n1 : forall x p, In p (norm_down G x) -> In p (all_down G x);
  g_n2 : forall x d, In d (all_down G x) -> ~ In d (norm_down G x) ->
           exists p, In p (norm_down G x) /\ path1 (all_down G) p d;
  g_nd : forall x, NoDup (norm_down G x) }.

Lemma gwf_noself G : gwf G -> noself G.
Proof. intros W x Hx. apply (g_acyc G W). exists x, x. split; auto. constructor. Qed.
Lemma gwf_antisym G x y : gwf G -> path (all_down G) x y -> path (all_down G) y x -> x = y.
Proof. intros W P1 P2. destruct (path_inv _ _ _ P1) as [?|Q]; auto. exfalso. apply (g_acyc G W). exists x.
  eapply path1_r; eauto. Qed.
Lemma gwf_path1_neq G x y : gwf G -> path1 (all_down G) x y -> x <> y.
Proof. intros W P ->. apply (g_acyc G W). exists y; auto. Qed.

(* L2: reachability through the normalised parents = reachability through all parents *)
Lemma norm_path_all G x y : gwf G -> path (norm_down G) x y -> path (all_down G) x y.
Proof. intros W. apply path_incl. apply (g_n1 G W). Qed.
Lemma all_path_norm G : gwf G -> forall x y, path (all_down G) x y -> path (norm_down G) x y.
Proof. intros W x. pattern x. apply (well_founded_ind (acyclic_wf (all_down G) (ids G) (g_refs G W) (g_acyc G W))).
  clear x. intros x IH y P. destruct P as [x|x p z Hp P]; [constructor|].
  destruct (in_dec N.eq_dec p (norm_down G x)) as [Hin|Hout].
  - eapply path_step; eauto.
  - destruct (g_n2 G W x p Hp Hout) as [q [Hq Q]]. eapply path_step; [exact Hq|].
    apply IH; [apply (g_n1 G W); auto|]. eapply path_trans; [apply path1_path; eauto|auto]. Qed.

(* L1: in a closed finite applied set every revision is below a maximal one *)
Lemma below_max G A : gwf G -> forall x, In x A -> exists h, In h (maxl G A) /\ path (all_down G) h x.
Proof. intros W.
  set (up := fun x => filter (fun y => memN x (all_down G y)) A).
  assert (Hup : forall x y, In y (up x) <-> In y A /\ In x (all_down G y)).
  { intros x y. unfold up. rewrite filter_In, memN_In. tauto. }
  assert (Hac : ~ cyclic up).
  { intros [x [y [Hy P]]]. apply (g_acyc G W). exists y. exists x. split; [apply Hup; auto|].
    eapply path_rev; [|exact P]. intros a b Hb. apply Hup in Hb. tauto. }
  assert (Hin : forall x y, In y (up x) -> In y A) by (intros x y Hy; apply Hup in Hy; tauto).
  intros x. pattern x. apply (well_founded_ind (acyclic_wf up A Hin Hac)). clear x. intros x IH Hx.
  destruct (has_child_in G A x) eqn:E.
  - apply has_child_in_spec in E. destruct E as [y [Hy Hxy]]. destruct (IH y) as [h [Hh P]]; auto. { apply Hup; auto. }
    exists h. split; auto. eapply path_snoc; eauto.
  - exists x. split; [|constructor]. unfold maxl. apply filter_In. rewrite E. auto. Qed.

(* last edge of a non-empty path *)
Lemma path1_last (succ : N -> list N) a x : path1 succ a x -> exists w, path succ a w /\ In x (succ w).
Proof. intros [y [Hy P]]. destruct (path_last _ _ _ P) as [->|[w [Pw Hw]]].
  - exists a. split; [constructor|auto].
  - exists w. split; auto. eapply path_step; eauto. Qed.

Section StepFacts.
  Variable G : graph.
  Hypothesis W : gwf G.
  Variable A : list N.
  Hypothesis C : closed G A.
  Let H := maxl G A.

  (* (i) a row that is a parent of r through all_down is a normalised parent of r *)
  Lemma rows_norm_parents r : incl (all_down G r) A ->
    forall x, In x (interN (norm_down G r) H) <-> In x H /\ In x (all_down G r).
  Proof. intros Hs x. rewrite interN_In. split.
    - intros [H1 H2]. split; auto. apply (g_n1 G W); auto.
    - intros [H1 H2]. split; auto. destruct (in_dec N.eq_dec x (norm_down G r)) as [|Hout]; auto. exfalso.
      destruct (g_n2 G W r x H2 Hout) as [p [Hp Q]]. destruct (path1_last _ _ _ Q) as [w [Pw Hw]].
      apply maxl_In in H1. destruct H1 as [_ H1]. apply (H1 w); auto.
      apply (closed_path G A p w C); auto. apply Hs. apply (g_n1 G W); auto. Qed.

  Lemma maxl_up r : incl (all_down G r) A -> ~ In r A ->
    forall x, In x (maxl G (r :: A)) <-> x = r \/ (In x H /\ ~ In x (all_down G r)).
  Proof. intros Hs Hr x. unfold H. rewrite !maxl_In. cbn [In]. split.
    - intros [[->|Hx] Hn]; auto. right. split; [split; auto|]. apply (Hn r); auto.
    - intros [->|[[Hx Hn] Hnr]].
      + split; auto. intros y [->|Hy] Hc. { eapply gwf_noself; eauto. } apply Hr. eapply C; eauto.
      + split; auto. intros y [->|Hy]; auto. Qed.

  (* (ii) what becomes maximal when r is removed *)
  Definition newmax (r x : N) : Prop := In x (all_down G r) /\ forall y, In y A -> y <> r -> ~ In x (all_down G y).

  Lemma maxl_down r : In r A -> (forall y, In y A -> ~ In r (all_down G y)) ->
    forall x, In x (maxl G (removeN r A)) <-> (In x H /\ x <> r) \/ newmax r x.
  Proof. intros Hr Hn x. unfold H, newmax. rewrite !maxl_In, removeN_In. split.
    - intros [[Hx Hne] Hm]. destruct (in_dec N.eq_dec x (all_down G r)) as [Hin|Hout].
      + right. split; auto. intros y Hy Hyr. apply Hm. apply removeN_In; auto.
      + left. split; auto. split; auto. intros y Hy. destruct (N.eq_dec y r) as [->|Hyr]; auto. apply Hm. apply removeN_In; auto.
    - intros [[[Hx Hm] Hne]|[Hx Hm]].
      + split; auto. intros y Hy. apply removeN_In in Hy. apply Hm; tauto.
      + split; [split; [eapply C; eauto|]|].
        * intros ->. eapply gwf_noself; eauto.
        * intros y Hy. apply removeN_In in Hy. apply Hm; tauto. Qed.

  Lemma newmax_not_row r x : In r A -> newmax r x -> ~ In x H.
  Proof. intros Hr [Hx _] Hh. apply maxl_In in Hh. destruct Hh as [_ Hh]. apply (Hh r); auto. Qed.

  (* a strict descendant-in-A of x other than r contradicts newmax *)
  Lemma newmax_no_path r x a : In r A -> (forall y, In y A -> ~ In r (all_down G y)) -> newmax r x ->
    In a A -> a <> r -> ~ path1 (all_down G) a x.
  Proof. intros Hr Hn [Hx Hm] Ha Har Q. destruct (path1_last _ _ _ Q) as [w [Pw Hw]].
    assert (Hwa : In w A) by (apply (closed_path G A a w C); auto).
    apply (Hm w); auto. intros ->.
    destruct (path_inv _ _ _ Pw) as [?|Q']; [congruence|]. destruct (path1_last _ _ _ Q') as [w' [Pw' Hw']].
    apply (Hn w'); auto. apply (closed_path G A a w' C); auto. Qed.

  (* the set computed by _unmerge_to_revisions *)
  Lemma unmerge_set r : In r A -> (forall y, In y A -> ~ In r (all_down G y)) ->
    forall x, (In x (norm_down G r) /\
               ~ (exists t, In t (norm_down G r) /\ path (norm_down G) t x /\ x <> t) /\
               ~ (exists h, (In h H /\ h <> r) /\ path (norm_down G) h x))
              <-> newmax r x.
  Proof. intros Hr Hn x. split.
    - intros [Hp [Ha1 Ha2]]. split; [apply (g_n1 G W); auto|]. intros y Hy Hyr Hxy.
      destruct (below_max G A W y Hy) as [h [Hh Ph]]. fold H in Hh.
      destruct (N.eq_dec h r) as [->|Hhr].
      + destruct (path_inv _ _ _ Ph) as [?|[q [Hq Pq]]]; [congruence|].
        assert (Qx : path1 (all_down G) q x) by (eapply path1_snoc; eauto).
        destruct (in_dec N.eq_dec q (norm_down G r)) as [Hin|Hout].
        * apply Ha1. exists q. split; auto. split; [apply all_path_norm; auto; apply path1_path; auto|].
          intros ->. eapply gwf_path1_neq; eauto.
        * destruct (g_n2 G W r q Hq Hout) as [p [Hp' Qp]].
          assert (Qpx : path1 (all_down G) p x) by (eapply path1_r; [exact Qp|apply path1_path; auto]).
          apply Ha1. exists p. split; auto. split; [apply all_path_norm; auto; apply path1_path; auto|].
          intros ->. eapply gwf_path1_neq; eauto.
      + apply Ha2. exists h. split; auto. apply all_path_norm; auto. eapply path_snoc; eauto.
    - intros NM. pose proof NM as [Hx Hm].
      assert (HrA : forall p, In p (all_down G r) -> In p A) by (intros; eapply C; eauto).
      assert (Hpr : forall p, In p (all_down G r) -> p <> r) by (intros p Hp ->; eapply gwf_noself; eauto).
      split; [|split].
      + destruct (in_dec N.eq_dec x (norm_down G r)) as [|Hout]; auto. exfalso.
        destruct (g_n2 G W r x Hx Hout) as [p [Hp Q]]. apply (g_n1 G W) in Hp.
        eapply (newmax_no_path r x p); eauto.
      + intros [t [Ht [Pt Hne]]]. apply (g_n1 G W) in Ht. apply norm_path_all in Pt; auto.
        destruct (path_inv _ _ _ Pt) as [?|Q]; [congruence|]. eapply (newmax_no_path r x t); eauto.
      + intros [h [[Hh Hhr] Ph]]. apply norm_path_all in Ph; auto.
        destruct (path_inv _ _ _ Ph) as [->|Q]. { eapply newmax_not_row; eauto. }
        apply maxl_In in Hh. destruct Hh as [Hh _]. eapply (newmax_no_path r x h); eauto. Qed.
End StepFacts.

(* ================================================================== E. the model of _unmerge_to_revisions *)
Lemma anc_nodes_spec G targets : exists l, anc_nodes G targets = Some l /\
  forall z, In z l <-> exists t, In t targets /\ path (norm_down G) t z.
Proof. apply reach_set_spec. intros x Hx. apply of_rev_out; auto. Qed.

Lemma strict_ancs_spec G P : exists l, strict_ancs G P = Some l /\
  forall z, In z l <-> exists t, In t P /\ path (norm_down G) t z /\ z <> t.
Proof. induction P as [|t P [l [E S]]].
  - exists []. split; auto. intros z. split; [intros []|intros [t [[] _]]].
  - destruct (anc_nodes_spec G [t]) as [a [Ea Sa]]. exists (removeN t a ++ l). cbn [strict_ancs]. rewrite Ea, E. split; auto.
    intros z. rewrite in_app_iff, removeN_In, Sa, S. split.
    + intros [[[t' [[->|[]] Pt]] Hne]|[t' [Ht' Q]]]; [exists t'|exists t']; cbn [In]; auto.
    + intros [t' [[->|Ht'] [Pt Hne]]]; [left|right; exists t'; auto]. split; auto. exists t'. cbn [In]; auto. Qed.

Lemma unmerge_to_spec G r Hd : exists to0, unmerge_to_revisions G r Hd = Ok to0 /\
  forall x, In x to0 <-> In x (norm_down G r) /\
              ~ (exists t, In t (norm_down G r) /\ path (norm_down G) t x /\ x <> t) /\
              ~ (exists h, (In h Hd /\ h <> r) /\ path (norm_down G) h x).
Proof. unfold unmerge_to_revisions. destruct (strict_ancs_spec G (norm_down G r)) as [a1 [E1 S1]]. rewrite E1.
  assert (exists a2, (if is_nil (removeN r Hd) then Some [] else anc_nodes G (removeN r Hd)) = Some a2 /\
            forall z, In z a2 <-> exists h, (In h Hd /\ h <> r) /\ path (norm_down G) h z) as [a2 [E2 S2]].
  { destruct (removeN r Hd) as [|o os] eqn:EO.
    - exists []. split; auto. intros z. split; [intros []|]. intros [h [Hh _]]. apply removeN_In in Hh. rewrite EO in Hh. destruct Hh.
    - cbn [is_nil]. rewrite <- EO. destruct (anc_nodes_spec G (removeN r Hd)) as [a2 [E2 S2]]. exists a2. split; auto.
      intros z. rewrite S2. split; intros [h [Hh Ph]]; exists h; split; auto; apply removeN_In; auto. }
  rewrite E2. eexists. split; [reflexivity|]. intros x. rewrite diffN_In, in_app_iff, S1, S2. tauto. Qed.

(* ================================================================== F. one step of update_to_step *)
Lemma is_nil_true {A} (l:list A) : is_nil l = true <-> l = [].
Proof. destruct l; cbn; split; auto; discriminate. Qed.
Lemma is_nil_false {A} (l:list A) : is_nil l = false <-> l <> [].
Proof. destruct l; cbn; split; auto; try discriminate; congruence. Qed.

Lemma removelast_last_NoDup (F:list N) : F <> [] -> NoDup F ->
  NoDup (removelast F) /\ ~ In (last F 0%N) (removelast F) /\ forall x, In x F <-> In x (removelast F) \/ x = last F 0%N.
Proof. intros Hne ND. pose proof (app_removelast_last 0%N Hne) as E.
  assert (ND' : NoDup (removelast F ++ [last F 0%N])) by (rewrite <- E; auto).
  split; [|split].
  - apply NoDup_remove_1 in ND'. rewrite app_nil_r in ND'. auto.
  - apply NoDup_remove_2 in ND'. rewrite app_nil_r in ND'. auto.
  - intros x. rewrite E at 1. rewrite in_app_iff. cbn [In]. intuition. Qed.

(* delete all of F but the last, update the last to t: F is replaced by t *)
Lemma eff_replace F t s : sync s -> NoDup F -> F <> [] -> incl F (heads s) -> ~ In t (heads s) ->
  eff (then_ (each delete_version (removelast F) s) (update_version (last F 0%N) t))
      (fun x => x = t \/ (In x (heads s) /\ ~ In x F)).
Proof. intros Sy ND Hne Hin Ht. destruct (removelast_last_NoDup F Hne ND) as [ND' [Hl HF]].
  eapply eff_then.
  - apply eff_each_delete; auto. intros x Hx. apply Hin. apply HF; auto.
  - intros s1 Sy1 H1. eapply eff_ext; [apply eff_update; auto|].
    + apply H1. split; auto. apply Hin. apply HF; auto.
    + rewrite H1. tauto.
    + intros x. cbv beta. rewrite H1, (HF x). intuition. Qed.

(* insert all of T but the last, update f to the last: f is replaced by T *)
Lemma eff_spread T f s : sync s -> NoDup T -> T <> [] -> (forall x, In x T -> ~ In x (heads s)) -> In f (heads s) ->
  eff (then_ (each insert_version (removelast T) s) (update_version f (last T 0%N)))
      (fun x => (In x (heads s) /\ x <> f) \/ In x T).
Proof. intros Sy ND Hne Hout Hf. destruct (removelast_last_NoDup T Hne ND) as [ND' [Hl HT]].
  eapply eff_then.
  - apply eff_each_insert; auto. intros x Hx. apply Hout. apply HT; auto.
  - intros s1 Sy1 H1. eapply eff_ext; [apply eff_update; auto|].
    + apply H1. auto.
    + rewrite H1. intros [Hh|Hr]; auto. apply (Hout (last T 0%N)); auto. apply HT; auto.
    + intros x. cbv beta. rewrite H1, (HT x).
      assert (In f T -> False) by (intros Hft; apply (Hout f); auto).
      split.
      * intros [->|[[Hh|Hr] Hxf]]; auto.
      * intros [[Hh Hxf]|[Hr| ->]]; auto. right. split; auto. intros ->. apply H. apply HT; auto. Qed.

Definition Inv (G:graph) (A:list N) (s:hm) : Prop :=
  closed G A /\ sync s /\ forall x, In x (heads s) <-> In x (maxl G A).

Section OneStep.
  Variable G : graph.
  Variable ord : list N -> list N.
  Hypothesis W : gwf G.
  Hypothesis ord_perm : forall l, Permutation (ord l) l.

  Lemma filter_single (f:N->bool) d : filter f [d] <> [] -> filter f [d] = [d].
  Proof. cbn. destruct (f d); congruence. Qed.

  Lemma rev_step_up r A s : Inv G A s -> valid_step G A r true ->
    eff (rev_step G ord r true s) (fun x => In x (maxl G (ghost r true A))).
  Proof. intros [C [Sy HM]] [Hrid [Hs Hr]]. cbn [ghost].
    unfold rev_step. set (P := norm_down G r). set (F := interN P (heads s)).
    assert (NDP : NoDup P) by apply (g_nd G W).
    assert (NDF : NoDup F) by (apply NoDup_filter; auto).
    assert (HF : forall x, In x F <-> In x (heads s) /\ In x (all_down G r)).
    { intros x. unfold F. rewrite interN_In, HM. rewrite <- (rows_norm_parents G W A C r Hs x), interN_In. tauto. }
    assert (HFin : incl F (heads s)) by (intros x Hx; apply HF in Hx; tauto).
    assert (Hrh : ~ In r (heads s)) by (rewrite HM, maxl_In; tauto).
    assert (TGT : forall x, (x = r \/ (In x (heads s) /\ ~ In x F)) <-> In x (maxl G (r :: A))).
    { intros x. rewrite (maxl_up G W A C r Hs Hr x), HF, <- HM. tauto. }
    destruct (is_nil P || is_nil F) eqn:E1.
    - (* should_create_branch *)
      assert (EF : F = []).
      { apply orb_true_iff in E1. destruct E1 as [E|E]; apply is_nil_true in E; auto. unfold F. rewrite E. reflexivity. }
      eapply eff_ext; [apply eff_insert; auto|]. intros x. cbv beta. rewrite <- TGT, EF. cbn [In]. tauto.
    - apply orb_false_iff in E1. destruct E1 as [EP EF]. apply is_nil_false in EP, EF.
      destruct (Nat.ltb 1 (length P) && Nat.ltb 1 (length F)) eqn:E2.
      + (* should_merge_branches *)
        eapply eff_ext; [apply eff_replace; auto|]. exact TGT.
      + (* update_version_num *)
        assert (exists d, F = [d] /\ rev_update_version_num G r true (heads s) = Ok (d, r)) as [d [EFd EU]].
        { unfold rev_update_version_num. fold P. fold F.
          destruct (Nat.eqb (length P) 1) eqn:E3.
          - apply Nat.eqb_eq in E3. destruct P as [|d [|? ?]] eqn:EPP; try discriminate. exists d. cbn [hd bind]. split; auto.
            unfold F. apply filter_single. exact EF.
          - apply Nat.eqb_neq in E3. apply andb_false_iff in E2. rewrite !Nat.ltb_ge in E2.
            destruct F as [|d [|? ?]] eqn:EFF; try congruence.
            + exists d. auto.
            + exfalso. destruct P as [|? [|? ?]]; cbn [length] in *; try congruence; destruct E2; lia. }
        rewrite EU. cbn [bind fst snd]. eapply eff_ext; [apply eff_update; auto|].
        * apply HFin. rewrite EFd. left; auto.
        * intros x. cbv beta. rewrite <- TGT, EFd. cbn [In]. intuition. Qed.

  Lemma rev_step_down r A s : Inv G A s -> valid_step G A r false ->
    eff (rev_step G ord r false s) (fun x => In x (maxl G (ghost r false A))).
  Proof. intros [C [Sy HM]] [Hr Hn]. cbn [ghost].
    unfold rev_step. set (P := norm_down G r).
    assert (Hrh : In r (heads s)) by (rewrite HM, maxl_In; auto).
    assert (E0 : memN r (heads s) = true) by (apply memN_In; auto). rewrite E0.
    assert (TGT : forall x, In x (maxl G (removeN r A)) <-> (In x (heads s) /\ x <> r) \/ newmax G A r x).
    { intros x. rewrite (maxl_down G W A C r Hr Hn x), HM. tauto. }
    destruct (unmerge_to_spec G r (heads s)) as [to0 [ET ST]].
    assert (ST' : forall x, In x to0 <-> newmax G A r x).
    { intros x. rewrite ST. rewrite <- (unmerge_set G W A C r Hr Hn x). fold P.
      split; intros [H1 [H2 H3]]; split; auto; split; auto; intros [h [[Hh Hne] Ph]]; apply H3; exists h;
        (split; [split; auto; apply HM; auto|auto]). }
    assert (NDT : NoDup to0).
    { revert ET. unfold unmerge_to_revisions. destruct (strict_ancs G (norm_down G r)); [|discriminate].
      destruct (if is_nil (removeN r (heads s)) then Some [] else anc_nodes G (removeN r (heads s))); [|discriminate].
      inversion 1. apply NoDup_filter. apply (g_nd G W). }
    assert (DEL : (forall x, ~ newmax G A r x) ->
                  eff (delete_version r s) (fun x => In x (maxl G (removeN r A)))).
    { intros Hno. eapply eff_ext; [apply eff_delete; auto|]. intros x. cbv beta. rewrite TGT. specialize (Hno x). tauto. }
    destruct (is_nil P) eqn:EP.
    - (* a base *)
      apply is_nil_true in EP. apply DEL. intros x [Hx _].
      destruct (g_n2 G W r x Hx) as [p [Hp _]].
      { change (norm_down G r) with P. rewrite EP. auto. }
      change (norm_down G r) with P in Hp. rewrite EP in Hp. destruct Hp.
    - rewrite ET. destruct (is_nil to0) eqn:ET0.
      + apply is_nil_true in ET0. apply DEL. intros x Hx. apply ST' in Hx. rewrite ET0 in Hx. destruct Hx.
      + apply is_nil_false in EP, ET0.
        assert (Hout : forall x, In x to0 -> ~ In x (heads s)).
        { intros x Hx. apply ST' in Hx. rewrite HM. eapply newmax_not_row; eauto. }
        destruct (Nat.ltb 1 (length P)) eqn:E2.
        * (* should_unmerge_branches *)
          pose proof (ord_perm to0) as PE.
          eapply eff_ext; [apply eff_spread; auto|].
          -- eapply Permutation_NoDup; [apply Permutation_sym; exact PE|auto].
          -- intros E. rewrite E in PE. apply Permutation_nil in PE. auto.
          -- intros x Hx. apply Hout. eapply Permutation_in; eauto.
          -- intros x. cbv beta. rewrite TGT, <- ST'. split; (intros [?|Hx]; [left; auto|right]).
             ++ eapply Permutation_in; eauto.
             ++ eapply Permutation_in; [apply Permutation_sym|]; eauto.
        * (* update_version_num *)
          apply Nat.ltb_ge in E2. destruct P as [|p [|? ?]] eqn:EPP; cbn [length] in E2; try congruence; try lia.
          unfold rev_update_version_num. fold P. rewrite EPP. cbn [length Nat.eqb hd bind fst snd].
          assert (Hto : forall x, In x to0 <-> x = p).
          { intros x. split.
            - intros Hx. apply ST in Hx. destruct Hx as [Hx _]. fold P in Hx. rewrite EPP in Hx. destruct Hx as [?|[]]; auto.
            - intros ->. destruct to0 as [|y tl]; [congruence|]. assert (Hy : In y (y :: tl)) by (left; auto).
              pose proof Hy as Hy'. apply ST in Hy'. destruct Hy' as [Hy' _]. fold P in Hy'. rewrite EPP in Hy'.
              destruct Hy' as [<-|[]]. auto. }
          eapply eff_ext; [apply eff_update; auto|].
          -- apply Hout. apply Hto. auto.
          -- intros x. cbv beta. rewrite TGT, <- ST', Hto. tauto. Qed.
End OneStep.

(* ================================================================== G. steps, commands, traces *)
Lemma Inv_rows_ok G A s : gwf G -> Inv G A s -> rows_ok G A (rows s).
Proof. intros W [C [[N1 [N2 EQ]] HM]]. pose proof (gwf_noself G W) as NS.
  assert (EQ' : forall x, In x (rows s) <-> In x (maxl G A)) by (intros x; rewrite <- EQ; apply HM).
  split; auto. split; [|split].
  - intros x. rewrite (is_head_maxl G A x C NS). auto.
  - intros x y Hx Hy. apply (maxl_antichain G A); auto; apply EQ'; auto.
  - intros z. split.
    + intros Hz. destruct (below_max G A W z Hz) as [h [Hh P]]. exists h. split; auto. apply EQ'; auto.
    + intros [h [Hh P]]. apply EQ' in Hh. apply maxl_In in Hh. destruct Hh as [Hh _]. eapply closed_path; eauto. Qed.

Fixpoint valid_steps (G:graph) (A:list N) (steps:list step) : Prop :=
  match steps with
  | [] => True
  | RevStep r up :: t => valid_step G A r up /\ valid_steps G (ghost r up A) t
  | _ => False
  end.

Section Trace.
  Variable G : graph.
  Variable ord : list N -> list N.
  Hypothesis W : gwf G.
  Hypothesis ord_perm : forall l, Permutation (ord l) l.

  Theorem step_thm r up A s : Inv G A s -> valid_step G A r up ->
    exists s' st, update_to_step G ord (RevStep r up) s = Ok (s', st) /\
                  Inv G (ghost r up A) s' /\ Forall one_row st /\ rows_ok G (ghost r up A) (rows s').
  Proof. intros I V.
    assert (E : eff (rev_step G ord r up s) (fun x => In x (maxl G (ghost r up A)))).
    { destruct up; [apply rev_step_up|apply rev_step_down]; auto. }
    destruct E as [s' [st [E [Sy [F HM]]]]]. exists s', st. cbn [update_to_step].
    assert (I' : Inv G (ghost r up A) s').
    { destruct I as [C _]. split; [eapply ghost_closed; eauto|]. split; auto. }
    split; auto. split; auto. split; auto. apply Inv_rows_ok; auto. Qed.

  Theorem run_steps_thm : forall steps A s, Inv G A s -> valid_steps G A steps ->
    exists os s', run_steps G ord steps s = (os, Some s') /\ steps_hold G A steps os /\
                  Inv G (ghost_steps steps A) s' /\ last_rows os (rows s) = rows s'.
  Proof. induction steps as [|st steps IH]; intros A s I V.
    - exists [], s. cbn. auto.
    - destruct st as [r up|]; [|destruct V]. destruct V as [V1 V2].
      destruct (step_thm r up A s I V1) as [s1 [stm [E [I1 [F R]]]]].
      destruct (IH _ _ I1 V2) as [os [s' [E' [SH [I' L]]]]].
      exists (ObsOk (rows s1) stm :: os), s'. cbn [run_steps]. rewrite E, E'. cbn [steps_hold ghost_steps last_rows].
      split; auto. Qed.

  Definition InvR (A rws:list N) : Prop := closed G A /\ NoDup rws /\ forall x, In x rws <-> In x (maxl G A).
  Lemma start_Inv A rws : InvR A rws -> Inv G A (start rws).
  Proof. intros [C [ND EQ]]. split; auto. unfold start, sync. cbn [heads rows]. split.
    - split; [apply dedupe_NoDup|]. split; auto. intros x. apply dedupe_In.
    - intros x. rewrite dedupe_In. auto. Qed.
  Lemma Inv_InvR A s : Inv G A s -> InvR A (rows s).
  Proof. intros [C [[N1 [N2 EQ]] HM]]. split; auto. split; auto. intros x. rewrite <- EQ. auto. Qed.

  (* what `upgrade heads` / `downgrade base` is assumed to have applied (C01 / C02 are about that) *)
  Definition end_pre (e:endk) (A:list N) : Prop :=
    match e with EndNone => True | EndHeads => forall x, In x A <-> In x (ids G) | EndBase => A = [] end.
  Fixpoint valid_cmds (A:list N) (cmds:list cmd) : Prop :=
    match cmds with
    | [] => True
    | (e, steps) :: t => valid_steps G A steps /\ end_pre e (ghost_steps steps A) /\ valid_cmds (ghost_steps steps A) t
    end.

  Theorem endpoints e A rws : InvR A rws -> end_pre e A -> end_ok G e rws.
  Proof. intros [C [ND EQ]] EP. destruct e; cbn in *; auto.
    - intros x. rewrite EQ, maxl_In, EP. unfold no_child_in_G. split; intros [H1 H2]; split; auto; intros y Hy; apply H2; apply EP; auto.
    - subst A. destruct rws as [|x l]; auto. exfalso. assert (Hx : In x (x :: l)) by (left; auto). apply EQ in Hx. destruct Hx. Qed.

  Theorem run_cmd_thm e steps A rws : InvR A rws -> valid_steps G A steps -> end_pre e (ghost_steps steps A) ->
    exists os rws', run_cmd G ord steps rws = (os, Some rws') /\ steps_hold G A steps os /\
                    rws' = last_rows os rws /\ InvR (ghost_steps steps A) rws' /\ end_ok G e rws'.
  Proof. intros I V EP. destruct (run_steps_thm steps A (start rws) (start_Inv _ _ I) V) as [os [s' [E [SH [I' L]]]]].
    exists os, (rows s'). unfold run_cmd. rewrite E. cbn [option_map]. cbn [start rows] in L.
    pose proof (Inv_InvR _ _ I') as IR. repeat split; auto; try apply IR. eapply endpoints; eauto. Qed.

  Theorem run_cmds_thm : forall cmds A rws, InvR A rws -> valid_cmds A cmds ->
    cmds_hold G A rws cmds (run_cmds G ord (map snd cmds) rws).
  Proof. induction cmds as [|[e steps] cmds IH]; intros A rws I V; [cbn; auto|].
    destruct V as [V1 [V2 V3]]. destruct (run_cmd_thm e steps A rws I V1 V2) as [os [rws' [E [SH [L [I' EO]]]]]].
    cbn [map snd run_cmds]. rewrite E. cbn [cmds_hold]. rewrite <- L. split; auto. Qed.

  Theorem each_cmd_thm : forall cmds A rws, InvR A rws -> (forall c, In c cmds -> valid_cmds A [c]) ->
    each_hold G A rws cmds (map (fun c => fst (run_cmd G ord (snd c) rws)) cmds).
  Proof. induction cmds as [|[e steps] cmds IH]; intros A rws I V; [cbn; auto|].
    cbn [map each_hold]. split; [|apply IH; auto; intros c Hc; apply V; right; auto].
    destruct (V (e, steps)) as [V1 [V2 _]]; [left; auto|].
    destruct (run_cmd_thm e steps A rws I V1 V2) as [os [rws' [E [SH [L [I' EO]]]]]].
    cbn [snd]. rewrite E. cbn [fst cmds_hold]. rewrite <- L. auto. Qed.
End Trace.

(* ================================================================== H. from the loaded history to gwf *)
Lemma down_all G x y : In y (down G x) -> In y (all_down G x).
Proof. unfold down, all_down, of_rev. destruct (find_rev G x); auto. unfold all_down_r. rewrite dedupe_In, in_app_iff. auto. Qed.
Lemma deps_all G x y : In y (deps G x) -> In y (all_down G x).
Proof. unfold deps, all_down, of_rev. destruct (find_rev G x); auto. unfold all_down_r. rewrite dedupe_In, in_app_iff. auto. Qed.

Theorem gwf_of G : wf_refs G -> ~ cyclic (all_down G) -> ndeps_okb G = true -> gwf G.
Proof. intros [ND WR] AC NK. unfold ndeps_okb in NK. rewrite forallb_forall in NK.
  assert (CASE : forall x, (all_down G x = [] /\ norm_down G x = []) \/
                           exists r, In r G /\ r_id r = x /\ all_down G x = all_down_r r /\ norm_down G x = norm_down_r r).
  { intros x. unfold all_down, norm_down, of_rev. destruct (find_rev G x) as [r|] eqn:E; auto.
    apply find_rev_Some in E. destruct E. right. exists r. auto. }
  constructor; auto.
  - intros x y Hy. destruct (CASE x) as [[E _]|[r [Hr [_ [E _]]]]]; rewrite E in Hy; [destruct Hy|].
    unfold all_down_r in Hy. rewrite dedupe_In, in_app_iff in Hy. destruct (WR r Hr) as [H1 H2]. destruct Hy; auto.
  - intros x p Hp. destruct (CASE x) as [[_ E]|[r [Hr [_ [E1 E2]]]]]; rewrite E in Hp || rewrite E2 in Hp; [destruct Hp|].
    rewrite E1. unfold norm_down_r in Hp. unfold all_down_r. rewrite dedupe_In, in_app_iff in *. destruct Hp as [|Hp]; auto. right.
    specialize (NK r Hr). destruct (normalize G r) as [l|] eqn:EN; [|discriminate]. rewrite andb_true_iff, seteqN_spec in NK.
    destruct NK as [NK _]. apply NK in Hp. unfold normalize in EN. destruct (is_nil (r_deps r)).
    + inversion EN; subst. destruct Hp.
    + destruct (reach_set (down G) G [r_id r]); [|discriminate]. inversion EN; subst. apply diffN_In in Hp. tauto.
  - intros x d Hd Hnd. destruct (CASE x) as [[E _]|[r [Hr [Ex [E1 E2]]]]]; [rewrite E in Hd; destruct Hd|].
    rewrite E1 in Hd. rewrite E2 in Hnd. rewrite E2. unfold all_down_r in Hd. unfold norm_down_r in *.
    rewrite dedupe_In, in_app_iff in Hd. rewrite dedupe_In, in_app_iff in Hnd.
    destruct Hd as [Hd|Hd]; [tauto|].
    specialize (NK r Hr). destruct (normalize G r) as [l|] eqn:EN; [|discriminate]. rewrite andb_true_iff, seteqN_spec in NK.
    destruct NK as [NK _]. unfold normalize in EN. destruct (is_nil (r_deps r)) eqn:EI.
    { apply is_nil_true in EI. rewrite EI in Hd. destruct Hd. }
    destruct (reach_set_spec (down G) G [r_id r]) as [ancs [EA SA]]. { intros y Hy. apply of_rev_out; auto. }
    rewrite EA in EN. inversion EN; subst l. clear EN.
    assert (Hin : In d (flat_map (fun a => if N.eqb a (r_id r) then [] else deps G a) ancs)).
    { destruct (in_dec N.eq_dec d (flat_map (fun a => if N.eqb a (r_id r) then [] else deps G a) ancs)); auto.
      exfalso. apply Hnd. right. apply NK. apply diffN_In. auto. }
    apply in_flat_map in Hin. destruct Hin as [a [Ha Hda]]. destruct (N.eqb_spec a (r_id r)) as [|Hne]; [destruct Hda|].
    apply SA in Ha. destruct Ha as [t [[<-|[]] Pa]].
    destruct (path_inv _ _ _ Pa) as [?|[p [Hp Pp]]]; [congruence|].
    exists p. split.
    + rewrite dedupe_In, in_app_iff. left. unfold down, of_rev in Hp. rewrite find_rev_In in Hp; auto.
    + eapply path1_snoc; [|apply deps_all; eauto]. eapply path_incl; [|exact Pp]. apply down_all.
  - intros x. destruct (CASE x) as [[_ E]|[r [_ [_ [_ E]]]]]; rewrite E; [constructor|apply dedupe_NoDup]. Qed.

(* ================================================================== I. the statements of Properties/C03.v *)
Lemma closure_nil G : closure G [] = Some [].
Proof. reflexivity. Qed.

Lemma pre_InvR G rws0 reset cmds A0 : pre_C03 (G, rws0, reset, cmds) = true -> closure G rws0 = Some A0 -> InvR G A0 rws0.
Proof. unfold pre_C03. rewrite !andb_true_iff. intros [[[[_ _] ND] _] PB] E. rewrite E in PB.
  split; [eapply closure_closed; eauto|]. split; [apply nodupb_NoDup; auto|]. apply permb_In; auto. Qed.

Theorem main_trace G ord rws0 cmds A0 :
  wf_refs G -> ~ cyclic (all_down G) -> ndeps_okb G = true -> (forall l, Permutation (ord l) l) ->
  closure G rws0 = Some A0 -> valid_cmds G A0 cmds ->
  C03_holds (G, rws0, false, cmds) (run_cmds G ord (map snd cmds) rws0).
Proof. intros WF AC NK OP E V PRE. exists A0. split; auto.
  apply run_cmds_thm; auto; [apply gwf_of; auto|eapply pre_InvR; eauto]. Qed.

Theorem main_each G ord rws0 cmds A0 :
  wf_refs G -> ~ cyclic (all_down G) -> ndeps_okb G = true -> (forall l, Permutation (ord l) l) ->
  closure G rws0 = Some A0 -> (forall c, In c cmds -> valid_cmds G A0 [c]) ->
  C03_holds (G, rws0, true, cmds) (map (fun c => fst (run_cmd G ord (snd c) rws0)) cmds).
Proof. intros WF AC NK OP E V PRE. exists A0. split; auto.
  apply each_cmd_thm; auto; [apply gwf_of; auto|eapply pre_InvR; eauto]. Qed.

(* ================================================================== J. boolean forms of the hypotheses (for the non-vacuity examples) *)
Lemma ranked_acyclic (succ : N -> list N) (rk : N -> nat) :
  (forall x y, In y (succ x) -> rk y < rk x) -> ~ cyclic succ.
Proof. intros H. assert (P : forall x y, path succ x y -> rk y <= rk x).
  { induction 1; [lia|]. specialize (H _ _ H0). lia. }
  intros [x [y [Hy Q]]]. specialize (H _ _ Hy). specialize (P _ _ Q). lia. Qed.
Definition rankedb (G:graph) (rk : N -> nat) : bool :=
  forallb (fun r => forallb (fun p => Nat.ltb (rk p) (rk (r_id r))) (all_down_r r)) G.
Lemma rankedb_acyclic G rk : rankedb G rk = true -> ~ cyclic (all_down G).
Proof. unfold rankedb. rewrite forallb_forall. intros H. apply (ranked_acyclic _ rk). intros x y Hy.
  unfold all_down, of_rev in Hy. destruct (find_rev G x) as [r|] eqn:E; [|destruct Hy]. apply find_rev_Some in E.
  destruct E as [Hr <-]. specialize (H r Hr). rewrite forallb_forall in H. apply Nat.ltb_lt. auto. Qed.

Fixpoint valid_stepsb (G:graph) (A:list N) (steps:list step) : bool :=
  match steps with
  | [] => true
  | RevStep r up :: t => valid_stepb G A r up && valid_stepsb G (ghost r up A) t
  | _ => false
  end.
Definition end_preb (G:graph) (e:endk) (A:list N) : bool :=
  match e with EndNone => true | EndHeads => seteqN A (ids G) | EndBase => is_nil A end.
Fixpoint valid_cmdsb (G:graph) (A:list N) (cmds:list cmd) : bool :=
  match cmds with
  | [] => true
  | (e, steps) :: t => valid_stepsb G A steps && end_preb G e (ghost_steps steps A) && valid_cmdsb G (ghost_steps steps A) t
  end.
Lemma valid_stepsb_spec G : forall steps A, valid_stepsb G A steps = true -> valid_steps G A steps.
Proof. induction steps as [|[r up|] steps IH]; intros A H; cbn in *; auto; [|discriminate].
  apply andb_true_iff in H. destruct H. split; [apply valid_stepb_spec|]; auto. Qed.
Lemma valid_cmdsb_spec G : forall cmds A, valid_cmdsb G A cmds = true -> valid_cmds G A cmds.
Proof. induction cmds as [|[e steps] cmds IH]; intros A H; cbn [valid_cmds valid_cmdsb] in *; auto.
  rewrite !andb_true_iff in H. destruct H as [[H1 H2] H3]. split; [apply valid_stepsb_spec; auto|]. split; auto.
  destruct e; cbn in *; auto. { apply seteqN_spec; auto. } apply is_nil_true; auto. Qed.

(* ================================================================== K. offline (as_sql) mode *)
(* whatever the online code does successfully, the offline code does identically (it only skips the rowcount check) *)
Definition le_res (a b : res (hm * list stmt)) : Prop := forall r, a = Ok r -> b = Ok r.

Lemma le_then a b f g : le_res a b -> (forall s, le_res (f s) (g s)) -> le_res (then_ a f) (then_ b g).
Proof. intros H1 H2 r. unfold then_. destruct a as [p|e]; cbn [bind]; [|discriminate]. rewrite (H1 p eq_refl). cbn [bind].
  destruct (f (fst p)) as [q|e] eqn:E; cbn [bind]; [|discriminate]. rewrite (H2 _ q E). cbn [bind]. auto. Qed.
Lemma le_each op1 op2 : (forall v s, le_res (op1 v s) (op2 v s)) -> forall l s, le_res (each op1 l s) (each op2 l s).
Proof. intros H. induction l as [|x l IH]; intros s r; cbn [each]; auto.
  destruct (op1 x s) as [p|e] eqn:E; cbn [bind]; [|discriminate]. rewrite (H _ _ p E). cbn [bind].
  destruct (each op1 l (fst p)) as [q|e] eqn:E2; cbn [bind]; [|discriminate]. rewrite (IH _ q E2). cbn [bind]. auto. Qed.
Lemma le_refl a : le_res a a. Proof. intros r; auto. Qed.

Section Mono.
  Variables del1 del2 : N -> hm -> res (hm * list stmt).
  Variables upd1 upd2 : N -> N -> hm -> res (hm * list stmt).
  Hypothesis Hdel : forall v s, le_res (del1 v s) (del2 v s).
  Hypothesis Hupd : forall f t s, le_res (upd1 f t s) (upd2 f t s).
  Variable G : graph.
  Variable ord : list N -> list N.

  Lemma le_bind_upd x s : le_res (bind x (fun ft => upd1 (fst ft) (snd ft) s)) (bind x (fun ft => upd2 (fst ft) (snd ft) s)).
  Proof. destruct x as [ft|e]; cbn [bind]; [apply Hupd|apply le_refl]. Qed.

  Lemma step_p_mono st s : le_res (update_to_step_p del1 upd1 G ord st s) (update_to_step_p del2 upd2 G ord st s).
  Proof. destruct st as [r up|from to up bm]; cbn [update_to_step_p].
    - unfold rev_step_p. destruct up.
      + destruct (is_nil (norm_down G r) || is_nil (interN (norm_down G r) (heads s))); [apply le_refl|].
        destruct (Nat.ltb 1 (length (norm_down G r)) && Nat.ltb 1 (length (interN (norm_down G r) (heads s)))).
        * apply le_then; [apply le_each; auto|intros; apply Hupd].
        * apply le_bind_upd.
      + destruct (memN r (heads s)); [|apply le_bind_upd].
        destruct (is_nil (norm_down G r)); [apply Hdel|].
        destruct (unmerge_to_revisions G r (heads s)) as [to0|e]; [|apply le_refl].
        destruct (is_nil to0); [apply Hdel|].
        destruct (Nat.ltb 1 (length (norm_down G r))); [|apply le_bind_upd].
        apply le_then; [apply le_refl|intros; apply Hupd].
    - unfold stamp_step_p.
      destruct (negb up && bm). { destruct from as [|v [|? ?]]; try apply le_refl. apply Hdel. }
      destruct (up && (bm || negb (subsetN from (heads s))) && negb (subsetN to (heads s))); [apply le_refl|].
      destruct (Nat.ltb 1 (length from)).
      { destruct to; [apply le_refl|]. apply le_then; [apply le_each; auto|intros; apply Hupd]. }
      destruct (Nat.ltb 1 (length to)).
      { destruct from; [apply le_refl|]. apply le_then; [apply le_refl|intros; apply Hupd]. }
      destruct from as [|f [|? ?]]; try apply le_refl. destruct to as [|t [|? ?]]; try apply le_refl. apply Hupd. Qed.

  Lemma run_steps_p_mono : forall steps s os s', run_steps_p del1 upd1 G ord steps s = (os, Some s') ->
    run_steps_p del2 upd2 G ord steps s = (os, Some s').
  Proof. induction steps as [|st steps IH]; intros s os s' E; cbn [run_steps_p] in *; auto.
    destruct (update_to_step_p del1 upd1 G ord st s) as [[s1 stm]|e] eqn:E1; [|inversion E].
    rewrite (step_p_mono st s _ E1).
    destruct (run_steps_p del1 upd1 G ord steps s1) as [o f] eqn:E2. inversion E; subst. rewrite (IH _ _ _ E2). reflexivity. Qed.
End Mono.

Lemma del_g_le as_sql v s : le_res (delete_version_g false v s) (delete_version_g as_sql v s).
Proof. intros r. unfold delete_version_g. destruct (memN v (heads s)); auto. cbn [orb].
  destruct (Nat.eqb (countN v (rows s)) 1); [rewrite orb_true_r; auto|discriminate]. Qed.
Lemma upd_g_le as_sql f t s : le_res (update_version_g false f t s) (update_version_g as_sql f t s).
Proof. intros r. unfold update_version_g. destruct (memN t (heads s)); auto. destruct (memN f (heads s)); auto. cbn [orb].
  destruct (Nat.eqb (countN f (rows s)) 1); [rewrite orb_true_r; auto|discriminate]. Qed.

(* the online functions are the instance as_sql = false of the generic text *)
Lemma online_is_instance G ord st s : update_to_step_g false G ord st s = update_to_step G ord st s.
Proof. destruct st; reflexivity. Qed.
Lemma run_steps_is_instance G ord : forall steps s, run_steps_g false G ord steps s = run_steps G ord steps s.
Proof. induction steps as [|st steps IH]; intros s; [reflexivity|]. unfold run_steps_g in *. cbn [run_steps_p run_steps].
  change (update_to_step_p (delete_version_g false) (update_version_g false) G ord st s) with (update_to_step_g false G ord st s).
  rewrite online_is_instance. destruct (update_to_step G ord st s) as [[s1 stm]|e]; try reflexivity. Qed.

(* the emitted statement list (and the evolution of heads/rows) is the same in both modes *)
Theorem as_sql_same_step G ord as_sql st s r : update_to_step G ord st s = Ok r -> update_to_step_g as_sql G ord st s = Ok r.
Proof. rewrite <- online_is_instance. unfold update_to_step_g. apply step_p_mono; intros; [apply del_g_le|apply upd_g_le]. Qed.

Theorem as_sql_same_trace G ord as_sql steps s os s' :
  run_steps G ord steps s = (os, Some s') -> run_steps_g as_sql G ord steps s = (os, Some s').
Proof. rewrite <- run_steps_is_instance. unfold run_steps_g. apply run_steps_p_mono; intros; [apply del_g_le|apply upd_g_le]. Qed.

(* hence C03_invariant holds verbatim for the offline HeadMaintainer: same observations, statement by statement *)
Theorem offline_invariant G ord as_sql steps A s : gwf G -> (forall l, Permutation (ord l) l) ->
  Inv G A s -> valid_steps G A steps ->
  exists os s', run_steps_g as_sql G ord steps s = (os, Some s') /\ run_steps G ord steps s = (os, Some s') /\
                steps_hold G A steps os /\ Inv G (ghost_steps steps A) s'.
Proof. intros W OP I V. destruct (run_steps_thm G ord W OP steps A s I V) as [os [s' [E [SH [I' _]]]]].
  exists os, s'. split; [apply as_sql_same_trace; auto|auto]. Qed.

(* the offline code never raises the rowcount CommandError *)
Lemma offline_no_command_error_del v s : delete_version_g true v s <> Err ECommand.
Proof. unfold delete_version_g. destruct (memN v (heads s)); cbn [orb]; discriminate. Qed.
Lemma offline_no_command_error_upd f t s : update_version_g true f t s <> Err ECommand.
Proof. unfold update_version_g. destruct (memN t (heads s)); [discriminate|]. destruct (memN f (heads s)); cbn [orb]; discriminate. Qed.

(* ---------- the emitted script, executed on the table, reproduces the trace ---------- *)
Definition exec_ok (r : res (hm * list stmt)) (s:hm) : Prop :=
  forall s' stm, r = Ok (s', stm) -> exec_stmts (map erase stm) (rows s) = (rows s', stm).

Lemma exec_stmts_app a b rws : exec_stmts (a ++ b) rws =
  let (r1, a') := exec_stmts a rws in let (r2, b') := exec_stmts b r1 in (r2, a' ++ b').
Proof. revert rws; induction a as [|x a IH]; intros rws; cbn [app exec_stmts].
  - destruct (exec_stmts b rws); reflexivity.
  - destruct (exec_stmt x rws) as [r1 x']. rewrite IH. destruct (exec_stmts a r1) as [r2 a']. destruct (exec_stmts b r2); reflexivity. Qed.

Lemma exec_then a f s : exec_ok a s -> (forall s1, exec_ok (f s1) s1) -> exec_ok (then_ a f) s.
Proof. intros H1 H2 s' stm. unfold then_. destruct a as [[s1 st1]|e]; cbn [bind fst snd]; [|discriminate].
  destruct (f s1) as [[s2 st2]|e] eqn:E; cbn [bind fst snd]; [|discriminate]. inversion 1; subst.
  rewrite map_app, exec_stmts_app, (H1 s1 st1 eq_refl), (H2 s1 s' st2 E). reflexivity. Qed.
Lemma exec_each op : (forall v s, exec_ok (op v s) s) -> forall l s, exec_ok (each op l s) s.
Proof. intros H. induction l as [|x l IH]; intros s s' stm; cbn [each].
  - inversion 1; subst. reflexivity.
  - change (bind (op x s) (fun p => bind (each op l (fst p)) (fun q => Ok (fst q, snd p ++ snd q)))) with (then_ (op x s) (each op l)).
    apply exec_then; auto. Qed.
Lemma exec_insert_version v s : exec_ok (insert_version v s) s.
Proof. intros s' stm. unfold insert_version. destruct (memN v (heads s)); [discriminate|]. inversion 1; subst. reflexivity. Qed.
Lemma exec_delete_g a v s : exec_ok (delete_version_g a v s) s.
Proof. intros s' stm. unfold delete_version_g. destruct (memN v (heads s)); [|discriminate].
  destruct (a || Nat.eqb (countN v (rows s)) 1); [|discriminate]. inversion 1; subst. reflexivity. Qed.
Lemma exec_update_g a f t s : exec_ok (update_version_g a f t s) s.
Proof. intros s' stm. unfold update_version_g. destruct (memN t (heads s)); [discriminate|]. destruct (memN f (heads s)); [|discriminate].
  destruct (a || Nat.eqb (countN f (rows s)) 1); [|discriminate]. inversion 1; subst. reflexivity. Qed.
Lemma exec_err e s : exec_ok (Err e) s. Proof. intros s' stm; discriminate. Qed.

Section Exec.
  Variable a : bool.
  Variable G : graph.
  Variable ord : list N -> list N.
  Let del := delete_version_g a.
  Let upd := update_version_g a.

  Lemma exec_bind_upd x s : exec_ok (bind x (fun ft => upd (fst ft) (snd ft) s)) s.
  Proof. destruct x as [ft|e]; cbn [bind]; [apply exec_update_g|apply exec_err]. Qed.

  Lemma exec_step st s : exec_ok (update_to_step_g a G ord st s) s.
  Proof. unfold update_to_step_g. fold del upd. destruct st as [r up|from to up bm]; cbn [update_to_step_p].
    - unfold rev_step_p. destruct up.
      + destruct (is_nil (norm_down G r) || is_nil (interN (norm_down G r) (heads s))); [apply exec_insert_version|].
        destruct (Nat.ltb 1 (length (norm_down G r)) && Nat.ltb 1 (length (interN (norm_down G r) (heads s)))).
        * apply exec_then; [apply exec_each; intros; apply exec_delete_g|intros; apply exec_update_g].
        * apply exec_bind_upd.
      + destruct (memN r (heads s)); [|apply exec_bind_upd].
        destruct (is_nil (norm_down G r)); [apply exec_delete_g|].
        destruct (unmerge_to_revisions G r (heads s)) as [to0|e]; [|apply exec_err].
        destruct (is_nil to0); [apply exec_delete_g|].
        destruct (Nat.ltb 1 (length (norm_down G r))); [|apply exec_bind_upd].
        apply exec_then; [apply exec_each; intros; apply exec_insert_version|intros; apply exec_update_g].
    - unfold stamp_step_p.
      destruct (negb up && bm). { destruct from as [|v [|? ?]]; try apply exec_err. apply exec_delete_g. }
      destruct (up && (bm || negb (subsetN from (heads s))) && negb (subsetN to (heads s))).
      { destruct to as [|v [|? ?]]; try apply exec_err. apply exec_insert_version. }
      destruct (Nat.ltb 1 (length from)).
      { destruct to; [apply exec_err|]. apply exec_then; [apply exec_each; intros; apply exec_delete_g|intros; apply exec_update_g]. }
      destruct (Nat.ltb 1 (length to)).
      { destruct from; [apply exec_err|]. apply exec_then; [apply exec_each; intros; apply exec_insert_version|intros; apply exec_update_g]. }
      destruct from as [|f [|? ?]]; try apply exec_err. destruct to as [|t [|? ?]]; try apply exec_err. apply exec_update_g. Qed.

  Lemma replay_trace : forall steps s os s', run_steps_g a G ord steps s = (os, Some s') ->
    replay (map to_sobs os) (rows s) = os.
  Proof. unfold run_steps_g. induction steps as [|st steps IH]; intros s os s' E; cbn [run_steps_p] in E.
    - inversion E; subst. reflexivity.
    - change (update_to_step_p (delete_version_g a) (update_version_g a) G ord st s) with (update_to_step_g a G ord st s) in E.
      destruct (update_to_step_g a G ord st s) as [[s1 stm]|e] eqn:E1; [|inversion E].
      destruct (run_steps_p (delete_version_g a) (update_version_g a) G ord steps s1) as [o f] eqn:E2. inversion E; subst.
      cbn [map to_sobs replay]. rewrite (exec_step st s s1 stm E1). rewrite (IH s1 o s' E2). reflexivity. Qed.
End Exec.

Theorem any_decider_sound3 i o : check_C03_any i o = true -> C03_any_holds i o.
Proof. destruct i as [i|i], o as [o|o]; cbn; try discriminate; [apply decider_sound|].
  destruct i as [[[G rws0] reset] cmds]. unfold check_offline, Offline_holds. apply decider_sound. Qed.

(* the main offline theorem: every `--sql` command with a valid plan from starting_rev = rws0 emits a script that, executed
   on a table holding rws0, matches exactly one row per statement and leaves rows = heads of the applied set after
   every step — and it is statement by statement the script's online counterpart *)
Lemma offline_eq G rws0 cmds A0 :
  wf_refs G -> ~ cyclic (all_down G) -> ndeps_okb G = true ->
  closure G rws0 = Some A0 -> (forall c, In c cmds -> valid_cmds G A0 [c]) -> pre_C03 (G, rws0, true, cmds) = true ->
  map (fun os => replay os rws0) (model_offline (G, rws0, true, cmds)) = model_C03 (G, rws0, true, cmds).
Proof. intros WF AC NK E V PRE.
  unfold model_offline, model_C03. rewrite map_map. apply map_ext_in. intros [e steps] Hc. cbn [snd].
  pose proof (gwf_of G WF AC NK) as W. pose proof (pre_InvR _ _ _ _ _ PRE E) as I.
  destruct (V _ Hc) as [V1 _]. cbn [snd] in V1.
  destruct (run_steps_thm G (fun l => l) W (fun l => Permutation_refl l) steps A0 (start rws0) (start_Inv G A0 rws0 I) V1)
    as [os [s' [E1 _]]].
  unfold run_cmd_g, run_cmd. rewrite E1, (as_sql_same_trace G (fun l => l) true steps (start rws0) os s' E1). cbn [fst].
  apply (replay_trace true G (fun l => l) steps (start rws0) os s'). apply as_sql_same_trace; auto. Qed.

Theorem main_offline G rws0 cmds A0 :
  wf_refs G -> ~ cyclic (all_down G) -> ndeps_okb G = true ->
  closure G rws0 = Some A0 -> (forall c, In c cmds -> valid_cmds G A0 [c]) ->
  Offline_holds (G, rws0, true, cmds) (model_offline (G, rws0, true, cmds)).
Proof. intros WF AC NK E V. unfold Offline_holds, C03_holds. intros PRE.
  rewrite (offline_eq G rws0 cmds A0 WF AC NK E V PRE).
  exact (main_each G (fun l => l) rws0 cmds A0 WF AC NK (fun l => Permutation_refl l) E V PRE). Qed.
