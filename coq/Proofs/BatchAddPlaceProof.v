(* C10 main theorem with add_column(insert_before=) / add_column(insert_after=) inside.  The specification `edit` puts the
   new column immediately before / after the named column; the code records ordering pairs and sorts.  Three pieces:
   (1) `edit` and the append specification `edit_app` differ only in where the added columns sit (simulation EA);
   (2) along the run every added column owns a gap of the surviving original columns: the pairs recorded for it name the
       two sides of the gap, and in the specification's table it sits inside that gap (invariant PG);
   (3) a linear extension of the recorded pairs that keeps the original columns in order puts every added column into its
       gap (gap_sorted). *)
From AV Require Import Base.ListSet Model.BatchFail Model.Batch Spec.C11 Spec.C10 Proofs.BatchFailProof Proofs.BatchProof
  Proofs.BatchMainProof Proofs.BatchSortProof Proofs.BatchAddProof Proofs.BatchAddMainProof.

(* ------------------------------------------------------------------ (1) edit ~ edit_app *)
Record EA (Te T':tbl) : Prop := mkEA {
  ea_get : forall k, aget k (tb_cols Te) = aget k (tb_cols T');
  ea_pk : tb_pk Te = tb_pk T';
  ea_cons : tb_cons Te = tb_cons T';
  ea_idx : tb_idx Te = tb_idx T' }.

Lemma EA_refl T : EA T T.
Proof. constructor; auto. Qed.

Lemma EA_keys Te T' : EA Te T' -> forall k, In k (akeys (tb_cols Te)) <-> In k (akeys (tb_cols T')).
Proof.
  intros [G _ _ _] k. split; intros H; apply in_keys_aget in H; destruct H as [v H].
  - rewrite G in H. eapply aget_some_in; eauto.
  - rewrite <- G in H. eapply aget_some_in; eauto.
Qed.

Lemma EA_in Te T' : EA Te T' -> NoDup (akeys (tb_cols Te)) -> NoDup (akeys (tb_cols T')) ->
  forall p, In p (tb_cols Te) <-> In p (tb_cols T').
Proof.
  intros [G _ _ _] N1 N2 [k v]. split; intros H.
  - apply aget_in. rewrite <- G. apply in_aget; auto.
  - apply aget_in. rewrite G. apply in_aget; auto.
Qed.

Lemma aget_insert_at {V} k (v:V) : forall p l k0, aget k l = None ->
  aget k0 (insert_at p (k, v) l) = if name_eqb k0 k then Some v else aget k0 l.
Proof.
  induction p as [|p IH]; intros l k0 Hn.
  - destruct l; cbn; auto.
  - destruct l as [|[k1 v1] l]; cbn [insert_at aget].
    + destruct (name_eqb k0 k); auto.
    + cbn [aget] in Hn. destruct (name_eqb k k1) eqn:E1; [discriminate|].
      destruct (name_eqb k0 k1) eqn:E0.
      * apply name_eqb_eq in E0. subst k1. destruct (name_eqb k0 k) eqn:E; auto.
        apply name_eqb_eq in E. subst. rewrite name_eqb_refl in E1. discriminate.
      * apply IH; auto.
Qed.

Lemma aget_snoc {V} k (v:V) l k0 : aget k l = None -> aget k0 (l ++ [(k, v)]) = if name_eqb k0 k then Some v else aget k0 l.
Proof.
  intros Hn. destruct (name_eqb k0 k) eqn:E.
  - apply name_eqb_eq in E. subst. rewrite aget_app_r; auto. cbn. rewrite name_eqb_refl. auto.
  - apply aget_app_other. apply name_eqb_neq; auto.
Qed.

Lemma aget_adel {V} k k0 (l:list (key * V)) : aget k0 (adel k l) = if name_eqb k0 k then None else aget k0 l.
Proof.
  destruct (name_eqb k0 k) eqn:E.
  - apply name_eqb_eq in E. subst. apply aget_adel_same.
  - apply aget_adel_other. apply name_eqb_neq; auto.
Qed.

Lemma aget_aset {V} k (v:V) k0 l : aget k0 (aset k v l) = if name_eqb k0 k then Some v else aget k0 l.
Proof.
  destruct (name_eqb k0 k) eqn:E.
  - apply name_eqb_eq in E. subst. apply aget_aset_same.
  - apply aget_aset_other. apply name_eqb_neq; auto.
Qed.

Lemma akeys_insert_at {V} (x:key * V) : forall p l, exists X Y, l = X ++ Y /\ insert_at p x l = X ++ x :: Y.
Proof.
  induction p as [|p IH]; intros l.
  - exists [], l. destruct l; auto.
  - destruct l as [|y l]; cbn [insert_at].
    + exists [], []. auto.
    + destruct (IH l) as [X [Y [E1 E2]]]. exists (y :: X), Y. cbn. rewrite <- E1, E2. auto.
Qed.

Lemma edit_keys_nodup o T T' : in_class_a o = true -> edit o T = BOk T' -> NoDup (akeys (tb_cols T)) -> NoDup (akeys (tb_cols T')).
Proof.
  intros Hc He Hn. destruct (is_addb o) eqn:Ea.
  - destruct o as [k c b a| | | | | |]; try discriminate. cbn [edit] in He.
    destruct (has_key k T) eqn:Hk; [discriminate|]. cbn [orb] in He.
    destruct (mem_name (c_name c) (names_of T) || negb (name_eqb k (c_name c))); [discriminate|].
    assert (Hnk : ~ In k (akeys (tb_cols T))).
    { unfold has_key in Hk. destruct (aget k (tb_cols T)) eqn:G; [discriminate|]. apply aget_none_notin; auto. }
    assert (Hins : forall p, NoDup (akeys (insert_at p (k, c) (tb_cols T)))).
    { intros p. destruct (akeys_insert_at (k, c) p (tb_cols T)) as [X [Y [E1 E2]]]. rewrite E2. rewrite E1 in Hn, Hnk.
      unfold akeys in *. rewrite map_app in *. cbn [map fst]. apply NoDup_Add with (a := k) (l := map fst X ++ map fst Y); [apply Add_app|].
      constructor; auto. }
    destruct b as [b|]; [|destruct a as [a|]].
    + destruct (index_of b (akeys (tb_cols T))) as [p|]; [|discriminate]. injection He as <-. exact (Hins p).
    + destruct (index_of a (akeys (tb_cols T))) as [p|]; [|discriminate]. injection He as <-. exact (Hins (S p)).
    + inversion He; subst T'; cbn [tb_cols]. unfold akeys. rewrite map_app. cbn [map fst].
      apply NoDup_Add with (a := k) (l := map fst (tb_cols T) ++ []); [apply Add_app|]. rewrite app_nil_r. constructor; auto.
  - destruct (nonadd_edit o T Ea) as [E _]. rewrite <- E in He. apply (editA_keys_nodup o T T'); auto.
Qed.

(* one step of the simulation: `edit` succeeds -> `edit_app` succeeds, and the results are related *)
Lemma EA_step o Te T' Te1 : in_class_a o = true -> EA Te T' -> NoDup (akeys (tb_cols Te)) -> NoDup (akeys (tb_cols T')) ->
  edit o Te = BOk Te1 -> exists T'1, edit_app o T' = BOk T'1 /\ EA Te1 T'1.
Proof.
  intros Hc HR N1 N2 He. pose proof HR as [G Epk Econs Eidx].
  assert (Hkeys := EA_keys _ _ HR). assert (Hin := EA_in _ _ HR N1 N2).
  assert (Hnames : forall n l, (forall p, In p l <-> In p (tb_cols T')) ->
            mem_name n (map (fun p => c_name (snd p)) l) = mem_name n (map (fun p => c_name (snd p)) (tb_cols T')) -> True) by auto.
  assert (Hhk : forall k, has_key k Te = has_key k T') by (intros k; unfold has_key; rewrite G; auto).
  assert (Hnm : forall n, mem_name n (names_of Te) = mem_name n (names_of T')).
  { intros n. unfold names_of. apply mem_name_ext. intros y. rewrite !in_map_iff. split; intros [p [E Hp]]; exists p; split; auto; apply Hin; auto. }
  destruct o as [k c b a|k|k a|c|n|x|n]; cbn [edit edit_app] in *.
  - (* add *)
    rewrite <- Hhk, <- Hnm.
    destruct (has_key k Te) eqn:Hk; [discriminate|]. cbn [orb] in *.
    destruct (mem_name (c_name c) (names_of Te) || negb (name_eqb k (c_name c))); [discriminate|].
    assert (Gk : aget k (tb_cols Te) = None) by (unfold has_key in Hk; destruct (aget k (tb_cols Te)); [discriminate|auto]).
    assert (Gk' : aget k (tb_cols T') = None) by (rewrite <- G; auto).
    eexists. split; [reflexivity|].
    assert (Hres : forall p, EA (mkTbl (insert_at p (k, c) (tb_cols Te)) (tb_pk Te) (tb_cons Te) (tb_idx Te))
                               (mkTbl (tb_cols T' ++ [(k, c)]) (tb_pk T') (tb_cons T') (tb_idx T'))).
    { intros p. constructor; cbn [tb_cols tb_pk tb_cons tb_idx]; auto. intros k0. rewrite aget_insert_at, aget_snoc, G; auto. }
    destruct b as [b|]; [|destruct a as [a|]].
    + destruct (index_of b (akeys (tb_cols Te))) as [p|]; [|discriminate]. injection He as <-. exact (Hres p).
    + destruct (index_of a (akeys (tb_cols Te))) as [p|]; [|discriminate]. injection He as <-. exact (Hres (S p)).
    + inversion He; subst Te1. constructor; cbn [tb_cols tb_pk tb_cons tb_idx]; auto. intros k0. rewrite !aget_snoc, G; auto.
  - (* drop *)
    rewrite <- Hhk, <- Eidx, <- Econs. destruct (negb (has_key k Te)); [discriminate|].
    destruct (existsb _ (tb_idx Te)); [discriminate|].
    destruct (existsb (fun c => negb (is_primary c) && mem_name k (k_cols c)) (tb_cons Te)); [discriminate|].
    inversion He; subst Te1. eexists. split; [reflexivity|]. constructor; cbn [tb_cols tb_pk tb_cons tb_idx]; try congruence.
    intros k0. rewrite !aget_adel, G. auto.
  - (* alter *)
    rewrite <- G. destruct (aget k (tb_cols Te)) as [c|] eqn:Gc; [|discriminate].
    assert (Hm : forall n, mem_name n (map (fun p => c_name (snd p)) (adel k (tb_cols Te))) = mem_name n (map (fun p => c_name (snd p)) (adel k (tb_cols T')))).
    { intros n. apply mem_name_ext. intros y. rewrite !in_map_iff. split; intros [p [E Hp]]; exists p; split; auto;
        apply in_adel; apply in_adel in Hp; destruct Hp as [Hp Hq]; split; auto; apply Hin; auto. }
    rewrite <- Hm. destruct (mem_name _ (map _ (adel k (tb_cols Te)))); [discriminate|].
    inversion He; subst Te1. eexists. split; [reflexivity|]. constructor; cbn [tb_cols tb_pk tb_cons tb_idx]; auto.
    intros k0. rewrite !aget_aset, G. auto.
  - (* add constraint *)
    rewrite <- Econs. rewrite <- (sub_names_ext (k_cols c) _ _ Hkeys).
    destruct (is_some (con_get (k_name c) (tb_cons Te)) || negb (sub_names (k_cols c) (akeys (tb_cols Te)))); [discriminate|].
    inversion He; subst Te1. eexists. split; [reflexivity|]. constructor; cbn [tb_cols tb_pk tb_cons tb_idx]; auto; try congruence.
  - rewrite <- Econs. destruct (is_some (con_get n (tb_cons Te))); [|discriminate].
    inversion He; subst Te1. eexists. split; [reflexivity|]. constructor; cbn [tb_cols tb_pk tb_cons tb_idx]; auto.
  - rewrite <- Eidx. rewrite <- (sub_names_ext (x_cols x) _ _ Hkeys).
    destruct (is_some (idx_get (x_name x) (tb_idx Te)) || negb (sub_names (x_cols x) (akeys (tb_cols Te)))); [discriminate|].
    inversion He; subst Te1. eexists. split; [reflexivity|]. constructor; cbn [tb_cols tb_pk tb_cons tb_idx]; auto; try congruence.
  - rewrite <- Eidx. destruct (is_some (idx_get n (tb_idx Te))); [|discriminate].
    inversion He; subst Te1. eexists. split; [reflexivity|]. constructor; cbn [tb_cols tb_pk tb_cons tb_idx]; auto.
Qed.

(* ------------------------------------------------------------------ list facts *)
Lemma insert_split {A} (f:A -> bool) (k z:A) : f k = false -> k <> z -> forall X Y S1 S2, X ++ Y = S1 ++ z :: S2 ->
  exists S1' S2', X ++ k :: Y = S1' ++ z :: S2' /\ filter f S1' = filter f S1.
Proof.
  intros Hf Hne. induction X as [|x X IH]; intros Y S1 S2 E; cbn [app] in *.
  - exists (k :: S1), S2. subst Y. split; auto. cbn [filter]. rewrite Hf. auto.
  - destruct S1 as [|y S1]; cbn [app] in E; inversion E; subst.
    + exists [], (X ++ k :: Y). auto.
    + destruct (IH Y S1 S2 H1) as [S1' [S2' [E1 E2]]]. exists (y :: S1'), S2'. split; [cbn; rewrite E1; auto|cbn [filter]; rewrite E2; auto].
Qed.

Lemma pivot_eq (b:key) : forall X Y L R, X ++ b :: Y = L ++ b :: R -> ~ In b X -> ~ In b L -> X = L /\ Y = R.
Proof.
  induction X as [|x X IH]; intros Y L R E HX HL; destruct L as [|l L]; cbn [app] in E; inversion E; subst; auto.
  - exfalso. apply HL. simpl; auto.
  - exfalso. apply HX. simpl; auto.
  - destruct (IH Y L R H1) as [-> ->]; auto; intro; [apply HX|apply HL]; simpl; auto.
Qed.

Lemma insert_at_keys {V} (x:key * V) : forall K1 l rest, akeys l = K1 ++ rest -> akeys (insert_at (length K1) x l) = K1 ++ fst x :: rest.
Proof.
  induction K1 as [|k1 K1 IH]; intros l rest E; cbn [length app] in *.
  - destruct l; cbn; rewrite <- E; auto.
  - destruct l as [|y l]; [discriminate|]. cbn [insert_at]. cbn in E. inversion E; subst. cbn. f_equal. apply IH; auto.
Qed.

Lemma insert_after_keys {V} (x:key * V) K1 (ak:key) K2 l : akeys l = K1 ++ ak :: K2 ->
  akeys (insert_at (S (length K1)) x l) = (K1 ++ [ak]) ++ fst x :: K2.
Proof.
  intros E. replace (S (length K1)) with (length (K1 ++ [ak])) by (rewrite app_length; cbn; lia).
  apply insert_at_keys. rewrite <- app_assoc. auto.
Qed.

Lemma in_split_first (b:key) l : In b l -> exists L R, l = L ++ b :: R /\ ~ In b L.
Proof.
  induction l as [|x l IH]; intros H; [destruct H|].
  destruct (name_eqb x b) eqn:E.
  - apply name_eqb_eq in E. subst. exists [], l. auto.
  - apply name_eqb_neq in E. destruct H as [H|H]; [congruence|]. destruct (IH H) as [L [R [E1 E2]]].
    exists (x :: L), R. subst l. split; auto. intros [H1|H1]; auto.
Qed.

Lemma index_of_pivot (b:key) L R : ~ In b L -> index_of b (L ++ b :: R) = Some (length L).
Proof. intros H. rewrite index_of_app_r; auto. cbn. rewrite name_eqb_refl. cbn. f_equal. lia. Qed.

Lemma nth_error_pivot_next {A} (L:list A) b R : nth_error (L ++ b :: R) (S (length L)) = hd_error R.
Proof. induction L as [|x L IH]; cbn; auto. Qed.

Lemma nth_error_pivot_prev (L:list key) b R :
  match length L with O => None | S j => nth_error (L ++ b :: R) j end = last_opt L.
Proof.
  destruct (rev L) as [|y r] eqn:Er.
  - assert (L = []) by (rewrite <- (rev_involutive L), Er; auto). subst. reflexivity.
  - assert (EL : L = rev r ++ [y]) by (rewrite <- (rev_involutive L), Er; auto). rewrite EL, last_opt_snoc.
    rewrite app_length. cbn [length]. rewrite Nat.add_1_r. rewrite <- app_assoc. rewrite nth_error_app2 by lia.
    rewrite Nat.sub_diag. reflexivity.
Qed.

Lemma hd_error_remove (k q:key) l : hd_error l = Some q -> q <> k -> hd_error (remove_name k l) = Some q.
Proof. destruct l as [|x l]; cbn; intros H Hn; inversion H; subst. destruct (name_eqb k q) eqn:E; [apply name_eqb_eq in E; congruence|]. reflexivity. Qed.

Lemma remove_name_nil_of_hd k l : hd_error l = None -> remove_name k l = [].
Proof. destruct l; cbn; auto; discriminate. Qed.

Lemma filter_remove_comm (k:key) (E S:list key) : In k E ->
  filter (fun x => mem_name x (remove_name k E)) (remove_name k S) = remove_name k (filter (fun x => mem_name x E) S).
Proof.
  intros Hk. induction S as [|x S IH]; cbn [remove_name filter]; auto. fold (remove_name k S).
  destruct (name_eqb k x) eqn:Ex; cbn [negb].
  - apply name_eqb_eq in Ex. subst x. assert (Hm : mem_name k E = true) by (apply mem_name_In; auto). rewrite Hm.
    cbn [remove_name filter]. rewrite name_eqb_refl. cbn [negb]. apply IH.
  - cbn [filter]. assert (Hm : mem_name x (remove_name k E) = mem_name x E).
    { destruct (mem_name x E) eqn:M.
      - apply mem_name_In. apply remove_name_In. split; [apply mem_name_In; auto|]. apply name_eqb_neq in Ex. congruence.
      - apply mem_name_false. intro H. apply remove_name_In in H. apply mem_name_false in M. tauto. }
    rewrite Hm. destruct (mem_name x E); [cbn [remove_name filter]; rewrite Ex; cbn [negb]; f_equal; apply IH|apply IH].
Qed.

(* ------------------------------------------------------------------ what add_column records *)
Lemma setup_pairs s k b a ord : b_partial s = [] -> setup_dependencies s k b a = BOk ord ->
  incl (b_order s) ord /\
  match b, a with
  | None, None => forall p, last_opt (b_existing s) = Some p -> In (p, k) ord
  | Some bk, None => forall L R, b_existing s = L ++ bk :: R -> ~ In bk L ->
                       In (k, bk) ord /\ (forall p, last_opt L = Some p -> In (p, k) ord)
  | None, Some ak => forall L R, b_existing s = L ++ ak :: R -> ~ In ak L ->
                       In (ak, k) ord /\ (forall q, hd_error R = Some q -> In (k, q) ord)
  | Some _, Some _ => True
  end.
Proof.
  intros Hp. unfold setup_dependencies. rewrite Hp. unfold setup_dependencies_noreorder.
  destruct b as [bk|]; destruct a as [ak|].
  - (* both: not needed, only monotone *)
    cbv beta iota zeta. intros H. injection H as <-. split; auto. intros x Hx. apply in_or_app. left. apply in_or_app. auto.
  - (* before *)
    destruct (index_of bk (b_existing s)) as [ix|] eqn:Ei.
    + cbv beta iota zeta. intros H. injection H as <-. split.
      * intros x Hx. destruct (match ix with O => None | S j => nth_error (b_existing s) j end); [apply in_or_app; left|]; apply in_or_app; auto.
      * intros L R EL HL. rewrite EL, (index_of_pivot bk L R HL) in Ei. injection Ei as <-.
        rewrite EL. rewrite (nth_error_pivot_prev L bk R). split.
        -- destruct (last_opt L); [apply in_or_app; left|]; apply in_or_app; right; simpl; auto.
        -- intros p ->. apply in_or_app. right. simpl; auto.
    + destruct (alast (map (fun p => (snd p, fst p)) (b_order s)) bk); [|discriminate].
      cbv beta iota zeta. intros H. injection H as <-. split.
      * intros x Hx. apply in_or_app; left. apply in_or_app; auto.
      * intros L R EL HL. rewrite EL, (index_of_pivot bk L R HL) in Ei. discriminate.
  - (* after *)
    destruct (index_of ak (b_existing s)) as [ix|] eqn:Ei.
    + destruct (nth_error (b_existing s) (S ix)) as [q0|] eqn:En; cbv beta iota zeta; intros H; injection H as <-;
        (split; [intros x Hx; repeat (apply in_or_app; left); auto|]);
        intros L R EL HL; rewrite EL, (index_of_pivot ak L R HL) in Ei; injection Ei as <-; rewrite EL, nth_error_pivot_next in En.
      * split; [apply in_or_app; right; simpl; auto|].
        intros q Hq. rewrite En in Hq. injection Hq as <-. apply in_or_app; left. apply in_or_app; right; simpl; auto.
      * split; [apply in_or_app; right; simpl; auto|]. intros q Hq. rewrite En in Hq. discriminate.
    + destruct (alast (b_order s) ak) as [b0|]; [|discriminate].
      cbv beta iota zeta. intros H. injection H as <-. split.
      * intros x Hx. apply in_or_app; left. apply in_or_app; auto.
      * intros L R EL HL. rewrite EL, (index_of_pivot ak L R HL) in Ei. discriminate.
  - (* default *)
    cbv beta iota zeta. intros H. injection H as <-. split.
    + intros x Hx. destruct (last_opt (b_existing s)); [apply in_or_app|]; auto.
    + intros p ->. apply in_or_app; right; simpl; auto.
Qed.

(* ------------------------------------------------------------------ (2) every added column owns a gap *)
Lemma tb_cols_mk a b c d : tb_cols (mkTbl a b c d) = a.
Proof. reflexivity. Qed.
Definition inE (s:bstate) (k:key) : bool := mem_name k (b_existing s).
Record PG (T0:tbl) (A:list key) (s:bstate) (Te:tbl) : Prop := mkPG {
  pg_orig : incl (b_existing s) (akeys (tb_cols T0));
  pg_added : forall z, In z (akeys (tb_cols Te)) -> ~ In z (b_existing s) -> In z A;
  pg_ex : filter (inE s) (akeys (tb_cols Te)) = b_existing s;
  pg_gap : forall z, In z (akeys (tb_cols Te)) -> ~ In z (b_existing s) ->
           exists E1 E2 S1 S2, b_existing s = E1 ++ E2 /\ akeys (tb_cols Te) = S1 ++ z :: S2 /\ filter (inE s) S1 = E1 /\
             (forall p, last_opt E1 = Some p -> In (p, z) (b_order s)) /\ (forall q, hd_error E2 = Some q -> In (z, q) (b_order s)) }.

Lemma PG_init T0 A : NoDup (akeys (tb_cols T0)) -> PG T0 A (init T0) T0.
Proof.
  intros Hn. constructor; cbn [init init_with b_existing b_order]; try (intros z; tauto).
  pose proof (filter_in_app_l (akeys (tb_cols T0)) []) as H. rewrite app_nil_r in H. apply H. auto.
Qed.

Lemma NoDup_existing s T : InvA s T -> NoDup (b_existing s).
Proof. intros HI. destruct (ia_ex _ _ HI) as [zs E]. pose proof (ia_nk _ _ HI) as N. rewrite E in N. apply (NoDup_app_l _ _ N). Qed.

Lemma PG_step T0 A o s s' T' Te Te1 :
  in_class_a o = true -> (forall k, In k A -> ~ In k (akeys (tb_cols T0))) ->
  (match o with
   | OAddColumn _ _ (Some b) None => mem_name b (b_existing s)
   | OAddColumn _ _ None (Some a) => mem_name a (b_existing s)
   | OAddColumn _ _ (Some _) (Some _) => false
   | ODropColumn k => negb (mem_name k (order_keys s))
   | _ => true end) = true ->
  incl (added_keys [o]) A -> InvA s T' -> NoDup (akeys (tb_cols Te)) ->
  PG T0 A s Te -> apply_batch_op o s = BOk s' -> edit o Te = BOk Te1 -> PG T0 A s' Te1.
Proof.
  intros Hc HfrA Hpl HA HI Nk [P1 P2 P3 P4] Hm He.
  pose proof (NoDup_existing _ _ HI) as NE.
  destruct o as [k c b a|k|k a|c|n|x|n]; cbn [apply_batch_op edit] in Hm, He.
  - (* add *)
    destruct (setup_dependencies s k b a) as [ord|] eqn:Hs; [|discriminate]. injection Hm as <-.
    destruct (setup_pairs s k b a ord (ia_part _ _ HI) Hs) as [Hmono Hnew].
    destruct (has_key k Te) eqn:Hk; [discriminate|]. cbn [orb] in He.
    destruct (mem_name (c_name c) (names_of Te) || negb (name_eqb k (c_name c))); [discriminate|].
    assert (HkA : In k A) by (apply HA; simpl; auto).
    assert (HkE : ~ In k (b_existing s)) by (intro H; apply (HfrA k HkA); apply P1; auto).
    assert (Hk0 : ~ In k (akeys (tb_cols Te))).
    { unfold has_key in Hk. destruct (aget k (tb_cols Te)) eqn:G; [discriminate|]. apply aget_none_notin; auto. }
    assert (HfE : inE s k = false) by (apply mem_name_false; auto).
    (* the shape of the new key list, and the gap of the new column *)
    assert (Hshape : exists X Y, akeys (tb_cols Te) = X ++ Y /\ akeys (tb_cols Te1) = X ++ k :: Y /\
              exists E1 E2, b_existing s = E1 ++ E2 /\ filter (inE s) X = E1 /\
                (forall p, last_opt E1 = Some p -> In (p, k) ord) /\ (forall q, hd_error E2 = Some q -> In (k, q) ord)).
    { destruct b as [bk|]; [destruct a as [ak|]; [discriminate|]|destruct a as [ak|]].
      - (* before bk *)
        apply mem_name_In in Hpl. destruct (in_split_first bk _ Hpl) as [L [R [EL HL]]].
        destruct (Hnew L R EL HL) as [Hp1 Hp2].
        destruct (index_of bk (akeys (tb_cols Te))) as [ix|] eqn:Ei; [|discriminate]. injection He as <-. rewrite tb_cols_mk.
        assert (Hbk : In bk (akeys (tb_cols Te))) by (eapply index_of_some_in; eauto).
        destruct (in_split_first bk _ Hbk) as [K1 [K2 [EK HK]]].
        rewrite EK, (index_of_pivot bk K1 K2 HK) in Ei. injection Ei as <-.
        exists K1, (bk :: K2). split; [auto|]. split; [apply (insert_at_keys (k, c) K1 (tb_cols Te) (bk :: K2) EK)|].
        exists L, (bk :: R). split; [auto|]. split.
        + pose proof P3 as P3'. rewrite EK, EL, filter_app in P3'. cbn [filter] in P3'.
          assert (Hib : inE s bk = true) by (apply mem_name_In; auto). rewrite Hib in P3'.
          apply (pivot_eq bk _ _ _ _ P3'); auto. intro H. apply filter_In in H. tauto.
        + split; auto. intros q Hq. cbn in Hq. injection Hq as <-. auto.
      - (* after ak *)
        apply mem_name_In in Hpl. destruct (in_split_first ak _ Hpl) as [L [R [EL HL]]].
        destruct (Hnew L R EL HL) as [Hp1 Hp2].
        destruct (index_of ak (akeys (tb_cols Te))) as [ix|] eqn:Ei; [|discriminate]. injection He as <-. rewrite tb_cols_mk.
        assert (Hak : In ak (akeys (tb_cols Te))) by (eapply index_of_some_in; eauto).
        destruct (in_split_first ak _ Hak) as [K1 [K2 [EK HK]]].
        rewrite EK, (index_of_pivot ak K1 K2 HK) in Ei. injection Ei as <-.
        exists (K1 ++ [ak]), K2. split; [rewrite <- app_assoc; auto|]. split.
        { exact (insert_after_keys (k, c) K1 ak K2 (tb_cols Te) EK). }
        exists (L ++ [ak]), R. split; [rewrite <- app_assoc; auto|]. split.
        + pose proof P3 as P3'. rewrite EK, EL, filter_app in P3'. cbn [filter] in P3'.
          assert (Hib : inE s ak = true) by (apply mem_name_In; auto). rewrite Hib in P3'.
          rewrite filter_app. cbn [filter]. rewrite Hib. f_equal.
          apply (pivot_eq ak _ _ _ _ P3'); auto. intro H. apply filter_In in H. tauto.
        + split; auto. intros p Hp. rewrite last_opt_snoc in Hp. injection Hp as <-. auto.
      - (* appended *)
        injection He as <-. rewrite tb_cols_mk. exists (akeys (tb_cols Te)), []. split; [rewrite app_nil_r; auto|].
        split; [unfold akeys; rewrite map_app; auto|].
        exists (b_existing s), []. split; [rewrite app_nil_r; auto|]. split; [auto|]. split; auto. intros q Hq. discriminate. }
    destruct Hshape as [X [Y [EX [EX1 [E1 [E2 [HE [HfX [Hl Hh]]]]]]]]].
    assert (Hmem : forall z, In z (akeys (tb_cols Te1)) -> z = k \/ In z (akeys (tb_cols Te))).
    { intros z. rewrite EX1, EX, !in_app_iff. simpl. intuition (subst; auto). }
    constructor; cbn [b_existing b_order]; auto.
    + intros z Hz Hn. destruct (Hmem z Hz) as [-> | H]; auto.
    + change (inE _) with (inE s). rewrite EX1, filter_app. cbn [filter]. rewrite HfE, <- filter_app, <- EX. auto.
    + intros z Hz Hn. change (inE _) with (inE s). destruct (name_eqb k z) eqn:Ekz.
      * apply name_eqb_eq in Ekz. subst z. exists E1, E2, X, Y. auto.
      * apply name_eqb_neq in Ekz. destruct (Hmem z Hz) as [-> | H]; [congruence|].
        destruct (P4 z H Hn) as [F1 [F2 [S1 [S2 [HF [HS [HfS [Hl' Hh']]]]]]]].
        rewrite EX in HS. destruct (insert_split (inE s) k z HfE Ekz X Y S1 S2 HS) as [S1' [S2' [HS' Hf']]].
        exists F1, F2, S1', S2'. rewrite EX1. split; auto. split; auto. split; [congruence|]. split; intros; apply Hmono; auto.
  - (* drop *)
    destruct (aget k (b_cols s)) eqn:G; [|discriminate]. destruct (mem_name k (b_existing s)) eqn:Ek; [|discriminate].
    injection Hm as <-. apply negb_true_iff, mem_name_false in Hpl. apply mem_name_In in Ek.
    destruct (negb (has_key k Te)); [discriminate|]. destruct (existsb _ (tb_idx Te)); [discriminate|].
    destruct (existsb _ (tb_cons Te)); [discriminate|]. injection He as <-. cbn [tb_cols b_existing b_order].
    assert (HinE : forall l, filter (fun x => mem_name x (remove_name k (b_existing s))) (remove_name k l) = remove_name k (filter (inE s) l)).
    { intros l. apply filter_remove_comm; auto. }
    assert (Hz' : forall z, In z (akeys (adel k (tb_cols Te))) -> ~ In z (remove_name k (b_existing s)) ->
               In z (akeys (tb_cols Te)) /\ ~ In z (b_existing s) /\ z <> k).
    { intros z Hz Hn. rewrite akeys_adel in Hz. apply remove_name_In in Hz. destruct Hz as [Hz Hne]. split; auto. split; auto.
      intro H. apply Hn. apply remove_name_In. auto. }
    constructor; cbn [b_existing b_order tb_cols].
    + intros x Hx. apply remove_name_In in Hx. apply P1. tauto.
    + intros z Hz Hn. destruct (Hz' z Hz Hn) as [H1 [H2 _]]. auto.
    + unfold inE. cbn [b_existing]. rewrite akeys_adel, HinE, P3. auto.
    + intros z Hz Hn. destruct (Hz' z Hz Hn) as [H1 [H2 H3]].
      destruct (P4 z H1 H2) as [F1 [F2 [S1 [S2 [HF [HS [HfS [Hl' Hh']]]]]]]].
      exists (remove_name k F1), (remove_name k F2), (remove_name k S1), (remove_name k S2).
      split; [rewrite HF; apply remove_name_app|]. split.
      { rewrite akeys_adel, HS, remove_name_app. cbn [remove_name filter].
        destruct (name_eqb k z) eqn:E; [apply name_eqb_eq in E; congruence|]. reflexivity. }
      split; [unfold inE; cbn [b_existing]; rewrite HinE, HfS; auto|].
      assert (Hnk : forall x y, In (x, y) (b_order s) -> x <> k /\ y <> k).
      { intros x y Hxy. assert (Hin : forall w, In w [x; y] -> In w (order_keys s)) by (intros w Hw; unfold order_keys; apply in_flat_map; exists (x, y); split; auto).
        split; intro; subst; apply Hpl; apply Hin; simpl; auto. }
      split.
      * intros p Hp. destruct (last_opt F1) as [p0|] eqn:El.
        -- pose proof (Hl' p0 eq_refl) as Hin. destruct (Hnk _ _ Hin) as [Hp0 _].
           rewrite (last_opt_remove _ _ _ El Hp0) in Hp. injection Hp as <-. auto.
        -- apply last_opt_none in El. rewrite El in Hp. cbn in Hp. discriminate.
      * intros q Hq. destruct (hd_error F2) as [q0|] eqn:Eh.
        -- pose proof (Hh' q0 eq_refl) as Hin. destruct (Hnk _ _ Hin) as [_ Hq0].
           rewrite (hd_error_remove _ _ _ Eh Hq0) in Hq. injection Hq as <-. auto.
        -- rewrite (remove_name_nil_of_hd _ _ Eh) in Hq. discriminate.
  - (* alter *)
    destruct (aget k (b_cols s)) eqn:G; [|discriminate]. destruct (aget k (b_tr s)); [|discriminate]. injection Hm as <-.
    destruct (aget k (tb_cols Te)) as [c0|] eqn:Gc; [|discriminate].
    destruct (mem_name _ _); [discriminate|]. injection He as <-.
    constructor; cbn [b_existing b_order tb_cols]; unfold inE; cbn [b_existing]; rewrite ?akeys_aset by congruence; auto.
  - injection Hm as <-. destruct (_ || _); [discriminate|]. injection He as <-. constructor; auto.
  - destruct (con_get n (b_named s)); [|discriminate]. injection Hm as <-. destruct (is_some _); [|discriminate]. injection He as <-. constructor; auto.
  - injection Hm as <-. destruct (_ || _); [discriminate|]. injection He as <-. constructor; auto.
  - destruct (idx_get n (b_idx s)); [|discriminate]. injection Hm as <-. destruct (is_some _); [|discriminate]. injection He as <-. constructor; auto.
Qed.

Lemma order_mono_step o s s' T : InvA s T -> apply_batch_op o s = BOk s' -> incl (b_order s) (b_order s').
Proof.
  intros HI Hm. destruct o as [k c b a|k|k a|c|n|x|n]; cbn [apply_batch_op] in Hm.
  - destruct (setup_dependencies s k b a) as [ord|] eqn:Hs; [|discriminate]. injection Hm as <-. cbn [b_order].
    apply (setup_pairs s k b a ord (ia_part _ _ HI) Hs).
  - destruct (aget k (b_cols s)); [|discriminate]. destruct (mem_name k (b_existing s)); [|discriminate]. injection Hm as <-. intros y0; auto.
  - destruct (aget k (b_cols s)); [|discriminate]. destruct (aget k (b_tr s)); [|discriminate]. injection Hm as <-. intros y0; auto.
  - injection Hm as <-. intros y0; auto.
  - destruct (con_get n (b_named s)); [|discriminate]. injection Hm as <-. intros y0; auto.
  - injection Hm as <-. intros y0; auto.
  - destruct (idx_get n (b_idx s)); [|discriminate]. injection Hm as <-. intros y0; auto.
Qed.

Lemma existing_mono_step o s s' : apply_batch_op o s = BOk s' -> incl (b_existing s') (b_existing s).
Proof.
  intros Hm. destruct o as [k c b a|k|k a|c|n|x|n]; cbn [apply_batch_op] in Hm.
  - destruct (setup_dependencies s k b a); [|discriminate]. injection Hm as <-. intros y0; auto.
  - destruct (aget k (b_cols s)); [|discriminate]. destruct (mem_name k (b_existing s)); [|discriminate]. injection Hm as <-.
    cbn [b_existing]. intros y0 Hy0. apply remove_name_In in Hy0. tauto.
  - destruct (aget k (b_cols s)); [|discriminate]. destruct (aget k (b_tr s)); [|discriminate]. injection Hm as <-. intros y0; auto.
  - injection Hm as <-. intros y0; auto.
  - destruct (con_get n (b_named s)); [|discriminate]. injection Hm as <-. intros y0; auto.
  - injection Hm as <-. intros y0; auto.
  - destruct (idx_get n (b_idx s)); [|discriminate]. injection Hm as <-. intros y0; auto.
Qed.

Lemma placement_head o ops s : placement_ok (o :: ops) s = true ->
  (match o with
   | OAddColumn _ _ (Some b) None => mem_name b (b_existing s)
   | OAddColumn _ _ None (Some a) => mem_name a (b_existing s)
   | OAddColumn _ _ (Some _) (Some _) => false
   | ODropColumn k => negb (mem_name k (order_keys s))
   | _ => true end) = true.
Proof. cbn [placement_ok]. intros H. apply andb_true_iff in H. tauto. Qed.

(* the joint run: the code, the specification `edit`, the append specification *)
Lemma PG_ops T0 A : (forall k, In k A -> ~ In k (akeys (tb_cols T0))) -> forall ops s T' Te s' Te',
  forallb in_class_a ops = true -> placement_ok ops s = true -> incl (added_keys ops) A ->
  InvA s T' -> EA Te T' -> NoDup (akeys (tb_cols Te)) -> PG T0 A s Te ->
  apply_ops ops s = BOk s' -> edit_all ops Te = BOk Te' ->
  exists T'', edit_app_all ops T' = BOk T'' /\ InvA s' T'' /\ EA Te' T'' /\ NoDup (akeys (tb_cols Te')) /\ PG T0 A s' Te'.
Proof.
  intros HfrA. induction ops as [|o ops IH]; cbn [apply_ops edit_all edit_app_all forallb]; intros s T' Te s' Te' Hc Hp HA HI HR Nk HP Hm He.
  - injection Hm as <-. injection He as <-. exists T'. auto.
  - apply andb_true_iff in Hc. destruct Hc as [Hc1 Hc2].
    destruct (apply_batch_op o s) as [s1|] eqn:Ao; [|discriminate]. destruct (edit o Te) as [Te1|] eqn:E; [|discriminate].
    destruct (added_keys_incl_cons _ _ _ HA) as [HA1 HA2].
    assert (Nk' : NoDup (akeys (tb_cols T'))) by (rewrite <- (ia_cols _ _ HI); apply (ia_nk _ _ HI)).
    destruct (EA_step o Te T' Te1 Hc1 HR Nk Nk' E) as [T'1 [E' HR1]]. rewrite E'.
    apply (IH s1 T'1 Te1); auto.
    + apply (placement_tail o ops s); auto.
    + apply (stepA o s s1 T' T'1); auto.
    + apply (edit_keys_nodup o Te Te1); auto.
    + apply (PG_step T0 A o s s1 T' Te Te1); auto. apply (placement_head o ops); auto.
Qed.

(* ------------------------------------------------------------------ (3) a linear extension puts the column into its gap *)
Lemma precedes_in_suffix z q S1 S2 : NoDup (S1 ++ z :: S2) -> precedes z q (S1 ++ z :: S2) -> In q S2.
Proof.
  intros Hn [i [j [Hi [Hj Hl]]]].
  assert (Hz : ~ In z S1) by (intro Hz; apply (NoDup_app_notin S1 (z :: S2) z Hn Hz); simpl; auto).
  rewrite index_of_app_r in Hi; auto. cbn in Hi. rewrite name_eqb_refl in Hi. cbn in Hi. injection Hi as <-.
  destruct (mem_name q S1) eqn:E.
  - apply mem_name_In in E. destruct (index_of_in q S1 E) as [j' Hj']. pose proof (index_of_lt _ _ _ Hj') as Hlt.
    rewrite (index_of_app_l q S1 (z :: S2) j' Hj') in Hj. injection Hj as <-. lia.
  - apply mem_name_false in E. pose proof (index_of_some_in _ _ _ Hj) as Hin. apply in_app_or in Hin.
    destruct Hin as [H|[H|H]]; auto; [tauto|]. subst q.
    rewrite index_of_app_r in Hj; auto. cbn in Hj. rewrite name_eqb_refl in Hj. cbn in Hj. injection Hj as <-. lia.
Qed.

Lemma last_opt_cons (e:key) l p : last_opt l = Some p -> last_opt (e :: l) = Some p.
Proof. intros H. destruct (last_opt_some _ _ H) as [l' ->]. change (e :: l' ++ [p]) with ((e :: l') ++ [p]). apply last_opt_snoc. Qed.

Lemma app_split_unique : forall (A B E1 E2:list key), A ++ B = E1 ++ E2 -> NoDup (A ++ B) ->
  (forall p, last_opt E1 = Some p -> In p A) -> (forall q, hd_error E2 = Some q -> In q B) -> A = E1.
Proof.
  induction A as [|a A IH]; intros B E1 E2 E Hn Hl Hh.
  - destruct (last_opt E1) as [p|] eqn:El; [destruct (Hl p eq_refl)|]. apply last_opt_none in El. auto.
  - destruct E1 as [|e E1]; cbn [app] in E.
    + exfalso. subst E2. inversion Hn; subst. apply H1. apply in_or_app. right. apply Hh. reflexivity.
    + inversion E; subst e. f_equal. inversion Hn; subst. apply (IH B E1 E2); auto.
      intros p Hp. destruct (Hl p (last_opt_cons a E1 p Hp)) as [<-|H]; auto.
      exfalso. apply H2. rewrite H1. apply in_or_app. left. apply last_opt_in; auto.
Qed.

Lemma gap_sorted E1 E2 sorted z :
  NoDup (E1 ++ E2) -> NoDup sorted -> ~ In z (E1 ++ E2) -> In z sorted ->
  filter (fun k => mem_name k (E1 ++ E2)) sorted = E1 ++ E2 ->
  (forall p, last_opt E1 = Some p -> precedes p z sorted) -> (forall q, hd_error E2 = Some q -> precedes z q sorted) ->
  kanchor (fun x => negb (mem_name x (E1 ++ E2))) None sorted z = Some (last_opt E1).
Proof.
  intros HnE Hns HzE Hzs Hf Hp Hq.
  assert (Hfe : forall l, filter (fun x => negb (negb (mem_name x (E1 ++ E2)))) l = filter (fun k => mem_name k (E1 ++ E2)) l).
  { intros l. apply filter_ext_in'. intros x _. destruct (mem_name x (E1 ++ E2)); auto. }
  destruct (in_split z sorted Hzs) as [P1 [P2 Es]]. subst sorted.
  assert (HzP : ~ In z P1) by (intro H; apply (NoDup_app_notin P1 (z :: P2) z Hns H); simpl; auto).
  rewrite (kanchor_split _ P1 None z P2 HzP), Hfe.
  rewrite filter_app in Hf. cbn [filter] in Hf. destruct (mem_name z (E1 ++ E2)) eqn:Emz; [apply mem_name_In in Emz; tauto|].
  assert (HA : filter (fun k => mem_name k (E1 ++ E2)) P1 = E1).
  { apply (app_split_unique _ _ _ _ Hf).
    - exact (eq_ind_r (fun l => NoDup l) HnE Hf).
    - intros p Hl. apply filter_In. split; [apply (precedes_in_prefix p z P1 P2); auto|].
      apply mem_name_In. apply in_or_app. left. apply last_opt_in; auto.
    - intros q Hh. apply filter_In. split; [apply (precedes_in_suffix z q P1 P2); auto|].
      apply mem_name_In. apply in_or_app. right. destruct E2; inversion Hh; subst; simpl; auto. }
  rewrite HA. destruct (last_opt E1); auto.
Qed.

Lemma gap_spec E S1 S2 z : NoDup (S1 ++ z :: S2) ->
  kanchor (fun x => negb (mem_name x E)) None (S1 ++ z :: S2) z = Some (last_opt (filter (fun k => mem_name k E) S1)).
Proof.
  intros Hn. assert (HzS : ~ In z S1) by (intro H; apply (NoDup_app_notin S1 (z :: S2) z Hn H); simpl; auto).
  assert (Hfe : forall l, filter (fun x => negb (negb (mem_name x E))) l = filter (fun k => mem_name k E) l).
  { intros l. apply filter_ext_in'. intros x _. destruct (mem_name x E); auto. }
  rewrite (kanchor_split _ S1 None z S2 HzS), Hfe. f_equal. destruct (last_opt (filter (fun k => mem_name k E) S1)); auto.
Qed.

(* positions of names = positions of keys *)
Lemma col_pos_keys (g:key -> col) l x : (forall y, In y l -> c_name (g y) = c_name (g x) -> y = x) ->
  col_pos (c_name (g x)) (map g l) = index_of x l.
Proof.
  induction l as [|y l IH]; intros Hinj; cbn [map col_pos index_of]; auto.
  destruct (name_eqb x y) eqn:E.
  - apply name_eqb_eq in E. subst y. rewrite name_eqb_refl. auto.
  - destruct (name_eqb (c_name (g y)) (c_name (g x))) eqn:E2.
    + apply name_eqb_eq in E2. apply Hinj in E2; [|simpl; auto]. subst y. rewrite name_eqb_refl in E. discriminate.
    + rewrite IH; auto. intros y0 Hy0. apply Hinj. simpl; auto.
Qed.

Lemma before_keys (g:key -> col) sorted x y :
  (forall a b, In a sorted -> In b sorted -> c_name (g a) = c_name (g b) -> a = b) ->
  precedes x y sorted -> before_b (map g sorted) (Some (c_name (g x))) (Some (c_name (g y))) = true.
Proof.
  intros Hinj [i [j [Hi [Hj Hl]]]]. unfold before_b.
  rewrite !col_pos_keys, Hi, Hj.
  - apply Nat.ltb_lt; auto.
  - intros y0 H0 H1. apply Hinj; auto. eapply index_of_some_in; eauto.
  - intros y0 H0 H1. apply Hinj; auto. eapply index_of_some_in; eauto.
Qed.

(* ------------------------------------------------------------------ assembly *)
Lemma describe_EA Te T' : EA Te T' ->
  n_pk (describe Te) = n_pk (describe T') /\ n_cons (describe Te) = n_cons (describe T') /\ n_idx (describe Te) = n_idx (describe T').
Proof.
  intros [G E1 E2 E3].
  assert (Hcn : forall k, cur_name (tb_cols Te) k = cur_name (tb_cols T') k) by (intros k; unfold cur_name; rewrite G; auto).
  unfold describe. cbn [n_pk n_cons n_idx]. rewrite E1, E2, E3. split; [|split].
  - apply map_ext. auto.
  - apply map_ext. intros c. f_equal. apply map_ext. auto.
  - apply map_ext. intros x. f_equal. apply map_ext. auto.
Qed.

Section FinalG.
  Variables (i:input10) (Te T':tbl) (s:bstate) (nd:ndesc) (cm:copymap) (sorted:list key).
  Hypothesis Hwf2 : wf_tbl2 (j_tbl i) = true.
  Hypothesis Hca : forallb in_class_a (j_ops i) = true.
  Hypothesis Hfresh : NoDup (akeys (tb_cols (j_tbl i)) ++ added_keys (j_ops i)).
  Hypothesis He : edit_app_all (j_ops i) (j_tbl i) = BOk T'.
  Hypothesis HI : InvA s T'.
  Hypothesis HR : EA Te T'.
  Hypothesis Nke : NoDup (akeys (tb_cols Te)).
  Hypothesis HG : PG (j_tbl i) (added_keys (j_ops i)) s Te.
  Hypothesis HF : FinA s T' nd cm sorted.
  Hypothesis HEO : filter (fun k => mem_name k (b_existing s)) sorted = b_existing s.


  Lemma G_keys k : In k (akeys (tb_cols Te)) <-> In k (akeys (tb_cols T')).
  Proof. apply EA_keys; auto. Qed.

  Lemma G_HP1 : incl (b_existing s) (akeys (tb_cols (j_tbl i))).
  Proof. apply (pg_orig _ _ _ _ HG). Qed.
  Lemma G_HP2 : forall z, In z (akeys (b_cols s)) -> ~ In z (b_existing s) -> In z (added_keys (j_ops i)).
  Proof. intros z Hz Hn. apply (pg_added _ _ _ _ HG); auto. apply G_keys. rewrite <- (ia_cols _ _ HI). auto. Qed.

  Lemma G_getc k : getc (tb_cols Te) k = getc (tb_cols T') k.
  Proof. unfold getc. rewrite (ea_get _ _ HR). auto. Qed.

  Lemma G_equiv : desc_equiv_w (added_names (j_ops i)) nd (describe Te).
  Proof.
    pose proof (F_nk T' s HI) as Nk'.
    pose proof (F_sorted T' s nd cm sorted HF) as Hsorted.
    pose proof (F_HZ i T' s nd cm sorted Hca Hfresh He HI G_HP1 G_HP2 HF) as HZ.
    pose proof (F_inj T' s nd cm sorted HF) as Hinj.
    assert (HnotA : forall k, In k (akeys (tb_cols T')) -> not_in (added_names (j_ops i)) (getc (tb_cols T') k) = mem_name k (b_existing s)).
    { intros k Hk. unfold not_in. rewrite (HZ k Hk). destruct (mem_name k (b_existing s)); auto. }
    destruct (describe_EA Te T' HR) as [Dpk [Dcons Didx]].
    unfold desc_equiv_w. rewrite Dpk, Dcons, Didx.
    rewrite (fa_pk _ _ _ _ _ HF), (fa_cons _ _ _ _ _ HF), (fa_idx _ _ _ _ _ HF), (fa_cols _ _ _ _ _ HF).
    assert (Hcols : n_cols (describe Te) = map (getc (tb_cols T')) (akeys (tb_cols Te))).
    { unfold describe. cbn [n_cols]. rewrite (map_snd_getc _ Nke). apply map_ext. apply G_getc. }
    rewrite Hcols.
    split; [|split; [|split; [|split; [reflexivity|split; apply set_equiv_refl]]]].
    - split.
      + intros c. rewrite !in_map_iff. split; intros [k [E Hk]]; exists k; split; auto; [apply G_keys; apply Hsorted; auto|apply Hsorted; apply G_keys; auto].
      + rewrite !map_length. apply NoDup_same_length; [apply (fa_nd _ _ _ _ _ HF)|auto|]. intros x. rewrite Hsorted, G_keys. tauto.
    - rewrite !filter_map_comm. f_equal. transitivity (b_existing s).
      + etransitivity; [|exact HEO]. apply filter_ext_in'. intros k Hk. apply HnotA. apply Hsorted; auto.
      + symmetry. etransitivity; [|apply (pg_ex _ _ _ _ HG)]. apply filter_ext_in'. intros k Hk. apply HnotA. apply G_keys; auto.
    - intros c Hc' Hm. apply in_map_iff in Hc'. destruct Hc' as [z [<- Hz]]. apply Hsorted in Hz.
      rewrite (HZ z Hz) in Hm. apply negb_true_iff, mem_name_false in Hm.
      pose (isZ := fun x : key => negb (mem_name x (b_existing s))).
      assert (HA : forall l, incl l (akeys (tb_cols T')) ->
                 anchor (added_names (j_ops i)) (map (getc (tb_cols T')) l) (c_name (getc (tb_cols T') z)) =
                 option_map (option_map (fun k => c_name (getc (tb_cols T') k))) (kanchor isZ None l z)).
      { intros l Hl. unfold anchor. apply (anchor_keys (tb_cols T') (added_names (j_ops i)) isZ (akeys (tb_cols T')) Hinj HZ l None z Hl Hz). }
      rewrite (HA sorted) by (intros x Hx; apply Hsorted; auto). rewrite (HA (akeys (tb_cols Te))) by (intros x Hx; apply G_keys; auto).
      f_equal.
      destruct (pg_gap _ _ _ _ HG z (proj2 (G_keys z) Hz) Hm) as [E1 [E2 [S1 [S2 [HE [HS [HfS [Hl Hh]]]]]]]].
      assert (NE : NoDup (E1 ++ E2)) by (rewrite <- HE; apply (NoDup_existing s T'); auto).
      assert (Hprec : forall a b, In (a, b) (b_order s) -> a <> b -> In a (akeys (tb_cols T')) -> In b (akeys (tb_cols T')) -> precedes a b sorted).
      { intros a b Hab Hne Ha Hb. apply (fa_prec _ _ _ _ _ HF); auto.
        - intro E0. rewrite E0 in Hab. destruct Hab.
        - unfold rpairs. apply in_or_app; auto. }
      assert (HinE : forall e, In e (b_existing s) -> In e (akeys (tb_cols T'))).
      { intros e Hin. destruct (ia_ex _ _ HI) as [zs Ez]. rewrite <- (ia_cols _ _ HI), Ez. apply in_or_app; auto. }
      transitivity (Some (last_opt E1)).
      + unfold isZ. rewrite HE. apply gap_sorted; auto.
        * apply (fa_nd _ _ _ _ _ HF).
        * intro Hz'. apply Hm. rewrite HE. exact Hz'.
        * apply Hsorted; auto.
        * pose proof HEO as H0. rewrite HE in H0. exact H0.
        * intros p Hp. assert (Hpe : In p (b_existing s)) by (rewrite HE; apply in_or_app; left; apply last_opt_in; auto).
          apply Hprec; auto. intro; subst. auto.
        * intros q Hq. assert (Hqe : In q (b_existing s)) by (rewrite HE; apply in_or_app; right; destruct E2; inversion Hq; subst; simpl; auto).
          apply Hprec; auto. intro; subst. auto.
      + symmetry. rewrite HS. unfold isZ. etransitivity; [apply (gap_spec (b_existing s)); rewrite <- HS; auto|].
        f_equal. f_equal. exact HfS.
  Qed.
End FinalG.

Lemma order_mono_ops ops : forall s T s' T', forallb in_class_a ops = true -> InvA s T ->
  apply_ops ops s = BOk s' -> edit_app_all ops T = BOk T' -> incl (b_order s) (b_order s').
Proof.
  induction ops as [|o ops IH]; cbn [apply_ops edit_app_all forallb]; intros s T s' T' Hc HI Hm He.
  - injection Hm as <-. intros y0; auto.
  - apply andb_true_iff in Hc. destruct Hc as [Hc1 Hc2].
    destruct (apply_batch_op o s) as [s1|] eqn:Ao; [|discriminate]. destruct (edit_app o T) as [T1|] eqn:E; [|discriminate].
    intros y0 Hy0. apply (IH s1 T1 s' T'); auto; [apply (stepA o s s1 T T1); auto|apply (order_mono_step o s s1 T); auto].
Qed.

(* an inserted column is on the requested side of the column it names *)
Section SideG.
  Variables (all:list batch_op) (nd:ndesc) (sF:bstate) (Tf:tbl) (sorted:list key) (K0:list key).
  Hypothesis Hcols : n_cols nd = map (getc (tb_cols Tf)) sorted.
  Hypothesis Hinj : forall x y, In x (akeys (tb_cols Tf)) -> In y (akeys (tb_cols Tf)) ->
                    c_name (getc (tb_cols Tf) x) = c_name (getc (tb_cols Tf) y) -> x = y.
  Hypothesis Hsorted : forall k, In k sorted <-> In k (akeys (tb_cols Tf)).
  Hypothesis Hprec : forall a b, In (a, b) (b_order sF) -> a <> b -> In a (akeys (tb_cols Tf)) -> In b (akeys (tb_cols Tf)) -> precedes a b sorted.
  Hypothesis Hfin : forall bk, In bk K0 -> final_name all bk bk = option_map c_name (aget bk (tb_cols Tf)).

  Lemma side_pair x y : In (x, y) (b_order sF) -> x <> y ->
    before_b (n_cols nd) (option_map c_name (aget x (tb_cols Tf))) (option_map c_name (aget y (tb_cols Tf))) = true.
  Proof.
    intros Hp Hne. destruct (aget x (tb_cols Tf)) as [cx|] eqn:Gx; [|reflexivity].
    destruct (aget y (tb_cols Tf)) as [cy|] eqn:Gy; [|reflexivity]. cbn [option_map].
    rewrite <- (getc_some _ _ _ Gx), <- (getc_some _ _ _ Gy), Hcols.
    apply before_keys.
    - intros a b Ha Hb. apply Hinj; apply Hsorted; auto.
    - apply Hprec; auto; eapply aget_some_in; eauto.
  Qed.

  Lemma side_okG : forall ops s T, forallb in_class_a ops = true -> placement_ok ops s = true -> InvA s T ->
    incl (b_existing s) K0 -> NoDup (added_keys ops) ->
    (forall a, In a (added_keys ops) -> aget a (tb_cols T) = None /\ ~ In a K0) ->
    apply_ops ops s = BOk sF -> edit_app_all ops T = BOk Tf -> side_ok_from all ops nd = true.
  Proof.
    induction ops as [|o ops IH]; cbn [apply_ops edit_app_all forallb]; intros s T Hc Hpl HI HK Hn Hf Hm He; [reflexivity|].
    apply andb_true_iff in Hc. destruct Hc as [Hc1 Hc2].
    destruct (apply_batch_op o s) as [s1|] eqn:Ao; [|discriminate]. destruct (edit_app o T) as [T1|] eqn:E; [|discriminate].
    pose proof (stepA o s s1 T T1 Hc1 HI Ao E) as HI1.
    pose proof (placement_tail o ops s s1 Hpl Ao) as Hpl1.
    pose proof (placement_head o ops s Hpl) as Hh.
    assert (HK1 : incl (b_existing s1) K0) by (intros y0 Hy0; apply HK; apply (existing_mono_step o s s1 Ao); auto).
    destruct (is_addb o) eqn:Ea.
    - destruct o as [k c b a| | | | | |]; try discriminate. cbn [added_keys] in Hn, Hf. cbn [side_ok_from].
      inversion Hn as [|? ? Hk Hn']; subst.
      destruct (editA_add k c b a T T1 E) as [G [_ [Hnm ET1]]].
      assert (Hk1 : aget k (tb_cols T1) = Some c) by (rewrite ET1; cbn [tb_cols]; rewrite aget_app_r; auto; cbn; rewrite name_eqb_refl; auto).
      assert (Hf1 : forall a0, In a0 (added_keys ops) -> aget a0 (tb_cols T1) = None /\ ~ In a0 K0).
      { intros a0 Ha0. destruct (Hf a0 (or_intror Ha0)) as [H1 H2]. split; auto. rewrite ET1. cbn [tb_cols].
        rewrite aget_app_other; auto. intro; subst. auto. }
      rewrite (IH s1 T1 Hc2 Hpl1 HI1 HK1 Hn' Hf1 Hm He), andb_true_r.
      rewrite (final_nameA ops T1 Tf k c Hc2 He Hk1 Hk).
      pose proof (order_mono_ops ops s1 T1 sF Tf Hc2 HI1 Hm He) as Hmono.
      destruct (Hf k (or_introl eq_refl)) as [_ HkK].
      cbn [apply_batch_op] in Ao. destruct (setup_dependencies s k b a) as [ord|] eqn:Hs; [|discriminate]. injection Ao as <-.
      cbn [b_order] in Hmono.
      destruct (setup_pairs s k b a ord (ia_part _ _ HI) Hs) as [_ Hnew].
      destruct b as [bk|]; destruct a as [ak|]; try discriminate; cbn [andb]; auto.
      + apply mem_name_In in Hh. destruct (in_split_first bk _ Hh) as [L [R [EL HL]]]. destruct (Hnew L R EL HL) as [Hp1 _].
        rewrite andb_true_r. rewrite (Hfin bk (HK bk Hh)). apply side_pair; auto. intro; subst. auto.
      + apply mem_name_In in Hh. destruct (in_split_first ak _ Hh) as [L [R [EL HL]]]. destruct (Hnew L R EL HL) as [Hp1 _].
        rewrite (Hfin ak (HK ak Hh)). apply side_pair; auto. intro; subst. auto.
    - assert (Hak : added_keys (o :: ops) = added_keys ops) by (destruct o; try discriminate; auto).
      assert (Hso : side_ok_from all (o :: ops) nd = side_ok_from all ops nd) by (destruct o; try discriminate; auto).
      rewrite Hak in *. rewrite Hso. apply (IH s1 T1); auto.
      intros a0 Ha0. destruct (Hf a0 Ha0) as [H1 H2]. split; auto. apply (editA_absent o T T1 a0); auto. destruct o; try discriminate; cbn; tauto.
  Qed.
End SideG.

(* ------------------------------------------------------------------ self-referential foreign keys: no referred column renamed *)
Definition SR (tg:list name) (T:tbl) : Prop :=
  (forall c, In c (tb_cons T) -> incl (self_targets_con c) tg) /\ (forall k c, In k tg -> aget k (tb_cols T) = Some c -> c_name c = k).

Lemma self_targets_pk_drop k c : self_targets_con (pk_drop_col k c) = self_targets_con c.
Proof. unfold pk_drop_col. destruct (is_primary c); auto. Qed.

Lemma SR_step tg o T T' : okop tg o = true -> SR tg T -> edit o T = BOk T' -> SR tg T'.
Proof.
  intros Hok [S1 S2] He. destruct o as [k c b a|k|k a|c|n|x|n]; cbn [edit okop] in He, Hok.
  - destruct (has_key k T) eqn:Hk; [discriminate|]. cbn [orb] in He.
    destruct (mem_name (c_name c) (names_of T)); [discriminate|]. cbn [orb] in He.
    destruct (name_eqb k (c_name c)) eqn:En; [|discriminate]. cbn [negb] in He. apply name_eqb_eq in En.
    assert (Gk : aget k (tb_cols T) = None) by (unfold has_key in Hk; destruct (aget k (tb_cols T)); [discriminate|auto]).
    assert (Hres : forall cols', (forall k0, aget k0 cols' = if name_eqb k0 k then Some c else aget k0 (tb_cols T)) ->
              SR tg (mkTbl cols' (tb_pk T) (tb_cons T) (tb_idx T))).
    { intros cols' Hg. split; cbn [tb_cons tb_cols]; auto. intros k0 c0 Hk0. rewrite Hg. destruct (name_eqb k0 k) eqn:E0.
      - apply name_eqb_eq in E0. intros H. injection H as <-. congruence.
      - apply S2; auto. }
    destruct b as [b|]; [|destruct a as [a|]].
    + destruct (index_of b (akeys (tb_cols T))) as [p|]; [|discriminate]. injection He as <-. apply Hres. intros k0. exact (aget_insert_at k c p (tb_cols T) k0 Gk).
    + destruct (index_of a (akeys (tb_cols T))) as [p|]; [|discriminate]. injection He as <-. apply Hres. intros k0. exact (aget_insert_at k c (S p) (tb_cols T) k0 Gk).
    + injection He as <-. apply Hres. intros k0. apply aget_snoc; auto.
  - destruct (negb (has_key k T)); [discriminate|]. destruct (existsb _ (tb_idx T)); [discriminate|].
    destruct (existsb _ (tb_cons T)); [discriminate|]. injection He as <-. split; cbn [tb_cons tb_cols].
    + intros c Hc. apply in_map_iff in Hc. destruct Hc as [c0 [<- Hc0]]. rewrite self_targets_pk_drop. auto.
    + intros k0 c0 Hk0. rewrite aget_adel. destruct (name_eqb k0 k); [discriminate|]. apply S2; auto.
  - destruct (aget k (tb_cols T)) as [c|] eqn:Gc; [|discriminate]. destruct (mem_name _ (map _ (adel k (tb_cols T)))); [discriminate|]. injection He as <-.
    split; cbn [tb_cons tb_cols]; auto. intros k0 c0 Hk0. rewrite aget_aset. destruct (name_eqb k0 k) eqn:E0; [|apply S2; auto].
    apply name_eqb_eq in E0. subst k0. intros H. injection H as <-. cbn [c_name].
    destruct (al_name a) as [n|]; [|apply (S2 k c); auto].
    apply negb_true_iff, mem_name_false in Hok. tauto.
  - destruct (_ || _); [discriminate|]. injection He as <-. split; cbn [tb_cons tb_cols]; auto.
    intros c0 Hc0. apply in_app_or in Hc0. destruct Hc0 as [H|[<-|[]]]; auto.
    intros r Hr. rewrite forallb_forall in Hok. apply mem_name_In. auto.
  - destruct (is_some _); [|discriminate]. injection He as <-. split; cbn [tb_cons tb_cols]; auto.
    intros c0 Hc0. unfold con_del in Hc0. apply filter_In in Hc0. apply S1. tauto.
  - destruct (_ || _); [discriminate|]. injection He as <-. split; auto.
  - destruct (is_some _); [|discriminate]. injection He as <-. split; auto.
Qed.

Lemma SR_ops tg ops : forall T T', forallb (okop tg) ops = true -> SR tg T -> edit_all ops T = BOk T' -> SR tg T'.
Proof.
  induction ops as [|o ops IH]; cbn [edit_all forallb]; intros T T' Hok HS He.
  - injection He as <-. auto.
  - apply andb_true_iff in Hok. destruct Hok as [H1 H2]. destruct (edit o T) as [T1|] eqn:E; [|discriminate].
    apply (IH T1 T'); auto. apply (SR_step tg o T T1); auto.
Qed.

Lemma describe_s_id tg T : SR tg T -> describe_s T = describe T.
Proof.
  intros [S1 S2]. unfold describe_s. destruct (describe T) as [cols pk cons idx] eqn:ED. cbn [n_cols n_pk n_cons n_idx]. f_equal.
  assert (Hcons : cons = n_cons (describe T)) by (rewrite ED; auto). rewrite Hcons. unfold describe. cbn [n_cons].
  rewrite map_map. apply map_ext_in. intros c Hc. apply filter_In in Hc. destruct Hc as [Hc _].
  unfold self_fix. cbn [k_name k_kind k_cols]. f_equal.
  pose proof (S1 c Hc) as Hin. unfold self_targets_con in Hin.
  destruct (k_kind c) as [| |rt rc|]; auto. destruct (name_eqb rt self_table); auto. f_equal.
  rewrite <- (map_id rc) at 2. apply map_ext_in. intros r Hr. unfold cur_name.
  destruct (aget r (tb_cols T)) as [c0|] eqn:G; auto; try (apply (S2 r c0); auto).
Qed.

(* ------------------------------------------------------------------ the main theorem: every operation, add_column with any single placement *)
Theorem mainG i : inclass_C10 i = true -> C10_holds i (model10 i).
Proof.
  unfold inclass_C10. rewrite !andb_true_iff. intros [[[[[[[[[[[Ha Hnv] Hp] Hta] Huc] Hwf] Hc] Hty] Hfr] Hpl] Hsr] Hs].
  apply negb_true_iff in Hnv. apply is_nil_true in Hp. apply is_nil_true in Hta. apply is_nil_true in Huc.
  unfold specok in Hs. destruct (edit_all (j_ops i) (j_tbl i)) as [Te|] eqn:He0; [|discriminate]. clear Hs.
  unfold fresh_adds in Hfr. apply negb_true_iff in Hfr. apply has_dup_false_NoDup in Hfr.
  assert (Hwf1 : wf_tbl (j_tbl i) = true) by (unfold wf_tbl2 in Hwf; rewrite !andb_true_iff in Hwf; tauto).
  pose proof (NoDup_app_l _ _ Hfr) as Hn.
  assert (HfrA : forall k, In k (added_keys (j_ops i)) -> ~ In k (akeys (tb_cols (j_tbl i)))).
  { intros k Hk H0. apply (NoDup_app_notin _ _ k Hfr H0 Hk). }
  assert (Hg : grab (j_reflected i) (j_uchecks i) (j_tbl i) = j_tbl i).
  { unfold grab. rewrite Huc. destruct (j_reflected i); rewrite app_nil_r; destruct (j_tbl i); reflexivity. }
  unfold C10_holds. rewrite Hnv.
  unfold model10. rewrite Hnv, Ha, command_error_always, Hp, Hta, Hg. cbn [orb]. change (batch_with sa_tsort [] []) with (batch sa_tsort).
  destruct (batch sa_tsort (j_tbl i) (j_ops i)) as [[nd cm]|e] eqn:Hb; [|exact I].
  unfold batch, batch_with in Hb. change (init_with [] []) with init in Hb.
  destruct (apply_ops (j_ops i) (init (j_tbl i))) as [s|] eqn:Hm; [|discriminate].
  destruct (PG_ops (j_tbl i) (added_keys (j_ops i)) HfrA (j_ops i) (init (j_tbl i)) (j_tbl i) (j_tbl i) s Te Hc Hpl (fun x H => H)
                   (initA _ Hwf1 Hn) (EA_refl _) Hn (PG_init _ _ Hn) Hm He0) as [T' [He [HI [HR [Nke HG]]]]].
  destruct (finishA s T' nd cm HI Hb) as [sorted HF].
  pose proof (existing_order_kept s T' nd cm sorted HI HF) as HEO.
  destruct (CSA_ops (j_tbl i) _ _ _ [] Hty (CSA_init _ Hn) Hm) as [seen HCS].
  pose proof (G_HP1 i Te s HG) as HP1. pose proof (G_HP2 i Te T' s HI HR HG) as HP2.
  cbn [C10_holds_r]. split; [reflexivity|]. split; [apply copy_rows_length|].
  split; [eapply F_survivors; eauto|].
  split; [erewrite F_rows; eauto; apply mseq_refl|].
  split; [eapply F_untouched; eauto|].
  split; [rewrite (requested_ok_cons _ _ nd (describe T') (fa_cons _ _ _ _ _ HF)); apply (requested_okA _ _ (j_tbl i)); auto|].
  split.
  { apply (side_okG (j_ops i) nd s T' sorted (akeys (tb_cols (j_tbl i))) (fa_cols _ _ _ _ _ HF) (F_inj T' s nd cm sorted HF)
             (F_sorted T' s nd cm sorted HF)) with (s := init (j_tbl i)) (T := j_tbl i); auto.
    - intros a b Hab Hne Ha' Hb'. apply (fa_prec _ _ _ _ _ HF); auto.
      + intro E0. rewrite E0 in Hab. destruct Hab.
      + unfold rpairs. apply in_or_app; auto.
    - intros bk Hbk. destruct (in_keys_aget bk _ Hbk) as [c0 G0].
      pose proof (F_orig_final i T' Hc Hfr He bk c0 G0) as Hfn.
      destruct (F_wf i Hwf) as [Hw _]. rewrite (Hw bk c0 (aget_in _ _ _ G0)) in Hfn. exact Hfn.
    - apply (initA _ Hwf1 Hn).
    - intros x Hx. exact Hx.
    - apply (NoDup_app_r' _ _ Hfr).
    - intros a0 Ha0. split; [apply notin_aget_none|]; apply HfrA; auto. }
  rewrite Hp, Hta. split; [reflexivity|]. split; [reflexivity|].
  intros T'' He'. rewrite He0 in He'. injection He' as <-. cbn [is_nil].
  assert (HSR0 : SR (self_targets (j_tbl i) (j_ops i)) (j_tbl i)).
  { split.
    - intros c0 Hc0 r Hr. unfold self_targets. apply in_or_app. left. apply in_flat_map. exists c0. auto.
    - intros k c0 _ G0. destruct (F_wf i Hwf) as [Hw _]. apply (Hw k c0 (aget_in _ _ _ G0)). }
  rewrite (describe_s_id _ Te (SR_ops _ _ _ _ Hsr HSR0 He0)).
  unfold with_targs, carried. rewrite Huc. destruct (j_reflected i && negb (j_never i) && (j_always i || requires_recreate (j_ops i))); cbn [app]; rewrite app_nil_r;
    eapply G_equiv; eauto.
Qed.

(* ------------------------------------------------------------------ the fourth delimited deviation: a witness *)
(* t(id PK, a, CONSTRAINT fk FOREIGN KEY(a) REFERENCES t(id)); rename id -> a2: the recreated table still says REFERENCES t(id) *)
Definition w_tbl_self : tbl :=
  mkTbl [(w_id, mkCol w_id 0%N false None); (w_a, mkCol w_a 0%N true None)] [w_id] [mkCon w_uqa (KFk self_table [w_id]) [w_a]] [].
Definition w_in_self : input10 :=
  mkIn10 w_tbl_self [[VInt 1%Z; VNull]; [VInt 2%Z; VInt 1%Z]] [OAlterColumn w_id (mkAlter (Some w_a2) None None None)] [] [] true [] [] true [] false.
Theorem selfref_refuted :
  selfref_ok (j_tbl w_in_self) (j_ops w_in_self) = false /\
  (exists nd r, model10 w_in_self = OutOk nd r false /\ In (mkCon w_uqa (KFk self_table [w_id]) [w_a]) (n_cons nd)) /\
  check_C10 w_in_self (model10 w_in_self) = false /\ ~ C10_holds w_in_self (model10 w_in_self).
Proof.
  split; [vm_compute; reflexivity|]. split; [eexists; eexists; split; [vm_compute; reflexivity|vm_compute; auto]|].
  split; [vm_compute; reflexivity|]. intros H. apply decider_complete10 in H. vm_compute in H. discriminate.
Qed.
