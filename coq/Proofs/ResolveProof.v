(* Lemmas and proofs for C16 (Model/Resolve.v against Spec/C16.v). *)
From AV Require Import Model.Resolve Spec.C16.
From Coq Require Import Lia.

(* ------------------------------------------------------------------ strings *)
Lemma streqb_eq a b : streqb a b = true <-> a = b.
Proof.
  revert b; induction a as [|x a IH]; intros [|y b]; cbn; try (split; congruence).
  rewrite andb_true_iff, N.eqb_eq, IH. split; [intros [-> ->]; reflexivity | intros H; inversion H; auto].
Qed.
Lemma streqb_refl a : streqb a a = true. Proof. apply streqb_eq; reflexivity. Qed.
Lemma streqb_neq a b : streqb a b = false <-> a <> b.
Proof. rewrite <- streqb_eq. destruct (streqb a b); split; congruence. Qed.
Lemma streqb_sym a b : streqb a b = streqb b a.
Proof.
  destruct (streqb a b) eqn:E; symmetry.
  - apply streqb_eq in E; subst; apply streqb_refl.
  - apply streqb_neq; apply streqb_neq in E; congruence.
Qed.
Lemma mems_In x l : mems x l = true <-> In x l.
Proof.
  unfold mems. rewrite existsb_exists. split.
  - intros (y & Hy & E). apply streqb_eq in E; subst; auto.
  - intros H; exists x; split; auto using streqb_refl.
Qed.
Lemma mems_nIn x l : mems x l = false <-> ~ In x l.
Proof. rewrite <- mems_In. destruct (mems x l); split; congruence. Qed.

Lemma startswith_app k p : startswith k p = true <-> exists t, k = p ++ t.
Proof.
  revert k; induction p as [|c p IH]; intros k; cbn.
  - split; [intros _; exists k; reflexivity | reflexivity].
  - destruct k as [|d k]; [split; [discriminate | intros (t & H); discriminate]|].
    rewrite andb_true_iff, N.eqb_eq, IH. split.
    + intros (-> & t & ->); eauto.
    + intros (t & H); inversion H; subst; eauto.
Qed.
Lemma startswith_refl k : startswith k k = true.
Proof. apply startswith_app; exists []; rewrite app_nil_r; reflexivity. Qed.

(* ------------------------------------------------------------------ find_rev / lookup *)
Lemma find_rev_In G x r : find_rev G x = Some r -> In r G /\ s_id r = x.
Proof.
  induction G as [|a G IH]; cbn; [discriminate|].
  destruct (streqb (s_id a) x) eqn:E.
  - intros H; inversion H; subst. apply streqb_eq in E; auto.
  - intros H; destruct (IH H); auto.
Qed.
Lemma find_rev_NoDup G r : NoDup (ids G) -> In r G -> find_rev G (s_id r) = Some r.
Proof.
  induction G as [|a G IH]; cbn; [tauto|].
  intros ND [->|Hin]; [rewrite streqb_refl; reflexivity|].
  inversion ND as [|? ? Hn ND']; subst.
  destruct (streqb (s_id a) (s_id r)) eqn:E.
  - apply streqb_eq in E. exfalso; apply Hn. rewrite E. apply in_map; assumption.
  - auto.
Qed.
Lemma find_rev_None G x : find_rev G x = None <-> ~ In x (ids G).
Proof.
  induction G as [|a G IH]; cbn; [tauto|].
  destruct (streqb (s_id a) x) eqn:E.
  - apply streqb_eq in E. split; [discriminate | intros H; exfalso; apply H; auto].
  - apply streqb_neq in E. rewrite IH. tauto.
Qed.
Lemma find_rev_ids G x : In x (ids G) -> exists r, find_rev G x = Some r.
Proof. intros H. destruct (find_rev G x) eqn:E; eauto. apply find_rev_None in E; tauto. Qed.

Lemma lookup_In {A} k (l:list (str*A)) v : lookup k l = Some v -> In (k, v) l.
Proof.
  induction l as [|[k' v'] l IH]; cbn; [discriminate|].
  destruct (streqb k k') eqn:E.
  - apply streqb_eq in E; subst. intros H; inversion H; auto.
  - auto.
Qed.
Lemma lookup_None {A} k (l:list (str*A)) : lookup k l = None <-> ~ In k (map fst l).
Proof.
  induction l as [|[k' v'] l IH]; cbn; [tauto|].
  destruct (streqb k k') eqn:E.
  - apply streqb_eq in E; subst. split; [discriminate| intros H; exfalso; apply H; auto].
  - apply streqb_neq in E. rewrite IH. split; intros H; [intros [?|?]; [congruence|tauto] | tauto].
Qed.
Lemma lookup_app_l {A} k (l l':list (str*A)) v : lookup k l = Some v -> lookup k (l ++ l') = Some v.
Proof.
  induction l as [|[k' v'] l IH]; cbn; [discriminate|]. destruct (streqb k k'); auto.
Qed.
Lemma lookup_app_r {A} k (l l':list (str*A)) : lookup k l = None -> lookup k (l ++ l') = lookup k l'.
Proof.
  induction l as [|[k' v'] l IH]; cbn; [reflexivity|]. destruct (streqb k k'); [discriminate|auto].
Qed.
Lemma lookup_self G x : In x (ids G) -> lookup x (map (fun r => (s_id r, s_id r)) G) = Some x.
Proof.
  induction G as [|a G IH]; cbn; [tauto|].
  destruct (streqb x (s_id a)) eqn:E.
  - apply streqb_eq in E; subst; reflexivity.
  - apply streqb_neq in E. intros [H|H]; [congruence|auto].
Qed.

(* ------------------------------------------------------------------ decider soundness *)
Lemma all2_Forall2 {A B} (f:A -> B -> bool) a b : all2 f a b = true <-> Forall2 (fun x y => f x y = true) a b.
Proof.
  revert b; induction a as [|x a IH]; intros [|y b]; cbn.
  - split; auto.
  - split; [discriminate | intros H; inversion H].
  - split; [discriminate | intros H; inversion H].
  - rewrite andb_true_iff, IH. split; [intros []; constructor; auto | intros H; inversion H; auto].
Qed.
Lemma check_C16_sound i o : check_C16 i o = true -> C16_holds i o.
Proof. unfold check_C16, C16_holds. rewrite andb_true_iff, all2_Forall2. tauto. Qed.
Lemma check_C16_complete i o : C16_holds i o -> check_C16 i o = true.
Proof. unfold check_C16, C16_holds. rewrite andb_true_iff, all2_Forall2. tauto. Qed.

(* ------------------------------------------------------------------ reachability *)
Lemma path_trans s x y z : path s x y -> path s y z -> path s x z.
Proof. induction 1; auto. intros; eapply path_step; eauto. Qed.
Lemma path_snoc s x y z : path s x y -> In z (s y) -> path s x z.
Proof. intros P H. eapply path_trans; eauto. eapply path_step; eauto. constructor. Qed.
Lemma path_rev s1 s2 x y : (forall a b, In b (s1 a) -> In a (s2 b)) -> path s1 x y -> path s2 y x.
Proof.
  intros H. induction 1; [constructor|]. eapply path_snoc; eauto.
Qed.

Lemma reach_self n s x : In x (reach n s x).
Proof. destruct n; cbn; auto. Qed.
Lemma reach_sound n s x y : In y (reach n s x) -> path s x y.
Proof.
  revert x; induction n as [|n IH]; intros x; cbn.
  - intros [->|[]]; constructor.
  - intros [->|H]; [constructor|]. apply in_flat_map in H as (c & Hc & Hy). eapply path_step; eauto.
Qed.
Lemma reach_complete n s (rk:str -> nat) x y :
  (forall a b, In b (s a) -> rk b < rk a) -> path s x y -> rk x <= n -> In y (reach n s x).
Proof.
  intros Hrk P. revert n. induction P as [x|x c z Hc P IH]; intros n Hn.
  - apply reach_self.
  - destruct n as [|n]; [apply Hrk in Hc; lia|]. cbn. right. apply in_flat_map. exists c; split; auto.
    apply IH. apply Hrk in Hc. lia.
Qed.

Lemma down_of_In G x y : In y (down_of G x) -> exists r, find_rev G x = Some r /\ In r G /\ s_id r = x /\ In y (s_down r).
Proof.
  unfold down_of. destruct (find_rev G x) eqn:E; [|intros []]. intros H. apply find_rev_In in E as E'. destruct E'. eauto.
Qed.
Lemma nextrev_In G x c : In c (nextrev G x) <-> exists r, In r G /\ s_id r = c /\ In x (s_down r).
Proof.
  unfold nextrev. rewrite in_map_iff. split.
  - intros (r & E & H). apply filter_In in H as (H & M). apply mems_In in M. eauto.
  - intros (r & H & E & M). exists r; split; auto. apply filter_In; split; auto. apply mems_In; auto.
Qed.
Lemma nextrev_down G x c : NoDup (ids G) -> (In c (nextrev G x) <-> In c (ids G) /\ In x (down_of G c)).
Proof.
  intros ND. rewrite nextrev_In. split.
  - intros (r & H & E & M). subst c. split; [apply in_map; auto|]. unfold down_of. rewrite (find_rev_NoDup G r); auto.
  - intros (Hc & H). apply down_of_In in H as (r & _ & Hr & E & M). eauto.
Qed.

Lemma ranked_down G rk : ranked G rk -> forall a b, In b (down_of G a) -> rk b < rk a.
Proof. intros [H _] a b Hb. apply down_of_In in Hb as (r & _ & Hr & E & M). subst a. eauto. Qed.
Lemma ranked_next G rk : ranked G rk -> forall a b, In b (nextrev G a) -> length G - rk b < length G - rk a.
Proof.
  intros [H B] a b Hb. apply nextrev_In in Hb as (r & Hr & E & M). subst b.
  specialize (H _ _ Hr M). specialize (B (s_id r)). lia.
Qed.

(* the two traversals, as sets *)
Lemma ancestors_spec M G rk x y : m_revs M = G -> ranked G rk -> (In y (ancestors M x) <-> anc G x y).
Proof.
  intros E R. unfold ancestors, fuelG, anc. rewrite E. split; [apply reach_sound|].
  intros P. eapply reach_complete with (rk:=rk); eauto using ranked_down. apply R.
Qed.
Lemma descendants_spec M G rk x y : m_revs M = G -> ranked G rk -> NoDup (ids G) -> In x (ids G) ->
  (In y (descendants M x) <-> anc G y x).
Proof.
  intros E R ND Hx. unfold descendants, fuelG, anc. rewrite E. split.
  - intros H. apply reach_sound in H. eapply path_rev; [|exact H]. intros a b Hb. apply nextrev_down in Hb; tauto.
  - intros P.
    assert (P' : path (nextrev G) x y /\ In y (ids G)).
    { clear R. induction P as [z|z c w Hc P IH]; [split; [constructor|auto]|].
      destruct (IH Hx) as [P' Hc']. split.
      - eapply path_snoc; eauto. apply nextrev_down; auto. split; auto.
        apply down_of_In in Hc as (r & _ & Hr & <- & _). apply in_map; auto.
      - apply down_of_In in Hc as (r & _ & Hr & <- & _). apply in_map; auto. }
    destruct P' as [P' _].
    eapply reach_complete with (rk:=fun z => length G - rk z); eauto using ranked_next. lia.
Qed.

(* ------------------------------------------------------------------ the loaded map *)
Lemma add_labels_spec x ls : forall keys keys', add_labels x ls keys = Ok keys' ->
  exists extra, keys' = keys ++ extra /\ (forall k v, In (k, v) extra -> v = x /\ In k ls)
                /\ (forall k, In k (map fst extra) -> lookup k keys = None).
Proof.
  induction ls as [|l ls IH]; cbn; intros keys keys' H.
  - inversion H; subst. exists []. rewrite app_nil_r. repeat split; intros; cbn in *; tauto.
  - destruct (lookup l keys) eqn:E; [discriminate|].
    apply IH in H as (extra & -> & H1 & H2). exists ((l, x) :: extra). rewrite <- app_assoc. cbn. repeat split.
    + destruct H as [H|H]; [inversion H; auto | apply H1 in H; tauto].
    + destruct H as [H|H]; [inversion H; auto | apply H1 in H; tauto].
    + intros k [<-|Hk]; [exact E|]. apply H2 in Hk.
      destruct (lookup k keys) eqn:E'; [|reflexivity]. erewrite lookup_app_l in Hk; eauto.
Qed.

Lemma map_branch_labels_spec G order : forall keys keys', map_branch_labels G order keys = Ok keys' ->
  exists extra, keys' = keys ++ extra
    /\ (forall k v, In (k, v) extra -> exists r, find_rev G v = Some r /\ In k (s_labels r))
    /\ (forall k, In k (map fst extra) -> lookup k keys = None).
Proof.
  induction order as [|x order IH]; cbn; intros keys keys' H.
  - inversion H; subst. exists []. rewrite app_nil_r. repeat split; intros; cbn in *; tauto.
  - destruct (add_labels x _ keys) as [k1|] eqn:E; cbn in H; [|discriminate].
    apply add_labels_spec in E as (e1 & -> & A1 & A2).
    apply IH in H as (e2 & -> & B1 & B2). exists (e1 ++ e2). rewrite app_assoc. repeat split.
    + intros k v Hin. apply in_app_or in Hin as [Hin|Hin]; [|eauto].
      apply A1 in Hin as [-> Hk]. destruct (find_rev G x) eqn:F; [eauto | destruct Hk].
    + intros k Hk. rewrite map_app in Hk. apply in_app_or in Hk as [Hk|Hk]; [auto|].
      apply B2 in Hk. destruct (lookup k keys) eqn:E'; [|reflexivity]. erewrite lookup_app_l in Hk; eauto.
Qed.

Definition base_keys (G:list srev) := map (fun r => (s_id r, s_id r)) G.
Lemma base_keys_fst G : map fst (base_keys G) = ids G.
Proof. unfold base_keys, ids. rewrite map_map. reflexivity. Qed.

Record loaded (G:list srev) (M:rmap) : Prop := {
  ld_revs : m_revs M = G;
  ld_heads : m_heads M = filter (fun x => negb (nonempty (nextrev G x))) (ids G);
  ld_real_heads : m_real_heads M = filter (fun x => negb (nonempty (all_nextrev G x))) (ids G);
  ld_bases : m_bases M = map s_id (filter (fun r => negb (nonempty (s_down r))) G);
  ld_keys : exists extra, m_keys M = base_keys G ++ extra
      /\ (forall k v, In (k, v) extra -> exists r, find_rev G v = Some r /\ In k (s_labels r))
      /\ (forall k, In k (map fst extra) -> ~ In k (ids G))
}.
Lemma load_loaded G o M : load G o = Ok M -> loaded G M.
Proof.
  unfold load. destruct (negb (oracle_ok G o)); [discriminate|].
  destruct (map_branch_labels G (map fst o) _) as [keys|] eqn:E; cbn; [|discriminate].
  intros H; inversion H; subst; clear H. constructor; cbn; auto.
  apply map_branch_labels_spec in E as (extra & -> & H1 & H2). exists extra. repeat split; auto.
  intros k Hk Hin. apply H2 in Hk. apply lookup_None in Hk. fold (base_keys G) in Hk. rewrite base_keys_fst in Hk. tauto.
Qed.

Section Loaded.
Variables (G:list srev) (M:rmap).
Hypothesis LD : loaded G M.
Hypothesis ND : NoDup (ids G).

Lemma key_id x : In x (ids G) -> lookup x (m_keys M) = Some x.
Proof.
  intros H. destruct (ld_keys _ _ LD) as (extra & -> & _). apply lookup_app_l. apply lookup_self; auto.
Qed.
Lemma key_hit k v : lookup k (m_keys M) = Some v ->
  (k = v /\ In v (ids G)) \/ (~ In k (ids G) /\ exists r, find_rev G v = Some r /\ In k (s_labels r)).
Proof.
  destruct (ld_keys _ _ LD) as (extra & -> & H1 & H2). intros H.
  destruct (lookup k (base_keys G)) eqn:E.
  - erewrite lookup_app_l in H; eauto. inversion H; subst. apply lookup_In in E. unfold base_keys in E.
    apply in_map_iff in E as (r & Er & Hr). inversion Er; subst. left; split; auto. apply in_map; auto.
  - rewrite lookup_app_r in H; auto. apply lookup_In in H. right. split; [|eauto].
    apply H2. apply in_map_iff. exists (k, v); auto.
Qed.
Lemma keys_fst k : In k (map fst (m_keys M)) ->
  In k (ids G) \/ (~ In k (ids G) /\ exists r, In r G /\ In k (s_labels r)).
Proof.
  destruct (ld_keys _ _ LD) as (extra & -> & H1 & H2). rewrite map_app, base_keys_fst. intros H.
  apply in_app_or in H as [H|H]; [auto|]. right. split; [auto|].
  apply in_map_iff in H as ([k' v] & <- & Hin). apply H1 in Hin as (r & F & L). apply find_rev_In in F as [F _]. eauto.
Qed.
Lemma keys_ids x : In x (ids G) -> In x (map fst (m_keys M)).
Proof. destruct (ld_keys _ _ LD) as (extra & -> & _). rewrite map_app, base_keys_fst. intros; apply in_or_app; auto. Qed.

Lemma rev_of_id r : In r G -> rev_of M (s_id r) = Ok r.
Proof. intros H. unfold rev_of. rewrite (ld_revs _ _ LD), find_rev_NoDup; auto. Qed.
Lemma rfi0_id r : In r G -> revision_for_ident0 M (Some (s_id r)) = Ok (Some r).
Proof.
  intros H. unfold revision_for_ident0. rewrite key_id by (apply in_map; auto). rewrite rev_of_id; auto.
Qed.
End Loaded.

(* ------------------------------------------------------------------ plain names *)
Definition plain (s:str) : Prop := has_at s = false /\ s <> s_head /\ s <> s_heads /\ s <> s_base.
Lemma split_at_None s : has_at s = false -> split_at s = None.
Proof.
  unfold has_at. induction s as [|c s IH]; cbn [existsb split_at]; auto.
  rewrite (N.eqb_sym c_at c). destruct (N.eqb c c_at); cbn [orb]; [discriminate|]. intros H. rewrite IH; auto.
Qed.
Lemma legal_plain x : legal_id x -> plain x.
Proof.
  intros (_ & H & H1 & H2 & H3). repeat split; auto. unfold has_at.
  destruct (existsb (N.eqb c_at) x) eqn:E; auto. apply existsb_exists in E as (c & Hc & E).
  apply N.eqb_eq in E. subst c. destruct (H _ Hc) as [H0 _]. congruence.
Qed.
Lemma rrn_plain M s : plain s -> resolve_revision_number M s = Ok ([s], None).
Proof.
  intros (A & H1 & H2 & H3). unfold resolve_revision_number. rewrite split_at_None by auto.
  unfold resolve_revision_number0.
  apply streqb_neq in H1, H2, H3. rewrite H1, H2, H3. reflexivity.
Qed.
Lemma get_revision_plain M s : plain s -> get_revision M s = revision_for_ident0 M (Some s).
Proof. intros H. unfold get_revision. rewrite rrn_plain by auto. reflexivity. Qed.

Lemma same_id G r r' : NoDup (ids G) -> In r G -> In r' G -> s_id r = s_id r' -> r = r'.
Proof.
  intros ND H H' E. pose proof (find_rev_NoDup G r ND H) as F. rewrite E in F.
  rewrite (find_rev_NoDup G r' ND H') in F. congruence.
Qed.

Lemma single_list (l:list str) a : NoDup l -> (forall k, In k l -> k = a) -> In a l -> l = [a].
Proof.
  intros ND H Hin. destruct l as [|x [|y l]]; [destruct Hin| |].
  - f_equal. apply H; left; auto.
  - exfalso. assert (x = a) by (apply H; left; auto). assert (y = a) by (apply H; right; left; auto). subst.
    inversion ND as [|? ? Hn _]; subst. apply Hn; left; auto.
Qed.

Lemma app_single (l1 l2:list str) a : l2 = [] -> NoDup l1 -> (forall k, In k (l1 ++ l2) -> k = a) -> In a (l1 ++ l2) -> l1 ++ l2 = [a].
Proof. intros ->. rewrite app_nil_r. apply single_list. Qed.

Section Names.
Variables (G:list srev) (M:rmap).
Hypothesis LD : loaded G M.
Hypothesis ND : NoDup (ids G).

Theorem full_id r : In r G -> legal_id (s_id r) -> get_revision M (s_id r) = Ok (Some r).
Proof. intros H L. rewrite get_revision_plain by (apply legal_plain; auto). apply (rfi0_id G); auto. Qed.

Lemma rev_of_Ok x r : rev_of M x = Ok r -> In r G /\ s_id r = x.
Proof.
  unfold rev_of. rewrite (ld_revs _ _ LD). destruct (find_rev G x) eqn:E; [|discriminate].
  intros H; inversion H; subst. apply find_rev_In; auto.
Qed.

(* what the partial lookup looks at *)
Definition cands (s:str) : list str := filter (fun k => (3 <? length k) && startswith k s) (map fst (m_keys M)).

Lemma rfi0_cases s r : revision_for_ident0 M (Some s) = Ok (Some r) ->
  (exists x, lookup s (m_keys M) = Some x /\ rev_of M x = Ok r) \/
  (lookup s (m_keys M) = None /\ s <> [] /\ exists k x, cands s = [k] /\ lookup k (m_keys M) = Some x /\ rev_of M x = Ok r).
Proof.
  unfold revision_for_ident0. destruct (lookup s (m_keys M)) as [x|] eqn:E.
  - destruct (rev_of M x) eqn:R; cbn; [|discriminate]. intros H; inversion H; subst. left; eauto.
  - destruct s as [|c s]; [discriminate|]. fold (cands (c :: s)).
    destruct (cands (c :: s)) as [|k [|k' l]] eqn:C; try discriminate.
    destruct (lookup k (m_keys M)) as [x|] eqn:K; [|discriminate].
    destruct (rev_of M x) eqn:R; cbn; [|discriminate]. intros H; inversion H; subst.
    right. repeat split; [discriminate|]. exists k, x. auto.
Qed.

Theorem prefix_partial p r :
  ids_len_ge4 G -> labels_prefix_free G p -> plain p ->
  get_revision M p = Ok (Some r) ->
  In r G /\ prefix_of p (s_id r) /\ (p = s_id r \/ forall r', In r' G -> prefix_of p (s_id r') -> r' = r).
Proof.
  intros L4 LPF PL H. rewrite get_revision_plain in H by auto.
  apply rfi0_cases in H as [(x & K & R)|(K & NE & k & x & C & Kk & R)].
  - apply rev_of_Ok in R as [Hr Ex]. apply (key_hit _ _ LD) in K as [[-> Hx]|(_ & r0 & F & Hl)].
    + split; auto. split; [exists []; rewrite app_nil_r; auto | left; auto].
    + exfalso. apply find_rev_In in F as [F _]. apply (LPF _ _ F Hl). exists []. rewrite app_nil_r; auto.
  - apply rev_of_Ok in R as [Hr Ex].
    assert (Hk : In k (cands p)) by (rewrite C; left; auto).
    apply filter_In in Hk as (Hk & Hc). apply andb_true_iff in Hc as [_ SW]. apply startswith_app in SW.
    apply (key_hit _ _ LD) in Kk as [[-> Hx]|(_ & r0 & F & Hl)].
    + split; auto. subst x. split; [exact SW|]. right. intros r' Hr' P'.
      assert (In (s_id r') (cands p)).
      { apply filter_In. split; [apply (keys_ids _ _ LD); apply in_map; auto|].
        apply andb_true_iff; split; [|apply startswith_app; auto].
        apply Nat.ltb_lt. specialize (L4 (s_id r') (in_map _ _ _ Hr')). lia. }
      rewrite C in H. destruct H as [H|[]]. eapply same_id; eauto.
    + exfalso. apply find_rev_In in F as [F _]. apply (LPF _ _ F Hl). exact SW.
Qed.

(* conversely: under the same hypotheses a unique match IS found *)
Theorem prefix_complete p r :
  ids_len_ge4 G -> labels_prefix_free G p -> plain p -> p <> [] ->
  In r G -> prefix_of p (s_id r) -> (forall r', In r' G -> prefix_of p (s_id r') -> r' = r) ->
  get_revision M p = Ok (Some r).
Proof.
  intros L4 LPF PL NE Hr P U. rewrite get_revision_plain by auto.
  destruct (lookup p (m_keys M)) as [x|] eqn:K.
  - apply (key_hit _ _ LD) in K as K'. destruct K' as [[-> Hx]|(_ & r0 & F & Hl)].
    + apply in_map_iff in Hx as (r1 & E1 & H1).
      assert (r1 = r) by (apply U; auto; exists []; rewrite app_nil_r; auto). subst r1. rewrite <- E1. apply (rfi0_id G); auto.
    + exfalso. apply find_rev_In in F as [F _]. apply (LPF _ _ F Hl). exists []. rewrite app_nil_r; auto.
  - unfold revision_for_ident0. rewrite K. destruct p as [|c p]; [congruence|]. fold (cands (c :: p)).
    assert (HC : forall k, In k (cands (c :: p)) -> k = s_id r).
    { intros k Hk. apply filter_In in Hk as (Hk & Hc). apply andb_true_iff in Hc as [_ SW]. apply startswith_app in SW.
      apply (keys_fst _ _ LD) in Hk as [Hk|(_ & r0 & H0 & Hl)].
      - apply in_map_iff in Hk as (r1 & <- & H1). f_equal. apply U; auto.
      - exfalso. apply (LPF _ _ H0 Hl). exact SW. }
    assert (HI : In (s_id r) (cands (c :: p))).
    { apply filter_In. split; [apply (keys_ids _ _ LD); apply in_map; auto|].
      apply andb_true_iff; split; [|apply startswith_app; auto].
      apply Nat.ltb_lt. specialize (L4 (s_id r) (in_map _ _ _ Hr)). lia. }
    assert (E1 : cands (c :: p) = [s_id r]).
    { unfold cands in *. destruct (ld_keys _ _ LD) as (extra & E & H1 & H2).
      rewrite E, map_app, base_keys_fst, filter_app in *.
      set (f := fun k : list N => (3 <? length k) && startswith k (c :: p)) in *.
      assert (Ex : filter f (map fst extra) = []).
      { destruct (filter f (map fst extra)) as [|k l] eqn:Ef; auto. exfalso.
        assert (Hk : In k (filter f (map fst extra))) by (rewrite Ef; left; auto).
        assert (k = s_id r) by (apply HC; apply in_or_app; right; left; reflexivity). subst k.
        apply filter_In in Hk as [Hk _]. apply (H2 _ Hk). apply in_map; auto. }
      apply app_single; auto. apply NoDup_filter; auto. }
    rewrite E1. rewrite (key_id G) by (auto; apply in_map; auto). rewrite (rev_of_id G); auto.
Qed.
End Names.

(* ------------------------------------------------------------------ monadic helpers *)
Lemma filterM_In {A} (f:A -> res bool) l l' : filterM f l = Ok l' -> forall x, In x l' -> In x l /\ f x = Ok true.
Proof.
  revert l'; induction l as [|a l IH]; cbn; intros l' H.
  - inversion H; subst. intros x [].
  - destruct (f a) as [b|] eqn:Fa; cbn in H; [|discriminate].
    destruct (filterM f l) as [r|] eqn:Fl; cbn in H; [|discriminate]. inversion H; subst; clear H.
    intros x Hx. destruct b.
    + destruct Hx as [->|Hx]; [auto|]. destruct (IH _ eq_refl _ Hx); auto.
    + destruct (IH _ eq_refl _ Hx); auto.
Qed.
Lemma filterM_all {A} (f:A -> res bool) (g:A -> bool) l : (forall x, In x l -> f x = Ok (g x)) -> filterM f l = Ok (filter g l).
Proof.
  induction l as [|a l IH]; cbn; intros H; auto.
  rewrite (H a) by auto. cbn. rewrite IH by auto. cbn. reflexivity.
Qed.
Lemma mapM_In {A B} (f:A -> res B) l l' : mapM f l = Ok l' -> forall y, In y l' -> exists x, In x l /\ f x = Ok y.
Proof.
  revert l'; induction l as [|a l IH]; cbn; intros l' H.
  - inversion H; subst. intros y [].
  - destruct (f a) as [b|] eqn:Fa; cbn in H; [|discriminate].
    destruct (mapM f l) as [r|] eqn:Fl; cbn in H; [|discriminate]. inversion H; subst; clear H.
    intros y [<-|Hy]; [eauto|]. destruct (IH _ eq_refl _ Hy) as (x & Hx & E); eauto.
Qed.
Lemma mapM_all {A B} (f:A -> res B) (g:A -> B) l : (forall x, In x l -> f x = Ok (g x)) -> mapM f l = Ok (map g l).
Proof.
  induction l as [|a l IH]; cbn; intros H; auto.
  rewrite (H a) by auto. cbn. rewrite IH by auto. reflexivity.
Qed.

(* ------------------------------------------------------------------ int() *)
Lemma digits_val_nonneg s : forall acc b z, digits_val acc s b = Some z -> (0 <= acc)%Z -> (0 <= z)%Z.
Proof.
  induction s as [|c s IH]; cbn [digits_val]; intros acc b z H Ha.
  - destruct b; inversion H; subst; auto.
  - destruct (is_digit c).
    + eapply IH; eauto. lia.
    + destruct (N.eqb c c_us && b); [|discriminate].
      destruct s as [|d s']; [discriminate|]. destruct (is_digit d); [|discriminate]. eapply IH; eauto.
Qed.
Lemma py_int_neg s z : py_int s = Some z -> (z <? 0)%Z = true -> exists r, s = c_minus :: r.
Proof.
  unfold py_int. destruct s as [|c r]; [discriminate|].
  destruct (N.eqb c c_minus) eqn:E; [apply N.eqb_eq in E; subst; eauto|].
  intros H Hz. apply Z.ltb_lt in Hz. exfalso.
  destruct (N.eqb c c_plus); apply digits_val_nonneg in H; lia.
Qed.
Lemma legal_not_neg x z : legal_id x -> py_int x = Some z -> (z <? 0)%Z = false.
Proof.
  intros (_ & H & _) P. destruct (z <? 0)%Z eqn:E; auto. destruct (py_int_neg _ _ P E) as (r & ->).
  destruct (H c_minus) as (_ & _ & H3); [left; auto|congruence].
Qed.

(* ------------------------------------------------------------------ lineage *)
Section Lineage.
Variables (G:list srev) (M:rmap) (rk:str -> nat).
Hypothesis LD : loaded G M.
Hypothesis ND : NoDup (ids G).
Hypothesis RK : ranked G rk.

Lemma rfi0_In s r : revision_for_ident0 M (Some s) = Ok (Some r) -> In r G.
Proof.
  intros H. apply (rfi0_cases M) in H as [(x & _ & R)|(_ & _ & k & x & _ & _ & R)]; apply (rev_of_Ok G M LD) in R; tauto.
Qed.

Lemma rfi0_not_None s : revision_for_ident0 M (Some s) <> Ok None.
Proof.
  unfold revision_for_ident0. destruct (lookup s (m_keys M)) as [x|]; [destruct (rev_of M x); cbn; discriminate|].
  destruct s as [|c s']; [discriminate|]. destruct (filter _ _) as [|k [|k2 l]]; try discriminate.
  destruct (lookup k _) as [y|]; [|discriminate]. destruct (rev_of M y); cbn; discriminate.
Qed.

Lemma line_spec t b : In t G -> (mems (s_id b) (descendants M (s_id t) ++ ancestors M (s_id t)) = true <-> lineage G (s_id b) (s_id t)).
Proof.
  intros Ht. rewrite mems_In, in_app_iff.
  rewrite (descendants_spec M G rk) by (auto using (ld_revs _ _ LD); apply in_map; auto).
  rewrite (ancestors_spec M G rk) by (auto using (ld_revs _ _ LD)). unfold lineage. tauto.
Qed.

Lemma shares_lineage_one t s b : shares_lineage M t [s] = Ok b ->
  exists tr br, revision_for_ident0 M (Some t) = Ok (Some tr) /\ revision_for_ident0 M (Some s) = Ok (Some br)
                /\ (b = true <-> lineage G (s_id br) (s_id tr)).
Proof.
  unfold shares_lineage. destruct (revision_for_ident0 M (Some t)) as [[tr|]|] eqn:Et; cbn [bind mapM existsb]; try discriminate.
  destruct (revision_for_ident0 M (Some s)) as [[br|]|] eqn:Es; cbn [bind mapM existsb]; try discriminate.
  - intros H; inversion H; subst; clear H. exists tr, br. repeat split; auto.
    + rewrite orb_false_r. apply line_spec. eapply rfi0_In; eauto.
    + rewrite orb_false_r. apply line_spec. eapply rfi0_In; eauto.
  - exfalso. eapply rfi0_not_None; eauto.
Qed.

(* _revision_for_ident with a branch: the result shares lineage with the branch revision *)
Lemma rfi_branch x L r : L <> [] -> revision_for_ident M (Some x) (Some L) = Ok (Some r) ->
  exists br, revision_for_ident0 M (Some L) = Ok (Some br) /\ In br G /\ In r G /\ lineage G (s_id br) (s_id r).
Proof.
  intros NE. unfold revision_for_ident. destruct L as [|c L]; [congruence|]. cbn [nonempty].
  destruct (revision_for_ident0 M (Some (c :: L))) as [[br|]|] eqn:EB; cbn [bind]; try discriminate.
  match goal with |- context [bind ?X _] => destruct X as [[r0|]|] eqn:ER end; cbn [bind]; try discriminate.
  destruct (shares_lineage M (s_id r0) [s_id br]) as [b|] eqn:SL; cbn [bind]; [|discriminate].
  destruct b; [|discriminate]. intros H; inversion H; subst; clear H.
  assert (Hbr : In br G) by (eapply rfi0_In; eauto).
  apply shares_lineage_one in SL as (tr & br' & Et & Es & Hl).
  assert (Hr' : In r G).
  { clear Hl. destruct (lookup x (m_keys M)) as [y|] eqn:K.
    - destruct (rev_of M y) eqn:R; cbn in ER; [|discriminate]. inversion ER; subst. apply (rev_of_Ok G M LD) in R; tauto.
    - destruct x; [discriminate|]. destruct (filter_for_lineage M _ _) as [[|k [|? ?]]|]; cbn in ER; try discriminate.
      destruct (lookup k (m_keys M)) as [y|]; [|discriminate]. destruct (rev_of M y) eqn:R; cbn in ER; [|discriminate].
      inversion ER; subst. apply (rev_of_Ok G M LD) in R; tauto. }
  rewrite (rfi0_id G M LD ND br Hbr) in Es. inversion Es; subst br'.
  rewrite (rfi0_id G M LD ND r Hr') in Et. inversion Et; subst tr.
  exists br. repeat split; auto. apply Hl; auto.
Qed.
End Lineage.

(* ------------------------------------------------------------------ label@x never leaves the branch *)
Lemma split_at_join L x : has_at L = false -> split_at (at_join L x) = Some (L, x).
Proof.
  unfold has_at, at_join. induction L as [|c L IH]; cbn [existsb split_at app].
  - intros _. rewrite N.eqb_refl. reflexivity.
  - rewrite (N.eqb_sym c_at c). destruct (N.eqb c c_at); cbn [orb]; [discriminate|]. intros H. rewrite IH; auto.
Qed.

Section Branch.
Variables (G:list srev) (M:rmap) (rk:str -> nat).
Hypothesis LD : loaded G M.
Hypothesis WF : wfG G.
Hypothesis RK : ranked G rk.
Let ND : NoDup (ids G) := proj1 WF.

Lemma heads_ids h : In h (m_heads M) -> In h (ids G).
Proof. rewrite (ld_heads _ _ LD). intros H. apply filter_In in H; tauto. Qed.
Lemma real_heads_ids h : In h (m_real_heads M) -> In h (ids G).
Proof. rewrite (ld_real_heads _ _ LD). intros H. apply filter_In in H; tauto. Qed.

Lemma current_head_of_In hs l : current_head_of hs = Ok l -> incl l hs.
Proof. destruct hs as [|h [|h' t]]; cbn; intros H; inversion H; subst; auto using incl_refl. Qed.

Lemma rrn_at s L x p : split_at s = Some (L, x) -> resolve_revision_number M s = Ok p ->
  snd p = Some L /\ forall one, In one (fst p) -> one = x \/ In one (ids G).
Proof.
  unfold resolve_revision_number. intros ->.
  destruct (streqb x s_heads).
  { destruct (nonempty L).
    - destruct (filter_for_lineage0 M (m_heads M) L) as [r|] eqn:F; cbn [bind]; [|discriminate].
      intros H; inversion H; subst; cbn. split; auto. intros one Ho. right.
      unfold filter_for_lineage0 in F. destruct (resolve_revision_number0 M L); cbn [bind] in F; [|discriminate].
      eapply filterM_In in F as [F _]; eauto using heads_ids.
    - intros H; inversion H; subst; cbn. split; auto. intros one Ho. right. auto using real_heads_ids. }
  destruct (streqb x s_head).
  { match goal with |- context [bind ?X _] => destruct X as [hs|] eqn:F end; cbn [bind]; [|discriminate].
    destruct (current_head_of hs) as [h|] eqn:C; cbn [bind]; [|discriminate].
    intros H; inversion H; subst; cbn. split; auto. intros one Ho. right.
    apply current_head_of_In in C. apply C in Ho.
    destruct (nonempty L).
    - unfold filter_for_lineage0 in F. destruct (resolve_revision_number0 M L); cbn [bind] in F; [|discriminate].
      eapply filterM_In in F as [F _]; eauto using heads_ids.
    - inversion F; subst. auto using heads_ids. }
  destruct (streqb x s_base).
  { intros H; inversion H; subst; cbn. split; auto. intros one []. }
  intros H; inversion H; subst; cbn. split; auto. intros one [<-|[]]; auto.
Qed.

Theorem never_outside_branch L x es :
  has_at L = false -> L <> [] -> (forall z, py_int x = Some z -> (z <? 0)%Z = false) ->
  get_revisions M (at_join L x) = Ok es ->
  forall y, In (EId y) es ->
    exists br r, revision_for_ident0 M (Some L) = Ok (Some br) /\ In br G /\ In r G /\ s_id r = y /\ lineage G (s_id br) y.
Proof.
  intros HL NE NI. unfold get_revisions.
  destruct (resolve_revision_number M (at_join L x)) as [p|] eqn:RR; cbn [bind]; [|discriminate].
  destruct (rrn_at _ _ _ _ (split_at_join L x HL) RR) as [SP FP].
  assert (Normal : forall es', (rs <- mapM (fun x0 => revision_for_ident M (Some x0) (snd p)) (fst p);; Ok (map elem_of_opt rs)) = Ok es' ->
     forall y, In (EId y) es' ->
     exists br r, revision_for_ident0 M (Some L) = Ok (Some br) /\ In br G /\ In r G /\ s_id r = y /\ lineage G (s_id br) y).
  { intros es'. destruct (mapM _ (fst p)) as [rs|] eqn:MM; cbn [bind]; [|discriminate].
    intros H; inversion H; subst; clear H. intros y Hy. apply in_map_iff in Hy as (o & Eo & Ho).
    destruct o as [r|]; [|discriminate]. cbn in Eo. inversion Eo; subst.
    eapply mapM_In in MM as (x0 & _ & Hx); eauto. rewrite SP in Hx.
    eapply rfi_branch in Hx as (br & B1 & B2 & B3 & B4); eauto. exists br, r. auto. }
  destruct (fst p) as [|one [|two rest]] eqn:FE; try exact (Normal es).
  destruct (py_int one) as [z|] eqn:PI; [|exact (Normal es)].
  destruct (z <? 0)%Z eqn:Z0; [|exact (Normal es)].
  exfalso. destruct (FP one) as [->|Hin]; [left; auto| |].
  - rewrite (NI _ PI) in Z0. discriminate.
  - pose proof WF as (_ & _ & LG). rewrite (legal_not_neg _ _ (LG _ Hin) PI) in Z0. discriminate.
Qed.
End Branch.

(* ------------------------------------------------------------------ concrete witnesses *)
Definition sa := [97;98;99]%N.      (* "abc" *)
Definition sb := [97;98;99;100]%N.  (* "abcd" *)
Definition G_short : list srev := [mkS sa [] [] []; mkS sb [sa] [] []].
Lemma prefix_refuted :
  exists G o M p r r', load G o = Ok M /\ NoDup (ids G) /\ labels_prefix_free G p /\ plain p /\ ~ ids_len_ge4 G /\
    get_revision M p = Ok (Some r) /\ In r' G /\ prefix_of p (s_id r') /\ r' <> r.
Proof.
  exists G_short, [].
  destruct (load G_short []) as [M|] eqn:E; [|vm_compute in E; discriminate].
  exists M, [97;98]%N, (mkS sb [sa] [] []), (mkS sa [] [] []).
  split; [reflexivity|]. split.
  { cbn. constructor; [intros [H|[]]; discriminate|]. constructor; [intros []|constructor]. }
  split. { intros r l [<-|[<-|[]]] []. }
  split. { repeat split; try discriminate. }
  split. { intros H. specialize (H sa (or_introl eq_refl)). cbn in H. lia. }
  split. { vm_compute in E. inversion E; subst. vm_compute. reflexivity. }
  split. { left; reflexivity. }
  split. { exists [99%N]. reflexivity. }
  discriminate.
Qed.

Definition sc := [98;99;100;101]%N.  (* "bcde" *)
Definition sl := [108;97;98;49]%N.   (* "lab1" *)
Definition G_ok : list srev := [mkS sb [] [] []; mkS sc [sb] [] [sl]].
Definition rk_ok (x:str) : nat := if streqb x sc then 1 else 0.
Lemma G_ok_wf : wfG G_ok /\ ranked G_ok rk_ok /\ ids_len_ge4 G_ok.
Proof.
  split; [|split].
  - split; [|split].
    + cbn. constructor; [intros [H|[]]; discriminate|]. constructor; [intros []|constructor].
    + intros r d [<-|[<-|[]]]; cbn; [intros []|intros [<-|[]]; left; reflexivity].
    + intros x [<-|[<-|[]]]; (split; [discriminate|]); (split; [|repeat split; discriminate]);
        intros c H; cbn in H; repeat (destruct H as [<-|H]; [repeat split; discriminate|]); destruct H.
  - split.
    + intros r d [<-|[<-|[]]]; cbn; [intros []|intros [<-|[]]; vm_compute; lia].
    + intros x. unfold rk_ok. destruct (streqb x sc); cbn; lia.
  - intros x [<-|[<-|[]]]; cbn; lia.
Qed.

(* ------------------------------------------------------------------ the regular expression *)
Definition word (s:str) : Prop := forallb is_word s = true.
Definition digits (s:str) : Prop := s <> [] /\ forallb is_digit s = true.
Definition rel_val (sg:N) (ds:str) : Z := if N.eqb sg c_minus then Z.opp (digits_num 0 ds) else digits_num 0 ds.
Definition opt_word (w:str) : option str := match w with [] => None | _ => Some w end.

Lemma word_not_special c : is_word c = true -> c <> c_at /\ c <> c_nl /\ is_sign c = false.
Proof.
  intros H. repeat split.
  - intros ->. vm_compute in H. discriminate.
  - intros ->. vm_compute in H. discriminate.
  - unfold is_sign. destruct (N.eqb_spec c c_plus) as [->|]; [vm_compute in H; discriminate|].
    destruct (N.eqb_spec c c_minus) as [->|]; [vm_compute in H; discriminate|]. reflexivity.
Qed.
Lemma sign_not_word c : is_sign c = true -> is_word c = false.
Proof. intros H. destruct (is_word c) eqn:E; auto. apply word_not_special in E as (_ & _ & E). congruence. Qed.
Lemma span_all f s : forallb f s = true -> span f s = (s, []).
Proof.
  induction s as [|c s IH]; cbn; auto. intros H. apply andb_true_iff in H as [-> H]. rewrite IH; auto.
Qed.
Lemma span_stop f w c r : forallb f w = true -> f c = false -> span f (w ++ c :: r) = (w, c :: r).
Proof.
  induction w as [|d w IH]; cbn; intros H Hc; [rewrite Hc; reflexivity|].
  apply andb_true_iff in H as [-> H]. rewrite IH; auto.
Qed.

Lemma match_tail_word w : word w -> match_tail w = None.
Proof. intros H. unfold match_tail. rewrite span_all; auto. Qed.
Lemma match_tail_rel w sg ds : word w -> is_sign sg = true -> digits ds ->
  match_tail (w ++ sg :: ds) = Some (opt_word w, rel_val sg ds).
Proof.
  intros Hw Hs [Hd1 Hd2]. unfold match_tail. rewrite span_stop; auto using sign_not_word.
  rewrite Hs, span_all; auto. destruct ds; [congruence|]. reflexivity.
Qed.
Lemma match_tail_at w r : word w -> match_tail (w ++ c_at :: r) = None.
Proof. intros Hw. unfold match_tail. rewrite span_stop; auto. Qed.

Lemma match_label_skip l : forall pre r, (forall c, In c l -> c <> c_at /\ c <> c_nl) ->
  match_label pre (l ++ r) = match_label (rev l ++ pre) r.
Proof.
  induction l as [|c l IH]; intros pre r H; [reflexivity|].
  cbn [app match_label rev]. destruct (H c (or_introl eq_refl)) as [H1 H2].
  apply N.eqb_neq in H1, H2. rewrite H1, H2. cbn [andb]. rewrite IH by (intros; apply H; right; auto).
  rewrite <- app_assoc. reflexivity.
Qed.
Lemma word_chars w : word w -> forall c, In c w -> c <> c_at /\ c <> c_nl.
Proof.
  intros H c Hc. unfold word in H. rewrite forallb_forall in H. apply H in Hc. apply word_not_special in Hc. tauto.
Qed.
Lemma match_label_end pre w : word w -> match_label pre w = None.
Proof.
  intros H. rewrite <- (app_nil_r w). rewrite match_label_skip by (apply word_chars; auto). reflexivity.
Qed.

Theorem regex_char :
  (forall w, word w -> relative_destination w = None) /\
  (forall l w, word l -> word w -> relative_destination (l ++ c_at :: w) = None) /\
  (forall w sg ds, word w -> is_sign sg = true -> digits ds ->
     relative_destination (w ++ sg :: ds) = Some (None, opt_word w, rel_val sg ds)) /\
  (forall l w sg ds, l <> [] -> word l -> word w -> is_sign sg = true -> digits ds ->
     relative_destination (l ++ c_at :: w ++ sg :: ds) = Some (Some l, opt_word w, rel_val sg ds)).
Proof.
  repeat split.
  - intros w H. unfold relative_destination. rewrite match_label_end, match_tail_word; auto.
  - intros l w Hl Hw. unfold relative_destination.
    rewrite match_label_skip by (apply word_chars; auto).
    cbn [match_label]. rewrite N.eqb_refl.
    destruct (nonempty (rev l ++ [])); cbn [andb].
    + rewrite match_tail_word, match_label_end, match_tail_at; auto.
    + assert (E : (c_at =? c_nl)%N = false) by reflexivity. rewrite E, match_label_end, match_tail_at; auto.
  - intros w sg ds Hw Hs Hd. unfold relative_destination.
    assert (E : match_label [] (w ++ sg :: ds) = None).
    { rewrite match_label_skip by (apply word_chars; auto). cbn [match_label].
      assert (sg <> c_at /\ sg <> c_nl) as [H1 H2].
      { unfold is_sign in Hs. apply orb_true_iff in Hs as [Hs|Hs]; apply N.eqb_eq in Hs; subst; split; discriminate. }
      apply N.eqb_neq in H1, H2. rewrite H1, H2. cbn [andb].
      destruct Hd as [_ Hd]. apply match_label_end. unfold word. rewrite forallb_forall in *. intros c Hc.
      apply Hd in Hc. unfold is_word. rewrite Hc. reflexivity. }
    rewrite E, match_tail_rel; auto.
  - intros l w sg ds NE Hl Hw Hs Hd. unfold relative_destination.
    rewrite match_label_skip by (apply word_chars; auto).
    cbn [match_label]. rewrite N.eqb_refl.
    assert (N1 : nonempty (rev l ++ []) = true).
    { rewrite app_nil_r. destruct l; [congruence|]. cbn. destruct (rev l); reflexivity. }
    rewrite N1. cbn [andb]. rewrite match_tail_rel; auto. rewrite app_nil_r, rev_involutive. reflexivity.
Qed.

(* ------------------------------------------------------------------ symbolic names *)
Lemma filterM_iff {A} (f:A -> res bool) l l' : filterM f l = Ok l' -> forall x, In x l' <-> In x l /\ f x = Ok true.
Proof.
  intros H x. split; [apply (filterM_In f l l' H)|].
  revert l' H; induction l as [|a l IH]; cbn; intros l' H [Hin Hf]; [destruct Hin|].
  destruct (f a) as [b|] eqn:Fa; cbn in H; [|discriminate].
  destruct (filterM f l) as [r|] eqn:Fl; cbn in H; [|discriminate]. inversion H; subst; clear H.
  destruct Hin as [->|Hin].
  - rewrite Hf in Fa. inversion Fa; subst. left; auto.
  - specialize (IH _ eq_refl (conj Hin Hf)). destruct b; [right|]; auto.
Qed.

Section Symbolic.
Variables (G:list srev) (M:rmap) (rk:str -> nat).
Hypothesis LD : loaded G M.
Hypothesis WF : wfG G.
Hypothesis RK : ranked G rk.
Let ND : NoDup (ids G) := proj1 WF.

Lemma heads_spec x : In x (m_heads M) <-> is_head G x.
Proof.
  rewrite (ld_heads _ _ LD), filter_In. unfold is_head. split; intros [Hx H]; split; auto.
  - intros r Hr Hin. destruct (nextrev G x) eqn:E; [|discriminate].
    assert (In (s_id r) (nextrev G x)) by (apply nextrev_In; eauto). rewrite E in H0. destruct H0.
  - destruct (nextrev G x) as [|c l] eqn:E; auto. exfalso.
    assert (Hc : In c (nextrev G x)) by (rewrite E; left; auto). apply nextrev_In in Hc as (r & Hr & _ & Hin). eapply H; eauto.
Qed.
Lemma real_heads_spec x : In x (m_real_heads M) <-> is_real_head G x.
Proof.
  rewrite (ld_real_heads _ _ LD), filter_In. unfold is_real_head, all_nextrev. split; intros [Hx H]; split; auto.
  - intros r Hr.
    assert (N : ~ In x (all_down_r r)).
    { intros Hin. destruct (map s_id (filter (fun c => mems x (all_down_r c)) G)) eqn:E; [|discriminate].
      assert (In (s_id r) (map s_id (filter (fun c => mems x (all_down_r c)) G))).
      { apply in_map. apply filter_In. split; auto. apply mems_In; auto. }
      rewrite E in H0. destruct H0. }
    assert (Q : forall seen l y, In y l -> ~ In y seen -> In y (dedupes_acc seen l)).
    { intros seen l; revert seen; induction l as [|a l IH]; intros seen y Hy Hs; [destruct Hy|]. cbn.
      destruct (mems a seen) eqn:Ms.
      - destruct Hy as [->|Hy]; [apply mems_In in Ms; tauto | auto].
      - destruct Hy as [->|Hy]; [left; auto|]. destruct (streqb a y) eqn:Ea; [apply streqb_eq in Ea; left; auto|].
        right. apply IH; auto. intros [->|?]; [rewrite streqb_refl in Ea; discriminate | tauto]. }
    split; intros Hin; apply N; unfold all_down_r, dedupes; apply Q; auto; apply in_or_app; auto.
  - destruct (map s_id (filter (fun c => mems x (all_down_r c)) G)) as [|c l] eqn:E; auto. exfalso.
    assert (Hc : In c (map s_id (filter (fun c => mems x (all_down_r c)) G))) by (rewrite E; left; auto).
    apply in_map_iff in Hc as (r & _ & Hc). apply filter_In in Hc as (Hr & Hm). apply mems_In in Hm.
    assert (Q : forall seen l0 y, In y (dedupes_acc seen l0) -> In y l0).
    { intros seen l0; revert seen; induction l0 as [|a l0 IH]; intros seen y; cbn; [tauto|].
      destruct (mems a seen); [intros; right; eauto | intros [->|?]; [left; auto | right; eauto]]. }
    apply Q in Hm. apply in_app_or in Hm. destruct (H r Hr). tauto.
Qed.

Lemma base_symbol : get_revisions M s_base = Ok [] /\ get_revision M s_base = Ok None.
Proof. split; reflexivity. Qed.

Lemma rfi_ids l : (forall h, In h l -> In h (ids G)) ->
  mapM (fun h => revision_for_ident M (Some h) None) l = Ok (map (find_rev G) l)
  /\ map elem_of_opt (map (find_rev G) l) = map EId l.
Proof.
  intros H. split.
  - apply mapM_all. intros h Hh. apply H in Hh. apply in_map_iff in Hh as (r & <- & Hr).
    unfold revision_for_ident. rewrite (rfi0_id G M LD ND r Hr), find_rev_NoDup; auto.
  - rewrite map_map. apply map_ext_in. intros h Hh. apply H in Hh. apply in_map_iff in Hh as (r & <- & Hr).
    rewrite find_rev_NoDup; auto.
Qed.

Theorem heads_symbol : get_revisions M s_heads = Ok (map EId (m_real_heads M)).
Proof.
  unfold get_revisions.
  assert (E : resolve_revision_number M s_heads = Ok (m_real_heads M, None)) by reflexivity.
  rewrite E. cbn [bind fst snd].
  destruct (rfi_ids (m_real_heads M)) as [E1 E2]; [intros; apply real_heads_ids with (M:=M); auto|].
  assert (Normal : (rs <- mapM (fun x => revision_for_ident M (Some x) None) (m_real_heads M);; Ok (map elem_of_opt rs))
                   = Ok (map EId (m_real_heads M))) by (rewrite E1; cbn [bind]; rewrite E2; reflexivity).
  destruct (m_real_heads M) as [|one [|two rest]] eqn:FE; try exact Normal.
  destruct (py_int one) as [z|] eqn:PI; [|exact Normal].
  destruct (z <? 0)%Z eqn:Z0; [|exact Normal]. exfalso.
  pose proof WF as (_ & _ & LG).
  assert (Hin : In one (ids G)) by (apply real_heads_ids with (M:=M); auto; rewrite FE; left; auto).
  rewrite (legal_not_neg _ _ (LG _ Hin) PI) in Z0. discriminate.
Qed.

Theorem head_symbol :
  (m_heads M = [] -> get_revision M s_head = Ok None) /\
  (forall h, m_heads M = [h] -> exists r, find_rev G h = Some r /\ get_revision M s_head = Ok (Some r)) /\
  (forall h h' t, m_heads M = h :: h' :: t -> get_revision M s_head = Err EMultipleHeads).
Proof.
  assert (E : resolve_revision_number M s_head = (r <- current_head_of (m_heads M);; Ok (r, None))) by reflexivity.
  unfold get_revision. rewrite E. repeat split.
  - intros ->. reflexivity.
  - intros h Hh. rewrite Hh. cbn [current_head_of bind fst snd].
    assert (Hin : In h (ids G)) by (apply heads_ids with (M:=M); auto; rewrite Hh; left; auto).
    apply in_map_iff in Hin as (r & <- & Hr). exists r. split; [apply find_rev_NoDup; auto|].
    unfold revision_for_ident. apply (rfi0_id G); auto.
  - intros h h' t ->. reflexivity.
Qed.

Lemma shares_lineage_ids t b : In t G -> In b G ->
  exists v, shares_lineage M (s_id t) [s_id b] = Ok v /\ (v = true <-> lineage G (s_id b) (s_id t)).
Proof.
  intros Ht Hb. unfold shares_lineage. rewrite (rfi0_id G M LD ND t Ht). cbn [bind mapM].
  rewrite (rfi0_id G M LD ND b Hb). cbn [bind existsb]. eexists; split; [reflexivity|].
  rewrite orb_false_r. apply (line_spec G M rk); auto.
Qed.

Lemma rfi_full_id L br r : L <> [] -> revision_for_ident0 M (Some L) = Ok (Some br) -> In r G ->
  exists v:bool, revision_for_ident M (Some (s_id r)) (Some L) = (if v then Ok (Some r) else Err EResolution)
            /\ (v = true <-> lineage G (s_id br) (s_id r)).
Proof.
  intros NE HB Hr. assert (Hbr : In br G) by (eapply rfi0_In; eauto).
  unfold revision_for_ident. destruct L as [|c L]; [congruence|]. cbn [nonempty]. rewrite HB. cbn [bind].
  rewrite (key_id G M LD) by (apply in_map; auto). rewrite (rev_of_id G M LD ND r Hr). cbn [bind].
  destruct (shares_lineage_ids r br Hr Hbr) as (v & -> & Hv). cbn [bind]. exists v. split; auto.
Qed.

(* label@id for a full id: exactly when the revision shares lineage with the branch *)
Theorem label_at_id L br r : has_at L = false -> L <> [] ->
  revision_for_ident0 M (Some L) = Ok (Some br) -> In r G ->
  (lineage G (s_id br) (s_id r) -> get_revision M (at_join L (s_id r)) = Ok (Some r)) /\
  (~ lineage G (s_id br) (s_id r) -> get_revision M (at_join L (s_id r)) = Err EResolution).
Proof.
  intros HL NE HB Hr.
  pose proof WF as (_ & _ & LG). destruct (LG (s_id r) (in_map _ _ _ Hr)) as (_ & _ & N1 & N2 & N3).
  apply streqb_neq in N1, N2, N3.
  assert (E : get_revision M (at_join L (s_id r)) = revision_for_ident M (Some (s_id r)) (Some L)).
  { unfold get_revision, resolve_revision_number. rewrite split_at_join by auto. rewrite N1, N2, N3. reflexivity. }
  rewrite E. destruct (rfi_full_id L br r NE HB Hr) as (v & -> & Hv).
  split; intros H.
  - apply Hv in H. subst v. reflexivity.
  - destruct v; [exfalso; apply H; apply Hv; auto | reflexivity].
Qed.

(* label@head: the single head of the lineage of the label *)
Theorem label_at_head L br : has_at L = false -> L <> [] -> L <> s_head -> L <> s_heads -> L <> s_base ->
  revision_for_ident0 M (Some L) = Ok (Some br) ->
  (forall r, get_revision M (at_join L s_head) = Ok (Some r) ->
     is_head G (s_id r) /\ lineage G (s_id br) (s_id r) /\
     forall h, is_head G h -> lineage G (s_id br) h -> h = s_id r) /\
  (forall h1 h2, is_head G h1 -> is_head G h2 -> h1 <> h2 -> lineage G (s_id br) h1 -> lineage G (s_id br) h2 ->
     get_revision M (at_join L s_head) = Err EMultipleHeads).
Proof.
  intros HL NE N1 N2 N3 HB.
  apply streqb_neq in N1, N2, N3.
  assert (E : resolve_revision_number M (at_join L s_head) =
              (hs <- filter_for_lineage0 M (m_heads M) L;; h <- current_head_of hs;; Ok (h, Some L))).
  { unfold resolve_revision_number. rewrite split_at_join by auto. destruct L; [congruence|]. reflexivity. }
  assert (F : exists hs, filter_for_lineage0 M (m_heads M) L = Ok hs /\
                         forall h, In h hs <-> is_head G h /\ lineage G (s_id br) h).
  { unfold filter_for_lineage0, resolve_revision_number0. rewrite N1, N2, N3. cbn [bind].
    set (g := fun h => mems (s_id br) (descendants M h ++ ancestors M h)).
    exists (filter g (m_heads M)). split.
    - apply filterM_all. intros h Hh. apply heads_ids with (G:=G) in Hh; auto.
      apply in_map_iff in Hh as (r & <- & Hr).
      unfold shares_lineage. rewrite (rfi0_id G M LD ND r Hr). cbn [bind mapM]. rewrite HB. cbn [bind existsb].
      rewrite orb_false_r. reflexivity.
    - intros h. rewrite filter_In, heads_spec. split; intros [H1 H2]; split; auto.
      + destruct H1 as [H1 _]. apply in_map_iff in H1 as (r & <- & Hr). apply (line_spec G M rk); auto.
      + destruct H1 as [H1 _]. apply in_map_iff in H1 as (r & <- & Hr). apply (line_spec G M rk); auto. }
  destruct F as (hs & F & HS). unfold get_revision. rewrite E, F. cbn [bind]. split.
  - intros r. destruct hs as [|h [|h' t]]; cbn [current_head_of bind fst snd]; try discriminate.
    + unfold revision_for_ident. destruct L; [congruence|]. cbn [nonempty]. rewrite HB. cbn [bind]. discriminate.
    + assert (Hh : In h [h]) by (left; auto). apply HS in Hh as [Hh1 Hh2].
      pose proof Hh1 as [Hin _]. apply in_map_iff in Hin as (rh & <- & Hrh).
      destruct (rfi_full_id L br rh NE HB Hrh) as (v & -> & Hv).
      destruct v; [|discriminate]. intros H; inversion H; subst r. repeat split; auto; try apply Hh1.
      intros h' H1' H2'. assert (In h' [s_id rh]) by (apply HS; auto). destruct H0 as [<-|[]]; auto.
  - intros h1 h2 A1 A2 NEQ B1 B2.
    assert (I1 : In h1 hs) by (apply HS; auto). assert (I2 : In h2 hs) by (apply HS; auto).
    destruct hs as [|h [|h' t]]; [destruct I1| |reflexivity].
    destruct I1 as [<-|[]], I2 as [<-|[]]. congruence.
Qed.
End Symbolic.

(* ------------------------------------------------------------------ relative walks *)
Section Walk.
Variables (G:list srev) (M:rmap).
Hypothesis LD : loaded G M.
Hypothesis WF : wfG G.
Let ND : NoDup (ids G) := proj1 WF.

Lemma get_ids_ids xs : (forall x, In x xs -> In x (ids G)) -> get_ids M xs = Ok (map (find_rev G) xs).
Proof.
  intros H. unfold get_ids.
  assert (E : mapM (get_revisions_basic M) xs = Ok (map (fun x => [find_rev G x]) xs)).
  { apply mapM_all. intros x Hx. apply H in Hx. pose proof WF as (_ & _ & LG).
    unfold get_revisions_basic. rewrite rrn_plain by (apply legal_plain; auto). cbn [bind fst snd mapM].
    apply in_map_iff in Hx as (r & <- & Hr). unfold revision_for_ident.
    rewrite (rfi0_id G M LD ND r Hr), find_rev_NoDup; auto. }
  rewrite E. cbn [bind]. f_equal. clear. induction xs; cbn; auto. f_equal. apply IHxs.
Qed.

Lemma mapM_opt_id_find xs : (forall x, In x xs -> In x (ids G)) -> mapM opt_id (map (find_rev G) xs) = Ok xs.
Proof.
  induction xs as [|x xs IH]; intros H; [reflexivity|]. cbn [map mapM].
  assert (Hx : In x (ids G)) by (apply H; left; auto). apply in_map_iff in Hx as (r & <- & Hr).
  rewrite find_rev_NoDup by auto. cbn [opt_id bind]. rewrite IH by (intros; apply H; right; auto). reflexivity.
Qed.
Lemma mapM_rev_of xs : (forall x, In x xs -> In x (ids G)) ->
  exists rs, mapM (rev_of M) xs = Ok rs /\ map s_id rs = xs /\ forall r, In r rs -> In r G.
Proof.
  induction xs as [|x xs IH]; intros H; [exists []; repeat split; auto; intros r []|]. cbn [mapM].
  assert (Hx : In x (ids G)) by (apply H; left; auto). apply in_map_iff in Hx as (r & <- & Hr).
  rewrite (rev_of_id G M LD ND r Hr). cbn [bind].
  destruct IH as (rs & -> & E & HG); [intros; apply H; right; auto|]. cbn [bind].
  exists (r :: rs). repeat split; [cbn; f_equal; auto|]. intros r' [<-|Hr']; auto.
Qed.

Lemma walk_base_down n now bl r : walk_n M n false WBase bl now <> Ok (WRev r).
Proof. destruct n; cbn; [discriminate|]. destruct now; discriminate. Qed.

Lemma down_refs r : In r G -> forall x, In x (s_down r) -> In x (ids G).
Proof. intros Hr x Hx. pose proof WF as (_ & RO & _). eapply RO; eauto. Qed.

(* walking down: exactly n single-parent steps *)
Theorem walk_down_chain n : forall r r' bl now, In r G ->
  walk_n M n false (WRev r) bl now = Ok (WRev r') -> In r' G /\ down_chain G n (s_id r) (s_id r').
Proof.
  induction n as [|n IH]; intros r r' bl now Hr.
  - cbn. intros H; inversion H; subst. split; auto. constructor.
  - cbn [walk_n]. rewrite (get_ids_ids (s_down r) (down_refs r Hr)). cbn [bind].
    destruct (s_down r) as [|p [|q t]] eqn:D; cbn [map bind].
    + intros H. exfalso. eapply walk_base_down; eauto.
    + assert (Hp : In p (ids G)) by (apply (down_refs r Hr); rewrite D; left; auto).
      apply in_map_iff in Hp as (rp & <- & Hrp). rewrite find_rev_NoDup by auto. cbn [wpos_of_opt].
      intros H. apply IH in H as [H1 H2]; auto. split; auto.
      econstructor; eauto. apply find_rev_NoDup; auto.
    + discriminate.
Qed.
(* a merge point on the way makes the walk ambiguous *)
Theorem walk_down_ambiguous n r bl now p q t : In r G -> s_down r = p :: q :: t ->
  walk_n M (S n) false (WRev r) bl now = Err ERevision.
Proof.
  intros Hr D. cbn [walk_n]. rewrite (get_ids_ids (s_down r) (down_refs r Hr)), D. reflexivity.
Qed.

Lemma nextrev_ids x c : In c (nextrev G x) -> In c (ids G).
Proof. intros H. apply nextrev_In in H as (r & Hr & <- & _). apply in_map; auto. Qed.

(* walking up without a branch label: exactly n steps, each to the only child; otherwise None or "Ambiguous walk" *)
Lemma walk_up_res n : forall r w, In r G ->
  walk_n M n true (WRev r) None true = Ok w ->
  w = WNone \/ exists r', w = WRev r' /\ In r' G /\ up_chain G (fun _ => True) n (s_id r) (s_id r').
Proof.
  induction n as [|n IH]; intros r w Hr.
  - cbn. intros H; inversion H; subst. right. exists r. repeat split; auto. constructor.
  - cbn [walk_n]. rewrite (ld_revs _ _ LD).
    rewrite (get_ids_ids (nextrev G (s_id r)) (nextrev_ids (s_id r))). cbn [bind].
    rewrite (mapM_opt_id_find _ (nextrev_ids (s_id r))). cbn [bind].
    destruct (mapM_rev_of _ (nextrev_ids (s_id r))) as (rs & -> & E2 & H2). cbn [bind].
    destruct rs as [|rc [|rc' t]]; cbn [map]; try discriminate.
    + intros H; inversion H; auto.
    + assert (Hrc : In rc G) by (apply H2; left; auto).
      intros H. apply IH in H as [H|(r' & -> & H3 & H4)]; auto. right. exists r'. repeat split; auto.
      cbn in E2. econstructor; eauto.
      * assert (Hc : In (s_id rc) (nextrev G (s_id r))) by (rewrite <- E2; left; auto).
        apply nextrev_down in Hc; tauto.
      * intros c' Hc' Hi _. assert (Hc : In c' (nextrev G (s_id r))) by (apply nextrev_down; auto).
        rewrite <- E2 in Hc. destruct Hc as [<-|[]]; auto.
Qed.
Theorem walk_up_chain n r r' : In r G ->
  walk_n M n true (WRev r) None true = Ok (WRev r') -> In r' G /\ up_chain G (fun _ => True) n (s_id r) (s_id r').
Proof.
  intros Hr H. apply walk_up_res in H as [H|(r2 & E & H1 & H2)]; auto; [discriminate|]. inversion E; subst. auto.
Qed.

(* the documented spellings id+N / id-N as upgrade targets *)
Theorem relative_up_string cur r ds es : In r G -> word (s_id r) -> digits ds -> (0 < digits_num 0 ds)%Z ->
  parse_upgrade_target M cur (s_id r ++ c_plus :: ds) true = Ok es ->
  exists r', In r' G /\ es = [EId (s_id r')] /\ up_chain G (fun _ => True) (Z.abs_nat (digits_num 0 ds)) (s_id r) (s_id r').
Proof.
  intros Hr Hw Hd Hpos. unfold parse_upgrade_target.
  destruct regex_char as (_ & _ & RC & _). rewrite RC by auto.
  pose proof WF as (_ & _ & LG). pose proof (LG _ (in_map s_id _ _ Hr)) as L.
  assert (E : rel_val c_plus ds = digits_num 0 ds) by reflexivity. rewrite E.
  apply Z.ltb_lt in Hpos. rewrite Hpos.
  assert (OW : opt_word (s_id r) = Some (s_id r)) by (destruct L as [L0 _]; destruct (s_id r); [congruence|reflexivity]). rewrite OW.
  rewrite (full_id G M LD ND r Hr L). cbn [bind wpos_of_opt]. unfold walk. rewrite Hpos.
  destruct (walk_n M _ true (WRev r) None true) as [w|] eqn:W; cbn [bind]; [|discriminate].
  apply walk_up_res in W as [->|(r' & -> & H1 & H2)]; auto; [discriminate|].
  intros H; inversion H; subst. exists r'. auto.
Qed.
Theorem relative_down_string cur r ds y : In r G -> word (s_id r) -> digits ds ->
  parse_upgrade_target M cur (s_id r ++ c_minus :: ds) true = Ok [EId y] ->
  down_chain G (Z.abs_nat (digits_num 0 ds)) (s_id r) y.
Proof.
  intros Hr Hw Hd. unfold parse_upgrade_target.
  destruct regex_char as (_ & _ & RC & _). rewrite RC by auto.
  pose proof WF as (_ & _ & LG). pose proof (LG _ (in_map s_id _ _ Hr)) as L.
  assert (E : rel_val c_minus ds = Z.opp (digits_num 0 ds)) by reflexivity. rewrite E.
  assert (NN : (0 <= digits_num 0 ds)%Z).
  { assert (Q : forall s acc, (0 <= acc)%Z -> (0 <= digits_num acc s)%Z).
    { induction s as [|c s IH]; cbn [digits_num]; intros acc Ha; auto. apply IH. pose proof (N2Z.is_nonneg (c - 48)). lia. }
    apply Q; lia. }
  assert (P : (0 <? - digits_num 0 ds)%Z = false) by (apply Z.ltb_ge; lia). rewrite P.
  assert (OW : opt_word (s_id r) = Some (s_id r)) by (destruct L as [L0 _]; destruct (s_id r); [congruence|reflexivity]). rewrite OW.
  rewrite (full_id G M LD ND r Hr L). cbn [bind wpos_of_opt]. unfold walk. rewrite P. replace (Z.abs_nat (- digits_num 0 ds)) with (Z.abs_nat (digits_num 0 ds)) by lia.
  destruct (walk_n M _ false (WRev r) None true) as [w|] eqn:W; cbn [bind]; [|discriminate].
  destruct w as [r'| |]; try discriminate.
  intros H; inversion H; subst. apply walk_down_chain in W; tauto.
Qed.
End Walk.
