(* C20: the filtered comparison, for arbitrary include_object / include_name predicates. *)
From AV Require Import Model.Schema Model.Diff Model.Filters Spec.C06 Spec.C07 Spec.C20
                       Proofs.SchemaProof Proofs.C06Proof Proofs.C07Proof.

Section C20.
  Variable io : obj -> bool -> option obj -> bool.
  Variable iname : nref -> bool.

  Notation accepted := (obj_accepted io).

  Lemma accepted_intro ob refl cmp : io ob refl cmp = true -> accepted (obj_ref ob).
  Proof. intros H. exists ob, refl, cmp. auto. Qed.

  (* ============================================================ what the filtered pieces contain *)
  Lemma obj_added_f_In tn s c k o : In o (obj_added_f io tn s c k) -> o = OpAddCons tn k /\ io (OCons tn k) false None = true.
  Proof. destruct k; simpl.
    - destruct (negb s); simpl; [tauto|]. destruct c; simpl; [tauto|]. destruct (io _ _ _) eqn:E; simpl; intuition.
    - destruct (io _ _ _) eqn:E; simpl; intuition. Qed.
  Lemma obj_removed_f_In tn s c k o : In o (obj_removed_f io tn s c k) ->
    o = OpDropCons tn (is_ix k) (k_name k) /\ io (OCons tn k) true None = true.
  Proof. destruct k; simpl.
    - destruct c; simpl; [tauto|]. destruct (io _ _ _) eqn:E; simpl; intuition.
    - destruct (u && negb s); simpl; [tauto|]. destruct (io _ _ _) eqn:E; simpl; intuition. Qed.
  Lemma obj_changed_f_In tn old new o : In o (obj_changed_f io tn old new) ->
    io (OCons tn new) false (Some (OCons tn old)) = true /\ (o = OpDropCons tn (is_ix old) (k_name old) \/ o = OpAddCons tn new).
  Proof. unfold obj_changed_f. destruct (io _ _ _) eqn:E; simpl; intuition. Qed.

  Lemma conn_cons_f_In tn ct mt k : In k (conn_cons_f iname tn ct mt) ->
    iname (kref tn k) = true /\ exists c, ct = Some c /\ In k (t_cons c).
  Proof. unfold conn_cons_f, fcons. destruct ct as [c|]; [|simpl; tauto]. destruct mt; rewrite ?filter_In; intros H.
    - destruct H as [H1 H2]. eauto.
    - destruct H as [[H1 H2] _]. eauto. Qed.

  Lemma kref_same tn a b : k_name a = k_name b -> Bool.eqb (is_ix a) (is_ix b) = true -> kref tn a = kref tn b.
  Proof. intros Hn Hi. apply eqb_prop in Hi. unfold kref. rewrite Hn, Hi. auto. Qed.
  Lemma op_nref_drop tn k : op_nref (OpDropCons tn (is_ix k) (k_name k)) = kref tn k.
  Proof. unfold kref. simpl. auto. Qed.

  (* constraint level: every op is a constraint op of tn, approved by include_object; drops concern accepted names *)
  Lemma ciu_f_In tn ct mt o : In o (compare_indexes_and_uniques_f io iname tn ct mt) ->
    cons_op tn o /\ accepted (op_nref o) /\ (drops_or_alters o = true -> iname (op_nref o) = true).
  Proof. unfold compare_indexes_and_uniques_f. rewrite !in_app_iff, !in_flat_map. intros [[x [Hx H]]|[[x [Hx H]]|[[x [Hx H]]|H]]].
    4:{ destruct ct as [c|]; [|inversion H]. destruct mt as [m|]; [|inversion H]. apply in_flat_map in H. destruct H as [u [_ H]].
        destruct (existsb _ _); [inversion H|]. destruct (io (OUUq tn u) false None) eqn:E; [|inversion H]. destruct H as [<-|[]].
        split; [simpl; auto|]. split; [|simpl; congruence]. apply (accepted_intro (OUUq tn u) false None E). }
    - destruct (memN _ _); [inversion H|]. destruct (is_uq x && _); [inversion H|]. apply obj_removed_f_In in H. destruct H as [-> Hio].
      apply conn_cons_f_In in Hx. destruct Hx as [Hn _]. rewrite op_nref_drop. split; [simpl; auto|]. split; auto.
      apply (accepted_intro (OCons tn x) true None); auto.
    - destruct (kfind k_name (k_name x) _) as [ck|] eqn:E; [|inversion H]. destruct (kfind_some _ _ _ _ E) as [Hck Hkn].
      apply conn_cons_f_In in Hck. destruct Hck as [Hn _].
      destruct (Bool.eqb (is_ix ck) (is_ix x)) eqn:Ei; cbn [negb] in H.
      + destruct (sig_equal x ck); [inversion H|]. apply obj_changed_f_In in H. destruct H as [Hio [-> | ->]].
        * rewrite op_nref_drop. split; [simpl; auto|]. split; auto.
          rewrite (kref_same tn ck x Hkn Ei). apply (accepted_intro (OCons tn x) false (Some (OCons tn ck))); auto.
        * split; [simpl; auto|]. split; [|simpl; congruence]. apply (accepted_intro (OCons tn x) false (Some (OCons tn ck))); auto.
      + apply in_app_iff in H. destruct H as [H|H].
        * apply obj_removed_f_In in H. destruct H as [-> Hio]. rewrite op_nref_drop. split; [simpl; auto|]. split; auto.
          apply (accepted_intro (OCons tn ck) true None); auto.
        * apply obj_added_f_In in H. destruct H as [-> Hio]. split; [simpl; auto|]. split; [|simpl; congruence].
          apply (accepted_intro (OCons tn x) false None); auto.
    - destruct (memN _ _); [inversion H|]. apply obj_added_f_In in H. destruct H as [-> Hio]. split; [simpl; auto|].
      split; [|simpl; congruence]. apply (accepted_intro (OCons tn x) false None); auto.
  Qed.

  Lemma ciu_f_created tn mt o : In o (compare_indexes_and_uniques_f io iname tn None mt) -> drops_or_alters o = false.
  Proof. unfold compare_indexes_and_uniques_f. cbn [conn_cons_f flat_map app]. rewrite !in_app_iff, !in_flat_map.
    intros [[x [Hx H]]|[[x [Hx H]]|H]].
    - cbn in H. inversion H.
    - cbn in H. apply obj_added_f_In in H. destruct H as [-> _]. reflexivity.
    - destruct mt; inversion H. Qed.

  Lemma fcols_In tn cs c : In c (fcols iname tn cs) -> In c cs /\ iname (NColumn tn (c_name c)) = true.
  Proof. unfold fcols. rewrite filter_In. auto. Qed.

  Lemma alter_column_ops g tn cc mc o : In o (alter_column g tn cc mc) -> op_nref o = NColumn tn (c_name mc) /\ col_op tn o.
  Proof. unfold alter_column. destruct (compare_nullable cc mc); destruct (compare_type_col g cc mc);
      destruct (compare_server_default_col g cc mc); simpl; try tauto; intros [<-|[]]; simpl; auto. Qed.

  Lemma op_nref_dropfk tn x : op_nref (OpDropFk tn (f_name x) (f_named x)) = fkref tn x.
  Proof. unfold fkref. simpl. destruct (f_named x); auto. Qed.
  Lemma ffks_In tn fs f : In f (ffks iname tn fs) -> In f fs /\ iname (fkref tn f) = true.
  Proof. unfold ffks. rewrite filter_In. auto. Qed.

  Lemma cfk_f_In tn ct mt o : In o (compare_foreign_keys_f io iname tn ct mt) ->
    fk_op tn o /\ accepted (op_nref o) /\ (drops_or_alters o = true -> iname (op_nref o) = true).
  Proof. unfold compare_foreign_keys_f. destruct ct as [c|]; [|simpl; tauto]. destruct mt as [m|]; [|simpl; tauto].
    rewrite in_app_iff, !in_flat_map. intros [[x [Hx H]]|[x [Hx H]]].
    - destruct (existsb _ _); [inversion H|]. destruct (io _ _ _) eqn:E; [|inversion H]. destruct H as [<-|[]].
      apply ffks_In in Hx. rewrite op_nref_dropfk. split; [simpl; auto|]. split; [|tauto].
      apply (accepted_intro (OFk tn x) true _ E).
    - destruct (existsb _ _); [inversion H|]. destruct (io _ _ _) eqn:E; [|inversion H]. destruct H as [<-|[]].
      split; [simpl; auto|]. split; [|simpl; congruence]. apply (accepted_intro (OFk tn x) false _ E).
  Qed.

  Lemma cols_f_In g tn c m o :
    In o (compare_columns_pre_f io iname g tn c m) \/ In o (compare_columns_post_f io iname tn c m) ->
    col_op tn o /\ accepted (op_nref o) /\ (drops_or_alters o = true -> iname (op_nref o) = true).
  Proof. unfold compare_columns_pre_f, compare_columns_post_f. rewrite in_app_iff, !in_flat_map.
    intros [[[x [Hx H]]|[x [Hx H]]]|[x [Hx H]]].
    - destruct (memN _ _); [inversion H|]. destruct (io _ _ _) eqn:E; [|inversion H]. destruct H as [<-|[]].
      split; [simpl; auto|]. split; [|simpl; congruence]. apply (accepted_intro (OColumn tn x) false None); auto.
    - destruct (kfind c_name (c_name x) _) as [cc|] eqn:E; [|inversion H]. destruct (io _ _ _) eqn:Eio; [|inversion H].
      apply alter_column_ops in H. destruct H as [Hr Hc]. rewrite Hr. split; auto. split.
      + apply (accepted_intro (OColumn tn x) false (Some (OColumn tn cc))); auto.
      + intros _. apply kfind_some in E. destruct E as [E1 E2]. apply fcols_In in E1. rewrite <- E2. tauto.
    - destruct (memN _ _); [inversion H|]. destruct (io _ _ _) eqn:E; [|inversion H]. destruct H as [<-|[]].
      apply fcols_In in Hx. split; [simpl; auto|]. split; [|simpl; tauto].
      apply (accepted_intro (OColumn tn x) true None); auto.
  Qed.

  Lemma ftables_In conn c : In c (ftables iname conn) -> In c conn /\ iname (schema_ref (t_name c)) = true /\ iname (NTable (t_name c)) = true.
  Proof. unfold ftables. rewrite filter_In, andb_true_iff. tauto. Qed.

  Lemma cons_op_table tn o : cons_op tn o -> op_table o = tn. Proof. destruct o; simpl; tauto. Qed.
  Lemma col_op_table tn o : col_op tn o -> op_table o = tn. Proof. destruct o; simpl; tauto. Qed.
  Lemma fk_op_table tn o : fk_op tn o -> op_table o = tn. Proof. destruct o; simpl; tauto. Qed.

  (* every operation of the filtered comparison: approved for the object and for its table; names of drops/alters accepted *)
  Lemma diff_f_In g conn meta o : In o (diff_f io iname g conn meta) ->
    (accepted (op_nref o) /\ accepted (NTable (op_table o))) /\
    (drops_or_alters o = true -> iname (schema_ref (op_table o)) = true /\ iname (NTable (op_table o)) = true /\ iname (op_nref o) = true).
  Proof. unfold diff_f, compare_tables_f. rewrite !in_app_iff, !in_flat_map. intros [[m [Hm H]]|[[c [Hc H]]|[m [Hm H]]]].
    - destruct (memN _ _); [inversion H|]. destruct (io (OTable m) false None) eqn:E; [|inversion H].
      pose proof (accepted_intro (OTable m) false None E) as Ht. simpl in Ht. destruct H as [<-|H].
      + simpl. split; auto. congruence.
      + pose proof (ciu_f_created _ _ _ H) as Hnd.   (* a created table has no reflected constraints: nothing is dropped *)
        apply ciu_f_In in H. destruct H as [Hop [Ha Hd]]. rewrite (cons_op_table _ _ Hop). split; auto. congruence.
    - destruct (memN _ _); [inversion H|]. destruct (io (OTable c) true None) eqn:E; [|inversion H].
      pose proof (accepted_intro (OTable c) true None E) as Ht. simpl in Ht. apply ftables_In in Hc. destruct Hc as [_ [Hs Hn]].
      unfold removed_table_f in H. apply in_app_iff in H. destruct H as [H|[<-|[]]].
      + apply ciu_f_In in H. destruct H as [Hop [Ha Hd]]. rewrite (cons_op_table _ _ Hop). split; auto.
      + simpl. split; auto.
    - destruct (kfind t_name (t_name m) _) as [c|] eqn:Ec; [|inversion H]. destruct (io (OTable m) false _) eqn:E; [|inversion H].
      pose proof (accepted_intro (OTable m) false _ E) as Ht. simpl in Ht. apply kfind_some in Ec. destruct Ec as [Hc Hcn].
      apply ftables_In in Hc. destruct Hc as [_ [Hs Hn]]. rewrite Hcn in Hn. rewrite Hcn in Hs.
      unfold existing_table_f in H. rewrite !in_app_iff in H.
      assert (Hcase: (col_op (t_name m) o \/ cons_op (t_name m) o \/ fk_op (t_name m) o) /\ accepted (op_nref o) /\ (drops_or_alters o = true -> iname (op_nref o) = true)).
      { destruct H as [H|[H|[H|H]]].
        - destruct (cols_f_In g _ c m o (or_introl H)) as [? [? ?]]; auto.
        - destruct (ciu_f_In _ _ _ o H) as [? [? ?]]; auto.
        - destruct (cfk_f_In _ _ _ o H) as [? [? ?]]; auto.
        - destruct (cols_f_In g _ c m o (or_intror H)) as [? [? ?]]; auto. }
      destruct Hcase as [Hop [Ha Hd]].
      assert (Htab: op_table o = t_name m) by (destruct Hop as [?|[?|?]]; [apply col_op_table|apply cons_op_table|apply fk_op_table]; auto).
      rewrite Htab. split; auto.
  Qed.

  (* ============================================================ conservativity: helper facts *)
  Lemma kfind_fcols tn n cs : iname (NColumn tn n) = true -> kfind c_name n (fcols iname tn cs) = kfind c_name n cs.
  Proof. intros Hn. unfold kfind, fcols. induction cs as [|a l IH]; simpl; auto.
    destruct (N.eqb_spec (c_name a) n) as [E|E].
    - rewrite E, Hn. simpl. rewrite E, N.eqb_refl. auto.
    - destruct (iname (NColumn tn (c_name a))); simpl; auto. apply N.eqb_neq in E. rewrite E. auto. Qed.
  Lemma memN_fcols tn n cs : iname (NColumn tn n) = true -> memN n (keys c_name (fcols iname tn cs)) = memN n (keys c_name cs).
  Proof. intros Hn. rewrite !memN_keys, kfind_fcols; auto. Qed.

  Lemma kfind_ftables n conn : iname (schema_ref n) = true -> iname (NTable n) = true -> kfind t_name n (ftables iname conn) = kfind t_name n conn.
  Proof. intros Hs Hn. unfold kfind, ftables. induction conn as [|a l IH]; simpl; auto.
    destruct (N.eqb_spec (t_name a) n) as [E|E].
    - rewrite E, Hs, Hn. simpl. rewrite E, N.eqb_refl. auto.
    - destruct (iname (schema_ref (t_name a)) && iname (NTable (t_name a))); simpl; auto. apply N.eqb_neq in E. rewrite E. auto. Qed.

  Lemma kfind_filter_none {A} (key:A->N) p n l : ~ In n (keys key l) -> kfind key n (filter p l) = None.
  Proof. intros H. destruct (kfind key n (filter p l)) eqn:E; auto. apply kfind_some in E. destruct E as [E1 E2].
    apply filter_In in E1. exfalso. apply H. unfold keys. rewrite <- E2. apply in_map. tauto. Qed.

  Lemma kfind_fcons tn n ks : NoDup (keys k_name ks) ->
    kfind k_name n (fcons iname tn ks) = match kfind k_name n ks with Some k => if iname (kref tn k) then Some k else None | None => None end.
  Proof. unfold fcons. induction ks as [|a l IH]; intros Hnd; simpl; auto. inversion Hnd as [|? ? Hn Hd]; subst.
    unfold kfind at 2. simpl. fold (kfind k_name n l). destruct (N.eqb_spec (k_name a) n) as [E|E].
    - destruct (iname (kref tn a)) eqn:Ea.
      + unfold kfind. simpl. rewrite E, N.eqb_refl. auto.
      + apply kfind_filter_none. congruence.
    - destruct (iname (kref tn a)); auto. unfold kfind. simpl. apply N.eqb_neq in E. rewrite E. apply IH; auto. Qed.

  Lemma obj_added_f_sub tn s c k o : In o (obj_added_f io tn s c k) -> In o (obj_added tn s c k).
  Proof. destruct k; simpl.
    - destruct (negb s); auto. destruct c; auto. destruct (io _ _ _); simpl; auto.
    - destruct (io _ _ _); simpl; auto. Qed.
  Lemma obj_removed_f_sub tn s c k o : In o (obj_removed_f io tn s c k) -> In o (obj_removed tn s c k).
  Proof. destruct k; simpl.
    - destruct c; auto. destruct (io _ _ _); simpl; auto.
    - destruct (u && negb s); auto. destruct (io _ _ _); simpl; auto. Qed.
  Lemma obj_changed_f_sub tn a b o : In o (obj_changed_f io tn a b) -> In o (obj_changed tn a b).
  Proof. unfold obj_changed_f. destruct (io _ _ _); simpl; auto. Qed.
  Lemma obj_added_f_of tn s c k : io (OCons tn k) false None = true -> obj_added_f io tn s c k = obj_added tn s c k.
  Proof. intros H. destruct k; simpl; rewrite H; auto. Qed.
  Lemma obj_removed_f_of tn s c k : io (OCons tn k) true None = true -> obj_removed_f io tn s c k = obj_removed tn s c k.
  Proof. intros H. destruct k; simpl; rewrite H; auto. Qed.

  Lemma kref_diff tn a b : k_name a = k_name b -> kref tn a <> kref tn b -> Bool.eqb (is_ix a) (is_ix b) = false.
  Proof. intros Hn Hne. destruct (Bool.eqb (is_ix a) (is_ix b)) eqn:E; auto. exfalso. apply Hne. apply kref_same; auto. Qed.

  (* ============================================================ conservativity, column level *)
  Lemma alter_column_shape g tn cc mc o : In o (alter_column g tn cc mc) -> exists a b e x y z, o = OpAlterColumn tn (c_name mc) a b e x y z.
  Proof. unfold alter_column. destruct (compare_nullable cc mc); destruct (compare_type_col g cc mc);
      destruct (compare_server_default_col g cc mc); simpl; try tauto; intros [<-|[]]; eauto 8. Qed.

  Lemma cols_conservative g tn c m o :
    NoDup (keys c_name (t_cols c)) -> NoDup (keys c_name (t_cols m)) ->
    iname (op_nref o) = true ->
    (forall mc, o = OpAddColumn tn mc -> io (OColumn tn mc) false None = true) ->
    (forall n cc, o = OpDropColumn tn n -> kfind c_name n (t_cols c) = Some cc -> io (OColumn tn cc) true None = true) ->
    (forall n a b e x y z mc cc, o = OpAlterColumn tn n a b e x y z -> kfind c_name n (t_cols m) = Some mc -> kfind c_name n (t_cols c) = Some cc ->
        io (OColumn tn mc) false (Some (OColumn tn cc)) = true) ->
    (In o (compare_columns_pre_f io iname g tn c m) <-> In o (compare_columns_pre g tn c m)) /\
    (In o (compare_columns_post_f io iname tn c m) <-> In o (compare_columns_post tn c m)).
  Proof. intros Hc Hm Hname Gadd Gdrop Galt. split.
    - unfold compare_columns_pre_f, compare_columns_pre. rewrite !in_app_iff, !in_flat_map. split.
      + intros [[x [Hx H]]|[x [Hx H]]].
        * left. exists x. split; auto. destruct (memN _ _) eqn:E; [inversion H|]. destruct (io _ _ _); [|inversion H].
          destruct H as [<-|[]]. simpl in Hname. rewrite memN_fcols in E; auto. rewrite E. left; auto.
        * right. exists x. split; auto. destruct (kfind c_name (c_name x) (fcols _ _ _)) as [cc|] eqn:E; [|inversion H].
          destruct (io _ _ _); [|inversion H]. destruct (alter_column_ops g tn cc x o H) as [Hr _]. rewrite Hr in Hname.
          rewrite kfind_fcols in E; auto. rewrite E. auto.
      + intros [[x [Hx H]]|[x [Hx H]]].
        * left. exists x. split; auto. destruct (memN _ _) eqn:E; [inversion H|]. destruct H as [<-|[]]. simpl in Hname.
          rewrite memN_fcols, E; auto. rewrite (Gadd x eq_refl). left; auto.
        * right. exists x. split; auto. destruct (kfind c_name (c_name x) (t_cols c)) as [cc|] eqn:E; [|inversion H].
          destruct (alter_column_ops g tn cc x o H) as [Hr _]. rewrite Hr in Hname.
          destruct (alter_column_shape g tn cc x o H) as [a [b [e [y [z [w Ho]]]]]].
          rewrite kfind_fcols, E; auto. rewrite (Galt _ _ _ _ _ _ _ x cc Ho); auto. apply kfind_nodup; auto.
    - unfold compare_columns_post_f, compare_columns_post. rewrite !in_flat_map. split.
      + intros [x [Hx H]]. apply fcols_In in Hx. destruct Hx as [Hx _]. exists x. split; auto.
        destruct (memN _ _); [inversion H|]. destruct (io _ _ _); [|inversion H]. auto.
      + intros [x [Hx H]]. exists x. destruct (memN _ _) eqn:E; [inversion H|]. destruct H as [<-|[]]. simpl in Hname. split.
        * unfold fcols. apply filter_In. auto.
        * rewrite (Gdrop (c_name x) x eq_refl); [left; auto|]. apply kfind_nodup; auto.
  Qed.

  (* ============================================================ conservativity, constraint / index level *)
  Definition cons_guard (tn:N) (cc mm:list cons) (o:op) : bool :=
    match o with
    | OpAddCons _ k =>
        match kfind k_name (k_name k) cc with
        | Some ck => if Bool.eqb (is_ix ck) (is_ix k) then io (OCons tn k) false (Some (OCons tn ck)) else io (OCons tn k) false None
        | None => io (OCons tn k) false None end
    | OpDropCons _ ix n =>
        match kfind k_name n cc with
        | Some ck => match kfind k_name n mm with
                     | Some mk => if Bool.eqb (is_ix ck) (is_ix mk) then io (OCons tn mk) false (Some (OCons tn ck))
                                  else io (OCons tn ck) true None
                     | None => io (OCons tn ck) true None end
        | None => true end
    | _ => true
    end.

  Lemma memN_fcons_false tn n ks : NoDup (keys k_name ks) -> kfind k_name n ks = None -> memN n (keys k_name (fcons iname tn ks)) = false.
  Proof. intros Hnd H. rewrite memN_keys, kfind_fcons, H; auto. Qed.

  (* without unnamed unique constraints in the metadata table: the three name-driven loops *)
  Definition ciu_named_f (tn:N) (conn_table metadata_table:option table) : list op :=
    let is_create_table := match conn_table with None => true | Some _ => false end in
    let is_drop_table := match metadata_table with None => true | Some _ => false end in
    let cod := is_create_table || is_drop_table in
    let metadata_cons := match metadata_table with Some m => t_cons m | None => [] end in
    let supports_unique_constraints := negb is_create_table in
    let conn_cons := conn_cons_f iname tn conn_table metadata_table in
    flat_map (fun ck => if memN (k_name ck) (keys k_name metadata_cons) then []
                        else obj_removed_f io tn supports_unique_constraints cod ck) conn_cons
    ++ flat_map (fun mk => match kfind k_name (k_name mk) conn_cons with
                           | Some ck => if negb (Bool.eqb (is_ix ck) (is_ix mk))
                                        then obj_removed_f io tn supports_unique_constraints cod ck
                                             ++ obj_added_f io tn supports_unique_constraints cod mk
                                        else if sig_equal mk ck then [] else obj_changed_f io tn ck mk
                           | None => []
                           end) metadata_cons
    ++ flat_map (fun mk => if memN (k_name mk) (keys k_name conn_cons) then []
                           else obj_added_f io tn supports_unique_constraints cod mk) metadata_cons.
  Lemma ciu_f_no_unnamed tn ct mt : no_uuq mt -> compare_indexes_and_uniques_f io iname tn ct mt = ciu_named_f tn ct mt.
  Proof. intros H. unfold compare_indexes_and_uniques_f, ciu_named_f.
    assert (Hu: match mt with Some m => t_uuqs m | None => [] end = []) by (destruct mt; auto).
    rewrite Hu. f_equal.
    - apply flat_map_ext. intros a. simpl. rewrite andb_false_r. reflexivity.
    - f_equal. rewrite <- app_nil_r. f_equal. destruct ct, mt; auto. simpl in H. rewrite H. reflexivity. Qed.

  Lemma ciu_conservative_existing tn c m o : t_uuqs m = [] ->
    NoDup (keys k_name (t_cons c)) -> NoDup (keys k_name (t_cons m)) ->
    iname (op_nref o) = true -> cons_guard tn (t_cons c) (t_cons m) o = true ->
    (In o (compare_indexes_and_uniques_f io iname tn (Some c) (Some m)) <-> In o (compare_indexes_and_uniques tn (Some c) (Some m))).
  Proof. intros Hu Hc Hm Hname Hg. rewrite (ciu_f_no_unnamed tn (Some c) (Some m) Hu), (ciu_no_unnamed tn (Some c) (Some m) Hu).
    unfold ciu_named_f, ciu_named. cbn [conn_cons_f orb negb].
    rewrite !in_app_iff, !in_flat_map. split.
    - intros [[x [Hx H]]|[[x [Hx H]]|[x [Hx H]]]].
      + left. exists x. unfold fcons in Hx. apply filter_In in Hx. split; [tauto|]. destruct (memN _ _); [inversion H|].
        apply obj_removed_f_sub; auto.
      + right; left. exists x. split; auto. rewrite kfind_fcons in H; auto.
        destruct (kfind k_name (k_name x) (t_cons c)) as [ck|] eqn:E; [|inversion H]. destruct (iname (kref tn ck)); [|inversion H].
        destruct (negb (Bool.eqb (is_ix ck) (is_ix x))).
        * apply in_app_iff in H. apply in_app_iff. destruct H as [H|H]; [left; apply obj_removed_f_sub|right; apply obj_added_f_sub]; auto.
        * destruct (sig_equal x ck); auto. apply obj_changed_f_sub; auto.
      + destruct (memN (k_name x) (keys k_name (fcons iname tn (t_cons c)))) eqn:E; [inversion H|].
        pose proof H as H'. apply obj_added_f_In in H'. destruct H' as [-> Hio]. simpl in Hname.
        rewrite memN_keys, kfind_fcons in E; auto.
        destruct (kfind k_name (k_name x) (t_cons c)) as [ck|] eqn:Ec.
        * right; left. exists x. split; auto. rewrite Ec. destruct (iname (kref tn ck)) eqn:Ek; [congruence|].
          destruct (kfind_some _ _ _ _ Ec) as [_ Hn].
          rewrite (kref_diff tn ck x Hn); [|congruence]. cbn [negb]. apply in_app_iff. right. rewrite obj_added_true. left; auto.
        * right; right. exists x. split; auto. rewrite memN_keys, Ec. rewrite obj_added_true. left; auto.
    - intros [[x [Hx H]]|[[x [Hx H]]|[x [Hx H]]]].
      + left. exists x. destruct (memN (k_name x) (keys k_name (t_cons m))) eqn:E; [inversion H|].
        rewrite obj_removed_true in H. destruct H as [<-|[]]. rewrite op_nref_drop in Hname. split.
        * unfold fcons. apply filter_In. auto.
        * unfold cons_guard in Hg. rewrite (kfind_nodup k_name x _ Hc Hx), (memN_false_kfind k_name _ _ E) in Hg.
          rewrite obj_removed_f_of, obj_removed_true; auto. left; auto.
      + destruct (kfind k_name (k_name x) (t_cons c)) as [ck|] eqn:Ec; [|inversion H].
        destruct (kfind_some _ _ _ _ Ec) as [Hck Hn]. pose proof (kfind_nodup k_name x _ Hm Hx) as Hmx.
        destruct (Bool.eqb (is_ix ck) (is_ix x)) eqn:Ei; cbn [negb] in H.
        * (* same kind *) destruct (sig_equal x ck) eqn:Es; [inversion H|].
          assert (Hio: io (OCons tn x) false (Some (OCons tn ck)) = true /\ iname (kref tn ck) = true).
          { simpl in H. destruct H as [<-|[<-|[]]].
            - rewrite op_nref_drop in Hname. unfold cons_guard in Hg. rewrite Hn, Ec, Hmx, Ei in Hg. auto.
            - simpl in Hname. unfold cons_guard in Hg. rewrite Ec, Ei in Hg. rewrite (kref_same tn ck x Hn Ei). auto. }
          destruct Hio as [Hio Hk]. right; left. exists x. split; auto. rewrite kfind_fcons, Ec, Hk, Ei, Es; auto. cbn [negb].
          unfold obj_changed_f. rewrite Hio. auto.
        * (* kinds differ *) rewrite obj_removed_true, obj_added_true in H. simpl in H. destruct H as [<-|[<-|[]]].
          -- rewrite op_nref_drop in Hname. unfold cons_guard in Hg. rewrite Hn, Ec, Hmx, Ei in Hg.
             right; left. exists x. split; auto. rewrite kfind_fcons, Ec, Hname, Ei; auto. cbn [negb]. apply in_app_iff. left.
             rewrite obj_removed_f_of, obj_removed_true; auto. left; auto.
          -- simpl in Hname. unfold cons_guard in Hg. rewrite Ec, Ei in Hg. destruct (iname (kref tn ck)) eqn:Ek.
             ++ right; left. exists x. split; auto. rewrite kfind_fcons, Ec, Ek, Ei; auto. cbn [negb]. apply in_app_iff. right.
                rewrite obj_added_f_of, obj_added_true; auto. left; auto.
             ++ right; right. exists x. split; auto. rewrite memN_keys, kfind_fcons, Ec, Ek; auto.
                rewrite obj_added_f_of, obj_added_true; auto. left; auto.
      + right; right. exists x. split; auto. destruct (memN (k_name x) (keys k_name (t_cons c))) eqn:E; [inversion H|].
        apply memN_false_kfind in E. rewrite memN_fcons_false; auto. rewrite obj_added_true in H. destruct H as [<-|[]].
        unfold cons_guard in Hg. rewrite E in Hg. rewrite obj_added_f_of, obj_added_true; auto. left; auto.
  Qed.

  Lemma ciu_conservative_created tn m o : t_uuqs m = [] -> cons_guard tn [] (t_cons m) o = true ->
    (In o (compare_indexes_and_uniques_f io iname tn None (Some m)) <-> In o (compare_indexes_and_uniques tn None (Some m))).
  Proof. intros Hu Hg. rewrite (ciu_f_no_unnamed tn None (Some m) Hu), (ciu_no_unnamed tn None (Some m) Hu).
    unfold ciu_named_f, ciu_named. cbn [conn_cons_f orb negb flat_map app].
    rewrite !in_app_iff, !in_flat_map. split.
    - intros [[x [Hx H]]|[x [Hx H]]]; [cbn in H; inversion H|]. right. exists x. split; auto. cbn in H |- *. apply obj_added_f_sub; auto.
    - intros [[x [Hx H]]|[x [Hx H]]]; [cbn in H; inversion H|]. right. exists x. split; auto. cbn in H |- *.
      pose proof (obj_added_In _ _ _ _ _ H) as ->. cbn in Hg. rewrite obj_added_f_of; auto. Qed.

  Lemma ciu_conservative_dropped tn c o : NoDup (keys k_name (t_cons c)) ->
    iname (op_nref o) = true -> cons_guard tn (t_cons c) [] o = true ->
    (In o (compare_indexes_and_uniques_f io iname tn (Some c) None) <-> In o (compare_indexes_and_uniques tn (Some c) None)).
  Proof. intros Hc Hname Hg. rewrite (ciu_f_no_unnamed tn (Some c) None I), (ciu_no_unnamed tn (Some c) None I).
    unfold ciu_named_f, ciu_named. cbn [conn_cons_f orb negb flat_map app].
    rewrite !app_nil_r, !in_flat_map. split.
    - intros [x [Hx H]]. exists x. apply filter_In in Hx. destruct Hx as [Hx Hi]. unfold fcons in Hx. apply filter_In in Hx. split.
      + apply filter_In. tauto.
      + cbn in H |- *. apply obj_removed_f_sub; auto.
    - intros [x [Hx H]]. exists x. apply filter_In in Hx. destruct Hx as [Hx Hi]. cbn in H |- *.
      pose proof (obj_removed_In _ _ _ _ _ H) as ->. rewrite op_nref_drop in Hname. split.
      + apply filter_In. split; auto. unfold fcons. apply filter_In. auto.
      + unfold cons_guard in Hg. rewrite (kfind_nodup k_name x _ Hc Hx) in Hg. cbn in Hg. rewrite obj_removed_f_of; auto. Qed.

  (* ============================================================ conservativity, foreign keys *)
  Lemma fk_by_name_ffks tn mf fs : iname (fkref tn mf) = true -> fk_by_name mf (ffks iname tn fs) = fk_by_name mf fs.
  Proof. intros Hn. unfold fk_by_name. destruct (f_named mf) eqn:Em; auto. unfold fkref in Hn. rewrite Em in Hn.
    unfold kfind, ffks. induction fs as [|a l IH]; simpl; auto.
    destruct (f_named a) eqn:Ea.
    - destruct (N.eqb_spec (f_name a) (f_name mf)) as [E|E].
      + unfold fkref at 1. rewrite Ea, E, Hn. simpl. rewrite Ea. simpl. rewrite E, N.eqb_refl. auto.
      + apply N.eqb_neq in E. destruct (iname (fkref tn a)); simpl; rewrite ?Ea; simpl; rewrite ?E; auto.
    - destruct (iname (fkref tn a)); simpl; rewrite ?Ea; auto. Qed.

  Lemma cfk_conservative tn c m o :
    NoDup (keys f_name (t_fks c)) -> NoDup (keys f_name (t_fks m)) ->
    iname (op_nref o) = true ->
    (forall mf, o = OpAddFk tn mf -> forallb (fun cf => implb (fk_sig_eqb mf cf) (iname (fkref tn cf))) (t_fks c) = true
                                   /\ io (OFk tn mf) false (option_map (OFk tn) (fk_by_name mf (t_fks c))) = true) ->
    (forall n nm cf, o = OpDropFk tn n nm -> kfind f_name n (t_fks c) = Some cf ->
                  io (OFk tn cf) true (option_map (OFk tn) (fk_by_name cf (t_fks m))) = true) ->
    (In o (compare_foreign_keys_f io iname tn (Some c) (Some m)) <-> In o (compare_foreign_keys tn (Some c) (Some m))).
  Proof. intros Hc Hm Hname Gadd Gdrop. unfold compare_foreign_keys_f, compare_foreign_keys. rewrite !in_app_iff, !in_flat_map. split.
    - intros [[x [Hx H]]|[x [Hx H]]].
      + left. exists x. apply ffks_In in Hx. destruct Hx as [Hx _]. split; auto.
        destruct (existsb _ _); [inversion H|]. destruct (io _ _ _); [auto|inversion H].
      + right. exists x. split; auto. destruct (existsb (fk_sig_eqb x) (ffks iname tn (t_fks c))) eqn:E; [inversion H|].
        destruct (io _ _ _); [|inversion H]. destruct H as [<-|[]]. destruct (Gadd x eq_refl) as [Htw _].
        destruct (existsb (fk_sig_eqb x) (t_fks c)) eqn:E'; [|left; auto]. exfalso.
        apply existsb_exists in E'. destruct E' as [cf [Hcf Hs]]. rewrite forallb_forall in Htw. specialize (Htw cf Hcf). rewrite Hs in Htw. simpl in Htw.
        assert (existsb (fk_sig_eqb x) (ffks iname tn (t_fks c)) = true).
        { apply existsb_exists. exists cf. split; auto. unfold ffks. apply filter_In. auto. }
        congruence.
    - intros [[x [Hx H]]|[x [Hx H]]].
      + left. exists x. destruct (existsb (fk_sig_eqb x) (t_fks m)) eqn:E; [inversion H|]. destruct H as [<-|[]].
        rewrite op_nref_dropfk in Hname. split.
        * unfold ffks. apply filter_In. auto.
        * rewrite (Gdrop (f_name x) (f_named x) x eq_refl); [left; auto|]. apply kfind_nodup; auto.
      + right. exists x. split; auto. destruct (existsb (fk_sig_eqb x) (t_fks c)) eqn:E; [inversion H|]. destruct H as [<-|[]]. simpl in Hname.
        assert (E': existsb (fk_sig_eqb x) (ffks iname tn (t_fks c)) = false).
        { destruct (existsb (fk_sig_eqb x) (ffks iname tn (t_fks c))) eqn:E2; auto. apply existsb_exists in E2. destruct E2 as [cf [Hcf Hs]].
          apply ffks_In in Hcf. assert (existsb (fk_sig_eqb x) (t_fks c) = true) by (apply existsb_exists; exists cf; tauto). congruence. }
        rewrite E', fk_by_name_ffks; auto. destruct (Gadd x eq_refl) as [_ Hio]. rewrite Hio. left; auto.
  Qed.

  (* ============================================================ conservativity, table level *)
  Lemma existing_f_ops g c m o : In o (existing_table_f io iname g c m) -> op_table o = t_name m.
  Proof. unfold existing_table_f. rewrite !in_app_iff. intros [H|[H|[H|H]]].
    - destruct (cols_f_In g _ c m o (or_introl H)) as [Hop _]. apply col_op_table; auto.
    - destruct (ciu_f_In _ _ _ o H) as [Hop _]. apply cons_op_table; auto.
    - destruct (cfk_f_In _ _ _ o H) as [Hop _]. apply fk_op_table; auto.
    - destruct (cols_f_In g _ c m o (or_intror H)) as [Hop _]. apply col_op_table; auto. Qed.
  Lemma added_f_ops m o : In o (added_table_f io iname m) -> op_table o = t_name m.
  Proof. intros [<-|H]; [reflexivity|]. destruct (ciu_f_In _ _ _ o H) as [Hop _]. apply cons_op_table; auto. Qed.
  Lemma removed_f_ops c o : In o (removed_table_f io iname c) -> op_table o = t_name c.
  Proof. unfold removed_table_f. rewrite in_app_iff. intros [H|[<-|[]]]; [|reflexivity].
    destruct (ciu_f_In _ _ _ o H) as [Hop _]. apply cons_op_table; auto. Qed.

  Lemma obj_guard_cons conn meta tn o cc mm : op_table o = tn ->
    (forall n, lk_cons conn tn n = kfind k_name n cc) -> (forall n, lk_cons meta tn n = kfind k_name n mm) ->
    obj_guard io conn meta o = true -> cons_guard tn cc mm o = true.
  Proof. intros Ht Hc Hm. destruct o; simpl in *; auto; subst; rewrite ?Hc, ?Hm; auto. Qed.

  Lemma existing_conservative g conn meta c m o : t_uuqs m = [] ->
    kfind t_name (t_name m) conn = Some c -> kfind t_name (t_name m) meta = Some m -> nd_table c -> nd_table m ->
    NoDup (keys f_name (t_fks c)) -> NoDup (keys f_name (t_fks m)) ->
    iname (op_nref o) = true -> fk_twin_ok iname conn o = true -> obj_guard io conn meta o = true ->
    (In o (existing_table_f io iname g c m) <-> In o (existing_table g c m)).
  Proof. intros Hu Hc Hm [Hcc Hck] [Hmc Hmk] Hcf Hmf Hname Htw Hg.
    assert (Htab: In o (existing_table_f io iname g c m) \/ In o (existing_table g c m) -> op_table o = t_name m).
    { intros [H|H]; [eapply existing_f_ops|eapply existing_ops_table]; eauto. }
    assert (Hcols: (In o (compare_columns_pre_f io iname g (t_name m) c m) <-> In o (compare_columns_pre g (t_name m) c m)) /\
                   (In o (compare_columns_post_f io iname (t_name m) c m) <-> In o (compare_columns_post (t_name m) c m))).
    { apply cols_conservative; auto.
      - intros mc ->. exact Hg.
      - intros n cc -> E. simpl in Hg. unfold lk_col in Hg. rewrite Hc, E in Hg. auto.
      - intros n a b e x y z mc cc -> E1 E2. simpl in Hg. unfold lk_col in Hg. rewrite Hc, Hm, E1, E2 in Hg. auto. }
    assert (Hcons: op_table o = t_name m ->
              (In o (compare_indexes_and_uniques_f io iname (t_name m) (Some c) (Some m)) <-> In o (compare_indexes_and_uniques (t_name m) (Some c) (Some m)))).
    { intros Ht. apply ciu_conservative_existing; auto. eapply obj_guard_cons; eauto.
      - intros n. unfold lk_cons. rewrite Hc. auto.
      - intros n. unfold lk_cons. rewrite Hm. auto. }
    assert (Hfks: In o (compare_foreign_keys_f io iname (t_name m) (Some c) (Some m)) <-> In o (compare_foreign_keys (t_name m) (Some c) (Some m))).
    { apply cfk_conservative; auto.
      - intros mf ->. simpl in Hg, Htw. unfold lk_fks in Hg, Htw. rewrite Hc in Hg, Htw. auto.
      - intros n nm cf -> E. simpl in Hg. unfold lk_fk, lk_fks in Hg. rewrite Hc, Hm, E in Hg. auto. }
    destruct Hcols as [Hpre Hpost].
    split; intros H; pose proof (Htab (or_introl H)) as Ht || pose proof (Htab (or_intror H)) as Ht;
      unfold existing_table_f, existing_table in *; rewrite !in_app_iff in *; specialize (Hcons Ht); tauto.
  Qed.

  Lemma in_compare_tables_f g conn meta o : In o (compare_tables_f io iname g conn meta) <->
    (exists m, In m meta /\ memN (t_name m) (keys t_name (ftables iname conn)) = false /\ io (OTable m) false None = true /\ In o (added_table_f io iname m)) \/
    (exists c, In c (ftables iname conn) /\ memN (t_name c) (keys t_name meta) = false /\ io (OTable c) true None = true /\ In o (removed_table_f io iname c)) \/
    (exists m c, In m meta /\ kfind t_name (t_name m) (ftables iname conn) = Some c /\ io (OTable m) false (Some (OTable c)) = true
                 /\ In o (existing_table_f io iname g c m)).
  Proof. unfold compare_tables_f. rewrite !in_app_iff, !in_flat_map. split.
    - intros [[x [Hx H]]|[[x [Hx H]]|[x [Hx H]]]].
      + left. exists x. destruct (memN _ _); [inversion H|]. destruct (io _ _ _); [auto|inversion H].
      + right; left. exists x. destruct (memN _ _); [inversion H|]. destruct (io _ _ _); [auto|inversion H].
      + right; right. exists x. destruct (kfind _ _ _) as [c|]; [|inversion H]. exists c. destruct (io _ _ _); [auto|inversion H].
    - intros [[x [Hx [E [Hio H]]]]|[[x [Hx [E [Hio H]]]]|[x [c [Hx [E [Hio H]]]]]]].
      + left. exists x. rewrite E, Hio. auto.
      + right; left. exists x. rewrite E, Hio. auto.
      + right; right. exists x. rewrite E, Hio. auto.
  Qed.

  Theorem diff_f_conservative g conn meta o : nd_schema conn -> nd_schema meta -> named_schema meta ->
    acc io iname conn meta o = true -> (In o (diff_f io iname g conn meta) <-> In o (diff g conn meta)).
  Proof. intros [HAn HAt] [HBn HBt] HBu Hacc. unfold acc, name_ok in Hacc. rewrite !andb_true_iff in Hacc.
    destruct Hacc as [[[[[Hs Ht] Hn] Htw] Hg1] Hg2]. unfold diff_f, diff. rewrite in_compare_tables_f, in_compare_tables.
    unfold table_guard in Hg1. split.
    - intros [[m [Hm [E [Hio H]]]]|[[c [Hc [E [Hio H]]]]|[m [c [Hm [E [Hio H]]]]]]].
      + left. exists m. split; auto. pose proof (added_f_ops _ _ H) as Htab. rewrite Htab in *.
        rewrite memN_keys, kfind_ftables in E; auto. rewrite memN_keys. split; auto.
        destruct (kfind t_name (t_name m) conn) eqn:Ec; [congruence|].
        destruct H as [<-|H]; [left; auto|right]. apply ciu_conservative_created; auto.
        eapply obj_guard_cons; eauto.
        * intros n. unfold lk_cons. rewrite Ec. auto.
        * intros n. unfold lk_cons. rewrite (kfind_nodup t_name m meta); auto.
      + apply ftables_In in Hc. destruct Hc as [Hc _]. right; left. exists c. split; auto. split; auto.
        pose proof (removed_f_ops _ _ H) as Htab. unfold removed_table_f in H. unfold removed_table. rewrite in_app_iff in *.
        destruct H as [H|H]; [left|right; auto]. destruct (HAt c Hc) as [[_ Hk] _]. apply ciu_conservative_dropped; auto.
        eapply obj_guard_cons; eauto.
        * intros n. unfold lk_cons. rewrite (kfind_nodup t_name c conn); auto.
        * intros n. unfold lk_cons. rewrite (memN_false_kfind t_name _ _ E). auto.
      + right; right. exists m, c. split; auto. pose proof (existing_f_ops _ _ _ _ H) as Htab. rewrite Htab in *.
        rewrite kfind_ftables in E; auto. split; auto.
        assert (Hcin: In c conn) by (apply kfind_some in E; tauto).
        destruct (HAt c Hcin) as [? ?]. destruct (HBt m Hm) as [? ?].
        apply (existing_conservative g conn meta c m o); auto. apply kfind_nodup; auto.
    - intros [[m [Hm [E H]]]|[[c [Hc [E H]]]|[m [c [Hm [E H]]]]]].
      + left. exists m. pose proof (added_ops _ _ H) as Htab. rewrite Htab in *.
        pose proof (memN_false_kfind t_name _ _ E) as Ec. rewrite (kfind_nodup t_name m meta), Ec in Hg1; auto.
        split; auto. split; [rewrite memN_keys, kfind_ftables, Ec; auto|]. split; auto.
        destruct H as [<-|H]; [left; auto|right]. apply ciu_conservative_created; auto.
        eapply obj_guard_cons; eauto.
        * intros n. unfold lk_cons. rewrite Ec. auto.
        * intros n. unfold lk_cons. rewrite (kfind_nodup t_name m meta); auto.
      + right; left. exists c. pose proof (removed_ops _ _ H) as Htab. rewrite Htab in *.
        pose proof (memN_false_kfind t_name _ _ E) as Em. rewrite (kfind_nodup t_name c conn), Em in Hg1; auto.
        split. { unfold ftables. apply filter_In. rewrite Hs, Ht. auto. } split; auto. split; auto.
        unfold removed_table in H. unfold removed_table_f. rewrite in_app_iff in *.
        destruct H as [H|H]; [left|right; auto]. destruct (HAt c Hc) as [[_ Hk] _]. apply ciu_conservative_dropped; auto.
        eapply obj_guard_cons; eauto.
        * intros n. unfold lk_cons. rewrite (kfind_nodup t_name c conn); auto.
        * intros n. unfold lk_cons. rewrite Em. auto.
      + right; right. exists m, c. pose proof (existing_ops_table _ _ _ _ H) as Htab. rewrite Htab in *.
        rewrite (kfind_nodup t_name m meta), E in Hg1; auto. split; auto. split; [rewrite kfind_ftables; auto|]. split; auto.
        assert (Hcin: In c conn) by (apply kfind_some in E; tauto).
        destruct (HAt c Hcin) as [? ?]. destruct (HBt m Hm) as [? ?].
        apply (existing_conservative g conn meta c m o); auto. apply kfind_nodup; auto.
  Qed.
End C20.

(* ================================================================ decider and model *)
Lemma list_eqb_refl {A} (e:A->A->bool) l : (forall a, e a a = true) -> list_eqb e l l = true.
Proof. intros He. induction l; simpl; auto. rewrite He, IHl. auto. Qed.
Lemma mset_eqb_refl {A} (e:A->A->bool) l : (forall a, e a a = true) -> mset_eqb e l l = true.
Proof. intros He. induction l; simpl; auto. rewrite He. auto. Qed.
Lemma ty_eqb_refl t : ty_eqb t t = true.
Proof. unfold ty_eqb. rewrite N.eqb_refl, list_eqbN_refl. auto. Qed.
Lemma opt_eqb_refl {A} (e:A->A->bool) o : (forall a, e a a = true) -> opt_eqb e o o = true.
Proof. intros H. destruct o; simpl; auto. Qed.
Lemma dflt_eqb_refl d : dflt_eqb d d = true.
Proof. destruct d; simpl; rewrite ?list_eqbN_refl, ?(opt_eqb_refl Bool.eqb); auto using eqb_reflx. Qed.
Lemma col_eqb_refl c : col_eqb c c = true.
Proof. unfold col_eqb. rewrite N.eqb_refl, ty_eqb_refl, !eqb_reflx, (opt_eqb_refl dflt_eqb); auto using dflt_eqb_refl. Qed.
Lemma cons_eqb_refl k : cons_eqb k k = true.
Proof. destruct k; simpl; rewrite N.eqb_refl, list_eqbN_refl, ?eqb_reflx; auto. Qed.
Lemma fkopts_eqb_refl o : fkopts_eqb o o = true.
Proof. unfold fkopts_eqb. rewrite !opt_eqb_refl; auto using list_eqbN_refl, eqb_reflx. Qed.
Lemma fk_eqb_refl f : fk_eqb f f = true.
Proof. unfold fk_eqb. rewrite !N.eqb_refl, !list_eqbN_refl, fkopts_eqb_refl, eqb_reflx, orb_true_r. auto. Qed.
Lemma op_eqb_refl o : op_eqb o o = true.
Proof. destruct o; simpl; rewrite ?N.eqb_refl, ?col_eqb_refl, ?cons_eqb_refl, ?eqb_reflx, ?ty_eqb_refl, ?fk_eqb_refl, ?orb_true_r; auto.
  - unfold table_equiv. rewrite N.eqb_refl, (list_eqb_refl col_eqb), (mset_eqb_refl cons_eqb), (mset_eqb_refl fk_eqb), (mset_eqb_refl uuq_eqb);
      auto using col_eqb_refl, cons_eqb_refl, fk_eqb_refl. intros a. apply list_eqbN_refl.
  - rewrite !opt_eqb_refl; auto using dflt_eqb_refl, ty_eqb_refl, eqb_reflx. intros a. apply opt_eqb_refl. apply dflt_eqb_refl.
  - unfold uuq_eqb. apply list_eqbN_refl. Qed.
Lemma inb_of_In o l : In o l -> inb o l = true.
Proof. intros H. unfold inb. apply existsb_exists. exists o. split; auto. apply op_eqb_refl. Qed.

Lemma nref_eqb_eq a b : nref_eqb a b = true -> a = b.
Proof. destruct a, b; simpl; try congruence; rewrite ?andb_true_iff, ?N.eqb_eq; intuition congruence. Qed.
Lemma objs_of_ref S r ob : In ob (objs_of S r) -> obj_ref ob = r.
Proof. destruct r as [|t|t c|t n|t n|t n|t|sn|t]; simpl; try tauto.
  - destruct (kfind t_name t S) eqn:E; simpl; [|tauto]. intros [<-|[]]. apply kfind_some in E. simpl. f_equal. tauto.
  - unfold lk_col. destruct (kfind t_name t S); [|simpl; tauto]. destruct (kfind c_name c (t_cols t0)) eqn:E; simpl; [|tauto].
    intros [<-|[]]. apply kfind_some in E. simpl. f_equal. tauto.
  - unfold lk_cons. destruct (kfind t_name t S); [|simpl; tauto]. destruct (kfind k_name n (t_cons t0)) eqn:E; simpl; [|tauto].
    destruct (nref_eqb (kref t c) (NUq t n)) eqn:Ek; simpl; [|tauto]. intros [<-|[]]. simpl. apply nref_eqb_eq; auto.
  - unfold lk_cons. destruct (kfind t_name t S); [|simpl; tauto]. destruct (kfind k_name n (t_cons t0)) eqn:E; simpl; [|tauto].
    destruct (nref_eqb (kref t c) (NIx t n)) eqn:Ek; simpl; [|tauto]. intros [<-|[]]. simpl. apply nref_eqb_eq; auto.
  - unfold lk_fk. destruct (kfind t_name t S); [|simpl; tauto]. destruct (kfind f_name n (t_fks t0)) eqn:E; simpl; [|tauto].
    destruct (f_named f) eqn:En; simpl; [|tauto].
    intros [<-|[]]. apply kfind_some in E. simpl. unfold fkref. rewrite En. f_equal. tauto.
  - intros H. apply in_map_iff in H. destruct H as [x [<- Hx]]. apply filter_In in Hx. destruct Hx as [_ Hx]. apply negb_true_iff in Hx.
    simpl. unfold fkref. rewrite Hx. auto.
  - destruct (kfind t_name t S); [|simpl; tauto]. intros H. apply in_map_iff in H. destruct H as [u [<- _]]. reflexivity.
Qed.
Lemma obj_acceptedb_sound f conn meta r : obj_acceptedb f conn meta r = true -> obj_accepted (io_of f) r.
Proof. unfold obj_acceptedb. intros H. apply existsb_exists in H. destruct H as [ob [Hob H]].
  apply existsb_exists in H. destruct H as [refl [_ H]]. apply existsb_exists in H. destruct H as [cmp [_ H]].
  exists ob, refl, cmp. split; auto. apply in_app_iff in Hob. destruct Hob as [Hob|Hob]; eapply objs_of_ref; eauto. Qed.

Theorem check_C20_sound i out : check_C20 i out = true -> C20_holds i out.
Proof. destruct i as [[A B] f]. unfold check_C20, C20_holds. rewrite !andb_true_iff, !forallb_forall. intros [[[[H1 H2] H3] H4] H5].
  split; [|split; auto].
  - intros o Ho. specialize (H1 o Ho). apply andb_true_iff in H1. destruct H1 as [Ha Hb].
    split; eapply obj_acceptedb_sound; eauto.
  - intros o Ho Hd. specialize (H2 o Ho). rewrite Hd in H2. simpl in H2. rewrite !andb_true_iff in H2. tauto. Qed.

Lemma nd_schema_reflect A : nd_schema A -> nd_schema (reflect_sqlite A).
Proof. intros [H1 H2]. split.
  - unfold reflect_sqlite. rewrite (keys_map t_name reflect_table reflect_table_name). auto.
  - intros t Ht. unfold reflect_sqlite in Ht. apply in_map_iff in Ht. destruct Ht as [t0 [<- Ht0]]. destruct (H2 t0 Ht0) as [[Ha Hb] Hc].
    split; [split|]; cbn [reflect_table t_cols t_cons t_fks]; auto.
    + rewrite (keys_map c_name reflect_col reflect_col_name). auto.
    + rewrite (keys_map f_name reflect_fk reflect_fk_name). auto. Qed.

Lemma nref_eqb_refl r : nref_eqb r r = true.
Proof. destruct r; simpl; rewrite ?N.eqb_refl; auto. Qed.
Lemma tcall_eqb_refl c : tcall_eqb c c = true.
Proof. destruct c; simpl; rewrite ?nref_eqb_refl, ?eqb_reflx, ?list_eqbN_refl; auto. Qed.
Lemma name_calls_okb_refl l : name_calls_okb l l = true.
Proof. unfold name_calls_okb. apply forallb_forall. intros c Hc. destruct (is_name_call c); simpl; auto.
  apply existsb_exists. exists c. split; auto. apply tcall_eqb_refl. Qed.
Lemma ops_equiv_refl l : ops_equiv l l = true.
Proof. apply mset_eqb_refl. apply op_eqb_refl. Qed.

Theorem model_C20_holds i : inclass_C20 i = true -> C20_holds i (model_C20 i).
Proof. destruct i as [[A B] f]. unfold inclass_C20. simpl. rewrite andb_true_iff. intros [Hin Hu]. apply inclass_C06_core_wf in Hin. simpl in Hin. destruct Hin as [HA HB].
  apply named_of_no_unnamed in Hu.
  apply wf_nd_schema in HA. apply wf_nd_schema in HB. apply nd_schema_reflect in HA. split; [|split; [|split; [|split]]].
  4:{ exact (name_calls_okb_refl (expected_calls f (io_of f) (iname_of f) (reflect_sqlite A) B)). }
  4:{ exact (ops_equiv_refl (diff_f (io_of f) (iname_of f) g20 (reflect_sqlite A) B)). }
  - intros o Ho. apply (diff_f_In _ _ _ _ _ _ Ho).
  - intros o Ho. apply (diff_f_In _ _ _ _ _ _ Ho).
  - unfold conservativeb. rewrite andb_true_iff, !forallb_forall. split; intros o Ho.
    + destruct (acc _ _ _ _ o) eqn:E; simpl; auto. apply inb_of_In. apply (diff_f_conservative _ _ g20 _ B o HA HB Hu E). auto.
    + destruct (acc _ _ _ _ o) eqn:E; simpl; auto. apply inb_of_In. apply (diff_f_conservative _ _ g20 _ B o HA HB Hu E). auto.
Qed.

(* ================================================================ "treated as absent" *)
(* without an object filter the filtered comparison IS the plain comparison of the database from which every object has been
   removed whose reflected name include_name rejects *)
Section NameAbsent.
  Variable iname : nref -> bool.
  Notation T := (fun (_:obj) (_:bool) (_:option obj) => true).

  Lemma obj_added_T tn s c k : obj_added_f T tn s c k = obj_added tn s c k.
  Proof. destruct k; reflexivity. Qed.
  Lemma obj_removed_T tn s c k : obj_removed_f T tn s c k = obj_removed tn s c k.
  Proof. destruct k; reflexivity. Qed.

  Lemma ciu_T_some c mt : compare_indexes_and_uniques_f T iname (t_name c) (Some c) mt
                          = compare_indexes_and_uniques (t_name c) (Some (prune_table iname c)) mt.
  Proof. destruct mt as [m|]; unfold compare_indexes_and_uniques_f, compare_indexes_and_uniques, conn_cons_f, conn_uq_sigs_f, conn_uq_sigs;
      cbn [prune_table t_cons t_uuqs orb negb];
      (apply (f_equal2 (@app op)); [|apply (f_equal2 (@app op)); [|apply (f_equal2 (@app op)); [|reflexivity]]]).
    all: try reflexivity.
    all: apply flat_map_ext; intros a; try (destruct (kfind _ _ _); auto); rewrite ?obj_removed_T, ?obj_added_T; reflexivity. Qed.
  Lemma ciu_T_none tn mt : compare_indexes_and_uniques_f T iname tn None mt = compare_indexes_and_uniques tn None mt.
  Proof. unfold compare_indexes_and_uniques_f, compare_indexes_and_uniques, conn_cons_f.
    apply (f_equal2 (@app op)); [reflexivity|apply (f_equal2 (@app op)); [reflexivity|apply (f_equal2 (@app op)); [|reflexivity]]].
    apply flat_map_ext. intros a. rewrite obj_added_T. reflexivity. Qed.

  Lemma existing_T g c m : t_name c = t_name m -> existing_table_f T iname g c m = existing_table g (prune_table iname c) m.
  Proof. intros E. unfold existing_table_f, existing_table. rewrite <- E, ciu_T_some. reflexivity. Qed.

  Theorem diff_f_name_absent g conn meta : diff_f T iname g conn meta = diff g (prune iname conn) meta.
  Proof. unfold diff_f, diff, compare_tables_f, compare_tables, prune.
    rewrite (keys_map t_name (prune_table iname)); [|reflexivity]. rewrite flat_map_map.
    apply (f_equal2 (@app op)); [|apply (f_equal2 (@app op))].
    - apply flat_map_ext. intros m. destruct (memN _ _); auto.
    - apply flat_map_ext. intros c. cbn [prune_table t_name]. destruct (memN _ _); auto;
        try (unfold removed_table_f, removed_table; rewrite ciu_T_some; reflexivity).
    - apply flat_map_ext. intros m. rewrite (kfind_map t_name (prune_table iname)); [|reflexivity].
      destruct (kfind t_name (t_name m) (ftables iname conn)) as [c|] eqn:E; auto. cbn [option_map].
      apply existing_T. apply kfind_some in E. tauto. Qed.
End NameAbsent.
