(* C14 — soundness of well-formed visitors: the rendered statement reads back as the expected tokens. *)
From Coq Require Import List NArith Bool Arith Lia.
From AV Require Import Spec.C14 Proofs.QuoteProof.
Import ListNotations.
Open Scope N_scope.

(* ------------------------------------------------------------------ small facts *)

Lemma forallb_rev {A} (f:A -> bool) l : forallb f (rev l) = forallb f l.
Proof. induction l as [|a l IH]; [reflexivity|]. simpl. rewrite forallb_app, IH. simpl. rewrite andb_true_r. apply andb_comm. Qed.

Lemma notab_split_dot s : forall acc, forallb notab (split_dot_acc acc s) = true -> notab acc = true /\ notab s = true.
Proof.
  induction s as [|c s IH]; intros acc H.
  - simpl in H. rewrite andb_true_r in H. unfold notab in *. rewrite forallb_rev in H. auto.
  - cbn [split_dot_acc] in H. destruct (N.eqb_spec c 46) as [E|E].
    + cbn [forallb] in H. apply andb_true_iff in H as [A B]. apply IH in B as [_ B].
      unfold notab in *. rewrite forallb_rev in A. split; [exact A|]. subst c. cbn [forallb]. now rewrite B.
    + apply IH in H as [A B]. unfold notab in *. cbn [forallb] in A. apply andb_true_iff in A as [A1 A2].
      split; [exact A2|]. cbn [forallb]. now rewrite A1, B.
Qed.

Lemma forallb_nth {A} (P:A -> bool) l d i : forallb P l = true -> P d = true -> P (nth i l d) = true.
Proof.
  revert i. induction l as [|a l IH]; intros i H D; destruct i; simpl in *; auto;
    apply andb_true_iff in H as [H1 H2]; auto.
Qed.

Lemma ident_nospace q s : tok_nospace (ident_token q s) = true.
Proof. unfold ident_token. destruct (requires_quotes q s) as [[|]|]; reflexivity. Qed.

Lemma ident_f_nospace q f s : tok_nospace (ident_token_f q f s) = true.
Proof. destruct f; cbn [ident_token_f]; try apply ident_nospace. reflexivity. Qed.

Lemma schema_tokens_nospace q f sc : forallb tok_nospace (schema_tokens q f sc) = true.
Proof.
  unfold schema_tokens. destruct (schema_given sc) as [s|]; [|reflexivity].
  destruct f; try (cbn [forallb]; now rewrite ident_f_nospace).
  induction (split_dot s) as [|p r IH]; [reflexivity|]. simpl. now rewrite ident_nospace, IH.
Qed.

(* ------------------------------------------------------------------ env_ok projections *)

Lemma env_ok_parts q e : env_ok q e = true ->
  schema_ok q (sflag e) (e_schema e) = true /\ (forall n, name_ok_f q (flag e n) (slot e n) = true)
  /\ forallb (opaque_ok q) (e_opq e) = true.
Proof.
  unfold env_ok. rewrite !andb_true_iff. intros [[[[[A B] C] D] E] F]. repeat split; auto. intros []; assumption.
Qed.

Lemma schema_if_ok q e b : schema_ok q (sflag e) (e_schema e) = true -> schema_ok q (sflag e) (schema_if e b) = true.
Proof. destruct b; simpl; auto. Qed.

Lemma schema_if_tokens q e n sch : (sch || negb (is_ref n)) = true ->
  schema_tokens q (sflag e) (schema_if e sch) = (if sch || is_ref n then schema_tokens q (sflag e) (e_schema e) else []).
Proof. destruct sch; simpl; [reflexivity|]. intro H. apply negb_true_iff in H. now rewrite H. Qed.

Lemma schema_if_forced e n sch : (sch || negb (is_ref n)) = true -> schema_if e (sch || is_ref n) = schema_if e sch.
Proof. destruct sch; simpl; [reflexivity|]. intro H. apply negb_true_iff in H. now rewrite H. Qed.

Lemma opq_ok q e i : forallb (opaque_ok q) (e_opq e) = true -> opaque_ok q (opq e i) = true.
Proof. intro H. unfold opq. apply forallb_nth; [exact H | reflexivity]. Qed.

(* ------------------------------------------------------------------ inside a literal *)

Lemma inner_sound q e ip t : qspec_wf q = true -> env_ok q e = true -> inner_wf ip = true ->
  render_inner q e ip = Some t -> t = sql_literal (inner_expected q e ip) /\ notab t = true.
Proof.
  intros W E F R. apply env_ok_parts in E as (SO & NO & _).
  destruct ip as [esc p]. unfold render_inner, inner_wf, inner_expected in *. cbn [fst snd] in *.
  destruct p as [t0|n sch|n|n|]; cbn [render_ipiece] in R.
  - injection R as <-. apply andb_true_iff in F as [F1 F2]. destruct esc.
    + split; [reflexivity | now apply notab_sql_literal].
    + cbn [orb] in F2. apply negb_true_iff in F2. rewrite (sql_literal_id t0 F2). auto.
  - apply andb_true_iff in F as [F1 F2]. subst esc.
    destruct (format_table_name q (flag e n) (slot e n) (sflag e) (schema_if e sch)) as [x|] eqn:FT; [|discriminate]. injection R as <-.
    rewrite (schema_if_forced e n sch F2), FT. split; [reflexivity|].
    apply notab_sql_literal. apply (notab_format_table q _ (slot e n) _ (schema_if e sch) x W (NO n) (schema_if_ok q e sch SO) FT).
  - subst esc. unfold format_column_name in *. destruct (quote_f q (flag e n) (slot e n)) as [x|] eqn:Q; [|discriminate]. injection R as <-.
    split; [reflexivity|]. apply notab_sql_literal. apply (notab_quote_f q _ (slot e n) x W (name_ok_f_notab q _ _ (NO n)) Q).
  - subst esc. injection R as <-. split; [reflexivity|]. apply notab_sql_literal. apply (name_ok_f_notab q _ _ (NO n)).
  - subst esc. injection R as <-. split; [reflexivity|]. apply notab_sql_literal.
    unfold schema_dot, schema_ok in *. destruct (schema_given (e_schema e)) as [s|]; [|reflexivity].
    rewrite notab_app. assert (notab s = true) as ->; [|reflexivity].
    revert SO. generalize (sflag e). intros f SO. destruct f; try (now apply (name_ok_f_notab q _ s SO)).
    assert (H : forallb notab (split_dot s) = true).
    { clear -SO. induction (split_dot s) as [|p r IH]; [reflexivity|]. simpl in *. apply andb_true_iff in SO as [A B].
      now rewrite (name_ok_notab q p A), IH. }
    now apply (notab_split_dot s []) in H as [_ H].
Qed.

Lemma inners_sound q e : qspec_wf q = true -> env_ok q e = true -> forall ps l,
  forallb inner_wf ps = true -> map_opt (render_inner q e) ps = Some l ->
  concat l = sql_literal (concat (map (inner_expected q e) ps)) /\ notab (concat l) = true.
Proof.
  intros W E. induction ps as [|ip ps IH]; intros l F M; simpl in M.
  - injection M as <-. split; reflexivity.
  - destruct (render_inner q e ip) as [t|] eqn:R; [|discriminate].
    destruct (map_opt (render_inner q e) ps) as [l'|] eqn:M'; [|discriminate]. injection M as <-.
    simpl in F. apply andb_true_iff in F as [F1 F2].
    destruct (inner_sound q e ip t W E F1 R) as [T1 T2]. destruct (IH l' F2 eq_refl) as [I1 I2].
    cbn [concat map]. rewrite sql_literal_app, notab_app, <- T1, <- I1, T2, I2. split; reflexivity.
Qed.

(* ------------------------------------------------------------------ one piece *)

Definition is_kw (p:piece) : bool := match p with Kw _ => true | _ => false end.

Lemma nodot_spec e : nodot_schema e = true ->
  sflag e = Plain -> forall s, schema_given (e_schema e) = Some s -> memN 46 s = false.
Proof. unfold nodot_schema. intros H E s G. rewrite E, G in H. now apply negb_true_iff in H. Qed.

Lemma piece_closed q e p t : qspec_wf q = true -> env_ok q e = true -> piece_wf q p = true -> is_kw p = false ->
  (is_tblsa p = true -> nodot_schema e = true) ->
  render_piece q e p = ROk t ->
  closed_lex q t (piece_tokens q e p) /\ notab t = true /\ forallb tok_nospace (piece_tokens q e p) = true.
Proof.
  intros W E F K SA R. pose proof E as E0. apply env_ok_parts in E as (SO & NO & OO).
  assert (TB : forall n sch x, (sch || negb (is_ref n)) = true ->
               format_table_name q (flag e n) (slot e n) (sflag e) (schema_if e sch) = Some x ->
               closed_lex q x (table_tokens q e n sch) /\ notab x = true /\ forallb tok_nospace (table_tokens q e n sch) = true).
  { intros n sch x Fw FT. unfold table_tokens. rewrite <- (schema_if_tokens q e n sch Fw). repeat split.
    + now apply (format_table_closed q _ (slot e n) _ (schema_if e sch) x W (NO n) (schema_if_ok q e sch SO) FT).
    + now apply (format_table_closed q _ (slot e n) _ (schema_if e sch) x W (NO n) (schema_if_ok q e sch SO) FT).
    + apply (notab_format_table q _ (slot e n) _ (schema_if e sch) x W (NO n) (schema_if_ok q e sch SO) FT).
    + rewrite forallb_app, schema_tokens_nospace. cbn [forallb]. now rewrite ident_f_nospace. }
  destruct p as [t0|n sch|n|n|ps|n|i|x]; try discriminate K; cbn [piece_wf render_piece piece_tokens] in *.
  - (* Tbl *)
    destruct (format_table_name q (flag e n) (slot e n) (sflag e) (schema_if e sch)) as [x|] eqn:FT; [|discriminate].
    injection R as <-. now apply TB.
  - (* TblSA *)
    rewrite (format_table_sa_nodot q _ (slot e n) _ (e_schema e) (nodot_spec e (SA eq_refl))) in R.
    change (e_schema e) with (schema_if e true) in R.
    destruct (format_table_name q (flag e n) (slot e n) (sflag e) (schema_if e true)) as [x|] eqn:FT; [|discriminate].
    injection R as <-. now apply TB.
  - (* Col *)
    unfold format_column_name in R. destruct (quote_f q (flag e n) (slot e n)) as [x|] eqn:Q; [|discriminate]. injection R as <-.
    repeat split; try apply (quote_f_closed q _ (slot e n) x W (NO n) Q).
    + apply (notab_quote_f q _ (slot e n) x W (name_ok_f_notab q _ _ (NO n)) Q).
    + cbn [forallb]. now rewrite ident_f_nospace.
  - (* StrLit *)
    apply andb_true_iff in F as [F F3]. apply andb_true_iff in F as [F1 F2]. apply negb_true_iff in F1.
    destruct (map_opt (render_inner q e) ps) as [l|] eqn:M; [|discriminate]. injection R as <-.
    destruct (inners_sound q e W E0 ps l F2 M) as [I1 I2].
    assert (O : (q_open q =? 39) = false).
    { unfold qspec_wf in W. rewrite !andb_true_iff, !negb_true_iff in W. now destruct W as [[[[[_ O] _] _] _] _]. }
    rewrite I1. repeat split; try apply (strlit_closed q _ F1 O).
    rewrite <- I1. cbn [notab forallb]. change (forallb (fun c => negb (c =? 9)) (concat l ++ [39])) with (notab (concat l ++ [39])).
    rewrite notab_app, I2. reflexivity.
  - (* RawName *) discriminate F.
  - (* Opaque *)
    injection R as <-. pose proof (opq_ok q e i OO) as OK. unfold opaque_ok in OK.
    apply andb_true_iff in OK as [OK O3]. apply andb_true_iff in OK as [O1 O2].
    repeat split; auto.
  - (* Fail *) discriminate R.
Qed.

(* ------------------------------------------------------------------ composition *)

Lemma compose q st t rest X :
  pending st = true -> (st = LNormal \/ starts_sep q t = true) -> pending (end_st q t) = true ->
  lex_from q (end_st q t) rest = finish (end_st q t) ++ X ->
  lex_from q st (t ++ rest) = finish st ++ lex q t ++ X
  /\ snd (run_st q st (t ++ rest)) = snd (run_st q (end_st q t) rest).
Proof.
  intros P [->|S] PE H.
  - split.
    + rewrite lex_from_app_normal, H, lex_unfold. cbn [finish app]. now rewrite app_assoc.
    + rewrite run_st_app. reflexivity.
  - split.
    + rewrite (lex_from_app_sep q st t rest P S), H, lex_unfold. now rewrite !app_assoc.
    + rewrite run_st_app, (run_sep q st t P S). reflexivity.
Qed.

Definition abs_ok (a:option lstate) (st:lstate) : Prop := match a with Some s => st = s | None => True end.

Lemma is_normal_abs a st : is_normal a = true -> abs_ok a st -> st = LNormal.
Proof. destruct a as [[]|]; simpl; try discriminate. auto. Qed.

Lemma render_cons q e p r sql : render q e (p :: r) = ROk sql ->
  exists t sql', render_piece q e p = ROk t /\ render q e r = ROk sql' /\ sql = t ++ sql'.
Proof.
  cbn [render]. destruct (render_piece q e p) as [t|]; [|discriminate]. destruct (render q e r) as [sql'|]; [|discriminate].
  intro H. injection H as <-. eauto.
Qed.

Theorem pieces_sound q e : qspec_wf q = true -> env_ok q e = true -> forall v a st sql,
  pending st = true -> abs_ok a st -> wf_go q a v = true -> forallb (piece_wf q) v = true ->
  sa_ok v e = true ->
  render q e v = ROk sql ->
  lex_from q st sql = finish st ++ expected_tokens q e v
  /\ pending (snd (run_st q st sql)) = true
  /\ notab sql = true
  /\ forallb tok_nospace (expected_tokens q e v) = true.
Proof.
  intros W E. induction v as [|p r IH]; intros a st sql P A G F SA R.
  - cbn [render] in R. injection R as <-. rewrite lex_from_unfold. cbn. rewrite app_nil_r. auto.
  - apply render_cons in R as (t & sql' & R1 & R2 & ->).
    cbn [forallb] in F. apply andb_true_iff in F as [F1 F2].
    assert (SA1 : is_tblsa p = true -> nodot_schema e = true).
    { intro T. unfold sa_ok in SA. cbn [existsb] in SA. rewrite T in SA. exact SA. }
    assert (SA2 : sa_ok r e = true).
    { unfold sa_ok in *. cbn [existsb] in SA. destruct (nodot_schema e); [now rewrite orb_true_r|].
      rewrite orb_false_r in *. apply negb_true_iff in SA. apply orb_false_iff in SA as [_ SA]. now rewrite SA. }
    unfold expected_tokens. cbn [flat_map]. fold (expected_tokens q e r).
    destruct (is_kw p) eqn:K.
    + (* alembic's own text *)
      destruct p as [t0| | | | | | |]; try discriminate K. cbn [render_piece] in R1. injection R1 as <-.
      cbn [piece_wf] in F1. apply andb_true_iff in F1 as [N1 N2]. cbn [piece_tokens].
      destruct t0 as [|c t1].
      * cbn [wf_go] in G. cbn [app]. destruct (IH a st sql' P A G F2 SA2 R2) as (I1 & I2 & I3 & I4).
        change (lex q []) with (@nil token). cbn [app]. auto.
      * cbn [wf_go] in G. apply andb_true_iff in G as [G G3]. apply andb_true_iff in G as [G1 G2].
        destruct (IH (Some (end_st q (c :: t1))) (end_st q (c :: t1)) sql' G2 eq_refl G3 F2 SA2 R2) as (I1 & I2 & I3 & I4).
        assert (C : st = LNormal \/ starts_sep q (c :: t1) = true).
        { apply orb_true_iff in G1 as [G1|G1]; [left; now apply (is_normal_abs a) | right; exact G1]. }
        destruct (compose q st (c :: t1) sql' _ P C G2 I1) as [C1 C2].
        rewrite C1, C2, notab_app, N1, I3, forallb_app, N2, I4. auto.
    + (* a name, a literal or an opaque text *)
      assert (G' : is_normal a = true /\ wf_go q None r = true).
      { destruct p; try discriminate K; cbn [wf_go] in G; try (now apply andb_true_iff in G).
        cbn [render_piece] in R1. discriminate R1. }
      destruct G' as [G1 G2]. pose proof (is_normal_abs a st G1 A) as ->.
      destruct (piece_closed q e p t W E F1 K SA1 R1) as ([PC LC] & NT & TN).
      destruct (IH None (end_st q t) sql' PC I G2 F2 SA2 R2) as (I1 & I2 & I3 & I4).
      destruct (compose q LNormal t sql' _ eq_refl (or_introl eq_refl) PC I1) as [C1 C2].
      rewrite C1, C2, LC, notab_app, NT, I3, forallb_app, TN, I4. auto.
Qed.

Lemma render_ok_no_fail q e v sql : render q e v = ROk sql -> raises v = false.
Proof.
  revert sql. induction v as [|p r IH]; intros sql R; [reflexivity|].
  apply render_cons in R as (t & sql' & R1 & R2 & _). unfold raises in *. cbn [existsb]. rewrite (IH sql' R2), orb_false_r.
  destruct p; try reflexivity. discriminate R1.
Qed.

(* ------------------------------------------------------------------ the statement as compiled and as written offline *)

Theorem visitor_sound q e v sql :
  visitor_wf q v = true -> env_ok q e = true -> sa_ok v e = true -> render q e v = ROk sql ->
  lex q sql = expected_tokens q e v /\ pending (end_st q sql) = true /\ notab sql = true
  /\ forallb tok_nospace (expected_tokens q e v) = true /\ raises v = false.
Proof.
  unfold visitor_wf. rewrite !andb_true_iff. intros [[W G] F] E SA R.
  destruct (pieces_sound q e W E v (Some LNormal) LNormal sql eq_refl eq_refl G F SA R) as (A & B & C & D).
  repeat split; auto. eapply render_ok_no_fail; eauto.
Qed.

Lemma tail_facts d : starts_sep (qspec_of d) (offline_tail d) = true /\ pending (end_st (qspec_of d) (offline_tail d)) = true.
Proof. destruct d; split; reflexivity. Qed.

Theorem offline_sound d e v sql :
  visitor_wf (qspec_of d) v = true -> env_ok (qspec_of d) e = true -> sa_ok v e = true ->
  render (qspec_of d) e v = ROk sql ->
  lex (qspec_of d) (offline d sql) = expected_tokens (qspec_of d) e v ++ lex (qspec_of d) (offline_tail d).
Proof.
  intros V E SA R. destruct (visitor_sound _ e v sql V E SA R) as (L & P & NT & TN & _).
  assert (W : qspec_wf (qspec_of d) = true).
  { unfold visitor_wf in V. rewrite !andb_true_iff in V. now destruct V as [[W _] _]. }
  unfold offline. rewrite (replace_tab_id sql NT).
  destruct (strip_lex (qspec_of d) sql W P) as [SP SL]; [now rewrite L|].
  destruct (tail_facts d) as [T1 T2].
  rewrite <- L, <- SL.
  apply (closed_app_sep (qspec_of d) (strip sql) (offline_tail d) _ _ (conj SP eq_refl) T1 (conj T2 eq_refl)).
Qed.
