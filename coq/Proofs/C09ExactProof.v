(* C09 — depth round: reverse is an involution on the nose on exact_class; the names of the
   diff tuples of a reversed operation; decider completeness. *)
From AV Require Import Model.Ops Spec.C09 Proofs.OpsProof.

(* ------------------------------------------------------------------ reverse (reverse o) = o *)

Lemma map_fixed_idem {A} (f : A -> A) l : l = map f l -> (forall a, f (f a) = f a) -> map f l = l.
Proof. intros H _. symmetry. exact H. Qed.

Lemma stable_truthy_s x : stable_s (truthy_s x) = true.
Proof. destruct x as [[|]|]; reflexivity. Qed.
Lemma from_constraint_stable c : addcons_stable (from_constraint c) = true.
Proof.
  destruct c as [n t s cs k|n t s cs d i k|n t s cs rt rs rcs o k|n t s c k]; cbn; auto using stable_truthy_s.
  unfold fkopts_stable; cbn. rewrite !stable_truthy_s. reflexivity.
Qed.

Lemma reverse_twice_exact o : exact_class o = true -> bind (reverse o) reverse = Ok o.
Proof.
  destruct o; cbn [exact_class reverse bind]; intros H; try discriminate.
  - (* AddConstraintOp *)
    unfold drop_from_constraint. cbn [reverse bind].
    rewrite (from_to_constraint_stable _ H), retarget_self, (from_to_constraint_stable _ H). reflexivity.
  - (* DropConstraintOp *)
    destruct rev as [a|]; [|discriminate]. apply andb_true_iff in H as [H1 H2].
    apply decb_true in H1. apply decb_true in H2. subst ty. cbn [reverse bind]. unfold drop_from_constraint.
    rewrite H2.
    assert (Hn : constr_name (to_constraint a) = name /\ constr_table (to_constraint a) = table /\ constr_schema (to_constraint a) = schema).
    { rewrite <- H2 at 1 2 3. clear H2.
      destruct a as [n t cs s k|n t cs s d i k|n src ref lc rc ss rs o k|n t c s k]; cbn; auto.
      destruct (list_eqb N.eqb src ref && optstr_eqb ss rs); cbn; auto. }
    destruct Hn as (-> & -> & ->).
    assert (Hst : addcons_stable a = true) by (rewrite <- H2; apply from_constraint_stable).
    rewrite (from_to_constraint_stable _ Hst). reflexivity.
  - (* CreateIndexOp *)
    destruct c as [n t cs s u ine kw]. cbn in H. apply andb_true_iff in H as [H1 H2].
    destruct ine; [discriminate|]. destruct t; [discriminate|]. reflexivity.
  - (* DropIndexOp *)
    destruct table as [t|]; [|discriminate]. destruct if_exists; [discriminate|]. destruct kw_unique as [u|]; [|discriminate].
    destruct rev as [r|]; [|discriminate]. apply andb_true_iff in H as [H1 H2]. apply decb_true in H2.
    destruct t as [|x t]; [discriminate|]. cbn. unfold drop_from_index, from_index, to_index, drop_to_index; cbn.
    rewrite H2 at 2. cbn. reflexivity.
  - (* CreateTableOp *)
    destruct if_not_exists; [discriminate|]. destruct constraints_included; [|discriminate].
    apply decb_true in H. cbn. unfold drop_from_table, create_from_table, create_to_table, drop_to_table, flags_off; cbn.
    rewrite H at 1. cbn. rewrite !map_onto_table_idem, !map_clear_flags_idem.
    f_equal. symmetry. rewrite H at 1. cbn. reflexivity.
  - (* DropTableOp *)
    destruct if_exists; [discriminate|]. destruct rev as [r|]; [|discriminate].
    apply andb_true_iff in H as [H H3]. apply andb_true_iff in H as [H1 H2].
    apply decb_true in H2. apply decb_true in H3. destruct r as [cols cons ci]. cbn in *. subst ci.
    unfold create_from_table, drop_from_table, create_to_table, drop_to_table, flags_off; cbn.
    rewrite !map_onto_table_idem, !map_clear_flags_idem. rewrite <- H2, <- H3. reflexivity.
  - (* CreateTableCommentOp *)
    destruct existing_comment as [e|]; cbn.
    + destruct comment as [c|]; [reflexivity|discriminate].
    + reflexivity.
  - (* DropTableCommentOp *) reflexivity.
  - (* AlterColumnOp *) cbn. rewrite alter_reverse_involutive; auto.
  - (* AddColumnOp *) reflexivity.
  - (* DropColumnOp *)
    destruct rev as [[[t0 c] s0]|]; [|discriminate].
    apply andb_true_iff in H as [H H4]. apply andb_true_iff in H as [H H3]. apply andb_true_iff in H as [H1 H2].
    apply N.eqb_eq in H1. apply decb_true in H2. apply decb_true in H3. apply decb_true in H4. subst. reflexivity.
Qed.

(* what reverse() builds out of an operation made by a from_* constructor is again of that shape:
   on these the third reversal gives back the first *)
Lemma reverse_thrice o o' : exact_class o = true -> reverse o = Ok o' -> bind (reverse o') reverse = Ok o'.
Proof.
  intros He Hr. pose proof (reverse_twice_exact _ He) as H. rewrite Hr in H. cbn [bind] in H.
  rewrite H. cbn [bind]. exact Hr.
Qed.

(* inside roundtrip_safe but outside exact_class equality on the nose fails although the DDL is the same:
   DropColumnOp('t', 'zz', _reverse=AddColumnOp('t', Column('a', ..))) comes back with column_name 'a' *)
Definition w_inexact : op := DropColumnOp [116%N] [122; 122]%N None 0%N (Some ([116%N], mkCol [97%N] 1%N true None None false false, None)).
Lemma inexact_witness : roundtrip_safe w_inexact = true /\ exact_class w_inexact = false /\
  exists o'', bind (reverse w_inexact) reverse = Ok o'' /\ o'' <> w_inexact /\ ddl_equiv o'' w_inexact.
Proof. split; [reflexivity|]. split; [reflexivity|]. eexists. split; [reflexivity|]. split; [discriminate|reflexivity]. Qed.

(* ------------------------------------------------------------------ names of the diff tuples *)

Lemma alter_diffs_tags a : alter_has_existing a = true ->
  map adiff_tag (alter_diffs (alter_reverse a)) = map adiff_tag (alter_diffs a).
Proof.
  destruct a as [t c s et es en ec mn mc ms mname mt kw]. unfold alter_has_existing; cbn.
  intros H. apply andb_true_iff in H as [H H3]. apply andb_true_iff in H as [H1 H2].
  unfold alter_reverse, alter_diffs; cbn.
  destruct mt as [mt|], et as [et|]; cbn in H1; try discriminate;
  destruct mn as [mn|], en as [en|]; cbn in H2; try discriminate;
  destruct ms as [|ms], es as [|es]; cbn in H3; try discriminate;
  destruct mc as [|mc]; destruct mname as [mname|]; reflexivity.
Qed.

Lemma reverse_diff_tags o o' d : roundtrip_safe o = true -> reverse o = Ok o' -> to_diff_tuple o = Ok d ->
  exists d', to_diff_tuple o' = Ok d' /\ map comment_family (diff_tags d') = map comment_family (map inverse_tag (diff_tags d)).
Proof.
  destruct o; cbn [roundtrip_safe reverse to_diff_tuple]; intros Hs Hr Hd; try discriminate.
  - (* AddConstraintOp *)
    inversion Hr; subst; clear Hr. inversion Hd; subst; clear Hd. unfold drop_from_constraint. cbn [to_diff_tuple].
    rewrite (from_to_constraint_stable _ Hs). eexists; split; [reflexivity|].
    destruct a; reflexivity.
  - (* DropConstraintOp *)
    destruct rev as [a|]; [|discriminate]. apply decb_true in Hs. subst ty.
    inversion Hr; subst; clear Hr. inversion Hd; subst; clear Hd. cbn [to_diff_tuple]. eexists; split; [reflexivity|].
    destruct a as [n t cs s k|n t cs s d0 i k|n src ref lc rc ss rs o k|n t c s k]; cbn; try reflexivity.
    destruct (list_eqb N.eqb src ref && optstr_eqb ss rs); reflexivity.
  - inversion Hr; inversion Hd; subst. eexists; split; reflexivity.
  - inversion Hr; inversion Hd; subst. eexists; split; reflexivity.
  - inversion Hr; inversion Hd; subst. eexists; split; reflexivity.
  - inversion Hr; inversion Hd; subst. eexists; split; reflexivity.
  - destruct existing_comment; inversion Hr; inversion Hd; subst; eexists; split; reflexivity.
  - inversion Hr; inversion Hd; subst. eexists; split; reflexivity.
  - inversion Hr; inversion Hd; subst. eexists; split; [reflexivity|]. cbn [diff_tags].
    rewrite (alter_diffs_tags _ Hs). f_equal. rewrite map_map. apply map_ext. intros d; destruct d; reflexivity.
  - inversion Hr; inversion Hd; subst. eexists; split; reflexivity.
  - destruct rev as [[[? ?] ?]|]; [|discriminate]. inversion Hr; inversion Hd; subst. eexists; split; reflexivity.
Qed.

(* ------------------------------------------------------------------ the diff tuples of the reversal are the inverse tuples *)

Lemma table_or_no_table_idem' t : table_or_no_table (table_or_no_table t) = table_or_no_table t.
Proof. destruct t; reflexivity. Qed.

Lemma decb_refl {A} (d : forall a b : A, {a = b} + {a <> b}) a : decb d a a = true.
Proof. apply decb_true. reflexivity. Qed.

Lemma alter_inv_diff a : alter_has_existing a = true ->
  inv_diffb (DfAlter (alter_diffs a)) (DfAlter (alter_diffs (alter_reverse a))) = true.
Proof.
  destruct a as [t c s et es en ec mn mc ms mname mt kw]. unfold alter_has_existing; cbn [ac_modify_type ac_existing_type ac_modify_nullable
    ac_existing_nullable ac_modify_server_default ac_existing_server_default].
  intros H. apply andb_true_iff in H as [H H3]. apply andb_true_iff in H as [H1 H2].
  destruct mt as [mt|], et as [et|]; cbn in H1; try discriminate;
  destruct mn as [mn|], en as [en|]; cbn in H2; try discriminate;
  destruct ms as [|ms], es as [|es]; cbn in H3; try discriminate;
  destruct mc as [|mc]; destruct mname as [mname|];
  cbn; first [reflexivity | apply decb_refl].
Qed.

Lemma reverse_inv_diff o o' d : diff_safe o = true -> reverse o = Ok o' -> to_diff_tuple o = Ok d ->
  exists d', to_diff_tuple o' = Ok d' /\ inv_diffb d d' = true.
Proof.
  unfold diff_safe. destruct o; cbn [roundtrip_safe reverse to_diff_tuple]; intros Hs Hr Hd; try discriminate;
    apply andb_true_iff in Hs as [Hs Hs2].
  - (* AddConstraintOp *)
    inversion Hr; subst; clear Hr. inversion Hd; subst; clear Hd. unfold drop_from_constraint. cbn [to_diff_tuple].
    rewrite (from_to_constraint_stable _ Hs), retarget_self. eexists; split; [reflexivity|].
    destruct a; cbn; apply decb_refl.
  - (* DropConstraintOp *)
    destruct rev as [a|]; [|discriminate]. apply decb_true in Hs. subst ty.
    inversion Hr; subst; clear Hr. inversion Hd; subst; clear Hd. cbn [to_diff_tuple]. eexists; split; [reflexivity|].
    destruct a as [n t cs s k|n t cs s d0 i k|n src ref lc rc ss rs o k|n t c s k]; cbn in Hs2 |- *.
    + apply decb_refl.
    + rewrite (truthy_s_stable _ Hs2). apply decb_refl.
    + destruct o as [ou od oi om odf]. unfold fkopts_stable in Hs2. cbn in Hs2.
      apply andb_true_iff in Hs2 as [Hs2 H4]. apply andb_true_iff in Hs2 as [Hs2 H3]. apply andb_true_iff in Hs2 as [H1 H2].
      destruct (list_eqb N.eqb src ref && optstr_eqb ss rs); cbn;
        rewrite (truthy_s_stable _ H1), (truthy_s_stable _ H2), (truthy_s_stable _ H3), (truthy_s_stable _ H4); apply decb_refl.
    + apply decb_refl.
  - (* CreateIndexOp *)
    inversion Hr; inversion Hd; subst. eexists; split; [reflexivity|]. destruct c as [n t cs s u ine kw]; cbn.
    unfold drop_to_index, to_index; cbn. rewrite table_or_no_table_idem'. apply decb_refl.
  - (* DropIndexOp *)
    inversion Hr; inversion Hd; subst. eexists; split; [reflexivity|]. cbn. unfold drop_to_index, to_index; cbn.
    destruct table as [tb|]; cbn; rewrite ?table_or_no_table_idem'; apply decb_refl.
  - (* CreateTableOp *)
    apply andb_true_iff in Hs as [Hs Hi]. destruct (t_idx t) eqn:Ei; [|discriminate].
    inversion Hr; inversion Hd; subst. eexists; split; [reflexivity|]. cbn.
    unfold erase_flags, create_to_table, drop_to_table; cbn. rewrite Ei. cbn.
    rewrite !map_onto_table_idem. repeat (rewrite ?map_clear_flags_off, ?map_clear_flags_idem; cbn [flags_off]). apply decb_refl.
  - (* DropTableOp *)
    inversion Hr; inversion Hd; subst. eexists; split; [reflexivity|]. cbn.
    unfold erase_flags, create_to_table, drop_to_table; cbn.
    destruct rev as [r|]; cbn; rewrite ?map_onto_table_idem; repeat (rewrite ?map_clear_flags_off, ?map_clear_flags_idem; cbn [flags_off]); apply decb_refl.
  - (* CreateTableCommentOp *)
    destruct existing_comment as [e|]; inversion Hr; inversion Hd; subst; eexists; (split; [reflexivity|]); cbn;
      rewrite ?decb_refl; reflexivity.
  - (* DropTableCommentOp *)
    inversion Hr; inversion Hd; subst. eexists; split; [reflexivity|]. cbn. rewrite !decb_refl. reflexivity.
  - (* AlterColumnOp *)
    inversion Hr; inversion Hd; subst. eexists; split; [reflexivity|]. apply alter_inv_diff; auto.
  - (* AddColumnOp *)
    inversion Hr; inversion Hd; subst. eexists; split; [reflexivity|]. cbn. rewrite !decb_refl. reflexivity.
  - (* DropColumnOp *)
    destruct rev as [[[? ?] ?]|]; [|discriminate]. inversion Hr; inversion Hd; subst. eexists; split; [reflexivity|].
    cbn. rewrite !decb_refl. reflexivity.
Qed.

Lemma mapM_app {A B} (f : A -> res B) l1 l2 r1 r2 :
  mapM f l1 = Ok r1 -> mapM f l2 = Ok r2 -> mapM f (l1 ++ l2) = Ok (r1 ++ r2).
Proof.
  revert r1; induction l1 as [|x l IH]; intros r1 H1 H2; cbn in *.
  - inversion H1; subst. exact H2.
  - destruct (f x) as [y|e]; cbn in *; [|discriminate]. destruct (mapM f l) as [ys|e] eqn:E; cbn in *; [|discriminate].
    inversion H1; subst. rewrite (IH _ eq_refl H2). reflexivity.
Qed.
Lemma mapM_rev {A B} (f : A -> res B) l r : mapM f l = Ok r -> mapM f (rev l) = Ok (rev r).
Proof.
  revert r; induction l as [|x l IH]; intros r H; cbn in *.
  - inversion H; reflexivity.
  - destruct (f x) as [y|e] eqn:Ex; cbn in *; [|discriminate]. destruct (mapM f l) as [ys|e] eqn:E; cbn in *; [|discriminate].
    inversion H; subst. cbn. apply mapM_app; auto. cbn. rewrite Ex. reflexivity.
Qed.
Lemma mapM_length {A B} (f : A -> res B) l r : mapM f l = Ok r -> length r = length l.
Proof. intros H. apply mapM_Forall2 in H. induction H; cbn; auto. Qed.

Lemma list_inv_diff l l' ds :
  forallb diff_safe l = true -> Forall2 (fun o o' => reverse o = Ok o') l l' -> mapM to_diff_tuple l = Ok ds ->
  exists ds', mapM to_diff_tuple l' = Ok ds' /\ Forall2 inv_diff ds ds'.
Proof.
  intros Hs Hr. revert ds. induction Hr as [|o o' l l' Ho _ IH]; intros ds Hd; cbn in *.
  - inversion Hd; subst. exists []. split; constructor.
  - apply andb_true_iff in Hs as [Hs1 Hs2].
    destruct (to_diff_tuple o) as [d|e] eqn:Ed; cbn in Hd; [|discriminate].
    destruct (mapM to_diff_tuple l) as [r|e] eqn:Er; cbn in Hd; [|discriminate]. inversion Hd; subst.
    destruct (reverse_inv_diff _ _ _ Hs1 Ho Ed) as (d' & Hd' & Hi). destruct (IH Hs2 _ eq_refl) as (r' & Hr' & Hf).
    exists (d' :: r'). rewrite Hd', Hr'. split; [reflexivity|]. constructor; auto.
Qed.

Lemma top_inv_diff x x' ds : diff_safe_top x = true -> reverse_top x = Ok x' -> as_diffs [x] = Ok ds ->
  exists ds', as_diffs [x'] = Ok ds' /\ Forall2 inv_diff (rev ds) ds'.
Proof.
  unfold as_diffs. destruct x as [o|t s l]; cbn [diff_safe_top reverse_top mapM]; intros Hs Hr Hd.
  - destruct (reverse o) as [o'|e] eqn:Ho; cbn in Hr; [|discriminate]. inversion Hr; subst; clear Hr.
    destruct (to_diff_tuple o) as [d|e] eqn:Ed; cbn in Hd; [|discriminate]. inversion Hd; subst; clear Hd.
    destruct (reverse_inv_diff _ _ _ Hs Ho Ed) as (d' & Hd' & Hi). cbn. rewrite Hd'. cbn.
    exists [d']. split; [reflexivity|]. constructor; [exact Hi|constructor].
  - unfold reverse_list in Hr. destruct (mapM reverse l) as [l'|e] eqn:Hm; cbn in Hr; [|discriminate].
    inversion Hr; subst; clear Hr. apply mapM_Forall2 in Hm.
    destruct (mapM to_diff_tuple l) as [r|e] eqn:Er; cbn in Hd; [|discriminate]. inversion Hd; subst; clear Hd.
    destruct (list_inv_diff _ _ _ Hs Hm Er) as (r' & Hr' & Hf).
    cbn. rewrite (mapM_rev _ _ _ Hr'). cbn. exists (rev r' ++ []). split; [reflexivity|].
    rewrite !app_nil_r. apply Forall2_rev. exact Hf.
Qed.

Lemma as_diffs_length x ds : as_diffs [x] = Ok ds -> length ds = leaf_count x.
Proof.
  unfold as_diffs. destruct x as [o|t s l]; cbn [mapM leaf_count]; intros H.
  - destruct (to_diff_tuple o); cbn in H; [|discriminate]. inversion H; reflexivity.
  - destruct (mapM to_diff_tuple l) as [r|e] eqn:E; cbn in H; [|discriminate]. inversion H; subst.
    rewrite app_nil_r. eapply mapM_length; eauto.
Qed.

(* ------------------------------------------------------------------ decider completeness *)

Lemma Forall2_forall2b {A} (f : A -> A -> bool) (R : A -> A -> Prop) :
  (forall a b, R a b -> f a b = true) -> forall l l', Forall2 R l l' -> forall2b f l l' = true.
Proof. intros Hf l l'. induction 1 as [|x y r r' Hx _ IH]; cbn; auto. rewrite (Hf _ _ Hx), IH. reflexivity. Qed.

Lemma ddl_equivb_complete a b : ddl_equiv a b -> ddl_equivb a b = true.
Proof. unfold ddl_equivb, ddl_equiv. apply decb_true. Qed.

Lemma ddl_equivb_top_complete a b : ddl_equiv_top a b -> ddl_equivb_top a b = true.
Proof.
  destruct a as [x|t s l], b as [y|t' s' l']; cbn [ddl_equivb_top ddl_equiv_top]; try tauto.
  - apply ddl_equivb_complete.
  - intros (-> & -> & H). rewrite (proj2 (decb_true str_eq_dec t' t') eq_refl), (proj2 (decb_true ostr_eq_dec s' s') eq_refl).
    cbn. eapply Forall2_forall2b; [|exact H]. apply ddl_equivb_complete.
Qed.

Lemma restoresb_complete tables up down : restores tables up down -> restoresb tables up down = true.
Proof.
  intros (d & B & -> & Hk & Hap & Hback & Hu). unfold restoresb. rewrite Hap, Hu.
  rewrite (proj2 (decb_true _ _ _) Hk), (proj2 (decb_true _ _ _) Hback). reflexivity.
Qed.

Lemma check_C09_complete i o : C09_holds i o -> check_C09 i o = true.
Proof.
  destruct i as [x|up|tables up|tables t s ch], o as [r rr df dfr sql|down|down upup ok|up' down]; cbn [check_C09 C09_holds]; try tauto.
  - intros (H1 & H2 & H3 & H4). repeat (apply andb_true_iff; split).
    + destruct r as [x'|e]; auto. apply decb_true. apply H1; reflexivity.
    + destruct rr as [x''|e]; auto. destruct (H2 _ eq_refl) as [He Hs]. rewrite (ddl_equivb_top_complete _ _ He), Hs. reflexivity.
    + destruct df as [ds|e]; auto. destruct dfr as [ds'|e]; auto.
      eapply Forall2_forall2b; [|exact (H3 _ _ eq_refl eq_refl)]. intros a b Hab; exact Hab.
    + destruct df as [ds|e]; auto. apply Nat.eqb_eq. apply H4; reflexivity.
  - intros [H1 H2]. apply andb_true_iff; split.
    + destruct down as [d|e]; auto. destruct (H1 _ eq_refl) as [Hk ->]. rewrite (proj2 (decb_true _ _ _) Hk). reflexivity.
    + destruct upup as [u|e]; auto. eapply Forall2_forall2b; [|exact (H2 _ eq_refl)]. apply ddl_equivb_top_complete.
  - apply restoresb_complete.
  - apply restoresb_complete.
Qed.
