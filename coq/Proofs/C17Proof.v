(* C17: the model of a whole sequence of accepted calls satisfies the property on the class. *)
From Coq Require Import String.
From AV Require Import Model.RevHeader Model.Incremental Spec.C17 Proofs.RenderProof Proofs.RevHeaderProof Proofs.IncrementalProof.
Open Scope N_scope.

Lemma fields_eqb_eq a b : fields_eqb a b = true -> a = b.
Proof.
  destruct a, b. unfold fields_eqb. cbn. rewrite !andb_true_iff. intros [[[H1 H2] H3] H4].
  assert (L: forall x y, list_eqb str_eqb x y = true -> x = y).
  { induction x as [|a x IH]; destruct y as [|b y]; cbn; try discriminate; auto. rewrite andb_true_iff. intros [E1 E2].
    apply str_eqb_eq in E1. subst. f_equal. auto. }
  apply str_eqb_eq in H1. apply L in H2, H3, H4. subst. reflexivity.
Qed.

Lemma path_eqb_sym a b : path_eqb a b = path_eqb b a.
Proof. unfold path_eqb. revert b. induction a as [|x a IH]; destruct b as [|y b]; cbn; auto. rewrite N.eqb_sym, IH. reflexivity. Qed.

(* an accepted version_path is a configured location, hence a directory that a reload scans *)
Theorem accepted_is_scanned rec locs p : accept_path locs p = true -> scanned rec locs p = true.
Proof.
  unfold accept_path, scanned. rewrite !existsb_exists. intros [l [Hl E]]. exists l. split; [exact Hl|].
  rewrite path_eqb_sym, E. reflexivity.
Qed.

Theorem decider_sound : forall i o, check_C17 i o = true -> C17_holds i o.
Proof.
  induction i as [|s i IH]; destruct o as [|x o]; cbn [check_C17]; try discriminate; intros H; [constructor|].
  apply andb_true_iff in H. destruct H as [Hs Hr]. constructor; [|apply IH; exact Hr].
  unfold check_step in Hs. unfold step_holds. destruct (so_rejected x). { apply negb_true_iff in Hs. exact Hs. }
  rewrite !andb_true_iff in Hs. destruct Hs as [[[[H0 H1] H2] H3] H4].
  destruct (read_header (so_header x)) as [f|]; [|discriminate]. apply fields_eqb_eq in H1. subst f.
  split; [exact H0|]. split; [reflexivity|]. split; [exact H2|]. split; [exact H3|].
  destruct (so_views x) as [[a b]|]; [|discriminate]. exists a, b. auto.
Qed.

Lemma model_steps_holds : forall l G L, load G = MOk L -> wf_hist_from G (map s_rev (filter accepts l)) = true -> forallb step_class l = true ->
  C17_holds l (model_steps (MOk L) G l).
Proof.
  induction l as [|s l IH]; intros G L HL W C; [constructor|].
  cbn [forallb] in C. apply andb_true_iff in C. destruct C as [C1 C2].
  cbn [model_steps filter] in *. destruct (accepts s) eqn:A; cbn [negb].
  2:{ constructor; [unfold step_holds; reflexivity|]. apply IH; assumption. }
  cbn [map wf_hist_from] in W. apply andb_true_iff in W. destruct W as [W1 W2].
  unfold step_class in C1. rewrite !andb_true_iff in C1. destruct C1 as [[[[V1 V2] V3] V4] V5].
  cbn [model_step].
  pose proof (incremental G (s_rev s) L HL W1) as INC.
  destruct (add_revision_ok G (s_rev s) L HL W1) as [L' HL'].
  rewrite (docstring_safe _ [] V5). cbn [so_module_ok]. rewrite HL'. rewrite <- INC, HL'. cbn [res_view].
  constructor.
  - unfold step_holds. cbn [so_header so_loaded so_module_ok so_views so_rejected so_dir].
    split; [apply accepted_is_scanned; exact A|].
    split; [apply header_roundtrip; assumption|]. split; [reflexivity|]. split; [reflexivity|].
    exists (view_of L'), (view_of L'). split; [reflexivity|]. apply view_eqb_refl.
    rewrite INC in HL'. apply (load_ids_nodup _ _ HL').
  - apply IH; [rewrite <- INC; exact HL'|exact W2|exact C2].
Qed.

Theorem model_holds i : inclass_C17 i = true -> C17_holds i (model_C17 i).
Proof.
  unfold inclass_C17, model_C17. intros H. apply andb_true_iff in H. destruct H as [W C].
  assert (E: load [] = MOk (mkMap [] [] [] [] [] [] [] [])) by reflexivity. rewrite E.
  apply model_steps_holds; assumption.
Qed.
