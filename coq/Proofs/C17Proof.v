(* C17: the model of a whole sequence of accepted calls satisfies the property on the class. *)
From Coq Require Import String.
From AV Require Import Model.RevHeader Model.Incremental Spec.C17 Proofs.RenderProof Proofs.RevHeaderProof Proofs.IncrementalProof.
Open Scope N_scope.

Lemma fields_eqb_eq a b : fields_eqb a b = true -> a = b.
Proof.
  destruct a, b. unfold fields_eqb. cbn. rewrite !andb_true_iff. intros [[[H1 H2] H3] H4].
  assert (L: forall x y, list_eqb str_eqb x y = true -> x = y).
  { induction x as [|a x IH]; destruct y as [|b y]; cbn; try discriminate; auto. rewrite andb_true_iff. intros [E1 E2].
    apply str_eqb_eq in E1. subst. f_equal. auto. }
  apply str_eqb_eq in H1. apply L in H2, H3, H4. subst. reflexivity.
Qed.

Lemma path_eqb_sym a b : path_eqb a b = path_eqb b a.
Proof. unfold path_eqb. revert b. induction a as [|x a IH]; destruct b as [|y b]; cbn; auto. rewrite N.eqb_sym, IH. reflexivity. Qed.

(* an accepted version_path is a configured location, hence a directory that a reload scans *)
Theorem accepted_is_scanned rec locs p : accept_path locs p = true -> scanned rec locs p = true.
Proof.
  unfold accept_path, scanned. rewrite !existsb_exists. intros [l [Hl E]]. exists l. split; [exact Hl|].
  rewrite path_eqb_sym, E. reflexivity.
Qed.

Lemma fields_eqb_refl a : fields_eqb a a = true.
Proof.
  unfold fields_eqb. rewrite RenderProof.str_eqb_refl.
  rewrite !RenderProof.list_eqb_refl by apply RenderProof.str_eqb_refl. reflexivity.
Qed.

Lemma steps_sound : forall i o, check_steps i o = true -> Forall2 step_holds i o.
Proof.
  induction i as [|s i IH]; destruct o as [|x o]; cbn [check_steps]; try discriminate; intros H; [constructor|].
  apply andb_true_iff in H. destruct H as [Hs Hr]. constructor; [|apply IH; exact Hr].
  unfold check_step in Hs. unfold step_holds. destruct (so_rejected x). { apply negb_true_iff in Hs. exact Hs. }
  rewrite !andb_true_iff in Hs. destruct Hs as [[[[[H0 HL] H1] H2] H3] H4].
  destruct (read_header (so_header x)) as [f|]; [|discriminate]. apply fields_eqb_eq in H1. subst f.
  split; [exact H0|]. split; [exact HL|]. split; [reflexivity|]. split; [exact H2|]. split; [exact H3|].
  destruct (so_views x) as [[a b]|]; [|discriminate]. exists a, b. auto.
Qed.
Lemma steps_complete : forall i o, Forall2 step_holds i o -> check_steps i o = true.
Proof.
  induction 1 as [|s x i o Hs _ IH]; [reflexivity|]. cbn [check_steps]. rewrite IH, andb_true_r.
  unfold step_holds in Hs. unfold check_step. destruct (so_rejected x). { rewrite Hs. reflexivity. }
  destruct Hs as [H0 [HL [H1 [H2 [H3 [a [b [Hv Hab]]]]]]]]. rewrite H0, HL, H1, H2, H3, Hv, Hab, fields_eqb_refl. reflexivity.
Qed.

Theorem decider_sound : forall i o, check_C17 i o = true -> C17_holds i o.
Proof. unfold check_C17, C17_holds. intros i o H. apply andb_true_iff in H. destruct H as [H1 H2]. split; [apply steps_sound; exact H1|exact H2]. Qed.
Theorem decider_complete : forall i o, C17_holds i o -> check_C17 i o = true.
Proof. unfold check_C17, C17_holds. intros i o [H1 H2]. rewrite (steps_complete _ _ H1), H2. reflexivity. Qed.

Lemma path_eqb_refl a : path_eqb a a = true.
Proof. unfold path_eqb. apply RenderProof.list_eqb_refl, N.eqb_refl. Qed.
Lemma file_eqb_sym a b : file_eqb a b = file_eqb b a.
Proof.
  unfold file_eqb. rewrite (path_eqb_sym (fst a)). f_equal. apply (path_eqb_sym (snd a) (snd b)).
Qed.

(* the model's outputs on a sequence in the class: every step holds, and the files written are the ones computed from the inputs *)
Lemma model_steps_holds : forall l G L fs, load G = MOk L -> wf_hist_from G (map s_rev (filter accepts l)) = true -> forallb step_class l = true ->
  forallb (fun f => loadable_name (snd f)) (in_files l) = true ->
  files_nodupb (in_files l) = true -> forallb (fun f => negb (existsb (file_eqb f) fs)) (in_files l) = true ->
  Forall2 step_holds l (model_steps (MOk L) G fs l) /\ out_files (model_steps (MOk L) G fs l) = in_files l.
Proof.
  induction l as [|s l IH]; intros G L fs HL W C LD ND NF; [split; [constructor|reflexivity]|].
  cbn [forallb] in C. apply andb_true_iff in C. destruct C as [C1 C2].
  unfold in_files in *. cbn [model_steps filter] in *. destruct (accepts s) eqn:A; cbn [negb].
  2:{ destruct (IH G L fs HL W C2 LD ND NF) as [I1 I2]. split; [constructor; [unfold step_holds; reflexivity|exact I1]|].
      unfold out_files in *. cbn [filter rejected_out so_rejected negb]. exact I2. }
  cbn [map wf_hist_from forallb files_nodupb fst snd] in W, LD, ND, NF.
  apply andb_true_iff in W, LD, ND, NF. destruct W as [W1 W2], LD as [LD1 LD2], ND as [ND1 ND2], NF as [NF1 NF2].
  apply negb_true_iff in NF1. rewrite NF1. rewrite LD1. cbn [negb].
  unfold step_class in C1. rewrite !andb_true_iff in C1. destruct C1 as [[[[V1 V2] V3] V4] V5].
  cbn [model_step].
  pose proof (incremental G (s_rev s) L HL W1) as INC.
  destruct (add_revision_ok G (s_rev s) L HL W1) as [L' HL'].
  rewrite (docstring_safe _ [] V5). cbn [so_module_ok]. rewrite HL'. rewrite <- INC, HL'. cbn [res_view has_views so_views andb].
  assert (HL2: load (G ++ [s_rev s]) = MOk L') by (rewrite <- INC; exact HL').
  assert (NF': forallb (fun f => negb (existsb (file_eqb f) ((s_vp s, step_file s) :: fs)))
                       (map (fun s0 => (s_vp s0, step_file s0)) (filter accepts l)) = true).
  { apply forallb_forall. intros g Hg. cbn [existsb]. rewrite forallb_forall in NF2. specialize (NF2 g Hg). apply negb_true_iff in NF2. rewrite NF2, orb_false_r.
    apply negb_true_iff. apply negb_true_iff in ND1. rewrite file_eqb_sym.
    destruct (file_eqb (s_vp s, step_file s) g) eqn:E; [|reflexivity].
    exfalso. assert (X: existsb (file_eqb (s_vp s, step_file s)) (map (fun s0 => (s_vp s0, step_file s0)) (filter accepts l)) = true).
    { apply existsb_exists. exists g. split; assumption. } rewrite X in ND1. discriminate. }
  destruct (IH _ _ _ HL2 W2 C2 LD2 ND2 NF') as [I1 I2]. split.
  - constructor; [|exact I1]. unfold step_holds. cbn [so_header so_loaded so_module_ok so_views so_rejected so_dir so_file].
    split; [apply accepted_is_scanned; exact A|]. split; [exact LD1|].
    split; [apply header_roundtrip; assumption|]. split; [reflexivity|]. split; [reflexivity|].
    exists (view_of L'), (view_of L'). split; [reflexivity|]. apply view_eqb_refl. apply (load_ids_nodup _ _ HL2).
  - unfold out_files in *. cbn [filter so_rejected negb map so_dir so_file]. rewrite I2. reflexivity.
Qed.

Theorem model_holds i : inclass_C17 i = true -> C17_holds i (model_C17 i).
Proof.
  unfold inclass_C17, model_C17, names_class. intros H. rewrite !andb_true_iff in H. destruct H as [[W C] [N1 N2]].
  assert (E: load [] = MOk (mkMap [] [] [] [] [] [] [] [])) by reflexivity. rewrite E.
  assert (NF: forallb (fun f => negb (existsb (file_eqb f) [])) (in_files i) = true) by (apply forallb_forall; intros; reflexivity).
  destruct (model_steps_holds i [] _ [] E W C N1 N2 NF) as [I1 I2]. split; [exact I1|]. rewrite I2. exact N2.
Qed.
