(* C14 — lemmas about the lexer, quoting and literals (all strings, all qspecs). *)
From Coq Require Import List NArith Bool Arith Lia.
From AV Require Import Spec.C14.
Import ListNotations.
Open Scope N_scope.

(* ------------------------------------------------------------------ basics *)

Lemma str_eqb_eq a b : str_eqb a b = true <-> a = b.
Proof. apply list_eqbN_eq. Qed.

Lemma token_eqb_eq a b : token_eqb a b = true <-> a = b.
Proof.
  destruct a, b; simpl; try (split; [discriminate | intro H; discriminate H]);
    try (rewrite str_eqb_eq; split; [intros ->; reflexivity | intro H; injection H; auto]).
  - rewrite N.eqb_eq. split; [intros ->; reflexivity | intro H; injection H; auto].
  - split; auto.
Qed.

Lemma tokens_eqb_eq a b : tokens_eqb a b = true <-> a = b.
Proof.
  unfold tokens_eqb. revert b. induction a as [|x a IH]; destruct b as [|y b]; simpl; try (split; [discriminate | intro H; discriminate H]).
  - split; auto.
  - rewrite andb_true_iff, token_eqb_eq, IH. split; [intros [-> ->]; reflexivity | intro H; injection H; auto].
Qed.

Lemma emit_emit o1 o2 r : emit o1 (emit o2 r) = emit (o1 ++ o2) r.
Proof. unfold emit; simpl. now rewrite app_assoc. Qed.
Lemma emit_nil r : emit [] r = r.
Proof. destruct r; reflexivity. Qed.

Lemma run_st_cons q st c r : run_st q st (c :: r) = emit (fst (step q st c)) (run_st q (snd (step q st c)) r).
Proof. simpl. destruct (step q st c); reflexivity. Qed.

Lemma run_st_app q a : forall st b,
  run_st q st (a ++ b) = emit (fst (run_st q st a)) (run_st q (snd (run_st q st a)) b).
Proof.
  induction a as [|c a IH]; intros st b.
  - simpl. now rewrite ?emit_nil.
  - rewrite <- app_comm_cons, !run_st_cons, IH. unfold emit; simpl. now rewrite app_assoc.
Qed.

Lemma lex_from_unfold q st s : lex_from q st s = fst (run_st q st s) ++ finish (snd (run_st q st s)).
Proof. unfold lex_from. destruct (run_st q st s); reflexivity. Qed.

Lemma lex_unfold q s : lex q s = fst (run_st q LNormal s) ++ finish (end_st q s).
Proof. apply lex_from_unfold. Qed.

(* ------------------------------------------------------------------ separators *)

Lemma step_sep q st c : pending st = true -> strong_sep q c = true ->
  step q st c = emit (finish st) (step_normal q c).
Proof.
  unfold strong_sep. rewrite !andb_true_iff, !negb_true_iff. intros P [[L C] S].
  destruct st; simpl in *; try discriminate; rewrite ?L, ?C, ?S; try reflexivity.
  now rewrite ?emit_nil.
Qed.

Lemma run_sep q st t : pending st = true -> starts_sep q t = true ->
  run_st q st t = emit (finish st) (run_st q LNormal t).
Proof.
  destruct t as [|c r]; [discriminate|]. simpl starts_sep. intros P S.
  rewrite !run_st_cons, (step_sep q st c P S). simpl. unfold emit; simpl. now rewrite app_assoc.
Qed.

Lemma lex_from_app_normal q t rest :
  lex_from q LNormal (t ++ rest) = fst (run_st q LNormal t) ++ lex_from q (end_st q t) rest.
Proof. rewrite !lex_from_unfold, run_st_app. unfold emit, end_st; simpl. now rewrite app_assoc. Qed.

Lemma lex_from_app_sep q st t rest : pending st = true -> starts_sep q t = true ->
  lex_from q st (t ++ rest) = finish st ++ fst (run_st q LNormal t) ++ lex_from q (end_st q t) rest.
Proof.
  intros P S. rewrite !lex_from_unfold, run_st_app, (run_sep q st t P S).
  unfold emit, end_st; simpl. now rewrite !app_assoc.
Qed.

(* a text that is lexically closed and reads as `toks` *)
Definition closed_lex (q:qspec) (t:str) (toks:list token) : Prop :=
  pending (end_st q t) = true /\ lex q t = toks.

Lemma closed_nil q : closed_lex q [] [].
Proof. split; reflexivity. Qed.

Lemma closed_app_sep q a b ta tb :
  closed_lex q a ta -> starts_sep q b = true -> closed_lex q b tb -> closed_lex q (a ++ b) (ta ++ tb).
Proof.
  intros [Pa La] S [Pb Lb]. unfold closed_lex, end_st, lex in *.
  rewrite lex_from_unfold in *. rewrite run_st_app, (run_sep q _ b Pa S). unfold emit; simpl.
  split; [exact Pb|]. rewrite <- La, <- Lb. now rewrite !app_assoc.
Qed.

Lemma closed_app_nil_r q a ta : closed_lex q a ta -> closed_lex q (a ++ []) (ta ++ []).
Proof. now rewrite !app_nil_r. Qed.

Lemma step_normal_punct q c :
  (c =? q_open q) = false -> (c =? 39) = false -> legal c = false -> is_ws c = false ->
  step_normal q c = ([Punct c], LNormal).
Proof. intros A B C D. unfold step_normal. now rewrite A, B, C, D. Qed.

Lemma closed_cons_dot q rest toks : qspec_wf q = true ->
  closed_lex q rest toks -> closed_lex q (46 :: rest) (Punct 46 :: toks).
Proof.
  unfold qspec_wf. rewrite !andb_true_iff, !negb_true_iff. intros [[[[[_ _] O] _] _] _] [P L].
  assert (S : step_normal q 46 = ([Punct 46], LNormal)).
  { apply step_normal_punct; try reflexivity. now rewrite N.eqb_sym. }
  unfold closed_lex, end_st, lex in *. rewrite lex_from_unfold in *. rewrite run_st_cons. simpl step. rewrite S. simpl.
  split; [exact P|]. now rewrite <- L.
Qed.

Lemma dot_strong_sep q : qspec_wf q = true -> strong_sep q 46 = true.
Proof.
  unfold qspec_wf. rewrite !andb_true_iff, !negb_true_iff. intros [[[[[_ _] _] C] _] _].
  unfold strong_sep. rewrite N.eqb_sym, C. reflexivity.
Qed.

(* ------------------------------------------------------------------ bare words *)

Lemma legal_not_39 c : legal c = true -> (c =? 39) = false.
Proof. intro L. destruct (N.eqb_spec c 39) as [->|]; [discriminate L | reflexivity]. Qed.

Lemma run_word q : qspec_wf q = true -> forall s a, forallb legal s = true ->
  run_st q (LWord a) s = ([], LWord (rev s ++ a)).
Proof.
  intros _. induction s as [|c s IH]; intros a H; [reflexivity|].
  simpl in H. apply andb_true_iff in H as [L H]. rewrite run_st_cons. simpl. rewrite L. simpl.
  rewrite ?emit_nil, IH by exact H. now rewrite <- app_assoc.
Qed.

Lemma closed_word q c s : qspec_wf q = true -> forallb legal (c :: s) = true ->
  closed_lex q (c :: s) [Word (c :: s)].
Proof.
  intros W H. pose proof H as H0. simpl in H. apply andb_true_iff in H as [L H].
  assert (O : (c =? q_open q) = false).
  { unfold qspec_wf in W. rewrite !andb_true_iff, !negb_true_iff in W. destruct W as [[[[[W _] _] _] _] _].
    destruct (N.eqb_spec c (q_open q)) as [->|]; [congruence | reflexivity]. }
  unfold closed_lex, end_st, lex. rewrite lex_from_unfold, run_st_cons. simpl step. unfold step_normal.
  rewrite O, (legal_not_39 c L), L. simpl. rewrite ?emit_nil, (run_word q W s [c] H). simpl.
  split; [reflexivity|]. rewrite rev_app_distr, rev_involutive. reflexivity.
Qed.

(* ------------------------------------------------------------------ quoted identifiers *)

Lemma esc_char_nopct q c : (q_dblpct q && (c =? 37)) = false ->
  esc_char q c = if c =? q_close q then [c; c] else [c].
Proof. intro H. unfold esc_char. now rewrite H. Qed.

Lemma pct_cons q c s : (q_dblpct q && memN 37 (c :: s)) = false ->
  (q_dblpct q && (c =? 37)) = false /\ (q_dblpct q && memN 37 s) = false.
Proof.
  unfold memN. cbn [existsb]. destruct (q_dblpct q); cbn [andb]; [|auto]. rewrite orb_false_iff. intros [A B].
  split; [now rewrite N.eqb_sym | exact B].
Qed.

Lemma step_quoted_close q a : step q (LQuoted a) (q_close q) = ([], LQuotedClose a).
Proof. simpl. now rewrite N.eqb_refl. Qed.
Lemma step_quotedclose_close q a : step q (LQuotedClose a) (q_close q) = ([], LQuoted (q_close q :: a)).
Proof. simpl. now rewrite N.eqb_refl. Qed.
Lemma step_quoted_other q a c : (c =? q_close q) = false -> step q (LQuoted a) c = ([], LQuoted (c :: a)).
Proof. intro H. simpl. now rewrite H. Qed.

Lemma run_quoted q : forall s a, (q_dblpct q && memN 37 s) = false ->
  run_st q (LQuoted a) (escape_identifier q s) = ([], LQuoted (rev s ++ a)).
Proof.
  induction s as [|c s IH]; intros a H; [reflexivity|].
  apply pct_cons in H as [Hc Hs]. unfold escape_identifier in *. cbn [flat_map]. rewrite (esc_char_nopct q c Hc).
  destruct (N.eqb_spec c (q_close q)) as [E|E].
  - subst c. cbn [app]. rewrite run_st_cons, step_quoted_close. cbn [fst snd].
    rewrite run_st_cons, step_quotedclose_close. cbn [fst snd]. rewrite !emit_nil, IH by exact Hs.
    cbn [rev]. now rewrite <- app_assoc.
  - apply N.eqb_neq in E. cbn [app]. rewrite run_st_cons, (step_quoted_other q a c E). cbn [fst snd].
    rewrite emit_nil, IH by exact Hs. cbn [rev]. now rewrite <- app_assoc.
Qed.

Lemma closed_quoted q s : (q_dblpct q && memN 37 s) = false ->
  closed_lex q (quote_identifier q s) [QIdent s].
Proof.
  intro H. unfold closed_lex, end_st, lex, quote_identifier. rewrite lex_from_unfold, run_st_cons.
  assert (S0 : step q LNormal (q_open q) = ([], LQuoted [])).
  { simpl. unfold step_normal. now rewrite N.eqb_refl. }
  rewrite S0. cbn [fst snd]. rewrite emit_nil, run_st_app, (run_quoted q s [] H). cbn [fst snd].
  rewrite emit_nil, run_st_cons, step_quoted_close. cbn [fst snd run_st emit app finish pending].
  rewrite app_nil_r, rev_involutive. split; reflexivity.
Qed.

(* _requires_quotes = false on a name without a trailing newline: every character is legal *)
Lemma all_legal_nl_forall s : all_legal_nl s = true -> last_is 10 s = false -> forallb legal s = true.
Proof.
  unfold last_is. induction s as [|c s IH]; [reflexivity|]. intros A L.
  destruct s as [|c' s'].
  - simpl in *. apply orb_true_iff in A as [A|A]; [now rewrite A | congruence].
  - change (all_legal_nl (c :: c' :: s')) with (legal c && all_legal_nl (c' :: s')) in A.
    apply andb_true_iff in A as [A1 A2]. change (forallb legal (c :: c' :: s')) with (legal c && forallb legal (c' :: s')).
    rewrite A1. simpl. apply IH; [exact A2|].
    change (rev (c :: c' :: s')) with (rev (c' :: s') ++ [c]) in L.
    destruct (rev (c' :: s')) as [|x r] eqn:R; [|exact L].
    apply (f_equal (@length N)) in R. rewrite rev_length in R. discriminate R.
Qed.

Lemma name_ok_parts q s : name_ok q s = true ->
  s <> [] /\ (q_dblpct q && memN 37 s) = false /\ last_is 10 s = false /\ notab s = true.
Proof.
  unfold name_ok. rewrite !andb_true_iff, !negb_true_iff. intros [[[A B] C] D].
  repeat split; auto. intros ->. discriminate A.
Qed.

Theorem quote_closed q s t : qspec_wf q = true -> name_ok q s = true -> quote q s = Some t ->
  closed_lex q t [ident_token q s].
Proof.
  intros W N Q. apply name_ok_parts in N as (NE & P & L & _).
  unfold quote in Q. unfold ident_token. destruct s as [|c s]; [congruence|].
  destruct (requires_quotes q (c :: s)) as [[|]|] eqn:R; inversion Q; subst t.
  - now apply closed_quoted.
  - apply closed_word; [exact W|].
    simpl in R. injection R as R. rewrite !orb_false_iff, negb_false_iff in R. destruct R as [[[_ _] M] _].
    unfold legal_match in M. apply andb_true_iff in M as [_ M]. now apply all_legal_nl_forall.
Qed.

Lemma quote_some q s : s <> [] -> exists t, quote q s = Some t.
Proof.
  intro NE. destruct s as [|c s]; [congruence|]. unfold quote. simpl requires_quotes.
  match goal with |- context [Some ?b] => destruct b end; eauto.
Qed.

Lemma name_ok_f_parts q f s : name_ok_f q f s = true ->
  name_ok q s = true /\ (f = QFalse -> requires_quotes q s = Some false).
Proof.
  unfold name_ok_f. rewrite andb_true_iff. intros [A B]. split; [exact A|]. intros ->. cbn [unq_name_ok] in B.
  destruct (requires_quotes q s) as [[|]|]; try discriminate; reflexivity.
Qed.

Theorem quote_f_closed q f s t : qspec_wf q = true -> name_ok_f q f s = true -> quote_f q f s = Some t ->
  closed_lex q t [ident_token_f q f s].
Proof.
  intros W N Q. apply name_ok_f_parts in N as [N NF].
  destruct f; cbn [quote_f ident_token_f] in *; try (now apply quote_closed).
  - injection Q as <-. apply closed_quoted. now apply name_ok_parts in N as (_ & P & _).
  - injection Q as <-. specialize (NF eq_refl). unfold ident_token. rewrite NF.
    pose proof N as N0. apply name_ok_parts in N as (NE & _ & L & _). destruct s as [|c s]; [congruence|].
    apply closed_word; [exact W|]. simpl in NF. injection NF as R.
    rewrite !orb_false_iff, negb_false_iff in R. destruct R as [[[_ _] M] _].
    unfold legal_match in M. apply andb_true_iff in M as [_ M]. now apply all_legal_nl_forall.
Qed.

Lemma quote_f_some q f s : s <> [] -> exists t, quote_f q f s = Some t.
Proof. intro NE. destruct f; cbn [quote_f]; eauto using quote_some. Qed.

(* ------------------------------------------------------------------ string literals *)

Lemma step_string_quote q a : step q (LString a) 39 = ([], LStringClose a).
Proof. reflexivity. Qed.
Lemma step_stringclose_quote q a : step q (LStringClose a) 39 = ([], LString (39 :: a)).
Proof. reflexivity. Qed.
Lemma step_string_other q a c : q_bslash q = false -> (c =? 39) = false -> step q (LString a) c = ([], LString (c :: a)).
Proof. intros B H. simpl. now rewrite H, B. Qed.

Lemma run_string q : q_bslash q = false -> forall s a,
  run_st q (LString a) (sql_literal s) = ([], LString (rev s ++ a)).
Proof.
  intros B. induction s as [|c s IH]; intros a; [reflexivity|].
  unfold sql_literal in *. cbn [flat_map]. destruct (N.eqb_spec c 39) as [E|E].
  - subst c. cbn [app]. rewrite run_st_cons, step_string_quote. cbn [fst snd].
    rewrite run_st_cons, step_stringclose_quote. cbn [fst snd]. rewrite !emit_nil, IH. cbn [rev]. now rewrite <- app_assoc.
  - apply N.eqb_neq in E. cbn [app]. rewrite run_st_cons, (step_string_other q a c B E). cbn [fst snd].
    rewrite emit_nil, IH. cbn [rev]. now rewrite <- app_assoc.
Qed.

Theorem strlit_closed q s : q_bslash q = false -> (q_open q =? 39) = false ->
  closed_lex q (sql_string_literal s) [SLit s].
Proof.
  intros B O. unfold closed_lex, end_st, lex, sql_string_literal. rewrite lex_from_unfold, run_st_cons.
  assert (S0 : step q LNormal 39 = ([], LString [])).
  { simpl. unfold step_normal. now rewrite (N.eqb_sym 39), O. }
  rewrite S0. cbn [fst snd]. rewrite emit_nil, run_st_app, (run_string q B s []). cbn [fst snd].
  rewrite emit_nil, run_st_cons, step_string_quote. cbn [fst snd run_st emit app finish pending].
  rewrite app_nil_r, rev_involutive. split; reflexivity.
Qed.

Lemma sql_literal_app a b : sql_literal (a ++ b) = sql_literal a ++ sql_literal b.
Proof. unfold sql_literal. apply flat_map_app. Qed.

Lemma sql_literal_id t : memN 39 t = false -> sql_literal t = t.
Proof.
  unfold sql_literal, memN. induction t as [|c t IH]; [reflexivity|]. cbn [existsb flat_map]. rewrite orb_false_iff. intros [A B].
  rewrite (N.eqb_sym 39 c) in A. rewrite A. cbn [app]. now rewrite IH.
Qed.

(* ------------------------------------------------------------------ the two round-trip theorems *)


Lemma closed_then q t toks rest : closed_lex q t toks -> sep_ok q rest -> lex q (t ++ rest) = toks ++ lex q rest.
Proof.
  intros [P L] [->|S].
  - rewrite app_nil_r. unfold lex at 2, lex_from. simpl. now rewrite app_nil_r.
  - unfold lex, end_st in *. rewrite lex_from_unfold in *. rewrite run_st_app, (run_sep q _ rest P S). unfold emit; cbn [fst snd].
    rewrite <- L. rewrite (lex_from_unfold q LNormal rest), <- !app_assoc. reflexivity.
Qed.

Theorem quote_lex_roundtrip_proof q s t rest :
  qspec_wf q = true -> name_ok q s = true -> quote q s = Some t -> sep_ok q rest ->
  lex q (t ++ rest) = ident_token q s :: lex q rest.
Proof. intros W N Q S. exact (closed_then q t _ rest (quote_closed q s t W N Q) S). Qed.

Theorem strlit_roundtrip_proof q s rest :
  q_bslash q = false -> (q_open q =? 39) = false -> sep_ok q rest ->
  lex q (sql_string_literal s ++ rest) = SLit s :: lex q rest.
Proof. intros B O S. exact (closed_then q _ _ rest (strlit_closed q s B O) S). Qed.

(* ------------------------------------------------------------------ format_table_name *)

Fixpoint dotted (parts:list str) (b:str) : str :=
  match parts with
  | [] => b
  | p :: r => p ++ 46 :: dotted r b
  end.

Lemma join_dot_dotted parts b : parts <> [] -> join_dot parts ++ 46 :: b = dotted parts b.
Proof.
  induction parts as [|p r IH]; [congruence|]. intros _. destruct r as [|p' r'].
  - reflexivity.
  - change (join_dot (p :: p' :: r')) with (p ++ 46 :: join_dot (p' :: r')).
    rewrite <- app_assoc, <- app_comm_cons, IH by discriminate. reflexivity.
Qed.

Lemma split_dot_acc_nonempty s : forall acc, split_dot_acc acc s <> [].
Proof. induction s as [|c s IH]; intros acc; simpl; [discriminate|]. destruct (c =? 46); [discriminate | apply IH]. Qed.

Lemma map_opt_length {A B} (f:A -> option B) l l' : map_opt f l = Some l' -> length l' = length l.
Proof.
  revert l'. induction l as [|a l IH]; intros l' H; simpl in H.
  - injection H as <-. reflexivity.
  - destruct (f a); [|discriminate]. destruct (map_opt f l); [|discriminate]. injection H as <-. simpl. now rewrite (IH l0).
Qed.

Lemma closed_dotted q ns : qspec_wf q = true -> forall parts b tb,
  forallb (name_ok q) ns = true -> map_opt (quote q) ns = Some parts -> closed_lex q b tb ->
  closed_lex q (dotted parts b) (flat_map (fun p => [ident_token q p; Punct 46]) ns ++ tb).
Proof.
  intros W. induction ns as [|n ns IH]; intros parts b tb F M C; simpl in M.
  - injection M as <-. exact C.
  - destruct (quote q n) as [p|] eqn:Q; [|discriminate]. destruct (map_opt (quote q) ns) as [ps|] eqn:M'; [|discriminate].
    injection M as <-. simpl in F. apply andb_true_iff in F as [Fn Fns].
    change (closed_lex q (p ++ (46 :: dotted ps b))
              ([ident_token q n] ++ (Punct 46 :: (flat_map (fun p0 => [ident_token q p0; Punct 46]) ns ++ tb)))).
    apply closed_app_sep.
    + now apply quote_closed.
    + simpl. now apply dot_strong_sep.
    + simpl app. apply closed_cons_dot; [exact W|]. now apply IH.
Qed.

Theorem format_table_closed q fn name fs sc t :
  qspec_wf q = true -> name_ok_f q fn name = true -> schema_ok q fs sc = true ->
  format_table_name q fn name fs sc = Some t ->
  closed_lex q t (schema_tokens q fs sc ++ [ident_token_f q fn name]).
Proof.
  intros W N S F. unfold format_table_name, schema_tokens, schema_ok in *.
  destruct (schema_given sc) as [s|]; [|simpl; now apply quote_f_closed].
  destruct (quote_dotted q fs s) as [a|] eqn:QD; [|discriminate].
  destruct (quote_f q fn name) as [b|] eqn:Q; [|discriminate]. injection F as <-.
  pose proof (quote_f_closed q fn name b W N Q) as CB.
  assert (ONE : forall f, f <> Plain -> quote_f q f s = Some a -> name_ok_f q f s = true ->
                closed_lex q (a ++ 46 :: b) ([ident_token_f q f s; Punct 46] ++ [ident_token_f q fn name])).
  { intros f _ Qa Na.
    change (closed_lex q (a ++ (46 :: b)) ([ident_token_f q f s] ++ (Punct 46 :: [ident_token_f q fn name]))).
    apply closed_app_sep; [now apply quote_f_closed | simpl; now apply dot_strong_sep | now apply closed_cons_dot]. }
  destruct fs; cbn [quote_dotted] in QD; try (apply ONE; [discriminate | exact QD | exact S]).
  destruct (map_opt (quote q) (split_dot s)) as [parts|] eqn:M; [|discriminate]. injection QD as <-.
  rewrite join_dot_dotted.
  - now apply (closed_dotted q (split_dot s) W parts b _ S M).
  - intro E. subst parts. apply map_opt_length in M. simpl in M.
    pose proof (split_dot_acc_nonempty s []) as NE. unfold split_dot in M. destruct (split_dot_acc [] s); [congruence | discriminate M].
Qed.

(* SQLAlchemy's format_table agrees with alembic's format_table_name unless a plain schema contains a dot *)
Lemma split_dot_nodot s : forall acc, memN 46 s = false -> split_dot_acc acc s = [rev acc ++ s].
Proof.
  induction s as [|c s IH]; intros acc H; cbn [split_dot_acc]; [now rewrite app_nil_r|].
  unfold memN in H. cbn [existsb] in H. apply orb_false_iff in H as [A B]. rewrite (N.eqb_sym 46 c) in A. rewrite A.
  rewrite (IH (c :: acc) B). cbn [rev]. now rewrite <- app_assoc.
Qed.

Lemma format_table_sa_nodot q fn name fs sc :
  (fs = Plain -> forall s, schema_given sc = Some s -> memN 46 s = false) ->
  format_table_sa q fn name fs sc = format_table_name q fn name fs sc.
Proof.
  intro H. unfold format_table_sa, format_table_name. destruct (schema_given sc) as [s|] eqn:G.
  - assert (E : quote_dotted q fs s = quote_f q fs s).
    { destruct fs; try reflexivity. cbn [quote_dotted quote_f]. unfold split_dot. rewrite (split_dot_nodot s [] (H eq_refl s eq_refl)).
      cbn [rev app map_opt]. destruct (quote q s); reflexivity. }
    rewrite E. destruct (quote_f q fn name), (quote_f q fs s); reflexivity.
  - destruct (quote_f q fn name); reflexivity.
Qed.

(* ------------------------------------------------------------------ tabs *)

Lemma notab_app a b : notab (a ++ b) = notab a && notab b.
Proof. apply forallb_app. Qed.

Lemma notab_flat_map f s : (forall c, (c =? 9) = false -> notab (f c) = true) -> notab s = true -> notab (flat_map f s) = true.
Proof.
  intros H. induction s as [|c s IH]; [reflexivity|]. simpl. rewrite andb_true_iff, negb_true_iff. intros [A B].
  rewrite notab_app, (H c A), IH by exact B. reflexivity.
Qed.

Lemma replace_tab_id s : notab s = true -> replace_tab s = s.
Proof.
  unfold replace_tab. induction s as [|c s IH]; [reflexivity|]. simpl. rewrite andb_true_iff, negb_true_iff. intros [A B].
  rewrite A. simpl. now rewrite IH.
Qed.

Lemma py_space_9 : py_space 9 = true.
Proof. reflexivity. Qed.

Lemma wf_open_not_tab q : qspec_wf q = true -> (q_open q =? 9) = false /\ (q_close q =? 9) = false.
Proof.
  unfold qspec_wf. rewrite !andb_true_iff, !negb_true_iff. intros [[[[[_ _] _] _] O] C].
  split.
  - destruct (N.eqb_spec (q_open q) 9) as [E|]; [rewrite E in O; discriminate O | reflexivity].
  - destruct (N.eqb_spec (q_close q) 9) as [E|]; [rewrite E in C; discriminate C | reflexivity].
Qed.

Lemma notab_quote q s t : qspec_wf q = true -> notab s = true -> quote q s = Some t -> notab t = true.
Proof.
  intros W N Q. apply wf_open_not_tab in W as [O C]. unfold quote in Q.
  destruct (requires_quotes q s) as [[|]|]; inversion Q; subst t; [|exact N].
  unfold quote_identifier. simpl. rewrite O. simpl. rewrite notab_app. simpl. rewrite C. simpl. rewrite andb_true_r.
  apply notab_flat_map; [|exact N]. intros c Hc. unfold esc_char.
  destruct (c =? q_close q); [simpl; now rewrite Hc|]. destruct (q_dblpct q && (c =? 37)); simpl; [reflexivity | now rewrite Hc].
Qed.

Lemma notab_quote_f q f s t : qspec_wf q = true -> notab s = true -> quote_f q f s = Some t -> notab t = true.
Proof.
  intros W N Q. destruct f; cbn [quote_f] in Q; try (now apply (notab_quote q s t W N Q)).
  - injection Q as <-. apply wf_open_not_tab in W as [O C]. unfold quote_identifier. simpl. rewrite O. simpl.
    rewrite notab_app. simpl. rewrite C. simpl. rewrite andb_true_r.
    apply notab_flat_map; [|exact N]. intros c Hc. unfold esc_char.
    destruct (c =? q_close q); [simpl; now rewrite Hc|]. destruct (q_dblpct q && (c =? 37)); simpl; [reflexivity | now rewrite Hc].
  - now injection Q as <-.
Qed.

Lemma name_ok_f_notab q f s : name_ok_f q f s = true -> notab s = true.
Proof. intro H. apply name_ok_f_parts in H as [H _]. now apply name_ok_parts in H as (_ & _ & _ & H). Qed.

Lemma notab_join_dot parts : forallb notab parts = true -> notab (join_dot parts) = true.
Proof.
  induction parts as [|p r IH]; [reflexivity|]. simpl forallb. rewrite andb_true_iff. intros [A B].
  destruct r as [|p' r']; [exact A|].
  change (join_dot (p :: p' :: r')) with (p ++ 46 :: join_dot (p' :: r')). rewrite notab_app, A. simpl. now apply IH.
Qed.

Lemma name_ok_notab q s : name_ok q s = true -> notab s = true.
Proof. intro H. now apply name_ok_parts in H as (_ & _ & _ & H). Qed.

Lemma notab_map_quote q ns : qspec_wf q = true -> forall parts,
  forallb (name_ok q) ns = true -> map_opt (quote q) ns = Some parts -> forallb notab parts = true.
Proof.
  intros W. induction ns as [|n ns IH]; intros parts F M; simpl in M.
  - injection M as <-. reflexivity.
  - destruct (quote q n) as [p|] eqn:Q; [|discriminate]. destruct (map_opt (quote q) ns) as [ps|] eqn:M'; [|discriminate].
    injection M as <-. simpl in F. apply andb_true_iff in F as [Fn Fns]. simpl.
    rewrite (notab_quote q n p W (name_ok_notab q n Fn) Q). now apply IH.
Qed.

Lemma notab_format_table q fn name fs sc t :
  qspec_wf q = true -> name_ok_f q fn name = true -> schema_ok q fs sc = true ->
  format_table_name q fn name fs sc = Some t -> notab t = true.
Proof.
  intros W N S F. unfold format_table_name, schema_ok in *. destruct (schema_given sc) as [s|].
  - destruct (quote_dotted q fs s) as [a|] eqn:QD; [|discriminate].
    destruct (quote_f q fn name) as [b|] eqn:Q; [|discriminate]. injection F as <-.
    rewrite notab_app. simpl. rewrite (notab_quote_f q fn name b W (name_ok_f_notab q fn name N) Q), andb_true_r.
    destruct fs; cbn [quote_dotted] in QD; try (now apply (notab_quote_f q _ s a W (name_ok_f_notab q _ s S) QD)).
    destruct (map_opt (quote q) (split_dot s)) as [parts|] eqn:M; [|discriminate]. injection QD as <-.
    apply notab_join_dot. now apply (notab_map_quote q (split_dot s) W).
  - now apply (notab_quote_f q fn name t W (name_ok_f_notab q fn name N)).
Qed.

Lemma notab_sql_literal t : notab t = true -> notab (sql_literal t) = true.
Proof.
  intro H. unfold sql_literal. apply notab_flat_map; [|exact H]. intros c Hc.
  destruct (c =? 39); simpl; [reflexivity | now rewrite Hc].
Qed.

(* ------------------------------------------------------------------ str.strip() *)

Lemma in_ranges_legal_space c : legal c = true -> py_space c = false.
Proof.
  unfold legal, py_space, in_ranges, legal_ranges, space_ranges. simpl.
  rewrite !orb_true_iff, !andb_true_iff, !N.leb_le. intro H.
  repeat (apply orb_false_iff; split); try reflexivity; apply andb_false_iff; rewrite !N.leb_gt; lia.
Qed.

Lemma space_step_normal q c : qspec_wf q = true -> py_space c = true ->
  step_normal q c = if is_ws c then ([], LNormal) else ([Punct c], LNormal).
Proof.
  unfold qspec_wf. rewrite !andb_true_iff, !negb_true_iff. intros [[[[[_ _] _] _] O] _] S.
  unfold step_normal.
  destruct (N.eqb_spec c (q_open q)) as [E|_]; [subst c; congruence|].
  destruct (N.eqb_spec c 39) as [E|_]; [subst c; discriminate S|].
  destruct (legal c) eqn:L; [apply in_ranges_legal_space in L; congruence | reflexivity].
Qed.

Lemma space_strong_sep q c : qspec_wf q = true -> py_space c = true -> strong_sep q c = true.
Proof.
  unfold qspec_wf. rewrite !andb_true_iff, !negb_true_iff. intros [[[[[_ _] _] _] _] C] S.
  unfold strong_sep. rewrite !andb_true_iff, !negb_true_iff. repeat split.
  - destruct (legal c) eqn:L; [apply in_ranges_legal_space in L; congruence | reflexivity].
  - destruct (N.eqb_spec c (q_close q)) as [E|_]; [subst c; congruence | reflexivity].
  - destruct (N.eqb_spec c 39) as [E|_]; [subst c; discriminate S | reflexivity].
Qed.

(* leading white space *)
Lemma lstrip_run q : qspec_wf q = true -> forall s,
  forallb tok_nospace (fst (run_st q LNormal s)) = true -> run_st q LNormal (lstrip s) = run_st q LNormal s.
Proof.
  intros W. induction s as [|c s IH]; [reflexivity|]. intro T. simpl lstrip.
  destruct (py_space c) eqn:S; [|reflexivity].
  rewrite run_st_cons in T |- *. simpl step in *. rewrite (space_step_normal q c W S) in *.
  destruct (is_ws c).
  - simpl in *. rewrite ?emit_nil. apply IH. exact T.
  - simpl in T. rewrite S in T. discriminate T.
Qed.

(* trailing white space *)
Lemma pending_before_space q st c : qspec_wf q = true -> py_space c = true ->
  pending (snd (step q st c)) = true -> pending st = true.
Proof.
  intros W S. destruct st; simpl; auto.
  - destruct (N.eqb_spec c (q_close q)) as [E|_]; simpl; auto.
    subst c. unfold qspec_wf in W. rewrite !andb_true_iff, !negb_true_iff in W. destruct W as [_ C]. congruence.
  - destruct (N.eqb_spec c 39) as [E|_]; [subst c; discriminate S|]. destruct (q_bslash q && (c =? 92)); simpl; auto.
Qed.

Lemma run_snoc q s c :
  run_st q LNormal (s ++ [c]) = (fst (run_st q LNormal s) ++ fst (step q (end_st q s) c), snd (step q (end_st q s) c)).
Proof. rewrite run_st_app, run_st_cons. cbn [run_st]. unfold emit, end_st. cbn [fst snd]. now rewrite app_nil_r. Qed.

Lemma rstrip_lex q : qspec_wf q = true -> forall s,
  pending (end_st q s) = true -> forallb tok_nospace (lex q s) = true ->
  pending (end_st q (rev (lstrip (rev s)))) = true /\ lex q (rev (lstrip (rev s))) = lex q s.
Proof.
  intros W. induction s as [|c s IH] using rev_ind; [auto|]. intros P T.
  rewrite rev_app_distr. cbn [rev app lstrip].
  destruct (py_space c) eqn:S; [|cbn [rev]; rewrite rev_involutive; auto].
  pose proof (run_snoc q s c) as RS.
  assert (P' : pending (snd (step q (end_st q s) c)) = true).
  { unfold end_st in P at 1. now rewrite RS in P. }
  assert (P0 : pending (end_st q s) = true) by exact (pending_before_space q _ c W S P').
  assert (SS : step q (end_st q s) c
               = emit (finish (end_st q s)) (if is_ws c then ([], LNormal) else ([Punct c], LNormal))).
  { now rewrite (step_sep q _ c P0 (space_strong_sep q c W S)), (space_step_normal q c W S). }
  assert (LX : lex q (s ++ [c]) = lex q s ++ (if is_ws c then [] else [Punct c])).
  { rewrite !lex_unfold. unfold end_st at 1. rewrite RS, SS. destruct (is_ws c); unfold emit; cbn [fst snd finish];
      now rewrite <- ?app_assoc, ?app_nil_r. }
  destruct (is_ws c).
  - rewrite app_nil_r in LX. rewrite LX in *. now apply IH.
  - rewrite LX, forallb_app in T. cbn [forallb tok_nospace] in T. rewrite S in T. cbn [negb andb] in T.
    rewrite andb_false_r in T. discriminate T.
Qed.

Theorem strip_lex q s : qspec_wf q = true ->
  pending (end_st q s) = true -> forallb tok_nospace (lex q s) = true ->
  pending (end_st q (strip s)) = true /\ lex q (strip s) = lex q s.
Proof.
  intros W P T. unfold strip.
  assert (T0 : forallb tok_nospace (fst (run_st q LNormal s)) = true).
  { rewrite lex_unfold, forallb_app in T. now apply andb_true_iff in T as [T _]. }
  pose proof (lstrip_run q W s T0) as R.
  assert (P1 : pending (end_st q (lstrip s)) = true) by (unfold end_st; now rewrite R).
  assert (L1 : lex q (lstrip s) = lex q s) by (rewrite !lex_unfold; unfold end_st; now rewrite R).
  destruct (rstrip_lex q W (lstrip s) P1) as [A B]; [now rewrite L1|].
  split; [exact A | now rewrite B].
Qed.
