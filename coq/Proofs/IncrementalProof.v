(* Proofs about Model/Incremental.v: add_revision after the batch load equals the batch load of the extended history. *)
From AV Require Import Model.Incremental Spec.C17.
Open Scope N_scope.

(* ---------------------------------------------------------------- small list facts *)
Lemma memN_app x a b : memN x (a ++ b) = memN x a || memN x b.
Proof. unfold memN. apply existsb_app. Qed.
Lemma memN_false_app x a b : memN x (a ++ b) = false <-> memN x a = false /\ memN x b = false.
Proof. rewrite memN_app, orb_false_iff. tauto. Qed.
Lemma subsetN_app_r a b c : subsetN a b = true -> subsetN a (b ++ c) = true.
Proof. rewrite !subsetN_incl. intros H x Hx. apply in_or_app. left. auto. Qed.
Lemma filter_map {A B} (f:A -> B) (p:B -> bool) l : filter p (map f l) = map f (filter (fun x => p (f x)) l).
Proof. induction l as [|a r IH]; [reflexivity|]. cbn. destruct (p (f a)); cbn; rewrite IH; reflexivity. Qed.
Lemma filter_filter {A} (p q:A -> bool) l : filter p (filter q l) = filter (fun x => q x && p x) l.
Proof. induction l as [|a r IH]; [reflexivity|]. cbn. destruct (q a); cbn; [destruct (p a)|]; rewrite IH; reflexivity. Qed.
Lemma map_fst_label_pairs G : map fst (flat_map label_pairs G) = flat_map f_labels G.
Proof. induction G as [|r G IH]; [reflexivity|]. cbn [flat_map]. rewrite map_app, IH. f_equal.
  unfold label_pairs. rewrite map_map. cbn. apply map_id. Qed.
Lemma nodupb_app_inv a b : nodupb (a ++ b) = true -> nodupb a = true /\ nodupb b = true /\ (forall x, In x a -> ~ In x b).
Proof.
  rewrite !nodupb_NoDup. induction a as [|y a IH]; cbn [app]; intros H.
  - split; [constructor|]. split; [exact H|]. intros x [].
  - inversion H; subst. destruct (IH H3) as [Ha [Hb Hd]]. split; [|split; [exact Hb|]].
    + constructor; [|exact Ha]. intros Hin. apply H2. apply in_or_app. left. exact Hin.
    + intros x [->|Hx] Hxb; [apply H2; apply in_or_app; right; exact Hxb|eapply Hd; eauto].
Qed.
Lemma nodupb_app_intro a b : nodupb a = true -> nodupb b = true -> (forall x, In x a -> ~ In x b) -> nodupb (a ++ b) = true.
Proof. rewrite !nodupb_NoDup. intros Ha Hb H. induction a as [|y a IH]; [exact Hb|]. cbn. inversion Ha; subst. constructor.
  - intros Hin. apply in_app_or in Hin. destruct Hin as [Hin|Hin]; [contradiction|]. apply (H y); [left; reflexivity|exact Hin].
  - apply IH; auto. intros x Hx. apply H. right. exact Hx. Qed.

(* ---------------------------------------------------------------- resolution of keys *)
Lemma assocN_app k a b : assocN k (a ++ b) = match assocN k a with Some v => Some v | None => assocN k b end.
Proof. induction a as [|[k' v] a IH]; [reflexivity|]. cbn. destruct (k =? k'); [reflexivity|exact IH]. Qed.
Lemma assocN_some_in k l v : assocN k l = Some v -> In k (map fst l) /\ In v (map snd l).
Proof. induction l as [|[k' v'] l IH]; [discriminate|]. cbn. destruct (N.eqb_spec k k') as [->|N].
  - intros [= <-]. auto. - intros H. destruct (IH H); auto. Qed.
Lemma assocN_in k l : In k (map fst l) -> exists v, assocN k l = Some v.
Proof. induction l as [|[k' v'] l IH]; [contradiction|]. cbn. destruct (N.eqb_spec k k') as [->|N]; [eauto|].
  intros [E|H]; [congruence|auto]. Qed.

Section Ext.
  Variables (ids:list N) (keys extra:list (N*N)) (rid:N).
  Hypothesis Hfresh : ~ In rid (map fst keys).

  Lemma lookup_ext k v : lookup_key ids keys k = Some v -> lookup_key (ids ++ [rid]) (keys ++ extra) k = Some v.
  Proof.
    unfold lookup_key. rewrite memN_app. destruct (memN k ids) eqn:E; cbn [orb]; [auto|].
    intros H. destruct (assocN_some_in _ _ _ H) as [Hk _].
    assert (memN k [rid] = false). { apply memN_nIn. intros [->|[]]. contradiction. }
    rewrite H0, assocN_app, H. reflexivity.
  Qed.
  Lemma resolve_all_ext ks vs : resolve_all ids keys ks = Some vs -> resolve_all (ids ++ [rid]) (keys ++ extra) ks = Some vs.
  Proof.
    revert vs. induction ks as [|k r IH]; intros vs; [auto|]. cbn [resolve_all].
    destruct (lookup_key ids keys k) eqn:E; [|discriminate]. destruct (resolve_all ids keys r) eqn:E2; [|discriminate].
    intros [= <-]. rewrite (lookup_ext _ _ E), (IH _ eq_refl). reflexivity.
  Qed.
  Lemma resolve_revs_ext G core : resolve_revs ids keys G = Some core -> resolve_revs (ids ++ [rid]) (keys ++ extra) G = Some core.
  Proof.
    revert core. induction G as [|r G IH]; intros core; [auto|]. cbn [resolve_revs]. unfold resolve_rev.
    destruct (resolve_all ids keys (f_deps r)) eqn:E; [|discriminate]. destruct (resolve_revs ids keys G) eqn:E2; [|discriminate].
    intros [= <-]. rewrite (resolve_all_ext _ _ E), (IH _ eq_refl). reflexivity.
  Qed.
End Ext.

Lemma resolve_revs_app ids keys G1 G2 c1 c2 :
  resolve_revs ids keys G1 = Some c1 -> resolve_revs ids keys G2 = Some c2 -> resolve_revs ids keys (G1 ++ G2) = Some (c1 ++ c2).
Proof. revert c1. induction G1 as [|r G IH]; intros c1; cbn [app resolve_revs]; [intros [= <-]; auto|].
  destruct (resolve_rev ids keys r); [|discriminate]. destruct (resolve_revs ids keys G); [|discriminate].
  intros [= <-] H2. rewrite (IH _ eq_refl H2). reflexivity. Qed.
Lemma resolve_revs_ids ids keys G core : resolve_revs ids keys G = Some core -> map c_id core = map f_id G.
Proof. revert core. induction G as [|r G IH]; intros core; cbn [resolve_revs]; [intros [= <-]; reflexivity|].
  unfold resolve_rev. destruct (resolve_all ids keys (f_deps r)); [|discriminate]. destruct (resolve_revs ids keys G); [|discriminate].
  intros [= <-]. cbn. rewrite (IH _ eq_refl). reflexivity. Qed.

(* every key that is an id or a label resolves, and to an id of the history *)
Lemma lookup_total ids keys k : In k (ids ++ map fst keys) -> exists v, lookup_key ids keys k = Some v.
Proof. unfold lookup_key. intros H. destruct (memN_reflect k ids); [eauto|]. apply in_app_or in H. destruct H; [contradiction|].
  apply assocN_in; assumption. Qed.
Lemma resolve_all_total ids keys ks : incl ks (ids ++ map fst keys) -> exists vs, resolve_all ids keys ks = Some vs.
Proof. induction ks as [|k r IH]; intros H; [eexists; reflexivity|]. cbn [resolve_all].
  destruct (lookup_total ids keys k) as [v ->]; [apply H; left; reflexivity|].
  destruct IH as [vs ->]; [intros x Hx; apply H; right; exact Hx|]. eauto. Qed.
Lemma lookup_range ids keys k v : lookup_key ids keys k = Some v -> In v ids \/ In v (map snd keys).
Proof. unfold lookup_key. destruct (memN_reflect k ids); [intros [= <-]; auto|]. intros H. right. apply (assocN_some_in _ _ _ H). Qed.
Lemma resolve_all_range ids keys ks vs : resolve_all ids keys ks = Some vs -> forall v, In v vs -> In v ids \/ In v (map snd keys).
Proof. revert vs. induction ks as [|k r IH]; intros vs; cbn [resolve_all]; [intros [= <-] v []|].
  destruct (lookup_key ids keys k) eqn:E; [|discriminate]. destruct (resolve_all ids keys r) eqn:E2; [|discriminate].
  intros [= <-] v [<-|Hv]; [eapply lookup_range; eauto|eapply IH; eauto]. Qed.
Lemma map_snd_label_pairs G v : In v (map snd (flat_map label_pairs G)) -> In v (map f_id G).
Proof. induction G as [|r G IH]; [auto|]. cbn [flat_map]. rewrite map_app. intros H. apply in_app_or in H. destruct H as [H|H].
  - left. unfold label_pairs in H. rewrite map_map in H. cbn in H. apply in_map_iff in H. destruct H as [? [<- _]]. reflexivity.
  - right. auto. Qed.

(* ---------------------------------------------------------------- children, heads, bases *)
Lemma children_app sel a b x : children_of sel (a ++ b) x = children_of sel a x ++ children_of sel b x.
Proof. unfold children_of. rewrite filter_app, map_app. reflexivity. Qed.
Lemma children_none sel core x : (forall c, In c core -> ~ In x (sel c)) -> children_of sel core x = [].
Proof. unfold children_of. intros H. induction core as [|c r IH]; [reflexivity|]. cbn [filter].
  destruct (memN_reflect x (sel c)) as [Hx|Hx]; [exfalso; apply (H c); [left; reflexivity|exact Hx]|].
  apply IH. intros c' Hc'. apply H. right. exact Hc'. Qed.
Lemma map_c_id_with_children core0 l : map c_id (map (with_children core0) l) = map c_id l.
Proof. rewrite map_map. reflexivity. Qed.
Lemma map_c_id_add_next ch d a l : map c_id (add_next ch d a l) = map c_id l.
Proof. unfold add_next. rewrite map_map. reflexivity. Qed.
Lemma map_tri_add_next ch d a l : map tri_of (add_next ch d a l) = map tri_of l.
Proof. unfold add_next. rewrite map_map. reflexivity. Qed.

(* with the new revision appended, an old revision gains it as a child exactly where add_nextrev puts it *)
Lemma with_children_ext core0 new0 x :
  with_children (core0 ++ [new0]) x =
  mkC (c_id x) (c_down x) (c_rawdeps x) (c_labels0 x) (c_deps x)
      (children_of c_down core0 (c_id x) ++ (if memN (c_id x) (c_down new0) then [c_id new0] else []))
      (children_of all_down_c core0 (c_id x) ++ (if memN (c_id x) (all_down_c new0) then [c_id new0] else [])).
Proof. unfold with_children. rewrite !children_app. unfold children_of at 2 4. cbn [filter map].
  destruct (memN (c_id x) (c_down new0)), (memN (c_id x) (all_down_c new0)); reflexivity. Qed.

Lemma core_ext core0 new0 :
  map (with_children (core0 ++ [new0])) core0
  = add_next (c_id new0) (c_down new0) (all_down_c new0) (map (with_children core0) core0).
Proof.
  unfold add_next. rewrite map_map. apply map_ext. intros x. rewrite with_children_ext. unfold with_children. cbn [c_id c_down c_next c_allnext c_rawdeps c_labels0 c_deps].
  destruct (memN (c_id x) (c_down new0)), (memN (c_id x) (all_down_c new0)); rewrite ?app_nil_r; reflexivity.
Qed.

Lemma heads_app a b : heads_c (a ++ b) = heads_c a ++ heads_c b.
Proof. unfold heads_c. rewrite filter_app, map_app. reflexivity. Qed.
Lemma rheads_app a b : rheads_c (a ++ b) = rheads_c a ++ rheads_c b.
Proof. unfold rheads_c. rewrite filter_app, map_app. reflexivity. Qed.
Lemma bases_app a b : bases_c (a ++ b) = bases_c a ++ bases_c b.
Proof. unfold bases_c. rewrite filter_app, map_app. reflexivity. Qed.
Lemma rbases_app a b : rbases_c (a ++ b) = rbases_c a ++ rbases_c b.
Proof. unfold rbases_c. rewrite filter_app, map_app. reflexivity. Qed.
Lemma bases_add_next ch d a l : bases_c (add_next ch d a l) = bases_c l.
Proof. unfold bases_c, add_next. rewrite filter_map, map_map. reflexivity. Qed.
Lemma rbases_add_next ch d a l : rbases_c (add_next ch d a l) = rbases_c l.
Proof. unfold rbases_c, add_next. rewrite filter_map, map_map. reflexivity. Qed.

Lemma no_children_snoc (l:list N) x : no_children (l ++ [x]) = false.
Proof. destruct l; reflexivity. Qed.

Lemma heads_add_next ch d a l : ~ In ch (map c_id l) ->
  heads_c (add_next ch d a l) = filter (fun h => negb (memN h (d ++ [ch]))) (heads_c l).
Proof.
  intros Hch. unfold heads_c, add_next. rewrite filter_map, map_map, filter_map, filter_filter. cbn [c_id c_next].
  f_equal. apply filter_ext_in. intros x Hx. cbn [c_id c_next].
  assert (memN (c_id x) [ch] = false). { apply memN_nIn. intros [E|[]]. apply Hch. rewrite E. apply in_map. exact Hx. }
  rewrite memN_app, H, orb_false_r. destruct (memN (c_id x) d); cbn [negb]; [rewrite no_children_snoc, andb_false_r|rewrite andb_true_r]; reflexivity.
Qed.
Lemma rheads_add_next ch d a l : ~ In ch (map c_id l) ->
  rheads_c (add_next ch d a l) = filter (fun h => negb (memN h (a ++ [ch]))) (rheads_c l).
Proof.
  intros Hch. unfold rheads_c, add_next. rewrite filter_map, map_map, filter_map, filter_filter. cbn [c_id c_allnext].
  f_equal. apply filter_ext_in. intros x Hx. cbn [c_id c_allnext].
  assert (memN (c_id x) [ch] = false). { apply memN_nIn. intros [E|[]]. apply Hch. rewrite E. apply in_map. exact Hx. }
  rewrite memN_app, H, orb_false_r. destruct (memN (c_id x) a); cbn [negb]; [rewrite no_children_snoc, andb_false_r|rewrite andb_true_r]; reflexivity.
Qed.

(* ---------------------------------------------------------------- normalised dependencies of the old revisions *)
Lemma anc_pass_ids T : forall want x, In x (anc_pass T want) -> In x (map (fun t => fst (fst t)) T).
Proof. induction T as [|[[i d] ds] T IH]; intros want x; cbn [anc_pass map fst]; [intros []|].
  destruct (memN i want); [intros [<-|H]; [left; reflexivity|right; eapply IH; eauto]|intros H; right; eapply IH; eauto]. Qed.
Lemma deps_of_snoc T t a : In a (map (fun t => fst (fst t)) T) -> deps_of (T ++ [t]) a = deps_of T a.
Proof. induction T as [|[[i d] ds] T IH]; [intros []|]. cbn [map fst app deps_of]. intros [<-|H]; [rewrite N.eqb_refl; reflexivity|].
  destruct (i =? a); [reflexivity|apply IH; exact H]. Qed.
Lemma in_rev_ids (T:list tri) a : In a (map (fun t => fst (fst t)) (rev T)) -> In a (map (fun t => fst (fst t)) T).
Proof. rewrite map_rev. intros H. apply in_rev. exact H. Qed.

Lemma normalize_snoc T t down deps : ~ In (fst (fst t)) down ->
  normalize_one (T ++ [t]) down deps = normalize_one T down deps.
Proof.
  intros Hd. unfold normalize_one. destruct deps as [|d0 deps]; [reflexivity|].
  rewrite rev_app_distr. cbn [rev app]. destruct t as [[i d] ds]. cbn [anc_pass fst] in *.
  assert (E: memN i down = false) by (apply memN_nIn; exact Hd). rewrite E.
  assert (F: flat_map (deps_of (T ++ [(i, d, ds)])) (anc_pass (rev T) down) = flat_map (deps_of T) (anc_pass (rev T) down)).
  { assert (A: forall a, In a (anc_pass (rev T) down) -> In a (map (fun t => fst (fst t)) T)).
    { intros a Ha. apply in_rev_ids. eapply anc_pass_ids. exact Ha. }
    induction (anc_pass (rev T) down) as [|a l IH]; [reflexivity|]. cbn [flat_map].
    rewrite deps_of_snoc by (apply A; left; reflexivity). rewrite IH; [reflexivity|]. intros a' Ha'. apply A. right. exact Ha'. }
  rewrite F. reflexivity.
Qed.

(* ---------------------------------------------------------------- the refinement *)
Lemma closed_down core0 ids x y : forallb (fun r => subsetN (all_down_c r) ids) core0 = true -> In x core0 -> In y (c_down x) -> In y ids.
Proof. intros H Hx Hy. rewrite forallb_forall in H. specialize (H x Hx). apply subsetN_incl in H. apply H.
  unfold all_down_c. apply dedupe_In. apply in_or_app. left. exact Hy. Qed.
Lemma closed_all core0 ids x y : forallb (fun r => subsetN (all_down_c r) ids) core0 = true -> In x core0 -> In y (all_down_c x) -> In y ids.
Proof. intros H Hx Hy. rewrite forallb_forall in H. specialize (H x Hx). apply subsetN_incl in H. apply H. exact Hy. Qed.

Theorem incremental G r L : load G = MOk L -> wf_new G r = true -> add_revision L r = load (G ++ [r]).
Proof.
  intros HL W. unfold wf_new in W. rewrite !andb_true_iff in W. destruct W as [[[[W1 W2] W3] W4] W5].
  unfold hist_ids, hist_labels in *. rewrite <- map_fst_label_pairs in *.
  unfold load in HL. set (ids := map f_id G) in *. set (keys := flat_map label_pairs G) in *.
  destruct (nodupb (ids ++ map fst keys)) eqn:ND; cbn [negb] in HL; [|discriminate].
  destruct (resolve_revs ids keys G) as [core0|] eqn:RR; [|discriminate].
  destruct (forallb (fun r => subsetN (all_down_c r) ids) core0) eqn:CL; cbn [negb] in HL; [|discriminate].
  injection HL as <-.
  set (rid := f_id r) in *.
  assert (Fids: map c_id core0 = ids) by (eapply resolve_revs_ids; eauto).
  apply negb_true_iff, memN_false_app in W1. destruct W1 as [Rids Rlab]. apply memN_nIn in Rids, Rlab.
  cbn [nodupb] in W2. apply andb_true_iff in W2. destruct W2 as [Rown NDl]. apply negb_true_iff, memN_nIn in Rown.
  assert (W3': forall l, In l (f_labels r) -> ~ In l ids /\ ~ In l (map fst keys)).
  { intros l Hl. rewrite forallb_forall in W3. specialize (W3 l Hl). apply negb_true_iff, memN_false_app in W3.
    destruct W3 as [A B]. apply memN_nIn in A, B. auto. }
  (* the new revision resolves *)
  destruct (resolve_all_total ids keys (f_deps r)) as [ds Hds]. { apply subsetN_incl. exact W5. }
  pose proof (resolve_all_ext ids keys (label_pairs r) rid Rlab _ _ Hds) as Hds'.
  set (new0 := mkC rid (f_down r) (f_deps r) (f_labels r) ds [] []).
  assert (Rnew: resolve_rev (ids ++ [rid]) (keys ++ label_pairs r) r = Some new0) by (unfold resolve_rev; rewrite Hds'; reflexivity).
  assert (Hall: incl (all_down_c new0) ids).
  { intros y Hy. unfold all_down_c in Hy. apply (proj1 (dedupe_In _ _)) in Hy. unfold new0 in Hy. cbn [c_down c_deps] in Hy. apply in_app_or in Hy. destruct Hy as [Hy|Hy].
    - apply subsetN_incl in W4. apply W4. exact Hy.
    - destruct (resolve_all_range _ _ _ _ Hds y Hy) as [H|H]; [exact H|]. apply map_snd_label_pairs. exact H. }
  assert (Hall': subsetN (all_down_c new0) ids = true) by (apply subsetN_incl; exact Hall).
  (* left-hand side *)
  unfold add_revision. cbn [rm_core rm_keys rm_bases rm_rbases rm_heads rm_rheads rm_ndeps].
  rewrite map_c_id_with_children, Fids. fold rid.
  assert (C1: negb (nodupb (f_labels r)) || existsb (fun l => memN l ((ids ++ [rid]) ++ map fst keys)) (f_labels r) = false).
  { rewrite NDl. cbn [negb orb]. apply not_true_is_false. intros H. apply existsb_exists in H. destruct H as [l [Hl Hm]].
    apply memN_In in Hm. destruct (W3' l Hl) as [A B]. apply in_app_or in Hm. destruct Hm as [Hm|Hm]; [|contradiction].
    apply in_app_or in Hm. destruct Hm as [Hm|[<-|[]]]; contradiction. }
  rewrite C1, Rnew. fold new0. rewrite Hall'. cbn [negb].
  (* right-hand side *)
  unfold load. rewrite (map_app f_id G [r]), (flat_map_app label_pairs G [r]).
  change (map f_id [r]) with [rid]. change (flat_map label_pairs [r]) with (label_pairs r ++ []). rewrite (app_nil_r (label_pairs r)). fold ids keys.
  assert (C2: nodupb ((ids ++ [rid]) ++ map fst (keys ++ label_pairs r)) = true).
  { rewrite map_app. assert (E: map fst (label_pairs r) = f_labels r) by (unfold label_pairs; rewrite map_map; apply map_id). rewrite E.
    destruct (nodupb_app_inv _ _ ND) as [N1 [N2 N3]].
    apply nodupb_app_intro.
    - apply nodupb_app_intro; [exact N1|reflexivity|]. intros x Hx [<-|[]]. contradiction.
    - apply nodupb_app_intro; [exact N2|exact NDl|]. intros x Hx Hl. destruct (W3' x Hl). contradiction.
    - intros x Hx Hy. apply in_app_or in Hx, Hy. destruct Hx as [Hx|[<-|[]]], Hy as [Hy|Hy].
      + eapply N3; eauto. + destruct (W3' x Hy). contradiction. + contradiction. + contradiction. }
  rewrite C2. cbn [negb].
  assert (C3: resolve_revs (ids ++ [rid]) (keys ++ label_pairs r) (G ++ [r]) = Some (core0 ++ [new0])).
  { apply resolve_revs_app; [apply resolve_revs_ext; assumption|]. cbn [resolve_revs]. rewrite Rnew. reflexivity. }
  rewrite C3.
  assert (C4: forallb (fun r0 => subsetN (all_down_c r0) (ids ++ [rid])) (core0 ++ [new0]) = true).
  { rewrite forallb_app. cbn [forallb]. rewrite (subsetN_app_r _ _ _ Hall'). rewrite andb_true_r.
    rewrite forallb_forall in *. intros x Hx. apply subsetN_app_r. apply CL. exact Hx. }
  rewrite C4. cbn [negb].
  (* the maps *)
  assert (Rcore: ~ In rid (map c_id core0)) by (rewrite Fids; exact Rids).
  assert (CORE: map (with_children (core0 ++ [new0])) (core0 ++ [new0])
                = add_next rid (f_down r) (all_down_c new0) (map (with_children core0) core0) ++ [new0]).
  { rewrite map_app. cbn [map]. rewrite core_ext. f_equal. f_equal.
    unfold with_children. cbn [c_id c_down c_rawdeps c_labels0 c_deps new0]. unfold new0. f_equal.
    - apply children_none. intros c Hc Hin. apply in_app_or in Hc. destruct Hc as [Hc|[<-|[]]].
      + apply Rids. eapply closed_down; eauto.
      + cbn [c_down] in Hin. apply subsetN_incl in W4. apply Rids. apply W4. exact Hin.
    - apply children_none. intros c Hc Hin. apply in_app_or in Hc. destruct Hc as [Hc|[<-|[]]].
      + apply Rids. eapply closed_all; eauto.
      + apply Rids. apply Hall. exact Hin. }
  rewrite CORE. set (core := map (with_children core0) core0) in *.
  assert (Rc: ~ In rid (map c_id core)) by (unfold core; rewrite map_c_id_with_children; exact Rcore).
  f_equal. f_equal.
  - (* normalised dependencies *)
    rewrite map_app. cbn [map]. rewrite map_app, map_tri_add_next. cbn [map].
    apply f_equal2; [|reflexivity].
    unfold add_next. rewrite map_map. cbn [c_id c_down c_deps].
    apply map_ext_in. intros x Hx. f_equal. symmetry. apply normalize_snoc. cbn [tri_of fst new0 c_id].
    intros Hin. apply Rids. unfold core in Hx. apply in_map_iff in Hx. destruct Hx as [x0 [<- Hx0]]. cbn [with_children c_down] in Hin.
    eapply closed_down; eauto.
  - (* heads *)
    rewrite heads_app, heads_add_next by exact Rc. reflexivity.
  - (* bases *)
    rewrite bases_app, bases_add_next.
    assert (B: bases_c [new0] = if is_base_f (f_down r) then [rid] else []).
    { unfold bases_c, new0. cbn [filter c_down]. destruct (is_base_f (f_down r)); reflexivity. }
    rewrite B. destruct (is_base_f (f_down r)); [reflexivity|symmetry; apply app_nil_r].
  - (* real heads *)
    rewrite rheads_app, rheads_add_next by exact Rc. reflexivity.
  - (* real bases *)
    rewrite rbases_app, rbases_add_next.
    assert (B: rbases_c [new0] = if is_real_base_f (f_down r) (f_deps r) then [rid] else []).
    { unfold rbases_c, new0. cbn [filter c_down c_rawdeps]. destruct (is_real_base_f (f_down r) (f_deps r)); reflexivity. }
    rewrite B. destruct (is_real_base_f (f_down r) (f_deps r)); [reflexivity|symmetry; apply app_nil_r].
Qed.

Lemma add_revision_ok G r L : load G = MOk L -> wf_new G r = true -> exists L', add_revision L r = MOk L'.
Proof.
  intros HL W. unfold wf_new in W. rewrite !andb_true_iff in W. destruct W as [[[[W1 W2] W3] W4] W5].
  unfold hist_ids, hist_labels in *. rewrite <- map_fst_label_pairs in *.
  unfold load in HL. set (ids := map f_id G) in *. set (keys := flat_map label_pairs G) in *.
  destruct (nodupb (ids ++ map fst keys)) eqn:ND; cbn [negb] in HL; [|discriminate].
  destruct (resolve_revs ids keys G) as [core0|] eqn:RR; [|discriminate].
  destruct (forallb (fun r => subsetN (all_down_c r) ids) core0) eqn:CL; cbn [negb] in HL; [|discriminate].
  injection HL as <-.
  set (rid := f_id r) in *.
  assert (Fids: map c_id core0 = ids) by (eapply resolve_revs_ids; eauto).
  apply negb_true_iff, memN_false_app in W1. destruct W1 as [Rids Rlab]. apply memN_nIn in Rids, Rlab.
  cbn [nodupb] in W2. apply andb_true_iff in W2. destruct W2 as [Rown NDl]. apply negb_true_iff, memN_nIn in Rown.
  assert (W3': forall l, In l (f_labels r) -> ~ In l ids /\ ~ In l (map fst keys)).
  { intros l Hl. rewrite forallb_forall in W3. specialize (W3 l Hl). apply negb_true_iff, memN_false_app in W3.
    destruct W3 as [A B]. apply memN_nIn in A, B. auto. }
  (* the new revision resolves *)
  destruct (resolve_all_total ids keys (f_deps r)) as [ds Hds]. { apply subsetN_incl. exact W5. }
  pose proof (resolve_all_ext ids keys (label_pairs r) rid Rlab _ _ Hds) as Hds'.
  set (new0 := mkC rid (f_down r) (f_deps r) (f_labels r) ds [] []).
  assert (Rnew: resolve_rev (ids ++ [rid]) (keys ++ label_pairs r) r = Some new0) by (unfold resolve_rev; rewrite Hds'; reflexivity).
  assert (Hall: incl (all_down_c new0) ids).
  { intros y Hy. unfold all_down_c in Hy. apply (proj1 (dedupe_In _ _)) in Hy. unfold new0 in Hy. cbn [c_down c_deps] in Hy. apply in_app_or in Hy. destruct Hy as [Hy|Hy].
    - apply subsetN_incl in W4. apply W4. exact Hy.
    - destruct (resolve_all_range _ _ _ _ Hds y Hy) as [H|H]; [exact H|]. apply map_snd_label_pairs. exact H. }
  assert (Hall': subsetN (all_down_c new0) ids = true) by (apply subsetN_incl; exact Hall).
  (* left-hand side *)
  unfold add_revision. cbn [rm_core rm_keys rm_bases rm_rbases rm_heads rm_rheads rm_ndeps].
  rewrite map_c_id_with_children, Fids. fold rid.
  assert (C1: negb (nodupb (f_labels r)) || existsb (fun l => memN l ((ids ++ [rid]) ++ map fst keys)) (f_labels r) = false).
  { rewrite NDl. cbn [negb orb]. apply not_true_is_false. intros H. apply existsb_exists in H. destruct H as [l [Hl Hm]].
    apply memN_In in Hm. destruct (W3' l Hl) as [A B]. apply in_app_or in Hm. destruct Hm as [Hm|Hm]; [|contradiction].
    apply in_app_or in Hm. destruct Hm as [Hm|[<-|[]]]; contradiction. }
  rewrite C1, Rnew. fold new0. rewrite Hall'. cbn [negb]. eexists. reflexivity.
Qed.

Lemma load_ids_nodup G L : load G = MOk L -> nodupb (map c_id (rm_core L)) = true /\ map c_id (rm_core L) = map f_id G.
Proof.
  unfold load. destruct (nodupb (map f_id G ++ map fst (flat_map label_pairs G))) eqn:ND; cbn [negb]; [|discriminate].
  destruct (resolve_revs _ _ G) as [core0|] eqn:RR; [|discriminate].
  destruct (forallb _ core0); cbn [negb]; [|discriminate]. intros [= <-]. cbn [rm_core].
  rewrite map_c_id_with_children, (resolve_revs_ids _ _ _ _ RR). split; [|reflexivity].
  apply nodupb_app_inv in ND. tauto.
Qed.

(* a view equals itself *)
Lemma seteqN_refl l : seteqN l l = true.
Proof. apply seteqN_spec. tauto. Qed.
Lemma vrev_eqb_refl v : vrev_eqb v v = true.
Proof. unfold vrev_eqb. rewrite N.eqb_refl, !seteqN_refl. reflexivity. Qed.
Lemma find_v_nodup l : nodupb (map v_id l) = true -> forall r, In r l -> find_v l (v_id r) = Some r.
Proof.
  induction l as [|a l IH]; intros ND r Hr; [contradiction|]. cbn [map nodupb] in ND. apply andb_true_iff in ND. destruct ND as [N1 N2].
  unfold find_v. cbn [find]. destruct Hr as [->|Hr]; [rewrite N.eqb_refl; reflexivity|].
  destruct (N.eqb_spec (v_id a) (v_id r)) as [E|E].
  - exfalso. apply negb_true_iff, memN_nIn in N1. apply N1. rewrite E. apply in_map. exact Hr.
  - apply IH; assumption.
Qed.
Lemma keys_eqb_refl l : keys_eqb l l = true.
Proof. unfold keys_eqb. assert (forallb (fun p => pair_mem p l) l = true).
  { apply forallb_forall. intros p Hp. unfold pair_mem. apply existsb_exists. exists p. rewrite !N.eqb_refl. auto. }
  rewrite H. reflexivity. Qed.
Lemma view_eqb_refl L : nodupb (map c_id (rm_core L)) = true -> view_eqb (view_of L) (view_of L) = true.
Proof.
  intros ND. unfold view_eqb, view_of. cbn [vw_revs vw_keys vw_heads vw_bases vw_rheads vw_rbases].
  rewrite keys_eqb_refl, !seteqN_refl, !andb_true_r. unfold vrevs_eqb. rewrite seteqN_refl.
  assert (E: map v_id (map (fun r => mkV (c_id r) (c_down r) (c_deps r) (assocL (c_id r) (rm_ndeps L)) (c_next r) (c_allnext r) (assocL (c_id r) (rm_labels L))) (rm_core L)) = map c_id (rm_core L)).
  { rewrite map_map. reflexivity. }
  rewrite E, ND. cbn [andb]. apply forallb_forall. intros v Hv. rewrite find_v_nodup; [apply vrev_eqb_refl| |exact Hv]. rewrite E. exact ND.
Qed.
