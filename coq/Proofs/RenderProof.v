(* Proofs about Model/Render.v: the printed token list lexes back to the intended tokens; every renderer
   passes its string fields through repr except the table prefixes; reading a rendered tree back gives the
   operation objects on the canonical class. *)
From Coq Require Import String Ascii.
From AV Require Import Model.PyRepr Model.Render Spec.C08 Proofs.PyReprProof.
Open Scope N_scope.

(* ================================================================ part 1: untok / py_lex *)
(* character class facts, by computation over the finite punctuation set *)
Lemma punct_cases c : is_punct c = true ->
  c = 40 \/ c = 41 \/ c = 91 \/ c = 93 \/ c = 44 \/ c = 61 \/ c = 46 \/ c = 45 \/ c = 42 \/ c = 58 \/ c = 123 \/ c = 125 \/ c = 43.
Proof.
  unfold is_punct. cbn [existsb]. intros H.
  repeat (apply orb_true_iff in H; destruct H as [H|H]; [apply N.eqb_eq in H; subst; tauto|]). discriminate.
Qed.

Lemma idle_punct out c : is_punct c = true -> idle_step out c = (LIdle, Punct c :: out).
Proof. intros H. apply punct_cases in H. repeat (destruct H as [->|H]; [reflexivity|]). subst; reflexivity. Qed.

Lemma punct_not_ident c : is_punct c = true -> is_ident_char c = false.
Proof. intros H. apply punct_cases in H. repeat (destruct H as [->|H]; [reflexivity|]). subst; reflexivity. Qed.
Lemma punct_not_quote c : is_punct c = true -> is_quote c = false.
Proof. intros H. apply punct_cases in H. repeat (destruct H as [->|H]; [reflexivity|]). subst; reflexivity. Qed.
Lemma punct_not_digit c : is_punct c = true -> is_digit c = false.
Proof. intros H. apply punct_cases in H. repeat (destruct H as [->|H]; [reflexivity|]). subst; reflexivity. Qed.
Lemma punct_not_start c : is_punct c = true -> is_ident_start c = false.
Proof. intros H. apply punct_cases in H. repeat (destruct H as [->|H]; [reflexivity|]). subst; reflexivity. Qed.

(* the lexer state between two tokens *)
Definition bstate (printable : N -> bool) (prev : option ptok) : lstate :=
  match prev with
  | None | Some (TPunct _) => LIdle
  | Some (TName s) => LName (rev s)
  | Some (TNum d) => LNum (rev d)
  | Some (TStr _ s) => after_str s (choose_quote s)
  end.
(* tokens still to be flushed by the state *)
Definition pend (prev : option ptok) : list pytoken :=
  match prev with Some (TName s) => [Name s] | Some (TNum d) => [NumTok d] | _ => [] end.
(* tokens a token adds to the output as soon as its text is consumed *)
Definition done (t : ptok) : list pytoken :=
  match t with TPunct c => [Punct c] | TStr _ s => [StrTok s] | _ => [] end.

Lemma name_run out : forall r acc, forallb is_ident_char r = true ->
  lex_run (LName acc, out) r = (LName (rev r ++ acc), out).
Proof.
  induction r as [|c r IH]; intros acc H; [reflexivity|].
  cbn [forallb] in H. apply andb_true_iff in H. destruct H as [Hc Hr].
  rewrite lex_run_cons. cbn [lex_step]. rewrite Hc. rewrite IH by assumption.
  cbn [rev]. rewrite <- app_assoc. reflexivity.
Qed.

Lemma start_is_char c : is_ident_start c = true -> is_ident_char c = true.
Proof. intros H. unfold is_ident_char. rewrite H. reflexivity. Qed.

Lemma name_from_idle out s : valid_ident s = true -> lex_run (LIdle, out) s = (LName (rev s), out).
Proof.
  destruct s as [|c r]; [discriminate|]. cbn [valid_ident]. intros H. apply andb_true_iff in H. destruct H as [Hc Hr].
  rewrite lex_run_cons. cbn [lex_step]. unfold idle_step.
  assert (Hs: is_space c = false).
  { unfold is_space, is_ident_start in *. destruct (N.eqb_spec c 32), (N.eqb_spec c 10), (N.eqb_spec c 13), (N.eqb_spec c 9); subst; try discriminate; reflexivity. }
  rewrite Hs, Hc. rewrite name_run by assumption. reflexivity.
Qed.

Lemma digits_run out : forall r acc, forallb is_digit r = true -> (length acc >= 2)%nat \/ (exists c, acc = [c] /\ c <> 48) ->
  lex_run (LNum acc, out) r = (LNum (rev r ++ acc), out).
Proof.
  induction r as [|c r IH]; intros acc H Hacc; [reflexivity|].
  cbn [forallb] in H. apply andb_true_iff in H. destruct H as [Hc Hr].
  rewrite lex_run_cons. cbn [lex_step]. rewrite Hc.
  assert (E: str_eqb acc [48] = false).
  { destruct Hacc as [L|[d [-> Hd]]].
    - destruct acc as [|a [|b acc']]; cbn in L; try lia. unfold str_eqb. cbn. rewrite andb_false_r. reflexivity.
    - unfold str_eqb. cbn. apply N.eqb_neq in Hd. rewrite Hd. reflexivity. }
  rewrite E. rewrite IH; [|assumption|left; destruct Hacc as [L|[d0 [-> _]]]; cbn in *; lia].
  cbn [rev]. rewrite <- app_assoc. reflexivity.
Qed.

Lemma digit_idle out c : is_digit c = true -> idle_step out c = (LNum [c], out).
Proof.
  intros H. unfold idle_step.
  assert (is_space c = false /\ is_ident_start c = false) as [H1 H2].
  { unfold is_digit, is_space, is_ident_start in *. apply andb_true_iff in H. destruct H as [Ha Hb].
    apply N.leb_le in Ha, Hb. split.
    - rewrite !orb_false_iff, !N.eqb_neq. lia.
    - rewrite !orb_false_iff, !andb_false_iff, !N.leb_gt, N.eqb_neq. lia. }
  rewrite H1, H2, H. reflexivity.
Qed.

Lemma num_from_idle out d : valid_digits d = true -> lex_run (LIdle, out) d = (LNum (rev d), out).
Proof.
  destruct d as [|c r]; [discriminate|]. cbn [valid_digits].
  destruct r as [|c2 r].
  - intros H. rewrite lex_run_cons. cbn [lex_step]. rewrite digit_idle by assumption. reflexivity.
  - intros H. apply andb_true_iff in H. destruct H as [H Hr]. apply andb_true_iff in H. destruct H as [Hc Hz].
    rewrite lex_run_cons. cbn [lex_step]. rewrite digit_idle by assumption.
    rewrite digits_run; [|assumption|right; exists c; split; auto; apply negb_true_iff, N.eqb_neq in Hz; assumption].
    cbn [rev]. rewrite <- !app_assoc. reflexivity.
Qed.

Section Tokens.
  Variable printable : N -> bool.

  (* lexing the text of one token from the idle state *)
  Lemma text_from_idle out t : wf_tok t = true -> via_repr_tok t = true ->
    lex_run (LIdle, out) (tok_text printable t) = (bstate printable (Some t), done t ++ out).
  Proof.
    intros W V. destruct t as [s|c|h s|d]; cbn [tok_text bstate done wf_tok] in *.
    - apply name_from_idle; assumption.
    - rewrite lex_run_cons. cbn [lex_step]. rewrite idle_punct by assumption. reflexivity.
    - destruct h; [|discriminate]. unfold py_repr. rewrite lex_run_cons.
      change (lex_step (LIdle, out) (choose_quote s)) with (idle_step out (choose_quote s)).
      apply repr_lex_from. unfold valid_strb in W. rewrite forallb_forall in W.
      apply Forall_forall. intros x Hx. apply N.leb_le. apply W; assumption.
    - apply num_from_idle; assumption.
  Qed.

  (* flushing: a space after a wordy token, or a punctuation character right after it *)
  Lemma space_flush out prev : (forall t, prev = Some t -> wf_tok t = true) ->
    lex_run (bstate printable prev, out) [32] = (LIdle, pend prev ++ out).
  Proof.
    intros W. destruct prev as [[s|c|h s|d]|]; cbn [bstate pend]; try reflexivity.
    - cbn. rewrite rev_involutive. reflexivity.
    - unfold after_str. destruct s; [|reflexivity].
      reflexivity.
    - cbn. rewrite rev_involutive. reflexivity.
  Qed.

  Lemma first_char_not_quote t q : wf_tok t = true -> via_repr_tok t = true -> quote_ok q ->
    match t with TStr _ _ => True | _ => match tok_text printable t with c :: _ => c <> q | [] => True end end.
  Proof.
    intros W V Hq. destruct t as [s|c|h s|d]; cbn [tok_text wf_tok] in *; auto.
    - destruct s as [|c r]; auto. cbn [valid_ident] in W. apply andb_true_iff in W. destruct W as [W _].
      intros ->. destruct Hq as [-> | ->]; discriminate.
    - intros ->. destruct Hq as [-> | ->]; discriminate.
    - destruct d as [|c r]; auto. assert (is_digit c = true).
      { cbn [valid_digits] in W. destruct r; [assumption|]. apply andb_true_iff in W. destruct W as [W _].
        apply andb_true_iff in W. destruct W; assumption. }
      intros ->. destruct Hq as [-> | ->]; discriminate.
  Qed.

  (* one token after another *)
  Lemma tok_step out prev t :
    (forall p, prev = Some p -> wf_tok p = true) -> wf_tok t = true -> via_repr_tok t = true ->
    lex_run (bstate printable prev, out)
            ((match prev with Some p => if needs_space p t then [32] else [] | None => [] end) ++ tok_text printable t)
    = (bstate printable (Some t), done t ++ pend prev ++ out).
  Proof.
    intros Wp W V. destruct prev as [p|]; [|cbn [app bstate pend]; apply text_from_idle; assumption].
    destruct (needs_space p t) eqn:NS.
    - rewrite lex_run_app, space_flush by assumption. apply text_from_idle; assumption.
    - cbn [app]. unfold needs_space in NS. apply orb_false_iff in NS. destruct NS as [NS1 NS2].
      destruct p as [s|c|h s|d]; cbn [wordy andb] in NS1.
      + (* name then punctuation *)
        destruct t as [s'|c'|h' s'|d']; try discriminate. cbn [tok_text bstate pend done wf_tok] in *.
        rewrite lex_run_cons. cbn [lex_step].
        rewrite (punct_not_ident _ W), (punct_not_quote _ W). cbn [andb].
        rewrite rev_involutive, idle_punct by assumption. reflexivity.
      + cbn [bstate pend]. apply text_from_idle; assumption.
      + (* string then punctuation *)
        destruct t as [s'|c'|h' s'|d']; try discriminate. cbn [tok_text bstate pend done wf_tok] in *.
        unfold after_str. destruct s.
        * rewrite lex_run_cons. cbn [lex_step].
          assert (E: (c' =? choose_quote []) = false).
          { apply N.eqb_neq. intros ->. discriminate. }
          rewrite E, idle_punct by assumption. reflexivity.
        * rewrite lex_run_cons. cbn [lex_step]. rewrite idle_punct by assumption. reflexivity.
      + (* number then punctuation other than the dot *)
        destruct t as [s'|c'|h' s'|d']; try discriminate. cbn [tok_text bstate pend done wf_tok] in *.
        rewrite lex_run_cons. cbn [lex_step].
        rewrite (punct_not_digit _ W), (punct_not_start _ W).
        assert (E: (c' =? 46) = false).
        { destruct (N.eqb_spec c' 46); [subst; discriminate|reflexivity]. }
        rewrite E. cbn [orb]. rewrite rev_involutive, idle_punct by assumption. reflexivity.
  Qed.

  Lemma untok_lex : forall l prev out,
    (forall p, prev = Some p -> wf_tok p = true) -> forallb wf_tok l = true -> forallb via_repr_tok l = true ->
    lex_finish (lex_run (bstate printable prev, out)
                  ((match prev, l with Some p, t :: _ => if needs_space p t then [32] else [] | _, _ => [] end) ++ untok printable l))
    = Ok (rev out ++ pend prev ++ map erase l).
  Proof.
    induction l as [|t r IH]; intros prev out Wp W V.
    - cbn [untok map]. rewrite app_nil_r.
      destruct prev as [[s|c|h s|d]|]; cbn [app lex_run fold_left bstate pend lex_finish]; try (rewrite app_nil_r; reflexivity).
      + cbn [rev]. rewrite rev_involutive. reflexivity.
      + unfold after_str. destruct s; cbn [lex_finish]; rewrite app_nil_r; reflexivity.
      + cbn [rev]. rewrite rev_involutive. reflexivity.
    - cbn [forallb] in W, V. apply andb_true_iff in W, V. destruct W as [Wt Wr], V as [Vt Vr].
      cbn [untok]. rewrite app_assoc, lex_run_app.
      rewrite (tok_step out prev t Wp Wt Vt).
      specialize (IH (Some t) (done t ++ pend prev ++ out)).
      rewrite IH; [|intros p [= <-]; assumption|assumption|assumption].
      f_equal. cbn [map]. rewrite !rev_app_distr, <- !app_assoc. f_equal.
      destruct prev as [[s|c|h s|d]|], t as [s'|c'|h' s'|d']; reflexivity.
  Qed.

  Theorem lex_untok l : forallb wf_tok l = true -> forallb via_repr_tok l = true ->
    py_lex (untok printable l) = Ok (map erase l).
  Proof.
    intros W V. unfold py_lex. pose proof (untok_lex l None [] (fun p H => ltac:(discriminate)) W V) as H.
    cbn [bstate pend rev app] in H. exact H.
  Qed.

  Theorem print_lex e : wf_expr e = true -> all_leaves_via_repr e = true ->
    py_lex (print printable e) = Ok (tokens e).
  Proof. intros W V. apply lex_untok; assumption. Qed.
End Tokens.

(* ================================================================ part 2: every renderer goes through repr *)
Notation avr := all_leaves_via_repr.
Arguments kwlist : simpl never.
Arguments okw : simpl never.

Lemma forallb_map {A B} (f:B -> bool) (g:A -> B) l : forallb f (map g l) = forallb (fun x => f (g x)) l.
Proof. induction l as [|a r IH]; [reflexivity|]. cbn [map forallb]. rewrite IH. reflexivity. Qed.

Lemma avr_commas l : forallb via_repr_tok (commas l) = forallb (forallb via_repr_tok) l.
Proof.
  induction l as [|x r IH]; [reflexivity|]. cbn [commas forallb]. rewrite forallb_app. f_equal.
  destruct r; [reflexivity|]. cbn [forallb] in *. exact IH.
Qed.
Lemma avr_dotted p : forallb via_repr_tok (dotted p) = true.
Proof. induction p as [|x r IH]; [reflexivity|]. cbn [dotted forallb]. destruct r; [reflexivity|]. exact IH. Qed.
Lemma avr_call p args : avr (PCall p args) = forallb avr args.
Proof.
  unfold avr, all_leaves_via_repr. cbn [toks]. rewrite forallb_app, avr_dotted. cbn [forallb andb].
  rewrite forallb_app, avr_commas. cbn [forallb]. rewrite andb_true_r. rewrite forallb_map. reflexivity.
Qed.
Lemma avr_list l : avr (PList l) = forallb avr l.
Proof.
  unfold avr, all_leaves_via_repr. cbn [toks forallb andb].
  rewrite forallb_app, avr_commas. cbn [forallb]. rewrite andb_true_r. rewrite forallb_map. reflexivity.
Qed.
Lemma avr_kw k v : avr (PKw k v) = avr v.
Proof. reflexivity. Qed.
Lemma avr_okw k x : forallb avr (okw k x) = match x with Some e => avr e | None => true end.
Proof. destruct x; unfold okw; cbn [forallb]; [rewrite avr_kw, andb_true_r|]; reflexivity. Qed.
Lemma avr_kwlist l : forallb avr (kwlist l) = forallb (fun kv => match snd kv with Some e => avr e | None => true end) l.
Proof. induction l as [|[k x] r IH]; [reflexivity|]. unfold kwlist in *. cbn [flat_map]. rewrite forallb_app, avr_okw. cbn [forallb fst snd]. f_equal. exact IH. Qed.
Lemma avr_map_Sr l : forallb avr (map Sr l) = true.
Proof. induction l; auto. Qed.
Lemma avr_map_id l : forallb avr (map id_ l) = true.
Proof. induction l; auto. Qed.
Lemma avr_map_ref l : forallb avr (map (fun r => Sr (ref_text r)) l) = true.
Proof. induction l; auto. Qed.

(* "match x with Some e => avr e | None => true end" for the optional keyword values *)
Definition mo (x:option pyexpr) : bool := match x with Some e => avr e | None => true end.
Lemma avr_kwlist' l : forallb avr (kwlist l) = forallb (fun kv => mo (snd kv)) l.
Proof. apply avr_kwlist. Qed.
Lemma avr_bool b : avr (PBool b) = true. Proof. destruct b; reflexivity. Qed.
Lemma mo_opt_b x : mo (opt_b x) = true. Proof. destruct x as [[|]|]; reflexivity. Qed.
Lemma mo_opt_s x : mo (opt_s x) = true. Proof. destruct x; reflexivity. Qed.
Lemma mo_opt_i x : mo (opt_i x) = true. Proof. destruct x; reflexivity. Qed.
Lemma mo_when b e : avr e = true -> mo (when b e) = true. Proof. intros H. destruct b; [exact H|reflexivity]. Qed.
Lemma mo_some e : avr e = true -> mo (Some e) = true. Proof. auto. Qed.
Lemma mo_none : mo None = true. Proof. reflexivity. Qed.
Lemma mo_if (b:bool) x : mo x = true -> mo (if b then None else x) = true. Proof. destruct b; auto. Qed.
Lemma mo_tri {A} (f:A -> pyexpr) t : (forall a, avr (f a) = true) -> mo (tri_v f t) = true.
Proof. intros H. destruct t; cbn; auto. Qed.
Lemma mo_map {A} (f:A -> pyexpr) x : (forall a, avr (f a) = true) -> mo (option_map f x) = true.
Proof. intros H. destruct x; cbn; auto. Qed.
Lemma avr_Sr s : avr (Sr s) = true. Proof. reflexivity. Qed.
Lemma avr_id i : avr (id_ i) = true. Proof. reflexivity. Qed.
Lemma avr_or_none_s x : avr (or_none Sr x) = true. Proof. destruct x; reflexivity. Qed.
Lemma avr_or_none_i x : avr (or_none id_ x) = true. Proof. destruct x; reflexivity. Qed.
Lemma avr_rname c hb n : avr (rname c hb n) = true. Proof. destruct n; reflexivity. Qed.

Lemma mo_opt_n x : mo (opt_n x) = true. Proof. destruct x as [[[|] d]|]; reflexivity. Qed.
Lemma avr_or_none_b x : avr (or_none PBool x) = true. Proof. destruct x as [[|]|]; reflexivity. Qed.
Ltac mo_solve :=
  lazymatch goal with
  | |- mo (opt_b _) = true => apply mo_opt_b
  | |- mo (opt_n _) = true => apply mo_opt_n
  | |- avr (or_none PBool _) = true => apply avr_or_none_b
  | |- mo (option_map _ ?x) = true => destruct x; reflexivity
  | |- mo (opt_s _) = true => apply mo_opt_s
  | |- mo (opt_i _) = true => apply mo_opt_i
  | |- mo None = true => reflexivity
  | |- mo (if _ then None else _) = true => apply mo_if; mo_solve
  | |- mo (when _ _) = true => apply mo_when; mo_solve
  | |- mo (Some _) = true => apply mo_some; mo_solve
  | |- avr (PBool _) = true => apply avr_bool
  | |- avr (Sr _) = true => reflexivity
  | |- avr (id_ _) = true => reflexivity
  | |- avr (or_none Sr _) = true => apply avr_or_none_s
  | |- avr (or_none id_ _) = true => apply avr_or_none_i
  | |- avr (rname _ _ _) = true => apply avr_rname
  | |- _ => first [assumption | reflexivity]
  end.
Ltac kw_solve := unfold ixkw_items; cbn [app]; rewrite avr_kwlist'; cbn [forallb fst snd]; repeat (apply andb_true_iff; split); try mo_solve.

Lemma avr_repr_type c t : ty_ok t = true -> avr (repr_type c t) = true.
Proof. intros H. unfold repr_type. destruct (ty_mod t); rewrite avr_call; exact H. Qed.
Lemma avr_sd c d : avr (render_server_default c d) = true.
Proof.
  destruct d as [s|s|s p|i|]; try reflexivity; cbn [render_server_default]; rewrite avr_call.
  - cbn [forallb]. rewrite avr_Sr. kw_solve.
  - kw_solve.
Qed.
Lemma mo_oty c t : oty_ok t = true -> mo (option_map (repr_type c) t) = true.
Proof. destruct t; cbn; [apply avr_repr_type|auto]. Qed.

Lemma avr_column c x : col_ty_ok x = true -> avr (render_column c x) = true.
Proof.
  intros H. unfold render_column. rewrite avr_call, forallb_app, forallb_app.
  cbn [forallb]. rewrite avr_id, (avr_repr_type c _ H).
  assert (A: forall d, avr (render_server_default c d) = true) by (apply avr_sd).
  apply andb_true_iff; split; [|apply andb_true_iff; split].
  - reflexivity.
  - unfold pos_default. destruct (c_default x) as [d|]; [destruct (positional_default d)|]; cbn [forallb]; rewrite ?A; reflexivity.
  - kw_solve. unfold kw_default. destruct (c_default x) as [d|]; [destruct (positional_default d)|]; cbn; rewrite ?A; reflexivity.
Qed.

Lemma mo_opt_name c n : mo (opt_name c n) = true.
Proof. unfold opt_name. apply mo_when, avr_rname. Qed.

Lemma avr_constraint c k e : render_constraint c k = Some e -> avr e = true.
Proof.
  destruct k as [cols n|cols refs n ou od i d ua m|cols n d i|s n]; cbn [render_constraint].
  - destruct cols as [|c0 cols]; [discriminate|]. remember (c0 :: cols) as cc. intros [= <-]. rewrite avr_call, forallb_app, avr_map_id. kw_solve. apply mo_opt_name.
  - intros [= <-]. rewrite avr_call. cbn [app forallb]. rewrite ?forallb_app, !avr_list, avr_map_id, avr_map_ref. cbn [andb]. kw_solve. apply mo_opt_name.
  - intros [= <-]. rewrite avr_call, forallb_app, avr_map_id. kw_solve. apply mo_opt_name.
  - intros [= <-]. rewrite avr_call. cbn [app forallb]. rewrite ?forallb_app, avr_Sr. cbn [andb]. kw_solve. apply mo_opt_name.
Qed.

Lemma avr_somes c l : forallb avr (somes (map (render_constraint c) l)) = true.
Proof.
  induction l as [|k r IH]; [reflexivity|]. cbn [map somes]. destruct (render_constraint c k) eqn:E; [|exact IH].
  cbn [forallb]. rewrite (avr_constraint _ _ _ E). exact IH.
Qed.

Lemma avr_create_table c t : forallb col_ty_ok (t_cols t) = true -> avr (render_create_table c t) = true.
Proof.
  intros H. unfold render_create_table. rewrite avr_call, forallb_app. cbn [forallb]. rewrite forallb_app, avr_somes, avr_id.
  assert (A: forallb avr (map (render_column c) (t_cols t)) = true).
  { rewrite forallb_map. rewrite forallb_forall in *. intros x Hx. apply avr_column. apply H; assumption. }
  rewrite A. kw_solve. destruct (t_prefixes t) as [|p ps]; [reflexivity|]. unfold mo. rewrite avr_list. apply avr_map_Sr.
Qed.

Lemma avr_map_ix c l : forallb avr (map (render_ixexpr c) l) = true.
Proof. induction l as [|[i|s] r IH]; cbn [map forallb]; rewrite ?IH; reflexivity. Qed.

Lemma avr_tbl_op c hb tn s o : tbl_op_ty_ok o = true -> avr (render_tbl_op c hb tn s o) = true.
Proof.
  intros H.
  assert (A: forall d, avr (render_server_default c d) = true) by (apply avr_sd).
  assert (T: forallb avr (if hb then [] else [id_ tn]) = true) by (destruct hb; reflexivity).
  destruct o; cbn [render_tbl_op tbl_op_ty_ok] in *; rewrite avr_call, ?forallb_app; cbn [forallb];
    rewrite ?T, ?avr_rname, ?avr_list, ?avr_map_id, ?avr_map_ix, ?avr_or_none_s, ?avr_or_none_i, ?avr_id; cbn [andb].
  - rewrite (avr_column c _ H). kw_solve.
  - kw_solve.
  - apply andb_true_iff in H. destruct H as [H1 H2]. kw_solve;
      try (apply mo_oty; assumption); try (apply mo_tri; first [exact A|exact avr_Sr]).
    + destruct (a_nullable a); mo_solve.
    + destruct (a_server_default a); try mo_solve. apply mo_map; exact A.
  - kw_solve.
  - kw_solve.
  - kw_solve.
  - kw_solve.
  - kw_solve.
  - kw_solve.
  - kw_solve.
Qed.

(* the table lemma: every expression of a rendered script has all its leaves via repr *)
Theorem render_all_via_repr c ops : forallb top_ty_ok ops = true ->
  forallb (fun st => forallb avr (stmt_exprs st)) (render_ops c ops) = true.
Proof.
  intros T. unfold render_ops. induction ops as [|o r IH]; [reflexivity|].
  cbn [forallb] in T. apply andb_true_iff in T. destruct T as [To Tr].
  cbn [flat_map]. rewrite forallb_app, (IH Tr), andb_true_r.
  destruct o as [t| |sql|n s ie ty|tn s o|tn s l]; cbn [render_top top_ty_ok] in *.
  - cbn [forallb stmt_exprs]. rewrite avr_create_table; auto.
  - reflexivity.
  - reflexivity.
  - cbn [forallb stmt_exprs]. unfold render_drop_table. rewrite avr_call, forallb_app. cbn [forallb]. rewrite avr_id. cbn [andb].
    rewrite andb_true_r. kw_solve.
  - cbn [forallb stmt_exprs]. rewrite avr_tbl_op; auto.
  - destruct l as [|m l]; [reflexivity|]. destruct (cfg_batch c).
    + cbn [forallb stmt_exprs]. rewrite andb_true_r. apply andb_true_iff. split.
      * rewrite avr_call, forallb_app. cbn [forallb]. rewrite avr_id. cbn [andb]. kw_solve.
      * rewrite forallb_map. rewrite forallb_forall in *. intros x Hx. apply avr_tbl_op. apply To; assumption.
    + rewrite forallb_map. rewrite forallb_forall in *. intros x Hx. cbn [stmt_exprs forallb]. rewrite avr_tbl_op; auto.
Qed.

(* ================================================================ part 3: reading a rendered tree back *)
Lemma str_eqb_refl s : str_eqb s s = true.
Proof. apply list_eqbN_eq. reflexivity. Qed.
Lemma str_eqb_eq a b : str_eqb a b = true -> a = b.
Proof. apply list_eqbN_eq. Qed.

(* comparisons of two renderer literals are decided by computation *)
Ltac lit_cmp := repeat match goal with
  | |- context [str_eqb (lit ?a) (lit ?b)] =>
      let r := eval vm_compute in (str_eqb (lit a) (lit b)) in change (str_eqb (lit a) (lit b)) with r
  end.

Fixpoint assoc (k:string) (l:list (string * option pyexpr)) : option pyexpr :=
  match l with
  | [] => None
  | (k', x) :: r => if String.eqb k k' then (match x with Some v => Some v | None => assoc k r end) else assoc k r
  end.

Lemma N_of_ascii_inj a b : N_of_ascii a = N_of_ascii b -> a = b.
Proof. intros H. rewrite <- (ascii_N_embedding a), <- (ascii_N_embedding b), H. reflexivity. Qed.
Lemma lit_inj a : forall b, lit a = lit b -> a = b.
Proof.
  induction a as [|x a IH]; destruct b as [|y b]; cbn; intros H; try discriminate; auto.
  injection H as H1 H2. apply N_of_ascii_inj in H1. subst. f_equal. apply IH. exact H2.
Qed.
Lemma lit_eqb a b : str_eqb (lit a) (lit b) = String.eqb a b.
Proof.
  destruct (String.eqb_spec a b) as [->|N]; [apply str_eqb_refl|].
  destruct (str_eqb (lit a) (lit b)) eqn:E; [|reflexivity]. apply str_eqb_eq, lit_inj in E. contradiction.
Qed.

Lemma get_kw_app k a b : get_kw k (a ++ b) = match get_kw k a with Some v => Some v | None => get_kw k b end.
Proof.
  induction a as [|e a IH]; [reflexivity|]. cbn [app get_kw]. destruct e; try exact IH.
  destruct (str_eqb k k0); [reflexivity|exact IH].
Qed.
Lemma get_kw_kwlist k l : get_kw (lit k) (kwlist l) = assoc k l.
Proof.
  induction l as [|[k' x] r IH]; [reflexivity|]. unfold kwlist in *. cbn [flat_map fst snd assoc]. rewrite get_kw_app, IH.
  unfold okw. destruct x as [v|]; cbn [get_kw].
  - rewrite lit_eqb. destruct (String.eqb k k'); reflexivity.
  - destruct (String.eqb k k'); reflexivity.
Qed.

Definition is_kw (e:pyexpr) : bool := match e with PKw _ _ => true | _ => false end.
Definition no_kw (l:list pyexpr) : bool := forallb (fun e => negb (is_kw e)) l.
Lemma get_kw_no_kw k l : no_kw l = true -> get_kw k l = None.
Proof. induction l as [|e r IH]; [reflexivity|]. cbn [no_kw forallb]. intros H. apply andb_true_iff in H. destruct H as [H1 H2].
  destruct e; try discriminate; cbn [get_kw]; apply IH; exact H2. Qed.
Lemma kwarg_args k pos l : no_kw pos = true -> kwarg k (pos ++ kwlist l) = assoc k l.
Proof. intros H. unfold kwarg. rewrite get_kw_app, get_kw_no_kw by assumption. apply get_kw_kwlist. Qed.

Lemma kwlist_all_kw l : forallb is_kw (kwlist l) = true.
Proof. induction l as [|[k x] r IH]; [reflexivity|]. unfold kwlist in *. cbn [flat_map]. rewrite forallb_app, IH. destruct x; reflexivity. Qed.
Lemma nth_error_all_kw l : forallb is_kw l = true -> forall i, match nth_error l i with Some e => is_kw e = true | None => True end.
Proof. induction l as [|e r IH]; intros H i; destruct i; cbn; auto. - cbn in H. apply andb_true_iff in H. tauto.
  - apply IH. cbn in H. apply andb_true_iff in H. tauto. Qed.
Lemma nth_pos_kws l i : forallb is_kw l = true -> nth_pos i l = None.
Proof. intros H. unfold nth_pos. pose proof (nth_error_all_kw l H i) as N. destruct (nth_error l i) as [e|]; [|reflexivity].
  destruct e; try discriminate; reflexivity. Qed.
Lemma nth_pos_app_r pos l i : (length pos <= i)%nat -> nth_pos i (pos ++ kwlist l) = None.
Proof.
  intros H. unfold nth_pos. rewrite nth_error_app2 by assumption.
  apply (nth_pos_kws (kwlist l) (i - length pos) (kwlist_all_kw l)).
Qed.
Lemma nth_pos_app_l pos r i e : nth_error pos i = Some e -> is_kw e = false -> nth_pos i (pos ++ r) = Some e.
Proof.
  intros H K. unfold nth_pos. rewrite nth_error_app1 by (apply nth_error_Some; congruence). rewrite H.
  destruct e; try reflexivity; discriminate.
Qed.
Lemma positionals_kws l : forallb is_kw l = true -> positionals l = [].
Proof. destruct l as [|e r]; [reflexivity|]. cbn. intros H. apply andb_true_iff in H. destruct H as [H _]. destruct e; try discriminate; reflexivity. Qed.
Lemma positionals_app pos l : no_kw pos = true -> positionals (pos ++ kwlist l) = pos.
Proof.
  induction pos as [|e r IH]; cbn [app]; intros H.
  - apply positionals_kws, kwlist_all_kw.
  - cbn [no_kw forallb] in H. apply andb_true_iff in H. destruct H as [H1 H2]. destruct e; try discriminate; cbn [positionals]; rewrite IH; auto.
Qed.
Lemma opt_id {A} (x:option A) : match x with Some v => Some v | None => None end = x.
Proof. destruct x; reflexivity. Qed.

(* field by field *)
Lemma rt_opt_b x : opt_arg as_bool (opt_b x) = Some x.
Proof. destruct x as [[|]|]; reflexivity. Qed.
Lemma rt_opt_s x : opt_arg as_str (opt_s x) = Some x.
Proof. destruct x; reflexivity. Qed.
Lemma rt_opt_s_truthy x : can_ostr x = true -> opt_arg as_str (opt_s (truthy_s x)) = Some x.
Proof. destruct x as [[|]|]; cbn; intros; try discriminate; reflexivity. Qed.
Lemma rt_opt_i x : match x with Some i => can_ident i | None => true end = true -> opt_arg as_ident (opt_i x) = Some x.
Proof. destruct x as [[s [q|]]|]; cbn; intros; try discriminate; reflexivity. Qed.
Lemma rt_opt_i_truthy x : can_oident x = true -> opt_arg as_ident (opt_i (truthy x)) = Some x.
Proof. destruct x as [[[|ch s] [q|]]|]; cbn; intros; try discriminate; reflexivity. Qed.
Lemma rt_id i : can_ident i = true -> as_ident (id_ i) = Some i.
Proof. destruct i as [s [q|]]; cbn; intros; try discriminate; reflexivity. Qed.
Lemma rt_ids l : forallb can_ident l = true -> mapM as_ident (map id_ l) = Some l.
Proof. induction l as [|i r IH]; [reflexivity|]. cbn [forallb map mapM]. intros H. apply andb_true_iff in H. destruct H as [H1 H2].
  rewrite (rt_id _ H1). cbn [obind]. rewrite (IH H2). reflexivity. Qed.
Lemma rt_strs l : mapM as_str (map Sr l) = Some l.
Proof. induction l as [|i r IH]; [reflexivity|]. cbn [map mapM as_str Sr obind]. rewrite IH. reflexivity. Qed.
Lemma rt_cname c hb n : can_cname n = true -> as_cname c (rname c hb n) = Some n.
Proof.
  destruct n as [|[s [q|]]|s]; cbn; intros H; try discriminate; try reflexivity.
  unfold aprefix. destruct hb.
  - lit_cmp. rewrite str_eqb_refl, orb_true_r. reflexivity.
  - lit_cmp. rewrite str_eqb_refl. reflexivity.
Qed.
Lemma rt_opt_name c n : can_cname n = true ->
  match opt_name c n with None => Some NoName | Some e => as_cname c e end = Some n.
Proof.
  intros H. unfold opt_name, when. destruct (has_name n) eqn:E.
  - apply rt_cname. exact H.
  - destruct n as [|[[|ch s] q]|[|ch s]]; cbn in *; try discriminate; try reflexivity.
    + apply andb_true_iff in H. destruct H; discriminate.
Qed.
Lemma rt_type c t : can_ty c t = true -> as_type c (repr_type c t) = Some t.
Proof.
  destruct t as [m p a]. unfold can_ty, repr_type. cbn [ty_mod ty_path ty_args]. destruct m as [|d]; intros H; cbn [as_type].
  - rewrite str_eqb_refl. reflexivity.
  - apply negb_true_iff in H. rewrite H. reflexivity.
Qed.
Lemma repr_type_not_none c t : repr_type c t <> PNone.
Proof. unfold repr_type. destruct (ty_mod t); discriminate. Qed.
Lemma rt_otype c t : match t with Some t => can_ty c t | None => true end = true ->
  opt_arg (as_type c) (option_map (repr_type c) t) = Some t.
Proof.
  destruct t as [t|]; [|reflexivity]. intros H. cbn [option_map opt_arg].
  pose proof (rt_type c t H) as R. pose proof (repr_type_not_none c t) as N.
  destruct (repr_type c t); try contradiction; rewrite R; reflexivity.
Qed.

Lemma kwarg_cons k e r : is_kw e = false -> kwarg k (e :: r) = kwarg k r.
Proof. intros H. unfold kwarg. destruct e; try discriminate; reflexivity. Qed.
Lemma kwarg_kwlist k l : kwarg k (kwlist l) = assoc k l.
Proof. apply get_kw_kwlist. Qed.
Lemma nth_pos_cons_S e r i : nth_pos (S i) (e :: r) = nth_pos i r.
Proof. reflexivity. Qed.
Lemma nth_pos_0 e r : is_kw e = false -> nth_pos 0 (e :: r) = Some e.
Proof. intros H. destruct e; try discriminate; reflexivity. Qed.
Lemma nth_pos_kwlist i l : nth_pos i (kwlist l) = None.
Proof. apply nth_pos_kws, kwlist_all_kw. Qed.
Lemma is_kw_repr_type c t : is_kw (repr_type c t) = false.
Proof. unfold repr_type. destruct (ty_mod t); reflexivity. Qed.
Lemma is_kw_rname c hb n : is_kw (rname c hb n) = false.
Proof. destruct n; reflexivity. Qed.
Lemma is_kw_sd c d : is_kw (render_server_default c d) = false.
Proof. destruct d; reflexivity. Qed.
Lemma is_kw_or_none {A} (f:A -> pyexpr) x : (forall a, is_kw (f a) = false) -> is_kw (or_none f x) = false.
Proof. intros H. destruct x; cbn; auto. Qed.

Ltac kw_eval :=
  repeat (rewrite kwarg_cons by first [reflexivity | apply is_kw_repr_type | apply is_kw_rname | apply is_kw_sd
                                       | (apply is_kw_or_none; intros; reflexivity)]);
  rewrite ?kwarg_kwlist; cbn [assoc String.eqb Ascii.eqb Bool.eqb andb]; rewrite ?opt_id.
Ltac pos_eval :=
  repeat first [ rewrite nth_pos_cons_S
               | rewrite nth_pos_0 by first [reflexivity | apply is_kw_repr_type | apply is_kw_rname | apply is_kw_sd
                                             | (apply is_kw_or_none; intros; reflexivity)]
               | rewrite nth_pos_kwlist ].

Lemma sd_not_none c d : render_server_default c d <> PNone.
Proof. destruct d; discriminate. Qed.
Lemma rt_opt_n x : opt_arg as_int (opt_n x) = Some x.
Proof. destruct x as [[n d]|]; reflexivity. Qed.
Lemma rt_or_none_b x : opt_arg as_bool (Some (or_none PBool x)) = Some x.
Proof. destruct x as [[|]|]; reflexivity. Qed.
Lemma rt_default c d : can_sd d = true -> as_default c (render_server_default c d) = Some d.
Proof.
  destruct d as [s|s|s p|i|]; cbn [can_sd render_server_default]; intros H.
  - apply str_eqb_eq in H. rewrite H. reflexivity.
  - cbn [as_default Sr]. rewrite str_eqb_refl. cbn [negb]. lit_cmp. reflexivity.
  - cbn [as_default Sr]. rewrite str_eqb_refl. cbn [negb]. lit_cmp. kw_eval. rewrite rt_opt_b. reflexivity.
  - cbn [as_default]. rewrite str_eqb_refl. cbn [negb]. lit_cmp. unfold as_identity. kw_eval.
    rewrite rt_or_none_b. cbn [obind]. rewrite !rt_opt_b, !rt_opt_n. cbn [obind option_map]. destruct i; reflexivity.
  - cbn [as_default]. rewrite str_eqb_refl. cbn [negb]. lit_cmp. reflexivity.
Qed.
Lemma rt_odefault c d : match d with Some d => can_sd d | None => true end = true ->
  opt_arg (as_default c) (option_map (render_server_default c) d) = Some d.
Proof.
  destruct d as [d|]; [|reflexivity]. intros H. cbn [option_map opt_arg].
  pose proof (rt_default c d H) as R. pose proof (sd_not_none c d) as N.
  destruct (render_server_default c d); try contradiction; rewrite R; reflexivity.
Qed.
Lemma rt_tri_default c t : can_tri can_sd t = true -> tri_arg (as_default c) (tri_v (render_server_default c) t) = Some t.
Proof.
  destruct t as [| |d]; try reflexivity. cbn [can_tri tri_v tri_arg]. intros H.
  pose proof (rt_default c d H) as R. pose proof (sd_not_none c d) as N.
  destruct (render_server_default c d); try contradiction; rewrite R; reflexivity.
Qed.
Lemma rt_tri_str t : tri_arg as_str (tri_v Sr t) = Some t.
Proof. destruct t; reflexivity. Qed.

Lemma rt_column c x : can_column c x = true -> eval_column c (render_column c x) = Some (nk_col x).
Proof.
  destruct x as [name ty dflt ai nu sy cm ky]. unfold can_column, nk_col. cbn [c_name c_type c_default c_comment].
  intros H. repeat (apply andb_true_iff in H; destruct H as [H ?]).
  unfold eval_column, render_column. cbn [c_name c_type c_default c_autoinc c_nullable c_system c_comment sa_call].
  rewrite str_eqb_refl. cbn [obind]. lit_cmp. cbn [negb].
  assert (A0: forall r, nth_pos 0 (id_ name :: r) = Some (id_ name)) by reflexivity.
  destruct dflt as [[s|s|s p|idn|]|]; cbn [pos_default kw_default positional_default render_server_default app];
    pos_eval; cbn [obind]; rewrite (rt_id _ H), (rt_type c ty) by assumption; cbn [obind]; kw_eval.
  - pose proof (rt_default c (SdStr s) H1) as R. cbn [render_server_default] in R. cbn [opt_arg Sr]. cbn [as_default Sr] in *.
    apply str_eqb_eq in H1. rewrite H1. cbn [option_map obind]. rewrite rt_opt_b. cbn [obind as_bool].
    destruct sy; cbn [when as_bool obind]; rewrite (rt_opt_s_truthy _ H0); reflexivity.
  - cbn [opt_arg]. pose proof (rt_default c (SdText s) H1) as R. cbn [render_server_default] in R. rewrite R. cbn [option_map obind].
    rewrite rt_opt_b. cbn [obind as_bool]. destruct sy; cbn [when as_bool obind]; rewrite (rt_opt_s_truthy _ H0); reflexivity.
  - pose proof (rt_default c (SdComputed s p) H1) as R. cbn [render_server_default] in R. rewrite R. cbn [positional_default obind].
    rewrite rt_opt_b. cbn [obind as_bool]. destruct sy; cbn [when as_bool obind]; rewrite (rt_opt_s_truthy _ H0); reflexivity.
  - pose proof (rt_default c (SdIdentity idn) H1) as R. cbn [render_server_default] in R. rewrite R. cbn [positional_default obind].
    rewrite rt_opt_b. cbn [obind as_bool]. destruct sy; cbn [when as_bool obind]; rewrite (rt_opt_s_truthy _ H0); reflexivity.
  - cbn [opt_arg]. pose proof (rt_default c SdFetched H1) as R. cbn [render_server_default] in R. rewrite R. cbn [option_map obind].
    rewrite rt_opt_b. cbn [obind as_bool]. destruct sy; cbn [when as_bool obind]; rewrite (rt_opt_s_truthy _ H0); reflexivity.
  - cbn [opt_arg obind]. rewrite rt_opt_b. cbn [obind as_bool]. destruct sy; cbn [when as_bool obind]; rewrite (rt_opt_s_truthy _ H0); reflexivity.
Qed.

Lemma no_kw_map_id l : no_kw (map id_ l) = true.
Proof. induction l; auto. Qed.
Lemma no_kw_app a b : no_kw (a ++ b) = no_kw a && no_kw b.
Proof. apply forallb_app. Qed.

Lemma rt_refs l : mapM as_str (map (fun r => Sr (ref_text r)) l) = Some (map ref_text l).
Proof. induction l as [|r l IH]; [reflexivity|]. cbn [map mapM as_str Sr obind]. rewrite IH. reflexivity. Qed.
Lemma rt_constraint c k e : can_tcons k = true -> render_constraint c k = Some e -> eval_constraint c e = Some (nk_cons k).
Proof.
  destruct k as [cols n|cols refs n ou od i d ua m|cols n d i|s n]; cbn [render_constraint can_tcons]; intros H.
  - destruct cols as [|c0 cols]; [discriminate|]. remember (c0 :: cols) as cc.
    repeat (apply andb_true_iff in H; destruct H as [H ?]).
    intros [= <-]. unfold eval_constraint. cbn [sa_call]. rewrite str_eqb_refl. cbn [obind].
    rewrite kwarg_args by apply no_kw_map_id. cbn [assoc String.eqb Ascii.eqb Bool.eqb andb]. rewrite opt_id.
    rewrite rt_opt_name by assumption. cbn [obind]. lit_cmp.
    rewrite positionals_app by apply no_kw_map_id. rewrite rt_ids by assumption. reflexivity.
  - repeat (apply andb_true_iff in H; destruct H as [H ?]).
    intros [= <-]. unfold eval_constraint. cbn [sa_call]. rewrite str_eqb_refl. cbn [obind app].
    kw_eval. rewrite rt_opt_name by assumption. cbn [obind]. lit_cmp. pos_eval. cbn [obind as_list].
    rewrite rt_ids, rt_refs by assumption. cbn [obind].
    rewrite !rt_opt_s_truthy by assumption. cbn [obind]. rewrite rt_opt_b. cbn [obind nk_cons]. unfold nk_ref. rewrite map_map.
    destruct ua; reflexivity.
  - repeat (apply andb_true_iff in H; destruct H as [H ?]).
    intros [= <-]. unfold eval_constraint. cbn [sa_call]. rewrite str_eqb_refl. cbn [obind].
    rewrite !kwarg_args by apply no_kw_map_id. cbn [assoc String.eqb Ascii.eqb Bool.eqb andb]. rewrite !opt_id.
    rewrite rt_opt_name by assumption. cbn [obind]. lit_cmp.
    rewrite positionals_app by apply no_kw_map_id. rewrite rt_ids by assumption. cbn [obind].
    rewrite rt_opt_b, rt_opt_s_truthy by assumption. reflexivity.
  - intros [= <-]. unfold eval_constraint. cbn [sa_call]. rewrite str_eqb_refl. cbn [obind app].
    kw_eval. rewrite rt_opt_name by assumption. cbn [obind]. lit_cmp. pos_eval. reflexivity.
Qed.

Lemma render_constraint_some c k : can_tcons k = true -> exists e, render_constraint c k = Some e.
Proof. destruct k as [cols n| | |]; cbn; try (eexists; reflexivity). destruct cols; [discriminate|]. intros _. eexists; reflexivity. Qed.
Lemma is_column_call_column c x : is_column_call c (render_column c x) = true.
Proof. unfold is_column_call, render_column. cbn [sa_call]. rewrite str_eqb_refl. lit_cmp. reflexivity. Qed.
Lemma is_column_call_constraint c k e : render_constraint c k = Some e -> is_column_call c e = false /\ is_kw e = false.
Proof.
  destruct k as [cols n| | |]; cbn [render_constraint]; try destruct cols; try discriminate; intros [= <-];
    unfold is_column_call; cbn [sa_call]; rewrite str_eqb_refl; lit_cmp; auto.
Qed.

Lemma rt_columns c l : forallb (can_column c) l = true -> mapM (eval_column c) (map (render_column c) l) = Some (map nk_col l).
Proof. induction l as [|x r IH]; [reflexivity|]. cbn [forallb map mapM]. intros H. apply andb_true_iff in H. destruct H as [H1 H2].
  rewrite rt_column by assumption. cbn [obind]. rewrite IH by assumption. reflexivity. Qed.
Lemma rt_constraints c l : forallb can_tcons l = true -> mapM (eval_constraint c) (somes (map (render_constraint c) l)) = Some (map nk_cons l).
Proof. induction l as [|k r IH]; [reflexivity|]. cbn [forallb map]. intros H. apply andb_true_iff in H. destruct H as [H1 H2].
  destruct (render_constraint_some c k H1) as [e E]. rewrite E. cbn [somes mapM]. rewrite (rt_constraint c k e H1 E). cbn [obind].
  rewrite IH by assumption. reflexivity. Qed.
Lemma filter_cols_cols c l : filter (is_column_call c) (map (render_column c) l) = map (render_column c) l.
Proof. induction l as [|x r IH]; [reflexivity|]. cbn [map filter]. rewrite is_column_call_column, IH. reflexivity. Qed.
Lemma filter_cols_cons c l : filter (is_column_call c) (somes (map (render_constraint c) l)) = [].
Proof. induction l as [|k r IH]; [reflexivity|]. cbn [map somes]. destruct (render_constraint c k) eqn:E; [|exact IH].
  cbn [somes filter]. destruct (is_column_call_constraint _ _ _ E) as [-> _]. exact IH. Qed.
Lemma filter_ncols_cols c l : filter (fun e => negb (is_column_call c e)) (map (render_column c) l) = [].
Proof. induction l as [|x r IH]; [reflexivity|]. cbn [map filter]. rewrite is_column_call_column. exact IH. Qed.
Lemma filter_ncols_cons c l : filter (fun e => negb (is_column_call c e)) (somes (map (render_constraint c) l)) = somes (map (render_constraint c) l).
Proof. induction l as [|k r IH]; [reflexivity|]. cbn [map somes]. destruct (render_constraint c k) eqn:E; [|exact IH].
  cbn [somes filter]. destruct (is_column_call_constraint _ _ _ E) as [-> _]. cbn [negb]. rewrite IH. reflexivity. Qed.
Lemma no_kw_cols c l : no_kw (map (render_column c) l) = true.
Proof. induction l; auto. Qed.
Lemma no_kw_cons c l : no_kw (somes (map (render_constraint c) l)) = true.
Proof. induction l as [|k r IH]; [reflexivity|]. cbn [map somes]. destruct (render_constraint c k) eqn:E; [|exact IH].
  cbn [somes no_kw forallb]. destruct (is_column_call_constraint _ _ _ E) as [_ ->]. exact IH. Qed.


Lemma rt_create_table c t : can_table c t = true ->
  eval_create_table c (match render_create_table c t with PCall _ a => a | _ => [] end)
  = Some (mkTable (t_name t) (t_schema t) (map nk_col (t_cols t)) (map nk_cons (t_cons t)) (t_comment t) (t_prefixes t) (t_if_not_exists t)).
Proof.
  destruct t as [name schema cols cons comment prefixes ine]. unfold can_table. cbn [t_name t_schema t_cols t_cons t_comment].
  intros H. repeat (apply andb_true_iff in H; destruct H as [H ?]).
  unfold render_create_table, eval_create_table. cbn [t_name t_schema t_cols t_cons t_comment t_prefixes t_if_not_exists].
  set (pos := id_ name :: map (render_column c) cols ++ somes (map (render_constraint c) cons)).
  assert (NK: no_kw pos = true).
  { unfold pos. cbn [no_kw forallb]. change (forallb (fun e => negb (is_kw e)) ?l) with (no_kw l). rewrite no_kw_app, no_kw_cols, no_kw_cons. reflexivity. }
  rewrite (nth_pos_app_l pos _ 0 (id_ name)) by reflexivity. cbn [obind]. rewrite rt_id by assumption. cbn [obind].
  rewrite positionals_app by assumption. unfold pos at 1 2. cbn [tl].
  rewrite !filter_app, filter_cols_cols, filter_cols_cons, filter_ncols_cols, filter_ncols_cons, app_nil_r. cbn [app].
  rewrite rt_columns, rt_constraints by assumption. cbn [obind].
  rewrite !kwarg_args by assumption. cbn [assoc String.eqb Ascii.eqb Bool.eqb andb]. rewrite !opt_id.
  rewrite rt_opt_i_truthy, rt_opt_s_truthy by assumption. cbn [obind]. rewrite rt_opt_b.
  destruct prefixes as [|p ps]; [reflexivity|]. cbn [as_list]. rewrite rt_strs. reflexivity.
Qed.

Lemma rt_ixexprs c l : forallb can_ixexpr l = true -> mapM (as_ixexpr c) (map (render_ixexpr c) l) = Some (map nk_ix l).
Proof.
  induction l as [|[i ky|s] r IH]; [reflexivity| |]; cbn [forallb map mapM can_ixexpr render_ixexpr nk_ix]; intros H.
  - apply andb_true_iff in H. destruct H as [H1 H2]. destruct i as [s [q|]]; [discriminate|]. cbn [as_ixexpr id_ Sr i_s obind].
    rewrite IH by assumption. reflexivity.
  - cbn [as_ixexpr Sr]. rewrite str_eqb_refl. lit_cmp. cbn [andb obind]. rewrite IH by assumption. reflexivity.
Qed.
Lemma rt_or_none_s x : opt_arg as_str (Some (or_none Sr x)) = Some x.
Proof. destruct x; reflexivity. Qed.
Lemma rt_or_none_i x : match x with Some i => can_ident i | None => true end = true -> opt_arg as_ident (Some (or_none id_ x)) = Some x.
Proof. destruct x as [[s [q|]]|]; cbn; intros; try discriminate; reflexivity. Qed.
Lemma can_oident_weak x : can_oident x = true -> match x with Some i => can_ident i | None => true end = true.
Proof. destruct x; cbn; [intros H; apply andb_true_iff in H; tauto|auto]. Qed.

Lemma rt_where c x : opt_arg (as_sqltext c) (option_map (fun s => PCall [cfg_sa c; lit "text"] [Sr s]) x) = Some x.
Proof. destruct x as [s|]; [|reflexivity]. cbn [option_map opt_arg as_sqltext Sr]. rewrite str_eqb_refl. lit_cmp. reflexivity. Qed.
Lemma ixkw_eta k : mkIxKw (k_using k) (k_where k) (k_conc k) = k.
Proof. destruct k; reflexivity. Qed.
Ltac ev := unfold arg, ixkw_items, as_ixkw; cbn [app]; pos_eval; kw_eval; cbn [obind].
Ltac hyps H := repeat (apply andb_true_iff in H; let H' := fresh "H" in destruct H as [H H']).

(* the table-level operations: non-batch *)
Lemma rt_tbl_op_plain c tn s o btn bs : can_tbl_op c tn s o = true ->
  match render_tbl_op c false tn s o with
  | PCall [p; f] args => p = cfg_op c /\ eval_tbl_op c false btn bs f args = Some (tn, s, nk_tbl_op o)
  | _ => False
  end.
Proof.
  unfold can_tbl_op. intros H. apply andb_true_iff in H. destruct H as [H Ho]. apply andb_true_iff in H. destruct H as [Ht Hs].
  pose proof (rt_opt_i_truthy s Hs) as RS.
  destruct o; cbn [render_tbl_op aprefix app]; (split; [reflexivity|]); unfold eval_tbl_op; lit_cmp; cbn [app].
  - ev. rewrite (rt_id _ Ht). cbn [obind]. rewrite rt_column by assumption. cbn [obind]. rewrite RS. reflexivity.
  - ev. rewrite (rt_id _ Ht), (rt_id _ Ho). cbn [obind]. rewrite RS. reflexivity.
  - unfold can_alter in Ho. rewrite !andb_true_iff in Ho. destruct Ho as [[[[[[A1 A2] A3] A4] A5] A6] A7].
    ev. rewrite (rt_id _ Ht), (rt_id _ A1). cbn [obind]. rewrite RS. cbn [obind].
    rewrite rt_otype by assumption. cbn [obind]. rewrite rt_tri_default by assumption. cbn [obind].
    rewrite rt_opt_i by assumption. cbn [obind]. rewrite rt_otype by assumption. cbn [obind]. rewrite rt_opt_b. cbn [obind].
    rewrite rt_tri_str. cbn [obind]. rewrite rt_opt_s. cbn [obind].
    destruct a as [col et sd nn ty nu cm ec en ai esd]. cbn [a_nullable a_existing_nullable a_server_default a_existing_server_default a_autoincrement] in *.
    assert (E1: opt_arg as_bool (match nu with None => opt_b en | Some _ => None end) = Some en).
    { destruct nu; [destruct en; [discriminate|reflexivity]|apply rt_opt_b]. }
    rewrite E1. cbn [obind]. rewrite rt_opt_b. cbn [obind].
    assert (E2: opt_arg (as_default c) (match sd with Keep => option_map (render_server_default c) esd | _ => None end) = Some esd).
    { destruct esd as [d|]; [|destruct sd; reflexivity]. apply andb_true_iff in A7. destruct A7 as [Hd Hk].
      destruct sd; try discriminate. apply (rt_odefault c (Some d)). exact Hd. }
    rewrite E2. reflexivity.
  - rewrite !andb_true_iff in Ho. destruct Ho as [[A1 A2] A3].
    ev. rewrite rt_cname by assumption. cbn [obind]. rewrite (rt_id _ Ht). cbn [obind as_list].
    rewrite rt_ixexprs by assumption. cbn [obind]. rewrite RS. cbn [obind as_bool]. rewrite rt_opt_b. cbn [obind].
    rewrite rt_opt_s, rt_where, rt_opt_b. cbn [obind]. rewrite ixkw_eta.
    destruct unique; [reflexivity|discriminate].
  - apply andb_true_iff in Ho. destruct Ho as [A1 A2]. subst name_stable.
    ev. rewrite rt_cname by assumption. cbn [obind]. rewrite (rt_id _ Ht). cbn [obind]. rewrite RS. cbn [obind]. rewrite rt_opt_b. cbn [obind].
    rewrite rt_opt_s, rt_where, rt_opt_b. cbn [obind]. rewrite ixkw_eta. reflexivity.
  - rewrite !andb_true_iff in Ho. destruct Ho as [[A1 A2] A3].
    ev. rewrite rt_cname by assumption. cbn [obind]. rewrite (rt_id _ Ht). cbn [obind as_list].
    rewrite rt_ids by assumption. cbn [obind]. rewrite RS. cbn [obind]. rewrite rt_opt_b, rt_opt_s_truthy by assumption. reflexivity.
  - rewrite !andb_true_iff in Ho. destruct Ho as [[[[A1 A2] A3] A4] A5].
    ev. rewrite rt_cname by assumption. cbn [obind]. rewrite (rt_id _ Ht), (rt_id _ A2). cbn [obind as_list].
    rewrite !rt_ids by assumption. cbn [obind]. rewrite !rt_opt_s. cbn [obind]. rewrite !rt_opt_b. cbn [obind].
    destruct f as [fn fr fl fm fss frs fou fod fi fd fua fmm]; cbn [f_source_schema] in *. f_equal. f_equal. f_equal.
    destruct s as [[ss [q|]]|], fss; cbn in A5; try discriminate; try reflexivity.
    unfold ident_eqb in A5. cbn in A5. rewrite andb_true_r in A5. apply str_eqb_eq in A5. subst. reflexivity.
  - rewrite !andb_true_iff in Ho. destruct Ho as [A1 A2].
    ev. rewrite rt_cname by assumption. cbn [obind]. rewrite (rt_id _ Ht). cbn [obind].
    rewrite rt_opt_i_truthy by assumption. cbn [obind]. rewrite RS. reflexivity.
  - ev. rewrite (rt_id _ Ht). cbn [obind]. rewrite !rt_or_none_s. cbn [obind].
    rewrite rt_or_none_i by (apply can_oident_weak; assumption). reflexivity.
  - ev. rewrite (rt_id _ Ht). cbn [obind]. rewrite !rt_or_none_s. cbn [obind].
    rewrite rt_or_none_i by (apply can_oident_weak; assumption). reflexivity.
Qed.

(* the table-level operations inside a batch_alter_table block *)
Lemma rt_tbl_op_batch c tn s o : can_tbl_op c tn s o = true ->
  match render_tbl_op c true tn s o with
  | PCall [p; f] args => p = lit "batch_op" /\ eval_tbl_op c true tn s f args = Some (tn, s, nk_tbl_op o)
  | _ => False
  end.
Proof.
  unfold can_tbl_op. intros H. apply andb_true_iff in H. destruct H as [H Ho]. apply andb_true_iff in H. destruct H as [Ht Hs].
  destruct o; cbn [render_tbl_op aprefix app]; (split; [reflexivity|]); unfold eval_tbl_op; lit_cmp; cbn [app].
  - ev. rewrite rt_column by assumption. reflexivity.
  - ev. rewrite (rt_id _ Ho). reflexivity.
  - unfold can_alter in Ho. rewrite !andb_true_iff in Ho. destruct Ho as [[[[[[A1 A2] A3] A4] A5] A6] A7].
    ev. rewrite (rt_id _ A1). cbn [obind].
    rewrite rt_otype by assumption. cbn [obind]. rewrite rt_tri_default by assumption. cbn [obind].
    rewrite rt_opt_i by assumption. cbn [obind]. rewrite rt_otype by assumption. cbn [obind]. rewrite rt_opt_b. cbn [obind].
    rewrite rt_tri_str. cbn [obind]. rewrite rt_opt_s. cbn [obind].
    destruct a as [col et sd nn ty nu cm ec en ai esd]. cbn [a_nullable a_existing_nullable a_server_default a_existing_server_default a_autoincrement] in *.
    assert (E1: opt_arg as_bool (match nu with None => opt_b en | Some _ => None end) = Some en).
    { destruct nu; [destruct en; [discriminate|reflexivity]|apply rt_opt_b]. }
    rewrite E1. cbn [obind]. rewrite rt_opt_b. cbn [obind].
    assert (E2: opt_arg (as_default c) (match sd with Keep => option_map (render_server_default c) esd | _ => None end) = Some esd).
    { destruct esd as [d|]; [|destruct sd; reflexivity]. apply andb_true_iff in A7. destruct A7 as [Hd Hk].
      destruct sd; try discriminate. apply (rt_odefault c (Some d)). exact Hd. }
    rewrite E2. reflexivity.
  - rewrite !andb_true_iff in Ho. destruct Ho as [[A1 A2] A3].
    ev. rewrite rt_cname by assumption. cbn [obind as_list].
    rewrite rt_ixexprs by assumption. cbn [obind as_bool]. rewrite rt_opt_b. cbn [obind].
    rewrite rt_opt_s, rt_where, rt_opt_b. cbn [obind]. rewrite ixkw_eta.
    destruct unique; [reflexivity|discriminate].
  - apply andb_true_iff in Ho. destruct Ho as [A1 A2]. subst name_stable.
    ev. rewrite rt_cname by assumption. cbn [obind]. rewrite rt_opt_b. cbn [obind].
    rewrite rt_opt_s, rt_where, rt_opt_b. cbn [obind]. rewrite ixkw_eta. reflexivity.
  - rewrite !andb_true_iff in Ho. destruct Ho as [[A1 A2] A3].
    ev. rewrite rt_cname by assumption. cbn [obind as_list].
    rewrite rt_ids by assumption. cbn [obind]. rewrite rt_opt_b, rt_opt_s_truthy by assumption. reflexivity.
  - rewrite !andb_true_iff in Ho. destruct Ho as [[[[A1 A2] A3] A4] A5].
    ev. rewrite rt_cname by assumption. cbn [obind]. rewrite (rt_id _ A2). cbn [obind as_list].
    rewrite !rt_ids by assumption. cbn [obind]. rewrite !rt_opt_s. cbn [obind]. rewrite !rt_opt_b. cbn [obind].
    destruct f as [fn fr fl fm fss frs fou fod fi fd fua fmm]; cbn [f_source_schema] in *.
    assert (E: option_map i_s s = fss /\ option_map (fun x => mkId x None) (option_map i_s s) = s).
    { destruct s as [[ss [q|]]|], fss; cbn in A5, Hs; try discriminate; try (split; reflexivity).
      unfold ident_eqb in A5. cbn in A5. rewrite andb_true_r in A5. apply str_eqb_eq in A5. subst. split; reflexivity. }
    destruct E as [E1 E2]. rewrite E2, E1. reflexivity.
  - rewrite !andb_true_iff in Ho. destruct Ho as [A1 A2].
    ev. rewrite rt_cname by assumption. cbn [obind].
    rewrite rt_opt_i_truthy by assumption. reflexivity.
  - ev. rewrite !rt_or_none_s. reflexivity.
  - ev. rewrite !rt_or_none_s. reflexivity.
Qed.

Lemma render_tbl_op_name c hb tn s o :
  match render_tbl_op c hb tn s o with
  | PCall [p; f] _ => str_eqb f (lit "create_table") = false /\ str_eqb f (lit "drop_table") = false /\ str_eqb f (lit "execute") = false
  | _ => True
  end.
Proof. destruct o; cbn [render_tbl_op]; lit_cmp; auto. Qed.

Lemma mapM_app {A B} (f:A -> option B) l1 l2 r1 r2 : mapM f l1 = Some r1 -> mapM f l2 = Some r2 -> mapM f (l1 ++ l2) = Some (r1 ++ r2).
Proof.
  revert r1. induction l1 as [|a l1 IH]; intros r1 H1 H2.
  - injection H1 as <-. exact H2.
  - cbn [app mapM] in *. destruct (f a); [|discriminate]. cbn [obind] in *. destruct (mapM f l1) eqn:E; [|discriminate].
    injection H1 as <-. rewrite (IH l eq_refl H2). reflexivity.
Qed.

Lemma eval_top_plain c tn s o : can_tbl_op c tn s o = true ->
  eval_stmt c (SExpr (render_tbl_op c false tn s o)) = Some (TOp tn s (nk_tbl_op o)).
Proof.
  intros H. pose proof (rt_tbl_op_plain c tn s o dummy_id None H) as R. pose proof (render_tbl_op_name c false tn s o) as Nm.
  destruct (render_tbl_op c false tn s o) as [path args| | | | | | |]; try contradiction.
  destruct path as [|p [|f [|? ?]]]; try contradiction. destruct R as [-> R]. destruct Nm as [N1 [N2 N3]].
  cbn [eval_stmt]. rewrite str_eqb_refl, N1, N2, N3. cbn [negb]. rewrite R. reflexivity.
Qed.

Lemma eval_members_plain c l : forallb (fun m => can_tbl_op c (fst (fst m)) (snd (fst m)) (snd m)) l = true ->
  mapM (eval_stmt c) (map (fun x => SExpr (render_tbl_op c false (fst (fst x)) (snd (fst x)) (snd x))) l)
  = Some (map (fun x => TOp (fst (fst x)) (snd (fst x)) (snd x)) (map nk_member l)).
Proof.
  induction l as [|m r IH]; [reflexivity|]. cbn [forallb map mapM nk_member fst snd]. intros H. apply andb_true_iff in H. destruct H as [H1 H2].
  rewrite eval_top_plain by assumption. cbn [obind]. rewrite IH by assumption. reflexivity.
Qed.

Lemma ident_eqb_eq a b : ident_eqb a b = true -> can_ident a = true -> can_ident b = true -> a = b.
Proof.
  destruct a as [s [q|]], b as [s' [q'|]]; cbn; intros H; try discriminate. intros _ _.
  unfold ident_eqb in H. cbn in H. rewrite andb_true_r in H. apply str_eqb_eq in H. subst. reflexivity.
Qed.

Lemma eval_members_batch c tn s l :
  forallb (fun m => can_tbl_op c (fst (fst m)) (snd (fst m)) (snd m)) l = true ->
  forallb (fun m => ident_eqb (fst (fst m)) tn && oident_eqb (snd (fst m)) s) l = true ->
  can_ident tn = true -> match s with Some i => can_ident i | None => true end = true ->
  mapM (fun e => match e with
                 | PCall [p'; f'] a => if str_eqb p' (lit "batch_op") then eval_tbl_op c true tn s f' a else None
                 | _ => None end)
       (map (fun x => render_tbl_op c true (fst (fst x)) (snd (fst x)) (snd x)) l) = Some (map nk_member l).
Proof.
  intros H E Ht Hs. induction l as [|[[tn' s'] o] r IH]; [reflexivity|]. cbn [forallb map mapM fst snd nk_member] in *.
  apply andb_true_iff in H, E. destruct H as [H1 H2], E as [E1 E2]. apply andb_true_iff in E1. destruct E1 as [Ea Eb].
  assert (tn' = tn).
  { apply ident_eqb_eq; auto. unfold can_tbl_op in H1. apply andb_true_iff in H1. destruct H1 as [H1 _]. apply andb_true_iff in H1. tauto. }
  assert (s' = s).
  { unfold can_tbl_op in H1. apply andb_true_iff in H1. destruct H1 as [H1 _]. apply andb_true_iff in H1. destruct H1 as [_ Hc].
    destruct s' as [i'|], s as [i|]; cbn in Eb; try discriminate; try reflexivity. f_equal. apply ident_eqb_eq; auto.
    cbn in Hc. apply andb_true_iff in Hc. tauto. }
  subst tn' s'.
  pose proof (rt_tbl_op_batch c tn s o H1) as R.
  destruct (render_tbl_op c true tn s o) as [path args| | | | | | |]; try contradiction.
  destruct path as [|p [|f [|? ?]]]; try contradiction. destruct R as [-> R].
  rewrite str_eqb_refl, R. cbn [obind]. rewrite IH by assumption. reflexivity.
Qed.

Lemma expected_modify c tn s m l :
  expected_top c (TModify tn s (m :: l)) =
  if cfg_batch c then [TModify tn s (map nk_member (m :: l))]
  else map (fun x => TOp (fst (fst x)) (snd (fst x)) (snd x)) (map nk_member (m :: l)).
Proof. reflexivity. Qed.

Theorem eval_render c ops : canonical (c, ops) = true -> eval_stmts c (render_ops c ops) = Some (expected c ops).
Proof.
  unfold canonical. cbn [fst snd]. intros H.
  unfold eval_stmts, render_ops, expected. induction ops as [|o r IH]; [reflexivity|].
  cbn [forallb flat_map] in *. apply andb_true_iff in H. destruct H as [Ho Hr].
  apply mapM_app; [|apply IH; exact Hr]. clear IH Hr.
  destruct o as [t| |sql|n s ie ty|tn s o|tn s l]; cbn [render_top expected_top can_top] in *.
  - cbn [mapM eval_stmt]. unfold render_create_table at 1. rewrite str_eqb_refl. cbn [negb]. lit_cmp.
    pose proof (rt_create_table c t Ho) as R. unfold render_create_table in R. rewrite R. reflexivity.
  - discriminate.
  - cbn [mapM eval_stmt]. rewrite str_eqb_refl. lit_cmp. cbn [negb]. reflexivity.
  - rewrite !andb_true_iff in Ho. destruct Ho as [[A1 A2] A3]. apply negb_true_iff in A3. subst ty.
    cbn [mapM eval_stmt]. unfold render_drop_table. rewrite str_eqb_refl. cbn [negb]. lit_cmp. cbn [app].
    pos_eval. cbn [obind]. rewrite (rt_id _ A1). cbn [obind]. kw_eval. rewrite rt_opt_i_truthy by assumption. cbn [obind].
    rewrite rt_opt_b. reflexivity.
  - cbn [mapM]. rewrite eval_top_plain by assumption. reflexivity.
  - rewrite !andb_true_iff in Ho. destruct Ho as [[[A1 A2] A3] A4].
    destruct l as [|m l]; [reflexivity|]. rewrite expected_modify. remember (m :: l) as ms.
    destruct (cfg_batch c) eqn:B.
    + cbn [negb orb] in A4.
      cbn [mapM eval_stmt]. lit_cmp. rewrite str_eqb_refl. cbn [andb negb app].
      pos_eval. cbn [obind]. rewrite (rt_id _ A1). cbn [obind]. kw_eval. rewrite rt_or_none_i by assumption. cbn [obind].
      rewrite eval_members_batch by assumption. reflexivity.
    + apply eval_members_plain. assumption.
Qed.

(* ================================================================ part 4: the model satisfies the property on the class *)
Lemma list_eqb_refl {A} (e:A -> A -> bool) l : (forall x, e x x = true) -> list_eqb e l l = true.
Proof. intros H. induction l as [|a r IH]; [reflexivity|]. cbn. rewrite H, IH. reflexivity. Qed.
Lemma strs_eqb_refl l : strs_eqb l l = true.
Proof. apply list_eqb_refl, str_eqb_refl. Qed.
Lemma option_eqb_refl {A} (e:A -> A -> bool) x : (forall a, e a a = true) -> option_eqb e x x = true.
Proof. intros H. destruct x; cbn; auto. Qed.
Lemma bool_eqb_refl b : Bool.eqb b b = true. Proof. destruct b; reflexivity. Qed.

Lemma pyexpr_eqb_refl : forall e, pyexpr_eqb e e = true.
Proof.
  fix IH 1. intros e. destruct e as [p args|k v|h s|b| |n d|l|l]; cbn.
  - rewrite strs_eqb_refl. cbn. induction args as [|a r IHr]; [reflexivity|]. rewrite IH, IHr. reflexivity.
  - rewrite str_eqb_refl, IH. reflexivity.
  - apply str_eqb_refl.
  - apply bool_eqb_refl.
  - reflexivity.
  - rewrite bool_eqb_refl, str_eqb_refl. reflexivity.
  - induction l as [|a r IHr]; [reflexivity|]. rewrite IH, IHr. reflexivity.
  - induction l as [|a r IHr]; [reflexivity|]. rewrite IH, IHr. reflexivity.
Qed.
Lemma pyexprs_eqb_refl l : pyexprs_eqb l l = true.
Proof. induction l as [|a r IH]; [reflexivity|]. cbn. rewrite pyexpr_eqb_refl, IH. reflexivity. Qed.

Lemma ident_eqb_refl i : ident_eqb i i = true.
Proof. unfold ident_eqb. rewrite str_eqb_refl, option_eqb_refl by apply bool_eqb_refl. reflexivity. Qed.
Lemma oident_eqb_refl i : oident_eqb i i = true. Proof. apply option_eqb_refl, ident_eqb_refl. Qed.
Lemma idents_eqb_refl l : idents_eqb l l = true. Proof. apply list_eqb_refl, ident_eqb_refl. Qed.
Lemma ostr_eqb_refl x : ostr_eqb x x = true. Proof. apply option_eqb_refl, str_eqb_refl. Qed.
Lemma obool_eqb_refl x : obool_eqb x x = true. Proof. apply option_eqb_refl, bool_eqb_refl. Qed.
Lemma cname_eqb_refl n : cname_eqb n n = true.
Proof. destruct n; cbn; [reflexivity|apply ident_eqb_refl|apply str_eqb_refl]. Qed.
Lemma tytok_eqb_refl t : tytok_eqb t t = true.
Proof. unfold tytok_eqb. rewrite strs_eqb_refl, pyexprs_eqb_refl. destruct (ty_mod t); cbn; rewrite ?str_eqb_refl; reflexivity. Qed.
Lemma pint_eqb_refl p : pint_eqb p p = true.
Proof. unfold pint_eqb. rewrite bool_eqb_refl, str_eqb_refl. reflexivity. Qed.
Lemma identity_eqb_refl i : identity_eqb i i = true.
Proof. unfold identity_eqb, opint_eqb. rewrite !option_eqb_refl by (first [apply bool_eqb_refl | apply pint_eqb_refl]). reflexivity. Qed.
Lemma ixkw_eqb_refl k : ixkw_eqb k k = true.
Proof. unfold ixkw_eqb. rewrite !ostr_eqb_refl, obool_eqb_refl. reflexivity. Qed.
Lemma sdefault_eqb_refl d : sdefault_eqb d d = true.
Proof. destruct d; cbn; rewrite ?str_eqb_refl; try reflexivity; [apply option_eqb_refl, bool_eqb_refl|apply identity_eqb_refl]. Qed.
Lemma column_eqb_refl x : column_eqb x x = true.
Proof. unfold column_eqb. rewrite ident_eqb_refl, tytok_eqb_refl, obool_eqb_refl, !bool_eqb_refl, !ostr_eqb_refl.
  rewrite option_eqb_refl by apply sdefault_eqb_refl. reflexivity. Qed.
Lemma refcol_eqb_refl r : refcol_eqb r r = true.
Proof. unfold refcol_eqb. rewrite strs_eqb_refl, ostr_eqb_refl. reflexivity. Qed.
Lemma tcons_eqb_refl k : tcons_eqb k k = true.
Proof. destruct k; cbn; rewrite ?(list_eqb_refl refcol_eqb) by apply refcol_eqb_refl; rewrite ?idents_eqb_refl, ?strs_eqb_refl, ?cname_eqb_refl, ?ostr_eqb_refl, ?obool_eqb_refl, ?bool_eqb_refl, ?str_eqb_refl; reflexivity. Qed.
Lemma table_eqb_refl t : table_eqb t t = true.
Proof. unfold table_eqb. rewrite ident_eqb_refl, oident_eqb_refl, ostr_eqb_refl, strs_eqb_refl, obool_eqb_refl.
  rewrite !list_eqb_refl by (first [apply column_eqb_refl | apply tcons_eqb_refl]). reflexivity. Qed.
Lemma ixexpr_eqb_refl x : ixexpr_eqb x x = true.
Proof. destruct x; cbn; [rewrite ident_eqb_refl; apply ostr_eqb_refl|apply str_eqb_refl]. Qed.
Lemma tri_eqb_refl {A} (e:A -> A -> bool) t : (forall a, e a a = true) -> tri_eqb e t t = true.
Proof. intros H. destruct t; cbn; auto. Qed.
Lemma altercol_eqb_refl a : altercol_eqb a a = true.
Proof. unfold altercol_eqb. rewrite ident_eqb_refl, oident_eqb_refl, !obool_eqb_refl, ostr_eqb_refl.
  rewrite !option_eqb_refl by (first [apply tytok_eqb_refl | apply sdefault_eqb_refl]).
  rewrite !tri_eqb_refl by (first [apply sdefault_eqb_refl | apply str_eqb_refl]). reflexivity. Qed.
Lemma fkop_eqb_refl f : fkop_eqb f f = true.
Proof. unfold fkop_eqb. rewrite cname_eqb_refl, ident_eqb_refl, !idents_eqb_refl, !ostr_eqb_refl, !obool_eqb_refl. reflexivity. Qed.
Lemma tbl_op_eqb_refl o : tbl_op_eqb o o = true.
Proof. destruct o; cbn; rewrite ?column_eqb_refl, ?ident_eqb_refl, ?altercol_eqb_refl, ?cname_eqb_refl, ?obool_eqb_refl, ?idents_eqb_refl,
  ?ostr_eqb_refl, ?fkop_eqb_refl, ?oident_eqb_refl, ?bool_eqb_refl, ?ixkw_eqb_refl; try reflexivity. rewrite list_eqb_refl by apply ixexpr_eqb_refl. reflexivity. Qed.
Lemma member_eqb_refl m : member_eqb m m = true.
Proof. unfold member_eqb. rewrite ident_eqb_refl, oident_eqb_refl, tbl_op_eqb_refl. reflexivity. Qed.
Lemma top_op_eqb_refl o : top_op_eqb o o = true.
Proof. destruct o; cbn; rewrite ?table_eqb_refl, ?ident_eqb_refl, ?oident_eqb_refl, ?obool_eqb_refl, ?bool_eqb_refl, ?str_eqb_refl; try reflexivity.
  - apply member_eqb_refl.
  - apply list_eqb_refl, member_eqb_refl. Qed.
Lemma ops_eqb_refl l : ops_eqb l l = true.
Proof. apply list_eqb_refl, top_op_eqb_refl. Qed.

Theorem decider_sound i o : check_C08 i o = true -> C08_holds i o.
Proof. unfold check_C08, C08_holds. destruct (o_parsed o) as [st|] eqn:E; [|discriminate]. intros H. rewrite !andb_true_iff in H. destruct H as [[H1 H2] H3].
  split; [exists st; reflexivity|]. repeat split; assumption. Qed.

Theorem decider_complete i o : C08_holds i o -> check_C08 i o = true.
Proof. unfold check_C08, C08_holds. intros [[st E] [H1 [H2 H3]]]. rewrite E, H1, H2, H3. reflexivity. Qed.

(* the imports: reading the rendered text back uses exactly the dialect modules that the rendering collected *)
Lemma flat_map_map {A B C} (f:B -> list C) (g:A -> B) l : flat_map f (map g l) = flat_map (fun x => f (g x)) l.
Proof. induction l as [|x l IH]; [reflexivity|]. cbn. rewrite IH. reflexivity. Qed.
Lemma nk_tbl_op_dialects o : tbl_op_dialects (nk_tbl_op o) = tbl_op_dialects o.
Proof. destruct o; reflexivity. Qed.
Lemma nk_top_dialects o : top_dialects (nk_top o) = top_dialects o.
Proof.
  destruct o as [t| |sql|n s ie ty|tn s o|tn s l]; cbn [nk_top top_dialects t_cols]; try reflexivity.
  - rewrite flat_map_map. reflexivity.
  - apply nk_tbl_op_dialects.
  - rewrite flat_map_map. apply flat_map_ext. intros m. unfold nk_member. cbn [snd]. apply nk_tbl_op_dialects.
Qed.
Lemma expected_top_dialects c o : dialects_of (expected_top c o) = top_dialects o.
Proof.
  unfold expected_top. rewrite <- (nk_top_dialects o). destruct (nk_top o) as [t| |sql|n s ie ty|tn s o'|tn s l]; unfold dialects_of;
    try (cbn [flat_map]; apply app_nil_r).
  destruct l as [|m l]; [reflexivity|]. destruct (cfg_batch c); [cbn [flat_map]; apply app_nil_r|].
  rewrite flat_map_map. reflexivity.
Qed.
Lemma expected_dialects c ops : dialects_of (expected c ops) = dialects_of ops.
Proof.
  unfold expected. induction ops as [|o ops IH]; [reflexivity|]. cbn [flat_map]. unfold dialects_of in *. rewrite flat_map_app, IH.
  cbn [flat_map]. f_equal. apply expected_top_dialects.
Qed.
Lemma memb_self l : forallb (fun d => memb d l) l = true.
Proof. apply forallb_forall. intros x Hx. unfold memb. apply existsb_exists. exists x. split; [exact Hx|apply str_eqb_refl]. Qed.

Theorem eval_in_render c ops : canonical (c, ops) = true ->
  eval_in c (render_imports ops) (render_ops c ops) = Some (expected c ops).
Proof.
  intros H. unfold eval_in. rewrite (eval_render c ops H), expected_dialects. unfold render_imports. rewrite memb_self. reflexivity.
Qed.

Theorem model_holds i : inclass_C08 i = true -> C08_holds i (model_C08 i).
Proof.
  destruct i as [c ops]. unfold inclass_C08. intros H. apply andb_true_iff in H. destruct H as [H _]. apply andb_true_iff in H. destruct H as [H F].
  unfold C08_holds, model_C08, exec_names_ok. cbn [o_parsed o_sql_same o_exec o_imports fst snd] in *. split; [eexists; reflexivity|].
  unfold reads_back. cbn [o_parsed o_imports fst snd]. rewrite (eval_in_render c ops H). split; [rewrite ops_eqb_refl, F; reflexivity|]. split.
  - unfold names_agree. apply list_eqb_refl. intros x. unfold key_eqb. rewrite N.eqb_refl, str_eqb_refl. reflexivity.
  - rewrite ops_eqb_refl. apply orb_true_r.
Qed.

(* ================================================================ part 5: tokens separated by arbitrary whitespace
   (used by the revision-file header of C17, whose text is modelled character by character) *)
Section TokensW.
  Variable printable : N -> bool.

  Lemma idle_ws out w : is_ws w = true -> lex_run (LIdle, out) w = (LIdle, out).
  Proof.
    induction w as [|c w IH]; [reflexivity|]. cbn [is_ws forallb]. intros H. apply andb_true_iff in H. destruct H as [Hc Hw].
    rewrite lex_run_cons. cbn [lex_step]. unfold idle_step. rewrite Hc. apply IH. exact Hw.
  Qed.

  Lemma space_char_flush out prev c : is_space c = true -> (forall t, prev = Some t -> wf_tok t = true) ->
    lex_run (bstate printable prev, out) [c] = (LIdle, pend prev ++ out).
  Proof.
    intros Hc W.
    assert (NI: is_ident_char c = false /\ is_quote c = false /\ is_digit c = false /\ is_ident_start c = false /\ (c =? 46) = false
                /\ (c =? c_sq) = false /\ (c =? c_dq) = false).
    { unfold is_space in Hc. repeat (apply orb_true_iff in Hc; destruct Hc as [Hc|Hc]); apply N.eqb_eq in Hc; subst; repeat split; reflexivity. }
    destruct NI as (N1 & N2 & N3 & N4 & N5 & N6 & N7).
    destruct prev as [[s|c'|h s|d]|]; cbn [bstate pend lex_run fold_left lex_step app].
    - rewrite N1, N2. cbn [andb]. unfold idle_step. rewrite Hc, rev_involutive. reflexivity.
    - unfold idle_step. rewrite Hc. reflexivity.
    - unfold after_str. destruct s.
      + cbn [lex_step]. assert (E: (c =? choose_quote []) = false) by exact N6. rewrite E. unfold idle_step. rewrite Hc. reflexivity.
      + cbn [lex_step]. unfold idle_step. rewrite Hc. reflexivity.
    - rewrite N3, N4, N5. cbn [orb]. unfold idle_step. rewrite Hc, rev_involutive. reflexivity.
    - unfold idle_step. rewrite Hc. reflexivity.
  Qed.

  Lemma ws_flush out prev w : w <> [] -> is_ws w = true -> (forall t, prev = Some t -> wf_tok t = true) ->
    lex_run (bstate printable prev, out) w = (LIdle, pend prev ++ out).
  Proof.
    destruct w as [|c w]; [congruence|]. intros _ H W. cbn [is_ws forallb] in H. apply andb_true_iff in H. destruct H as [Hc Hw].
    change (c :: w) with ([c] ++ w). rewrite lex_run_app, space_char_flush by assumption. apply idle_ws. exact Hw.
  Qed.

  Lemma tok_step_w out prev t w :
    (forall p, prev = Some p -> wf_tok p = true) -> wf_tok t = true -> via_repr_tok t = true -> is_ws w = true ->
    match prev with Some p => negb (needs_space p t) || (match w with [] => false | _ => true end) | None => true end = true ->
    lex_run (bstate printable prev, out) (w ++ tok_text printable t) = (bstate printable (Some t), done t ++ pend prev ++ out).
  Proof.
    intros Wp W V Hw Hs. destruct w as [|c w].
    - cbn [app]. pose proof (tok_step printable out prev t Wp W V) as T.
      destruct prev as [p|]; [|exact T]. rewrite orb_false_r in Hs. apply negb_true_iff in Hs. rewrite Hs in T. exact T.
    - rewrite lex_run_app, ws_flush by (assumption || discriminate). apply text_from_idle; assumption.
  Qed.

  Lemma untokw_lex : forall l prev out tail,
    (forall p, prev = Some p -> wf_tok p = true) -> forallb (fun wt => wf_tok (snd wt)) l = true ->
    forallb (fun wt => via_repr_tok (snd wt)) l = true -> seps_ok prev l = true -> is_ws tail = true ->
    lex_finish (lex_run (bstate printable prev, out) (untokw printable l tail))
    = Ok (rev out ++ pend prev ++ map erase (map snd l)).
  Proof.
    induction l as [|[w t] r IH]; intros prev out tail Wp W V S T.
    - unfold untokw. cbn [flat_map app map].
      destruct tail as [|c tail].
      + cbn [lex_run fold_left]. rewrite app_nil_r.
        destruct prev as [[s|c|h s|d]|]; cbn [bstate pend lex_finish]; try (rewrite app_nil_r; reflexivity).
        * cbn [rev]. rewrite rev_involutive. reflexivity.
        * unfold after_str. destruct s; cbn [lex_finish]; rewrite app_nil_r; reflexivity.
        * cbn [rev]. rewrite rev_involutive. reflexivity.
      + rewrite ws_flush by (assumption || discriminate). cbn [lex_finish]. rewrite rev_app_distr, app_nil_r.
        destruct prev as [[s|c'|h s|d]|]; reflexivity.
    - cbn [forallb snd] in W, V. apply andb_true_iff in W, V. destruct W as [Wt Wr], V as [Vt Vr].
      cbn [seps_ok] in S. apply andb_true_iff in S. destruct S as [S Sr]. apply andb_true_iff in S. destruct S as [Sw Sn].
      unfold untokw. cbn [flat_map fst snd]. rewrite <- !app_assoc. rewrite (app_assoc w), lex_run_app.
      rewrite (tok_step_w out prev t w Wp Wt Vt Sw Sn).
      specialize (IH (Some t) (done t ++ pend prev ++ out) tail).
      unfold untokw in IH. rewrite IH; [|intros p [= <-]; assumption|assumption|assumption|assumption|assumption].
      f_equal. cbn [map snd]. rewrite !rev_app_distr, <- !app_assoc. f_equal.
      destruct prev as [[s|c|h s|d]|], t as [s'|c'|h' s'|d']; reflexivity.
  Qed.

  Theorem lex_untokw l tail : forallb (fun wt => wf_tok (snd wt)) l = true -> forallb (fun wt => via_repr_tok (snd wt)) l = true ->
    seps_ok None l = true -> is_ws tail = true -> py_lex (untokw printable l tail) = Ok (map erase (map snd l)).
  Proof.
    intros W V S T. unfold py_lex. pose proof (untokw_lex l None [] tail (fun p H => ltac:(discriminate)) W V S T) as H.
    cbn [bstate pend rev app] in H. exact H.
  Qed.
End TokensW.

(* ================================================================ part 6: rendered expressions are well-formed *)
Notation wfe := wf_expr.
Lemma wfe_commas l : forallb wf_tok (commas l) = forallb (forallb wf_tok) l.
Proof.
  induction l as [|x r IH]; [reflexivity|]. cbn [commas forallb]. rewrite forallb_app. f_equal.
  destruct r; [reflexivity|]. cbn [forallb] in *. exact IH.
Qed.
Lemma wfe_dotted p : forallb wf_tok (dotted p) = forallb valid_ident p.
Proof. induction p as [|x r IH]; [reflexivity|]. cbn [dotted forallb wf_tok]. f_equal. destruct r; [reflexivity|]. exact IH. Qed.
Lemma wfe_call p args : wfe (PCall p args) = forallb valid_ident p && forallb wfe args.
Proof.
  unfold wf_expr. cbn [toks]. rewrite forallb_app, wfe_dotted. f_equal. cbn [forallb wf_tok].
  rewrite forallb_app, wfe_commas. cbn [forallb wf_tok]. rewrite forallb_map.
  replace (is_punct 40) with true by reflexivity. replace (is_punct 41) with true by reflexivity. cbn [andb]. rewrite andb_true_r. reflexivity.
Qed.
Lemma wfe_list l : wfe (PList l) = forallb wfe l.
Proof.
  unfold wf_expr. cbn [toks forallb wf_tok]. rewrite forallb_app, wfe_commas. cbn [forallb wf_tok]. rewrite forallb_map.
  replace (is_punct 91) with true by reflexivity. replace (is_punct 93) with true by reflexivity. cbn [andb]. rewrite andb_true_r. reflexivity.
Qed.
Lemma wfe_kw k v : wfe (PKw k v) = valid_ident k && wfe v.
Proof. unfold wf_expr. cbn [toks forallb wf_tok]. replace (is_punct 61) with true by reflexivity. reflexivity. Qed.
Lemma wfe_Sr s : wfe (Sr s) = valid_strb s.
Proof. unfold wf_expr. cbn. apply andb_true_r. Qed.
Lemma wfe_id i : wfe (id_ i) = wf_id i.
Proof. apply wfe_Sr. Qed.
Lemma wfe_bool b : wfe (PBool b) = true. Proof. destruct b; reflexivity. Qed.

Definition mw (x:option pyexpr) : bool := match x with Some e => wfe e | None => true end.
Lemma wfe_kwlist l : forallb (fun kv => valid_ident (lit (fst kv))) l = true ->
  forallb wfe (kwlist l) = forallb (fun kv => mw (snd kv)) l.
Proof.
  induction l as [|[k x] r IH]; [reflexivity|]. cbn [forallb fst snd]. intros H. apply andb_true_iff in H. destruct H as [Hk Hr].
  unfold kwlist in *. cbn [flat_map fst snd]. rewrite forallb_app, (IH Hr). f_equal.
  unfold okw. destruct x; cbn [forallb mw]; [rewrite wfe_kw, Hk, andb_true_r|]; reflexivity.
Qed.

Lemma mw_opt_b x : mw (opt_b x) = true. Proof. destruct x as [[|]|]; reflexivity. Qed.
Lemma mw_opt_s x : wf_ostr x = true -> mw (opt_s x) = true. Proof. destruct x; cbn [opt_s option_map mw wf_ostr]; [rewrite wfe_Sr|]; auto. Qed.
Lemma mw_opt_i x : wf_oid x = true -> mw (opt_i x) = true. Proof. destruct x; cbn [opt_i option_map mw wf_oid]; [rewrite wfe_id|]; auto. Qed.
Lemma mw_when b e : wfe e = true -> mw (when b e) = true. Proof. intros H. destruct b; [exact H|reflexivity]. Qed.
Lemma mw_if (b:bool) x : mw x = true -> mw (if b then None else x) = true. Proof. destruct b; auto. Qed.
Lemma mw_tri {A} (f:A -> pyexpr) (g:A -> bool) t : (forall a, g a = true -> wfe (f a) = true) -> wf_tri g t = true -> mw (tri_v f t) = true.
Proof. intros H. destruct t; cbn; auto. Qed.
Lemma mw_map {A} (f:A -> pyexpr) (g:A -> bool) x : (forall a, g a = true -> wfe (f a) = true) -> match x with Some a => g a | None => true end = true -> mw (option_map f x) = true.
Proof. intros H. destruct x; cbn; auto. Qed.
Lemma truthy_s_wf x : wf_ostr x = true -> wf_ostr (truthy_s x) = true.
Proof. destruct x as [[|]|]; auto. Qed.
Lemma truthy_wf x : wf_oid x = true -> wf_oid (truthy x) = true.
Proof. destruct x as [[[|] q]|]; auto. Qed.
Lemma wfe_or_none_s x : wf_ostr x = true -> wfe (or_none Sr x) = true. Proof. destruct x; cbn [or_none wf_ostr]; [rewrite wfe_Sr|]; auto. Qed.
Lemma wfe_or_none_i x : wf_oid x = true -> wfe (or_none id_ x) = true. Proof. destruct x; cbn [or_none wf_oid]; [rewrite wfe_id|]; auto. Qed.
Lemma wfe_map_Sr l : forallb wfe (map Sr l) = forallb valid_strb l.
Proof. induction l as [|a r IH]; [reflexivity|]. cbn [map forallb]. rewrite wfe_Sr, IH. reflexivity. Qed.
Lemma wfe_map_ref l : forallb wfe (map (fun r => Sr (ref_text r)) l) = forallb (fun r => valid_strb (ref_text r)) l.
Proof. induction l as [|a r IH]; [reflexivity|]. cbn [map forallb]. rewrite wfe_Sr, IH. reflexivity. Qed.
Lemma wfe_map_id l : forallb wfe (map id_ l) = forallb wf_id l.
Proof. induction l as [|a r IH]; [reflexivity|]. cbn [map forallb]. rewrite wfe_id, IH. reflexivity. Qed.

Ltac lit_ok := repeat match goal with
  | |- context [valid_ident (lit ?a)] => let r := eval vm_compute in (valid_ident (lit a)) in change (valid_ident (lit a)) with r
  end.

Section WF.
  Variable c : cfg.
  Hypothesis Hc : wf_cfg c = true.
  Let Hop : valid_ident (cfg_op c) = true. Proof. unfold wf_cfg in Hc. apply andb_true_iff in Hc. tauto. Qed.
  Let Hsa : valid_ident (cfg_sa c) = true. Proof. unfold wf_cfg in Hc. apply andb_true_iff in Hc. tauto. Qed.

  Lemma wfe_rname hb n : wf_cname n = true -> wfe (rname c hb n) = true.
  Proof.
    destruct n as [|i|s]; cbn [rname wf_cname]; intros H; [reflexivity|rewrite wfe_id; exact H|].
    rewrite wfe_call. cbn [forallb]. rewrite wfe_Sr, H. unfold aprefix. destruct hb; lit_ok; rewrite ?Hop; reflexivity.
  Qed.
  Lemma wfe_repr_type t : wf_ty t = true -> wfe (repr_type c t) = true.
  Proof.
    unfold wf_ty, repr_type. intros H. rewrite !andb_true_iff in H. destruct H as [[H1 H2] H3].
    destruct (ty_mod t); rewrite wfe_call; cbn [forallb]; rewrite H1, H3, ?Hsa, ?H2; reflexivity.
  Qed.
  Lemma strip_quotes_in s x : In x (strip_quotes s) -> In x s.
  Proof.
    unfold strip_quotes.
    set (r := match s with [] => s | c0 :: r0 => if c0 =? c_sq then r0 else s end).
    assert (R: forall y, In y r -> In y s). { unfold r. destruct s as [|c0 r0]; auto. destruct (c0 =? c_sq); auto. intros y Hy. right. exact Hy. }
    assert (V: forall y, In y (rev r) -> In y s). { intros y Hy. apply R. apply in_rev. exact Hy. }
    destruct (rev r) as [|c1 t] eqn:E; [apply R|].
    destruct (c1 =? c_sq). { intros H. apply V. right. rewrite <- in_rev in H. exact H. }
    destruct (N.eqb_spec c1 10) as [->|]; [|apply R]. destruct t as [|c2 t2]; [apply R|]. destruct (c2 =? c_sq); [|apply R].
    intros H. rewrite <- in_rev in H. apply V. destruct H as [<-|H]; [left; reflexivity|right; right; exact H].
  Qed.
  Lemma strip_quotes_valid s : valid_strb s = true -> valid_strb (strip_quotes s) = true.
  Proof. unfold valid_strb. rewrite !forallb_forall. intros H x Hx. apply H. apply strip_quotes_in. exact Hx. Qed.
  Lemma mw_opt_n x : wf_opint x = true -> mw (opt_n x) = true.
  Proof.
    destruct x as [[n d]|]; [|reflexivity]. cbn [wf_opint opt_n option_map mw fst snd]. intros H.
    unfold wf_expr. destruct n; cbn [toks app forallb wf_tok]; rewrite H; reflexivity.
  Qed.
  Lemma wfe_or_none_b x : wfe (or_none PBool x) = true. Proof. destruct x as [[|]|]; reflexivity. Qed.
  Lemma mw_where x : wf_ostr x = true -> mw (option_map (fun s => PCall [cfg_sa c; lit "text"] [Sr s]) x) = true.
  Proof. destruct x as [s|]; [|reflexivity]. cbn [wf_ostr option_map mw]. intros H. rewrite wfe_call. cbn [forallb]. lit_ok. rewrite Hsa, wfe_Sr, H. reflexivity. Qed.
  Lemma wfe_sd d : wf_sd d = true -> wfe (render_server_default c d) = true.
  Proof.
    destruct d as [s|s|s p|i|]; cbn [wf_sd render_server_default]; intros H.
    - rewrite wfe_Sr. apply strip_quotes_valid. exact H.
    - rewrite wfe_call. cbn [forallb]. rewrite wfe_Sr, H, Hsa. reflexivity.
    - rewrite wfe_call. cbn [forallb]. rewrite wfe_Sr, H, Hsa. lit_ok. cbn [andb]. rewrite wfe_kwlist by reflexivity. cbn [forallb fst snd].
      rewrite mw_opt_b. reflexivity.
    - unfold wf_identity in H. rewrite !andb_true_iff in H. destruct H as [[[[I1 I2] I3] I4] I5].
      rewrite wfe_call. cbn [forallb]. lit_ok. rewrite Hsa. cbn [andb]. rewrite wfe_kwlist by reflexivity. cbn [forallb fst snd mw].
      rewrite wfe_or_none_b, !mw_opt_b, !mw_opt_n by assumption. reflexivity.
    - rewrite wfe_call. cbn [forallb]. lit_ok. rewrite Hsa. reflexivity.
  Qed.

  Ltac mw_solve :=
    lazymatch goal with
    | |- mw (opt_b _) = true => apply mw_opt_b
    | |- mw (opt_s (truthy_s _)) = true => apply mw_opt_s, truthy_s_wf; assumption
    | |- mw (opt_s _) = true => apply mw_opt_s; assumption
    | |- mw (opt_i (truthy _)) = true => apply mw_opt_i, truthy_wf; assumption
    | |- mw (opt_i _) = true => apply mw_opt_i; assumption
    | |- mw None = true => reflexivity
    | |- mw (option_map (fun s => PCall _ _) _) = true => apply mw_where; assumption
    | |- mw (if _ then None else _) = true => apply mw_if; mw_solve
    | |- mw (when _ _) = true => apply mw_when; mw_solve
    | |- mw (Some _) = true => unfold mw; mw_solve
    | |- wfe (PBool _) = true => apply wfe_bool
    | |- wfe (id_ _) = true => rewrite wfe_id; assumption
    | |- wfe (or_none Sr _) = true => apply wfe_or_none_s; assumption
    | |- wfe (or_none id_ _) = true => apply wfe_or_none_i; assumption
    | |- wfe (rname _ _ _) = true => apply wfe_rname; assumption
    | |- _ => first [assumption | reflexivity]
    end.
  Ltac kww := unfold ixkw_items; cbn [app]; rewrite wfe_kwlist by reflexivity; cbn [forallb fst snd]; repeat (apply andb_true_iff; split); try mw_solve.

  Lemma wfe_column x : wf_column x = true -> wfe (render_column c x) = true.
  Proof.
    unfold wf_column. intros H. rewrite !andb_true_iff in H. destruct H as [[[H1 H2] H3] H4].
    unfold render_column. rewrite wfe_call. cbn [forallb]. lit_ok. rewrite Hsa. cbn [andb].
    rewrite !forallb_app. cbn [forallb]. rewrite wfe_id, H1, (wfe_repr_type _ H2). cbn [andb].
    apply andb_true_iff; split.
    - unfold pos_default. destruct (c_default x) as [d|]; [destruct (positional_default d)|]; cbn [forallb]; rewrite ?wfe_sd; auto.
    - kww. unfold kw_default. destruct (c_default x) as [d|]; [destruct (positional_default d)|]; cbn [mw]; rewrite ?wfe_sd; auto.
  Qed.

  Lemma mw_opt_name n : wf_cname n = true -> mw (opt_name c n) = true.
  Proof. intros H. unfold opt_name. apply mw_when, wfe_rname. exact H. Qed.

  Lemma wfe_constraint k e : wf_tcons k = true -> render_constraint c k = Some e -> wfe e = true.
  Proof.
    destruct k as [cols n|cols refs n ou od i d ua m|cols n d i|s n]; cbn [render_constraint wf_tcons]; intros H.
    - destruct cols as [|c0 cols]; [discriminate|]. remember (c0 :: cols) as cc. apply andb_true_iff in H. destruct H as [H1 H2].
      intros [= <-]. rewrite wfe_call. cbn [forallb]. lit_ok. rewrite Hsa. cbn [andb]. rewrite forallb_app, wfe_map_id, H1. cbn [andb].
      kww. apply mw_opt_name. assumption.
    - rewrite !andb_true_iff in H. destruct H as [[[[[[H1 H2] H3] H4] H5] H6] H7].
      intros [= <-]. rewrite wfe_call. cbn [forallb app]. lit_ok. rewrite Hsa. cbn [andb].
      rewrite !wfe_list, wfe_map_id, wfe_map_ref, H1, H2. cbn [andb]. kww. apply mw_opt_name. assumption.
    - rewrite !andb_true_iff in H. destruct H as [[H1 H2] H3].
      intros [= <-]. rewrite wfe_call. cbn [forallb]. lit_ok. rewrite Hsa. cbn [andb]. rewrite forallb_app, wfe_map_id, H1. cbn [andb].
      kww. apply mw_opt_name. assumption.
    - apply andb_true_iff in H. destruct H as [H1 H2].
      intros [= <-]. rewrite wfe_call. cbn [forallb app]. lit_ok. rewrite Hsa, wfe_Sr, H1. cbn [andb]. kww. apply mw_opt_name. assumption.
  Qed.
  Lemma wfe_somes l : forallb wf_tcons l = true -> forallb wfe (somes (map (render_constraint c) l)) = true.
  Proof.
    induction l as [|k r IH]; [reflexivity|]. cbn [forallb map somes]. intros H. apply andb_true_iff in H. destruct H as [H1 H2].
    destruct (render_constraint c k) eqn:E; [|apply IH; exact H2]. cbn [somes forallb]. rewrite (wfe_constraint _ _ H1 E). apply IH. exact H2.
  Qed.

  Lemma wfe_create_table t : wf_table t = true -> wfe (render_create_table c t) = true.
  Proof.
    unfold wf_table. intros H. rewrite !andb_true_iff in H. destruct H as [[[[[H1 H2] H3] H4] H5] H6].
    unfold render_create_table. rewrite wfe_call. cbn [forallb]. lit_ok. rewrite Hop. cbn [andb].
    rewrite forallb_app. cbn [forallb]. rewrite wfe_id, H1, forallb_app, wfe_somes by assumption. cbn [andb].
    assert (A: forallb wfe (map (render_column c) (t_cols t)) = true).
    { rewrite forallb_map. rewrite forallb_forall in *. intros x Hx. apply wfe_column. apply H3; assumption. }
    rewrite A. cbn [andb]. kww. destruct (t_prefixes t) as [|p ps]; [reflexivity|]. unfold mw. rewrite wfe_list, wfe_map_Sr. exact H6.
  Qed.

  Lemma wfe_map_ix l : forallb wf_ixexpr l = true -> forallb wfe (map (render_ixexpr c) l) = true.
  Proof.
    induction l as [|[i|s] r IH]; [reflexivity| |]; cbn [forallb map render_ixexpr wf_ixexpr]; intros H; apply andb_true_iff in H; destruct H as [H1 H2].
    - rewrite wfe_id, H1, IH by assumption. reflexivity.
    - rewrite wfe_call. cbn [forallb]. lit_ok. rewrite Hsa, wfe_Sr, H1, IH by assumption. reflexivity.
  Qed.

  Lemma wfe_tbl_op hb tn s o : wf_tbl_op tn s o = true -> wfe (render_tbl_op c hb tn s o) = true.
  Proof.
    unfold wf_tbl_op. intros H. rewrite !andb_true_iff in H. destruct H as [[Ht Hs] Ho].
    assert (P: valid_ident (aprefix c hb) = true) by (unfold aprefix; destruct hb; [reflexivity|exact Hop]).
    assert (T: forallb wfe (if hb then [] else [id_ tn]) = true) by (destruct hb; [reflexivity|cbn [forallb]; rewrite wfe_id, Ht; reflexivity]).
    destruct o; cbn [render_tbl_op] in *; rewrite wfe_call; cbn [forallb]; lit_ok; rewrite P; cbn [andb]; rewrite ?forallb_app; cbn [forallb];
      rewrite ?T; cbn [andb].
    - rewrite (wfe_column _ Ho). cbn [andb]. kww.
    - rewrite wfe_id, Ho. cbn [andb]. kww.
    - unfold wf_alter in Ho. rewrite !andb_true_iff in Ho. destruct Ho as [[[[[[[A1 A2] A3] A4] A5] A6] A7] A8].
      rewrite wfe_id, A1. cbn [andb]. kww.
      + apply (mw_map _ wf_ty); [apply wfe_repr_type|exact A2].
      + apply (mw_tri _ wf_sd); [apply wfe_sd|exact A3].
      + apply (mw_map _ wf_ty); [apply wfe_repr_type|exact A5].
      + apply (mw_tri _ valid_strb); [intros a0 Ha; rewrite wfe_Sr; exact Ha|exact A6].
      + destruct (a_nullable a); mw_solve.
      + destruct (a_server_default a); try mw_solve. apply (mw_map _ wf_sd); [apply wfe_sd|exact A8].
    - rewrite !andb_true_iff in Ho. destruct Ho as [[A1 A2] A3]. unfold wf_ixkw in A3. apply andb_true_iff in A3. destruct A3 as [K1 K2].
      rewrite wfe_rname, wfe_list, wfe_map_ix by assumption. cbn [andb]. kww.
    - apply andb_true_iff in Ho. destruct Ho as [A1 A3]. unfold wf_ixkw in A3. apply andb_true_iff in A3. destruct A3 as [K1 K2].
      rewrite wfe_rname by assumption. cbn [andb]. kww.
    - rewrite !andb_true_iff in Ho. destruct Ho as [[A1 A2] A3]. rewrite wfe_rname, wfe_list, wfe_map_id, A2 by assumption. cbn [andb]. kww.
    - unfold wf_fk in Ho. rewrite !andb_true_iff in Ho. destruct Ho as [[[[[[[[[A1 A2] A3] A4] A5] A6] A7] A8] A9] A10].
      rewrite wfe_rname, wfe_id, A2, !wfe_list, !wfe_map_id, A3, A4 by assumption. cbn [andb]. kww.
    - apply andb_true_iff in Ho. destruct Ho as [A1 A2]. rewrite wfe_rname by assumption. cbn [andb]. kww.
    - apply andb_true_iff in Ho. destruct Ho as [A1 A2]. rewrite wfe_or_none_s by assumption. cbn [andb]. kww.
    - kww.
  Qed.

  Theorem render_wf ops : forallb wf_top ops = true ->
    forallb (fun st => forallb wfe (stmt_exprs st)) (render_ops c ops) = true.
  Proof.
    intros T. unfold render_ops. induction ops as [|o r IH]; [reflexivity|].
    cbn [forallb] in T. apply andb_true_iff in T. destruct T as [To Tr].
    cbn [flat_map]. rewrite forallb_app, (IH Tr), andb_true_r.
    destruct o as [t| |sql|n s ie ty|tn s o|tn s l]; cbn [render_top wf_top] in *.
    - cbn [forallb stmt_exprs]. rewrite wfe_create_table; auto.
    - reflexivity.
    - cbn [forallb stmt_exprs]. rewrite wfe_call. cbn [forallb]. lit_ok. rewrite Hop, wfe_Sr, To. reflexivity.
    - apply andb_true_iff in To. destruct To as [A1 A2].
      cbn [forallb stmt_exprs]. unfold render_drop_table. rewrite wfe_call. cbn [forallb app]. lit_ok. rewrite Hop, wfe_id, A1. cbn [andb].
      rewrite andb_true_r. kww.
    - cbn [forallb stmt_exprs]. rewrite wfe_tbl_op; auto.
    - rewrite !andb_true_iff in To. destruct To as [[A1 A2] A3].
      destruct l as [|m l]; [reflexivity|]. destruct (cfg_batch c).
      + cbn [forallb stmt_exprs]. rewrite andb_true_r. apply andb_true_iff. split.
        * rewrite wfe_call. cbn [forallb app]. lit_ok. rewrite Hop, wfe_id, A1. cbn [andb]. kww.
        * rewrite forallb_map. rewrite forallb_forall in *. intros x Hx. apply wfe_tbl_op. apply A3; assumption.
      + rewrite forallb_map. rewrite forallb_forall in *. intros x Hx. cbn [stmt_exprs forallb]. rewrite wfe_tbl_op; auto.
  Qed.
End WF.

(* ================================================================ part 7: text pasted between quotes does not survive a quote *)
Definition fam (st:lstate) : Prop :=
  match st with LStr q _ | LEsc q _ | LHex q _ _ _ | LOct q _ _ _ => q = c_sq | _ => False end.
Definition is_err (st:lstate) : Prop := match st with LErr _ => True | _ => False end.
Definition weight (st:lstate) : nat :=
  match st with LStr _ a => length a | LEsc _ a | LHex _ a _ _ | LOct _ a _ _ => S (length a) | _ => 0%nat end.

Ltac split_ifs := repeat match goal with
  | |- context [if ?b then _ else _] => destruct b
  | |- context [match ?x with _ => _ end] => destruct x
  end.

Lemma step_grows st out c : exists e, snd (lex_step (st, out) c) = e ++ out.
Proof.
  destruct st; cbn [lex_step]; unfold idle_step, str_step; split_ifs; cbn [snd];
    first [exists []; reflexivity | eexists [_]; reflexivity | eexists [_; _]; reflexivity].
Qed.
Lemma run_grows : forall l st out, exists e, snd (lex_run (st, out) l) = e ++ out.
Proof.
  induction l as [|c l IH]; intros st out; [exists []; reflexivity|]. rewrite lex_run_cons.
  destruct (lex_step (st, out) c) as [st1 out1] eqn:E. destruct (step_grows st out c) as [e1 H1]. rewrite E in H1. cbn [snd] in H1. subst out1.
  destruct (IH st1 (e1 ++ out)) as [e2 H2]. exists (e2 ++ e1). rewrite H2, app_assoc. reflexivity.
Qed.
Lemma finish_first t l st toks : lex_finish (lex_run (st, [StrTok t]) l) = Ok toks -> exists rest, toks = StrTok t :: rest.
Proof.
  destruct (run_grows l st [StrTok t]) as [e H]. destruct (lex_run (st, [StrTok t]) l) as [st' out'] eqn:E. cbn [snd] in H. subst out'.
  unfold lex_finish. destruct st'; intros [= <-]; cbn [rev]; rewrite ?rev_app_distr; cbn [rev app]; eexists; rewrite <- ?app_assoc; reflexivity.
Qed.

(* one character other than the quote keeps the scanner inside the literal (or kills it) and decodes at most one character *)
Lemma step_fam st c : fam st -> c <> c_sq ->
  let r := lex_step (st, []) c in snd r = [] /\ (is_err (fst r) \/ (fam (fst r) /\ (weight (fst r) <= S (weight st))%nat)).
Proof.
  intros F Hc. apply N.eqb_neq in Hc.
  destruct st as [| | | |q a|q a|q a k v|q a k v|]; cbn [fam] in F; try contradiction; subst q; cbn [lex_step].
  - unfold str_step. rewrite Hc. split_ifs; cbn; split; auto; right; split; auto.
  - rewrite Hc. split_ifs; cbn; split; auto; right; split; auto.
  - split_ifs; cbn; split; auto; right; split; auto.
  - unfold str_step. rewrite Hc. split_ifs; cbn; split; auto; right; split; auto.
Qed.

(* the quote itself: it closes the literal, or is swallowed by an escape, or kills the scanner *)
Lemma quote_fam st : fam st ->
  let r := lex_step (st, []) c_sq in
  (exists t, snd r = [StrTok t] /\ (length t <= weight st)%nat) \/
  (snd r = [] /\ (is_err (fst r) \/ (fam (fst r) /\ (weight (fst r) <= weight st)%nat))).
Proof.
  intros F. destruct st as [| | | |q a|q a|q a k v|q a k v|]; cbn [fam] in F; try contradiction; subst q; cbn [lex_step].
  - unfold str_step. rewrite N.eqb_refl. left. destruct a as [|x a]; cbn [snd]; eexists; split; try reflexivity; rewrite ?rev_length; auto.
  - right. cbn. split; auto.
  - right. cbn. split; auto.
  - left. cbn. eexists. split; [reflexivity|]. rewrite app_length, rev_length. cbn. lia.
Qed.

Lemma err_run e out l : lex_finish (lex_run (LErr e, out) l) = Err e.
Proof. rewrite lex_run_err. reflexivity. Qed.

Lemma fam_bound : forall l st toks, fam st -> lex_finish (lex_run (st, []) l) = Ok toks ->
  exists t rest, toks = StrTok t :: rest /\ (S (length t) <= weight st + length l)%nat.
Proof.
  induction l as [|c l IH]; intros st toks F H.
  - destruct st; cbn in F; try contradiction; discriminate.
  - rewrite lex_run_cons in H. destruct (N.eq_dec c c_sq) as [->|Hc].
    + pose proof (quote_fam st F) as Q. destruct (lex_step (st, []) c_sq) as [st1 out1]. cbn [fst snd] in Q.
      destruct Q as [[t [-> Ht]]|[-> [E|[F1 W1]]]].
      * destruct (finish_first _ _ _ _ H) as [rest ->]. exists t, rest. split; [reflexivity|]. cbn [length]. lia.
      * destruct st1; try contradiction. rewrite err_run in H. discriminate.
      * destruct (IH st1 toks F1 H) as [t [rest [-> B]]]. exists t, rest. split; [reflexivity|]. cbn [length]. lia.
    + pose proof (step_fam st c F Hc) as Q. destruct (lex_step (st, []) c) as [st1 out1]. cbn [fst snd] in Q.
      destruct Q as [-> [E|[F1 W1]]].
      * destruct st1; try contradiction. rewrite err_run in H. discriminate.
      * destruct (IH st1 toks F1 H) as [t [rest [-> B]]]. exists t, rest. split; [reflexivity|]. cbn [length]. lia.
Qed.

Lemma fam_prefix : forall a st, fam st -> ~ In c_sq a ->
  exists st', lex_run (st, []) a = (st', []) /\ (is_err st' \/ (fam st' /\ (weight st' <= weight st + length a)%nat)).
Proof.
  induction a as [|c a IH]; intros st F Hn.
  - exists st. split; [reflexivity|]. right. split; [exact F|lia].
  - rewrite lex_run_cons. assert (Hc: c <> c_sq) by (intros ->; apply Hn; left; reflexivity).
    pose proof (step_fam st c F Hc) as Q. destruct (lex_step (st, []) c) as [st1 out1]. cbn [fst snd] in Q.
    destruct Q as [-> [E|[F1 W1]]].
    + destruct st1; try contradiction. exists (LErr e). rewrite lex_run_err. split; [reflexivity|left; exact I].
    + destruct (IH st1 F1) as [st' [R [E|[F' W']]]]. { intros Hin. apply Hn. right. exact Hin. }
      * exists st'. split; [exact R|left; exact E].
      * exists st'. split; [exact R|]. right. split; [exact F'|]. cbn [length]. lia.
Qed.

Lemma first_occurrence (x:N) s : In x s -> exists a b, s = a ++ x :: b /\ ~ In x a.
Proof.
  induction s as [|c s IH]; [intros []|]. intros H. destruct (N.eq_dec c x) as [->|Hc].
  - exists [], s. split; [reflexivity|intros []].
  - destruct H as [E|H]; [contradiction|]. destruct (IH H) as [a [b [-> Hn]]]. exists (c :: a), b. split; [reflexivity|].
    intros [E|Hin]; [contradiction|exact (Hn Hin)].
Qed.

Theorem raw_quote_breaks s : In c_sq s -> py_lex (raw_quote s) <> Ok [StrTok s].
Proof.
  intros Hin H. destruct (first_occurrence _ _ Hin) as [a [b [E Hn]]].
  unfold py_lex, raw_quote in H. rewrite lex_run_cons in H.
  change (lex_step (LIdle, []) c_sq) with (LStr c_sq [], @nil pytoken) in H.
  rewrite E, <- app_assoc, lex_run_app in H.
  destruct (fam_prefix a (LStr c_sq []) eq_refl Hn) as [sa [R [Er|[Fa Wa]]]]; rewrite R in H.
  - destruct sa; try contradiction. rewrite err_run in H. discriminate.
  - cbn [weight length] in Wa. cbn [app] in H. rewrite lex_run_cons in H.
    pose proof (quote_fam sa Fa) as Q. destruct (lex_step (sa, []) c_sq) as [st1 out1]. cbn [fst snd] in Q.
    assert (Ls: length s = (length a + S (length b))%nat) by (rewrite E, app_length; reflexivity).
    destruct Q as [[t [-> Ht]]|[-> [Er|[F1 W1]]]].
    + destruct (finish_first _ _ _ _ H) as [rest Hr]. injection Hr as Hr _. subst t. rewrite <- E in Ht. lia.
    + destruct st1; try contradiction. rewrite err_run in H. discriminate.
    + destruct (fam_bound _ _ _ F1 H) as [t [rest [Hr B]]]. injection Hr as Hr _. subst t. rewrite <- E in B. rewrite app_length in B. cbn [length] in B. lia.
Qed.
