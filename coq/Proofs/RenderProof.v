(* Proofs about Model/Render.v: the printed token list lexes back to the intended tokens; every renderer
   passes its string fields through repr except the table prefixes; reading a rendered tree back gives the
   operation objects on the canonical class. *)
From Coq Require Import String.
From AV Require Import Model.PyRepr Model.Render Spec.C08 Proofs.PyReprProof.
Open Scope N_scope.

(* ================================================================ part 1: untok / py_lex *)
(* character class facts, by computation over the finite punctuation set *)
Lemma punct_cases c : is_punct c = true ->
  c = 40 \/ c = 41 \/ c = 91 \/ c = 93 \/ c = 44 \/ c = 61 \/ c = 46 \/ c = 45 \/ c = 42 \/ c = 58 \/ c = 123 \/ c = 125 \/ c = 43.
Proof.
  unfold is_punct. cbn [existsb]. intros H.
  repeat (apply orb_true_iff in H; destruct H as [H|H]; [apply N.eqb_eq in H; subst; tauto|]). discriminate.
Qed.

Lemma idle_punct out c : is_punct c = true -> idle_step out c = (LIdle, Punct c :: out).
Proof. intros H. apply punct_cases in H. repeat (destruct H as [->|H]; [reflexivity|]). subst; reflexivity. Qed.

Lemma punct_not_ident c : is_punct c = true -> is_ident_char c = false.
Proof. intros H. apply punct_cases in H. repeat (destruct H as [->|H]; [reflexivity|]). subst; reflexivity. Qed.
Lemma punct_not_quote c : is_punct c = true -> is_quote c = false.
Proof. intros H. apply punct_cases in H. repeat (destruct H as [->|H]; [reflexivity|]). subst; reflexivity. Qed.
Lemma punct_not_digit c : is_punct c = true -> is_digit c = false.
Proof. intros H. apply punct_cases in H. repeat (destruct H as [->|H]; [reflexivity|]). subst; reflexivity. Qed.
Lemma punct_not_start c : is_punct c = true -> is_ident_start c = false.
Proof. intros H. apply punct_cases in H. repeat (destruct H as [->|H]; [reflexivity|]). subst; reflexivity. Qed.

(* the lexer state between two tokens *)
Definition bstate (printable : N -> bool) (prev : option ptok) : lstate :=
  match prev with
  | None | Some (TPunct _) => LIdle
  | Some (TName s) => LName (rev s)
  | Some (TNum d) => LNum (rev d)
  | Some (TStr _ s) => after_str s (choose_quote s)
  end.
(* tokens still to be flushed by the state *)
Definition pend (prev : option ptok) : list pytoken :=
  match prev with Some (TName s) => [Name s] | Some (TNum d) => [NumTok d] | _ => [] end.
(* tokens a token adds to the output as soon as its text is consumed *)
Definition done (t : ptok) : list pytoken :=
  match t with TPunct c => [Punct c] | TStr _ s => [StrTok s] | _ => [] end.

Lemma name_run out : forall r acc, forallb is_ident_char r = true ->
  lex_run (LName acc, out) r = (LName (rev r ++ acc), out).
Proof.
  induction r as [|c r IH]; intros acc H; [reflexivity|].
  cbn [forallb] in H. apply andb_true_iff in H. destruct H as [Hc Hr].
  rewrite lex_run_cons. cbn [lex_step]. rewrite Hc. rewrite IH by assumption.
  cbn [rev]. rewrite <- app_assoc. reflexivity.
Qed.

Lemma start_is_char c : is_ident_start c = true -> is_ident_char c = true.
Proof. intros H. unfold is_ident_char. rewrite H. reflexivity. Qed.

Lemma name_from_idle out s : valid_ident s = true -> lex_run (LIdle, out) s = (LName (rev s), out).
Proof.
  destruct s as [|c r]; [discriminate|]. cbn [valid_ident]. intros H. apply andb_true_iff in H. destruct H as [Hc Hr].
  rewrite lex_run_cons. cbn [lex_step]. unfold idle_step.
  assert (Hs: is_space c = false).
  { unfold is_space, is_ident_start in *. destruct (N.eqb_spec c 32), (N.eqb_spec c 10), (N.eqb_spec c 13), (N.eqb_spec c 9); subst; try discriminate; reflexivity. }
  rewrite Hs, Hc. rewrite name_run by assumption. reflexivity.
Qed.

Lemma digits_run out : forall r acc, forallb is_digit r = true -> (length acc >= 2)%nat \/ (exists c, acc = [c] /\ c <> 48) ->
  lex_run (LNum acc, out) r = (LNum (rev r ++ acc), out).
Proof.
  induction r as [|c r IH]; intros acc H Hacc; [reflexivity|].
  cbn [forallb] in H. apply andb_true_iff in H. destruct H as [Hc Hr].
  rewrite lex_run_cons. cbn [lex_step]. rewrite Hc.
  assert (E: str_eqb acc [48] = false).
  { destruct Hacc as [L|[d [-> Hd]]].
    - destruct acc as [|a [|b acc']]; cbn in L; try lia. unfold str_eqb. cbn. rewrite andb_false_r. reflexivity.
    - unfold str_eqb. cbn. apply N.eqb_neq in Hd. rewrite Hd. reflexivity. }
  rewrite E. rewrite IH; [|assumption|left; destruct Hacc as [L|[d0 [-> _]]]; cbn in *; lia].
  cbn [rev]. rewrite <- app_assoc. reflexivity.
Qed.

Lemma digit_idle out c : is_digit c = true -> idle_step out c = (LNum [c], out).
Proof.
  intros H. unfold idle_step.
  assert (is_space c = false /\ is_ident_start c = false) as [H1 H2].
  { unfold is_digit, is_space, is_ident_start in *. apply andb_true_iff in H. destruct H as [Ha Hb].
    apply N.leb_le in Ha, Hb. split.
    - rewrite !orb_false_iff, !N.eqb_neq. lia.
    - rewrite !orb_false_iff, !andb_false_iff, !N.leb_gt, N.eqb_neq. lia. }
  rewrite H1, H2, H. reflexivity.
Qed.

Lemma num_from_idle out d : valid_digits d = true -> lex_run (LIdle, out) d = (LNum (rev d), out).
Proof.
  destruct d as [|c r]; [discriminate|]. cbn [valid_digits].
  destruct r as [|c2 r].
  - intros H. rewrite lex_run_cons. cbn [lex_step]. rewrite digit_idle by assumption. reflexivity.
  - intros H. apply andb_true_iff in H. destruct H as [H Hr]. apply andb_true_iff in H. destruct H as [Hc Hz].
    rewrite lex_run_cons. cbn [lex_step]. rewrite digit_idle by assumption.
    rewrite digits_run; [|assumption|right; exists c; split; auto; apply negb_true_iff, N.eqb_neq in Hz; assumption].
    cbn [rev]. rewrite <- !app_assoc. reflexivity.
Qed.

Section Tokens.
  Variable printable : N -> bool.

  (* lexing the text of one token from the idle state *)
  Lemma text_from_idle out t : wf_tok t = true -> via_repr_tok t = true ->
    lex_run (LIdle, out) (tok_text printable t) = (bstate printable (Some t), done t ++ out).
  Proof.
    intros W V. destruct t as [s|c|h s|d]; cbn [tok_text bstate done wf_tok] in *.
    - apply name_from_idle; assumption.
    - rewrite lex_run_cons. cbn [lex_step]. rewrite idle_punct by assumption. reflexivity.
    - destruct h; [|discriminate]. unfold py_repr. rewrite lex_run_cons.
      change (lex_step (LIdle, out) (choose_quote s)) with (idle_step out (choose_quote s)).
      apply repr_lex_from. unfold valid_strb in W. rewrite forallb_forall in W.
      apply Forall_forall. intros x Hx. apply N.leb_le. apply W; assumption.
    - apply num_from_idle; assumption.
  Qed.

  (* flushing: a space after a wordy token, or a punctuation character right after it *)
  Lemma space_flush out prev : (forall t, prev = Some t -> wf_tok t = true) ->
    lex_run (bstate printable prev, out) [32] = (LIdle, pend prev ++ out).
  Proof.
    intros W. destruct prev as [[s|c|h s|d]|]; cbn [bstate pend]; try reflexivity.
    - cbn. rewrite rev_involutive. reflexivity.
    - unfold after_str. destruct s; [|reflexivity].
      reflexivity.
    - cbn. rewrite rev_involutive. reflexivity.
  Qed.

  Lemma first_char_not_quote t q : wf_tok t = true -> via_repr_tok t = true -> quote_ok q ->
    match t with TStr _ _ => True | _ => match tok_text printable t with c :: _ => c <> q | [] => True end end.
  Proof.
    intros W V Hq. destruct t as [s|c|h s|d]; cbn [tok_text wf_tok] in *; auto.
    - destruct s as [|c r]; auto. cbn [valid_ident] in W. apply andb_true_iff in W. destruct W as [W _].
      intros ->. destruct Hq as [-> | ->]; discriminate.
    - intros ->. destruct Hq as [-> | ->]; discriminate.
    - destruct d as [|c r]; auto. assert (is_digit c = true).
      { cbn [valid_digits] in W. destruct r; [assumption|]. apply andb_true_iff in W. destruct W as [W _].
        apply andb_true_iff in W. destruct W; assumption. }
      intros ->. destruct Hq as [-> | ->]; discriminate.
  Qed.

  (* one token after another *)
  Lemma tok_step out prev t :
    (forall p, prev = Some p -> wf_tok p = true) -> wf_tok t = true -> via_repr_tok t = true ->
    lex_run (bstate printable prev, out)
            ((match prev with Some p => if needs_space p t then [32] else [] | None => [] end) ++ tok_text printable t)
    = (bstate printable (Some t), done t ++ pend prev ++ out).
  Proof.
    intros Wp W V. destruct prev as [p|]; [|cbn [app bstate pend]; apply text_from_idle; assumption].
    destruct (needs_space p t) eqn:NS.
    - rewrite lex_run_app, space_flush by assumption. apply text_from_idle; assumption.
    - cbn [app]. unfold needs_space in NS. apply orb_false_iff in NS. destruct NS as [NS1 NS2].
      destruct p as [s|c|h s|d]; cbn [wordy andb] in NS1.
      + (* name then punctuation *)
        destruct t as [s'|c'|h' s'|d']; try discriminate. cbn [tok_text bstate pend done wf_tok] in *.
        rewrite lex_run_cons. cbn [lex_step].
        rewrite (punct_not_ident _ W), (punct_not_quote _ W). cbn [andb].
        rewrite rev_involutive, idle_punct by assumption. reflexivity.
      + cbn [bstate pend]. apply text_from_idle; assumption.
      + (* string then punctuation *)
        destruct t as [s'|c'|h' s'|d']; try discriminate. cbn [tok_text bstate pend done wf_tok] in *.
        unfold after_str. destruct s.
        * rewrite lex_run_cons. cbn [lex_step].
          assert (E: (c' =? choose_quote []) = false).
          { apply N.eqb_neq. intros ->. discriminate. }
          rewrite E, idle_punct by assumption. reflexivity.
        * rewrite lex_run_cons. cbn [lex_step]. rewrite idle_punct by assumption. reflexivity.
      + (* number then punctuation other than the dot *)
        destruct t as [s'|c'|h' s'|d']; try discriminate. cbn [tok_text bstate pend done wf_tok] in *.
        rewrite lex_run_cons. cbn [lex_step].
        rewrite (punct_not_digit _ W), (punct_not_start _ W).
        assert (E: (c' =? 46) = false).
        { destruct (N.eqb_spec c' 46); [subst; discriminate|reflexivity]. }
        rewrite E. cbn [orb]. rewrite rev_involutive, idle_punct by assumption. reflexivity.
  Qed.

  Lemma untok_lex : forall l prev out,
    (forall p, prev = Some p -> wf_tok p = true) -> forallb wf_tok l = true -> forallb via_repr_tok l = true ->
    lex_finish (lex_run (bstate printable prev, out)
                  ((match prev, l with Some p, t :: _ => if needs_space p t then [32] else [] | _, _ => [] end) ++ untok printable l))
    = Ok (rev out ++ pend prev ++ map erase l).
  Proof.
    induction l as [|t r IH]; intros prev out Wp W V.
    - cbn [untok map]. rewrite app_nil_r.
      destruct prev as [[s|c|h s|d]|]; cbn [app lex_run fold_left bstate pend lex_finish]; try (rewrite app_nil_r; reflexivity).
      + cbn [rev]. rewrite rev_involutive. reflexivity.
      + unfold after_str. destruct s; cbn [lex_finish]; rewrite app_nil_r; reflexivity.
      + cbn [rev]. rewrite rev_involutive. reflexivity.
    - cbn [forallb] in W, V. apply andb_true_iff in W, V. destruct W as [Wt Wr], V as [Vt Vr].
      cbn [untok]. rewrite app_assoc, lex_run_app.
      rewrite (tok_step out prev t Wp Wt Vt).
      specialize (IH (Some t) (done t ++ pend prev ++ out)).
      rewrite IH; [|intros p [= <-]; assumption|assumption|assumption].
      f_equal. cbn [map]. rewrite !rev_app_distr, <- !app_assoc. f_equal.
      destruct prev as [[s|c|h s|d]|], t as [s'|c'|h' s'|d']; reflexivity.
  Qed.

  Theorem lex_untok l : forallb wf_tok l = true -> forallb via_repr_tok l = true ->
    py_lex (untok printable l) = Ok (map erase l).
  Proof.
    intros W V. unfold py_lex. pose proof (untok_lex l None [] (fun p H => ltac:(discriminate)) W V) as H.
    cbn [bstate pend rev app] in H. exact H.
  Qed.

  Theorem print_lex e : wf_expr e = true -> all_leaves_via_repr e = true ->
    py_lex (print printable e) = Ok (tokens e).
  Proof. intros W V. apply lex_untok; assumption. Qed.
End Tokens.
