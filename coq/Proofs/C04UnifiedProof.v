(* C04 — the unified online/offline statement, the decision table of begin_transaction, the atomicity statement per
   combination, decider completeness. *)
From AV Require Import Spec.C04 Proofs.TxnProof Proofs.C04HeadsProof.
From Coq Require Import Lia.

(* ------------------------------------------------------------------ offline *)
Lemma autos_off xs : run_autos_off xs = autos_raise xs.
Proof. induction xs as [|[x|] xs IH]; simpl; auto. Qed.
Lemma items_off items : run_items_off items = items_raise false items.
Proof. induction items as [|[x|xs| |ys] items IH]; simpl; auto. rewrite autos_off, IH. reflexivity. Qed.
Lemma steps_off steps : existsb run_step_off steps = is_some (fidx false steps).
Proof. induction steps as [|sp steps IH]; simpl; auto. rewrite IH. unfold run_step_off, step_raises. rewrite items_off.
  destruct (items_raise false (s_body sp) || s_cb_raises sp); simpl; auto.
  destruct (fidx false steps); reflexivity. Qed.

Theorem C04u_main_thm u : u_as_sql u = true \/ consistent (to_input (u_gi u)) = true -> C04u_holds u (run_u u).
Proof. unfold C04u_holds, run_u. destruct (u_as_sql u).
  - intros _. simpl. split; [|repeat split; tauto].
    fold (sql_steps u). rewrite steps_off. apply is_some_iff'.
  - intros [H|H]; [discriminate|]. apply C04g_main_thm; auto. Qed.

Theorem check_C04u_sound u o : check_C04u u o = true -> C04u_holds u o.
Proof. unfold check_C04u, C04u_holds. destruct (u_as_sql u); [|apply check_C04g_sound].
  intros H. repeat (apply andb_true_iff in H; destruct H as [H ?]).
  split; [apply Bool.eqb_prop in H; rewrite H; apply is_some_iff'|].
  split; [apply seteqN_spec; auto|]. split; [apply seteqN_spec; auto|]. apply Bool.eqb_prop; auto. Qed.

(* ------------------------------------------------------------------ the decision table of begin_transaction *)
(* rows: _in_external_transaction, impl.transactional_ddl, transaction_per_migration, as_sql;
   columns: env.py's begin_transaction() / the per-migration begin_transaction(_per_migration=True) (no transaction of
   Alembic's own open yet) *)
Theorem bt_table_thm : forall tddl pm sql,
  (* a caller-held transaction (online only: as_sql forces the flag to False): Alembic opens nothing *)
  (forall h per, begin_transaction (mkMcfg tddl pm true sql) h per = BtNull) /\
  (* transactional DDL *)
  begin_transaction (mkMcfg true false false sql) false false = (if sql then BtBeginCommit else BtProxy) /\
  (forall h, begin_transaction (mkMcfg true false false sql) h true = BtNull) /\
  (forall h, begin_transaction (mkMcfg true true false sql) h false = BtNull) /\
  begin_transaction (mkMcfg true true false sql) false true = (if sql then BtBeginCommit else BtProxy) /\
  (* no transactional DDL: one real transaction per migration online, nothing at all in a script *)
  (forall h, begin_transaction (mkMcfg false pm false sql) h false = BtNull) /\
  begin_transaction (mkMcfg false pm false sql) false true = (if sql then BtNull else BtProxy) /\
  begin_transaction (mkMcfg false pm false sql) true true = BtNull.
Proof. intros tddl pm sql. repeat split; intros; destruct tddl, pm, sql; try destruct h; try destruct per; reflexivity. Qed.

(* ------------------------------------------------------------------ atomicity, per combination *)
(* which migrations' version rows survive a failure in migration k (online) *)
Theorem atomicity_table_thm i k : consistent i = true -> fail_index i = Some k ->
  let rows := vrows (o_db (txn_run i)) in
  let rows0 := vrows (i_db0 i) in
  (i_external i = true -> rows = rows0) /\
  (i_external i = false -> i_tddl i = true -> i_per_mig i = false ->
     rows = rows_after (firstn (last_autocommit (i_steps i) 0 0) (i_steps i)) rows0 /\
     last_autocommit (i_steps i) 0 0 <= k /\
     (none_enters (i_steps i) = true -> rows = rows0)) /\
  (i_external i = false -> i_per_mig i = true -> rows = rows_after (firstn k (i_steps i)) rows0) /\
  (i_external i = false -> i_tddl i = false -> rows = rows_after (firstn k (i_steps i)) rows0).
Proof.
  intros Hc Hf rows rows0. pose proof (version_rows_thm i Hc) as R. pose proof (count_le i k Hf) as L.
  unfold committed_count in *. rewrite Hf in *. fold rows rows0 in R.
  split; [|split; [|split]].
  - intros He. rewrite He in R. exact R.
  - intros He Ht Hp. rewrite He, Ht, Hp in *. simpl in *. split; [exact R|]. split; [exact L|].
    intros Hn. rewrite R.
    assert (G : forall steps idx acc j, none_enters steps = true -> fidx false steps = Some j ->
                  last_autocommit steps idx acc = acc).
    { induction steps as [|sp steps IH]; intros idx acc j; simpl; [discriminate|].
      intros H. apply andb_true_iff in H as [H1 H2]. apply negb_true_iff in H1. rewrite H1.
      destruct (step_raises false sp); auto. simpl in H2.
      destruct (fidx false steps) eqn:E; simpl; [|discriminate]. intros _. eapply IH; eauto. }
    unfold fail_index in Hf. rewrite He in Hf. rewrite (G _ 0 0 k Hn Hf). reflexivity.
  - intros He Hp. rewrite He, Hp in R. rewrite andb_false_r in R. exact R.
  - intros He Ht. rewrite He, Ht in R. exact R.
Qed.

(* ------------------------------------------------------------------ decider completeness *)
Lemma seteqN_complete a b : (forall x, In x a <-> In x b) -> seteqN a b = true.
Proof. apply seteqN_spec. Qed.

Theorem check_C04_complete i o : C04_holds i o -> check_C04 i o = true.
Proof.
  unfold C04_holds, check_C04. intros (H1 & H2 & H3 & H4).
  apply andb_true_iff; split; [apply andb_true_iff; split; [apply andb_true_iff; split|]|].
  - apply eqb_true_iff. destruct (o_raised o) eqn:Er, (fail_index i) eqn:Ef; simpl; auto.
    + exfalso. apply (proj1 H1 eq_refl). reflexivity.
    + apply H1. discriminate.
  - destruct (fail_index i) as [k|]; auto. apply Nat.leb_le. apply H2. reflexivity.
  - apply seteqN_complete. exact H3.
  - destruct (kind_eqb (i_kind i) TxDDL) eqn:Ek; simpl; auto. apply kind_eqb_eq in Ek.
    destruct (no_partial_commit i) eqn:En; simpl; auto. destruct (H4 Ek eq_refl) as [H5 H6].
    apply andb_true_iff; split; [apply seteqN_complete; exact H5|].
    destruct (i_steps i); auto. apply eqb_true_iff. apply H6. discriminate.
Qed.

(* ------------------------------------------------------------------ a query before begin_transaction() changes nothing *)
Lemma autobegin_idem k s : sa_autobegin k (sa_autobegin k s) = sa_autobegin k s.
Proof. unfold sa_autobegin. destruct (s_sa s) eqn:E; simpl; [rewrite E|]; reflexivity. Qed.
Lemma autobegin_al k s : s_al (sa_autobegin k s) = s_al s.
Proof. unfold sa_autobegin. destruct (s_sa s); reflexivity. Qed.
Lemma run_migrations_autobegin k c steps s : run_migrations k c steps (sa_autobegin k s) = run_migrations k c steps s.
Proof. unfold run_migrations. rewrite autobegin_idem. reflexivity. Qed.

Theorem query_irrelevant_thm q i : txn_run_q q i = txn_run i.
Proof.
  destruct q; [|reflexivity]. unfold txn_run_q, txn_run. cbv zeta.
  set (s0 := mkSt (mkDB (i_db0 i) None) false false).
  set (s1 := if i_external i then sa_autobegin (i_kind i) s0 else s0).
  set (c := mkMcfg (i_tddl i) (i_per_mig i) (s_sa s1) false).
  unfold bt_enter. rewrite autobegin_al, autobegin_idem.
  destruct (begin_transaction c (s_al s1) false); try reflexivity; rewrite run_migrations_autobegin; reflexivity.
Qed.

(* ------------------------------------------------------------------ several databases, online *)
Lemma multi_run_nth dflt : forall calls prev k c, nth_error calls k = Some c ->
  nth_error (multi_run dflt prev calls) k =
  Some (txn_run_g (with_tddl (uc_in c)
          (match fold_left acc_opt (map uc_tddl (firstn (S k) calls)) prev with Some b => b | None => dflt end))).
Proof. induction calls as [|c0 calls IH]; intros prev k c; [destruct k; discriminate|].
  destruct k as [|k]; simpl.
  - intros [= <-]. reflexivity.
  - intros H. rewrite (IH _ _ _ H). reflexivity. Qed.
