(* C13 — proofs.  Part 1: the symbolic view of statement lists and soundness of the decider
   (arbitrary statement lists: these are outputs of the implementation).
   Part 2: the model satisfies the property, dialect by dialect. *)
From AV Require Import Spec.C13.
From Coq Require Import List NArith Bool Lia.
Import ListNotations.

(* ================================================================== Part 1 *)

Lemma apply_assign st s : apply st s = fold_left set (assign s) st.
Proof. destruct s; reflexivity. Qed.

Lemma run_flat ss : forall st, run_total ss st = fold_left set (all_assign ss) st.
Proof.
  unfold run_total, all_assign. induction ss as [|s r IH]; intros st; [reflexivity|].
  cbn [fold_left flat_map]. rewrite fold_left_app, IH, apply_assign. reflexivity.
Qed.

Lemma get_set a st v : get a (set st v) = if attr_eqb (attr_of v) a then v else get a st.
Proof. destruct a, v; reflexivity. Qed.

Definition final (a:attr) (vs:list aval) (init:aval) : aval :=
  fold_left (fun acc v => if attr_eqb (attr_of v) a then v else acc) vs init.

Lemma get_fold a vs : forall st, get a (fold_left set vs st) = final a vs (get a st).
Proof.
  unfold final. induction vs as [|v r IH]; intros st; [reflexivity|].
  cbn [fold_left]. rewrite IH, get_set. reflexivity.
Qed.

Lemma final_lastset_gen a vs init : forall acc,
  final a vs (match acc with Some v => v | None => init end) =
  match fold_left (fun acc v => if attr_eqb (attr_of v) a then Some v else acc) vs acc with
  | Some v => v | None => init end.
Proof.
  unfold final. induction vs as [|v r IH]; intros acc; [reflexivity|].
  cbn [fold_left]. destruct (attr_eqb (attr_of v) a).
  - apply (IH (Some v)).
  - apply IH.
Qed.

Lemma final_lastset a vs init :
  final a vs init = match lastset a vs with Some v => v | None => init end.
Proof. apply (final_lastset_gen a vs init None). Qed.

(* the attribute a after running ss: the last assigned value, else the initial one *)
Lemma get_run a ss st :
  get a (run_total ss st) = match lastset a (all_assign ss) with Some v => v | None => get a st end.
Proof. rewrite run_flat, get_fold, final_lastset. reflexivity. Qed.

Lemma col_ext s1 s2 : (forall a, get a s1 = get a s2) -> s1 = s2.
Proof.
  intros H. destruct s1, s2.
  pose proof (H AName) as H1. pose proof (H AType) as H2. pose proof (H ANull) as H3.
  pose proof (H ADefault) as H4. pose proof (H AComment) as H5. pose proof (H AAutoinc) as H6.
  cbn in *. congruence.
Qed.

Lemma get_override a st req :
  get a (override st req) = match req_val req a with Some v => v | None => get a st end.
Proof.
  destruct req as [rt rn rd rname rc ra ru].
  destruct a; cbn; [destruct rname|destruct rt|destruct rn|destruct rd|destruct rc|destruct ra]; reflexivity.
Qed.

Lemma opt_eqbN_eq a b : opt_eqb N.eqb a b = true -> a = b.
Proof. destruct a, b; cbn; try discriminate; auto. intros H. apply N.eqb_eq in H. congruence. Qed.
Lemma ty_eqb_eq a b : ty_eqb a b = true -> a = b.
Proof.
  destruct a, b. unfold ty_eqb. cbn. rewrite !andb_true_iff. intros [[H1 H2] H3].
  apply N.eqb_eq in H1. apply eqb_prop in H2. apply opt_eqbN_eq in H3. congruence.
Qed.
Lemma aval_eqb_eq v w : aval_eqb v w = true -> v = w.
Proof.
  destruct v, w; cbn; try discriminate; intros H.
  - apply N.eqb_eq in H; congruence.
  - apply ty_eqb_eq in H; congruence.
  - apply eqb_prop in H; congruence.
  - apply opt_eqbN_eq in H; congruence.
  - apply opt_eqbN_eq in H; congruence.
  - apply eqb_prop in H; congruence.
Qed.
Lemma attr_eqb_eq a b : attr_eqb a b = true -> a = b.
Proof. destruct a, b; cbn; congruence. Qed.
Lemma attr_eqb_refl a : attr_eqb a a = true.
Proof. destruct a; reflexivity. Qed.

Lemma mem_attr_In a l : mem_attr a l = true -> In a l.
Proof.
  unfold mem_attr. rewrite existsb_exists. intros [x [Hx He]]. apply attr_eqb_eq in He. congruence.
Qed.
Lemma In_all_attrs a : In a all_attrs.
Proof. destruct a; cbn; tauto. Qed.

Lemma unrequested_ok_sound req ex ss st0 a v :
  matches ex st0 -> stated_enough ss req ex st0 -> req_val req a = None ->
  unrequested_ok ex ss a v = true -> v = get a st0.
Proof.
  intros Hm He Hr. unfold unrequested_ok.
  destruct (stated_val ex a) as [u|] eqn:Hs.
  - intros H. apply aval_eqb_eq in H. subst. symmetry. apply Hm. exact Hs.
  - rewrite andb_true_iff. intros [Hin Hd]. apply mem_attr_In in Hin.
    unfold restated_attrs in Hin. apply in_flat_map in Hin. destruct Hin as [s [Hs1 Hs2]].
    destruct (He s a Hs1 Hs2 Hr) as [Hk|Hk]; [congruence|].
    rewrite Hk in Hd. apply aval_eqb_eq in Hd. exact Hd.
Qed.

Lemma check_no_invention_sound req ex ss :
  check_no_invention req ex ss = true -> no_invention req ex ss.
Proof.
  unfold check_no_invention, no_invention. rewrite forallb_forall. intros H s v w Hs Hv Hr Hst.
  specialize (H s Hs). rewrite forallb_forall in H. specialize (H v Hv).
  rewrite Hr, Hst in H. apply aval_eqb_eq. exact H.
Qed.

Lemma check_attr_sound req ex ss st0 a :
  matches ex st0 -> stated_enough ss req ex st0 -> check_attr req ex ss a = true ->
  get a (run_total ss st0) = get a (override st0 req).
Proof.
  intros Hm He. unfold check_attr. rewrite get_run, get_override.
  destruct (lastset a (all_assign ss)) as [v|]; destruct (req_val req a) as [w|] eqn:Hr.
  - intros H. apply aval_eqb_eq. exact H.
  - intros H. eapply unrequested_ok_sound; eauto.
  - destruct (stated_val ex a) as [u|] eqn:Hs; [|discriminate].
    intros H. apply aval_eqb_eq in H. subst. apply Hm. exact Hs.
  - reflexivity.
Qed.

Lemma check_attr_prefix_sound req ex ss st0 a :
  matches ex st0 -> stated_enough ss req ex st0 -> check_attr_prefix req ex ss a = true ->
  get a (run_total ss st0) = get a st0 \/ get a (run_total ss st0) = get a (override st0 req).
Proof.
  intros Hm He. unfold check_attr_prefix. rewrite get_run, get_override.
  destruct (lastset a (all_assign ss)) as [v|]; [|left; reflexivity].
  destruct (req_val req a) as [w|] eqn:Hr.
  - intros H. right. apply aval_eqb_eq. exact H.
  - intros H. left. eapply unrequested_ok_sound; eauto.
Qed.

(* ---- addressing: run = run_total exactly when every statement names the column's current name *)
Lemma name_after_apply st s : c_name (apply st s) = name_after (c_name st) s.
Proof. destruct s; reflexivity. Qed.

Lemma run_spec ss : forall st,
  run ss st = if addr_ok (c_name st) ss then Some (run_total ss st) else None.
Proof.
  unfold run_total. induction ss as [|s r IH]; intros st; [reflexivity|].
  cbn [run addr_ok fold_left]. unfold sem. destruct (addr s) as [c|].
  - destruct (N.eqb c (c_name st)); cbn [andb]; [|reflexivity]. rewrite IH, name_after_apply. reflexivity.
  - cbn [andb]. rewrite IH, name_after_apply. reflexivity.
Qed.

Lemma final_name ss : forall st, c_name (run_total ss st) = fold_left name_after ss (c_name st).
Proof.
  unfold run_total. induction ss as [|s r IH]; intros st; [reflexivity|].
  cbn [fold_left]. rewrite IH, name_after_apply. reflexivity.
Qed.

Lemma addr_ok_app a b cur : addr_ok cur (a ++ b) = addr_ok cur a && addr_ok (fold_left name_after a cur) b.
Proof.
  revert cur. induction a as [|s r IH]; intros cur; [reflexivity|].
  cbn [app addr_ok fold_left]. rewrite IH, andb_assoc. reflexivity.
Qed.

Lemma matches_name0 ex st0 : matches ex st0 -> c_name st0 = e_name ex.
Proof. intros Hm. pose proof (Hm AName _ eq_refl) as H. cbn in H. congruence. Qed.

Theorem check_C13_sound i o : check_C13 i o = true -> C13_holds i o.
Proof.
  destruct o as [tss e]. unfold check_C13, C13_holds. rewrite !andb_true_iff. intros [[[Ht Hn] Hadr] H].
  split.
  { rewrite forallb_forall in Ht. intros [t s0] Hin. specialize (Ht _ Hin). cbn [fst] in *.
    unfold target_eqb in Ht. rewrite andb_true_iff in Ht. destruct Ht as [H1 H2].
    destruct t as [a b], (i_target i) as [a' b']. cbn [fst snd] in *.
    apply opt_eqbN_eq in H1. apply N.eqb_eq in H2. congruence. }
  split; [apply check_no_invention_sound; exact Hn|].
  destruct e as [e|]; rewrite andb_true_iff in H; destruct H as [Hu Ha]; rewrite forallb_forall in Ha.
  - split; [exact Hu|]. intros st0 Hm He. exists (run_total (map snd tss) st0). split.
    + rewrite run_spec, (matches_name0 _ _ Hm), Hadr. reflexivity.
    + intros a. apply (check_attr_prefix_sound (i_req i) (i_ex i) _ st0 a Hm He). apply Ha, In_all_attrs.
  - split; [apply negb_true_iff; exact Hu|]. intros st0 Hm He.
    rewrite run_spec, (matches_name0 _ _ Hm), Hadr. f_equal.
    apply col_ext. intros a. apply (check_attr_sound (i_req i) (i_ex i) _ st0 a Hm He). apply Ha, In_all_attrs.
Qed.

(* ================================================================== Part 2: the model *)

Section Matches.
Variables (ex:existing) (st0:colstate).
Hypothesis Hm : matches ex st0.
Lemma matches_name : c_name st0 = e_name ex.
Proof. pose proof (Hm AName _ eq_refl) as H. cbn in H. congruence. Qed.
Lemma matches_type t : e_type ex = Some t -> c_type st0 = t.
Proof. intros E. pose proof (Hm AType (VType t)) as H. cbn in H. rewrite E in H. specialize (H eq_refl). congruence. Qed.
Lemma matches_null b : e_null ex = Some b -> c_null st0 = b.
Proof. intros E. pose proof (Hm ANull (VNull b)) as H. cbn in H. rewrite E in H. specialize (H eq_refl). congruence. Qed.
Lemma matches_default_none : e_default ex = TNone -> c_default st0 = None.
Proof. intros E. pose proof (Hm ADefault (VDefault None)) as H. cbn in H. rewrite E in H. specialize (H eq_refl). congruence. Qed.
Lemma matches_default_some v : e_default ex = TSome v -> c_default st0 = Some v.
Proof. intros E. pose proof (Hm ADefault (VDefault (Some v))) as H. cbn in H. rewrite E in H. specialize (H eq_refl). congruence. Qed.
Lemma matches_comment c : e_comment ex = Some c -> c_comment st0 = Some c.
Proof. intros E. pose proof (Hm AComment (VComment (Some c))) as H. cbn in H. rewrite E in H. specialize (H eq_refl). congruence. Qed.
Lemma matches_autoinc b : e_autoinc ex = Some b -> c_autoinc st0 = b.
Proof. intros E. pose proof (Hm AAutoinc (VAutoinc b)) as H. cbn in H. rewrite E in H. specialize (H eq_refl). congruence. Qed.
End Matches.

Lemma autoinc_keep i st0 :
  autoinc_honoured i = true -> is_mysql (i_d i) = false -> matches (i_ex i) st0 ->
  match r_autoinc (i_req i) with Some b => b | None => c_autoinc st0 end = c_autoinc st0.
Proof.
  unfold autoinc_honoured. intros Ha Hd Hm. destruct (r_autoinc (i_req i)) as [b|]; [|reflexivity].
  rewrite Hd in Ha. cbn in Ha. destruct (e_autoinc (i_ex i)) as [b'|] eqn:E; [|discriminate].
  cbn in Ha. apply eqb_prop in Ha. subst. symmetry. eapply matches_autoinc; eauto.
Qed.

Ltac destr_req req :=
  let rt := fresh "rt" in let rn := fresh "rn" in let rd := fresh "rd" in let rname := fresh "rname" in
  let rc := fresh "rc" in let ra := fresh "ra" in let ru := fresh "ru" in
  destruct req as [rt rn rd rname rc ra ru];
  destruct rt as [rt|], rn as [rn|], rd as [| |rd], rname as [rname|], rc as [| |rc].

(* ---------------------------------------------------------------- default / sqlite / oracle / postgresql *)
Definition plain (d:dialect) : bool :=
  match d with Ddefault | Dsqlite | Doracle | Dpostgresql => true | _ => false end.

Lemma effect_plain d sch req ex ss st0 :
  plain d = true -> autoinc_honoured (mkIn d sch req ex) = true -> matches ex st0 ->
  inner_C13 (mkIn d sch req ex) = (ss, None) -> run_total ss st0 = override st0 req.
Proof.
  intros Hd Ha Hm H.
  assert (Hk := autoinc_keep (mkIn d sch req ex) st0 Ha). cbn [i_d i_req i_ex] in Hk.
  assert (Hmy : is_mysql d = false) by (destruct d; try discriminate; reflexivity).
  specialize (Hk Hmy Hm). clear Ha Hm Hmy.
  unfold override. rewrite Hk. clear Hk. destruct st0 as [n t nl df cm ai].
  destr_req req. all: destruct ru as [ru|].
  all: destruct d; try discriminate Hd.
  all: vm_compute in H; try discriminate H; injection H as <-; reflexivity.
Qed.

(* ---------------------------------------------------------------- mssql *)
Lemma enough_null ss req ex st0 :
  stated_enough ss req ex st0 -> In ANull (restated_attrs ss) -> r_null req = None -> e_null ex = None ->
  c_null st0 = true.
Proof.
  intros He Hin Hr Hs. unfold restated_attrs in Hin. apply in_flat_map in Hin. destruct Hin as [s [Hs1 Hs2]].
  assert (Hq : req_val req ANull = None) by (cbn; rewrite Hr; reflexivity).
  destruct (He s ANull Hs1 Hs2 Hq) as [K|K]; cbn in K.
  - rewrite Hs in K. cbn in K. congruence.
  - congruence.
Qed.

Lemma effect_mssql sch req ex ss st0 :
  autoinc_honoured (mkIn Dmssql sch req ex) = true -> matches ex st0 -> stated_enough ss req ex st0 ->
  inner_C13 (mkIn Dmssql sch req ex) = (ss, None) -> run_total ss st0 = override st0 req.
Proof.
  intros Ha Hm He H.
  assert (Hk := autoinc_keep (mkIn Dmssql sch req ex) st0 Ha eq_refl Hm). cbn [i_d i_req i_ex] in Hk.
  assert (Ht := matches_type ex st0 Hm). assert (Hn := matches_null ex st0 Hm).
  assert (Hnull := enough_null ss req ex st0 He). clear Ha Hm He.
  unfold override. rewrite Hk. clear Hk. destruct st0 as [n t nl df cm ai].
  destruct ex as [en et enl ed ec ea]. cbn [e_type e_null c_type c_null r_null] in *.
  destr_req req.
  all: destruct et as [et|], enl as [enl|], ed as [| |ed].
  all: vm_compute in H; try discriminate H; injection H as <-.
  all: try (rewrite (Ht _ eq_refl)); try (rewrite (Hn _ eq_refl)).
  all: try reflexivity.
  all: rewrite Hnull by (cbn; auto); reflexivity.
Qed.

(* ---------------------------------------------------------------- mysql / mariadb *)
Definition mysql_spec (req:request) (ex:existing) (t:ty) : colspec :=
  _mysql_colspec
    (match r_null req with Some b => b | None => match e_null ex with Some b => b | None => true end end)
    (tri_or_else (r_default req) (e_default ex)) t
    (or_else (r_autoinc req) (e_autoinc ex))
    (match r_comment req with TFalse => opt_to_tri (e_comment ex) | c => c end).

Lemma mysql_out d req ex ss e :
  is_mysql d = true -> mysql_alter_column d req ex = (ss, e) ->
  (exists t, or_else (r_type req) (e_type ex) = Some t /\ e = None /\
     (ss = [MySQLChange (e_name ex) (match r_name req with Some n => n | None => e_name ex end) (mysql_spec req ex t)] \/
      (r_name req = None /\ ss = [MySQLModify (e_name ex) (mysql_spec req ex t)])))
  \/ (r_name req = None /\ r_null req = None /\ r_type req = None /\ r_autoinc req = None /\ r_comment req = TFalse /\
      e = None /\
      ss = match r_default req with TFalse => [] | TNone => [MySQLAlterDefault (e_name ex) None] | TSome v => [MySQLAlterDefault (e_name ex) (Some v)] end)
  \/ (or_else (r_type req) (e_type ex) = None /\ ss = [] /\ e = Some CommandError /\
      (isSome (r_name req) || isSome (r_null req) || isSome (r_autoinc req) || given (r_comment req)) = true).
Proof.
  intros Hd. unfold mysql_alter_column. fold (mysql_spec req ex).
  destruct (isSome (r_name req) || _is_mysql_allowed_functional_default (or_else (r_type req) (e_type ex)) (r_default req)) eqn:C1.
  - destruct (or_else (r_type req) (e_type ex)) as [t|] eqn:T.
    + unfold exec, compile. rewrite Hd. intros H. injection H as <- <-. left. exists t. auto.
    + unfold raise. intros H. injection H as <- <-. right. right. cbn in C1. rewrite orb_false_r in C1.
      rewrite C1. auto.
  - apply orb_false_iff in C1. destruct C1 as [C1 C1']. destruct (r_name req) as [n|] eqn:N; [discriminate|].
    destruct (isSome (r_null req) || isSome (r_type req) || isSome (r_autoinc req) || given (r_comment req)) eqn:C2.
    + destruct (or_else (r_type req) (e_type ex)) as [t|] eqn:T.
      * unfold exec, compile. rewrite Hd. intros H. injection H as <- <-. left. exists t. auto.
      * unfold raise. intros H. injection H as <- <-. right. right.
        destruct (r_type req); [discriminate|]. cbn in C2. cbn. rewrite orb_false_r in C2. auto.
    + apply orb_false_iff in C2. destruct C2 as [C2 C2c]. apply orb_false_iff in C2. destruct C2 as [C2 C2a].
      apply orb_false_iff in C2. destruct C2 as [C2n C2t].
      destruct (r_null req); [discriminate|]. destruct (r_type req); [discriminate|].
      destruct (r_autoinc req); [discriminate|]. destruct (r_comment req); try discriminate.
      intros H. right. left. destruct (r_default req); unfold exec, compile in H; try rewrite Hd in H;
        injection H as <- <-; auto 10.
Qed.

Section MySQLFields.
Variables (req:request) (ex:existing) (st0:colstate).
Hypothesis Hm : matches ex st0.
Hypothesis Hk : forall a, In a [AType; ANull; ADefault; AComment; AAutoinc] -> req_val req a = None -> known ex st0 a.

Lemma my_type t : or_else (r_type req) (e_type ex) = Some t ->
  t = match r_type req with Some t => t | None => c_type st0 end.
Proof. destruct (r_type req); cbn; intros E; [congruence|]. symmetry. eapply matches_type; eauto. Qed.

Lemma my_null :
  (match r_null req with Some b => b | None => match e_null ex with Some b => b | None => true end end)
  = match r_null req with Some b => b | None => c_null st0 end.
Proof.
  destruct (r_null req) eqn:R; [reflexivity|].
  destruct (e_null ex) eqn:E. { symmetry. eapply matches_null; eauto. }
  assert (K : known ex st0 ANull) by (apply Hk; cbn; [tauto|rewrite R; reflexivity]).
    destruct K as [K|K]; cbn in K; rewrite ?E in K; cbn in K; congruence.
Qed.

Lemma my_default :
  (match tri_or_else (r_default req) (e_default ex) with TSome v => Some v | _ => None end)
  = match r_default req with TFalse => c_default st0 | TNone => None | TSome v => Some v end.
Proof.
  destruct (r_default req) eqn:R; cbn; try reflexivity.
  destruct (e_default ex) eqn:E.
  - assert (K : known ex st0 ADefault) by (apply Hk; cbn; [tauto|rewrite R; reflexivity]).
    destruct K as [K|K]; cbn in K; rewrite ?E in K; cbn in K; congruence.
  - symmetry. eapply matches_default_none; eauto.
  - symmetry. eapply matches_default_some; eauto.
Qed.

Lemma my_comment :
  (match (match r_comment req with TFalse => opt_to_tri (e_comment ex) | c => c end) with TSome c => Some c | _ => None end)
  = match r_comment req with TFalse => c_comment st0 | TNone => None | TSome c => Some c end.
Proof.
  destruct (r_comment req) eqn:R; cbn; try reflexivity.
  destruct (e_comment ex) eqn:E; cbn.
  - symmetry. eapply matches_comment; eauto.
  - assert (K : known ex st0 AComment) by (apply Hk; cbn; [tauto|rewrite R; reflexivity]).
    destruct K as [K|K]; cbn in K; rewrite ?E in K; cbn in K; congruence.
Qed.

Lemma my_autoinc :
  (match or_else (r_autoinc req) (e_autoinc ex) with Some true => true | _ => false end)
  = match r_autoinc req with Some b => b | None => c_autoinc st0 end.
Proof.
  destruct (r_autoinc req) as [[|]|] eqn:R; cbn; try reflexivity.
  destruct (e_autoinc ex) as [b|] eqn:E.
  - rewrite <- (matches_autoinc ex st0 Hm b E). destruct (c_autoinc st0); reflexivity.
  - assert (K : known ex st0 AAutoinc) by (apply Hk; cbn; [tauto|rewrite R; reflexivity]).
    destruct K as [K|K]; cbn in K; rewrite ?E in K; cbn in K; congruence.
Qed.

Lemma my_spec_effect n t :
  or_else (r_type req) (e_type ex) = Some t ->
  mkCol n (cs_type (mysql_spec req ex t)) (cs_null (mysql_spec req ex t)) (cs_default (mysql_spec req ex t))
        (cs_comment (mysql_spec req ex t)) (cs_autoinc (mysql_spec req ex t))
  = mkCol n (match r_type req with Some t => t | None => c_type st0 end)
            (match r_null req with Some b => b | None => c_null st0 end)
            (match r_default req with TFalse => c_default st0 | TNone => None | TSome v => Some v end)
            (match r_comment req with TFalse => c_comment st0 | TNone => None | TSome c => Some c end)
            (match r_autoinc req with Some b => b | None => c_autoinc st0 end).
Proof.
  intros T. unfold mysql_spec, _mysql_colspec. cbn [cs_type cs_null cs_default cs_comment cs_autoinc].
  rewrite my_null, my_default, my_comment, my_autoinc, <- (my_type t T). reflexivity.
Qed.
End MySQLFields.

Lemma effect_mysql d sch req ex ss st0 :
  is_mysql d = true -> matches ex st0 -> stated_enough ss req ex st0 ->
  inner_C13 (mkIn d sch req ex) = (ss, None) -> run_total ss st0 = override st0 req.
Proof.
  intros Hd Hm He H. unfold inner_C13, alter_column in H. cbn [i_d i_req i_ex] in H.
  assert (H' : mysql_alter_column d req ex = (ss, None)) by (destruct d; try discriminate Hd; exact H).
  clear H. apply mysql_out in H'; [|exact Hd].
  destruct H' as [[t [T [_ [S|[N S]]]]]|[[N [Nn [Nt [Na [Nc [_ S]]]]]]|[_ [_ [E _]]]]]; [| | |discriminate E].
  - subst ss. unfold run_total, override. cbn [fold_left apply].
    rewrite (my_spec_effect req ex st0 Hm); [|intros a Ha Hr; eapply He; [left; reflexivity|exact Ha|exact Hr]|exact T].
    rewrite (matches_name ex st0 Hm). reflexivity.
  - subst ss. unfold run_total, override. cbn [fold_left apply].
    rewrite (my_spec_effect req ex st0 Hm); [|intros a Ha Hr; eapply He; [left; reflexivity|exact Ha|exact Hr]|exact T].
    rewrite N. reflexivity.
  - subst ss. unfold run_total, override. rewrite N, Nn, Nt, Na, Nc. destruct st0. destruct (r_default req); reflexivity.
Qed.

(* ---------------------------------------------------------------- main effect theorem *)
Theorem effect_all_inner i ss st0 :
  autoinc_honoured i = true -> inner_C13 i = (ss, None) -> matches (i_ex i) st0 ->
  stated_enough ss (i_req i) (i_ex i) st0 -> run_total ss st0 = override st0 (i_req i).
Proof.
  destruct i as [d sch req ex]. cbn [i_req i_ex]. intros Ha H Hm He.
  destruct d.
  - exact (effect_plain Ddefault sch req ex ss st0 eq_refl Ha Hm H).
  - exact (effect_plain Dsqlite sch req ex ss st0 eq_refl Ha Hm H).
  - exact (effect_plain Dpostgresql sch req ex ss st0 eq_refl Ha Hm H).
  - exact (effect_mysql Dmysql sch req ex ss st0 eq_refl Hm He H).
  - exact (effect_mysql Dmariadb sch req ex ss st0 eq_refl Hm He H).
  - exact (effect_mssql sch req ex ss st0 Ha Hm He H).
  - exact (effect_plain Doracle sch req ex ss st0 eq_refl Ha Hm H).
Qed.

(* ---------------------------------------------------------------- raises exactly when unsupported *)
Lemma raises_iff_unsupported_inner i : isSome (snd (inner_C13 i)) = unsupported i.
Proof.
  destruct i as [d sch req ex]. destruct ex as [en et enl ed ec ea].
  destruct req as [rt rn rd rname rc ra ru].
  destruct d.
  - destruct rt, rn, rd, rname, rc; reflexivity.
  - destruct rt, rn, rd, rname, rc; reflexivity.
  - destruct rt, rn, rd, rname, rc, ru; reflexivity.
  - destruct rt as [[? [|] ?]|], et as [[? [|] ?]|], rn, rd, rname, rc, ra; reflexivity.
  - destruct rt as [[? [|] ?]|], et as [[? [|] ?]|], rn, rd, rname, rc, ra; reflexivity.
  - destruct rt, et, enl, ed, rn, rd, rname, rc; reflexivity.
  - destruct rt, rn, rd, rname, rc; reflexivity.
Qed.

(* ---------------------------------------------------------------- no invention (C13_restated) *)
Ltac inv_in :=
  repeat match goal with
         | H : In _ [] |- _ => destruct H
         | H : False |- _ => destruct H
         | H : In _ (_ :: _) |- _ => destruct H as [H|H]; [subst|]
         end.

Lemma no_invention_plain d sch req ex ss e :
  plain d = true -> inner_C13 (mkIn d sch req ex) = (ss, e) -> no_invention req ex ss.
Proof.
  intros Hd H s v w Hs Hv Hr Hst. clear Hst.
  destr_req req. all: destruct ru as [ru|].
  all: destruct d; try discriminate Hd.
  all: vm_compute in H; injection H as <- <-.
  all: inv_in; cbn [assign spec_vals] in Hv; inv_in; cbn in Hr; discriminate Hr.
Qed.

Lemma no_invention_mssql sch req ex ss e :
  inner_C13 (mkIn Dmssql sch req ex) = (ss, e) -> no_invention req ex ss.
Proof.
  intros H s v w Hs Hv Hr Hst.
  destruct ex as [en et enl ed ec ea].
  destr_req req.
  all: destruct et as [et|], enl as [enl|], ed as [| |ed].
  all: vm_compute in H; injection H as <- <-.
  all: inv_in; cbn [assign spec_vals] in Hv; inv_in; cbn in Hr; try discriminate Hr.
  all: cbn in Hst; congruence.
Qed.

Lemma spec_vals_no_invention req ex t v w :
  or_else (r_type req) (e_type ex) = Some t ->
  In v (spec_vals (mysql_spec req ex t)) -> req_val req (attr_of v) = None ->
  stated_val ex (attr_of v) = Some w -> v = w.
Proof.
  intros T Hv Hr Hst. unfold mysql_spec, _mysql_colspec, spec_vals in Hv.
  cbn [cs_type cs_null cs_default cs_comment cs_autoinc] in Hv.
  destruct Hv as [<-|[<-|[<-|[<-|[<-|[]]]]]]; cbn in Hr, Hst.
  - destruct (r_type req); [discriminate|]. cbn in T. rewrite T in Hst. cbn in Hst. congruence.
  - destruct (r_null req); [discriminate|]. destruct (e_null ex); cbn in Hst; congruence.
  - destruct (r_default req); try discriminate. cbn. destruct (e_default ex); cbn in Hst; congruence.
  - destruct (r_comment req); try discriminate. destruct (e_comment ex); cbn in Hst |- *; congruence.
  - destruct (r_autoinc req); [discriminate|]. cbn. destruct (e_autoinc ex) as [[|]|]; cbn in Hst; congruence.
Qed.

Lemma no_invention_mysql d sch req ex ss e :
  is_mysql d = true -> inner_C13 (mkIn d sch req ex) = (ss, e) -> no_invention req ex ss.
Proof.
  intros Hd H s v w Hs Hv Hr Hst. unfold inner_C13, alter_column in H. cbn [i_d i_req i_ex] in H.
  assert (H' : mysql_alter_column d req ex = (ss, e)) by (destruct d; try discriminate Hd; exact H).
  clear H. apply mysql_out in H'; [|exact Hd].
  destruct H' as [[t [T [_ [S|[N S]]]]]|[[N [Nn [Nt [Na [Nc [_ S]]]]]]|[_ [S _]]]]; subst ss.
  - inv_in. cbn [assign] in Hv. destruct Hv as [<-|Hv].
    + cbn in Hr, Hst. destruct (r_name req); [discriminate|]. congruence.
    + eapply spec_vals_no_invention; eauto.
  - inv_in. cbn [assign] in Hv. eapply spec_vals_no_invention; eauto.
  - destruct (r_default req) eqn:D; inv_in; cbn [assign] in Hv; inv_in; cbn in Hr; rewrite D in Hr; discriminate.
  - inv_in.
Qed.

Theorem no_invention_all_inner i ss e : inner_C13 i = (ss, e) -> no_invention (i_req i) (i_ex i) ss.
Proof.
  destruct i as [d sch req ex]. cbn [i_req i_ex]. intros H. destruct d.
  - exact (no_invention_plain Ddefault sch req ex ss e eq_refl H).
  - exact (no_invention_plain Dsqlite sch req ex ss e eq_refl H).
  - exact (no_invention_plain Dpostgresql sch req ex ss e eq_refl H).
  - exact (no_invention_mysql Dmysql sch req ex ss e eq_refl H).
  - exact (no_invention_mysql Dmariadb sch req ex ss e eq_refl H).
  - exact (no_invention_mssql sch req ex ss e H).
  - exact (no_invention_plain Doracle sch req ex ss e eq_refl H).
Qed.

(* ---------------------------------------------------------------- what was emitted before an exception *)
Ltac old_or_new := first [left; reflexivity | right; reflexivity].

Lemma prefix_plain d sch req ex ss e st0 :
  plain d = true -> inner_C13 (mkIn d sch req ex) = (ss, Some e) ->
  forall a, get a (run_total ss st0) = get a st0 \/ get a (run_total ss st0) = get a (override st0 req).
Proof.
  intros Hd H a. destruct st0 as [n t nl df cm ai].
  destr_req req. all: destruct ru as [ru|].
  all: destruct d; try discriminate Hd.
  all: vm_compute in H; try discriminate H; injection H as <- <-.
  all: destruct a; old_or_new.
Qed.

Lemma prefix_mssql sch req ex ss e st0 :
  matches ex st0 -> stated_enough ss req ex st0 -> inner_C13 (mkIn Dmssql sch req ex) = (ss, Some e) ->
  forall a, get a (run_total ss st0) = get a st0 \/ get a (run_total ss st0) = get a (override st0 req).
Proof.
  intros Hm He H a.
  assert (Ht := matches_type ex st0 Hm). assert (Hn := matches_null ex st0 Hm).
  assert (Hnull := enough_null ss req ex st0 He). clear Hm He.
  destruct st0 as [n t nl df cm ai].
  destruct ex as [en et enl ed ec ea]. cbn [e_type e_null c_type c_null r_null] in *.
  destr_req req.
  all: destruct et as [et|], enl as [enl|], ed as [| |ed].
  all: vm_compute in H; try discriminate H; injection H as <- <-.
  all: try (rewrite (Ht _ eq_refl)); try (rewrite (Hn _ eq_refl)).
  all: try (rewrite Hnull by (cbn; auto)).
  all: destruct a; old_or_new.
Qed.

Lemma prefix_mysql d sch req ex ss e st0 :
  is_mysql d = true -> inner_C13 (mkIn d sch req ex) = (ss, Some e) ->
  forall a, get a (run_total ss st0) = get a st0 \/ get a (run_total ss st0) = get a (override st0 req).
Proof.
  intros Hd H a. unfold inner_C13, alter_column in H. cbn [i_d i_req i_ex] in H.
  assert (H' : mysql_alter_column d req ex = (ss, Some e)) by (destruct d; try discriminate Hd; exact H).
  clear H. apply mysql_out in H'; [|exact Hd].
  destruct H' as [[t [T [E _]]]|[[N [Nn [Nt [Na [Nc [E S]]]]]]|[_ [S _]]]]; try discriminate E.
  subst ss. left. reflexivity.
Qed.

Theorem raises_instead_all_inner i ss e :
  inner_C13 i = (ss, Some e) ->
  unsupported i = true /\
  forall st0, matches (i_ex i) st0 -> stated_enough ss (i_req i) (i_ex i) st0 ->
    forall a, get a (run_total ss st0) = get a st0 \/ get a (run_total ss st0) = get a (override st0 (i_req i)).
Proof.
  intros H. split.
  - rewrite <- raises_iff_unsupported_inner, H. reflexivity.
  - destruct i as [d sch req ex]. cbn [i_req i_ex]. intros st0 Hm He. destruct d.
    + exact (prefix_plain Ddefault sch req ex ss e st0 eq_refl H).
    + exact (prefix_plain Dsqlite sch req ex ss e st0 eq_refl H).
    + exact (prefix_plain Dpostgresql sch req ex ss e st0 eq_refl H).
    + exact (prefix_mysql Dmysql sch req ex ss e st0 eq_refl H).
    + exact (prefix_mysql Dmariadb sch req ex ss e st0 eq_refl H).
    + exact (prefix_mssql sch req ex ss e st0 Hm He H).
    + exact (prefix_plain Doracle sch req ex ss e st0 eq_refl H).
Qed.


(* ---------------------------------------------------------------- autoincrement is ignored outside MySQL *)
Lemma autoinc_never_assigned_inner i :
  is_mysql (i_d i) = false -> lastset AAutoinc (all_assign (fst (inner_C13 i))) = None.
Proof.
  destruct i as [d sch req ex]. cbn [i_d]. intros Hd.
  destruct ex as [en et enl ed ec ea].
  destr_req req. all: destruct ru as [ru|].
  all: destruct d; try discriminate Hd; try reflexivity.
  all: destruct et as [et|], enl as [enl|], ed as [| |ed]; reflexivity.
Qed.


Definition req_autoinc_only : request := mkReq None None TFalse None TFalse (Some true) None.
Definition ex_nothing : existing := mkEx 1 None None TFalse None None.
Definition st_plain : colstate := mkCol 1%N (mkTy 0 false None) true None None false.


(* ---------------------------------------------------------------- which existing_* values are needed *)
Lemma stated_enough_attrs ss req ex st0 :
  stated_enough ss req ex st0 <->
  (forall a, In a (restated_attrs ss) -> req_val req a = None -> known ex st0 a).
Proof.
  unfold stated_enough, restated_attrs. split.
  - intros H a Ha Hr. apply in_flat_map in Ha. destruct Ha as [s [Hs Ha]]. eauto.
  - intros H s a Hs Ha Hr. apply H; auto. apply in_flat_map. eauto.
Qed.

Lemma restated_plain d sch req ex :
  plain d = true -> restated_attrs (fst (inner_C13 (mkIn d sch req ex))) = [].
Proof.
  intros Hd. destr_req req. all: destruct ru as [ru|].
  all: destruct d; try discriminate Hd; reflexivity.
Qed.

Lemma restated_mysql d sch req ex :
  is_mysql d = true ->
  restated_attrs (fst (inner_C13 (mkIn d sch req ex))) =
  if mysql_restates req ex then [AType; ANull; ADefault; AComment; AAutoinc] else [].
Proof.
  intros Hd. destruct ex as [en et enl ed ec ea]. destruct req as [rt rn rd rname rc ra ru].
  destruct d; try discriminate Hd.
  all: destruct rt as [[? [|] ?]|], et as [[? [|] ?]|], rn, rd, rname, rc, ra; reflexivity.
Qed.

Lemma exact_mssql sch req ex st0 :
  stated_enough (fst (inner_C13 (mkIn Dmssql sch req ex))) req ex st0 <->
  (isSome (r_type req) = true -> r_null req = None -> known ex st0 ANull).
Proof.
  rewrite stated_enough_attrs.
  destruct ex as [en et enl ed ec ea].
  destr_req req.
  all: destruct et as [et|], enl as [enl|], ed as [| |ed].
  all: vm_compute fst; cbn [restated_attrs flat_map restates app isSome r_type r_null].
  all: split; intros H.
  (* -> *)
  all: try (intros _ _; apply H; cbn; auto; fail).
  all: try (intros _ E; discriminate E).
  all: try (intros E; discriminate E).
  (* <- *)
  all: intros a Ha Hr; inv_in; cbn in Hr; try discriminate Hr.
  all: try (left; cbn; discriminate).
  all: apply H; reflexivity.
Qed.

Theorem stated_enough_exact_inner i st0 :
  stated_enough (fst (inner_C13 i)) (i_req i) (i_ex i) st0 <-> existing_needed i st0.
Proof.
  destruct i as [d sch req ex]. unfold existing_needed. cbn [i_d i_req i_ex].
  destruct d.
  1,2,3,7: (rewrite stated_enough_attrs, restated_plain by reflexivity; split; [tauto|intros _ a []]).
  1,2: (rewrite stated_enough_attrs, restated_mysql by reflexivity; destruct (mysql_restates req ex);
        split; [intros H _; exact H|intros H; apply H; reflexivity|intros _ E; discriminate E|intros _ a []]).
  apply exact_mssql.
Qed.


(* ---------------------------------------------------------------- addressing: the impl-level call names the
   column by its current name in every statement, and the rename comes last (or inside the one restating
   statement) *)
Definition addr_fact (i:c13_in) : Prop :=
  addr_ok (e_name (i_ex i)) (fst (inner_C13 i)) = true /\
  (snd (inner_C13 i) = None ->
   fold_left name_after (fst (inner_C13 i)) (e_name (i_ex i))
   = match r_name (i_req i) with Some n => n | None => e_name (i_ex i) end).

Ltac addr_tac :=
  unfold addr_fact; cbn -[N.eqb]; rewrite ?N.eqb_refl; cbn -[N.eqb];
  split; [reflexivity|intros E; first [reflexivity|discriminate E]].

Lemma addr_plain d sch req ex : plain d = true -> addr_fact (mkIn d sch req ex).
Proof.
  intros Hd. destruct ex as [en et enl ed ec ea].
  destr_req req. all: destruct ru as [ru|].
  all: destruct d; try discriminate Hd.
  all: addr_tac.
Qed.

Lemma addr_mssql sch req ex : addr_fact (mkIn Dmssql sch req ex).
Proof.
  destruct ex as [en et enl ed ec ea].
  destr_req req.
  all: destruct et as [et|], enl as [enl|], ed as [| |ed].
  all: addr_tac.
Qed.

Lemma addr_mysql d sch req ex : is_mysql d = true -> addr_fact (mkIn d sch req ex).
Proof.
  intros Hd.
  assert (Hi : inner_C13 (mkIn d sch req ex) = mysql_alter_column d req ex)
    by (destruct d; try discriminate Hd; reflexivity).
  unfold addr_fact. rewrite Hi. cbn [i_req i_ex].
  destruct (mysql_alter_column d req ex) as [ss e] eqn:H'. cbn [fst snd].
  apply mysql_out in H'; [|exact Hd].
  destruct H' as [[t [T [-> [S|[N S]]]]]|[[N [Nn [Nt [Na [Nc [-> S]]]]]]|[_ [S [-> _]]]]]; subst ss.
  - cbn -[N.eqb]. rewrite N.eqb_refl. split; [reflexivity|intros _; reflexivity].
  - cbn -[N.eqb]. rewrite N.eqb_refl, N. split; [reflexivity|intros _; reflexivity].
  - rewrite N. destruct (r_default req); cbn -[N.eqb]; rewrite ?N.eqb_refl; split; auto.
  - split; [reflexivity|intros E; discriminate E].
Qed.

Lemma addr_inner i : addr_fact i.
Proof.
  destruct i as [d sch req ex]. destruct d.
  - exact (addr_plain Ddefault sch req ex eq_refl).
  - exact (addr_plain Dsqlite sch req ex eq_refl).
  - exact (addr_plain Dpostgresql sch req ex eq_refl).
  - exact (addr_mysql Dmysql sch req ex eq_refl).
  - exact (addr_mysql Dmariadb sch req ex eq_refl).
  - exact (addr_mssql sch req ex).
  - exact (addr_plain Doracle sch req ex eq_refl).
Qed.

(* ================================================================== Part 3: the toimpl layer
   toimpl.alter_column only wraps the impl-level call in DROP/ADD CONSTRAINT statements for type-bound
   CHECKs; these leave the six column attributes alone, so everything lifts. *)

Lemma all_assign_noop ps : forallb noop ps = true -> all_assign ps = [].
Proof.
  unfold all_assign. induction ps as [|s r IH]; [reflexivity|]. cbn [forallb flat_map].
  rewrite andb_true_iff. intros [Hs Hr]. rewrite (IH Hr). destruct s; try discriminate Hs; reflexivity.
Qed.
Lemma restated_noop ps : forallb noop ps = true -> restated_attrs ps = [].
Proof.
  unfold restated_attrs. induction ps as [|s r IH]; [reflexivity|]. cbn [forallb flat_map].
  rewrite andb_true_iff. intros [Hs Hr]. rewrite (IH Hr). destruct s; try discriminate Hs; reflexivity.
Qed.

Lemma model_shape i : exists ps qs, forallb noop ps = true /\ forallb noop qs = true /\
  model_C13 i = (ps ++ fst (inner_C13 i) ++ (match snd (inner_C13 i) with None => qs | Some _ => [] end),
                 snd (inner_C13 i)).
Proof.
  unfold model_C13, inner_C13, plan, toimpl_alter_column.
  set (pre := match e_type (i_ex i), r_type (i_req i) with
              | Some et, Some _ => match ty_ck et with Some k => drop_constraint (i_d i) k | None => ret end
              | _, _ => ret end).
  set (post := match ck_of (r_type (i_req i)) with Some k => add_constraint (i_d i) (match r_name (i_req i) with Some n => n | None => e_name (i_ex i) end) k | None => ret end).
  assert (Hpre : exists ps, forallb noop ps = true /\ pre = (ps, None)).
  { unfold pre, drop_constraint, ret. destruct (e_type (i_ex i)) as [et|], (r_type (i_req i)) as [rt|];
      try (exists []; split; reflexivity).
    destruct (ty_ck et) as [k|]; [|exists []; split; reflexivity].
    destruct (i_d i); eexists; (split; [|reflexivity]); reflexivity. }
  assert (Hpost : exists qs, forallb noop qs = true /\ post = (qs, None)).
  { unfold post, add_constraint, ret. destruct (ck_of (r_type (i_req i))) as [k|]; [|exists []; split; reflexivity].
    destruct (i_d i); eexists; (split; [|reflexivity]); reflexivity. }
  destruct Hpre as [ps [Hps ->]]. destruct Hpost as [qs [Hqs ->]].
  exists ps, qs. split; [exact Hps|]. split; [exact Hqs|].
  destruct (alter_column (i_d i) (i_req i) (i_ex i)) as [ss [e|]]; cbn; rewrite ?app_nil_r, <- ?app_assoc; reflexivity.
Qed.

Lemma model_facts i :
  snd (model_C13 i) = snd (inner_C13 i) /\
  all_assign (fst (model_C13 i)) = all_assign (fst (inner_C13 i)) /\
  restated_attrs (fst (model_C13 i)) = restated_attrs (fst (inner_C13 i)) /\
  (forall s, In s (fst (model_C13 i)) -> noop s = true \/ In s (fst (inner_C13 i))).
Proof.
  destruct (model_shape i) as [ps [qs [Hps [Hqs ->]]]]. cbn [fst snd].
  assert (Hq : forallb noop (match snd (inner_C13 i) with None => qs | Some _ => [] end) = true)
    by (destruct (snd (inner_C13 i)); [reflexivity|exact Hqs]).
  split; [reflexivity|]. split; [|split].
  - unfold all_assign. rewrite !flat_map_app. fold (all_assign ps).
    fold (all_assign (match snd (inner_C13 i) with None => qs | Some _ => [] end)).
    rewrite (all_assign_noop _ Hps), (all_assign_noop _ Hq), app_nil_r. reflexivity.
  - unfold restated_attrs. rewrite !flat_map_app. fold (restated_attrs ps).
    fold (restated_attrs (match snd (inner_C13 i) with None => qs | Some _ => [] end)).
    rewrite (restated_noop _ Hps), (restated_noop _ Hq), app_nil_r. reflexivity.
  - intros s Hs. rewrite !in_app_iff in Hs. destruct Hs as [Hs|[Hs|Hs]]; [left|right; exact Hs|left].
    + rewrite forallb_forall in Hps. auto.
    + rewrite forallb_forall in Hq. auto.
Qed.

Lemma run_model i st0 : run_total (fst (model_C13 i)) st0 = run_total (fst (inner_C13 i)) st0.
Proof. rewrite !run_flat. destruct (model_facts i) as [_ [-> _]]. reflexivity. Qed.

Lemma stated_enough_model i st0 :
  stated_enough (fst (model_C13 i)) (i_req i) (i_ex i) st0 <-> stated_enough (fst (inner_C13 i)) (i_req i) (i_ex i) st0.
Proof. rewrite !stated_enough_attrs. destruct (model_facts i) as [_ [_ [-> _]]]. tauto. Qed.

Theorem raises_iff_unsupported i : isSome (snd (model_C13 i)) = unsupported i.
Proof. destruct (model_facts i) as [-> _]. apply raises_iff_unsupported_inner. Qed.

Theorem effect_total i ss st0 :
  autoinc_honoured i = true -> model_C13 i = (ss, None) -> matches (i_ex i) st0 ->
  stated_enough ss (i_req i) (i_ex i) st0 -> run_total ss st0 = override st0 (i_req i).
Proof.
  intros Ha H Hm He.
  assert (Hf : fst (model_C13 i) = ss) by (rewrite H; reflexivity).
  assert (Hs : snd (inner_C13 i) = None) by (destruct (model_facts i) as [<- _]; rewrite H; reflexivity).
  rewrite <- Hf in He |- *. rewrite run_model. apply stated_enough_model in He.
  destruct (inner_C13 i) as [ss' e'] eqn:Hi. cbn [fst snd] in *. subst e'.
  eapply effect_all_inner; eauto.
Qed.

(* ---- addressing at the toimpl level: DROP CONSTRAINT names no column; ADD CONSTRAINT comes after the
   impl-level call, i.e. after a rename, and names the NEW column name *)
Definition pre_stmts (i:c13_in) : list stmt :=
  match e_type (i_ex i), r_type (i_req i) with
  | Some et, Some _ => match ty_ck et with
                       | Some k => match i_d i with Dmysql | Dmariadb | Dsqlite => [] | _ => [DropConstraint k] end
                       | None => [] end
  | _, _ => []
  end.
Definition post_stmts (i:c13_in) : list stmt :=
  match ck_of (r_type (i_req i)) with
  | Some k => match i_d i with Dsqlite => [] | _ => [AddConstraint (match r_name (i_req i) with Some n => n | None => e_name (i_ex i) end) k] end
  | None => []
  end.

Lemma model_shape_x i :
  model_C13 i = (pre_stmts i ++ fst (inner_C13 i) ++ (match snd (inner_C13 i) with None => post_stmts i | Some _ => [] end),
                 snd (inner_C13 i)).
Proof.
  unfold model_C13, inner_C13, plan, toimpl_alter_column, pre_stmts, post_stmts.
  assert (Hpre : match e_type (i_ex i), r_type (i_req i) with
                 | Some et, Some _ => match ty_ck et with Some k => drop_constraint (i_d i) k | None => ret end
                 | _, _ => ret end
               = (match e_type (i_ex i), r_type (i_req i) with
                  | Some et, Some _ => match ty_ck et with
                       | Some k => match i_d i with Dmysql | Dmariadb | Dsqlite => [] | _ => [DropConstraint k] end
                       | None => [] end
                  | _, _ => [] end, None)).
  { destruct (e_type (i_ex i)) as [et|], (r_type (i_req i)) as [rt|]; try reflexivity.
    destruct (ty_ck et); [|reflexivity]. destruct (i_d i); reflexivity. }
  assert (Hpost : match ck_of (r_type (i_req i)) with Some k => add_constraint (i_d i) (match r_name (i_req i) with Some n => n | None => e_name (i_ex i) end) k | None => ret end
               = (match ck_of (r_type (i_req i)) with
                  | Some k => match i_d i with Dsqlite => [] | _ => [AddConstraint (match r_name (i_req i) with Some n => n | None => e_name (i_ex i) end) k] end
                  | None => [] end, None)).
  { destruct (ck_of (r_type (i_req i))); [|reflexivity]. destruct (i_d i); reflexivity. }
  rewrite Hpre, Hpost.
  destruct (alter_column (i_d i) (i_req i) (i_ex i)) as [ss [e|]]; cbn; rewrite ?app_nil_r, <- ?app_assoc; reflexivity.
Qed.

Lemma addr_model i : addr_ok (e_name (i_ex i)) (fst (model_C13 i)) = true.
Proof.
  rewrite model_shape_x in *. cbn [fst snd] in *.
  destruct (addr_inner i) as [Hok Hfin].
  assert (Hpre : addr_ok (e_name (i_ex i)) (pre_stmts i) = true /\
                 fold_left name_after (pre_stmts i) (e_name (i_ex i)) = e_name (i_ex i)).
  { unfold pre_stmts. destruct (e_type (i_ex i)), (r_type (i_req i)); try (split; reflexivity).
    destruct (ty_ck t); [|split; reflexivity]. destruct (i_d i); split; reflexivity. }
  destruct Hpre as [Hp1 Hp2].
  rewrite addr_ok_app, Hp1, Hp2, addr_ok_app, Hok. cbn [andb].
  destruct (snd (inner_C13 i)) as [e|] eqn:Hs; [reflexivity|].
  rewrite (Hfin eq_refl). unfold post_stmts.
  destruct (ck_of (r_type (i_req i))) as [k|]; [|reflexivity].
  destruct (i_d i); try reflexivity; cbn [addr_ok addr andb]; rewrite N.eqb_refl; reflexivity.
Qed.

Theorem effect_all i ss st0 :
  inclass_C13 i = true -> model_C13 i = (ss, None) -> matches (i_ex i) st0 ->
  stated_enough ss (i_req i) (i_ex i) st0 -> run ss st0 = Some (override st0 (i_req i)).
Proof.
  unfold inclass_C13. intros Ha H Hm He.
  rewrite run_spec, (matches_name0 _ _ Hm).
  assert (Hf : fst (model_C13 i) = ss) by (rewrite H; reflexivity).
  rewrite <- Hf at 1. rewrite (addr_model i). f_equal. eapply effect_total; eauto.
Qed.

Theorem no_invention_all i ss e : model_C13 i = (ss, e) -> no_invention (i_req i) (i_ex i) ss.
Proof.
  intros H s v w Hs Hv Hr Hst.
  assert (Hf : fst (model_C13 i) = ss) by (rewrite H; reflexivity). rewrite <- Hf in Hs.
  destruct (model_facts i) as [_ [_ [_ Hin]]]. destruct (Hin s Hs) as [Hn|Hn].
  - destruct s; try discriminate Hn; destruct Hv.
  - destruct (inner_C13 i) as [ss' e'] eqn:Hi. cbn [fst] in Hn.
    eapply (no_invention_all_inner i ss' e' Hi); eauto.
Qed.

Theorem raises_instead_all i ss e :
  model_C13 i = (ss, Some e) ->
  unsupported i = true /\
  forall st0, matches (i_ex i) st0 -> stated_enough ss (i_req i) (i_ex i) st0 ->
    exists st', run ss st0 = Some st' /\
    forall a, get a st' = get a st0 \/ get a st' = get a (override st0 (i_req i)).
Proof.
  intros H.
  assert (Hf : fst (model_C13 i) = ss) by (rewrite H; reflexivity).
  assert (Hsm : snd (model_C13 i) <> None) by (rewrite H; discriminate).
  assert (Hs : snd (inner_C13 i) = Some e) by (destruct (model_facts i) as [<- _]; rewrite H; reflexivity).
  destruct (inner_C13 i) as [ss' e'] eqn:Hi. cbn [snd] in Hs. subst e'.
  destruct (raises_instead_all_inner i ss' e Hi) as [Hu Hp]. split; [exact Hu|].
  intros st0 Hm He. exists (run_total ss st0). split.
  - rewrite run_spec, (matches_name0 _ _ Hm). rewrite <- Hf at 1. rewrite (addr_model i). reflexivity.
  - intros a. rewrite <- Hf in He |- *. rewrite run_model, Hi. cbn [fst].
    apply Hp; auto. apply stated_enough_model in He. rewrite Hi in He. exact He.
Qed.

Lemma map_snd_tag (t:target) ss : map snd (map (fun s : stmt => (t, s)) ss) = ss.
Proof. induction ss as [|s r IH]; [reflexivity|]. cbn. rewrite IH. reflexivity. Qed.

Theorem model_holds_partial i : inclass_C13 i = true -> C13_holds i (tagged_C13 i).
Proof.
  intros Ha. unfold tagged_C13. destruct (model_C13 i) as [ss e] eqn:H. cbn [fst snd]. unfold C13_holds.
  rewrite map_snd_tag. split.
  { intros ts Hin. apply in_map_iff in Hin. destruct Hin as [s [<- _]]. reflexivity. }
  split; [eapply no_invention_all; eauto|].
  destruct e as [e|].
  - apply raises_instead_all in H. exact H.
  - split.
    + rewrite <- raises_iff_unsupported, H. reflexivity.
    + intros st0 Hm He. eapply effect_all; eauto.
Qed.

(* toimpl's own statements never touch the six attributes *)
Theorem toimpl_frame i st0 : run_total (fst (model_C13 i)) st0 = run_total (fst (inner_C13 i)) st0.
Proof. apply run_model. Qed.

Theorem autoinc_ignored i st0 st' :
  is_mysql (i_d i) = false -> run (fst (model_C13 i)) st0 = Some st' -> c_autoinc st' = c_autoinc st0.
Proof.
  intros Hd Hr. rewrite run_spec in Hr. destruct (addr_ok (c_name st0) (fst (model_C13 i))); [|discriminate Hr].
  injection Hr as <-. rewrite run_model. pose proof (get_run AAutoinc (fst (inner_C13 i)) st0) as H.
  rewrite (autoinc_never_assigned_inner i Hd) in H. cbn in H. congruence.
Qed.

Lemma matches_plain : matches ex_nothing st_plain.
Proof. intros a v. destruct a; cbn; intros E; try discriminate E. injection E as <-. reflexivity. Qed.

Theorem autoinc_refuted d sch :
  is_mysql d = false ->
  inclass_C13 (mkIn d sch req_autoinc_only ex_nothing) = false /\
  tagged_C13 (mkIn d sch req_autoinc_only ex_nothing) = ([], None) /\
  ~ C13_holds (mkIn d sch req_autoinc_only ex_nothing) (tagged_C13 (mkIn d sch req_autoinc_only ex_nothing)).
Proof.
  intros Hd.
  assert (M : tagged_C13 (mkIn d sch req_autoinc_only ex_nothing) = ([], None))
    by (destruct d; try discriminate Hd; reflexivity).
  split; [destruct d; try discriminate Hd; reflexivity|]. split; [exact M|].
  rewrite M. unfold C13_holds. intros [_ [_ [_ H]]].
  specialize (H st_plain matches_plain).
  assert (He : stated_enough [] req_autoinc_only ex_nothing st_plain) by (intros s a []).
  specialize (H He). discriminate H.
Qed.

Theorem stated_enough_exact i st0 :
  stated_enough (fst (model_C13 i)) (i_req i) (i_ex i) st0 <-> existing_needed i st0.
Proof. rewrite stated_enough_model. apply stated_enough_exact_inner. Qed.

Local Open Scope N_scope.

(* ---------------------------------------------------------------- minimality witnesses *)
Definition T0 := mkTy 10 false None.
Definition T1 := mkTy 11 false None.
Definition req_type_only : request := mkReq (Some T1) None TFalse None TFalse None None.

Ltac matches_tac := intros a v; destruct a; cbn; intros E; try discriminate E; injection E as <-; reflexivity.
Ltac unknown_tac :=
  unfold unknown_only_at; split; [matches_tac|split; [|split; [reflexivity|]]];
  [ intros b Hb Hr; destruct b; try (exfalso; apply Hb; reflexivity); cbn in Hr; try discriminate Hr;
    first [left; cbn; discriminate | right; reflexivity]
  | intros [K|K]; cbn in K; congruence ].
Ltac witness i st0 :=
  exists i, st0; split; [reflexivity|split; [reflexivity|split; [unknown_tac|split; [reflexivity|]]]];
  eexists; split; [vm_compute; reflexivity|vm_compute; intros E; discriminate E].

Theorem stated_enough_minimal :
  needed_witness Dmysql ANull /\ needed_witness Dmysql ADefault /\ needed_witness Dmysql AComment /\
  needed_witness Dmysql AAutoinc /\
  needed_witness Dmariadb ANull /\ needed_witness Dmariadb ADefault /\ needed_witness Dmariadb AComment /\
  needed_witness Dmariadb AAutoinc /\
  needed_witness Dmssql ANull.
Proof.
  repeat split.
  - witness (mkIn Dmysql tN req_type_only ex_nothing) (mkCol 1 T0 false None None false).
  - witness (mkIn Dmysql tN req_type_only ex_nothing) (mkCol 1 T0 true (Some 7) None false).
  - witness (mkIn Dmysql tN req_type_only ex_nothing) (mkCol 1 T0 true None (Some 30) false).
  - witness (mkIn Dmysql tN req_type_only ex_nothing) (mkCol 1 T0 true None None true).
  - witness (mkIn Dmariadb tN req_type_only ex_nothing) (mkCol 1 T0 false None None false).
  - witness (mkIn Dmariadb tN req_type_only ex_nothing) (mkCol 1 T0 true (Some 7) None false).
  - witness (mkIn Dmariadb tN req_type_only ex_nothing) (mkCol 1 T0 true None (Some 30) false).
  - witness (mkIn Dmariadb tN req_type_only ex_nothing) (mkCol 1 T0 true None None true).
  - witness (mkIn Dmssql tN req_type_only ex_nothing) (mkCol 1 T0 false None None false).
Qed.

(* ---------------------------------------------------------------- non-vacuity *)
Definition nv_in : c13_in :=
  mkIn Dmysql tS (mkReq None (Some false) TFalse (Some 2) TFalse None None)
       (mkEx 1 (Some T0) (Some true) (TSome 7) (Some 30) (Some true)).
Definition nv_st : colstate := mkCol 1 T0 true (Some 7) (Some 30) true.

Lemma effect_nonvacuous :
  exists ss, inclass_C13 nv_in = true /\ model_C13 nv_in = (ss, None) /\ matches (i_ex nv_in) nv_st /\
             stated_enough ss (i_req nv_in) (i_ex nv_in) nv_st /\ run ss nv_st <> Some nv_st.
Proof.
  eexists. split; [reflexivity|]. split; [vm_compute; reflexivity|]. split; [matches_tac|]. split.
  - intros s a _ _ _. left. destruct a; cbn; discriminate.
  - vm_compute. intros E; discriminate E.
Qed.

Definition nv_raise : c13_in :=
  mkIn Dmssql tN (mkReq (Some T1) (Some false) TFalse None (TSome 31) None None) ex_nothing.
Lemma raises_nonvacuous : model_C13 nv_raise = ([MSSQLAlterNull 1 T1 false], Some CompileError).
Proof. reflexivity. Qed.

(* the decider accepts the model's output, and rejects: a wrong restated value, the comment statement placed
   after the rename (it names a column that no longer exists), a statement on another schema *)
Definition nv_order : c13_in :=
  mkIn Dpostgresql tS (mkReq None None TFalse (Some 2) (TSome 31) None None) ex_nothing.
Lemma decider_nonvacuous :
  check_C13 nv_in (tagged_C13 nv_in) = true /\ check_C13 nv_raise (tagged_C13 nv_raise) = true /\
  check_C13 nv_in ([(tS, MySQLChange 1 2 (mkSpec T0 false true None (Some 30)))], None) = false /\
  check_C13 nv_order ([(tS, SetComment 1 (Some 31)); (tS, Rename 1 2)], None) = true /\
  check_C13 nv_order ([(tS, Rename 1 2); (tS, SetComment 1 (Some 31))], None) = false /\
  check_C13 nv_order ([(tS, SetComment 1 (Some 31)); (tN, Rename 1 2)], None) = false.
Proof. vm_compute. auto 10. Qed.
