(* C13 — proofs.  Part 1: the symbolic view of statement lists and soundness of the decider
   (arbitrary statement lists: these are outputs of the implementation).
   Part 2: the model satisfies the property, dialect by dialect. *)
From AV Require Import Spec.C13.
From Coq Require Import List NArith Bool Lia.
Import ListNotations.

(* ================================================================== Part 1 *)

Lemma apply_assign st s : apply st s = fold_left set (assign s) st.
Proof. destruct s; reflexivity. Qed.

Lemma run_flat ss : forall st, run_total ss st = fold_left set (all_assign ss) st.
Proof.
  unfold run_total, all_assign. induction ss as [|s r IH]; intros st; [reflexivity|].
  cbn [fold_left flat_map]. rewrite fold_left_app, IH, apply_assign. reflexivity.
Qed.

Lemma get_set a st v : get a (set st v) = if attr_eqb (attr_of v) a then v else get a st.
Proof. destruct a, v; reflexivity. Qed.

Definition final (a:attr) (vs:list aval) (init:aval) : aval :=
  fold_left (fun acc v => if attr_eqb (attr_of v) a then v else acc) vs init.

Lemma get_fold a vs : forall st, get a (fold_left set vs st) = final a vs (get a st).
Proof.
  unfold final. induction vs as [|v r IH]; intros st; [reflexivity|].
  cbn [fold_left]. rewrite IH, get_set. reflexivity.
Qed.

Lemma final_lastset_gen a vs init : forall acc,
  final a vs (match acc with Some v => v | None => init end) =
  match fold_left (fun acc v => if attr_eqb (attr_of v) a then Some v else acc) vs acc with
  | Some v => v | None => init end.
Proof.
  unfold final. induction vs as [|v r IH]; intros acc; [reflexivity|].
  cbn [fold_left]. destruct (attr_eqb (attr_of v) a).
  - apply (IH (Some v)).
  - apply IH.
Qed.

Lemma final_lastset a vs init :
  final a vs init = match lastset a vs with Some v => v | None => init end.
Proof. apply (final_lastset_gen a vs init None). Qed.

(* the attribute a after running ss: the last assigned value, else the initial one *)
Lemma get_run a ss st :
  get a (run_total ss st) = match lastset a (all_assign ss) with Some v => v | None => get a st end.
Proof. rewrite run_flat, get_fold, final_lastset. reflexivity. Qed.

Lemma col_ext s1 s2 : (forall a, get a s1 = get a s2) -> s1 = s2.
Proof.
  intros H. destruct s1, s2.
  pose proof (H AName) as H1. pose proof (H AType) as H2. pose proof (H ANull) as H3.
  pose proof (H ADefault) as H4. pose proof (H AComment) as H5. pose proof (H AAutoinc) as H6.
  cbn in *. congruence.
Qed.

Lemma get_override a st req :
  get a (override st req) = match req_val req a with Some v => v | None => get a st end.
Proof.
  destruct req as [rt rn rd rname rc ra ru].
  destruct a; cbn; [destruct rname|destruct rt|destruct rn|destruct rd|destruct rc|destruct ra]; reflexivity.
Qed.

Lemma opt_eqbN_eq a b : opt_eqb N.eqb a b = true -> a = b.
Proof. destruct a, b; cbn; try discriminate; auto. intros H. apply N.eqb_eq in H. congruence. Qed.
Lemma ty_eqb_eq a b : ty_eqb a b = true -> a = b.
Proof.
  destruct a, b. unfold ty_eqb. cbn. rewrite !andb_true_iff. intros [[H1 H2] H3].
  apply N.eqb_eq in H1. apply eqb_prop in H2. apply opt_eqbN_eq in H3. congruence.
Qed.
Lemma aval_eqb_eq v w : aval_eqb v w = true -> v = w.
Proof.
  destruct v, w; cbn; try discriminate; intros H.
  - apply N.eqb_eq in H; congruence.
  - apply ty_eqb_eq in H; congruence.
  - apply eqb_prop in H; congruence.
  - apply opt_eqbN_eq in H; congruence.
  - apply opt_eqbN_eq in H; congruence.
  - apply eqb_prop in H; congruence.
Qed.
Lemma attr_eqb_eq a b : attr_eqb a b = true -> a = b.
Proof. destruct a, b; cbn; congruence. Qed.
Lemma attr_eqb_refl a : attr_eqb a a = true.
Proof. destruct a; reflexivity. Qed.

Lemma mem_attr_In a l : mem_attr a l = true -> In a l.
Proof.
  unfold mem_attr. rewrite existsb_exists. intros [x [Hx He]]. apply attr_eqb_eq in He. congruence.
Qed.
Lemma In_all_attrs a : In a all_attrs.
Proof. destruct a; cbn; tauto. Qed.

Lemma unrequested_ok_sound req ex ss st0 a v :
  matches ex st0 -> stated_enough ss req ex st0 -> req_val req a = None ->
  unrequested_ok ex ss a v = true -> v = get a st0.
Proof.
  intros Hm He Hr. unfold unrequested_ok.
  destruct (stated_val ex a) as [u|] eqn:Hs.
  - intros H. apply aval_eqb_eq in H. subst. symmetry. apply Hm. exact Hs.
  - rewrite andb_true_iff. intros [Hin Hd]. apply mem_attr_In in Hin.
    unfold restated_attrs in Hin. apply in_flat_map in Hin. destruct Hin as [s [Hs1 Hs2]].
    destruct (He s a Hs1 Hs2 Hr) as [Hk|Hk]; [congruence|].
    rewrite Hk in Hd. apply aval_eqb_eq in Hd. exact Hd.
Qed.

Lemma check_no_invention_sound req ex ss :
  check_no_invention req ex ss = true -> no_invention req ex ss.
Proof.
  unfold check_no_invention, no_invention. rewrite forallb_forall. intros H s v w Hs Hv Hr Hst.
  specialize (H s Hs). rewrite forallb_forall in H. specialize (H v Hv).
  rewrite Hr, Hst in H. apply aval_eqb_eq. exact H.
Qed.

Lemma check_attr_sound req ex ss st0 a :
  matches ex st0 -> stated_enough ss req ex st0 -> check_attr req ex ss a = true ->
  get a (run_total ss st0) = get a (override st0 req).
Proof.
  intros Hm He. unfold check_attr. rewrite get_run, get_override.
  destruct (lastset a (all_assign ss)) as [v|]; destruct (req_val req a) as [w|] eqn:Hr.
  - intros H. apply aval_eqb_eq. exact H.
  - intros H. eapply unrequested_ok_sound; eauto.
  - destruct (stated_val ex a) as [u|] eqn:Hs; [|discriminate].
    intros H. apply aval_eqb_eq in H. subst. apply Hm. exact Hs.
  - reflexivity.
Qed.

Lemma check_attr_prefix_sound req ex ss st0 a :
  matches ex st0 -> stated_enough ss req ex st0 -> check_attr_prefix req ex ss a = true ->
  get a (run_total ss st0) = get a st0 \/ get a (run_total ss st0) = get a (override st0 req).
Proof.
  intros Hm He. unfold check_attr_prefix. rewrite get_run, get_override.
  destruct (lastset a (all_assign ss)) as [v|]; [|left; reflexivity].
  destruct (req_val req a) as [w|] eqn:Hr.
  - rewrite orb_true_iff. intros [H|H]; [right; apply aval_eqb_eq; exact H|].
    destruct (stated_val ex a) as [u|] eqn:Hs; [|discriminate]. apply aval_eqb_eq in H. subst.
    left. symmetry. apply Hm. exact Hs.
  - intros H. left. eapply unrequested_ok_sound; eauto.
Qed.

(* ---- addressing: run = run_total exactly when every statement names the column's current name *)
Lemma name_after_apply st s : c_name (apply st s) = name_after (c_name st) s.
Proof. destruct s; reflexivity. Qed.

Lemma run_spec ss : forall st,
  run ss st = if addr_ok (c_name st) ss then Some (run_total ss st) else None.
Proof.
  unfold run_total. induction ss as [|s r IH]; intros st; [reflexivity|].
  cbn [run addr_ok fold_left]. unfold sem. destruct (addr s) as [c|].
  - destruct (N.eqb c (c_name st)); cbn [andb]; [|reflexivity]. rewrite IH, name_after_apply. reflexivity.
  - cbn [andb]. rewrite IH, name_after_apply. reflexivity.
Qed.

Lemma final_name ss : forall st, c_name (run_total ss st) = fold_left name_after ss (c_name st).
Proof.
  unfold run_total. induction ss as [|s r IH]; intros st; [reflexivity|].
  cbn [fold_left]. rewrite IH, name_after_apply. reflexivity.
Qed.

Lemma addr_ok_app a b cur : addr_ok cur (a ++ b) = addr_ok cur a && addr_ok (fold_left name_after a cur) b.
Proof.
  revert cur. induction a as [|s r IH]; intros cur; [reflexivity|].
  cbn [app addr_ok fold_left]. rewrite IH, andb_assoc. reflexivity.
Qed.

Lemma matches_name0 ex st0 : matches ex st0 -> c_name st0 = e_name ex.
Proof. intros Hm. pose proof (Hm AName _ eq_refl) as H. cbn in H. congruence. Qed.

Lemma In_mem_attr a l : In a l -> mem_attr a l = true.
Proof. intros H. unfold mem_attr. apply existsb_exists. exists a. split; [exact H|apply attr_eqb_refl]. Qed.

Lemma check_type_given_sound req ex ss : check_type_given req ex ss = true -> type_given req ex ss.
Proof.
  unfold check_type_given, type_given. rewrite !orb_true_iff. intros [[H|H]|H] s Hs Ha.
  - apply negb_true_iff in H. exfalso.
    assert (mem_attr AType (restated_attrs ss) = true); [|congruence].
    apply In_mem_attr. unfold restated_attrs. apply in_flat_map. eauto.
  - left. destruct (req_val req AType); [discriminate|discriminate H].
  - right. destruct (stated_val ex AType); [discriminate|discriminate H].
Qed.

Theorem check_C13_sound i o : check_C13 i o = true -> C13_holds i o.
Proof.
  destruct o as [tss e]. unfold check_C13, C13_holds. rewrite !andb_true_iff. intros [[[[Ht Hn] Htg] Hadr] H].
  split.
  { rewrite forallb_forall in Ht. intros [t s0] Hin. specialize (Ht _ Hin). cbn [fst] in *.
    unfold target_eqb in Ht. rewrite andb_true_iff in Ht. destruct Ht as [H1 H2].
    destruct t as [a b], (i_target i) as [a' b']. cbn [fst snd] in *.
    apply opt_eqbN_eq in H1. apply N.eqb_eq in H2. congruence. }
  split; [apply check_no_invention_sound; exact Hn|].
  split; [apply check_type_given_sound; exact Htg|].
  destruct e as [e|]; rewrite andb_true_iff in H; destruct H as [Hu Ha]; rewrite forallb_forall in Ha.
  - split; [exact Hu|]. intros st0 Hm He. exists (run_total (map snd tss) st0). split.
    + rewrite run_spec, (matches_name0 _ _ Hm), Hadr. reflexivity.
    + intros a. apply (check_attr_prefix_sound (i_req i) (i_ex i) _ st0 a Hm He). apply Ha, In_all_attrs.
  - split; [apply negb_true_iff; exact Hu|]. intros st0 Hm He.
    rewrite run_spec, (matches_name0 _ _ Hm), Hadr. f_equal.
    apply col_ext. intros a. apply (check_attr_sound (i_req i) (i_ex i) _ st0 a Hm He). apply Ha, In_all_attrs.
Qed.

(* ================================================================== decider completeness *)
Lemma opt_eqbN_refl a : opt_eqb N.eqb a a = true.
Proof. destruct a; cbn; [apply N.eqb_refl|reflexivity]. Qed.
Lemma ty_eqb_refl t : ty_eqb t t = true.
Proof. unfold ty_eqb. rewrite N.eqb_refl, eqb_reflx, opt_eqbN_refl. reflexivity. Qed.
Lemma aval_eqb_refl v : aval_eqb v v = true.
Proof. destruct v; cbn; auto using N.eqb_refl, ty_eqb_refl, eqb_reflx, opt_eqbN_refl. Qed.

(* a canonical column that agrees with everything stated and has the fall-back value elsewhere *)
Definition canon (ex:existing) : colstate :=
  mkCol (e_name ex)
        (match e_type ex with Some t => t | None => mkTy 0 false None end)
        (match e_null ex with Some b => b | None => true end)
        (match e_default ex with TSome v => Some v | _ => None end)
        (e_comment ex)
        (match e_autoinc ex with Some b => b | None => false end).

Lemma canon_stated ex a u : stated_val ex a = Some u -> get a (canon ex) = u.
Proof.
  destruct ex as [en et enl ed ec ea]. destruct a; cbn.
  - congruence.
  - destruct et; cbn; congruence.
  - destruct enl; cbn; congruence.
  - destruct ed; cbn; congruence.
  - destruct ec; cbn; congruence.
  - destruct ea; cbn; congruence.
Qed.
Lemma canon_reading ex a u : stated_val ex a = None -> default_reading a = Some u -> get a (canon ex) = u.
Proof.
  destruct ex as [en et enl ed ec ea]. destruct a; cbn; try discriminate.
  - destruct enl; cbn; congruence.
  - destruct ed; cbn; congruence.
  - destruct ec; cbn; congruence.
  - destruct ea; cbn; congruence.
Qed.

(* a different value of the same attribute *)
Definition other (v:aval) : aval :=
  match v with
  | VName n => VName (N.succ n)
  | VType t => VType (mkTy (N.succ (ty_id t)) (ty_dt t) (ty_ck t))
  | VNull b => VNull (negb b)
  | VDefault None => VDefault (Some 0%N) | VDefault (Some _) => VDefault None
  | VComment None => VComment (Some 0%N) | VComment (Some _) => VComment None
  | VAutoinc b => VAutoinc (negb b)
  end.
Lemma other_attr v : attr_of (other v) = attr_of v.
Proof. destruct v as [| | |[|]|[|]|]; reflexivity. Qed.
Lemma other_neq v : other v <> v.
Proof.
  destruct v as [n|t|b|[d|]|[c|]|b]; cbn; intros E; try discriminate E.
  - injection E as E. apply (N.neq_succ_diag_l n). exact E.
  - injection E as E. destruct t as [k dt ck]. cbn in E. injection E as E. apply (N.neq_succ_diag_l k). exact E.
  - injection E as E. destruct b; discriminate.
  - injection E as E. destruct b; discriminate.
Qed.
Lemma get_attr a st : attr_of (get a st) = a.
Proof. destruct a; reflexivity. Qed.

Section Complete.
Variables (req:request) (ex:existing) (ss:list stmt).
Hypothesis Htg : type_given req ex ss.

(* the canonical column, and the canonical column with one unstated attribute changed, are admissible *)
Lemma canon_matches : matches ex (canon ex).
Proof. intros a v Hs. apply canon_stated. exact Hs. Qed.

Lemma enough_gen x :
  stated_val ex (attr_of x) = None ->
  (req_val req (attr_of x) <> None \/ mem_attr (attr_of x) (restated_attrs ss) = false) ->
  matches ex (set (canon ex) x) /\ stated_enough ss req ex (set (canon ex) x).
Proof.
  intros Hs Hfree. split.
  - intros b v Hb. rewrite get_set. destruct (attr_eqb (attr_of x) b) eqn:E.
    + apply attr_eqb_eq in E. subst b. congruence.
    + apply canon_stated. exact Hb.
  - intros s b Hin Hb Hr. destruct (stated_val ex b) as [u|] eqn:Hsb; [left; rewrite Hsb; discriminate|]. right.
    rewrite get_set. destruct (attr_eqb (attr_of x) b) eqn:E.
    + apply attr_eqb_eq in E. subst b. exfalso. destruct Hfree as [Hf|Hf]; [congruence|].
      assert (mem_attr (attr_of x) (restated_attrs ss) = true); [|congruence].
      apply In_mem_attr. unfold restated_attrs. apply in_flat_map. eauto.
    + destruct (default_reading b) as [u|] eqn:Hd.
      * f_equal. symmetry. apply canon_reading; assumption.
      * exfalso. destruct b; try discriminate Hd.
        -- cbn in Hsb. discriminate Hsb.
        -- destruct (Htg s Hin Hb) as [K|K]; congruence.
Qed.

Lemma canon_enough : stated_enough ss req ex (canon ex).
Proof.
  intros s b Hin Hb Hr. destruct (stated_val ex b) as [u|] eqn:Hsb; [left; rewrite Hsb; discriminate|]. right.
  destruct (default_reading b) as [u|] eqn:Hd.
  - f_equal. symmetry. apply canon_reading; assumption.
  - exfalso. destruct b; try discriminate Hd.
    + cbn in Hsb. discriminate Hsb.
    + destruct (Htg s Hin Hb) as [K|K]; congruence.
Qed.

(* what the attribute must be, as a function of the starting state *)
Hypothesis P : forall st0, matches ex st0 -> stated_enough ss req ex st0 ->
  forall a, get a (run_total ss st0) = get a st0 \/ get a (run_total ss st0) = get a (override st0 req).

Lemma unrequested_complete a v :
  lastset a (all_assign ss) = Some v -> req_val req a = None -> unrequested_ok ex ss a v = true.
Proof.
  intros Hl Hr. unfold unrequested_ok.
  assert (Hc : v = get a (canon ex)).
  { pose proof (P _ canon_matches canon_enough a) as H. rewrite get_run, get_override, Hl, Hr in H. tauto. }
  destruct (stated_val ex a) as [u|] eqn:Hs.
  - rewrite Hc, (canon_stated _ _ _ Hs). apply aval_eqb_refl.
  - destruct (mem_attr a (restated_attrs ss)) eqn:Hmem.
    + cbn [andb]. destruct (default_reading a) as [u|] eqn:Hd.
      * rewrite Hc, (canon_reading _ _ _ Hs Hd). apply aval_eqb_refl.
      * exfalso. apply mem_attr_In in Hmem. unfold restated_attrs in Hmem. apply in_flat_map in Hmem.
        destruct Hmem as [s [Hin Hb]]. destruct a; try discriminate Hd.
        -- cbn in Hs. discriminate Hs.
        -- destruct (Htg s Hin Hb) as [K|K]; congruence.
    + exfalso. set (x := other v).
      assert (Hax : attr_of x = a).
      { unfold x. rewrite other_attr, Hc. apply get_attr. }
      assert (Hs' : stated_val ex (attr_of x) = None) by (rewrite Hax; exact Hs).
      destruct (enough_gen x Hs') as [M E]; [right; rewrite Hax; exact Hmem|].
      pose proof (P _ M E a) as H. rewrite get_run, get_override, Hl, Hr, get_set in H.
      rewrite Hax, attr_eqb_refl in H. apply (other_neq v). unfold x in H. destruct H; congruence.
Qed.
End Complete.

Lemma check_no_invention_complete req ex ss : no_invention req ex ss -> check_no_invention req ex ss = true.
Proof.
  unfold check_no_invention, no_invention. intros H. apply forallb_forall. intros s Hs.
  apply forallb_forall. intros v Hv.
  destruct (req_val req (attr_of v)) eqn:Hr; [reflexivity|].
  destruct (stated_val ex (attr_of v)) as [w|] eqn:Hst; [|reflexivity].
  rewrite (H s v w Hs Hv Hr Hst). apply aval_eqb_refl.
Qed.

Lemma check_type_given_complete req ex ss : type_given req ex ss -> check_type_given req ex ss = true.
Proof.
  unfold check_type_given, type_given. intros H.
  destruct (mem_attr AType (restated_attrs ss)) eqn:Hm; [|reflexivity]. cbn [negb orb].
  apply mem_attr_In in Hm. unfold restated_attrs in Hm. apply in_flat_map in Hm. destruct Hm as [s [Hs Ha]].
  destruct (H s Hs Ha) as [K|K].
  - destruct (req_val req AType); [reflexivity|congruence].
  - destruct (stated_val ex AType); [apply orb_true_r|congruence].
Qed.

Theorem check_C13_complete i o : C13_holds i o -> check_C13 i o = true.
Proof.
  destruct o as [tss e]. unfold check_C13, C13_holds. intros [Ht [Hn [Htg H]]].
  set (ss := map snd tss) in *. set (req := i_req i) in *. set (ex := i_ex i) in *.
  assert (T : forallb (fun ts => target_eqb (fst ts) (i_target i)) tss = true).
  { apply forallb_forall. intros ts Hin. rewrite (Ht ts Hin). unfold target_eqb.
    rewrite opt_eqbN_refl, N.eqb_refl. reflexivity. }
  rewrite T, (check_no_invention_complete _ _ _ Hn), (check_type_given_complete _ _ _ Htg). cbn [andb].
  destruct e as [e|]; destruct H as [Hu H].
  - (* raised *)
    assert (Hadr : addr_ok (e_name ex) ss = true).
    { destruct (H _ (canon_matches ex) (canon_enough req ex ss Htg)) as [st' [Hr _]].
      rewrite run_spec in Hr. cbn [canon c_name] in Hr. destruct (addr_ok (e_name ex) ss); [reflexivity|discriminate Hr]. }
    assert (P : forall st0, matches ex st0 -> stated_enough ss req ex st0 ->
              forall a, get a (run_total ss st0) = get a st0 \/ get a (run_total ss st0) = get a (override st0 req)).
    { intros st0 Hm He a. destruct (H st0 Hm He) as [st' [Hr Ha]]. rewrite run_spec in Hr.
      destruct (addr_ok (c_name st0) ss); [|discriminate Hr]. injection Hr as <-. apply Ha. }
    rewrite Hadr, Hu. cbn [andb]. apply forallb_forall. intros a _. unfold check_attr_prefix.
    destruct (lastset a (all_assign ss)) as [v|] eqn:Hl; [|reflexivity].
    destruct (req_val req a) as [w|] eqn:Hr; [|apply (unrequested_complete req ex ss Htg P a v Hl Hr)].
    destruct (aval_eqb v w) eqn:Evw; [reflexivity|]. cbn [orb].
    assert (Hne : v <> w) by (intros ->; rewrite aval_eqb_refl in Evw; discriminate).
    assert (Hc : v = get a (canon ex)).
    { pose proof (P _ (canon_matches ex) (canon_enough req ex ss Htg) a) as K.
      rewrite get_run, get_override, Hl, Hr in K. destruct K; congruence. }
    destruct (stated_val ex a) as [u|] eqn:Hs.
    + rewrite Hc, (canon_stated _ _ _ Hs). apply aval_eqb_refl.
    + exfalso. set (x := other v).
      assert (Hax : attr_of x = a) by (unfold x; rewrite other_attr, Hc; apply get_attr).
      assert (Hs' : stated_val ex (attr_of x) = None) by (rewrite Hax; exact Hs).
      destruct (enough_gen req ex ss Htg x Hs') as [M E]; [left; rewrite Hax, Hr; discriminate|].
      pose proof (P _ M E a) as K. rewrite get_run, get_override, Hl, Hr, get_set in K.
      rewrite Hax, attr_eqb_refl in K. destruct K as [K|K]; [|congruence]. apply (other_neq v). unfold x in K. congruence.
  - (* completed *)
    assert (Hadr : addr_ok (e_name ex) ss = true).
    { pose proof (H _ (canon_matches ex) (canon_enough req ex ss Htg)) as Hr.
      rewrite run_spec in Hr. cbn [canon c_name] in Hr. destruct (addr_ok (e_name ex) ss); [reflexivity|discriminate Hr]. }
    assert (Q : forall st0, matches ex st0 -> stated_enough ss req ex st0 ->
              forall a, get a (run_total ss st0) = get a (override st0 req)).
    { intros st0 Hm He a. pose proof (H st0 Hm He) as Hr. rewrite run_spec in Hr.
      destruct (addr_ok (c_name st0) ss); [|discriminate Hr]. injection Hr as ->. reflexivity. }
    assert (P : forall st0, matches ex st0 -> stated_enough ss req ex st0 ->
              forall a, get a (run_total ss st0) = get a st0 \/ get a (run_total ss st0) = get a (override st0 req)).
    { intros st0 Hm He a. right. apply Q; assumption. }
    rewrite Hadr, Hu. cbn [andb negb]. apply forallb_forall. intros a _. unfold check_attr.
    pose proof (Q _ (canon_matches ex) (canon_enough req ex ss Htg) a) as Kc. rewrite get_run, get_override in Kc.
    destruct (lastset a (all_assign ss)) as [v|] eqn:Hl; destruct (req_val req a) as [w|] eqn:Hr.
    + rewrite Kc. apply aval_eqb_refl.
    + apply (unrequested_complete req ex ss Htg P a v Hl Hr).
    + destruct (stated_val ex a) as [u|] eqn:Hs.
      * rewrite <- (canon_stated _ _ _ Hs), Kc. apply aval_eqb_refl.
      * exfalso. set (x := other w).
        assert (Hax : attr_of x = a).
        { unfold x. rewrite other_attr, <- Kc. apply get_attr. }
        assert (Hs' : stated_val ex (attr_of x) = None) by (rewrite Hax; exact Hs).
        destruct (enough_gen req ex ss Htg x Hs') as [M E]; [left; rewrite Hax, Hr; discriminate|].
        pose proof (Q _ M E a) as K. rewrite get_run, get_override, Hl, Hr, get_set in K.
        rewrite Hax, attr_eqb_refl in K. apply (other_neq w). exact K.
    + reflexivity.
Qed.

(* ================================================================== Part 2: the model

   Part 2a: with plain server defaults on both sides (no Computed / Identity object) the model is the
   following simpler program; Part 2b proves everything about that program. *)

Definition default_alter_column_p (d:dialect) (col:N) (nullable:option bool) (server_default:tri N) (name:option N)
           (type_:option ty) (comment:tri N) (existing_type:option ty) : out :=
  (* autoincrement / existing_autoincrement: util.warn only *)
  (match nullable with Some b => exec d col (ColumnNullable b existing_type) | None => ret end) >>
  (match server_default with
   | TFalse => ret
   | TNone => exec d col (ColumnDefault None)
   | TSome v => exec d col (ColumnDefault (Some v))
   end) >>
  (match type_ with Some t => exec d col (ColumnType t) | None => ret end) >>
  (match comment with
   | TFalse => ret
   | TNone => exec d col (ColumnComment None)
   | TSome c => exec d col (ColumnComment (Some c))
   end) >>
  (match name with Some n => exec d col (ColumnName n) | None => ret end).

Definition mysql_alter_column_p (d:dialect) (req:request) (ex:existing) : out :=
  let col := e_name ex in
  let nullable := match r_null req with Some b => b
                  | None => match e_null ex with Some b => b | None => true end end in
  let type_ := or_else (r_type req) (e_type ex) in
  let default := tri_or_else (r_default req) (e_default ex) in
  let autoincrement := or_else (r_autoinc req) (e_autoinc ex) in
  let comment := match r_comment req with TFalse => opt_to_tri (e_comment ex) | c => c end in
  if isSome (r_name req) || _is_mysql_allowed_functional_default type_ (r_default req) then
    match type_ with
    | None => raise CommandError                           (* MySQLChangeColumn.__init__ *)
    | Some t => exec d col (MySQLChangeColumn (match r_name req with Some n => n | None => e_name ex end)
                                          (_mysql_colspec nullable default t autoincrement comment) false)
    end
  else if isSome (r_null req) || isSome (r_type req) || isSome (r_autoinc req) || given (r_comment req) then
    match type_ with
    | None => raise CommandError
    | Some t => exec d col (MySQLModifyColumn (_mysql_colspec nullable default t autoincrement comment) false)
    end
  else match r_default req with
       | TFalse => ret
       | TNone => exec d col (MySQLAlterDefaultC None)
       | TSome v => exec d col (MySQLAlterDefaultC (Some v))
       end.

Definition mssql_alter_column_p (d:dialect) (req:request) (ex:existing) : out :=
  let col := e_name ex in
  (* first block: fold the type into the NULL / NOT NULL alter *)
  let '(pre, nullable, type_, existing_type) :=
    match r_null req, r_type req, e_type ex, e_null ex with
    | Some b, Some t, _, _ => (None, Some b, None, Some t)
    | Some b, None, None, _ => (Some CommandError, Some b, None, None)
    | Some b, None, Some et, _ => (None, Some b, None, Some et)
    | None, Some t, _, Some eb => (None, Some eb, None, Some t)
    | None, ty_, et, _ => (None, None, ty_, et)            (* incl. the util.warn branch *)
    end in
  match pre with
  | Some e => raise e
  | None =>
    default_alter_column_p d col nullable TFalse None type_ (r_comment req) existing_type >>
    (match r_default req with
     | TFalse => ret
     | sd =>
       when (given (e_default ex) || match sd with TNone => true | _ => false end) (exec d col ExecDropConstraint) >>
       (match sd with
        | TSome v => default_alter_column_p d col None (TSome v) None None TFalse None
        | _ => ret
        end)
     end) >>
    (match r_name req with
     | Some n => default_alter_column_p d col None TFalse (Some n) None TFalse None
     | None => ret
     end)
  end.

Definition postgresql_alter_column_p (d:dialect) (req:request) (ex:existing) : out :=
  let col := e_name ex in
  if isSome (r_using req) && negb (isSome (r_type req)) then raise CommandError
  else
    (match r_type req with Some t => exec d col (PostgresqlColumnType t (r_using req)) | None => ret end) >>
    default_alter_column_p d col (r_null req) (r_default req) (r_name req) None (r_comment req) (e_type ex).

Definition alter_column_p (d:dialect) (req:request) (ex:existing) : out :=
  match d with
  | Dmysql | Dmariadb => mysql_alter_column_p d req ex
  | Dmssql => mssql_alter_column_p d req ex
  | Dpostgresql => postgresql_alter_column_p d req ex
  | Ddefault | Dsqlite | Doracle =>
      default_alter_column_p d (e_name ex) (r_null req) (r_default req) (r_name req) (r_type req) (r_comment req) (e_type ex)
  end.


Definition inner_P (i:c13_in) : out := alter_column_p (i_d i) (i_req i) (i_ex i).

Lemma plain_inv i : plain_defaults i = true -> r_dkind (i_req i) = KPlain /\ e_dkind (i_ex i) = KPlain.
Proof.
  unfold plain_defaults. rewrite andb_true_iff. intros [A B].
  destruct (r_dkind (i_req i)); try discriminate A. destruct (e_dkind (i_ex i)); try discriminate B. auto.
Qed.

Lemma seq_ret_l x : ret >> x = x.
Proof. destruct x as [ss e]. reflexivity. Qed.

Lemma default_alter_column_plain d col nullable sd name type_ comment et esd :
  default_alter_column d col nullable sd name type_ comment et KPlain esd KPlain
  = default_alter_column_p d col nullable sd name type_ comment et.
Proof. unfold default_alter_column, default_alter_column_p. destruct sd; reflexivity. Qed.

Lemma inner_plain i : plain_defaults i = true -> inner_C13 i = inner_P i.
Proof.
  intros Hp. apply plain_inv in Hp. destruct Hp as [Hr He].
  destruct i as [d sch req ex]. unfold inner_C13, inner_P, alter_column, alter_column_p. cbn [i_d i_req i_ex] in *.
  destruct d.
  - rewrite Hr, He. apply default_alter_column_plain.
  - rewrite Hr, He. apply default_alter_column_plain.
  - unfold postgresql_alter_column, postgresql_alter_column_p. rewrite Hr, He, default_alter_column_plain. reflexivity.
  - unfold mysql_alter_column, mysql_alter_column_p. rewrite Hr, He.
    destruct (r_default req) eqn:D; cbn -[default_alter_column];
      match goal with |- (let (sb, e) := ?x in _) = _ => destruct x as [sb e] end; reflexivity.
  - unfold mysql_alter_column, mysql_alter_column_p. rewrite Hr, He.
    destruct (r_default req) eqn:D; cbn -[default_alter_column];
      match goal with |- (let (sb, e) := ?x in _) = _ => destruct x as [sb e] end; reflexivity.
  - unfold mssql_alter_column, mssql_alter_column_p. rewrite Hr, He.
    destruct (r_null req), (r_type req), (e_type ex), (e_null ex); cbn -[default_alter_column default_alter_column_p];
      rewrite ?default_alter_column_plain; destruct (r_default req); reflexivity.
  - rewrite Hr, He. apply default_alter_column_plain.
Qed.

(* ---- Part 2b *)

Section Matches.
Variables (ex:existing) (st0:colstate).
Hypothesis Hm : matches ex st0.
Lemma matches_name : c_name st0 = e_name ex.
Proof. pose proof (Hm AName _ eq_refl) as H. cbn in H. congruence. Qed.
Lemma matches_type t : e_type ex = Some t -> c_type st0 = t.
Proof. intros E. pose proof (Hm AType (VType t)) as H. cbn in H. rewrite E in H. specialize (H eq_refl). congruence. Qed.
Lemma matches_null b : e_null ex = Some b -> c_null st0 = b.
Proof. intros E. pose proof (Hm ANull (VNull b)) as H. cbn in H. rewrite E in H. specialize (H eq_refl). congruence. Qed.
Lemma matches_default_none : e_default ex = TNone -> c_default st0 = None.
Proof. intros E. pose proof (Hm ADefault (VDefault None)) as H. cbn in H. rewrite E in H. specialize (H eq_refl). congruence. Qed.
Lemma matches_default_some v : e_default ex = TSome v -> c_default st0 = Some v.
Proof. intros E. pose proof (Hm ADefault (VDefault (Some v))) as H. cbn in H. rewrite E in H. specialize (H eq_refl). congruence. Qed.
Lemma matches_comment c : e_comment ex = Some c -> c_comment st0 = Some c.
Proof. intros E. pose proof (Hm AComment (VComment (Some c))) as H. cbn in H. rewrite E in H. specialize (H eq_refl). congruence. Qed.
Lemma matches_autoinc b : e_autoinc ex = Some b -> c_autoinc st0 = b.
Proof. intros E. pose proof (Hm AAutoinc (VAutoinc b)) as H. cbn in H. rewrite E in H. specialize (H eq_refl). congruence. Qed.
End Matches.

Lemma autoinc_keep i st0 :
  autoinc_honoured i = true -> is_mysql (i_d i) = false -> matches (i_ex i) st0 ->
  match r_autoinc (i_req i) with Some b => b | None => c_autoinc st0 end = c_autoinc st0.
Proof.
  unfold autoinc_honoured. intros Ha Hd Hm. destruct (r_autoinc (i_req i)) as [b|]; [|reflexivity].
  rewrite Hd in Ha. cbn in Ha. destruct (e_autoinc (i_ex i)) as [b'|] eqn:E; [|discriminate].
  cbn in Ha. apply eqb_prop in Ha. subst. symmetry. eapply matches_autoinc; eauto.
Qed.

Ltac destr_req req :=
  let rt := fresh "rt" in let rn := fresh "rn" in let rd := fresh "rd" in let rname := fresh "rname" in
  let rc := fresh "rc" in let ra := fresh "ra" in let ru := fresh "ru" in
  destruct req as [rt rn rd rname rc ra ru rk];
  destruct rt as [rt|], rn as [rn|], rd as [| |rd], rname as [rname|], rc as [| |rc].

(* ---------------------------------------------------------------- default / sqlite / oracle / postgresql *)
Definition plain (d:dialect) : bool :=
  match d with Ddefault | Dsqlite | Doracle | Dpostgresql => true | _ => false end.

Lemma effect_plain d sch req ex ss st0 :
  plain d = true -> autoinc_honoured (mkIn d sch req ex) = true -> matches ex st0 ->
  inner_P (mkIn d sch req ex) = (ss, None) -> run_total ss st0 = override st0 req.
Proof.
  intros Hd Ha Hm H.
  assert (Hk := autoinc_keep (mkIn d sch req ex) st0 Ha). cbn [i_d i_req i_ex] in Hk.
  assert (Hmy : is_mysql d = false) by (destruct d; try discriminate; reflexivity).
  specialize (Hk Hmy Hm). clear Ha Hm Hmy.
  unfold override. rewrite Hk. clear Hk. destruct st0 as [n t nl df cm ai].
  destr_req req. all: destruct ru as [ru|].
  all: destruct d; try discriminate Hd.
  all: vm_compute in H; try discriminate H; injection H as <-; reflexivity.
Qed.

(* ---------------------------------------------------------------- mssql *)
Lemma enough_null ss req ex st0 :
  stated_enough ss req ex st0 -> In ANull (restated_attrs ss) -> r_null req = None -> e_null ex = None ->
  c_null st0 = true.
Proof.
  intros He Hin Hr Hs. unfold restated_attrs in Hin. apply in_flat_map in Hin. destruct Hin as [s [Hs1 Hs2]].
  assert (Hq : req_val req ANull = None) by (cbn; rewrite Hr; reflexivity).
  destruct (He s ANull Hs1 Hs2 Hq) as [K|K]; cbn in K.
  - rewrite Hs in K. cbn in K. congruence.
  - congruence.
Qed.

Lemma effect_mssql sch req ex ss st0 :
  autoinc_honoured (mkIn Dmssql sch req ex) = true -> matches ex st0 -> stated_enough ss req ex st0 ->
  inner_P (mkIn Dmssql sch req ex) = (ss, None) -> run_total ss st0 = override st0 req.
Proof.
  intros Ha Hm He H.
  assert (Hk := autoinc_keep (mkIn Dmssql sch req ex) st0 Ha eq_refl Hm). cbn [i_d i_req i_ex] in Hk.
  assert (Ht := matches_type ex st0 Hm). assert (Hn := matches_null ex st0 Hm).
  assert (Hnull := enough_null ss req ex st0 He). clear Ha Hm He.
  unfold override. rewrite Hk. clear Hk. destruct st0 as [n t nl df cm ai].
  destruct ex as [en et enl ed ec ea ek]. cbn [e_type e_null c_type c_null r_null] in *.
  destr_req req.
  all: destruct et as [et|], enl as [enl|], ed as [| |ed].
  all: vm_compute in H; try discriminate H; injection H as <-.
  all: try (rewrite (Ht _ eq_refl)); try (rewrite (Hn _ eq_refl)).
  all: try reflexivity.
  all: rewrite Hnull by (cbn; auto); reflexivity.
Qed.

(* ---------------------------------------------------------------- mysql / mariadb *)
Definition mysql_spec (req:request) (ex:existing) (t:ty) : colspec :=
  _mysql_colspec
    (match r_null req with Some b => b | None => match e_null ex with Some b => b | None => true end end)
    (tri_or_else (r_default req) (e_default ex)) t
    (or_else (r_autoinc req) (e_autoinc ex))
    (match r_comment req with TFalse => opt_to_tri (e_comment ex) | c => c end).

Lemma mysql_out d req ex ss e :
  is_mysql d = true -> mysql_alter_column_p d req ex = (ss, e) ->
  (exists t, or_else (r_type req) (e_type ex) = Some t /\ e = None /\
     (ss = [MySQLChange (e_name ex) (match r_name req with Some n => n | None => e_name ex end) (mysql_spec req ex t)] \/
      (r_name req = None /\ ss = [MySQLModify (e_name ex) (mysql_spec req ex t)])))
  \/ (r_name req = None /\ r_null req = None /\ r_type req = None /\ r_autoinc req = None /\ r_comment req = TFalse /\
      e = None /\
      ss = match r_default req with TFalse => [] | TNone => [MySQLAlterDefault (e_name ex) None] | TSome v => [MySQLAlterDefault (e_name ex) (Some v)] end)
  \/ (or_else (r_type req) (e_type ex) = None /\ ss = [] /\ e = Some CommandError /\
      (isSome (r_name req) || isSome (r_null req) || isSome (r_autoinc req) || given (r_comment req)) = true).
Proof.
  intros Hd. unfold mysql_alter_column_p. fold (mysql_spec req ex).
  destruct (isSome (r_name req) || _is_mysql_allowed_functional_default (or_else (r_type req) (e_type ex)) (r_default req)) eqn:C1.
  - destruct (or_else (r_type req) (e_type ex)) as [t|] eqn:T.
    + unfold exec, compile. rewrite Hd. intros H. injection H as <- <-. left. exists t. auto.
    + unfold raise. intros H. injection H as <- <-. right. right. cbn in C1. rewrite orb_false_r in C1.
      rewrite C1. auto.
  - apply orb_false_iff in C1. destruct C1 as [C1 C1']. destruct (r_name req) as [n|] eqn:N; [discriminate|].
    destruct (isSome (r_null req) || isSome (r_type req) || isSome (r_autoinc req) || given (r_comment req)) eqn:C2.
    + destruct (or_else (r_type req) (e_type ex)) as [t|] eqn:T.
      * unfold exec, compile. rewrite Hd. intros H. injection H as <- <-. left. exists t. auto.
      * unfold raise. intros H. injection H as <- <-. right. right.
        destruct (r_type req); [discriminate|]. cbn in C2. cbn. rewrite orb_false_r in C2. auto.
    + apply orb_false_iff in C2. destruct C2 as [C2 C2c]. apply orb_false_iff in C2. destruct C2 as [C2 C2a].
      apply orb_false_iff in C2. destruct C2 as [C2n C2t].
      destruct (r_null req); [discriminate|]. destruct (r_type req); [discriminate|].
      destruct (r_autoinc req); [discriminate|]. destruct (r_comment req); try discriminate.
      intros H. right. left. destruct (r_default req); unfold exec, compile in H; try rewrite Hd in H;
        injection H as <- <-; auto 10.
Qed.

Section MySQLFields.
Variables (req:request) (ex:existing) (st0:colstate).
Hypothesis Hm : matches ex st0.
Hypothesis Hk : forall a, In a [AType; ANull; ADefault; AComment; AAutoinc] -> req_val req a = None -> known ex st0 a.

Lemma my_type t : or_else (r_type req) (e_type ex) = Some t ->
  t = match r_type req with Some t => t | None => c_type st0 end.
Proof. destruct (r_type req); cbn; intros E; [congruence|]. symmetry. eapply matches_type; eauto. Qed.

Lemma my_null :
  (match r_null req with Some b => b | None => match e_null ex with Some b => b | None => true end end)
  = match r_null req with Some b => b | None => c_null st0 end.
Proof.
  destruct (r_null req) eqn:R; [reflexivity|].
  destruct (e_null ex) eqn:E. { symmetry. eapply matches_null; eauto. }
  assert (K : known ex st0 ANull) by (apply Hk; cbn; [tauto|rewrite R; reflexivity]).
    destruct K as [K|K]; cbn in K; rewrite ?E in K; cbn in K; congruence.
Qed.

Lemma my_default :
  (match tri_or_else (r_default req) (e_default ex) with TSome v => Some v | _ => None end)
  = match r_default req with TFalse => c_default st0 | TNone => None | TSome v => Some v end.
Proof.
  destruct (r_default req) eqn:R; cbn; try reflexivity.
  destruct (e_default ex) eqn:E.
  - assert (K : known ex st0 ADefault) by (apply Hk; cbn; [tauto|rewrite R; reflexivity]).
    destruct K as [K|K]; cbn in K; rewrite ?E in K; cbn in K; congruence.
  - symmetry. eapply matches_default_none; eauto.
  - symmetry. eapply matches_default_some; eauto.
Qed.

Lemma my_comment :
  (match (match r_comment req with TFalse => opt_to_tri (e_comment ex) | c => c end) with TSome c => Some c | _ => None end)
  = match r_comment req with TFalse => c_comment st0 | TNone => None | TSome c => Some c end.
Proof.
  destruct (r_comment req) eqn:R; cbn; try reflexivity.
  destruct (e_comment ex) eqn:E; cbn.
  - symmetry. eapply matches_comment; eauto.
  - assert (K : known ex st0 AComment) by (apply Hk; cbn; [tauto|rewrite R; reflexivity]).
    destruct K as [K|K]; cbn in K; rewrite ?E in K; cbn in K; congruence.
Qed.

Lemma my_autoinc :
  (match or_else (r_autoinc req) (e_autoinc ex) with Some true => true | _ => false end)
  = match r_autoinc req with Some b => b | None => c_autoinc st0 end.
Proof.
  destruct (r_autoinc req) as [[|]|] eqn:R; cbn; try reflexivity.
  destruct (e_autoinc ex) as [b|] eqn:E.
  - rewrite <- (matches_autoinc ex st0 Hm b E). destruct (c_autoinc st0); reflexivity.
  - assert (K : known ex st0 AAutoinc) by (apply Hk; cbn; [tauto|rewrite R; reflexivity]).
    destruct K as [K|K]; cbn in K; rewrite ?E in K; cbn in K; congruence.
Qed.

Lemma my_spec_effect n t :
  or_else (r_type req) (e_type ex) = Some t ->
  mkCol n (cs_type (mysql_spec req ex t)) (cs_null (mysql_spec req ex t)) (cs_default (mysql_spec req ex t))
        (cs_comment (mysql_spec req ex t)) (cs_autoinc (mysql_spec req ex t))
  = mkCol n (match r_type req with Some t => t | None => c_type st0 end)
            (match r_null req with Some b => b | None => c_null st0 end)
            (match r_default req with TFalse => c_default st0 | TNone => None | TSome v => Some v end)
            (match r_comment req with TFalse => c_comment st0 | TNone => None | TSome c => Some c end)
            (match r_autoinc req with Some b => b | None => c_autoinc st0 end).
Proof.
  intros T. unfold mysql_spec, _mysql_colspec. cbn [cs_type cs_null cs_default cs_comment cs_autoinc].
  rewrite my_null, my_default, my_comment, my_autoinc, <- (my_type t T). reflexivity.
Qed.
End MySQLFields.

Lemma effect_mysql d sch req ex ss st0 :
  is_mysql d = true -> matches ex st0 -> stated_enough ss req ex st0 ->
  inner_P (mkIn d sch req ex) = (ss, None) -> run_total ss st0 = override st0 req.
Proof.
  intros Hd Hm He H. unfold inner_P, alter_column_p in H. cbn [i_d i_req i_ex] in H.
  assert (H' : mysql_alter_column_p d req ex = (ss, None)) by (destruct d; try discriminate Hd; exact H).
  clear H. apply mysql_out in H'; [|exact Hd].
  destruct H' as [[t [T [_ [S|[N S]]]]]|[[N [Nn [Nt [Na [Nc [_ S]]]]]]|[_ [_ [E _]]]]]; [| | |discriminate E].
  - subst ss. unfold run_total, override. cbn [fold_left apply].
    rewrite (my_spec_effect req ex st0 Hm); [|intros a Ha Hr; eapply He; [left; reflexivity|exact Ha|exact Hr]|exact T].
    rewrite (matches_name ex st0 Hm). reflexivity.
  - subst ss. unfold run_total, override. cbn [fold_left apply].
    rewrite (my_spec_effect req ex st0 Hm); [|intros a Ha Hr; eapply He; [left; reflexivity|exact Ha|exact Hr]|exact T].
    rewrite N. reflexivity.
  - subst ss. unfold run_total, override. rewrite N, Nn, Nt, Na, Nc. destruct st0. destruct (r_default req); reflexivity.
Qed.

(* ---------------------------------------------------------------- main effect theorem *)
Theorem effect_all_P i ss st0 :
  autoinc_honoured i = true -> inner_P i = (ss, None) -> matches (i_ex i) st0 ->
  stated_enough ss (i_req i) (i_ex i) st0 -> run_total ss st0 = override st0 (i_req i).
Proof.
  destruct i as [d sch req ex]. cbn [i_req i_ex]. intros Ha H Hm He.
  destruct d.
  - exact (effect_plain Ddefault sch req ex ss st0 eq_refl Ha Hm H).
  - exact (effect_plain Dsqlite sch req ex ss st0 eq_refl Ha Hm H).
  - exact (effect_plain Dpostgresql sch req ex ss st0 eq_refl Ha Hm H).
  - exact (effect_mysql Dmysql sch req ex ss st0 eq_refl Hm He H).
  - exact (effect_mysql Dmariadb sch req ex ss st0 eq_refl Hm He H).
  - exact (effect_mssql sch req ex ss st0 Ha Hm He H).
  - exact (effect_plain Doracle sch req ex ss st0 eq_refl Ha Hm H).
Qed.

(* ---------------------------------------------------------------- raises exactly when unsupported *)
(* for ALL kinds of server default (plain, Computed, Identity on either side) *)
Lemma raises_iff_unsupported_inner i : isSome (snd (inner_C13 i)) = unsupported i.
Proof.
  destruct i as [d sch req ex]. destruct ex as [en et enl ed ec ea ek].
  destruct req as [rt rn rd rname rc ra ru rk].
  destruct d.
  - destruct rk, ek, ed, rt, rn, rd, rname, rc; reflexivity.
  - destruct rk, ek, ed, rt, rn, rd, rname, rc; reflexivity.
  - destruct rk, ek, ed, rt, rn, rd, rname, rc, ru; reflexivity.
  - destruct rk, ek, ed, rt as [[? [|] ?]|], et as [[? [|] ?]|], rn, rd, rname, rc, ra; reflexivity.
  - destruct rk, ek, ed, rt as [[? [|] ?]|], et as [[? [|] ?]|], rn, rd, rname, rc, ra; reflexivity.
  - destruct rk, ek, ed, rt, et, enl, rn, rd, rname, rc; reflexivity.
  - destruct rk, ek, ed, rt, rn, rd, rname, rc; reflexivity.
Qed.

(* ---------------------------------------------------------------- no invention (C13_restated) *)
Ltac inv_in :=
  repeat match goal with
         | H : In _ [] |- _ => destruct H
         | H : False |- _ => destruct H
         | H : In _ (_ :: _) |- _ => destruct H as [H|H]; [subst|]
         end.

Lemma no_invention_plain d sch req ex ss e :
  plain d = true -> inner_P (mkIn d sch req ex) = (ss, e) -> no_invention req ex ss.
Proof.
  intros Hd H s v w Hs Hv Hr Hst. clear Hst.
  destr_req req. all: destruct ru as [ru|].
  all: destruct d; try discriminate Hd.
  all: vm_compute in H; injection H as <- <-.
  all: inv_in; cbn [assign spec_vals] in Hv; inv_in; cbn in Hr; discriminate Hr.
Qed.

Lemma no_invention_mssql sch req ex ss e :
  inner_P (mkIn Dmssql sch req ex) = (ss, e) -> no_invention req ex ss.
Proof.
  intros H s v w Hs Hv Hr Hst.
  destruct ex as [en et enl ed ec ea ek].
  destr_req req.
  all: destruct et as [et|], enl as [enl|], ed as [| |ed].
  all: vm_compute in H; injection H as <- <-.
  all: inv_in; cbn [assign spec_vals] in Hv; inv_in; cbn in Hr; try discriminate Hr.
  all: cbn in Hst; congruence.
Qed.

Lemma spec_vals_no_invention req ex t v w :
  or_else (r_type req) (e_type ex) = Some t ->
  In v (spec_vals (mysql_spec req ex t)) -> req_val req (attr_of v) = None ->
  stated_val ex (attr_of v) = Some w -> v = w.
Proof.
  intros T Hv Hr Hst. unfold mysql_spec, _mysql_colspec, spec_vals in Hv.
  cbn [cs_type cs_null cs_default cs_comment cs_autoinc] in Hv.
  destruct Hv as [<-|[<-|[<-|[<-|[<-|[]]]]]]; cbn in Hr, Hst.
  - destruct (r_type req); [discriminate|]. cbn in T. rewrite T in Hst. cbn in Hst. congruence.
  - destruct (r_null req); [discriminate|]. destruct (e_null ex); cbn in Hst; congruence.
  - destruct (r_default req); try discriminate. cbn. destruct (e_default ex); cbn in Hst; congruence.
  - destruct (r_comment req); try discriminate. destruct (e_comment ex); cbn in Hst |- *; congruence.
  - destruct (r_autoinc req); [discriminate|]. cbn. destruct (e_autoinc ex) as [[|]|]; cbn in Hst; congruence.
Qed.

Lemma no_invention_mysql d sch req ex ss e :
  is_mysql d = true -> inner_P (mkIn d sch req ex) = (ss, e) -> no_invention req ex ss.
Proof.
  intros Hd H s v w Hs Hv Hr Hst. unfold inner_P, alter_column_p in H. cbn [i_d i_req i_ex] in H.
  assert (H' : mysql_alter_column_p d req ex = (ss, e)) by (destruct d; try discriminate Hd; exact H).
  clear H. apply mysql_out in H'; [|exact Hd].
  destruct H' as [[t [T [_ [S|[N S]]]]]|[[N [Nn [Nt [Na [Nc [_ S]]]]]]|[_ [S _]]]]; subst ss.
  - inv_in. cbn [assign] in Hv. destruct Hv as [<-|Hv].
    + cbn in Hr, Hst. destruct (r_name req); [discriminate|]. congruence.
    + eapply spec_vals_no_invention; eauto.
  - inv_in. cbn [assign] in Hv. eapply spec_vals_no_invention; eauto.
  - destruct (r_default req) eqn:D; inv_in; cbn [assign] in Hv; inv_in; cbn in Hr; rewrite D in Hr; discriminate.
  - inv_in.
Qed.

Theorem no_invention_all_P i ss e : inner_P i = (ss, e) -> no_invention (i_req i) (i_ex i) ss.
Proof.
  destruct i as [d sch req ex]. cbn [i_req i_ex]. intros H. destruct d.
  - exact (no_invention_plain Ddefault sch req ex ss e eq_refl H).
  - exact (no_invention_plain Dsqlite sch req ex ss e eq_refl H).
  - exact (no_invention_plain Dpostgresql sch req ex ss e eq_refl H).
  - exact (no_invention_mysql Dmysql sch req ex ss e eq_refl H).
  - exact (no_invention_mysql Dmariadb sch req ex ss e eq_refl H).
  - exact (no_invention_mssql sch req ex ss e H).
  - exact (no_invention_plain Doracle sch req ex ss e eq_refl H).
Qed.

(* ---------------------------------------------------------------- what was emitted before an exception *)
Ltac old_or_new := first [left; reflexivity | right; reflexivity].

Lemma prefix_plain d sch req ex ss e st0 :
  plain d = true -> inner_P (mkIn d sch req ex) = (ss, Some e) ->
  forall a, get a (run_total ss st0) = get a st0 \/ get a (run_total ss st0) = get a (override st0 req).
Proof.
  intros Hd H a. destruct st0 as [n t nl df cm ai].
  destr_req req. all: destruct ru as [ru|].
  all: destruct d; try discriminate Hd.
  all: vm_compute in H; try discriminate H; injection H as <- <-.
  all: destruct a; old_or_new.
Qed.

Lemma prefix_mssql sch req ex ss e st0 :
  matches ex st0 -> stated_enough ss req ex st0 -> inner_P (mkIn Dmssql sch req ex) = (ss, Some e) ->
  forall a, get a (run_total ss st0) = get a st0 \/ get a (run_total ss st0) = get a (override st0 req).
Proof.
  intros Hm He H a.
  assert (Ht := matches_type ex st0 Hm). assert (Hn := matches_null ex st0 Hm).
  assert (Hnull := enough_null ss req ex st0 He). clear Hm He.
  destruct st0 as [n t nl df cm ai].
  destruct ex as [en et enl ed ec ea ek]. cbn [e_type e_null c_type c_null r_null] in *.
  destr_req req.
  all: destruct et as [et|], enl as [enl|], ed as [| |ed].
  all: vm_compute in H; try discriminate H; injection H as <- <-.
  all: try (rewrite (Ht _ eq_refl)); try (rewrite (Hn _ eq_refl)).
  all: try (rewrite Hnull by (cbn; auto)).
  all: destruct a; old_or_new.
Qed.

Lemma prefix_mysql d sch req ex ss e st0 :
  is_mysql d = true -> inner_P (mkIn d sch req ex) = (ss, Some e) ->
  forall a, get a (run_total ss st0) = get a st0 \/ get a (run_total ss st0) = get a (override st0 req).
Proof.
  intros Hd H a. unfold inner_P, alter_column_p in H. cbn [i_d i_req i_ex] in H.
  assert (H' : mysql_alter_column_p d req ex = (ss, Some e)) by (destruct d; try discriminate Hd; exact H).
  clear H. apply mysql_out in H'; [|exact Hd].
  destruct H' as [[t [T [E _]]]|[[N [Nn [Nt [Na [Nc [E S]]]]]]|[_ [S _]]]]; try discriminate E.
  subst ss. left. reflexivity.
Qed.

Theorem raises_instead_all_P i ss e :
  plain_defaults i = true -> inner_P i = (ss, Some e) ->
  unsupported i = true /\
  forall st0, matches (i_ex i) st0 -> stated_enough ss (i_req i) (i_ex i) st0 ->
    forall a, get a (run_total ss st0) = get a st0 \/ get a (run_total ss st0) = get a (override st0 (i_req i)).
Proof.
  intros Hp H. split.
  - rewrite <- raises_iff_unsupported_inner, (inner_plain i Hp), H. reflexivity.
  - destruct i as [d sch req ex]. cbn [i_req i_ex]. intros st0 Hm He. destruct d.
    + exact (prefix_plain Ddefault sch req ex ss e st0 eq_refl H).
    + exact (prefix_plain Dsqlite sch req ex ss e st0 eq_refl H).
    + exact (prefix_plain Dpostgresql sch req ex ss e st0 eq_refl H).
    + exact (prefix_mysql Dmysql sch req ex ss e st0 eq_refl H).
    + exact (prefix_mysql Dmariadb sch req ex ss e st0 eq_refl H).
    + exact (prefix_mssql sch req ex ss e st0 Hm He H).
    + exact (prefix_plain Doracle sch req ex ss e st0 eq_refl H).
Qed.


(* ---------------------------------------------------------------- autoincrement is ignored outside MySQL *)
Lemma autoinc_never_assigned_P i :
  is_mysql (i_d i) = false -> lastset AAutoinc (all_assign (fst (inner_P i))) = None.
Proof.
  destruct i as [d sch req ex]. cbn [i_d]. intros Hd.
  destruct ex as [en et enl ed ec ea ek].
  destr_req req. all: destruct ru as [ru|].
  all: destruct d; try discriminate Hd; try reflexivity.
  all: destruct et as [et|], enl as [enl|], ed as [| |ed]; reflexivity.
Qed.


Definition req_autoinc_only : request := mkReq None None TFalse None TFalse (Some true) None KPlain.
Definition ex_nothing : existing := mkEx 1 None None TFalse None None KPlain.
Definition st_plain : colstate := mkCol 1%N (mkTy 0 false None) true None None false.


(* ---------------------------------------------------------------- which existing_* values are needed *)
Lemma stated_enough_attrs ss req ex st0 :
  stated_enough ss req ex st0 <->
  (forall a, In a (restated_attrs ss) -> req_val req a = None -> known ex st0 a).
Proof.
  unfold stated_enough, restated_attrs. split.
  - intros H a Ha Hr. apply in_flat_map in Ha. destruct Ha as [s [Hs Ha]]. eauto.
  - intros H s a Hs Ha Hr. apply H; auto. apply in_flat_map. eauto.
Qed.

Lemma restated_plain d sch req ex :
  plain d = true -> restated_attrs (fst (inner_P (mkIn d sch req ex))) = [].
Proof.
  intros Hd. destr_req req. all: destruct ru as [ru|].
  all: destruct d; try discriminate Hd; reflexivity.
Qed.

Lemma restated_mysql d sch req ex :
  is_mysql d = true ->
  restated_attrs (fst (inner_P (mkIn d sch req ex))) =
  if mysql_restates req ex then [AType; ANull; ADefault; AComment; AAutoinc] else [].
Proof.
  intros Hd. destruct ex as [en et enl ed ec ea ek]. destruct req as [rt rn rd rname rc ra ru rk].
  destruct d; try discriminate Hd.
  all: destruct rt as [[? [|] ?]|], et as [[? [|] ?]|], rn, rd, rname, rc, ra; reflexivity.
Qed.

Lemma exact_mssql sch req ex st0 :
  stated_enough (fst (inner_P (mkIn Dmssql sch req ex))) req ex st0 <->
  (isSome (r_type req) = true -> r_null req = None -> known ex st0 ANull).
Proof.
  rewrite stated_enough_attrs.
  destruct ex as [en et enl ed ec ea ek].
  destr_req req.
  all: destruct et as [et|], enl as [enl|], ed as [| |ed].
  all: vm_compute fst; cbn [restated_attrs flat_map restates app isSome r_type r_null].
  all: split; intros H.
  (* -> *)
  all: try (intros _ _; apply H; cbn; auto; fail).
  all: try (intros _ E; discriminate E).
  all: try (intros E; discriminate E).
  (* <- *)
  all: intros a Ha Hr; inv_in; cbn in Hr; try discriminate Hr.
  all: try (left; cbn; discriminate).
  all: apply H; reflexivity.
Qed.

Theorem stated_enough_exact_P i st0 :
  stated_enough (fst (inner_P i)) (i_req i) (i_ex i) st0 <-> existing_needed i st0.
Proof.
  destruct i as [d sch req ex]. unfold existing_needed. cbn [i_d i_req i_ex].
  destruct d.
  1,2,3,7: (rewrite stated_enough_attrs, restated_plain by reflexivity; split; [tauto|intros _ a []]).
  1,2: (rewrite stated_enough_attrs, restated_mysql by reflexivity; destruct (mysql_restates req ex);
        split; [intros H _; exact H|intros H; apply H; reflexivity|intros _ E; discriminate E|intros _ a []]).
  apply exact_mssql.
Qed.


(* ---------------------------------------------------------------- addressing: the impl-level call names the
   column by its current name in every statement, and the rename comes last (or inside the one restating
   statement) *)
Definition addr_fact (i:c13_in) : Prop :=
  addr_ok (e_name (i_ex i)) (fst (inner_P i)) = true /\
  (snd (inner_P i) = None ->
   fold_left name_after (fst (inner_P i)) (e_name (i_ex i))
   = match r_name (i_req i) with Some n => n | None => e_name (i_ex i) end).

Ltac addr_tac :=
  unfold addr_fact; cbn -[N.eqb]; rewrite ?N.eqb_refl; cbn -[N.eqb];
  split; [reflexivity|intros E; first [reflexivity|discriminate E]].

Lemma addr_plain d sch req ex : plain d = true -> addr_fact (mkIn d sch req ex).
Proof.
  intros Hd. destruct ex as [en et enl ed ec ea ek].
  destr_req req. all: destruct ru as [ru|].
  all: destruct d; try discriminate Hd.
  all: addr_tac.
Qed.

Lemma addr_mssql sch req ex : addr_fact (mkIn Dmssql sch req ex).
Proof.
  destruct ex as [en et enl ed ec ea ek].
  destr_req req.
  all: destruct et as [et|], enl as [enl|], ed as [| |ed].
  all: addr_tac.
Qed.

Lemma addr_mysql d sch req ex : is_mysql d = true -> addr_fact (mkIn d sch req ex).
Proof.
  intros Hd.
  assert (Hi : inner_P (mkIn d sch req ex) = mysql_alter_column_p d req ex)
    by (destruct d; try discriminate Hd; reflexivity).
  unfold addr_fact. rewrite Hi. cbn [i_req i_ex].
  destruct (mysql_alter_column_p d req ex) as [ss e] eqn:H'. cbn [fst snd].
  apply mysql_out in H'; [|exact Hd].
  destruct H' as [[t [T [-> [S|[N S]]]]]|[[N [Nn [Nt [Na [Nc [-> S]]]]]]|[_ [S [-> _]]]]]; subst ss.
  - cbn -[N.eqb]. rewrite N.eqb_refl. split; [reflexivity|intros _; reflexivity].
  - cbn -[N.eqb]. rewrite N.eqb_refl, N. split; [reflexivity|intros _; reflexivity].
  - rewrite N. destruct (r_default req); cbn -[N.eqb]; rewrite ?N.eqb_refl; split; auto.
  - split; [reflexivity|intros E; discriminate E].
Qed.

Lemma addr_P i : addr_fact i.
Proof.
  destruct i as [d sch req ex]. destruct d.
  - exact (addr_plain Ddefault sch req ex eq_refl).
  - exact (addr_plain Dsqlite sch req ex eq_refl).
  - exact (addr_plain Dpostgresql sch req ex eq_refl).
  - exact (addr_mysql Dmysql sch req ex eq_refl).
  - exact (addr_mysql Dmariadb sch req ex eq_refl).
  - exact (addr_mssql sch req ex).
  - exact (addr_plain Doracle sch req ex eq_refl).
Qed.

(* ---- a restating statement was given its type *)
Lemma type_given_mssql sch req ex :
  In AType (restated_attrs (fst (inner_P (mkIn Dmssql sch req ex)))) ->
  req_val req AType <> None \/ stated_val ex AType <> None.
Proof.
  destruct ex as [en et enl ed ec ea].
  destr_req req.
  all: destruct et as [et|], enl as [enl|], ed as [| |ed].
  all: vm_compute fst; cbn [restated_attrs flat_map restates app In req_val stated_val r_type e_type option_map].
  all: intros H; first [left; discriminate | right; discriminate | idtac].
  all: repeat (destruct H as [H|H]; try discriminate H); destruct H.
Qed.

(* ---- Part 2c: back to the model itself, for plain server defaults *)
Section Bridge.
Variable i : c13_in.
Hypothesis Hp : plain_defaults i = true.

Theorem effect_all_inner ss st0 :
  autoinc_honoured i = true -> inner_C13 i = (ss, None) -> matches (i_ex i) st0 ->
  stated_enough ss (i_req i) (i_ex i) st0 -> run_total ss st0 = override st0 (i_req i).
Proof. rewrite (inner_plain i Hp). apply effect_all_P. Qed.

Theorem no_invention_all_inner ss e : inner_C13 i = (ss, e) -> no_invention (i_req i) (i_ex i) ss.
Proof. rewrite (inner_plain i Hp). apply no_invention_all_P. Qed.

Theorem raises_instead_all_inner ss e :
  inner_C13 i = (ss, Some e) ->
  unsupported i = true /\
  forall st0, matches (i_ex i) st0 -> stated_enough ss (i_req i) (i_ex i) st0 ->
    forall a, get a (run_total ss st0) = get a st0 \/ get a (run_total ss st0) = get a (override st0 (i_req i)).
Proof. rewrite (inner_plain i Hp). apply raises_instead_all_P. exact Hp. Qed.

Lemma autoinc_never_assigned_inner :
  is_mysql (i_d i) = false -> lastset AAutoinc (all_assign (fst (inner_C13 i))) = None.
Proof. rewrite (inner_plain i Hp). apply autoinc_never_assigned_P. Qed.

Theorem stated_enough_exact_inner st0 :
  stated_enough (fst (inner_C13 i)) (i_req i) (i_ex i) st0 <-> existing_needed i st0.
Proof. rewrite (inner_plain i Hp). apply stated_enough_exact_P. Qed.

Lemma addr_inner :
  addr_ok (e_name (i_ex i)) (fst (inner_C13 i)) = true /\
  (snd (inner_C13 i) = None ->
   fold_left name_after (fst (inner_C13 i)) (e_name (i_ex i))
   = match r_name (i_req i) with Some n => n | None => e_name (i_ex i) end).
Proof. rewrite (inner_plain i Hp). apply addr_P. Qed.

Lemma restated_inner_type :
  In AType (restated_attrs (fst (inner_C13 i))) ->
  req_val (i_req i) AType <> None \/ stated_val (i_ex i) AType <> None.
Proof.
  rewrite (inner_plain i Hp). destruct i as [d sch req ex]. cbn [i_req i_ex]. intros Hin. destruct d.
  1,2,3,7: (rewrite restated_plain in Hin by reflexivity; destruct Hin).
  1,2: (rewrite restated_mysql in Hin by reflexivity; unfold mysql_restates in Hin;
        destruct (r_type req) as [t|] eqn:R; [left; cbn; rewrite R; discriminate|];
        destruct (e_type ex) as [t|] eqn:E; [right; cbn; rewrite E; discriminate|]; cbn in Hin; destruct Hin).
  apply type_given_mssql with (sch := sch). exact Hin.
Qed.
End Bridge.

(* ================================================================== Part 3: the toimpl layer
   toimpl.alter_column only wraps the impl-level call in DROP/ADD CONSTRAINT statements for type-bound
   CHECKs; these leave the six column attributes alone, so everything lifts. *)

Lemma all_assign_noop ps : forallb noop ps = true -> all_assign ps = [].
Proof.
  unfold all_assign. induction ps as [|s r IH]; [reflexivity|]. cbn [forallb flat_map].
  rewrite andb_true_iff. intros [Hs Hr]. rewrite (IH Hr). destruct s; try discriminate Hs; reflexivity.
Qed.
Lemma restated_noop ps : forallb noop ps = true -> restated_attrs ps = [].
Proof.
  unfold restated_attrs. induction ps as [|s r IH]; [reflexivity|]. cbn [forallb flat_map].
  rewrite andb_true_iff. intros [Hs Hr]. rewrite (IH Hr). destruct s; try discriminate Hs; reflexivity.
Qed.

Lemma model_shape i : exists ps qs, forallb noop ps = true /\ forallb noop qs = true /\
  model_C13 i = (ps ++ fst (inner_C13 i) ++ (match snd (inner_C13 i) with None => qs | Some _ => [] end),
                 snd (inner_C13 i)).
Proof.
  unfold model_C13, inner_C13, plan, toimpl_alter_column.
  set (pre := match e_type (i_ex i), r_type (i_req i) with
              | Some et, Some _ => match ty_ck et with Some k => drop_constraint (i_d i) k | None => ret end
              | _, _ => ret end).
  set (post := match ck_of (r_type (i_req i)) with Some k => add_constraint (i_d i) (match r_name (i_req i) with Some n => n | None => e_name (i_ex i) end) k | None => ret end).
  assert (Hpre : exists ps, forallb noop ps = true /\ pre = (ps, None)).
  { unfold pre, drop_constraint, ret. destruct (e_type (i_ex i)) as [et|], (r_type (i_req i)) as [rt|];
      try (exists []; split; reflexivity).
    destruct (ty_ck et) as [k|]; [|exists []; split; reflexivity].
    destruct (i_d i); eexists; (split; [|reflexivity]); reflexivity. }
  assert (Hpost : exists qs, forallb noop qs = true /\ post = (qs, None)).
  { unfold post, add_constraint, ret. destruct (ck_of (r_type (i_req i))) as [k|]; [|exists []; split; reflexivity].
    destruct (i_d i); eexists; (split; [|reflexivity]); reflexivity. }
  destruct Hpre as [ps [Hps ->]]. destruct Hpost as [qs [Hqs ->]].
  exists ps, qs. split; [exact Hps|]. split; [exact Hqs|].
  destruct (alter_column (i_d i) (i_req i) (i_ex i)) as [ss [e|]]; cbn; rewrite ?app_nil_r, <- ?app_assoc; reflexivity.
Qed.

Lemma model_facts i :
  snd (model_C13 i) = snd (inner_C13 i) /\
  all_assign (fst (model_C13 i)) = all_assign (fst (inner_C13 i)) /\
  restated_attrs (fst (model_C13 i)) = restated_attrs (fst (inner_C13 i)) /\
  (forall s, In s (fst (model_C13 i)) -> noop s = true \/ In s (fst (inner_C13 i))).
Proof.
  destruct (model_shape i) as [ps [qs [Hps [Hqs ->]]]]. cbn [fst snd].
  assert (Hq : forallb noop (match snd (inner_C13 i) with None => qs | Some _ => [] end) = true)
    by (destruct (snd (inner_C13 i)); [reflexivity|exact Hqs]).
  split; [reflexivity|]. split; [|split].
  - unfold all_assign. rewrite !flat_map_app. fold (all_assign ps).
    fold (all_assign (match snd (inner_C13 i) with None => qs | Some _ => [] end)).
    rewrite (all_assign_noop _ Hps), (all_assign_noop _ Hq), app_nil_r. reflexivity.
  - unfold restated_attrs. rewrite !flat_map_app. fold (restated_attrs ps).
    fold (restated_attrs (match snd (inner_C13 i) with None => qs | Some _ => [] end)).
    rewrite (restated_noop _ Hps), (restated_noop _ Hq), app_nil_r. reflexivity.
  - intros s Hs. rewrite !in_app_iff in Hs. destruct Hs as [Hs|[Hs|Hs]]; [left|right; exact Hs|left].
    + rewrite forallb_forall in Hps. auto.
    + rewrite forallb_forall in Hq. auto.
Qed.

Lemma run_model i st0 : run_total (fst (model_C13 i)) st0 = run_total (fst (inner_C13 i)) st0.
Proof. rewrite !run_flat. destruct (model_facts i) as [_ [-> _]]. reflexivity. Qed.

Lemma stated_enough_model i st0 :
  stated_enough (fst (model_C13 i)) (i_req i) (i_ex i) st0 <-> stated_enough (fst (inner_C13 i)) (i_req i) (i_ex i) st0.
Proof. rewrite !stated_enough_attrs. destruct (model_facts i) as [_ [_ [-> _]]]. tauto. Qed.

Theorem raises_iff_unsupported i : isSome (snd (model_C13 i)) = unsupported i.
Proof. destruct (model_facts i) as [-> _]. apply raises_iff_unsupported_inner. Qed.

Theorem effect_total i ss st0 :
  plain_defaults i = true -> autoinc_honoured i = true -> model_C13 i = (ss, None) -> matches (i_ex i) st0 ->
  stated_enough ss (i_req i) (i_ex i) st0 -> run_total ss st0 = override st0 (i_req i).
Proof.
  intros Hp Ha H Hm He.
  assert (Hf : fst (model_C13 i) = ss) by (rewrite H; reflexivity).
  assert (Hs : snd (inner_C13 i) = None) by (destruct (model_facts i) as [<- _]; rewrite H; reflexivity).
  rewrite <- Hf in He |- *. rewrite run_model. apply stated_enough_model in He.
  destruct (inner_C13 i) as [ss' e'] eqn:Hi. cbn [fst snd] in *. subst e'.
  eapply effect_all_inner; eauto.
Qed.

(* ---- addressing at the toimpl level: DROP CONSTRAINT names no column; ADD CONSTRAINT comes after the
   impl-level call, i.e. after a rename, and names the NEW column name *)
Definition pre_stmts (i:c13_in) : list stmt :=
  match e_type (i_ex i), r_type (i_req i) with
  | Some et, Some _ => match ty_ck et with
                       | Some k => match i_d i with Dmysql | Dmariadb | Dsqlite => [] | _ => [DropConstraint k] end
                       | None => [] end
  | _, _ => []
  end.
Definition post_stmts (i:c13_in) : list stmt :=
  match ck_of (r_type (i_req i)) with
  | Some k => match i_d i with Dsqlite => [] | _ => [AddConstraint (match r_name (i_req i) with Some n => n | None => e_name (i_ex i) end) k] end
  | None => []
  end.

Lemma model_shape_x i :
  model_C13 i = (pre_stmts i ++ fst (inner_C13 i) ++ (match snd (inner_C13 i) with None => post_stmts i | Some _ => [] end),
                 snd (inner_C13 i)).
Proof.
  unfold model_C13, inner_C13, plan, toimpl_alter_column, pre_stmts, post_stmts.
  assert (Hpre : match e_type (i_ex i), r_type (i_req i) with
                 | Some et, Some _ => match ty_ck et with Some k => drop_constraint (i_d i) k | None => ret end
                 | _, _ => ret end
               = (match e_type (i_ex i), r_type (i_req i) with
                  | Some et, Some _ => match ty_ck et with
                       | Some k => match i_d i with Dmysql | Dmariadb | Dsqlite => [] | _ => [DropConstraint k] end
                       | None => [] end
                  | _, _ => [] end, None)).
  { destruct (e_type (i_ex i)) as [et|], (r_type (i_req i)) as [rt|]; try reflexivity.
    destruct (ty_ck et); [|reflexivity]. destruct (i_d i); reflexivity. }
  assert (Hpost : match ck_of (r_type (i_req i)) with Some k => add_constraint (i_d i) (match r_name (i_req i) with Some n => n | None => e_name (i_ex i) end) k | None => ret end
               = (match ck_of (r_type (i_req i)) with
                  | Some k => match i_d i with Dsqlite => [] | _ => [AddConstraint (match r_name (i_req i) with Some n => n | None => e_name (i_ex i) end) k] end
                  | None => [] end, None)).
  { destruct (ck_of (r_type (i_req i))); [|reflexivity]. destruct (i_d i); reflexivity. }
  rewrite Hpre, Hpost.
  destruct (alter_column (i_d i) (i_req i) (i_ex i)) as [ss [e|]]; cbn; rewrite ?app_nil_r, <- ?app_assoc; reflexivity.
Qed.

Lemma addr_model i : plain_defaults i = true -> addr_ok (e_name (i_ex i)) (fst (model_C13 i)) = true.
Proof.
  intros Hp. rewrite model_shape_x in *. cbn [fst snd] in *.
  destruct (addr_inner i Hp) as [Hok Hfin].
  assert (Hpre : addr_ok (e_name (i_ex i)) (pre_stmts i) = true /\
                 fold_left name_after (pre_stmts i) (e_name (i_ex i)) = e_name (i_ex i)).
  { unfold pre_stmts. destruct (e_type (i_ex i)), (r_type (i_req i)); try (split; reflexivity).
    destruct (ty_ck t); [|split; reflexivity]. destruct (i_d i); split; reflexivity. }
  destruct Hpre as [Hp1 Hp2].
  rewrite addr_ok_app, Hp1, Hp2, addr_ok_app, Hok. cbn [andb].
  destruct (snd (inner_C13 i)) as [e|] eqn:Hs; [reflexivity|].
  rewrite (Hfin eq_refl). unfold post_stmts.
  destruct (ck_of (r_type (i_req i))) as [k|]; [|reflexivity].
  destruct (i_d i); try reflexivity; cbn [addr_ok addr andb]; rewrite N.eqb_refl; reflexivity.
Qed.

Theorem effect_all i ss st0 :
  inclass_C13 i = true -> model_C13 i = (ss, None) -> matches (i_ex i) st0 ->
  stated_enough ss (i_req i) (i_ex i) st0 -> run ss st0 = Some (override st0 (i_req i)).
Proof.
  unfold inclass_C13. rewrite andb_true_iff. intros [Ha Hp] H Hm He.
  rewrite run_spec, (matches_name0 _ _ Hm).
  assert (Hf : fst (model_C13 i) = ss) by (rewrite H; reflexivity).
  rewrite <- Hf at 1. rewrite (addr_model i Hp). f_equal. eapply effect_total; eauto.
Qed.

Theorem no_invention_all i ss e :
  plain_defaults i = true -> model_C13 i = (ss, e) -> no_invention (i_req i) (i_ex i) ss.
Proof.
  intros Hp H s v w Hs Hv Hr Hst.
  assert (Hf : fst (model_C13 i) = ss) by (rewrite H; reflexivity). rewrite <- Hf in Hs.
  destruct (model_facts i) as [_ [_ [_ Hin]]]. destruct (Hin s Hs) as [Hn|Hn].
  - destruct s; try discriminate Hn; destruct Hv.
  - destruct (inner_C13 i) as [ss' e'] eqn:Hi. cbn [fst] in Hn.
    eapply (no_invention_all_inner i Hp ss' e' Hi); eauto.
Qed.

Theorem raises_instead_all i ss e :
  plain_defaults i = true -> model_C13 i = (ss, Some e) ->
  unsupported i = true /\
  forall st0, matches (i_ex i) st0 -> stated_enough ss (i_req i) (i_ex i) st0 ->
    exists st', run ss st0 = Some st' /\
    forall a, get a st' = get a st0 \/ get a st' = get a (override st0 (i_req i)).
Proof.
  intros Hp H.
  assert (Hf : fst (model_C13 i) = ss) by (rewrite H; reflexivity).
  assert (Hsm : snd (model_C13 i) <> None) by (rewrite H; discriminate).
  assert (Hs : snd (inner_C13 i) = Some e) by (destruct (model_facts i) as [<- _]; rewrite H; reflexivity).
  destruct (inner_C13 i) as [ss' e'] eqn:Hi. cbn [snd] in Hs. subst e'.
  destruct (raises_instead_all_inner i Hp ss' e Hi) as [Hu Hq]. split; [exact Hu|].
  intros st0 Hm He. exists (run_total ss st0). split.
  - rewrite run_spec, (matches_name0 _ _ Hm). rewrite <- Hf at 1. rewrite (addr_model i Hp). reflexivity.
  - intros a. rewrite <- Hf in He |- *. rewrite run_model, Hi. cbn [fst].
    apply Hq; auto. apply stated_enough_model in He. rewrite Hi in He. exact He.
Qed.

Theorem type_given_all i ss e :
  plain_defaults i = true -> model_C13 i = (ss, e) -> type_given (i_req i) (i_ex i) ss.
Proof.
  intros Hp H s Hs Ha.
  assert (Hf : fst (model_C13 i) = ss) by (rewrite H; reflexivity).
  apply (restated_inner_type i Hp).
  destruct (model_facts i) as [_ [_ [<- _]]]. rewrite Hf. unfold restated_attrs. apply in_flat_map. eauto.
Qed.

Lemma map_snd_tag (t:target) ss : map snd (map (fun s : stmt => (t, s)) ss) = ss.
Proof. induction ss as [|s r IH]; [reflexivity|]. cbn. rewrite IH. reflexivity. Qed.

Theorem model_holds_partial i : inclass_C13 i = true -> C13_holds i (tagged_C13 i).
Proof.
  intros Ha. assert (Hp : plain_defaults i = true) by (unfold inclass_C13 in Ha; apply andb_true_iff in Ha; tauto).
  unfold tagged_C13. destruct (model_C13 i) as [ss e] eqn:H. cbn [fst snd]. unfold C13_holds.
  rewrite map_snd_tag. split.
  { intros ts Hin. apply in_map_iff in Hin. destruct Hin as [s [<- _]]. reflexivity. }
  split; [eapply no_invention_all; eauto|].
  split; [eapply type_given_all; eauto|].
  destruct e as [e|].
  - apply raises_instead_all in H; [exact H|exact Hp].
  - split.
    + rewrite <- raises_iff_unsupported, H. reflexivity.
    + intros st0 Hm He. eapply effect_all; eauto.
Qed.

(* toimpl's own statements never touch the six attributes *)
Theorem toimpl_frame i st0 : run_total (fst (model_C13 i)) st0 = run_total (fst (inner_C13 i)) st0.
Proof. apply run_model. Qed.

Theorem autoinc_ignored i st0 st' :
  plain_defaults i = true ->
  is_mysql (i_d i) = false -> run (fst (model_C13 i)) st0 = Some st' -> c_autoinc st' = c_autoinc st0.
Proof.
  intros Hp Hd Hr. rewrite run_spec in Hr. destruct (addr_ok (c_name st0) (fst (model_C13 i))); [|discriminate Hr].
  injection Hr as <-. rewrite run_model. pose proof (get_run AAutoinc (fst (inner_C13 i)) st0) as H.
  rewrite (autoinc_never_assigned_inner i Hp Hd) in H. cbn in H. congruence.
Qed.

Lemma matches_plain : matches ex_nothing st_plain.
Proof. intros a v. destruct a; cbn; intros E; try discriminate E. injection E as <-. reflexivity. Qed.

Theorem autoinc_refuted d sch :
  is_mysql d = false ->
  inclass_C13 (mkIn d sch req_autoinc_only ex_nothing) = false /\
  tagged_C13 (mkIn d sch req_autoinc_only ex_nothing) = ([], None) /\
  ~ C13_holds (mkIn d sch req_autoinc_only ex_nothing) (tagged_C13 (mkIn d sch req_autoinc_only ex_nothing)).
Proof.
  intros Hd.
  assert (M : tagged_C13 (mkIn d sch req_autoinc_only ex_nothing) = ([], None))
    by (destruct d; try discriminate Hd; reflexivity).
  split; [destruct d; try discriminate Hd; reflexivity|]. split; [exact M|].
  rewrite M. unfold C13_holds. intros [_ [_ [_ [_ H]]]].
  specialize (H st_plain matches_plain).
  assert (He : stated_enough [] req_autoinc_only ex_nothing st_plain) by (intros s a []).
  specialize (H He). discriminate H.
Qed.

Theorem stated_enough_exact i st0 :
  plain_defaults i = true ->
  stated_enough (fst (model_C13 i)) (i_req i) (i_ex i) st0 <-> existing_needed i st0.
Proof. intros Hp. rewrite stated_enough_model. apply stated_enough_exact_inner. exact Hp. Qed.

Local Open Scope N_scope.

(* ---------------------------------------------------------------- minimality witnesses *)
Definition T0 := mkTy 10 false None.
Definition T1 := mkTy 11 false None.
Definition req_type_only : request := mkReq (Some T1) None TFalse None TFalse None None KPlain.

Ltac matches_tac := intros a v; destruct a; cbn; intros E; try discriminate E; injection E as <-; reflexivity.
Ltac unknown_tac :=
  unfold unknown_only_at; split; [matches_tac|split; [|split; [reflexivity|]]];
  [ intros b Hb Hr; destruct b; try (exfalso; apply Hb; reflexivity); cbn in Hr; try discriminate Hr;
    first [left; cbn; discriminate | right; reflexivity]
  | intros [K|K]; cbn in K; congruence ].
Ltac witness i st0 :=
  exists i, st0; split; [reflexivity|split; [reflexivity|split; [unknown_tac|split; [reflexivity|]]]];
  eexists; split; [vm_compute; reflexivity|vm_compute; intros E; discriminate E].

Theorem stated_enough_minimal :
  needed_witness Dmysql ANull /\ needed_witness Dmysql ADefault /\ needed_witness Dmysql AComment /\
  needed_witness Dmysql AAutoinc /\
  needed_witness Dmariadb ANull /\ needed_witness Dmariadb ADefault /\ needed_witness Dmariadb AComment /\
  needed_witness Dmariadb AAutoinc /\
  needed_witness Dmssql ANull.
Proof.
  repeat split.
  - witness (mkIn Dmysql tN req_type_only ex_nothing) (mkCol 1 T0 false None None false).
  - witness (mkIn Dmysql tN req_type_only ex_nothing) (mkCol 1 T0 true (Some 7) None false).
  - witness (mkIn Dmysql tN req_type_only ex_nothing) (mkCol 1 T0 true None (Some 30) false).
  - witness (mkIn Dmysql tN req_type_only ex_nothing) (mkCol 1 T0 true None None true).
  - witness (mkIn Dmariadb tN req_type_only ex_nothing) (mkCol 1 T0 false None None false).
  - witness (mkIn Dmariadb tN req_type_only ex_nothing) (mkCol 1 T0 true (Some 7) None false).
  - witness (mkIn Dmariadb tN req_type_only ex_nothing) (mkCol 1 T0 true None (Some 30) false).
  - witness (mkIn Dmariadb tN req_type_only ex_nothing) (mkCol 1 T0 true None None true).
  - witness (mkIn Dmssql tN req_type_only ex_nothing) (mkCol 1 T0 false None None false).
Qed.

(* ---------------------------------------------------------------- non-vacuity *)
Definition nv_in : c13_in :=
  mkIn Dmysql tS (mkReq None (Some false) TFalse (Some 2) TFalse None None KPlain)
       (mkEx 1 (Some T0) (Some true) (TSome 7) (Some 30) (Some true) KPlain).
Definition nv_st : colstate := mkCol 1 T0 true (Some 7) (Some 30) true.

Lemma effect_nonvacuous :
  exists ss, inclass_C13 nv_in = true /\ model_C13 nv_in = (ss, None) /\ matches (i_ex nv_in) nv_st /\
             stated_enough ss (i_req nv_in) (i_ex nv_in) nv_st /\ run ss nv_st <> Some nv_st.
Proof.
  eexists. split; [reflexivity|]. split; [vm_compute; reflexivity|]. split; [matches_tac|]. split.
  - intros s a _ _ _. left. destruct a; cbn; discriminate.
  - vm_compute. intros E; discriminate E.
Qed.

Definition nv_raise : c13_in :=
  mkIn Dmssql tN (mkReq (Some T1) (Some false) TFalse None (TSome 31) None None KPlain) ex_nothing.
Lemma raises_nonvacuous : model_C13 nv_raise = ([MSSQLAlterNull 1 T1 false], Some CompileError).
Proof. reflexivity. Qed.

(* the decider accepts the model's output, and rejects: a wrong restated value, the comment statement placed
   after the rename (it names a column that no longer exists), a statement on another schema *)
Definition nv_order : c13_in :=
  mkIn Dpostgresql tS (mkReq None None TFalse (Some 2) (TSome 31) None None KPlain) ex_nothing.
Lemma decider_nonvacuous :
  check_C13 nv_in (tagged_C13 nv_in) = true /\ check_C13 nv_raise (tagged_C13 nv_raise) = true /\
  check_C13 nv_in ([(tS, MySQLChange 1 2 (mkSpec T0 false true None (Some 30)))], None) = false /\
  check_C13 nv_order ([(tS, SetComment 1 (Some 31)); (tS, Rename 1 2)], None) = true /\
  check_C13 nv_order ([(tS, Rename 1 2); (tS, SetComment 1 (Some 31))], None) = false /\
  check_C13 nv_order ([(tS, SetComment 1 (Some 31)); (tN, Rename 1 2)], None) = false.
Proof. vm_compute. auto 10. Qed.

(* ---------------------------------------------------------------- Identity / Computed defaults: examples and a refutation *)
Definition ex_identity : existing := mkEx 1 None None (TSome 70) None None KIdentity.
Definition req_identity : request := mkReq None None (TSome 71) None TFalse None None KIdentity.
Definition req_plain_default : request := mkReq None None (TSome 9) None TFalse None None KPlain.
Definition st_identity : colstate := mkCol 1 (mkTy 0 false None) true (Some 70) None false.

Lemma identity_examples :
  model_C13 (mkIn Dpostgresql tN req_identity ex_identity) = ([AlterIdentity 1 71 false], None) /\
  model_C13 (mkIn Dpostgresql tN req_identity ex_nothing) = ([AlterIdentity 1 71 true], None) /\
  model_C13 (mkIn Doracle tN req_identity ex_identity) = ([AddIdentity 1 71], None) /\
  model_C13 (mkIn Dmssql tN req_identity ex_identity) = ([], Some CompileError) /\
  model_C13 (mkIn Dmysql tN (mkReq None None TFalse (Some 2) TFalse None None KPlain)
                   (mkEx 1 (Some T0) None (TSome 80) None None KComputed)) = ([], Some OtherErr) /\
  check_C13 (mkIn Dpostgresql tN req_identity ex_identity) (tagged_C13 (mkIn Dpostgresql tN req_identity ex_identity)) = true.
Proof. repeat split; reflexivity. Qed.

(* FINDING: on PostgreSQL a plain server_default requested for a column whose stated existing default is an
   Identity goes through the identity SET loop, which finds nothing to set: an empty ALTER COLUMN is emitted,
   the requested default is not applied and nothing is raised *)
Theorem pg_plain_default_on_identity_refuted :
  inclass_C13 (mkIn Dpostgresql tN req_plain_default ex_identity) = false /\
  tagged_C13 (mkIn Dpostgresql tN req_plain_default ex_identity) = ([(tN, AlterIdentityEmpty 1)], None) /\
  ~ C13_holds (mkIn Dpostgresql tN req_plain_default ex_identity) (tagged_C13 (mkIn Dpostgresql tN req_plain_default ex_identity)).
Proof.
  split; [reflexivity|]. split; [reflexivity|].
  assert (M : tagged_C13 (mkIn Dpostgresql tN req_plain_default ex_identity) = ([(tN, AlterIdentityEmpty 1)], None)) by reflexivity.
  rewrite M. unfold C13_holds. intros [_ [_ [_ [_ H]]]].
  assert (Hm : matches ex_identity st_identity).
  { intros a v. destruct a; cbn; intros E; try discriminate E; injection E as <-; reflexivity. }
  assert (He : stated_enough (map snd [(tN, AlterIdentityEmpty 1)]) req_plain_default ex_identity st_identity)
    by (intros s a [<-|[]] []).
  specialize (H st_identity Hm He). vm_compute in H. discriminate H.
Qed.
