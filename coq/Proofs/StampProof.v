(* Proofs for C05: decider soundness, single target / base / purge, the multi-target refutation. *)
From AV Require Import Model.Heads Model.Stamp Spec.C03 Spec.C05 Proofs.C03Graph Proofs.HeadsProof.
From Coq Require Import Permutation.

(* ================================================================== A. reachability computations *)
Lemma closure_d_spec G l : exists A, closure_d G l = Some A /\ forall z, In z A <-> exists t, In t l /\ path (all_down G) t z.
Proof. apply closure_spec. Qed.
Lemma closure_u_spec G l : wf_refs G ->
  exists A, closure_u G l = Some A /\ forall z, In z A <-> exists t, In t l /\ path (all_down G) z t.
Proof. intros WF. destruct (reach_set_spec (all_nextrev G) G l) as [A [E S]]. { intros x Hx. apply all_nextrev_out; auto. }
  exists A. split; auto. intros z. rewrite S. destruct WF as [ND _].
  split; intros [t [Ht P]]; exists t; split; auto; apply (path_up_down G t z ND); auto. Qed.

Definition lin (G:graph) (t h:N) : Prop := path (all_down G) t h \/ path (all_down G) h t.
Lemma lineage_lin G R h : lineage G R h <-> exists t, In t R /\ lin G t h.
Proof. reflexivity. Qed.

Lemma antichainb_spec G l : antichainb G l = true -> antichain G l.
Proof. unfold antichainb, antichain. rewrite forallb_forall. intros H x y Hx Hy Hne P. specialize (H x Hx).
  destruct (closure_d_spec G [x]) as [A [E S]]. rewrite E in H. rewrite forallb_forall in H. specialize (H y Hy).
  apply orb_true_iff in H. destruct H as [H|H]. { apply N.eqb_eq in H. congruence. }
  apply negb_true_iff, memN_nIn in H. apply H. apply S. exists x. split; [left|]; auto. Qed.

(* ================================================================== B. decider soundness *)
Lemma lineageb_spec G R h : wf_refs G -> (lineageb G R h = true <-> lineage G R h).
Proof. intros WF. unfold lineageb. destruct (closure_d_spec G [h]) as [a [Ea Sa]]. destruct (closure_u_spec G [h] WF) as [d [Ed Sd]].
  rewrite Ea, Ed. rewrite negb_true_iff, is_nil_false. split.
  - intros Hne. destruct (interN R (a ++ d)) as [|t l] eqn:E; [congruence|].
    assert (Ht : In t (interN R (a ++ d))) by (rewrite E; left; auto). apply interN_In in Ht. destruct Ht as [HtR Ht].
    exists t. split; auto. apply in_app_or in Ht. destruct Ht as [Ht|Ht].
    + apply Sa in Ht. destruct Ht as [h' [[<-|[]] P]]. right; auto.
    + apply Sd in Ht. destruct Ht as [h' [[<-|[]] P]]. left; auto.
  - intros [t [HtR [P|P]]] E.
    + assert (Ht : In t (interN R (a ++ d))). { apply interN_In. split; auto. apply in_or_app. right. apply Sd. exists h. split; [left|]; auto. }
      rewrite E in Ht. destruct Ht.
    + assert (Ht : In t (interN R (a ++ d))). { apply interN_In. split; auto. apply in_or_app. left. apply Sa. exists h. split; [left|]; auto. }
      rewrite E in Ht. destruct Ht. Qed.

Lemma one_row5b_spec s : one_row5b s = true -> one_row5 s.
Proof. destruct s; cbn; auto; apply Nat.eqb_eq. Qed.
Lemma obs_fineb_spec o : obs_fineb o = true -> obs_fine o.
Proof. destruct o; cbn; [|discriminate]. rewrite forallb_forall, Forall_forall. intros H x Hx. apply one_row5b_spec; auto. Qed.

Lemma stamped_okb_spec G t H rws' : wf_refs G -> stamped_okb G t H rws' = true -> stamped_ok G t H rws'.
Proof. intros WF. unfold stamped_okb, stamped_ok. rewrite !andb_true_iff. intros [[ND AC] K].
  split; [apply nodupb_NoDup; auto|]. split; [apply antichainb_spec; auto|].
  assert (GEN : fuel_ok G H && seteqN rws' (filter (fun h => negb (lineageb G (targets_of t) h)) H ++ targets_of t) = true ->
                forall x, In x rws' <-> (In x H /\ ~ lineage G (targets_of t) x) \/ In x (targets_of t)).
  { rewrite andb_true_iff, seteqN_spec. intros [_ EQ] x. rewrite EQ, in_app_iff, filter_In, negb_true_iff.
    split; (intros [[Hx Hl]|Hx]; [left; split; auto|right; auto]).
    - intros L. apply (lineageb_spec G _ x WF) in L. congruence.
    - destruct (lineageb G (targets_of t) x) eqn:E; auto. exfalso. apply Hl. apply (lineageb_spec G _ x WF); auto. }
  destruct t; auto. apply is_nil_true; auto. Qed.

Theorem decider_sound5 i o : check_C05 i o = true -> C05_holds i o.
Proof. destruct i as [[[G purge] t] H]. unfold check_C05, C05_holds. intros CK PRE. rewrite PRE in CK.
  unfold pre_C05 in PRE. rewrite !andb_true_iff in PRE. destruct PRE as [[[[[[[W _] _] _] _] _] _] _]. apply wf_refsb_spec in W.
  destruct o as [[steps os]|e]; [|discriminate]. rewrite !andb_true_iff in CK. destruct CK as [[L F] S].
  exists steps, os. split; auto. split; [apply Nat.eqb_eq; auto|]. split.
  - rewrite forallb_forall in F. apply Forall_forall. intros x Hx. apply obs_fineb_spec; auto.
  - apply stamped_okb_spec; auto. Qed.

(* ================================================================== C. the model of _stamp_revs *)
Section Model.
  Variable G : graph.
  Hypothesis W : gwf G.
  Hypothesis WF : wf_refs G.

  Lemma desc_spec l : exists D, reach_set (all_nextrev G) G l = Some D /\ forall z, In z D <-> exists t, In t l /\ path (all_down G) z t.
  Proof. apply (closure_u_spec G l WF). Qed.
  Lemma anc_spec l : exists A, reach_set (norm_down G) G l = Some A /\ forall z, In z A <-> exists t, In t l /\ path (all_down G) t z.
  Proof. destruct (anc_nodes_spec G l) as [A [E S]]. exists A. split; auto. intros z. rewrite S.
    split; intros [t [Ht P]]; exists t; split; auto; [apply norm_path_all|apply all_path_norm]; auto. Qed.

  Lemma inter_nonempty (a b:list N) : negb (is_nil (interN a b)) = true <-> exists x, In x a /\ In x b.
  Proof. rewrite negb_true_iff, is_nil_false. split.
    - destruct (interN a b) as [|x l] eqn:E; [congruence|]. intros _. exists x. apply interN_In. rewrite E. left; auto.
    - intros [x Hx] E. apply interN_In in Hx. rewrite E in Hx. destruct Hx. Qed.

  Lemma shares_lineage_spec h against : exists b, shares_lineage G h against = Some b /\
    (b = true <-> against = [] \/ exists t, In t against /\ lin G t h).
  Proof. unfold shares_lineage. destruct against as [|a0 against'] eqn:EA.
    - exists true. split; auto. split; auto.
    - rewrite <- EA. destruct (desc_spec [h]) as [D [ED SD]]. destruct (anc_spec [h]) as [A [EA' SA]]. rewrite ED, EA'.
      eexists. split; [reflexivity|]. rewrite inter_nonempty. split.
      + intros [t [Ht Hta]]. right. exists t. split; auto. apply in_app_or in Ht. destruct Ht as [Ht|Ht].
        * apply SD in Ht. destruct Ht as [h' [[<-|[]] P]]. left; auto.
        * apply SA in Ht. destruct Ht as [h' [[<-|[]] P]]. right; auto.
      + intros [E|[t [Ht [P|P]]]]; [rewrite EA in E; discriminate| |]; exists t; split; auto; apply in_or_app.
        * left. apply SD. exists h. split; [left|]; auto.
        * right. apply SA. exists h. split; [left|]; auto. Qed.

  Lemma ffl_spec against : forall targets, exists l, filter_for_lineage G targets against = Some l /\
    (forall h, In h l <-> In h targets /\ (against = [] \/ exists t, In t against /\ lin G t h)) /\
    (NoDup targets -> NoDup l).
  Proof. induction targets as [|h r [l [E [S ND]]]].
    - exists []. split; auto. split; [intros h; cbn; tauto|auto].
    - destruct (shares_lineage_spec h against) as [b [Eb Sb]]. cbn [filter_for_lineage]. rewrite Eb, E.
      eexists. split; [reflexivity|]. split.
      + intros x. destruct b.
        * assert (Ch : against = [] \/ exists t, In t against /\ lin G t h) by (apply Sb; auto).
          cbn [In]. rewrite S. split.
          -- intros [<-|[H1 H2]]; auto.
          -- intros [[<-|H1] H2]; auto.
        * rewrite S. cbn [In]. split; [tauto|]. intros [[<-|H1] H2]; auto. apply Sb in H2. discriminate.
      + intros NDt. inversion NDt as [|? ? Hh NDr]; subst. destruct b; [constructor; [rewrite S; tauto|apply ND; auto]|apply ND; auto]. Qed.

  (* one destination *)
  Lemma stamp_dest_spec F t :
    (~ In t F -> forall h1 h2, In h1 F -> In h2 F -> path (all_down G) h1 t -> path (all_down G) t h2 -> False) ->
    exists steps, stamp_dest G F t = Ok steps /\
      ((In t F /\ steps = []) \/
       (~ In t F /\ (exists h, In h F /\ lin G t h) /\ exists up, steps = [StampStep F [t] up false]) \/
       (~ In t F /\ (forall h, In h F -> ~ lin G t h) /\ steps = [StampStep [] [t] true true])).
  Proof. intros AC. unfold stamp_dest. destruct (memN t F) eqn:E.
    - apply memN_In in E. exists []. auto.
    - apply memN_nIn in E. destruct (desc_spec [t]) as [D [ED SD]]. destruct (anc_spec [t]) as [A [EA SA]]. rewrite ED, EA.
      assert (HD : negb (is_nil (interN D F)) = true <-> exists h, In h F /\ path (all_down G) h t).
      { rewrite inter_nonempty. split; intros [h [H1 H2]]; exists h.
        - apply SD in H1. destruct H1 as [t' [[<-|[]] P]]. auto.
        - split; auto. apply SD. exists t. split; [left|]; auto. }
      assert (HA : negb (is_nil (interN A F)) = true <-> exists h, In h F /\ path (all_down G) t h).
      { rewrite inter_nonempty. split; intros [h [H1 H2]]; exists h.
        - apply SA in H1. destruct H1 as [t' [[<-|[]] P]]. auto.
        - split; auto. apply SA. exists t. split; [left|]; auto. }
      destruct (negb (is_nil (interN D F))) eqn:E1; destruct (negb (is_nil (interN A F))) eqn:E2.
      + exfalso. destruct (proj1 HD eq_refl) as [h1 [H1 P1]]. destruct (proj1 HA eq_refl) as [h2 [H2 P2]]. apply (AC E h1 h2); auto.
      + eexists. split; [reflexivity|]. right. left. split; auto. destruct (proj1 HD eq_refl) as [h [H1 P]].
        split; [exists h; split; auto; right; auto|eauto].
      + eexists. split; [reflexivity|]. right. left. split; auto. destruct (proj1 HA eq_refl) as [h [H1 P]].
        split; [exists h; split; auto; left; auto|eauto].
      + eexists. split; [reflexivity|]. right. right. split; auto. split; auto. intros h Hh [P|P].
        * assert (false = true) by (apply HA; eauto). discriminate.
        * assert (false = true) by (apply HD; eauto). discriminate. Qed.
End Model.

(* ================================================================== D. executing StampSteps *)
Lemma subsetN_false a b : subsetN a b = false <-> exists x, In x a /\ ~ In x b.
Proof. unfold subsetN. split.
  - intros H. induction a as [|x a IH]; [discriminate|]. cbn [forallb] in H. apply andb_false_iff in H. destruct H as [H|H].
    + exists x. split; [left; auto|apply memN_nIn; auto].
    + destruct (IH H) as [y [H1 H2]]. exists y. split; [right|]; auto.
  - intros [x [H1 H2]]. destruct (forallb (fun x => memN x b) a) eqn:E; auto. rewrite forallb_forall in E. apply E in H1. apply memN_In in H1. tauto. Qed.

Lemma exec_insert G ord t s : sync s -> ~ In t (heads s) ->
  eff (update_to_step G ord (StampStep [] [t] true true) s) (fun x => x = t \/ In x (heads s)).
Proof. intros Sy Ht. cbn [update_to_step]. unfold stamp_step. cbn [negb andb orb].
  assert (E : subsetN [t] (heads s) = false) by (apply subsetN_false; exists t; split; [left|]; auto).
  rewrite E. cbn [negb]. apply eff_insert; auto. Qed.

Lemma exec_delete G ord h s : sync s -> In h (heads s) ->
  eff (update_to_step G ord (StampStep [h] [] false true) s) (fun x => In x (heads s) /\ x <> h).
Proof. intros Sy Hh. cbn [update_to_step]. unfold stamp_step. cbn [negb andb]. apply eff_delete; auto. Qed.

Lemma exec_move G ord F t up s : sync s -> NoDup F -> F <> [] -> incl F (heads s) -> ~ In t (heads s) ->
  eff (update_to_step G ord (StampStep F [t] up false) s) (fun x => x = t \/ (In x (heads s) /\ ~ In x F)).
Proof. intros Sy ND Hne Hin Ht. cbn [update_to_step]. unfold stamp_step. rewrite andb_false_r. cbn [orb].
  assert (E : subsetN F (heads s) = true) by (apply subsetN_incl; auto). rewrite E. cbn [negb]. rewrite andb_false_r. cbn [andb].
  destruct (Nat.ltb 1 (length F)) eqn:E1.
  - apply eff_replace; auto.
  - cbn [length Nat.ltb Nat.leb]. apply Nat.ltb_ge in E1. destruct F as [|f [|? ?]]; cbn [length] in E1; try congruence; try lia.
    eapply eff_ext; [apply eff_update; auto|].
    + apply Hin. left; auto.
    + intros x. cbv beta. cbn [In]. intuition. Qed.

(* ================================================================== E. single target, base, purge *)
Lemma one_row_5 st : Forall one_row st -> Forall one_row5 st.
Proof. intros H. exact H. Qed.

Section Run.
  Variable G : graph.
  Hypothesis W : gwf G.
  Hypothesis WF : wf_refs G.
  Let ord := fun l : list N => l.

  Lemma start_sync H0 : NoDup H0 -> sync (start H0) /\ forall x, In x (heads (start H0)) <-> In x H0.
  Proof. intros ND. unfold start, sync. cbn [heads rows]. split; [split; [apply dedupe_NoDup|split; auto; intros x; apply dedupe_In]|intros x; apply dedupe_In]. Qed.

  Lemma single_run t H0 : NoDup H0 -> antichain G H0 ->
    exists steps os, stamp_revs G (TIds [t]) H0 = Ok steps /\
      run_cmd G ord steps H0 = (os, Some (final_rows os H0)) /\ length os = length steps /\ Forall obs_fine os /\
      stamped_ok G (TIds [t]) H0 (final_rows os H0).
  Proof. intros ND AC. unfold stamp_revs. cbn [map filtered_heads].
    destruct (ffl_spec G W WF [t] H0) as [l [El [Sl NDl]]]. rewrite El. rewrite app_nil_r.
    set (F := dedupe l).
    assert (HF : forall h, In h F <-> In h H0 /\ lin G t h).
    { intros h. unfold F. rewrite dedupe_In, Sl. split; intros [H1 H2]; split; auto.
      - destruct H2 as [H2|[t' [[<-|[]] H2]]]; [discriminate|auto].
      - right. exists t. split; [left|]; auto. }
    assert (NDF : NoDup F) by apply dedupe_NoDup.
    assert (LIN : forall x, lineage G [t] x <-> lin G t x).
    { intros x. split; [intros [t' [[<-|[]] L]]; auto|intros L; exists t; split; [left|]; auto]. }
    destruct (stamp_dest_spec G W WF F t) as [steps [Es CASES]].
    { intros HtF h1 h2 H1 H2 P1 P2. apply HF in H1, H2. destruct H1 as [H1 _]. destruct H2 as [H2 _].
      destruct (N.eq_dec h1 h2) as [->|Hne].
      - apply HtF. assert (t = h2) by (apply (gwf_antisym G); auto). subst. apply HF. split; auto. left; constructor.
      - apply (AC h1 h2); auto. eapply path_trans; eauto. }
    cbn [stamp_dests bind]. rewrite Es. cbn [bind]. rewrite app_nil_r.
    destruct (start_sync H0 ND) as [Sy0 Hh0].
    exists steps.
    assert (ONE : forall st (S' : N -> Prop), steps = [st] -> eff (update_to_step G ord st (start H0)) S' ->
              (forall x, S' x <-> (In x H0 /\ ~ lin G t x) \/ x = t) ->
              exists os, run_cmd G ord steps H0 = (os, Some (final_rows os H0)) /\ length os = length steps /\
                         Forall obs_fine os /\ stamped_ok G (TIds [t]) H0 (final_rows os H0)).
    { intros st S' -> [s' [stm [E [[N1 [N2 EQ]] [Fo HS]]]]] TG.
      exists [ObsOk (rows s') stm]. unfold run_cmd. cbn [run_steps]. rewrite E. cbn [option_map final_rows length].
      split; auto. split; auto. split; [constructor; [apply one_row_5; auto|constructor]|].
      assert (RW : forall x, In x (rows s') <-> (In x H0 /\ ~ lin G t x) \/ x = t) by (intros x; rewrite <- EQ, HS; apply TG).
      split; auto. split.
      - intros x y Hx Hy Hne P. apply RW in Hx, Hy. destruct Hx as [[Hx Lx]| ->]; destruct Hy as [[Hy Ly]| ->]; try congruence.
        + apply (AC x y); auto.
        + apply Lx. right; auto.
        + apply Ly. left; auto.
      - intros x. cbn [targets_of In]. rewrite RW, LIN. intuition. }
    destruct CASES as [[HtF ->]|[[HtF [[h [HhF Lh]] [up ->]]]|[HtF [NoF ->]]]].
    - (* already there *)
      exists []. unfold run_cmd. cbn [run_steps option_map final_rows start rows length]. split; auto. split; auto. split; auto. split; [constructor|].
      split; auto. split; auto. intros x. cbn [targets_of In]. rewrite LIN. apply HF in HtF. destruct HtF as [HtH _]. split.
      + intros Hx. destruct (N.eq_dec x t) as [->|Hne]; auto. left. split; auto. intros [P|P]; [apply (AC t x)|apply (AC x t)]; auto.
      + intros [[Hx _]|[<-|[]]]; auto.
    - (* the related rows move to t *)
      assert (HtH : ~ In t H0) by (intros Ht; apply HtF; apply HF; split; auto; left; constructor).
      destruct (ONE (StampStep F [t] up false) (fun x => x = t \/ (In x (heads (start H0)) /\ ~ In x F))) as [os K]; auto.
      + apply exec_move; auto.
        * intros E. apply (in_nil (a:=h)). rewrite <- E. exact HhF.
        * intros x Hx. apply Hh0. apply HF in Hx. tauto.
        * rewrite Hh0. auto.
      + intros x. rewrite Hh0, HF. split.
        * intros [->|[Hx Hn]]; auto. left. split; auto.
        * intros [[Hx Hn]| ->]; auto. right. split; auto. tauto.
      + exists os. tauto.
    - (* a new branch *)
      assert (HtH : ~ In t H0) by (intros Ht; apply HtF; apply HF; split; auto; left; constructor).
      destruct (ONE (StampStep [] [t] true true) (fun x => x = t \/ In x (heads (start H0)))) as [os K]; auto.
      + apply exec_insert; auto. rewrite Hh0. auto.
      + intros x. rewrite Hh0. split.
        * intros [->|Hx]; auto. left. split; auto. intros L. apply (NoF x); auto. apply HF. auto.
        * intros [[Hx _]| ->]; auto.
      + exists os. tauto. Qed.

  Lemma run_deletes : forall l s, sync s -> NoDup l -> incl l (heads s) ->
    exists os s', run_steps G ord (map (fun h => StampStep [h] [] false true) l) s = (os, Some s') /\
      length os = length l /\ Forall obs_fine os /\ sync s' /\
      (forall x, In x (heads s') <-> In x (heads s) /\ ~ In x l) /\ final_rows os (rows s) = rows s'.
  Proof. induction l as [|h l IH]; intros s Sy ND Hin.
    - exists [], s. cbn [map run_steps length final_rows]. split; auto. split; auto. split; [constructor|]. split; auto. split; auto.
      intros x. cbn [In]. tauto.
    - inversion ND as [|? ? Hh NDl]; subst.
      destruct (exec_delete G ord h s Sy) as [s1 [stm [E [Sy1 [Fo H1]]]]]. { apply Hin; left; auto. }
      destruct (IH s1 Sy1 NDl) as [os [s' [E' [L [Fi [Sy' [H' Fr]]]]]]].
      { intros x Hx. apply H1. split; [apply Hin; right; auto|]. intros ->; auto. }
      exists (ObsOk (rows s1) stm :: os), s'. cbn [map run_steps]. rewrite E, E'. cbn [length final_rows].
      split; auto. split; auto. split; [constructor; auto; apply one_row_5; auto|]. split; auto. split; auto.
      intros x. rewrite H', H1. cbn [In]. intuition. Qed.

  Lemma base_run H0 : NoDup H0 ->
    exists steps os, stamp_revs G TBase H0 = Ok steps /\
      run_cmd G ord steps H0 = (os, Some (final_rows os H0)) /\ length os = length steps /\ Forall obs_fine os /\
      stamped_ok G TBase H0 (final_rows os H0).
  Proof. intros ND. unfold stamp_revs. cbn [filtered_heads].
    destruct (ffl_spec G W WF [] H0) as [l [El [Sl NDl]]]. rewrite El. rewrite app_nil_r.
    destruct (start_sync H0 ND) as [Sy0 Hh0].
    destruct (run_deletes (dedupe l) (start H0) Sy0 (dedupe_NoDup l)) as [os [s' [E [L [Fi [Sy' [H' Fr]]]]]]].
    { intros x Hx. apply Hh0. rewrite dedupe_In in Hx. apply Sl in Hx. tauto. }
    eexists _, os. split; [reflexivity|]. unfold run_cmd. rewrite E. cbn [option_map]. cbn [start rows] in Fr. rewrite Fr.
    split; auto. split; [rewrite map_length; auto|]. split; auto.
    assert (EM : rows s' = []).
    { destruct (rows s') as [|x r] eqn:ER; auto. exfalso. destruct Sy' as [_ [_ EQ]].
      assert (Hx : In x (heads s')) by (apply EQ; rewrite ER; left; auto). apply H' in Hx. destruct Hx as [Hx Hn].
      apply Hn. rewrite dedupe_In. apply Sl. split; auto. apply Hh0; auto. }
    rewrite EM. split; [constructor|]. split; [intros x y []|reflexivity]. Qed.
End Run.

Lemma pre_C05_facts G purge t H : pre_C05 (G, purge, t, H) = true ->
  wf_refs G /\ NoDup H /\ antichain G H.
Proof. unfold pre_C05. rewrite !andb_true_iff. intros [[[[[[[W ND] _] AC] _] _] _] _].
  split; [apply wf_refsb_spec; auto|]. split; [apply nodupb_NoDup; auto|apply antichainb_spec; auto]. Qed.

Theorem single_target G purge t H : ~ cyclic (all_down G) -> ndeps_okb G = true ->
  C05_holds (G, purge, TIds [t], H) (model_C05 (G, purge, TIds [t], H)).
Proof. intros AC NK PRE. destruct (pre_C05_facts _ _ _ _ PRE) as [WF [ND AN]].
  pose proof (gwf_of G WF AC NK) as W.
  set (H0 := if purge then [] else H).
  assert (ND0 : NoDup H0) by (unfold H0; destruct purge; [constructor|auto]).
  assert (AN0 : antichain G H0) by (unfold H0; destruct purge; [intros x y []|auto]).
  destruct (single_run G W WF t H0 ND0 AN0) as [steps [os [E1 [E2 [L [F S]]]]]].
  exists steps, os. unfold model_C05, stamp. fold H0. rewrite E1, E2. auto. Qed.

Theorem base_target G purge H : ~ cyclic (all_down G) -> ndeps_okb G = true ->
  C05_holds (G, purge, TBase, H) (model_C05 (G, purge, TBase, H)).
Proof. intros AC NK PRE. destruct (pre_C05_facts _ _ _ _ PRE) as [WF [ND AN]].
  pose proof (gwf_of G WF AC NK) as W.
  set (H0 := if purge then [] else H).
  assert (ND0 : NoDup H0) by (unfold H0; destruct purge; [constructor|auto]).
  destruct (base_run G W WF H0 ND0) as [steps [os [E1 [E2 [L [F S]]]]]].
  exists steps, os. unfold model_C05, stamp. fold H0. rewrite E1, E2. auto. Qed.

Theorem purge_is_empty_start G t H : stamp G true t H = stamp G false t [].
Proof. reflexivity. Qed.

(* ================================================================== F. several targets: the deviation *)
(* c base; b<-c; a<-c; e<-a; d base depends_on c  (c=0 b=1 a=2 e=3 d=4); rows {a,d}; stamp heads *)
Definition Gw : graph := [mkRev 0 [] [] [] []; mkRev 1 [0] [] [] []; mkRev 2 [0] [] [] []; mkRev 3 [2] [] [] []; mkRev 4 [] [0] [0] []]%N.
Definition iw : c05_in := (Gw, false, THeads [1;3;4]%N, [2;4]%N).

Theorem multi_refuted : exists i, pre_C05 i = true /\ (let '(G, _, _, _) := i in ~ cyclic (all_down G) /\ ndeps_okb G = true) /\
  ~ C05_holds i (model_C05 i).
Proof. exists iw. split; [vm_compute; reflexivity|]. split.
  - split; [apply (rankedb_acyclic Gw N.to_nat); vm_compute; reflexivity|vm_compute; reflexivity].
  - intros Hh. assert (PRE : pre_C05 iw = true) by (vm_compute; reflexivity).
    unfold iw in Hh. cbv beta iota in Hh. specialize (Hh PRE). destruct Hh as [steps [os [E [_ [_ SO]]]]].
    assert (EM : model_C05 (Gw, false, THeads [1;3;4]%N, [2;4]%N) =
                 Ok ([StampStep [] [1%N] true true; StampStep [2;4]%N [3%N] true false],
                     [ObsOk [2;4;1]%N [Ins 1%N]; ObsOk [3;1]%N [Del 2%N 1; Upd 4%N 3%N 1]])) by (vm_compute; reflexivity).
    rewrite EM in E. inversion E; subst. cbn [final_rows] in SO. destruct SO as [_ [_ K]].
    assert (H4 : In 4%N [3;1]%N) by (apply K; right; cbn; auto).
    cbn in H4. intuition discriminate. Qed.

(* ================================================================== G. the statement with the excluding hypothesis: at most one target *)
Lemma heads_single_run G x H0 : permb [x] (real_heads_of G) = true ->
  stamp_revs G (THeads [x]) H0 = stamp_revs G (TIds [x]) H0.
Proof. intros PB. unfold stamp_revs. cbn [map]. destruct (filtered_heads G H0 [[x]]); auto. rewrite PB. reflexivity. Qed.

Theorem at_most_one_target G purge t H : ~ cyclic (all_down G) -> ndeps_okb G = true ->
  length (targets_of t) <= 1 ->
  C05_holds (G, purge, t, H) (model_C05 (G, purge, t, H)).
Proof. intros AC NK LE. destruct t as [|o|l].
  - apply base_target; auto.
  - destruct o as [|x [|? ?]]; [| |cbn in LE; lia].
    + (* no revision at all: nothing to do *)
      intros PRE. destruct (pre_C05_facts _ _ _ _ PRE) as [WF [ND AN]]. pose proof (gwf_of G WF AC NK) as W.
      set (H0 := if purge then [] else H).
      assert (ND0 : NoDup H0) by (unfold H0; destruct purge; [constructor|auto]).
      assert (AN0 : antichain G H0) by (unfold H0; destruct purge; [intros x y []|auto]).
      assert (PB : permb [] (real_heads_of G) = true).
      { unfold pre_C05 in PRE. rewrite !andb_true_iff in PRE. tauto. }
      exists [], []. unfold model_C05, stamp. fold H0. unfold stamp_revs. cbn [filtered_heads].
      destruct (ffl_spec G W WF [] H0) as [l [El _]]. rewrite El, PB. cbn [stamp_dests]. unfold run_cmd. cbn [run_steps option_map].
      split; auto. split; auto. split; [constructor|]. cbn [final_rows]. split; auto. split; auto.
      intros x. cbn [targets_of In]. split; [intros Hx; left; split; auto; intros [t [[] _]]|intros [[Hx _]|[]]; auto].
    + intros PRE.
      assert (PB : permb [x] (real_heads_of G) = true).
      { unfold pre_C05 in PRE. rewrite !andb_true_iff in PRE. tauto. }
      assert (PRE' : pre_C05 (G, purge, TIds [x], H) = true).
      { unfold pre_C05 in *. rewrite !andb_true_iff in *. cbn [targets_of] in *. cbn [is_nil negb]. tauto. }
      pose proof (single_target G purge x H AC NK PRE') as [steps [os [E K]]]. exists steps, os. split; [|exact K].
      rewrite <- E. unfold model_C05, stamp. rewrite heads_single_run; auto.
  - destruct l as [|x [|? ?]]; [| |cbn in LE; lia].
    + intros PRE. unfold pre_C05 in PRE. rewrite !andb_true_iff in PRE. cbn [is_nil negb] in PRE. destruct PRE as [_ PRE]. discriminate.
    + apply single_target; auto. Qed.

(* ================================================================== H. several targets of which at most one shares lineage with a row *)
Section Multi.
  Variable G : graph.
  Hypothesis W : gwf G.
  Hypothesis WF : wf_refs G.
  Let ord := fun l : list N => l.
  Variable H0 R F : list N.
  Hypothesis NDH : NoDup H0.
  Hypothesis ACH : antichain G H0.
  Hypothesis NDF : NoDup F.
  Hypothesis HF : forall h, In h F <-> In h H0 /\ exists t, In t R /\ lin G t h.
  Definition rel (t:N) : Prop := exists h, In h H0 /\ lin G t h.
  (* at most one target shares lineage with a row — or the targets that do are rows themselves (nothing to do for them) *)
  Hypothesis AMO : forall t1 t2, In t1 R -> In t2 R -> rel t1 -> rel t2 -> t1 = t2 \/ (In t1 H0 /\ In t2 H0).

  Definition mv (ds:list N) : Prop := exists t, In t ds /\ ~ In t F /\ exists h, In h F /\ lin G t h.

  Lemma lin_refl t : lin G t t. Proof. left; constructor. Qed.
  Lemma F_H0 h : In h F -> In h H0. Proof. intros Hh. apply HF in Hh. tauto. Qed.
  Lemma rel_of_F t h : In h F -> lin G t h -> rel t. Proof. intros Hh L. exists h. split; auto. apply F_H0; auto. Qed.

  Lemma dest_AC t : ~ In t F -> In t R -> forall h1 h2, In h1 F -> In h2 F -> path (all_down G) h1 t -> path (all_down G) t h2 -> False.
  Proof. intros HtF HtR h1 h2 H1 H2 P1 P2. destruct (N.eq_dec h1 h2) as [->|Hne].
    - apply HtF. assert (t = h2) by (apply (gwf_antisym G); auto). subst. auto.
    - apply (ACH h1 h2); auto using F_H0. eapply path_trans; eauto. Qed.

  Lemma run_dests : forall ds s, sync s -> NoDup ds -> incl ds R ->
    (forall t, In t ds -> In t (heads s) -> In t F) ->
    ((exists t, In t ds /\ rel t) -> incl F (heads s)) ->
    exists steps os s', stamp_dests G F ds = Ok steps /\ run_steps G ord steps s = (os, Some s') /\
      length os = length steps /\ Forall obs_fine os /\ sync s' /\ final_rows os (rows s) = rows s' /\
      forall x, In x (heads s') <-> In x ds \/ (In x (heads s) /\ ~ (In x F /\ mv ds)).
  Proof. induction ds as [|t ds IH]; intros s Sy ND Hin I1 I2.
    - exists [], [], s. cbn [stamp_dests run_steps length final_rows]. split; auto. split; auto. split; auto. split; [constructor|]. split; auto. split; auto.
      intros x. cbn [In]. split; [intros Hx; right; split; auto; intros [_ [t [[] _]]]|intros [[]|[Hx _]]; auto].
    - inversion ND as [|? ? Htds NDds]; subst.
      assert (HtR : In t R) by (apply Hin; left; auto).
      assert (Hin' : incl ds R) by (intros x Hx; apply Hin; right; auto).
      destruct (stamp_dest_spec G W WF F t) as [st [Es CASES]]. { intros HtF. apply dest_AC; auto. }
      cbn [stamp_dests]. rewrite Es. cbn [bind].
      (* no other destination is related once t is *)
      assert (ROWF : forall x, In x R -> In x H0 -> In x F).
      { intros x HxR Hx. apply HF. split; auto. exists x. split; auto. apply lin_refl. }
      assert (NOREL : ~ In t F -> rel t -> forall t', In t' ds -> ~ rel t').
      { intros HtF Rt t' Ht' Rt'. destruct (AMO t' t) as [->|[_ HtH]]; auto. }
      assert (NOMV : rel t -> ~ mv ds).
      { intros Rt [t' [Ht' [Hn [h [Hh L]]]]]. assert (Rt' : rel t') by (eapply rel_of_F; eauto).
        destruct (AMO t' t) as [->|[Ht'H _]]; auto. }
      destruct CASES as [[HtF ->]|[[HtF [[h [HhF Lh]] [up ->]]]|[HtF [NoF ->]]]].
      + (* t already a row *)
        assert (Rt : rel t) by (eapply rel_of_F; eauto using lin_refl).
        assert (Hth : In t (heads s)) by (apply I2; [exists t; split; [left|]; auto|auto]).
        destruct (IH s Sy NDds Hin') as [steps [os [s' [E1 [E2 [L [Fi [Sy' [Fr HS]]]]]]]]].
        { intros t' Ht'. apply I1. right; auto. }
        { intros _. apply I2. exists t. split; [left|]; auto. }
        exists steps, os, s'. rewrite E1. cbn [bind app]. split; auto. split; auto. split; auto. split; auto. split; auto. split; auto.
        intros x. rewrite HS. cbn [In]. pose proof (NOMV Rt) as NM. split.
        * intros [Hx|[Hx _]]; auto. right. split; auto. intros [_ [t' [Ht' [Hn Hh]]]].
          destruct Ht' as [<-|Ht']; [auto|apply NM; exists t'; auto].
        * intros [[<-|Hx]|[Hx _]]; [right|left; exact Hx|right]; (split; [auto|intros [_ MV]; apply NM; exact MV]).
      + (* the related rows move to t *)
        assert (Rt : rel t) by (eapply rel_of_F; eauto).
        assert (HFs : incl F (heads s)) by (apply I2; exists t; split; [left|]; auto).
        assert (Hth : ~ In t (heads s)) by (intros Hh; apply HtF; apply I1; [left|]; auto).
        destruct (exec_move G ord F t up s Sy NDF) as [s1 [stm [E [Sy1 [Fo H1]]]]]; auto.
        { intros E. apply (in_nil (a:=h)). rewrite <- E. exact HhF. }
        destruct (IH s1 Sy1 NDds Hin') as [steps [os [s' [E1 [E2 [L [Fi [Sy' [Fr HS]]]]]]]]].
        { intros t' Ht' Hh'. apply H1 in Hh'. destruct Hh' as [->|[Hh' Hn]]; [tauto|]. exfalso. apply Hn. apply I1; [right|]; auto. }
        { intros [t' [Ht' Rt']]. exfalso. apply (NOREL HtF Rt t' Ht' Rt'). }
        exists (StampStep F [t] up false :: steps), (ObsOk (rows s1) stm :: os), s'. rewrite E1. cbn [bind app run_steps].
        rewrite E, E2. cbn [length final_rows]. split; auto. split; auto. split; auto. split; [constructor; auto; apply one_row_5; auto|]. split; auto. split; auto.
        intros x. rewrite HS, H1. cbn [In]. pose proof (NOMV Rt) as NM.
        assert (MV : mv (t :: ds)) by (exists t; split; [left; auto|split; auto; exists h; auto]).
        split.
        * intros [Hx|[[->|[Hx Hn]] _]]; auto. right. split; auto. intros [HxF _]. exact (Hn HxF).
        * intros [[<-|Hx]|[Hx Hn]].
          -- right. split; [left; reflexivity|intros [_ M]; exact (NM M)].
          -- left. exact Hx.
          -- right. split; [right; split; auto; intros HxF; apply Hn; split; auto|intros [HxF _]; apply Hn; split; auto].
      + (* a new branch *)
        assert (NRt : ~ rel t).
        { intros [h [Hh L]]. apply (NoF h); auto. apply HF. split; auto. exists t. auto. }
        assert (Hth : ~ In t (heads s)) by (intros Hh; apply HtF; apply I1; [left|]; auto).
        destruct (exec_insert G ord t s Sy Hth) as [s1 [stm [E [Sy1 [Fo H1]]]]].
        destruct (IH s1 Sy1 NDds Hin') as [steps [os [s' [E1 [E2 [L [Fi [Sy' [Fr HS]]]]]]]]].
        { intros t' Ht' Hh'. apply H1 in Hh'. destruct Hh' as [->|Hh']; [tauto|]. apply I1; [right|]; auto. }
        { intros [t' [Ht' Rt']]. intros x Hx. apply H1. right. apply I2; auto. exists t'. split; [right|]; auto. }
        exists (StampStep [] [t] true true :: steps), (ObsOk (rows s1) stm :: os), s'. rewrite E1. cbn [bind app run_steps].
        rewrite E, E2. cbn [length final_rows]. split; auto. split; auto. split; auto. split; [constructor; auto; apply one_row_5; auto|]. split; auto. split; auto.
        intros x. rewrite HS, H1. cbn [In].
        assert (MVE : mv (t :: ds) <-> mv ds).
        { split; intros [t' [Ht' [Hn [h [Hh Lh]]]]].
          - destruct Ht' as [<-|Ht']; [exfalso; apply (NoF h); auto|]. exists t'. split; auto. split; auto. exists h; auto.
          - exists t'. split; [right; auto|]. split; auto. exists h; auto. }
        rewrite MVE. split.
        * intros [Hx|[[->|Hx] Hn]]; auto.
        * intros [[<-|Hx]|[Hx Hn]]; auto. right. split; auto. intros [HxF _]. auto. Qed.

  Hypothesis NDR : NoDup R.
  Hypothesis ACR : antichain G R.

  Lemma multi_run : exists steps os, stamp_dests G F R = Ok steps /\
    run_cmd G ord steps H0 = (os, Some (final_rows os H0)) /\ length os = length steps /\ Forall obs_fine os /\
    NoDup (final_rows os H0) /\ antichain G (final_rows os H0) /\
    forall x, In x (final_rows os H0) <-> (In x H0 /\ ~ lineage G R x) \/ In x R.
  Proof. destruct (start_sync H0 NDH) as [Sy0 Hh0].
    destruct (run_dests R (start H0) Sy0 NDR (incl_refl R)) as [steps [os [s' [E1 [E2 [L [Fi [Sy' [Fr HS]]]]]]]]].
    { intros t Ht Hh. apply Hh0 in Hh. apply HF. split; auto. exists t. split; auto. apply lin_refl. }
    { intros _ x Hx. apply Hh0. apply F_H0; auto. }
    exists steps, os. unfold run_cmd. rewrite E2. cbn [option_map]. cbn [start rows] in Fr. rewrite Fr.
    split; auto. split; auto. split; auto. split; auto.
    destruct Sy' as [N1 [N2 EQ]].
    assert (LF : forall x, In x H0 -> (lineage G R x <-> In x F)).
    { intros x Hx. rewrite HF. unfold lineage. split; [intros LL; split; auto|intros [_ LL]; auto]. }
    assert (RW : forall x, In x (rows s') <-> (In x H0 /\ ~ In x F) \/ In x R).
    { intros x. rewrite <- EQ, HS, Hh0. split.
      - intros [Hx|[Hx Hn]]; auto. destruct (in_dec N.eq_dec x F) as [HxF|HxF]; auto. right.
        pose proof HxF as HxF'. apply HF in HxF'. destruct HxF' as [_ [t [Ht Lt]]].
        destruct (in_dec N.eq_dec t F) as [HtF|HtF].
        + assert (x = t); [|subst; auto]. destruct (N.eq_dec x t) as [|Hne]; auto. exfalso.
          destruct Lt as [P|P]; [apply (ACH t x)|apply (ACH x t)]; auto using F_H0.
        + exfalso. apply Hn. split; auto. exists t. split; auto. split; auto. exists x. auto.
      - intros [[Hx Hn]|Hx]; auto. right. split; auto. tauto. }
    split; auto. split.
    - intros x y Hx Hy Hne P. apply RW in Hx, Hy. destruct Hx as [[Hx Fx]|Hx]; destruct Hy as [[Hy Fy]|Hy].
      + apply (ACH x y); auto.
      + apply Fx. apply HF. split; auto. exists y. split; auto. right; auto.
      + apply Fy. apply HF. split; auto. exists x. split; auto. left; auto.
      + apply (ACR x y); auto.
    - intros x. rewrite RW. split; (intros [[Hx Hn]|Hx]; auto; left; split; auto); rewrite (LF x Hx) in *; auto. Qed.
End Multi.

Lemma fh_ids G (W:gwf G) (WF:wf_refs G) H0 : forall R, exists fh, filtered_heads G H0 (map (fun x => [x]) R) = Some fh /\
  forall h, In h fh <-> In h H0 /\ exists t, In t R /\ lin G t h.
Proof. induction R as [|t R [fh [E S]]].
  - exists []. split; auto. intros h. split; [intros []|intros [_ [t [[] _]]]].
  - destruct (ffl_spec G W WF [t] H0) as [l [El [Sl _]]]. exists (l ++ fh). cbn [map filtered_heads]. rewrite El, E. split; auto.
    intros h. rewrite in_app_iff, Sl, S. cbn [In]. split.
    + intros [[Hh K]|[Hh [t' [Ht' L]]]].
      * destruct K as [Ee|[t' [Ht' L]]]; [discriminate|]. destruct Ht' as [<-|[]]. split; auto. exists t. auto.
      * split; auto. exists t'. auto.
    + intros [Hh [t' [[<-|Ht'] L]]].
      * left. split; auto. right. exists t. split; [left|]; auto.
      * right. split; auto. exists t'. auto. Qed.

Lemma pre_C05_targets G purge t H : pre_C05 (G, purge, t, H) = true ->
  NoDup (targets_of t) /\ antichain G (targets_of t) /\
  match t with THeads o => permb o (real_heads_of G) = true | TIds l => l <> [] | TBase => True end.
Proof. unfold pre_C05. rewrite !andb_true_iff. intros [[[[[[[_ _] _] _] ND] _] AC] K].
  split; [apply nodupb_NoDup; auto|]. split; [apply antichainb_spec; auto|]. destruct t; auto.
  apply negb_true_iff in K. apply is_nil_false in K. auto. Qed.

Theorem one_related_target G (purge:bool) t (H:list N) : ~ cyclic (all_down G) -> ndeps_okb G = true ->
  (forall t1 t2, In t1 (targets_of t) -> In t2 (targets_of t) ->
     rel G (if purge then [] else H) t1 -> rel G (if purge then [] else H) t2 ->
     t1 = t2 \/ (In t1 (if purge then [] else H) /\ In t2 (if purge then [] else H))) ->
  C05_holds (G, purge, t, H) (model_C05 (G, purge, t, H)).
Proof. intros AC NK AMO.
  destruct t as [|o|l]; [apply base_target; auto| |].
  - destruct o as [|x o']; [apply at_most_one_target; auto|]. intros PRE.
    destruct (pre_C05_facts _ _ _ _ PRE) as [WF [ND AN]]. destruct (pre_C05_targets _ _ _ _ PRE) as [NDR [ACR PB]].
    pose proof (gwf_of G WF AC NK) as W. cbn [targets_of] in *. set (R := x :: o') in *. set (H0 := if purge then [] else H) in *.
    assert (ND0 : NoDup H0) by (unfold H0; destruct purge; [constructor|auto]).
    assert (AN0 : antichain G H0) by (unfold H0; destruct purge; [intros a b []|auto]).
    destruct (ffl_spec G W WF R H0) as [l [El [Sl _]]].
    assert (HF : forall h, In h (dedupe (l ++ [])) <-> In h H0 /\ exists t, In t R /\ lin G t h).
    { intros h. rewrite dedupe_In, app_nil_r, Sl. split; intros [H1 H2]; split; auto. destruct H2 as [E|H2]; [discriminate|auto]. }
    destruct (multi_run G W WF H0 R (dedupe (l ++ [])) ND0 AN0 (dedupe_NoDup _) HF AMO NDR ACR) as [steps [os [E1 [E2 [L [Fi [N' [A' S']]]]]]]].
    exists steps, os. unfold model_C05, stamp. fold H0. unfold stamp_revs. cbn [filtered_heads]. rewrite El. fold R. rewrite PB, E1, E2.
    split; auto. split; auto. split; auto. split; auto.
  - destruct l as [|x l']. { intros PRE. destruct (pre_C05_targets _ _ _ _ PRE) as [_ [_ K]]. congruence. } intros PRE.
    destruct (pre_C05_facts _ _ _ _ PRE) as [WF [ND AN]]. destruct (pre_C05_targets _ _ _ _ PRE) as [NDR [ACR _]].
    pose proof (gwf_of G WF AC NK) as W. cbn [targets_of] in *. set (R := x :: l') in *. set (H0 := if purge then [] else H) in *.
    assert (ND0 : NoDup H0) by (unfold H0; destruct purge; [constructor|auto]).
    assert (AN0 : antichain G H0) by (unfold H0; destruct purge; [intros a b []|auto]).
    destruct (fh_ids G W WF H0 R) as [fh [Ef Sf]].
    assert (HF : forall h, In h (dedupe fh) <-> In h H0 /\ exists t, In t R /\ lin G t h) by (intros h; rewrite dedupe_In; apply Sf).
    destruct (multi_run G W WF H0 R (dedupe fh) ND0 AN0 (dedupe_NoDup _) HF AMO NDR ACR) as [steps [os [E1 [E2 [L [Fi [N' [A' S']]]]]]]].
    exists steps, os. unfold model_C05, stamp. fold H0. unfold stamp_revs. rewrite Ef, E1, E2.
    split; auto. split; auto. split; auto. split; auto. Qed.

(* the boolean class predicate of Spec/C05.v implies the hypothesis of one_related_target *)
Lemma len_le1_eq (l:list N) a b : length l <= 1 -> In a l -> In b l -> a = b.
Proof. destruct l as [|x [|y l]]; cbn; intros L Ha Hb; try lia; destruct Ha as [<-|[]]; destruct Hb as [<-|[]]; auto. Qed.

Theorem inclass_holds i : inclass_C05 i = true ->
  (let '(G, _, _, _) := i in ~ cyclic (all_down G) /\ ndeps_okb G = true) -> C05_holds i (model_C05 i).
Proof. destruct i as [[[G purge] t] H]. unfold inclass_C05. rewrite !andb_true_iff. intros [PRE LE] [AC NK].
  destruct (pre_C05_facts _ _ _ _ PRE) as [WF _].
  apply one_related_target; auto. intros t1 t2 H1 H2 R1 R2.
  assert (REL : forall t', In t' (targets_of t) -> rel G (if purge then [] else H) t' ->
                In t' (related_targets G (targets_of t) (if purge then [] else H))).
  { intros t' Ht' [h [Hh L]]. unfold related_targets. apply filter_In. split; auto. rewrite negb_true_iff, is_nil_false. intros E.
    assert (Hi : In h (filter (lineageb G [t']) (if purge then [] else H))).
    { apply filter_In. split; auto. apply (lineageb_spec G [t'] h WF). exists t'. split; [left|]; auto. }
    rewrite E in Hi. destruct Hi. }
  apply orb_true_iff in LE. destruct LE as [LE|LE].
  - left. apply Nat.leb_le in LE. apply (len_le1_eq _ t1 t2 LE); apply REL; auto.
  - right. rewrite subsetN_incl in LE. split; apply LE; apply REL; auto. Qed.

(* ================================================================== I. command.stamp end to end *)
Theorem e2e_decider_sound i o : check_e2e i o = true -> E2E_holds i o.
Proof. destruct i as [[[[G purge] groups] dests] H]. unfold check_e2e, E2E_holds. intros CK PRE. rewrite PRE in CK.
  destruct (pre_C05_facts _ _ _ _ PRE) as [WF _]. destruct o as [rws'|e]; [|discriminate].
  exists rws'. split; auto. apply stamped_okb_spec; auto. Qed.

Theorem label_decider_sound i o : check_label i o = true -> Label_holds i o.
Proof. destruct i as [[[G purge] t] H]. unfold check_label, Label_holds.
  destruct (resolve_label G t) as [[groups dests]|e]; auto.
  destruct groups as [|g0 [|? ?]]; auto. destruct g0 as [|lr [|h [|? ?]]]; auto.
  - (* <label>@base *)
    destruct dests; auto. intros CK PRE. rewrite PRE in CK. destruct (pre_C05_facts _ _ _ _ PRE) as [WF _].
    destruct o as [rws'|e]; [|discriminate]. rewrite !andb_true_iff in CK. destruct CK as [[ND AC] EQ].
    exists rws'. split; auto. split; [apply nodupb_NoDup; auto|]. split; [apply antichainb_spec; auto|].
    intros x. rewrite seteqN_spec in EQ. rewrite EQ, filter_In, negb_true_iff. split; intros [Hx Hl]; split; auto.
    + intros L. apply (lineageb_spec G _ x WF) in L. congruence.
    + destruct (lineageb G [lr] x) eqn:E; auto. exfalso. apply Hl. apply (lineageb_spec G _ x WF); auto.
  - (* <label>@head *)
    destruct dests as [[|h' [|? ?]]|]; auto. intros CK PRE. rewrite PRE in CK. destruct (pre_C05_facts _ _ _ _ PRE) as [WF _].
    destruct o as [rws'|e]; [|discriminate]. exists rws'. split; auto. apply stamped_okb_spec; auto.
  - repeat match goal with |- context [match ?x with _ => _ end] => destruct x end; auto. Qed.

Theorem partial_decider_sound i o : check_partial i o = true -> Partial_holds i o.
Proof. destruct i as [[[[G purge] keys] targets] H]. unfold check_partial, Partial_holds.
  destruct (resolve_partials keys targets); auto. apply e2e_decider_sound. Qed.

Lemma each_dbb_spec G purge groups dests : forall dbs rs, each_dbb G purge groups dests dbs rs = true -> each_db G purge groups dests dbs rs.
Proof. induction dbs as [|H dbs IH]; intros [|r rs] E; cbn in *; try discriminate; auto.
  apply andb_true_iff in E. destruct E as [E1 E2]. split; auto. apply (e2e_decider_sound (G, purge, groups, dests, H)); auto. Qed.
Theorem multi_decider_sound i o : check_multi i o = true -> Multi_holds i o.
Proof. destruct i as [[[[G purge] groups] dests] dbs]. unfold check_multi, Multi_holds. intros CK PRE. rewrite PRE in CK.
  destruct o as [rs|e]; [|discriminate]. exists rs. split; auto. apply each_dbb_spec; auto. Qed.

Theorem any_decider_sound i o : check_C05_any i o = true -> C05_any_holds i o.
Proof. destruct i, o; cbn; try discriminate;
  [apply decider_sound5|apply e2e_decider_sound|apply label_decider_sound|apply partial_decider_sound|apply multi_decider_sound]. Qed.

Lemma pre_subset G purge t H : pre_C05 (G, purge, t, H) = true -> subsetN H (ids G) = true.
Proof. unfold pre_C05. rewrite !andb_true_iff. tauto. Qed.

(* a single id or base, with or without --purge, from any table whose rows (after the purge) are a state of the
   domain — in particular from ANY table when --purge is given: the committed rows are (H0 \ lineage t) U {t} *)
Theorem e2e_single G purge t H : ~ cyclic (all_down G) -> ndeps_okb G = true ->
  E2E_holds (G, purge, [[t]], Some [t], H) (model_e2e (G, purge, [[t]], Some [t], H)).
Proof. intros AC NK PRE. cbn [e2e_target] in *. set (H0 := e2e_start purge H) in *.
  destruct (pre_C05_facts _ _ _ _ PRE) as [WF [ND AN]]. pose proof (gwf_of G WF AC NK) as W.
  destruct (single_run G W WF t H0 ND AN) as [steps [os [E1 [E2 [L [F S]]]]]].
  exists (final_rows os H0). split; auto. unfold model_e2e, stamp_cmd. fold (e2e_start purge H). fold H0.
  rewrite (pre_subset _ _ _ _ PRE). cbn [negb].
  change (stamp_revs_gen G [[t]] (Some [t]) H0) with (stamp_revs G (TIds [t]) H0). rewrite E1, E2. reflexivity. Qed.

Theorem e2e_base G purge H : ~ cyclic (all_down G) -> ndeps_okb G = true ->
  E2E_holds (G, purge, [[]], None, H) (model_e2e (G, purge, [[]], None, H)).
Proof. intros AC NK PRE. cbn [e2e_target] in *. set (H0 := e2e_start purge H) in *.
  destruct (pre_C05_facts _ _ _ _ PRE) as [WF [ND AN]]. pose proof (gwf_of G WF AC NK) as W.
  destruct (base_run G W WF H0 ND) as [steps [os [E1 [E2 [L [F S]]]]]].
  exists (final_rows os H0). split; auto. unfold model_e2e, stamp_cmd. fold (e2e_start purge H). fold H0.
  rewrite (pre_subset _ _ _ _ PRE). cbn [negb].
  change (stamp_revs_gen G [[]] None H0) with (stamp_revs G TBase H0). rewrite E1, E2. reflexivity. Qed.

(* --purge from any table at all (rows unknown to the history included): the committed rows are exactly the target *)
Theorem e2e_purge_any_table G t H : ~ cyclic (all_down G) -> ndeps_okb G = true -> wf_refsb G = true -> In t (ids G) ->
  exists rws', model_e2e (G, true, [[t]], Some [t], H) = Ok rws' /\ forall x, In x rws' <-> x = t.
Proof. intros AC NK WFb Ht.
  assert (PRE : pre_C05 (G, false, TIds [t], e2e_start true H) = true).
  { unfold pre_C05. cbn [e2e_start targets_of nodupb memN existsb negb andb subsetN forallb antichainb is_nil]. rewrite WFb. cbn [andb].
    assert (M : memN t (ids G) = true) by (apply memN_In; auto). rewrite M. cbn [andb].
    destruct (closure_d_spec G [t]) as [A [E _]]. rewrite E. rewrite N.eqb_refl. reflexivity. }
  destruct (e2e_single G true t H AC NK PRE) as [rws' [E [_ [_ S]]]]. exists rws'. split; auto.
  cbn [e2e_target e2e_start] in S. intros x. rewrite (S x). cbn [targets_of In]. intuition. Qed.

(* label@head: filter_for_lineage tests the rows against the revision that carries the label AND the head; a row that
   shares lineage only with the labelled revision (here through a depends_on) is folded into the destination.
   c(label) base; a<-c; e<-a; d base depends_on c  (c=0 a=1 e=2 d=3); rows {a,d}; stamp lab@head (= e) -> {e}, not {e,d} *)
Definition Gl : graph := [mkRev 0 [] [] [] []; mkRev 1 [0] [] [] []; mkRev 2 [1] [] [] []; mkRev 3 [] [0] [0] []]%N.
Definition il : e2e_in := (Gl, false, [[0;2]]%N, Some [2]%N, [1;3]%N).
Theorem label_head_refuted :
  pre_C05 (Gl, false, TIds [2]%N, [1;3]%N) = true /\ ~ cyclic (all_down Gl) /\ ndeps_okb Gl = true /\
  ~ E2E_holds il (model_e2e il) /\
  E2E_holds (Gl, false, [[2]]%N, Some [2]%N, [1;3]%N) (model_e2e (Gl, false, [[2]]%N, Some [2]%N, [1;3]%N)).
Proof. split; [vm_compute; reflexivity|]. split; [apply (rankedb_acyclic Gl N.to_nat); vm_compute; reflexivity|].
  split; [vm_compute; reflexivity|]. split.
  - intros Hh. unfold il in Hh. cbv beta iota in Hh. cbn [e2e_target e2e_start] in Hh.
    destruct Hh as [rws' [E [_ [_ K]]]]; [vm_compute; reflexivity|].
    assert (EM : model_e2e (Gl, false, [[0;2]]%N, Some [2]%N, [1;3]%N) = Ok [2]%N) by (vm_compute; reflexivity).
    rewrite EM in E. inversion E; subst rws'.
    assert (H3 : In 3%N [2]%N).
    { apply K. left. split; [cbn; auto|]. intros [t [[<-|[]] L]].
      assert (LB : lineageb Gl [2]%N 3%N = true).
      { apply lineageb_spec; [apply wf_refsb_spec; vm_compute; reflexivity|]. exists 2%N. split; [left|]; auto. }
      vm_compute in LB. discriminate. }
    cbn in H3. intuition discriminate.
  - apply e2e_single; [apply (rankedb_acyclic Gl N.to_nat); vm_compute; reflexivity|vm_compute; reflexivity]. Qed.

(* ================================================================== J. label targets *)
(* <label>@base: always right — exactly the rows sharing lineage with the revision that declares the label go *)
Theorem label_base_holds G purge lab H : ~ cyclic (all_down G) -> ndeps_okb G = true ->
  Label_holds (G, purge, LBase lab, H) (model_label (G, purge, LBase lab, H)).
Proof. intros AC NK. unfold Label_holds, model_label, stamp_label. unfold resolve_label.
  destruct (label_rev G lab) as [lr|]; [|exact I]. intros PRE. set (H0 := e2e_start purge H) in *.
  destruct (pre_C05_facts _ _ _ _ PRE) as [WF [ND AN]]. pose proof (gwf_of G WF AC NK) as W.
  unfold stamp_cmd. fold (e2e_start purge H). fold H0. rewrite (pre_subset _ _ _ _ PRE). cbn [negb].
  unfold stamp_revs_gen. cbn [filtered_heads].
  destruct (ffl_spec G W WF [lr] H0) as [l [El [Sl _]]]. rewrite El, app_nil_r.
  destruct (start_sync H0 ND) as [Sy0 Hh0].
  assert (HF : forall x, In x (dedupe l) <-> In x H0 /\ lineage G [lr] x).
  { intros x. rewrite dedupe_In, Sl. unfold lineage, lin. split.
    - intros [H1 [E|H2]]; [discriminate|auto].
    - intros [H1 H2]. auto. }
  destruct (run_deletes G (dedupe l) (start H0) Sy0 (dedupe_NoDup l)) as [os [s' [E [L [Fi [Sy' [H' Fr]]]]]]].
  { intros x Hx. apply Hh0. apply HF in Hx. tauto. }
  unfold run_cmd. rewrite E. cbn [option_map]. exists (rows s'). split; auto.
  destruct Sy' as [N1 [N2 EQ]]. split; auto.
  assert (RW : forall x, In x (rows s') <-> In x H0 /\ ~ lineage G [lr] x).
  { intros x. rewrite <- EQ, H', Hh0, HF. tauto. }
  split; auto. intros x y Hx Hy. apply RW in Hx, Hy. apply AN; tauto. Qed.

(* <label>@head resolved to the head h: right whenever no row shares lineage with the labelled revision only
   (C05_label_head_refuted is the other side) *)
Theorem label_head_holds G purge lab H lr h h' : ~ cyclic (all_down G) -> ndeps_okb G = true ->
  resolve_label G (LHead lab) = Ok ([[lr; h]], Some [h']) ->
  (forall x, In x (e2e_start purge H) -> lineage G [lr] x -> lineage G [h] x) ->
  Label_holds (G, purge, LHead lab, H) (model_label (G, purge, LHead lab, H)).
Proof. intros AC NK RES CLS. unfold Label_holds, model_label, stamp_label. rewrite RES.
  assert (h' = h).
  { revert RES. unfold resolve_label. destruct (label_rev G lab); [|discriminate].
    destruct (label_heads_of G n (heads_down G)) as [[|a [|? ?]]|]; try discriminate; inversion 1; auto. }
  subst h'. intros PRE. set (H0 := e2e_start purge H) in *.
  destruct (pre_C05_facts _ _ _ _ PRE) as [WF [ND AN]]. destruct (pre_C05_targets _ _ _ _ PRE) as [NDR [ACR _]].
  pose proof (gwf_of G WF AC NK) as W. cbn [targets_of] in *.
  unfold stamp_cmd. fold (e2e_start purge H). fold H0. rewrite (pre_subset _ _ _ _ PRE). cbn [negb].
  unfold stamp_revs_gen. cbn [filtered_heads].
  destruct (ffl_spec G W WF [lr; h] H0) as [l [El [Sl _]]]. rewrite El, app_nil_r.
  assert (HF : forall x, In x (dedupe l) <-> In x H0 /\ exists t, In t [h] /\ lin G t x).
  { intros x. rewrite dedupe_In, Sl. split; intros [H1 H2]; split; auto.
    - destruct H2 as [E|[t [Ht L]]]; [discriminate|]. destruct Ht as [Et|[Et|[]]]; subst t.
      + apply (CLS x H1). exists lr. split; [left|]; auto.
      + exists h. split; [left|]; auto.
    - right. destruct H2 as [t [[Et|[]] L]]. subst t. exists h. split; [right; left|]; auto. }
  destruct (multi_run G W WF H0 [h] (dedupe l) ND AN (dedupe_NoDup l) HF) as [steps [os [E1 [E2 [L [Fi [N' [A' S']]]]]]]]; auto.
  { intros t1 t2 [<-|[]] [<-|[]]; auto. }
  rewrite E1, E2. exists (final_rows os H0). split; auto. split; auto. Qed.

(* what the label resolution returns *)
Lemma label_rev_spec G lab lr : label_rev G lab = Some lr -> exists r, In r G /\ r_id r = lr /\ In lab (r_labels r).
Proof. unfold label_rev. destruct (find (fun r => memN lab (r_labels r)) G) as [r|] eqn:E; [|discriminate].
  inversion 1; subst. apply find_some in E. destruct E as [Hr Hm]. exists r. split; auto. split; auto. apply memN_In; auto. Qed.


(* ================================================================== K. several targets that each share lineage with rows *)
(* _stamp_revs gives every StampStep ALL filtered heads as from_.  The first such step folds all of them into its
   destination; for a LATER destination the from_ rows are gone, `set(self.from_).difference(heads)` is non-empty and
   should_create_branch turns the step into an INSERT — which is right exactly when that destination lies above its rows
   (is_upgrade) and is not itself a row.  So the code is right when no target that shares lineage with a row is a row, and
   every such target except the first (in destination order) has no row above it. *)
Lemma stamp_dest_down G (W:gwf G) (WF:wf_refs G) F t : stamp_dest G F t = Ok [StampStep F [t] false false] ->
  exists h, In h F /\ path (all_down G) h t.
Proof. unfold stamp_dest. destruct (memN t F); [discriminate|].
  destruct (desc_spec G WF [t]) as [D [ED SD]]. destruct (anc_spec G W [t]) as [A [EA SA]]. rewrite ED, EA.
  destruct (negb (is_nil (interN D F))) eqn:E1; destruct (negb (is_nil (interN A F))) eqn:E2; try discriminate.
  intros _. apply inter_nonempty in E1. destruct E1 as [h [H1 H2]]. exists h. split; auto.
  apply SD in H1. destruct H1 as [t' [[<-|[]] P]]. auto. Qed.

Lemma exec_move_gone G ord F t s : sync s -> (exists x, In x F /\ ~ In x (heads s)) -> ~ In t (heads s) ->
  eff (update_to_step G ord (StampStep F [t] true false) s) (fun x => x = t \/ In x (heads s)).
Proof. intros Sy HX Ht. cbn [update_to_step]. unfold stamp_step. cbn [negb andb orb].
  assert (E1 : subsetN F (heads s) = false) by (apply subsetN_false; auto).
  assert (E2 : subsetN [t] (heads s) = false) by (apply subsetN_false; exists t; split; [left|]; auto).
  rewrite E1, E2. cbn [negb andb]. apply eff_insert; auto. Qed.

Section Multi2.
  Variable G : graph.
  Hypothesis W : gwf G.
  Hypothesis WF : wf_refs G.
  Let ord := fun l : list N => l.
  Variable H0 R F : list N.
  Hypothesis NDH : NoDup H0.
  Hypothesis ACH : antichain G H0.
  Hypothesis NDF : NoDup F.
  Hypothesis HF : forall h, In h F <-> In h H0 /\ exists t, In t R /\ lin G t h.
  Definition up_of (t:N) : Prop := forall h, In h H0 -> ~ path (all_down G) h t.
  Definition later_up (ds:list N) : Prop :=
    forall pre t post, ds = pre ++ t :: post -> rel G H0 t -> forall t', In t' post -> rel G H0 t' -> up_of t'.
  (* no target that shares lineage with a row is a row *)
  Hypothesis NR : forall t, In t R -> rel G H0 t -> ~ In t H0.

  Lemma F_H0' h : In h F -> In h H0. Proof. intros Hh. apply HF in Hh. tauto. Qed.
  Lemma dest_AC' t : ~ In t F -> forall h1 h2, In h1 F -> In h2 F -> path (all_down G) h1 t -> path (all_down G) t h2 -> False.
  Proof. intros HtF h1 h2 H1 H2 P1 P2. destruct (N.eq_dec h1 h2) as [->|Hne].
    - apply HtF. assert (t = h2) by (apply (gwf_antisym G); auto). subst. auto.
    - apply (ACH h1 h2); auto using F_H0'. eapply path_trans; eauto. Qed.

  Lemma run_dests2 : forall ds s, sync s -> NoDup ds -> incl ds R ->
    (forall t, In t ds -> ~ In t (heads s)) ->
    (incl F (heads s) \/ (F <> [] /\ (forall x, In x F -> ~ In x (heads s)) /\ forall t, In t ds -> rel G H0 t -> up_of t)) ->
    later_up ds ->
    exists steps os s', stamp_dests G F ds = Ok steps /\ run_steps G ord steps s = (os, Some s') /\
      length os = length steps /\ Forall obs_fine os /\ sync s' /\ final_rows os (rows s) = rows s' /\
      forall x, In x (heads s') <-> In x ds \/ (In x (heads s) /\ ~ (In x F /\ mv G F ds)).
  Proof. induction ds as [|t ds IH]; intros s Sy ND Hin I1 ST LU.
    - exists [], [], s. cbn [stamp_dests run_steps length final_rows]. split; auto. split; auto. split; auto. split; [constructor|]. split; auto. split; auto.
      intros x. cbn [In]. split; [intros Hx; right; split; auto; intros [_ [t [[] _]]]|intros [[]|[Hx _]]; auto].
    - inversion ND as [|? ? Htds NDds]; subst.
      assert (HtR : In t R) by (apply Hin; left; auto).
      assert (Hin' : incl ds R) by (intros x Hx; apply Hin; right; auto).
      assert (Hth : ~ In t (heads s)) by (apply I1; left; auto).
      assert (HtF : ~ In t F).
      { intros HtF. pose proof (F_H0' t HtF) as HtH. apply (NR t HtR); auto. exists t. split; auto. left; constructor. }
      assert (LU' : later_up ds).
      { intros pre t0 post E. apply (LU (t :: pre) t0 post). rewrite E. reflexivity. }
      destruct (stamp_dest_spec G W WF F t) as [st [Es CASES]]. { intros _. apply dest_AC'; auto. }
      cbn [stamp_dests]. rewrite Es. cbn [bind].
      destruct CASES as [[HtF' _]|[[_ [[h [HhF Lh]] [up Est]]]|[_ [NoF ->]]]]; [tauto| |].
      + (* t shares lineage with rows *)
        subst st.
        assert (Rt : rel G H0 t) by (exists h; split; auto; apply F_H0'; auto).
        assert (UPS' : forall t', In t' ds -> rel G H0 t' -> up_of t') by (intros t' Ht'; apply (LU [] t ds eq_refl Rt t' Ht')).
        assert (FNE : F <> []) by (intros E; apply (in_nil (a:=h)); rewrite <- E; exact HhF).
        assert (MV : mv G F (t :: ds)) by (exists t; split; [left; auto|split; auto; exists h; auto]).
        destruct ST as [INT|[_ [GONE UPS]]].
        * (* the rows are still there: they are all folded into t *)
          destruct (exec_move G ord F t up s Sy NDF FNE INT Hth) as [s1 [stm [E [Sy1 [Fo H1]]]]].
          destruct (IH s1 Sy1 NDds Hin') as [steps [os [s' [E1 [E2 [L [Fi [Sy' [Fr HS]]]]]]]]]; auto.
          { intros t' Ht' Hh'. apply H1 in Hh'. destruct Hh' as [->|[Hh' _]]; [tauto|]. apply (I1 t'); [right|]; auto. }
          { right. split; auto. split; auto. intros x Hx Hh'. apply H1 in Hh'. destruct Hh' as [->|[_ Hn]]; auto. }
          exists (StampStep F [t] up false :: steps), (ObsOk (rows s1) stm :: os), s'. rewrite E1. cbn [bind app run_steps].
          rewrite E, E2. cbn [length final_rows]. split; auto. split; auto. split; auto. split; [constructor; auto; apply one_row_5; auto|]. split; auto. split; auto.
          intros x. rewrite HS, H1. cbn [In]. split.
          -- intros [Hx|[[->|[Hx Hn]] _]]; auto. right. split; auto. intros [HxF _]. exact (Hn HxF).
          -- intros [[<-|Hx]|[Hx Hn]].
             ++ right. split; [left; reflexivity|intros [HxF _]; exact (HtF HxF)].
             ++ left. exact Hx.
             ++ right. assert (HnF : ~ In x F) by (intros HxF; apply Hn; split; auto). split; [right; split; auto|intros [HxF _]; exact (HnF HxF)].
        * (* the rows were folded into an earlier destination: this one must be an upgrade and becomes an INSERT *)
          assert (up = true).
          { destruct up; auto. exfalso. destruct (stamp_dest_down G W WF F t Es) as [h' [Hh' P]].
            apply (UPS t (or_introl eq_refl) Rt h'); auto. apply F_H0'; auto. }
          subst up.
          assert (HX : exists x, In x F /\ ~ In x (heads s)) by (exists h; split; auto).
          destruct (exec_move_gone G ord F t s Sy HX Hth) as [s1 [stm [E [Sy1 [Fo H1]]]]].
          destruct (IH s1 Sy1 NDds Hin') as [steps [os [s' [E1 [E2 [L [Fi [Sy' [Fr HS]]]]]]]]]; auto.
          { intros t' Ht' Hh'. apply H1 in Hh'. destruct Hh' as [->|Hh']; [tauto|]. apply (I1 t'); [right|]; auto. }
          { right. split; auto. split; auto. intros x Hx Hh'. apply H1 in Hh'. destruct Hh' as [->|Hh']; auto. apply (GONE x); auto. }
          exists (StampStep F [t] true false :: steps), (ObsOk (rows s1) stm :: os), s'. rewrite E1. cbn [bind app run_steps].
          rewrite E, E2. cbn [length final_rows]. split; auto. split; auto. split; auto. split; [constructor; auto; apply one_row_5; auto|]. split; auto. split; auto.
          intros x. rewrite HS, H1. cbn [In]. split.
          -- intros [Hx|[[->|Hx] _]]; auto. right. split; auto. intros [HxF _]. apply (GONE x); auto.
          -- intros [[<-|Hx]|[Hx _]].
             ++ right. split; [left; reflexivity|intros [HxF _]; exact (HtF HxF)].
             ++ left. exact Hx.
             ++ right. split; [right; auto|intros [HxF _]; apply (GONE x); auto].
      + (* a new branch *)
        destruct (exec_insert G ord t s Sy Hth) as [s1 [stm [E [Sy1 [Fo H1]]]]].
        destruct (IH s1 Sy1 NDds Hin') as [steps [os [s' [E1 [E2 [L [Fi [Sy' [Fr HS]]]]]]]]]; auto.
        { intros t' Ht' Hh'. apply H1 in Hh'. destruct Hh' as [->|Hh']; [tauto|]. apply (I1 t'); [right|]; auto. }
        { destruct ST as [INT|[FNE [GONE UPS]]].
          - left. intros x Hx. apply H1. right. auto.
          - right. split; auto. split.
            + intros x Hx Hh'. apply H1 in Hh'. destruct Hh' as [->|Hh']; auto. apply (GONE x); auto.
            + intros t' Ht'. apply UPS. right; auto. }
        exists (StampStep [] [t] true true :: steps), (ObsOk (rows s1) stm :: os), s'. rewrite E1. cbn [bind app run_steps].
        rewrite E, E2. cbn [length final_rows]. split; auto. split; auto. split; auto. split; [constructor; auto; apply one_row_5; auto|]. split; auto. split; auto.
        intros x. rewrite HS, H1. cbn [In].
        assert (MVE : mv G F (t :: ds) <-> mv G F ds).
        { split; intros [t' [Ht' [Hn [h [Hh Lh]]]]].
          - destruct Ht' as [<-|Ht']; [exfalso; apply (NoF h); auto|]. exists t'. split; auto. split; auto. exists h; auto.
          - exists t'. split; [right; auto|]. split; auto. exists h; auto. }
        rewrite MVE. split.
        * intros [Hx|[[->|Hx] Hn]]; auto.
        * intros [[<-|Hx]|[Hx Hn]]; auto. right. split; auto. intros [HxF _]. auto. Qed.

  Hypothesis NDR : NoDup R.
  Hypothesis ACR : antichain G R.
  Hypothesis LUR : later_up R.

  Lemma multi_run2 : exists steps os, stamp_dests G F R = Ok steps /\
    run_cmd G ord steps H0 = (os, Some (final_rows os H0)) /\ length os = length steps /\ Forall obs_fine os /\
    NoDup (final_rows os H0) /\ antichain G (final_rows os H0) /\
    forall x, In x (final_rows os H0) <-> (In x H0 /\ ~ lineage G R x) \/ In x R.
  Proof. destruct (start_sync H0 NDH) as [Sy0 Hh0].
    destruct (run_dests2 R (start H0) Sy0 NDR (incl_refl R)) as [steps [os [s' [E1 [E2 [L [Fi [Sy' [Fr HS]]]]]]]]]; auto.
    { intros t Ht Hh. apply Hh0 in Hh. apply (NR t Ht); auto. exists t. split; auto. left; constructor. }
    { left. intros x Hx. apply Hh0. apply F_H0'; auto. }
    exists steps, os. unfold run_cmd. rewrite E2. cbn [option_map]. cbn [start rows] in Fr. rewrite Fr.
    split; auto. split; auto. split; auto. split; auto.
    destruct Sy' as [N1 [N2 EQ]].
    assert (LF : forall x, In x H0 -> (lineage G R x <-> In x F)).
    { intros x Hx. rewrite HF. unfold lineage. split; [intros LL; split; auto|intros [_ LL]; auto]. }
    assert (RW : forall x, In x (rows s') <-> (In x H0 /\ ~ In x F) \/ In x R).
    { intros x. rewrite <- EQ, HS, Hh0. split.
      - intros [Hx|[Hx Hn]]; auto. destruct (in_dec N.eq_dec x F) as [HxF|HxF]; auto. exfalso.
        pose proof HxF as HxF'. apply HF in HxF'. destruct HxF' as [_ [t [Ht Lt]]].
        apply Hn. split; auto. exists t. split; auto. split; [|exists x; auto].
        intros HtF. apply (NR t Ht); [exists x; auto|apply F_H0'; auto].
      - intros [[Hx Hn]|Hx]; auto. right. split; auto. tauto. }
    split; auto. split.
    - intros x y Hx Hy Hne P. apply RW in Hx, Hy. destruct Hx as [[Hx Fx]|Hx]; destruct Hy as [[Hy Fy]|Hy].
      + apply (ACH x y); auto.
      + apply Fx. apply HF. split; auto. exists y. split; auto. right; auto.
      + apply Fy. apply HF. split; auto. exists x. split; auto. left; auto.
      + apply (ACR x y); auto.
    - intros x. rewrite RW. split; (intros [[Hx Hn]|Hx]; auto; left; split; auto); rewrite (LF x Hx) in *; auto. Qed.
End Multi2.

Definition amo_class (G:graph) (H0 R:list N) : Prop :=
  forall t1 t2, In t1 R -> In t2 R -> rel G H0 t1 -> rel G H0 t2 -> t1 = t2 \/ (In t1 H0 /\ In t2 H0).
Definition up_class (G:graph) (H0 R:list N) : Prop :=
  (forall t, In t R -> rel G H0 t -> ~ In t H0) /\ later_up G H0 R.

Lemma multi_run_any G (W:gwf G) (WF:wf_refs G) H0 R F : NoDup H0 -> antichain G H0 -> NoDup F ->
  (forall h, In h F <-> In h H0 /\ exists t, In t R /\ lin G t h) -> NoDup R -> antichain G R ->
  amo_class G H0 R \/ up_class G H0 R ->
  exists steps os, stamp_dests G F R = Ok steps /\
    run_cmd G (fun l => l) steps H0 = (os, Some (final_rows os H0)) /\ length os = length steps /\ Forall obs_fine os /\
    NoDup (final_rows os H0) /\ antichain G (final_rows os H0) /\
    forall x, In x (final_rows os H0) <-> (In x H0 /\ ~ lineage G R x) \/ In x R.
Proof. intros NDH ACH NDF HF NDR ACR [C|[C1 C2]].
  - apply multi_run; auto.
  - apply multi_run2; auto. Qed.

Theorem multi_target_holds G (purge:bool) t (H:list N) : ~ cyclic (all_down G) -> ndeps_okb G = true ->
  amo_class G (if purge then [] else H) (targets_of t) \/ up_class G (if purge then [] else H) (targets_of t) ->
  C05_holds (G, purge, t, H) (model_C05 (G, purge, t, H)).
Proof. intros AC NK CLS.
  destruct t as [|o|l]; [apply base_target; auto| |].
  - destruct o as [|x o']; [apply at_most_one_target; auto|]. intros PRE.
    destruct (pre_C05_facts _ _ _ _ PRE) as [WF [ND AN]]. destruct (pre_C05_targets _ _ _ _ PRE) as [NDR [ACR PB]].
    pose proof (gwf_of G WF AC NK) as W. cbn [targets_of] in *. set (R := x :: o') in *. set (H0 := if purge then [] else H) in *.
    assert (ND0 : NoDup H0) by (unfold H0; destruct purge; [constructor|auto]).
    assert (AN0 : antichain G H0) by (unfold H0; destruct purge; [intros a b []|auto]).
    destruct (ffl_spec G W WF R H0) as [l [El [Sl _]]].
    assert (HF : forall h, In h (dedupe (l ++ [])) <-> In h H0 /\ exists t, In t R /\ lin G t h).
    { intros h. rewrite dedupe_In, app_nil_r, Sl. split; intros [H1 H2]; split; auto. destruct H2 as [E|H2]; [discriminate|auto]. }
    destruct (multi_run_any G W WF H0 R (dedupe (l ++ [])) ND0 AN0 (dedupe_NoDup _) HF NDR ACR CLS) as [steps [os [E1 [E2 [L [Fi [N' [A' S']]]]]]]].
    exists steps, os. unfold model_C05, stamp. fold H0. unfold stamp_revs. cbn [filtered_heads]. rewrite El. fold R. rewrite PB, E1, E2.
    split; auto. split; auto. split; auto. split; auto.
  - destruct l as [|x l']. { intros PRE. destruct (pre_C05_targets _ _ _ _ PRE) as [_ [_ K]]. congruence. } intros PRE.
    destruct (pre_C05_facts _ _ _ _ PRE) as [WF [ND AN]]. destruct (pre_C05_targets _ _ _ _ PRE) as [NDR [ACR _]].
    pose proof (gwf_of G WF AC NK) as W. cbn [targets_of] in *. set (R := x :: l') in *. set (H0 := if purge then [] else H) in *.
    assert (ND0 : NoDup H0) by (unfold H0; destruct purge; [constructor|auto]).
    assert (AN0 : antichain G H0) by (unfold H0; destruct purge; [intros a b []|auto]).
    destruct (fh_ids G W WF H0 R) as [fh [Ef Sf]].
    assert (HF : forall h, In h (dedupe fh) <-> In h H0 /\ exists t, In t R /\ lin G t h) by (intros h; rewrite dedupe_In; apply Sf).
    destruct (multi_run_any G W WF H0 R (dedupe fh) ND0 AN0 (dedupe_NoDup _) HF NDR ACR CLS) as [steps [os [E1 [E2 [L [Fi [N' [A' S']]]]]]]].
    exists steps, os. unfold model_C05, stamp. fold H0. unfold stamp_revs. rewrite Ef, E1, E2.
    split; auto. split; auto. split; auto. split; auto. Qed.

(* C05-e's shape: rows {c1,c2}, targets (d1,d2) with d1 above c1 only and d2 above c2 only *)
Definition Ge : graph := [mkRev 0 [] [] [] []; mkRev 1 [] [] [] []; mkRev 2 [0] [] [] []; mkRev 3 [1] [] [] []]%N.

(* ================================================================== L. partial ids, several databases *)
(* a partial id that resolves to t behaves exactly as the full id t *)
Theorem partial_single G purge keys s t H : ~ cyclic (all_down G) -> ndeps_okb G = true ->
  resolve_partial keys s = Ok t ->
  Partial_holds (G, purge, keys, [s], H) (model_partial (G, purge, keys, [s], H)) /\
  model_partial (G, purge, keys, [s], H) = model_e2e (G, purge, [[t]], Some [t], H).
Proof. intros AC NK RES. unfold Partial_holds, model_partial, stamp_partial. cbn [resolve_partials]. rewrite RES. cbn [bind map].
  split; [|reflexivity]. apply (e2e_single G purge t H AC NK). Qed.

(* the prefix rule: what resolve_partial returns is a key of the map that starts with the given string, and the only such
   key longer than 3 characters unless the string is itself a key *)
Lemma startswith_refl k : startswith k k = true.
Proof. induction k as [|c k IH]; cbn; auto. rewrite N.eqb_refl. auto. Qed.
Theorem resolve_partial_spec keys s t : resolve_partial keys s = Ok t ->
  exists k, In (k, t) keys /\ startswith k s = true.
Proof. unfold resolve_partial. destruct (find (fun k => streqb (fst k) s) keys) as [[k x]|] eqn:E.
  - inversion 1; subst. apply find_some in E. destruct E as [Hin Hs]. cbn [fst] in Hs. exists k. split; auto.
    unfold streqb in Hs. apply list_eqbN_eq in Hs. subst. apply startswith_refl.
  - destruct s as [|c s']; [discriminate|].
    destruct (filter (fun k => Nat.ltb 3 (length (fst k)) && startswith (fst k) (c :: s')) keys) as [|[k x] [|? ?]] eqn:EF; try discriminate.
    inversion 1; subst. assert (Hin : In (k, t) (filter (fun k => Nat.ltb 3 (length (fst k)) && startswith (fst k) (c :: s')) keys)) by (rewrite EF; left; auto).
    apply filter_In in Hin. destruct Hin as [Hin Hs]. apply andb_true_iff in Hs. exists k. split; auto. apply Hs. Qed.

(* several databases: the result on database k is the single-database result for its rows *)
Theorem multi_is_pointwise G purge groups dests : forall dbs rs, stamp_multi G purge groups dests dbs = Ok rs ->
  length rs = length dbs /\
  forall k H, nth_error dbs k = Some H -> exists r, nth_error rs k = Some r /\ stamp_cmd G purge groups dests H = Ok r.
Proof. induction dbs as [|H0 dbs IH]; intros rs E; cbn [stamp_multi] in E.
  - inversion E; subst. split; auto. intros [|k] H; discriminate.
  - destruct (stamp_cmd G purge groups dests H0) as [a|e] eqn:E0; cbn [bind] in E; [|discriminate].
    destruct (stamp_multi G purge groups dests dbs) as [b|e] eqn:E1; cbn [bind] in E; [|discriminate]. inversion E; subst.
    destruct (IH b eq_refl) as [L P]. split; [cbn; auto|]. intros [|k] H Hk; cbn in *.
    + inversion Hk; subst. exists a. auto.
    + apply P; auto. Qed.
Theorem multi_holds_single G purge t dbs : ~ cyclic (all_down G) -> ndeps_okb G = true ->
  Multi_holds (G, purge, [[t]], Some [t], dbs) (model_multi (G, purge, [[t]], Some [t], dbs)).
Proof. intros AC NK. unfold Multi_holds, model_multi, all_in_domain. induction dbs as [|H dbs IH]; intros PRE.
  - exists []. cbn. auto.
  - cbn [forallb] in PRE. apply andb_true_iff in PRE. destruct PRE as [P1 P2]. destruct (IH P2) as [rs [E1 E2]].
    destruct (e2e_single G purge t H AC NK P1) as [r [Er Sr]]. unfold model_e2e in Er.
    exists (r :: rs). cbn [stamp_multi]. rewrite Er, E1. cbn [bind each_db]. split; auto. split; auto.
    intros _. exists r. auto. Qed.
Theorem multi_holds_base G purge dbs : ~ cyclic (all_down G) -> ndeps_okb G = true ->
  Multi_holds (G, purge, [[]], None, dbs) (model_multi (G, purge, [[]], None, dbs)).
Proof. intros AC NK. unfold Multi_holds, model_multi, all_in_domain. induction dbs as [|H dbs IH]; intros PRE.
  - exists []. cbn. auto.
  - cbn [forallb] in PRE. apply andb_true_iff in PRE. destruct PRE as [P1 P2]. destruct (IH P2) as [rs [E1 E2]].
    destruct (e2e_base G purge H AC NK P1) as [r [Er Sr]]. unfold model_e2e in Er.
    exists (r :: rs). cbn [stamp_multi]. rewrite Er, E1. cbn [bind each_db]. split; auto. split; auto.
    intros _. exists r. auto. Qed.
