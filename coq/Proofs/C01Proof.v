(* C01: the upgrade planner model returns exactly the missing ancestors in dependency order. *)
From AV Require Import Model.Plan Spec.C01 Spec.C15 Proofs.GraphProof Proofs.CycleProof Proofs.PlanProof.

Lemma acyclicb_spec G : wf_refs G -> (acyclicb G = true <-> ~ cyclic (all_down G)).
Proof. intros WF. pose proof (cyclicb_spec G WF) as H. unfold cyclicb in H. unfold acyclicb.
  destruct (self_loop G); [|destruct (kahn all_down_r G) as [[|]|]]; split; intros; try discriminate; try tauto;
  try (exfalso; apply H0; apply H; reflexivity).
  intros C. apply H in C. discriminate. Qed.

Lemma wf_graphb_spec G : wf_graphb G = true -> wf_refs G /\ ~ cyclic (all_down G) /\ ndeps_ok G.
Proof. unfold wf_graphb. rewrite !andb_true_iff. intros [[H1 H2] H3]. apply wf_refsb_spec in H1.
  split; auto. split; [apply acyclicb_spec; auto|apply ndeps_okb_spec; auto]. Qed.

Lemma linext_spec G : forall plan applied, linext G applied plan = true ->
  forall pre r post, plan = pre ++ r :: post -> forall p, In p (all_down G r) -> In p pre \/ In p applied.
Proof. induction plan as [|a plan IH]; intros applied H pre r post E p Hp.
  - destruct pre; discriminate.
  - cbn [linext] in H. apply andb_true_iff in H. destruct H as [H1 H2]. apply subsetN_incl in H1.
    destruct pre as [|b pre]; simpl in E; inversion E; subst.
    + right. apply H1; auto.
    + destruct (IH _ H2 pre r post eq_refl p Hp) as [H|[<-|H]]; auto; left; [right|left]; auto. Qed.

Section C01.
  Variable G : graph.
  Hypothesis WF : wf_refs G.
  Hypothesis AC : ~ cyclic (all_down G).
  Hypothesis NOK : ndeps_ok G.
  Let ND : NoDup (ids G) := proj1 WF.

  Lemma ancs_spec X : NoDup (ancs G X) /\ forall z, In z (ancs G X) <-> AncOf G X z.
  Proof. unfold ancs, AncOf, Anc. apply (reach_or_nil_spec G WF). apply of_rev_notin. Qed.

  Lemma anc_check_spec X :
    match anc_check G X with
    | POk out => NoDup out /\ forall z, In z out <-> AncOf G X z
    | PErr PEOverlap => Overlapping G X
    | PErr _ => False
    end.
  Proof. unfold anc_check.
    pose proof (iterate_check_spec (norm_down G) (ids G) ND (norm_outside G) (dfs_fuel (norm_down G) G [0%N])) as H.
    assert (1 + edge_count (norm_down G) (ids G) < dfs_fuel (norm_down G) G [0%N]) as Hf by (unfold dfs_fuel; simpl; lia).
    specialize (H Hf X X []). assert (closed (norm_down G) [] []) as C by (intros a b []).
    specialize (H C (NoDup_nil N)).
    destruct (iterate_check _ _ X X []) as [out|e].
    - destruct H as [_ [NDo Ho]]. split; auto. intros z. rewrite Ho. unfold AncOf, Anc. split.
      + intros [[]|[t [Ht P]]]. exists t. split; auto. apply (norm_path_iff G WF AC NOK). exact P.
      + intros [t [Ht P]]. right. exists t. split; auto. apply (norm_path_iff G WF AC NOK). exact P.
    - destruct e; auto. destruct H as [t [p [Ht [Hp [Hne P]]]]]. exists t, p. split; auto. split; auto. split; auto.
      apply (norm_path_iff G WF AC NOK). exact P. Qed.

  Lemma AncOf_self X x : In x X -> AncOf G X x.
  Proof. intros H. exists x. split; auto. constructor. Qed.
  Lemma AncOf_down X x y : AncOf G X x -> Anc G x y -> AncOf G X y.
  Proof. intros [t [Ht P]] A. exists t. split; auto. eapply path_trans; eauto. Qed.

  Theorem upgrade_plan_result T Cur :
    match upgrade_plan G T Cur with
    | POk plan => forall t, ref_agrees G Cur t T = true -> C01_holds (G, t, T, Cur) (POk plan)
    | PErr PEOverlap => Overlapping G T \/ Overlapping G Cur
    | PErr _ => False
    end.
  Proof. unfold upgrade_plan, collect_upgrade.
    pose proof (anc_check_spec T) as HT. destruct (anc_check G T) as [req|e]; [|destruct e; auto].
    pose proof (anc_check_spec Cur) as HC. destruct (anc_check G Cur) as [cur|e]; [|destruct e; auto].
    destruct HT as [NDr Hr]. destruct HC as [NDc Hc].
    set (needs := diffN (dedupe (req ++ T)) (cur ++ Cur)).
    assert (forall z, In z needs <-> AncOf G T z /\ ~ AncOf G Cur z) as Hneeds.
    { intros z. unfold needs. rewrite diffN_In, dedupe_In, !in_app_iff, Hr, Hc. split.
      - intros [[H|H] Hn]; (split; [auto using AncOf_self|]); intros A; apply Hn; auto.
      - intros [H Hn]. split; auto. intros [A|A]; apply Hn; auto using AncOf_self. }
    assert (NoDup needs) as NDn by (apply NoDup_diffN, dedupe_NoDup).
    destruct (topological_sort_correct G WF AC NOK needs T NDn) as [o [Eo [NDo [Hino Hord]]]].
    { intros x y p Hx Hy A1 A2. apply Hneeds in Hx. apply Hneeds in Hy. apply Hneeds. split.
      - eapply AncOf_down; [apply Hx|exact A1].
      - intros A. apply (proj2 Hy). eapply AncOf_down; eauto. }
    { intros y Hy. apply Hneeds in Hy. destruct Hy as [[t [Ht P]] Hn]. exists t. split; auto. split; auto.
      apply Hneeds. split; [apply AncOf_self; auto|]. intros A. apply Hn. eapply AncOf_down; eauto. }
    rewrite Eo. intros t Hrt. cbn [C01_holds]. split; [exact Hrt|]. split; [apply NoDup_rev; auto|]. split.
    - intros r. rewrite <- in_rev, Hino. apply Hneeds.
    - intros pre r post E p Hp.
      assert (Anc G r p) as Arp by (eapply path_step; [exact Hp|constructor]).
      assert (In r needs) as Hrn by (apply Hino; apply in_rev; rewrite E; apply in_or_app; right; left; auto).
      destruct (ancs_spec Cur) as [_ HaC].
      destruct (in_dec N.eq_dec p (ancs G Cur)) as [Hin|Hnin]. { right. apply HaC. exact Hin. }
      left. assert (In p needs) as Hpn.
      { apply Hneeds. split. { eapply AncOf_down; [apply (proj1 (proj1 (Hneeds r) Hrn))|exact Arp]. }
        intros A. apply Hnin. apply HaC. exact A. }
      assert (In p (rev o)) as Hpo by (apply in_rev; rewrite rev_involutive; apply Hino; auto).
      rewrite E in Hpo. apply in_app_or in Hpo. destruct Hpo as [H|[H|H]]; auto.
      + exfalso. subst p. apply AC. exists r, r. split; [exact Hp|constructor].
      + exfalso. apply in_split in H. destruct H as [l1 [l2 El]]. subst post.
        assert (o = rev l2 ++ p :: (rev l1 ++ r :: rev pre)) as Eo'.
        { rewrite <- (rev_involutive o), E. rewrite !rev_app_distr. simpl. rewrite !rev_app_distr. simpl.
          rewrite <- !app_assoc. simpl. reflexivity. }
        apply (Hord _ _ _ Eo' r); [apply in_or_app; right; left; auto|]. exact Arp. Qed.

  Theorem model_holds t T Cur : ref_agrees G Cur t T = true -> C01_holds (G, t, T, Cur) (upgrade_plan G T Cur).
  Proof. intros Hrt. pose proof (upgrade_plan_result T Cur) as H. destruct (upgrade_plan G T Cur) as [plan|e]; [auto|].
    cbn [C01_holds]. split; [exact Hrt|]. destruct e; auto. Qed.

  Theorem upgrade_total T Cur e : upgrade_plan G T Cur = PErr e -> e = PEOverlap.
  Proof. intros E. pose proof (upgrade_plan_result T Cur) as H. rewrite E in H. destruct e; tauto. Qed.

  Theorem decider_sound t T Cur out : check_C01 (G, t, T, Cur) out = true -> C01_holds (G, t, T, Cur) out.
  Proof. unfold check_C01, C01_holds. rewrite andb_true_iff. intros [Hrt H]. split; [exact Hrt|]. revert H.
    destruct out as [plan|e].
    - rewrite !andb_true_iff, nodupb_NoDup, seteqN_spec. intros [[H1 H2] H3].
      destruct (ancs_spec T) as [_ HT]. destruct (ancs_spec Cur) as [_ HC].
      split; auto. split.
      + intros r. rewrite H2, diffN_In, HT, HC. tauto.
      + intros pre r post E p Hp. destruct (linext_spec G plan _ H3 pre r post E p Hp); auto. right. apply HC; auto.
    - destruct e; try discriminate. rewrite orb_true_iff.
      assert (forall X, overlapping G X = true -> Overlapping G X) as Ho.
      { intros X H. unfold overlapping in H. apply existsb_exists in H. destruct H as [a [Ha H]].
        apply existsb_exists in H. destruct H as [b [Hb H]]. apply andb_true_iff in H. destruct H as [Hne Hm].
        apply negb_true_iff, N.eqb_neq in Hne. apply memN_In in Hm. apply (proj2 (ancs_spec [a])) in Hm.
        destruct Hm as [t0 [[<-|[]] P]]. exists a, b. auto. }
      intros [H|H]; [left|right]; auto. Qed.
End C01.
