(* C15: the elimination loop decides acyclicity; the reachability checks never reject an
   acyclic history; load reports a cycle error iff the history is cyclic; heads/bases. *)
From AV Require Import Model.Cycle Spec.C15 Proofs.GraphProof.

(* ---------- small list facts ---------- *)
Lemma filter_length_le' {A} (f:A->bool) l : length (filter f l) <= length l.
Proof. induction l as [|b l IH]; simpl; auto. destruct (f b); simpl; lia. Qed.
Lemma filter_length_lt {A} (f:A->bool) l a : In a l -> f a = false -> length (filter f l) < length l.
Proof. induction l as [|b l IH]; simpl; [tauto|]. intros [->|H] Hf.
  - rewrite Hf. pose proof (filter_length_le' f l). lia.
  - specialize (IH H Hf). destruct (f b); simpl; lia. Qed.
Lemma filter_all_N (U l : list N) : incl l U -> filter (fun d => memN d U) l = l.
Proof. induction l as [|a l IH]; simpl; auto. intros H. assert (memN a U = true) as -> by (apply memN_In, H; left; auto).
  f_equal. apply IH. intros x Hx. apply H. right; auto. Qed.
Lemma map_fst_filter_keys (free : list N) (rem : list (N * list N)) (g : N * list N -> N * list N) :
  (forall e, fst (g e) = fst e) ->
  map fst (map g (filter (fun e => negb (memN (fst e) free)) rem)) = filter (fun k => negb (memN k free)) (map fst rem).
Proof. intros Hg. induction rem as [|e r IH]; simpl; auto. destruct (negb (memN (fst e) free)); simpl; rewrite ?Hg, IH; auto. Qed.

Fixpoint lookup (rem : list (N * list N)) (x:N) : list N :=
  match rem with [] => [] | (k, ds) :: r => if N.eqb k x then ds else lookup r x end.
Lemma lookup_In rem x ds : NoDup (map fst rem) -> In (x, ds) rem -> lookup rem x = ds.
Proof. induction rem as [|[k d] r IH]; simpl; [tauto|]. intros ND [E|H].
  - inversion E; subst. rewrite N.eqb_refl; auto.
  - inversion ND as [|? ? Hn ND']; subst. destruct (N.eqb_spec k x) as [->|Hne]; auto.
    exfalso. apply Hn. change x with (fst (x, ds)). apply in_map; auto. Qed.
Lemma lookup_entry rem x y : In y (lookup rem x) -> exists ds, In (x, ds) rem /\ In y ds.
Proof. induction rem as [|[k d] r IH]; simpl; [tauto|]. destruct (N.eqb_spec k x) as [->|Hne].
  - intros H. exists d; auto.
  - intros H. destruct (IH H) as [ds [H1 H2]]. exists ds; auto. Qed.

(* ---------- the elimination loop ---------- *)
Section KAHN.
  Variable par : N -> list N.
  Definition keys (rem : list (N * list N)) := map fst rem.
  Definition KInv (rem : list (N * list N)) : Prop :=
    NoDup (keys rem) /\ forall x ds, In (x, ds) rem -> forall d, In d ds <-> In d (par x) /\ In d (keys rem).

  Lemma free_spec rem x : In x (fst (kahn_round rem)) <-> In (x, []) rem.
  Proof. unfold kahn_round; cbn [fst]. rewrite in_map_iff. split.
    - intros [[k ds] [E H]]. simpl in E; subst k. apply filter_In in H. destruct H as [H Hn]. simpl in Hn.
      destruct ds; [auto|discriminate].
    - intros H. exists (x, []). split; auto. apply filter_In; auto. Qed.

  Lemma round_keys rem : keys (snd (kahn_round rem)) = filter (fun k => negb (memN k (fst (kahn_round rem)))) (keys rem).
  Proof. unfold kahn_round; cbn [fst snd]. unfold keys. apply map_fst_filter_keys. auto. Qed.

  Lemma round_entry rem x ds' : In (x, ds') (snd (kahn_round rem)) ->
    exists ds, In (x, ds) rem /\ ~ In x (fst (kahn_round rem)) /\ ds' = diffN ds (fst (kahn_round rem)).
  Proof. unfold kahn_round; cbn [fst snd]. rewrite in_map_iff. intros [[k ds] [E H]]. simpl in E. inversion E; subst.
    apply filter_In in H. destruct H as [H Hn]. simpl in Hn. rewrite negb_true_iff, memN_nIn in Hn. exists ds; auto. Qed.

  Lemma round_KInv rem : KInv rem -> KInv (snd (kahn_round rem)).
  Proof. intros [ND Hd]. split.
    - rewrite round_keys. apply NoDup_filter; auto.
    - intros x ds' Hin d. destruct (round_entry _ _ _ Hin) as [ds [H1 [H2 ->]]].
      rewrite diffN_In, (Hd x ds H1 d), round_keys, filter_In, negb_true_iff, memN_nIn. tauto. Qed.

  Lemma round_shrinks rem : fst (kahn_round rem) <> [] -> length (snd (kahn_round rem)) < length rem.
  Proof. intros Hne. destruct (fst (kahn_round rem)) as [|x fr] eqn:E; [congruence|].
    assert (In x (fst (kahn_round rem))) as Hx by (rewrite E; left; auto).
    pose proof Hx as Hx'. apply free_spec in Hx'.
    unfold kahn_round at 1; cbn [snd]. rewrite map_length.
    apply (filter_length_lt _ rem (x, [])); auto. simpl. fold (fst (kahn_round rem)).
    rewrite negb_false_iff. apply memN_In. exact Hx. Qed.

  Lemma kahn_loop_unfold f rem : kahn_loop (S f) rem =
    match fst (kahn_round rem) with [] => Some rem | _ => kahn_loop f (snd (kahn_round rem)) end.
  Proof. cbn [kahn_loop]. destruct (kahn_round rem) as [fr rem']. reflexivity. Qed.

  Lemma kahn_loop_total : forall fuel rem, length rem < fuel -> kahn_loop fuel rem <> None.
  Proof. induction fuel as [|f IH]; intros rem Hl; [lia|]. rewrite kahn_loop_unfold.
    destruct (fst (kahn_round rem)) eqn:E; [discriminate|]. apply IH.
    assert (fst (kahn_round rem) <> []) as Hne by (rewrite E; discriminate).
    pose proof (round_shrinks rem Hne). lia. Qed.

  Lemma kahn_loop_spec : forall fuel rem r, kahn_loop fuel rem = Some r -> KInv rem ->
    (forall c, path1 par c c -> In c (keys rem)) ->
    KInv r /\ (forall x ds, In (x, ds) r -> ds <> []) /\ (forall c, path1 par c c -> In c (keys r)).
  Proof. induction fuel as [|f IH]; intros rem r H KI CI; [discriminate|]. rewrite kahn_loop_unfold in H.
    destruct (fst (kahn_round rem)) as [|x0 fr] eqn:E.
    - inversion H; subst r. split; auto. split; auto. intros x ds Hin ->. apply free_spec in Hin. rewrite E in Hin. exact Hin.
    - apply IH in H; auto.
      + apply round_KInv; auto.
      + intros c Hc. rewrite round_keys, filter_In, negb_true_iff, memN_nIn. split; auto.
        intros Hfree. apply free_spec in Hfree. destruct KI as [ND Hd].
        destruct Hc as [y [Hy Py]]. assert (path1 par y y) as Cy by (eapply path1_snoc; eauto).
        apply (Hd c [] Hfree y). split; auto. Qed.

  Lemma kahn_empty_acyclic fuel rem : KInv rem -> (forall c, path1 par c c -> In c (keys rem)) ->
    kahn_loop fuel rem = Some [] -> ~ cyclic par.
  Proof. intros KI CI H [c Hc]. destruct (kahn_loop_spec _ _ _ H KI CI) as [_ [_ C]]. apply (C c Hc). Qed.

  Lemma kahn_acyclic_empty fuel rem r : KInv rem -> ~ cyclic par -> kahn_loop fuel rem = Some r -> r = [].
  Proof. intros KI AC H.
    destruct (kahn_loop_spec _ _ _ H KI) as [[ND Hd] [Hne _]]. { intros c Hc. exfalso. apply AC. exists c; auto. }
    destruct r as [|[x ds] r']; auto. exfalso.
    set (R := (x, ds) :: r') in *.
    assert (forall a b, In b (lookup R a) -> In b (par a) /\ In b (keys R)) as Hsub.
    { intros a b Hb. destruct (lookup_entry _ _ _ Hb) as [ds' [H1 H2]]. apply (Hd a ds' H1 b). exact H2. }
    destruct (terminal_reachable (lookup R) (keys R)) with (x := x) as [y [_ [Hy Ht]]].
    - intros a b _ Hb. apply (Hsub a b Hb).
    - intros Hc. apply AC. eapply cyclic_mono; [|exact Hc]. intros a b Hb. apply (Hsub a b Hb).
    - left; reflexivity.
    - unfold keys in Hy. apply in_map_iff in Hy. destruct Hy as [[y' dy] [Ey Hin]]. simpl in Ey; subst y'.
      rewrite (lookup_In R y dy ND Hin) in Ht. apply (Hne y dy Hin Ht). Qed.
End KAHN.

(* instantiate on a graph *)
Definition par_of (f : revision -> list N) (G:graph) (x:N) : list N := filter (fun d => memN d (ids G)) (of_rev f G x).

Lemma kahn_init_keys f G : keys (kahn_init f G) = ids G.
Proof. unfold keys, kahn_init, ids. rewrite map_map. reflexivity. Qed.
Lemma kahn_init_KInv f G : NoDup (ids G) -> KInv (par_of f G) (kahn_init f G).
Proof. intros ND. split. { rewrite kahn_init_keys; auto. }
  intros x ds Hin d. rewrite kahn_init_keys. unfold kahn_init in Hin. apply in_map_iff in Hin.
  destruct Hin as [r [E Hr]]. inversion E; subst. unfold par_of, of_rev. rewrite (find_rev_NoDup G r ND Hr).
  rewrite filter_In, memN_In. tauto. Qed.
Lemma par_of_cyc_in f G c : path1 (par_of f G) c c -> In c (ids G).
Proof. intros [y [Hy _]]. destruct (in_dec N.eq_dec c (ids G)) as [H|H]; auto.
  unfold par_of in Hy. rewrite (of_rev_notin f G c H) in Hy. destruct Hy. Qed.

Lemma kahn_total f G : kahn f G <> None.
Proof. unfold kahn. pose proof (kahn_loop_total (S (length G)) (kahn_init f G)) as H.
  unfold kahn_init in H at 1. rewrite map_length in H. destruct (kahn_loop _ _); [discriminate|]. exfalso. apply H; auto. Qed.

Lemma kahn_iff_par f G : NoDup (ids G) -> (kahn f G = Some [] <-> ~ cyclic (par_of f G)).
Proof. intros ND. unfold kahn. split.
  - destruct (kahn_loop _ _) as [r|] eqn:E; [|discriminate]. simpl. intros H. inversion H as [Hm].
    destruct r; [|discriminate]. eapply kahn_empty_acyclic; eauto.
    + apply kahn_init_KInv; auto.
    + intros c Hc. rewrite kahn_init_keys. eapply par_of_cyc_in; eauto.
  - intros AC. destruct (kahn_loop _ _) as [r|] eqn:E.
    + rewrite (kahn_acyclic_empty _ _ _ _ (kahn_init_KInv f G ND) AC E). reflexivity.
    + exfalso. eapply kahn_loop_total; [|exact E]. unfold kahn_init. rewrite map_length. lia. Qed.

Lemma par_of_eq f G : (forall r, In r G -> incl (f r) (ids G)) -> forall x, par_of f G x = of_rev f G x.
Proof. intros Hf x. unfold par_of, of_rev. destruct (find_rev G x) eqn:E; auto. apply filter_all_N.
  apply find_rev_In in E. apply Hf; tauto. Qed.

Theorem kahn_iff f G : NoDup (ids G) -> (forall r, In r G -> incl (f r) (ids G)) ->
  (kahn f G = Some [] <-> ~ cyclic (of_rev f G)).
Proof. intros ND Hf. rewrite (kahn_iff_par f G ND).
  split; intros H C; apply H; eapply cyclic_mono; [|exact C| |exact C]; intros x y; rewrite (par_of_eq f G Hf x); auto. Qed.

(* ---------- wf_refs consequences ---------- *)
Lemma wf_down G : wf_refs G -> forall r, In r G -> incl (r_down r) (ids G).
Proof. intros [_ H] r Hr. apply (H r Hr). Qed.
Lemma wf_all_down G : wf_refs G -> forall r, In r G -> incl (all_down_r r) (ids G).
Proof. intros [_ H] r Hr x Hx. unfold all_down_r in Hx. rewrite dedupe_In in Hx. apply in_app_or in Hx.
  destruct (H r Hr) as [H1 H2]. destruct Hx; auto. Qed.
Lemma wf_refsb_spec G : wf_refsb G = true <-> wf_refs G.
Proof. unfold wf_refsb, wf_refs. rewrite andb_true_iff, nodupb_NoDup, forallb_forall.
  split; intros [H1 H2]; split; auto; intros r Hr; specialize (H2 r Hr).
  - rewrite andb_true_iff, !subsetN_incl in H2. exact H2.
  - rewrite andb_true_iff, !subsetN_incl. exact H2. Qed.

Lemma down_sub_all G x y : In y (down G x) -> In y (all_down G x).
Proof. unfold down, all_down, of_rev. destruct (find_rev G x); auto. intros H. unfold all_down_r. rewrite dedupe_In; apply in_or_app; auto. Qed.

(* ---------- self loops ---------- *)
Lemma self_loop_cyclic G e : NoDup (ids G) -> self_loop G = Some e -> (e = ELoop \/ e = EDepLoop) /\ cyclic (all_down G).
Proof. intros ND. assert (forall G', incl G' G -> self_loop G' = Some e -> (e = ELoop \/ e = EDepLoop) /\ cyclic (all_down G)) as H.
  { induction G' as [|r G' IH]; simpl; [discriminate|]. intros Hi.
    assert (In r G) as Hr by (apply Hi; left; auto).
    assert (forall y, In y (all_down_r r) -> y = r_id r -> cyclic (all_down G)) as Hc.
    { intros y Hy ->. exists (r_id r), (r_id r). split; [|constructor]. apply of_rev_intro; auto. }
    destruct (memN_reflect (r_id r) (r_down r)) as [H1|H1].
    - intros E; inversion E; subst. split; auto. apply (Hc (r_id r)); auto. unfold all_down_r. rewrite dedupe_In; apply in_or_app; auto.
    - destruct (memN_reflect (r_id r) (r_deps r)) as [H2|H2].
      + intros E; inversion E; subst. split; auto. apply (Hc (r_id r)); auto. unfold all_down_r. rewrite dedupe_In; apply in_or_app; auto.
      + apply IH. intros a Ha. apply Hi. right; auto. }
  apply H. apply incl_refl. Qed.

(* ---------- heads and bases ---------- *)
Lemma heads_by_spec f G x :
  In x (map r_id (filter (fun r => match children_by f G (r_id r) with [] => true | _ => false end) G))
  <-> In x (ids G) /\ no_child f G x.
Proof. rewrite in_map_iff. split.
  - intros [r [E H]]. apply filter_In in H. destruct H as [Hr Hc]. subst x. split; [apply in_map; auto|].
    intros c Hcin Hx. destruct (children_by f G (r_id r)) eqn:Ec; [|discriminate].
    assert (In (r_id c) (children_by f G (r_id r))) as Hin by (apply children_by_In; exists c; auto).
    rewrite Ec in Hin. destruct Hin.
  - intros [Hx Hn]. unfold ids in Hx. apply in_map_iff in Hx. destruct Hx as [r [E Hr]]. exists r. split; auto.
    apply filter_In. split; auto. destruct (children_by f G (r_id r)) as [|c cs] eqn:Ec; auto.
    exfalso. assert (In c (children_by f G (r_id r))) as Hc by (rewrite Ec; left; auto).
    apply children_by_In in Hc. destruct Hc as [c' [H1 [H2 H3]]]. subst x. apply (Hn c' H1 H3). Qed.

Lemma heads_of_spec G x : In x (heads_of G) <-> In x (ids G) /\ no_child r_down G x.
Proof. apply heads_by_spec. Qed.
Lemma real_heads_of_spec G x : In x (real_heads_of G) <-> In x (ids G) /\ no_child all_down_r G x.
Proof. apply heads_by_spec. Qed.
Lemma bases_of_spec G x : In x (bases_of G) <-> exists r, In r G /\ r_id r = x /\ r_down r = [].
Proof. unfold bases_of. rewrite in_map_iff. split.
  - intros [r [E H]]. apply filter_In in H. destruct H as [Hr Hb]. exists r. destruct (r_down r); [auto|discriminate].
  - intros [r [Hr [E Hb]]]. exists r. split; auto. apply filter_In. rewrite Hb; auto. Qed.
Lemma real_bases_of_spec G x : In x (real_bases_of G) <-> exists r, In r G /\ r_id r = x /\ r_down r = [] /\ r_deps r = [].
Proof. unfold real_bases_of. rewrite in_map_iff. split.
  - intros [r [E H]]. apply filter_In in H. destruct H as [Hr Hb]. exists r.
    destruct (r_down r); [|discriminate]. destruct (r_deps r); [auto|discriminate].
  - intros [r [Hr [E [Hb Hd]]]]. exists r. split; auto. apply filter_In. rewrite Hb, Hd; auto. Qed.

(* ---------- the reachability checks never reject an acyclic history ---------- *)
Section REACH.
  Variable G : graph.
  Variable f : revision -> list N.
  Hypothesis ND : NoDup (ids G).
  Hypothesis Hf : forall r, In r G -> incl (f r) (ids G).
  Hypothesis AC : ~ cyclic (of_rev f G).

  Let dn := of_rev f G.
  Let up := children_by f G.

  Lemma up_dn x c : In c (up x) -> In x (dn c).
  Proof. intros H. apply (children_by_rev f G x c ND) in H. tauto. Qed.
  Lemma dn_up x p : In p (dn x) -> In x (up p).
  Proof. intros H. apply (children_by_rev f G p x ND). split; auto.
    destruct (in_dec N.eq_dec x (ids G)) as [Hi|Hi]; auto. unfold dn in H. rewrite of_rev_notin in H; auto. destruct H. Qed.
  Lemma AC_up : ~ cyclic up.
  Proof. intros [x [y [Hy P]]]. apply AC. exists x. eapply path1_snoc.
    - apply (path_converse up dn up_dn). exact P.
    - apply up_dn. exact Hy. Qed.

  (* every revision is below some head and above some base *)
  Lemma reaches_head x : In x (ids G) -> exists h, In h (ids G) /\ up h = [] /\ path dn h x.
  Proof. intros Hx. destruct (terminal_reachable up (ids G)) with (x := x) as [h [P [Hh Ht]]]; auto.
    - intros a b _ Hb. eapply children_by_ids; eauto.
    - apply AC_up.
    - exists h. split; auto. split; auto. apply (path_converse up dn up_dn). exact P. Qed.
  Lemma reaches_base x : In x (ids G) -> exists b, In b (ids G) /\ dn b = [] /\ path up b x.
  Proof. intros Hx. destruct (terminal_reachable dn (ids G)) with (x := x) as [b [P [Hb Ht]]]; auto.
    - intros a c Ha Hc. unfold dn in Hc. apply of_rev_In in Hc. destruct Hc as [r [Hr [E Hc]]]. eapply Hf; eauto.
    - exists b. split; auto. split; auto. apply (path_converse dn up dn_up). exact P. Qed.

  Lemma dn_outside x : ~ In x (ids G) -> dn x = [].
  Proof. apply of_rev_notin. Qed.
  Lemma up_outside x : ~ In x (ids G) -> up x = [].
  Proof. intros H. destruct (up x) as [|c cs] eqn:E; auto. exfalso.
    assert (In c (up x)) as Hc by (rewrite E; left; auto). apply up_dn in Hc. unfold dn in Hc.
    apply of_rev_In in Hc. destruct Hc as [r [Hr [_ Hin]]]. apply H. eapply Hf; eauto. Qed.

  Variables hs bs : list N.
  Hypothesis Hhs : forall h, In h (ids G) -> up h = [] -> In h hs.
  Hypothesis Hbs : forall b, In b (ids G) -> dn b = [] -> In b bs.

  Lemma covers_acyclic a b : reach_set dn G hs = Some a -> reach_set up G bs = Some b -> covers G a b = true.
  Proof. intros Ha Hb. unfold covers. apply subsetN_incl. intros x Hx. apply interN_In. split.
    - apply (reach_set_correct _ _ _ _ Ha). destruct (reaches_head x Hx) as [h [H1 [H2 H3]]]. exists h; auto.
    - apply (reach_set_correct _ _ _ _ Hb). destruct (reaches_base x Hx) as [c [H1 [H2 H3]]]. exists c; auto. Qed.
  Lemma heads_nonempty x : In x (ids G) -> hs <> [].
  Proof. intros Hx Hn.
    destruct (reaches_head x Hx) as [h [H1 [H2 _]]]. specialize (Hhs h H1 H2). rewrite Hn in Hhs. destruct Hhs. Qed.
  Lemma bases_nonempty x : In x (ids G) -> bs <> [].
  Proof. intros Hx Hn.
    destruct (reaches_base x Hx) as [c [H1 [H2 _]]]. specialize (Hbs c H1 H2). rewrite Hn in Hbs. destruct Hbs. Qed.
End REACH.

(* ---------- _detect_cycles and load ---------- *)
Lemma acyclic_down G : ~ cyclic (all_down G) -> ~ cyclic (down G).
Proof. intros H C. apply H. eapply cyclic_mono; [|exact C]. apply down_sub_all. Qed.

Lemma no_children_in_heads f G h : In h (ids G) -> children_by f G h = [] ->
  In h (map r_id (filter (fun r => match children_by f G (r_id r) with [] => true | _ => false end) G)).
Proof. intros Hh Hc. unfold ids in Hh. apply in_map_iff in Hh. destruct Hh as [r [E Hr]]. apply in_map_iff. exists r. split; auto.
  apply filter_In. split; auto. rewrite E, Hc. reflexivity. Qed.

Lemma reach_check_acyclic G f hs bs e x : NoDup (ids G) -> (forall r, In r G -> incl (f r) (ids G)) ->
  ~ cyclic (of_rev f G) -> In x (ids G) ->
  (forall h, In h (ids G) -> children_by f G h = [] -> In h hs) ->
  (forall b, In b (ids G) -> of_rev f G b = [] -> In b bs) ->
  reach_check G (of_rev f G) (children_by f G) hs bs e = None.
Proof. intros ND Hf AC Hx Hhs Hbs. unfold reach_check.
  pose proof (heads_nonempty G f ND AC hs Hhs x Hx) as Hh.
  pose proof (bases_nonempty G f ND Hf AC bs Hbs x Hx) as Hb.
  destruct hs as [|h0 hs']; [congruence|]. destruct bs as [|b0 bs']; [congruence|].
  destruct (reach_set (of_rev f G) G (h0 :: hs')) as [a|] eqn:Ea.
  2:{ exfalso. eapply reach_set_total; [exact ND| |exact Ea]. apply of_rev_notin. }
  destruct (reach_set (children_by f G) G (b0 :: bs')) as [b|] eqn:Eb.
  2:{ exfalso. eapply reach_set_total; [exact ND| |exact Eb]. apply (up_outside G f ND Hf). }
  rewrite (covers_acyclic G f ND Hf AC (h0 :: hs') (b0 :: bs') Hhs Hbs a b Ea Eb). reflexivity. Qed.

Lemma reach_check_err G dn up hs bs e e' : reach_check G dn up hs bs e = Some e' -> e' = e \/ e' = EFuel.
Proof. unfold reach_check. destruct hs; [intros H; inversion H; auto|]. destruct bs; [intros H; inversion H; auto|].
  destruct (reach_set dn G _); [|intros H; inversion H; auto]. destruct (reach_set up G _); [|intros H; inversion H; auto].
  destruct (covers G _ _); [discriminate|]. intros H; inversion H; auto. Qed.
Lemma reach_check_nofuel G f hs bs e : NoDup (ids G) -> (forall r, In r G -> incl (f r) (ids G)) ->
  reach_check G (of_rev f G) (children_by f G) hs bs e <> Some EFuel \/ e = EFuel.
Proof. intros ND Hf. unfold reach_check. destruct hs; [destruct e; (left; discriminate) || (right; reflexivity)|].
  destruct bs; [destruct e; (left; discriminate) || (right; reflexivity)|].
  destruct (reach_set (of_rev f G) G _) eqn:Ea.
  2:{ exfalso. eapply reach_set_total; [exact ND| |exact Ea]. apply of_rev_notin. }
  destruct (reach_set (children_by f G) G _) eqn:Eb.
  2:{ exfalso. eapply reach_set_total; [exact ND| |exact Eb]. apply (up_outside G f ND Hf). }
  destruct (covers G _ _); [left; discriminate|]. destruct e; (left; discriminate) || (right; reflexivity). Qed.

Lemma kahn_check_spec f G e : NoDup (ids G) -> (forall r, In r G -> incl (f r) (ids G)) ->
  (kahn_check f G e = None <-> ~ cyclic (of_rev f G)) /\ (forall e', kahn_check f G e = Some e' -> e' = e).
Proof. intros ND Hf. pose proof (kahn_iff f G ND Hf) as K. pose proof (kahn_total f G) as T. unfold kahn_check.
  destruct (kahn f G) as [[|k ks]|]; [| |congruence].
  - split; [|discriminate]. split; intros _; [apply K|]; auto.
  - split.
    + split; [discriminate|]. intros AC. apply K in AC. discriminate.
    + intros e' H; inversion H; auto. Qed.

Lemma detect_cycles_acyclic G : wf_refs G -> ~ cyclic (all_down G) -> detect_cycles G = None.
Proof. intros WF AC. pose proof WF as [ND _]. unfold detect_cycles. destruct G as [|r0 G'] eqn:EG; auto. rewrite <- EG in *.
  assert (In (r_id r0) (ids G)) as Hx by (rewrite EG; left; auto).
  clear EG. unfold down, nextrev, all_down, all_nextrev.
  rewrite (reach_check_acyclic G r_down _ _ ECycle (r_id r0) ND (wf_down G WF) (acyclic_down G AC) Hx).
  2:{ intros h Hh Hc. apply no_children_in_heads; auto. }
  2:{ intros b Hb Hd. apply bases_of_spec. unfold of_rev in Hd. unfold ids in Hb. apply in_map_iff in Hb.
      destruct Hb as [r [E Hr]]. subst b. rewrite (find_rev_NoDup G r ND Hr) in Hd. exists r; auto. }
  cbn [first_err].
  rewrite (reach_check_acyclic G all_down_r _ _ EDepCycle (r_id r0) ND (wf_all_down G WF) AC Hx).
  2:{ intros h Hh Hc. apply no_children_in_heads; auto. }
  2:{ intros b Hb Hd. apply real_bases_of_spec. unfold of_rev in Hd. unfold ids in Hb. apply in_map_iff in Hb.
      destruct Hb as [r [E Hr]]. subst b. rewrite (find_rev_NoDup G r ND Hr) in Hd. exists r. split; auto. split; auto.
      unfold all_down_r in Hd. assert (r_down r ++ r_deps r = []) as Hnil.
      { destruct (r_down r ++ r_deps r) as [|a l] eqn:E; auto. exfalso.
        assert (In a (dedupe (a :: l))) as Ha by (rewrite dedupe_In; left; auto). rewrite Hd in Ha. destruct Ha. }
      apply app_eq_nil in Hnil. exact Hnil. }
  cbn [first_err].
  destruct (kahn_check_spec r_down G ECycle ND (wf_down G WF)) as [K1 _].
  destruct (kahn_check_spec all_down_r G EDepCycle ND (wf_all_down G WF)) as [K2 _].
  assert (kahn_check r_down G ECycle = None) as EK1 by (apply K1, (acyclic_down G AC)). rewrite EK1.
  cbn [first_err]. apply K2. exact AC. Qed.

Lemma detect_cycles_cyclic G : wf_refs G -> cyclic (all_down G) ->
  detect_cycles G = Some ECycle \/ detect_cycles G = Some EDepCycle.
Proof. intros WF C. pose proof WF as [ND _]. unfold detect_cycles. destruct G as [|r0 G'] eqn:EG.
  { exfalso. destruct C as [x [y [Hy _]]]. destruct Hy. }
  rewrite <- EG in *. clear EG. unfold down, nextrev, all_down, all_nextrev in *.
  destruct (reach_check G (of_rev r_down G) _ _ _ ECycle) as [e1|] eqn:E1; cbn [first_err].
  { destruct (reach_check_err _ _ _ _ _ _ _ E1) as [-> | ->]; auto.
    exfalso. destruct (reach_check_nofuel G r_down (heads_of G) (bases_of G) ECycle ND (wf_down G WF)) as [H|H]; [|discriminate].
    apply H. exact E1. }
  destruct (reach_check G (of_rev all_down_r G) _ _ _ EDepCycle) as [e2|] eqn:E2; cbn [first_err].
  { destruct (reach_check_err _ _ _ _ _ _ _ E2) as [-> | ->]; auto.
    exfalso. destruct (reach_check_nofuel G all_down_r (real_heads_of G) (real_bases_of G) EDepCycle ND (wf_all_down G WF)) as [H|H]; [|discriminate].
    apply H. exact E2. }
  destruct (kahn_check_spec r_down G ECycle ND (wf_down G WF)) as [_ K1].
  destruct (kahn_check_spec all_down_r G EDepCycle ND (wf_all_down G WF)) as [K2 K2'].
  destruct (kahn_check r_down G ECycle) as [e3|] eqn:E3; cbn [first_err].
  { rewrite (K1 e3 eq_refl). auto. }
  destruct (kahn_check all_down_r G EDepCycle) as [e4|] eqn:E4.
  { rewrite (K2' e4 eq_refl). auto. }
  exfalso. apply K2; auto. Qed.

(* cyclicity is decidable (by the DFS), so no classical reasoning is needed below *)
Lemma cyclic_dec succ G : NoDup (ids G) -> (forall x, ~ In x (ids G) -> succ x = []) -> cyclic succ \/ ~ cyclic succ.
Proof. intros ND Ho.
  set (t := fun x => match reach_set succ G (succ x) with Some out => memN x out | None => false end).
  destruct (existsb t (ids G)) eqn:E.
  - left. apply existsb_exists in E. destruct E as [x [Hx Ht]]. unfold t in Ht.
    destruct (reach_set succ G (succ x)) as [out|] eqn:Er; [|discriminate]. apply memN_In in Ht.
    apply (reach_set_correct _ _ _ _ Er) in Ht. destruct Ht as [y [Hy P]]. exists x, y. auto.
  - right. intros [x [y [Hy P]]].
    assert (In x (ids G)) as Hx. { destruct (in_dec N.eq_dec x (ids G)); auto. rewrite Ho in Hy; auto. destruct Hy. }
    assert (t x = true) as Ht.
    { unfold t. destruct (reach_set succ G (succ x)) as [out|] eqn:Er.
      - apply memN_In. apply (reach_set_correct _ _ _ _ Er). exists y; auto.
      - exfalso. eapply reach_set_total; eauto. }
    assert (existsb t (ids G) = true) as Hc by (apply existsb_exists; exists x; auto). congruence. Qed.

Theorem load_iff G : wf_refs G -> (is_cycle_err (load G) = true <-> cyclic (all_down G)).
Proof. intros WF. pose proof WF as [ND _]. unfold load. destruct (self_loop G) as [e|] eqn:ES.
  - destruct (self_loop_cyclic G e ND ES) as [[->| ->] C]; simpl; tauto.
  - split.
    + intros H. destruct (cyclic_dec (all_down G) G ND) as [C|AC]; auto. { apply of_rev_notin. }
      rewrite (detect_cycles_acyclic G WF AC) in H. discriminate.
    + intros C. destruct (detect_cycles_cyclic G WF C) as [-> | ->]; reflexivity. Qed.

Theorem load_total G : wf_refs G -> load G <> LoadErr EFuel /\ load G <> LoadErr EOther.
Proof. intros WF. pose proof WF as [ND _]. unfold load. destruct (self_loop G) as [e|] eqn:ES.
  - destruct (self_loop_cyclic G e ND ES) as [[->| ->] _]; split; discriminate.
  - destruct (cyclic_dec (all_down G) G ND) as [C|AC]. { apply of_rev_notin. }
    + destruct (detect_cycles_cyclic G WF C) as [-> | ->]; split; discriminate.
    + rewrite (detect_cycles_acyclic G WF AC). split; discriminate. Qed.

Theorem load_heads_bases G l : load G = Loaded l ->
    (forall x, In x (l_heads l) <-> In x (ids G) /\ no_child r_down G x) /\
    (forall x, In x (l_real_heads l) <-> In x (ids G) /\ no_child all_down_r G x) /\
    (forall x, In x (l_bases l) <-> exists r, In r G /\ r_id r = x /\ r_down r = []) /\
    (forall x, In x (l_real_bases l) <-> exists r, In r G /\ r_id r = x /\ r_down r = [] /\ r_deps r = []).
Proof. unfold load. destruct (self_loop G); [discriminate|]. destruct (detect_cycles G); [discriminate|].
  intros H; inversion H; subst; cbn [l_heads l_real_heads l_bases l_real_bases].
  split; [apply heads_of_spec|]. split; [apply real_heads_of_spec|]. split; [apply bases_of_spec|apply real_bases_of_spec]. Qed.

Theorem model_holds G : wf_refs G -> C15_holds G (load G).
Proof. intros WF. unfold C15_holds. split; [apply load_iff; auto|].
  destruct (load_total G WF) as [H1 H2]. split; auto. split; auto. intros l. apply load_heads_bases. Qed.

(* the decider applied to ANY output (the implementation's) is sound *)
Lemma cyclicb_spec G : wf_refs G -> (cyclicb G = true <-> cyclic (all_down G)).
Proof. intros WF. pose proof WF as [ND _]. unfold cyclicb. destruct (self_loop G) as [e|] eqn:ES.
  - destruct (self_loop_cyclic G e ND ES) as [_ C]. tauto.
  - pose proof (kahn_iff all_down_r G ND (wf_all_down G WF)) as K. fold (all_down G) in K.
    destruct (cyclic_dec (all_down G) G ND) as [C|AC]. { apply of_rev_notin. }
    + destruct (kahn all_down_r G) as [[|]|] eqn:EK; tauto.
    + rewrite (proj2 K AC). split; [discriminate|]. intros C; exfalso; auto. Qed.

Theorem decider_sound G out : wf_refs G -> check_C15g G out = true -> C15_holds G out.
Proof. intros WF H. unfold check_C15g in H. apply andb_true_iff in H. destruct H as [H1 H2].
  apply Bool.eqb_prop in H1. unfold C15_holds. split. { rewrite H1. apply cyclicb_spec; auto. }
  destruct out as [l|e].
  - split; [discriminate|]. split; [discriminate|]. intros l' E; inversion E; subst l'.
    rewrite !andb_true_iff, !seteqN_spec in H2. destruct H2 as [[[A B] C] D].
    split; [intros x; rewrite A; apply heads_of_spec|]. split; [intros x; rewrite B; apply real_heads_of_spec|].
    split; [intros x; rewrite C; apply bases_of_spec|intros x; rewrite D; apply real_bases_of_spec].
  - destruct e; try discriminate; (split; [discriminate|]; split; [discriminate|]; intros l' E; discriminate). Qed.

(* every traversal of the revision graph terminates within its fuel, cyclic history or not *)
Theorem traversal_total G f targets : wf_refs G -> (f = r_down \/ f = all_down_r) ->
  reach_set (of_rev f G) G targets <> None /\ reach_set (children_by f G) G targets <> None.
Proof. intros WF Hf. pose proof WF as [ND _]. split.
  - apply reach_set_total; auto. apply of_rev_notin.
  - apply reach_set_total; auto. destruct Hf as [-> | ->].
    + apply (up_outside G r_down ND (wf_down G WF)).
    + apply (up_outside G all_down_r ND (wf_all_down G WF)). Qed.

(* ---------- depends_on as written (ids or labels) ---------- *)
Lemma id_graph_ids R : ids (id_graph R) = ids (resolve_graph R).
Proof. unfold ids, id_graph, resolve_graph. rewrite !map_map. apply map_ext. intros [r raw]. reflexivity. Qed.

Lemma id_graph_sub R x y : NoDup (ids (resolve_graph R)) -> In y (all_down (id_graph R) x) -> In y (all_down (resolve_graph R) x).
Proof. intros ND H. apply of_rev_In in H. destruct H as [r [Hr [Hid Hy]]].
  unfold id_graph in Hr. apply in_map_iff in Hr. destruct Hr as [[r0 raw] [E Hin]]. subst r. cbn [r_id] in Hid.
  set (r' := mkRev (r_id r0) (r_down r0) (flat_map (resolve_dep (map fst R)) raw) (r_ndeps r0) (r_labels r0)).
  assert (In r' (resolve_graph R)) as Hr'. { unfold resolve_graph. apply in_map_iff. exists (r0, raw). auto. }
  rewrite <- Hid. change (r_id r0) with (r_id r'). apply of_rev_intro; auto.
  unfold all_down_r in *. cbn [r_down r_deps] in *. rewrite dedupe_In, in_app_iff in *. destruct Hy as [Hy|Hy]; auto. right.
  apply in_flat_map in Hy. destruct Hy as [[b z] [Hd Hz]]. apply in_flat_map. exists (b, z). split; auto.
  cbn [fst snd] in Hz. destruct b; [destruct Hz|]. unfold resolve_dep. exact Hz. Qed.

Theorem raw_model_holds R : wf_refs (resolve_graph R) -> C15_holds (resolve_graph R) (load_raw R).
Proof. intros WF. pose proof WF as [ND _]. set (G := resolve_graph R) in *. unfold load_raw. fold G.
  assert (NoDup (ids (id_graph R))) as NDi by (rewrite id_graph_ids; exact ND).
  destruct (self_loop (id_graph R)) as [e|] eqn:ES.
  - destruct (self_loop_cyclic (id_graph R) e NDi ES) as [He C].
    assert (cyclic (all_down G)) as CG. { eapply cyclic_mono; [|exact C]. intros x y. apply id_graph_sub; auto. }
    unfold C15_holds. split; [destruct He as [-> | ->]; simpl; tauto|].
    split; [destruct He as [-> | ->]; discriminate|]. split; [destruct He as [-> | ->]; discriminate|]. intros l E; discriminate.
  - destruct (cyclic_dec (all_down G) G ND) as [C|AC]. { apply of_rev_notin. }
    + destruct (detect_cycles_cyclic G WF C) as [-> | ->]; unfold C15_holds; simpl;
        (split; [tauto|]; split; [discriminate|]; split; [discriminate|]; intros l E; discriminate).
    + rewrite (detect_cycles_acyclic G WF AC). unfold C15_holds. simpl. split; [split; [discriminate|tauto]|].
      split; [discriminate|]. split; [discriminate|]. intros l E. inversion E; subst; cbn [l_heads l_real_heads l_bases l_real_bases].
      split; [apply heads_of_spec|]. split; [apply real_heads_of_spec|]. split; [apply bases_of_spec|apply real_bases_of_spec]. Qed.
