(* Sessions stay inside the domain of the whole-command statement: the rows a successful `upgrade` / `downgrade`
   leaves are again a version table of the domain (revision ids of the history, duplicate-free, exactly the maximal
   elements of their own closure), and that closure is the applied set the statement speaks about.  So the hypothesis
   `state_okb` of `Cmd_holds` never has to be assumed for the second and later commands of a session: it follows from
   the first.  (Boolean bridge  InvR -> pre_C03.) *)
From AV Require Import Spec.Command Proofs.GraphProof Proofs.CycleProof Proofs.PlanProof Proofs.C01Proof Proofs.C02Proof
  Proofs.C03Graph Proofs.HeadsProof Proofs.ComposeProof Proofs.CommandProof.
From Coq Require Import Permutation Lia.

(* ---------- multiset equality of duplicate-free lists with the same elements ---------- *)
Lemma permb_of_NoDup a b : NoDup a -> NoDup b -> (forall x, In x a <-> In x b) -> permb a b = true.
Proof. intros Na Nb EQ. unfold permb. apply andb_true_iff. split.
  - apply Nat.eqb_eq. apply Nat.le_antisymm; apply NoDup_incl_length; auto; intros x Hx; apply EQ; auto.
  - apply forallb_forall. intros x _. apply Nat.eqb_eq.
    pose proof (proj1 (countN_NoDup a) Na x) as Ha. pose proof (proj1 (countN_NoDup b) Nb x) as Hb.
    pose proof (countN_In x a) as Ia. pose proof (countN_In x b) as Ib. specialize (EQ x).
    destruct (in_dec N.eq_dec x a) as [Hi|Hn].
    + assert (In x b) as Hi' by (apply EQ; auto). apply Ia in Hi. apply Ib in Hi'. lia.
    + assert (~ In x b) as Hn' by (intros H; apply Hn, EQ; auto).
      rewrite (countN_nIn x a Hn), (countN_nIn x b Hn'). reflexivity. Qed.

Lemma closed_path G A : Spec.C03.closed G A -> forall x z, path (all_down G) x z -> In x A -> In z A.
Proof. intros C x z P. induction P as [x|x y z Hy P IH]; auto. intros Hx. apply IH. eapply C; eauto. Qed.

Lemma path_in_ids G : gwf G -> forall x z, path (all_down G) x z -> In x (ids G) -> In z (ids G).
Proof. intros W x z P. induction P as [x|x y z Hy P IH]; auto. intros _. apply IH. eapply g_refs; eauto. Qed.

Lemma closure_NoDup G l A : Spec.C03.closure G l = Some A -> NoDup A.
Proof. unfold Spec.C03.closure, reach_set. intros E. eapply dfs_NoDup; eauto. constructor. Qed.

Lemma closure_spec G l : exists A, Spec.C03.closure G l = Some A /\ forall z, In z A <-> exists t, In t l /\ path (all_down G) t z.
Proof. unfold Spec.C03.closure. apply reach_set_spec. intros x Hx. apply of_rev_out; auto. Qed.

Lemma closure_in_ids G l A : gwf G -> incl l (ids G) -> Spec.C03.closure G l = Some A -> incl A (ids G).
Proof. intros W Hl E z Hz. destruct (closure_spec G l) as [A' [E' S]]. rewrite E in E'. inversion E'; subst A'.
  apply S in Hz. destruct Hz as [t [Ht P]]. eapply path_in_ids; eauto. Qed.

Lemma maxl_NoDup G A : NoDup A -> NoDup (Spec.C03.maxl G A).
Proof. unfold Spec.C03.maxl. apply NoDup_filter. Qed.

(* ---------- the bridge ---------- *)
Lemma InvR_state_ok G A rws :
  wf_refsb G = true -> Spec.C03.noselfb G = true -> gwf G -> incl A (ids G) -> InvR G A rws ->
  Spec.C03.pre_C03 (G, rws, false, []) = true /\
  exists A', Spec.C03.closure G rws = Some A' /\ forall z, In z A' <-> In z A.
Proof. intros WFb NSb W HA IR. pose proof IR as [C [ND EQ]].
  pose proof (Inv_rows_ok G A (start rws) W (start_Inv G A rws IR)) as [_ [_ [_ Himp]]]. cbn [start rows] in Himp.
  destruct (closure_spec G rws) as [A' [E S]].
  assert (SA : forall z, In z A' <-> In z A). { intros z. rewrite S, Himp. tauto. }
  split; [|exists A'; auto].
  unfold Spec.C03.pre_C03. rewrite WFb, NSb, E. cbn [andb].
  assert (Hsub : incl rws (ids G)). { intros x Hx. apply HA. apply EQ in Hx. apply maxl_In in Hx. tauto. }
  apply (proj2 (nodupb_NoDup rws)) in ND as NDb. rewrite NDb. apply (proj2 (subsetN_incl rws (ids G))) in Hsub. rewrite Hsub. cbn [andb].
  apply permb_of_NoDup; auto.
  - apply maxl_NoDup. eapply closure_NoDup; eauto.
  - intros x. rewrite EQ, !maxl_In, SA. split; intros [H1 H2]; split; auto; intros y Hy; apply H2; apply SA; auto. Qed.

(* the ghost set stays inside the history *)
Lemma ghost_steps_ids G : forall steps A os, incl A (ids G) -> Spec.C03.steps_hold G A steps os ->
  incl (Spec.C03.ghost_steps steps A) (ids G).
Proof. induction steps as [|st steps IH]; intros A os HA SH; cbn [Spec.C03.ghost_steps]; auto.
  destruct st as [r up|]; cbn [Spec.C03.steps_hold] in SH; [|destruct SH].
  destruct os as [|o os]; [destruct SH|]. destruct o as [rw stm|e]; [|destruct SH].
  destruct SH as [V [_ [_ SH]]]. apply (IH _ os); auto.
  unfold Spec.C03.ghost. destruct up; cbn [Spec.C03.valid_step] in V.
  - destruct V as [Hr _]. intros x [<-|Hx]; auto.
  - intros x Hx. apply removeN_In in Hx. apply HA. tauto. Qed.

Lemma pre_parts G rws : Spec.C03.pre_C03 (G, rws, false, []) = true ->
  wf_refsb G = true /\ Spec.C03.noselfb G = true /\ incl rws (ids G).
Proof. unfold Spec.C03.pre_C03. rewrite !andb_true_iff. intros [[[[H1 H2] _] H3] _]. apply subsetN_incl in H3. auto. Qed.

(* ---------- graph level: one successful plan ---------- *)
Theorem plan_state_preserved G rowsN A0 plan up os s' :
  graph_okb G = true -> state_okb G rowsN = true -> Spec.C03.closure G rowsN = Some A0 ->
  run_steps G (fun l => l) (steps_of up plan) (start rowsN) = (os, Some s') ->
  Spec.C03.steps_hold G A0 (steps_of up plan) os -> Inv G (Spec.C03.ghost_steps (steps_of up plan) A0) s' ->
  state_okb G (rows s') = true /\
  exists A1, Spec.C03.closure G (rows s') = Some A1 /\
             forall z, In z A1 <-> In z (Spec.C03.ghost_steps (steps_of up plan) A0).
Proof. intros HG HS CL ER SH I'.
  destruct (graph_okb_spec G HG) as [WF [AC [NOK NOK3]]]. pose proof (gwf_of G WF AC NOK3) as W.
  unfold state_okb in *. destruct (pre_parts G rowsN HS) as [WFb [NSb Hsub]].
  pose proof (closure_in_ids G rowsN A0 W Hsub CL) as HA0.
  pose proof (ghost_steps_ids G _ _ _ HA0 SH) as HA1.
  apply (InvR_state_ok G _ (rows s') WFb NSb W HA1). apply Inv_InvR; auto. Qed.

(* ---------- command level ---------- *)
(* A command of the domain that planned and succeeded leaves rows which are the names of a state of the domain
   whose closure is exactly the applied set of the whole-command statement; a refused or failed command leaves the
   rows it found (Cmd_holds).  Hence every command of a session on one history finds a version table of the domain. *)
Theorem command_state_preserved : forall i ran rows,
  cmd_pre i = true -> run_command i = COk ran rows ->
  match resolve_cmd i with
  | RPlanUp G rowsN _ _ | RPlanDown G rowsN _ _ _ =>
      exists rws, rows = names (c_revs i) rws /\ state_okb G rws = true
  | _ => False
  end.
Proof. intros i ran rws0 PRE. unfold run_command, cmd_pre in *.
  destruct (resolve_cmd i) as [|e|G rowsN T L|G rowsN target branch U] eqn:ER; cbn [exec_cmd]; try discriminate.
  - rewrite !andb_true_iff in PRE. destruct PRE as [[[HG HS] HL] HT].
    destruct (graph_okb_spec G HG) as [WF [AC [NOK NOK3]]].
    apply list_eqbN_eq in HL. subst L. apply subsetN_incl in HT. unfold state_okb in HS.
    destruct (closure_spec G rowsN) as [A0 [CL _]].
    pose proof (start_Inv G A0 rowsN (pre_InvR G rowsN false [] A0 HS CL)) as I0.
    destruct (upgrade_plan G T rowsN) as [plan|e] eqn:EP; [|discriminate].
    destruct (upgrade_command G (fun l => l) T A0 (start rowsN) plan WF AC NOK NOK3 (fun l => Permutation_refl l) HT I0 EP)
      as [os [s' [ERS [SH [I' _]]]]].
    intros E. unfold run_plan, run_cmd in E. change (map (fun r => RevStep r true) plan) with (up_steps plan) in E.
    rewrite ERS in E. cbn [option_map] in E. inversion E; subst. exists (rows s'). split; auto.
    apply (plan_state_preserved G rowsN A0 plan true os s' HG HS CL ERS SH I').
  - rewrite !andb_true_iff in PRE. destruct PRE as [[[[HG HS] HU] _] _].
    destruct (graph_okb_spec G HG) as [WF [AC [NOK NOK3]]].
    apply list_eqbN_eq in HU. subst U. unfold state_okb in HS.
    destruct (closure_spec G rowsN) as [A0 [CL _]].
    pose proof (start_Inv G A0 rowsN (pre_InvR G rowsN false [] A0 HS CL)) as I0.
    destruct (downgrade_plan G target branch rowsN) as [plan|e] eqn:EP; [|discriminate].
    destruct (downgrade_command G (fun l => l) target branch A0 (start rowsN) plan WF AC NOK NOK3 (fun l => Permutation_refl l) I0 EP)
      as [os [s' [ERS [SH [I' _]]]]].
    intros E. unfold run_plan, run_cmd in E. change (map (fun r => RevStep r false) plan) with (down_steps plan) in E.
    rewrite ERS in E. cbn [option_map] in E. inversion E; subst. exists (rows s'). split; auto.
    apply (plan_state_preserved G rowsN A0 plan false os s' HG HS CL ERS SH I'). Qed.

(* ---------- names -> positions: re-reading the rows a command left gives back the same positions ---------- *)
Lemma pos_from_nth_nodup H : forall k m r, NoDup (map R.s_id H) -> nth_error H m = Some r ->
  pos_from k H (R.s_id r) = Some (k + N.of_nat m)%N.
Proof. induction H as [|a H IH]; intros k m r ND E; [destruct m; discriminate|]. destruct m as [|m]; cbn [nth_error] in E.
  - inversion E; subst. cbn [pos_from]. rewrite ResolveProof.streqb_refl. f_equal. lia.
  - cbn [pos_from]. cbn [map] in ND. inversion ND as [|? ? Hn ND']; subst.
    destruct (R.streqb (R.s_id a) (R.s_id r)) eqn:Ex.
    + apply ResolveProof.streqb_eq in Ex. exfalso. apply Hn. rewrite Ex. apply in_map. eapply nth_error_In; eauto.
    + rewrite (IH (N.succ k) m r ND' E). f_equal. lia. Qed.

Theorem names_roundtrip H : NoDup (map R.s_id H) -> forall l,
  Forall (fun n => (N.to_nat n < length H)%nat) l -> pos_list H (names H l) = Some l.
Proof. intros ND l. induction l as [|n l IH]; intros F; [reflexivity|].
  inversion F as [|? ? Hn F']; subst. unfold names in *. cbn [map pos_list]. rewrite (IH F').
  destruct (nth_error H (N.to_nat n)) as [r|] eqn:E; [|apply nth_error_None in E; lia].
  unfold name_of. rewrite E. unfold pos. rewrite (pos_from_nth_nodup H 0%N (N.to_nat n) r ND E).
  replace (0 + N.of_nat (N.to_nat n))%N with n by lia. reflexivity. Qed.

(* ---------- the graph a planned command works on is the interned loaded history; its ids are positions of the history ---------- *)
Definition graph_from (i:cmd_in) (G:graph) : Prop :=
  exists M, R.load (c_revs i) (c_oracle i) = R.Ok M /\ intern M (c_ndeps i) = Some G.

Lemma current_of_graph M H rws k : forall P : rres -> Prop, P RBad -> (forall e, P (RFail e)) -> (forall L, P (k L)) -> P (current_of M H rws k).
Proof. intros P H1 H2 H3. unfold current_of. destruct (R.get_ids M rws) as [cr|e]; auto. destruct (opt_ids cr) as [cn|]; auto. destruct (pos_list H cn); auto. Qed.

Definition graph_of_res (i:cmd_in) (r:rres) : Prop :=
  match r with RPlanUp G _ _ _ | RPlanDown G _ _ _ _ => graph_from i G | _ => True end.

Lemma resolve_graph i : graph_of_res i (resolve_cmd i).
Proof. unfold resolve_cmd.
  destruct (has_colon (c_target i)); [exact I|].
  destruct (intern0 (c_revs i)); [|exact I].
  destruct (Cycle.load g); [|exact I].
  destruct (R.load (c_revs i) (c_oracle i)) as [M|e] eqn:EL; [|destruct e; exact I].
  destruct (intern M (c_ndeps i)) as [G|] eqn:EI; [|exact I].
  destruct (pos_list (c_revs i) (c_rows i)) as [rowsN|]; [|exact I].
  destruct (c_up i).
  - destruct (R.parse_upgrade_target M (c_rows i) (c_target i) true) as [els|e]; [|exact I].
    destruct (elem_ids els) as [tn|]; [|exact I]. destruct (pos_list (c_revs i) tn); [|exact I].
    apply current_of_graph; cbn; auto. intros _. exists M. auto.
  - destruct (R.parse_downgrade_target M (c_rows i) (c_target i) true) as [[bl el]|]; [|exact I].
    match goal with |- graph_of_res i (match ?x with _ => _ end) => destruct x as [target|] end; [|exact I].
    match goal with |- graph_of_res i (match ?x with _ => _ end) => destruct x as [branch|r] eqn:EB end.
    + apply current_of_graph; cbn; auto. intros _. exists M. auto.
    + revert EB. destruct (match bl with Some (_ :: _) => _ | _ => _ end).
      * destruct bl as [b|]; [|discriminate]. destruct (resolve_branch M b) as [[r'|]|e]; try (intros E; inversion E; subst; exact I).
        destruct (pos (c_revs i) (R.s_id r')); intros E; inversion E; subst; exact I.
      * discriminate.
Qed.

Lemma load_revs H o M : R.load H o = R.Ok M -> R.m_revs M = H.
Proof. unfold R.load. destruct (negb (R.oracle_ok H o)); [discriminate|].
  destruct (R.map_branch_labels H (map fst o) (map (fun r => (R.s_id r, R.s_id r)) H)); cbn [R.bind]; [|discriminate].
  intros E. inversion E. reflexivity. Qed.



Lemma intern_from_ids M nd : forall rs n G, intern_from M nd n rs = Some G ->
  forall x, In x (ids G) -> (N.to_nat n <= N.to_nat x < N.to_nat n + length rs)%nat.
Proof. induction rs as [|r rs IH]; intros n G E x Hx; cbn [intern_from] in E.
  - inversion E; subst. destruct Hx.
  - destruct (ndeps_of M nd r); [|discriminate].
    destruct (pos_list (R.m_revs M) (R.s_down r)); [|discriminate].
    destruct (pos_list (R.m_revs M) (R.s_deps r)); [|discriminate].
    destruct (pos_list (R.m_revs M) l); [|discriminate].
    destruct (intern_from M nd (N.succ n) rs) as [g|] eqn:EG; [|discriminate].
    inversion E; subst. cbn in Hx. destruct Hx as [<-|Hx]; [cbn [length]; lia|].
    specialize (IH _ _ EG x Hx). cbn [length]. lia. Qed.

Theorem command_rows_reread : forall i ran rows,
  cmd_pre i = true -> run_command i = COk ran rows -> NoDup (map R.s_id (c_revs i)) ->
  match resolve_cmd i with
  | RPlanUp G _ _ _ | RPlanDown G _ _ _ _ =>
      exists rws, pos_list (c_revs i) rows = Some rws /\ state_okb G rws = true
  | _ => False
  end.
Proof. intros i ran rows PRE E ND. pose proof (command_state_preserved i ran rows PRE E) as SP.
  pose proof (resolve_graph i) as RG.
  assert (K : forall G rws, graph_from i G -> state_okb G rws = true -> Forall (fun n => (N.to_nat n < length (c_revs i))%nat) rws).
  { intros G rws [M [EL EI]] HS. apply Forall_forall. intros x Hx. unfold state_okb in HS.
    destruct (pre_parts G rws HS) as [_ [_ Hsub]]. apply Hsub in Hx.
    unfold intern in EI. pose proof (intern_from_ids M _ _ _ _ EI x Hx) as B. rewrite (load_revs _ _ _ EL) in B. cbn in B. lia. }
  destruct (resolve_cmd i) as [|e|G rowsN T L|G rowsN target branch U]; auto; cbn in RG;
    destruct SP as [rws [-> HS]]; exists rws; (split; [apply names_roundtrip; eauto|exact HS]). Qed.
