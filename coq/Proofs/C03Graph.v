(* Generic lemmas used by the C03 / C05 proofs: paths, the dfs of RevGraph.v (exactly the reachable set,
   never out of dfs_fuel), well-foundedness from acyclicity on a finite vertex set, counting. *)
From AV Require Import Model.RevGraph.
From Coq Require Import Permutation.

(* ------------------------------------------------------------------ paths *)
Section Paths.
  Variable succ : N -> list N.

  Lemma path_trans x y z : path succ x y -> path succ y z -> path succ x z.
  Proof. induction 1; auto. intros. eapply path_step; eauto. Qed.
  Lemma path_edge x y : In y (succ x) -> path succ x y.
  Proof. intros. eapply path_step; eauto. constructor. Qed.
  Lemma path_snoc x y z : path succ x y -> In z (succ y) -> path succ x z.
  Proof. intros. eapply path_trans; eauto. apply path_edge; auto. Qed.
  Lemma path1_path x z : path1 succ x z -> path succ x z.
  Proof. intros [y [H1 H2]]. eapply path_step; eauto. Qed.
  Lemma path_inv x z : path succ x z -> x = z \/ path1 succ x z.
  Proof. destruct 1; [left; auto|right; exists y; auto]. Qed.
  Lemma path1_l x y z : path succ x y -> path1 succ y z -> path1 succ x z.
  Proof. induction 1; auto. intros Hz. exists y. split; auto. apply path1_path. auto. Qed.
  Lemma path1_r x y z : path1 succ x y -> path succ y z -> path1 succ x z.
  Proof. intros [w [H1 H2]] H. exists w. split; auto. eapply path_trans; eauto. Qed.
  Lemma path1_snoc x y z : path succ x y -> In z (succ y) -> path1 succ x z.
  Proof. intros. eapply path1_l; eauto. exists z. split; auto. constructor. Qed.
  (* last edge of a non-trivial path *)
  Lemma path_last x z : path succ x z -> x = z \/ exists w, path succ x w /\ In z (succ w).
  Proof. induction 1; auto. right. destruct IHpath as [->|[w [Hw Hz]]].
    - exists x. split; [constructor|auto].
    - exists w. split; auto. eapply path_step; eauto. Qed.
End Paths.

Lemma path_incl (s1 s2 : N -> list N) : (forall x y, In y (s1 x) -> In y (s2 x)) -> forall x y, path s1 x y -> path s2 x y.
Proof. intros H x y. induction 1; [constructor|]. eapply path_step; eauto. Qed.
Lemma path_rev (s1 s2 : N -> list N) : (forall x y, In y (s1 x) -> In x (s2 y)) -> forall x y, path s1 x y -> path s2 y x.
Proof. intros H x y. induction 1; [constructor|]. eapply path_snoc; eauto. Qed.

(* ------------------------------------------------------------------ dfs: partial correctness *)
Section DFS.
  Variable succ : N -> list N.

  Lemma dfs_sound fuel : forall todo seen out, dfs succ fuel todo seen = Some out ->
     forall z, In z out -> In z seen \/ exists t, In t todo /\ path succ t z.
  Proof.
    induction fuel as [|f IH]; intros todo seen out H z Hz; [discriminate|].
    cbn [dfs] in H. destruct todo as [|x rest]. { inversion H; subst; auto. }
    destruct (memN x seen) eqn:E.
    - destruct (IH _ _ _ H z Hz) as [|[t [Ht Hr]]]; auto. right. exists t; split; [right|]; auto.
    - destruct (IH _ _ _ H z Hz) as [Hs|[t [Ht Hr]]].
      + destruct Hs as [->|Hs]; auto. right. exists z; split; [left; auto|constructor].
      + apply in_app_or in Ht. destruct Ht as [Ht|Ht].
        * apply in_rev in Ht. right. exists x. split; [left; auto|]. eapply path_step; eauto.
        * right. exists t. split; [right|]; auto.
  Qed.

  Definition dclosed (seen todo : list N) := forall x y, In x seen -> In y (succ x) -> In y seen \/ In y todo.

  Lemma dfs_mono fuel : forall todo seen out, dfs succ fuel todo seen = Some out -> incl seen out.
  Proof. induction fuel as [|f IH]; intros todo seen out H; [discriminate|]. cbn [dfs] in H.
    destruct todo as [|x rest]. { inversion H; subst; apply incl_refl. }
    destruct (memN x seen). { eauto. } apply IH in H. intros a Ha. apply H. right; auto. Qed.

  Lemma dfs_closed fuel : forall todo seen out, dfs succ fuel todo seen = Some out ->
     dclosed seen todo -> dclosed out [] /\ incl todo out.
  Proof.
    induction fuel as [|f IH]; intros todo seen out H C; [discriminate|]. cbn [dfs] in H.
    destruct todo as [|x rest]. { inversion H; subst. split; auto. intros a []. }
    destruct (memN x seen) eqn:E.
    - apply memN_In in E. pose proof (dfs_mono _ _ _ _ H) as M.
      destruct (IH _ _ _ H) as [C' I'].
      { intros a b Ha Hb. destruct (C a b Ha Hb) as [Hq|[Hq|Hq]]; auto. subst b. auto. }
      split; auto. intros a [Hq|Ha]; auto. subst a. apply M; auto.
    - pose proof (dfs_mono _ _ _ _ H) as M.
      destruct (IH _ _ _ H) as [C' I'].
      { intros a b Ha Hb. destruct Ha as [->|Ha].
        - right. apply in_or_app. left. apply -> in_rev. auto.
        - destruct (C a b Ha Hb) as [Hq|[Hq|Hq]].
          + left; right; exact Hq.
          + left; left; exact Hq.
          + right. apply in_or_app; right; exact Hq. }
      split; auto. intros a [Hq|Ha]. { subst a. apply M. left; reflexivity. } apply I'. apply in_or_app; right; exact Ha.
  Qed.

  Lemma dclosed_path out : dclosed out [] -> forall x z, path succ x z -> In x out -> In z out.
  Proof. intros C x z R. induction R; auto. intros Hx. apply IHR. destruct (C x y Hx H) as [|[]]; auto. Qed.

  Theorem dfs_correct fuel targets out : dfs succ fuel targets [] = Some out ->
     forall z, In z out <-> exists t, In t targets /\ path succ t z.
  Proof. intros H z. split.
    - intros Hz. destruct (dfs_sound _ _ _ _ H z Hz) as [[]|]; auto.
    - intros [t [Ht R]]. destruct (dfs_closed _ _ _ _ H) as [C I]. { intros a b []. }
      eapply dclosed_path; eauto. Qed.

  (* ---------------------------------------------------------------- dfs: fuel *)
  Variable U : list N.
  Hypothesis succ_out : forall x, ~ In x U -> succ x = [].

  Fixpoint unseen_cost (V seen : list N) : nat :=
    match V with
    | [] => 0
    | x :: V' => (if memN x seen then 0 else length (succ x)) + unseen_cost V' seen
    end.
  Lemma unseen_cost_mono V seen x : unseen_cost V (x :: seen) <= unseen_cost V seen.
  Proof. induction V as [|a V IH]; cbn [unseen_cost]; [lia|].
    assert (memN a seen = true -> memN a (x :: seen) = true).
    { rewrite !memN_In. intros; right; auto. }
    destruct (memN a seen) eqn:E1; destruct (memN a (x :: seen)) eqn:E2; try lia; try (specialize (H eq_refl); discriminate). Qed.
  Lemma unseen_cost_drop V seen x : In x V -> memN x seen = false ->
    unseen_cost V (x :: seen) + length (succ x) <= unseen_cost V seen.
  Proof. induction V as [|a V IH]; intros Hin Hs; [destruct Hin|]. cbn [unseen_cost].
    destruct (N.eq_dec a x) as [->|Hne].
    - rewrite Hs. replace (memN x (x :: seen)) with true by (symmetry; apply memN_In; left; auto).
      pose proof (unseen_cost_mono V seen x). lia.
    - destruct Hin as [?|Hin]; [congruence|]. specialize (IH Hin Hs).
      assert (memN a (x :: seen) = memN a seen).
      { destruct (memN a seen) eqn:E.
        - apply memN_In. right. apply memN_In; auto.
        - apply memN_nIn. intros [?|?]; [congruence|]. apply memN_nIn in E. auto. }
      rewrite H. lia. Qed.

  Lemma dfs_fuel_enough fuel : forall todo seen, length todo + unseen_cost U seen < fuel -> dfs succ fuel todo seen <> None.
  Proof. induction fuel as [|f IH]; intros todo seen Hlt; [lia|]. cbn [dfs].
    destruct todo as [|x rest]; [discriminate|]. cbn [length] in Hlt.
    destruct (memN x seen) eqn:E.
    - apply IH. lia.
    - apply IH. rewrite app_length, rev_length.
      destruct (in_dec N.eq_dec x U) as [Hin|Hout].
      + pose proof (unseen_cost_drop U seen x Hin E). lia.
      + rewrite (succ_out x Hout). pose proof (unseen_cost_mono U seen x). cbn [length]. lia. Qed.

  Lemma unseen_cost_edges V : unseen_cost V [] <= edge_count succ V.
  Proof. induction V as [|a V IH]; cbn [unseen_cost edge_count fold_right]; [lia|]. unfold edge_count in IH. cbn [memN existsb]. lia. Qed.
End DFS.

Lemma find_rev_None G x : ~ In x (ids G) -> find_rev G x = None.
Proof. induction G as [|r G IH]; cbn [find_rev ids map]; auto. intros H.
  destruct (N.eqb_spec (r_id r) x) as [E|Hne]. { exfalso; apply H; left; auto. } apply IH. intro; apply H; right; auto. Qed.
Lemma find_rev_Some G x r : find_rev G x = Some r -> In r G /\ r_id r = x.
Proof. induction G as [|a G IH]; cbn [find_rev]; [discriminate|].
  destruct (N.eqb_spec (r_id a) x) as [E|Hne].
  - inversion 1; subst. split; [left|]; auto.
  - intros H. destruct (IH H). split; [right|]; auto. Qed.
Lemma find_rev_In G r : NoDup (ids G) -> In r G -> find_rev G (r_id r) = Some r.
Proof. induction G as [|a G IH]; intros ND Hin; [destruct Hin|]. cbn [find_rev].
  cbn [ids map] in ND. inversion ND as [|? ? Hn ND']; subst.
  destruct (N.eqb_spec (r_id a) (r_id r)) as [E|Hne].
  - destruct Hin as [->|Hin]; auto. exfalso. apply Hn. rewrite E. apply in_map. auto.
  - destruct Hin as [->|Hin]; [congruence|]. apply IH; auto. Qed.

Lemma of_rev_out f G x : ~ In x (ids G) -> of_rev f G x = [].
Proof. intros H. unfold of_rev. rewrite find_rev_None; auto. Qed.

(* reach_set over an `of_rev` successor function: total and exactly the reachable set *)
Lemma reach_set_spec succ G targets : (forall x, ~ In x (ids G) -> succ x = []) ->
  exists l, reach_set succ G targets = Some l /\ forall z, In z l <-> exists t, In t targets /\ path succ t z.
Proof. intros Hout. unfold reach_set.
  destruct (dfs succ (dfs_fuel succ G targets) targets []) as [l|] eqn:E.
  - exists l. split; auto. apply dfs_correct with (fuel := dfs_fuel succ G targets). auto.
  - exfalso. revert E. apply dfs_fuel_enough with (U := ids G); auto.
    unfold dfs_fuel. pose proof (unseen_cost_edges succ (ids G)). lia. Qed.

(* children functions: exact converse of the parent functions on a well-formed graph *)
Lemma children_by_In f G x c : In c (children_by f G x) <-> exists r, In r G /\ r_id r = c /\ In x (f r).
Proof. unfold children_by. rewrite in_map_iff. split.
  - intros [r [E Hr]]. apply filter_In in Hr. destruct Hr as [Hr Hm]. apply memN_In in Hm. exists r. auto.
  - intros [r [Hr [E Hx]]]. exists r. split; auto. apply filter_In. split; auto. apply memN_In; auto. Qed.
Lemma all_nextrev_iff G x c : NoDup (ids G) -> In c (all_nextrev G x) <-> In x (all_down G c).
Proof. intros ND. unfold all_nextrev. rewrite children_by_In. unfold all_down, of_rev. split.
  - intros [r [Hr [E Hx]]]. subst c. rewrite find_rev_In; auto.
  - destruct (find_rev G c) as [r|] eqn:E; [|intros []]. apply find_rev_Some in E. destruct E. intros. exists r; auto. Qed.
Lemma all_nextrev_out G x : wf_refs G -> ~ In x (ids G) -> all_nextrev G x = [].
Proof. intros [ND Hw] Hx. destruct (all_nextrev G x) as [|c l] eqn:E; auto. exfalso.
  assert (Hc : In c (all_nextrev G x)) by (rewrite E; left; auto).
  unfold all_nextrev in Hc. apply children_by_In in Hc. destruct Hc as [r [Hr [_ Hin]]].
  apply Hx. destruct (Hw r Hr) as [H1 H2]. unfold all_down_r in Hin. rewrite dedupe_In in Hin.
  apply in_app_or in Hin. destruct Hin; auto. Qed.
Lemma path_up_down G x y : NoDup (ids G) -> path (all_nextrev G) x y <-> path (all_down G) y x.
Proof. intros ND. split; apply path_rev; intros a b H; apply (all_nextrev_iff G); auto. Qed.

(* ------------------------------------------------------------------ acyclic + finite => well-founded *)
Section WF.
  Variable succ : N -> list N.
  Variable U : list N.
  Hypothesis succ_in : forall x y, In y (succ x) -> In y U.
  Hypothesis acyc : ~ cyclic succ.

  Fixpoint is_walk (x:N) (l:list N) : Prop :=
    match l with [] => True | y :: l' => In y (succ x) /\ is_walk y l' end.

  Lemma walk_incl x l : is_walk x l -> incl l U.
  Proof. revert x; induction l as [|y l IH]; intros x H a Ha; [destruct Ha|]. destruct H as [H1 H2].
    destruct Ha as [->|Ha]; eauto. eapply IH; eauto. Qed.
  Lemma walk_path1 x l : is_walk x l -> forall y, In y l -> path1 succ x y.
  Proof. revert x; induction l as [|a l IH]; intros x H y Hy; [destruct Hy|]. destruct H as [H1 H2].
    destruct Hy as [->|Hy]. { exists y. split; auto. constructor. }
    exists a. split; auto. apply path1_path. eapply IH; eauto. Qed.
  Lemma walk_app x l1 a l2 : is_walk x (l1 ++ a :: l2) -> is_walk a l2.
  Proof. revert x; induction l1 as [|b l1 IH]; intros x H; cbn in H; destruct H as [H1 H2]; eauto. Qed.

  Lemma dup_split (l:list N) : NoDup l \/ exists a l1 l2, l = l1 ++ a :: l2 /\ In a l2.
  Proof. induction l as [|x l IH]; [left; constructor|].
    destruct (in_dec N.eq_dec x l) as [Hin|Hout].
    - right. exists x, [], l. auto.
    - destruct IH as [ND|[a [l1 [l2 [E Ha]]]]].
      + left. constructor; auto.
      + right. exists a, (x :: l1), l2. subst l. auto. Qed.

  Lemma walk_short x l : is_walk x l -> length l <= length U.
  Proof. intros W. destruct (dup_split l) as [ND|[a [l1 [l2 [E Ha]]]]].
    - apply NoDup_incl_length; auto. eapply walk_incl; eauto.
    - exfalso. apply acyc. exists a. subst l. apply walk_app in W. eapply walk_path1; eauto. Qed.

  Lemma acc_bounded n : forall x, (forall l, is_walk x l -> length l < n) -> Acc (fun y x => In y (succ x)) x.
  Proof. induction n as [|n IH]; intros x H.
    - exfalso. specialize (H [] I). cbn in H. lia.
    - constructor. intros y Hy. apply IH. intros l W. specialize (H (y :: l)). cbn in H. assert (S (length l) < S n) by (apply H; auto). lia. Qed.

  Theorem acyclic_wf : well_founded (fun y x => In y (succ x)).
  Proof. intros x. apply acc_bounded with (n := S (length U)). intros l W. pose proof (walk_short x l W). lia. Qed.
End WF.

(* ------------------------------------------------------------------ counting / permb *)
Lemma countN_In x l : In x l <-> countN x l > 0.
Proof. unfold countN. induction l as [|a l IH]; cbn [filter length]; [split; [intros []|lia]|].
  destruct (N.eqb_spec x a) as [->|Hne]; cbn [length].
  - split; [lia|left; auto].
  - rewrite <- IH. split; [intros [?|?]; [congruence|auto]|right; auto]. Qed.
Lemma countN_nIn x l : ~ In x l -> countN x l = 0.
Proof. intros H. rewrite countN_In in H. lia. Qed.
Lemma countN_NoDup l : NoDup l <-> forall x, countN x l <= 1.
Proof. induction l as [|a l IH].
  - split; [intros; cbn; lia|constructor].
  - split.
    + inversion 1 as [|? ? Hn ND]; subst. intros x. unfold countN. cbn [filter].
      destruct (N.eqb_spec x a) as [->|Hne]; cbn [length].
      * apply countN_nIn in Hn. unfold countN in Hn. lia.
      * apply IH; auto.
    + intros H. constructor.
      * intros Hin. apply countN_In in Hin. specialize (H a). unfold countN in *. cbn [filter] in H. rewrite N.eqb_refl in H. cbn [length] in H. lia.
      * apply IH. intros x. specialize (H x). unfold countN in *. cbn [filter] in H. destruct (N.eqb x a); cbn [length] in H; lia.
Qed.
