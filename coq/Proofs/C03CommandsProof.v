(* C03 for a whole sequence of upgrade / downgrade COMMANDS planned by the planner models (C01/C02) from the
   empty database: induction over the command list with InvR as the loop invariant.  "Any reachable state"
   is literally what the induction passes through. *)
From AV Require Import Model.Heads Model.Plan Spec.C01 Spec.C02 Spec.C03 Proofs.C03Graph Proofs.HeadsProof
  Proofs.PlanProof Proofs.ComposeProof.
From Coq Require Import Permutation.

(* a command as the user gives it, already resolved to revisions (resolution: C16) *)
Inductive pcmd :=
| PUp (targets : list N)                     (* upgrade <targets>   (heads = all real heads) *)
| PDown (target branch : option N).          (* downgrade <target>  (None = base)            *)

Definition plan_of (G:graph) (c:pcmd) (rws:list N) : list step :=
  match c with
  | PUp T => match upgrade_plan G T rws with POk p => up_steps p | PErr _ => [] end
  | PDown t b => match downgrade_plan G t b rws with POk p => down_steps p | PErr _ => [] end
  end.                                        (* a planner refusal (CommandError) runs no step *)

(* the commands with the plans the planner computes from the rows the previous command left *)
Fixpoint plan_cmds (G:graph) (ord:list N -> list N) (cmds:list pcmd) (rws:list N) : list cmd :=
  match cmds with
  | [] => []
  | c :: rest =>
    let steps := plan_of G c rws in
    (EndNone, steps) :: match run_cmd G ord steps rws with
                        | (_, Some r) => plan_cmds G ord rest r
                        | (_, None) => []
                        end
  end.

Definition pcmd_ok (G:graph) (c:pcmd) : Prop := match c with PUp T => incl T (ids G) | PDown _ _ => True end.

Section Commands.
  Variable G : graph.
  Variable ord : list N -> list N.
  Hypothesis WF : wf_refs G.
  Hypothesis AC : ~ cyclic (all_down G).
  Hypothesis NOK : ndeps_ok G.
  Hypothesis NOK3 : Spec.C03.ndeps_okb G = true.
  Hypothesis OP : forall l, Permutation (ord l) l.

  Lemma InvR_anc A rws : InvR G A rws -> forall z, In z A <-> AncOf G rws z.
  Proof. intros I. pose proof (gwf_of G WF AC NOK3) as W.
    pose proof (Inv_rows_ok G A (start rws) W (start_Inv G A rws I)) as [_ [_ [_ Himp]]]. exact Himp. Qed.

  Lemma plan_of_valid c A rws : pcmd_ok G c -> InvR G A rws -> valid_steps G A (plan_of G c rws).
  Proof. intros OK I. pose proof (InvR_anc A rws I) as HA. destruct c as [T|t b]; cbn [plan_of].
    - destruct (upgrade_plan G T rws) as [p|e] eqn:E; [|exact Logic.I].
      apply (upgrade_plan_valid G WF AC NOK T rws A p); auto.
    - destruct (downgrade_plan G t b rws) as [p|e] eqn:E; [|exact Logic.I].
      apply (downgrade_plan_valid G WF AC NOK t b rws A p); auto. Qed.

  Theorem plan_cmds_valid : forall cmds A rws, (forall c, In c cmds -> pcmd_ok G c) -> InvR G A rws ->
    valid_cmds G A (plan_cmds G ord cmds rws).
  Proof. pose proof (gwf_of G WF AC NOK3) as W.
    induction cmds as [|c cmds IH]; intros A rws OK I; cbn [plan_cmds valid_cmds]; auto.
    assert (V : valid_steps G A (plan_of G c rws)) by (apply plan_of_valid; auto; apply OK; left; auto).
    destruct (run_cmd_thm G ord W OP EndNone (plan_of G c rws) A rws I V Logic.I) as [os [rws' [E [_ [_ [I' _]]]]]].
    rewrite E. split; auto. split; [exact Logic.I|]. apply IH; auto. intros c' Hc'. apply OK. right; auto. Qed.

  Theorem command_sequence cmds : (forall c, In c cmds -> pcmd_ok G c) ->
    C03_holds (G, [], false, plan_cmds G ord cmds []) (run_cmds G ord (map snd (plan_cmds G ord cmds [])) []).
  Proof. intros OK. apply (main_trace G ord [] (plan_cmds G ord cmds []) []); [exact WF|exact AC|exact NOK3|exact OP|reflexivity|].
    apply plan_cmds_valid; auto. split; [intros x p []|]. split; [constructor|]. intros x. cbn. tauto. Qed.
End Commands.
