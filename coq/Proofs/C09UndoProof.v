(* C09 — the reversed operation list undoes the list on the abstract database states of
   Model/C09Ddl.v (C09_undo).  Part 1: the string order and the sorted-map algebra. *)
From AV Require Import Model.Ops Spec.C09 Model.C09Ddl Proofs.OpsProof Proofs.C09ExactProof.

(* ------------------------------------------------------------------ cmp_str is a strict total order *)

Lemma cmp_refl a : cmp_str a a = Eq.
Proof. induction a as [|x a IH]; cbn; auto. rewrite N.compare_refl. exact IH. Qed.

Lemma cmp_eq a b : cmp_str a b = Eq -> a = b.
Proof.
  revert b; induction a as [|x a IH]; intros [|y b]; cbn; try discriminate; auto.
  destruct (N.compare x y) eqn:E; try discriminate. intros H. apply N.compare_eq in E. f_equal; auto.
Qed.

Lemma cmp_antisym a b : cmp_str b a = CompOpp (cmp_str a b).
Proof.
  revert b; induction a as [|x a IH]; intros [|y b]; cbn; auto.
  rewrite (N.compare_antisym x y). destruct (N.compare x y); cbn; auto.
Qed.

Lemma cmp_lt_gt a b : cmp_str a b = Lt -> cmp_str b a = Gt.
Proof. intros H. rewrite cmp_antisym, H. reflexivity. Qed.
Lemma cmp_gt_lt a b : cmp_str a b = Gt -> cmp_str b a = Lt.
Proof. intros H. rewrite cmp_antisym, H. reflexivity. Qed.

Lemma cmp_trans a b c : cmp_str a b = Lt -> cmp_str b c = Lt -> cmp_str a c = Lt.
Proof.
  revert b c; induction a as [|x a IH]; intros [|y b] [|z c]; cbn; try discriminate; auto.
  destruct (N.compare x y) eqn:E1; try discriminate; destruct (N.compare y z) eqn:E2; try discriminate; intros H1 H2.
  - apply N.compare_eq in E1. apply N.compare_eq in E2. subst. rewrite N.compare_refl. eapply IH; eauto.
  - apply N.compare_eq in E1. subst. rewrite E2. reflexivity.
  - apply N.compare_eq in E2. subst. rewrite E1. reflexivity.
  - apply N.compare_lt_iff in E1. apply N.compare_lt_iff in E2.
    assert (E : (x ?= z)%N = Lt) by (apply N.compare_lt_iff; eapply N.lt_trans; eauto). rewrite E. reflexivity.
Qed.

Lemma cmp_neq a b : a <> b -> cmp_str a b <> Eq.
Proof. intros H E. apply H. apply cmp_eq; auto. Qed.

(* ------------------------------------------------------------------ sorted maps *)

Section SMap.
  Context {V : Type}.
  Implicit Types (m : smap V) (k : str) (v : V).

  Lemma lookup_In k m v : lookup k m = Some v -> In (k, v) m.
  Proof.
    induction m as [|[k' v'] r IH]; cbn; [discriminate|].
    destruct (cmp_str k k') eqn:E; intros H; auto.
    apply cmp_eq in E. inversion H; subst. auto.
  Qed.

  Lemma lookup_above k m : (forall k' v', In (k', v') m -> cmp_str k k' = Lt) -> lookup k m = None.
  Proof.
    induction m as [|[k' v'] r IH]; cbn; auto. intros H.
    rewrite (H k' v') by auto. apply IH. intros; eapply H; eauto.
  Qed.

  Lemma lookup_put_eq k v m : lookup k (put k v m) = Some v.
  Proof.
    induction m as [|[k' v'] r IH]; cbn; [rewrite cmp_refl; auto|].
    destruct (cmp_str k k') eqn:E; cbn; rewrite ?cmp_refl, ?E; auto.
  Qed.

  Lemma lookup_put_ne k k0 v m : k0 <> k -> lookup k0 (put k v m) = lookup k0 m.
  Proof.
    intros Hne. induction m as [|[k' v'] r IH]; cbn.
    - destruct (cmp_str k0 k) eqn:E; auto. apply cmp_eq in E. congruence.
    - destruct (cmp_str k k') eqn:E; cbn.
      + apply cmp_eq in E. subst k'. destruct (cmp_str k0 k) eqn:E2; auto. apply cmp_eq in E2. congruence.
      + destruct (cmp_str k0 k) eqn:E2; auto. apply cmp_eq in E2. congruence.
      + rewrite IH. reflexivity.
  Qed.

  Lemma del_put k v m : lookup k m = None -> del k (put k v m) = m.
  Proof.
    induction m as [|[k' v'] r IH]; cbn; [rewrite cmp_refl; auto|].
    destruct (cmp_str k k') eqn:E; cbn; intros H; try discriminate.
    - rewrite cmp_refl. reflexivity.
    - rewrite E, IH; auto.
  Qed.

  Lemma put_put k v1 v2 m : put k v2 (put k v1 m) = put k v2 m.
  Proof.
    induction m as [|[k' v'] r IH]; cbn; [rewrite cmp_refl; auto|].
    destruct (cmp_str k k') eqn:E; cbn; rewrite ?cmp_refl, ?E, ?IH; auto.
  Qed.

  Lemma put_same k v m : sorted m -> lookup k m = Some v -> put k v m = m.
  Proof.
    induction m as [|[k' v'] r IH]; cbn; [discriminate|]. intros [Hs1 Hs2].
    destruct (cmp_str k k') eqn:E; intros H.
    - apply cmp_eq in E. inversion H; subst. reflexivity.
    - apply lookup_In in H. apply Hs1 in H. apply cmp_lt_gt in H. congruence.
    - rewrite IH; auto.
  Qed.

  Lemma put_del k v m : sorted m -> lookup k m = Some v -> put k v (del k m) = m.
  Proof.
    induction m as [|[k' v'] r IH]; cbn; [discriminate|]. intros [Hs1 Hs2].
    destruct (cmp_str k k') eqn:E; intros H.
    - apply cmp_eq in E. inversion H; subst. destruct r as [|[k2 v2] r2]; cbn; auto.
      rewrite (Hs1 k2 v2) by (left; auto). reflexivity.
    - apply lookup_In in H. apply Hs1 in H. apply cmp_lt_gt in H. congruence.
    - cbn. rewrite E, IH; auto.
  Qed.

  Lemma lookup_del_eq k m : sorted m -> lookup k (del k m) = None.
  Proof.
    induction m as [|[k' v'] r IH]; cbn; auto. intros [Hs1 Hs2].
    destruct (cmp_str k k') eqn:E; cbn.
    - apply cmp_eq in E. subst. apply lookup_above. exact Hs1.
    - rewrite E. apply lookup_above. intros k2 v2 H2. eapply cmp_trans; eauto.
    - rewrite E. auto.
  Qed.

  Lemma lookup_del_ne k k0 m : k0 <> k -> lookup k0 (del k m) = lookup k0 m.
  Proof.
    intros Hne. induction m as [|[k' v'] r IH]; cbn; auto.
    destruct (cmp_str k k') eqn:E; cbn; auto.
    - apply cmp_eq in E. subst k'. destruct (cmp_str k0 k) eqn:E2; auto. apply cmp_eq in E2. congruence.
    - rewrite IH. reflexivity.
  Qed.

  Lemma In_put k v m x : In x (put k v m) -> x = (k, v) \/ In x m.
  Proof.
    induction m as [|[k' v'] r IH]; cbn; [intuition|].
    destruct (cmp_str k k') eqn:E; cbn; intuition.
  Qed.

  Lemma In_del k m x : In x (del k m) -> In x m.
  Proof.
    induction m as [|[k' v'] r IH]; cbn; auto.
    destruct (cmp_str k k') eqn:E; cbn; intuition.
  Qed.

  Lemma sorted_put k v m : sorted m -> sorted (put k v m).
  Proof.
    induction m as [|[k' v'] r IH]; cbn; [intuition|]. intros [Hs1 Hs2].
    destruct (cmp_str k k') eqn:E; cbn.
    - apply cmp_eq in E. subst. auto.
    - split; [|auto]. intros k2 v2 [H|H]; [inversion H; subst; auto|]. eapply cmp_trans; eauto.
    - split; [|auto]. intros k2 v2 H. apply In_put in H as [H|H]; [inversion H; subst; apply cmp_gt_lt; auto|eauto].
  Qed.

  Lemma sorted_del k m : sorted m -> sorted (del k m).
  Proof.
    induction m as [|[k' v'] r IH]; cbn; auto. intros [Hs1 Hs2].
    destruct (cmp_str k k') eqn:E; cbn; auto.
    split; auto. intros k2 v2 H. apply In_del in H. eauto.
  Qed.
End SMap.

Lemma sorted_fold_put {V A} (f : smap V -> A -> smap V) (l : list A) (m : smap V) :
  (forall m a, sorted m -> sorted (f m a)) -> sorted m -> sorted (fold_left f l m).
Proof. intros Hf. revert m; induction l as [|a r IH]; cbn; auto. Qed.

(* ------------------------------------------------------------------ table states *)

Lemma set_cols_set_cols ts a b : set_cols (set_cols ts a) b = set_cols ts b.
Proof. reflexivity. Qed.
Lemma set_cols_id ts : set_cols ts (ts_cols ts) = ts.
Proof. destruct ts; reflexivity. Qed.
Lemma set_cons_id ts : set_cons ts (ts_cons ts) = ts.
Proof. destruct ts; reflexivity. Qed.
Lemma set_idx_id ts : set_idx ts (ts_idx ts) = ts.
Proof. destruct ts; reflexivity. Qed.
Lemma set_comment_id ts : set_comment ts (ts_comment ts) = ts.
Proof. destruct ts; reflexivity. Qed.

Lemma wf_ts_of t : wf_ts (ts_of t).
Proof.
  unfold wf_ts, ts_of; cbn. repeat split.
  - apply sorted_fold_put; cbn; auto. intros; apply sorted_put; auto.
  - apply sorted_fold_put; cbn; auto. intros m a Hm. destruct (constr_name a); auto. apply sorted_put; auto.
  - apply sorted_fold_put; cbn; auto. intros m a Hm. destruct (i_name a); auto. apply sorted_put; auto.
Qed.

Lemma cols_of_clear l : cols_of (map clear_flags l) = cols_of l.
Proof.
  unfold cols_of. generalize (@nil (str * colattr)). induction l as [|a r IH]; intros m; cbn; auto.
Qed.

(* re-creating a table from what DropTableOp.to_table describes gives the same state *)
Lemma ts_of_recreate n s c p kw rev :
  let td := drop_to_table n s c p kw rev in
  ts_of (create_to_table (mkT n s (t_cols td) (t_cons td) [] c p kw) true) = ts_of td.
Proof.
  unfold ts_of, create_to_table, drop_to_table, flags_off.
  cbn [t_cols t_cons t_idx t_name t_schema t_comment t_prefixes t_kw map]. rewrite cols_of_clear.
  destruct rev; cbn [map]; rewrite ?map_onto_table_idem; reflexivity.
Qed.

Lemma wf_lookup A k ts : wf_db A -> lookup k A = Some ts -> wf_ts ts.
Proof. intros [_ H] Hl. eapply H. apply lookup_In. eauto. Qed.

Lemma wf_put A k ts : wf_db A -> wf_ts ts -> wf_db (put k ts A).
Proof.
  intros [Hs Hf] Hts. split; [apply sorted_put; auto|].
  intros k' ts' H. apply In_put in H as [H|H]; [inversion H; subst; auto|eauto].
Qed.

Lemma wf_del A k : wf_db A -> wf_db (del k A).
Proof.
  intros [Hs Hf]. split; [apply sorted_del; auto|]. intros k' ts' H. apply In_del in H. eauto.
Qed.

(* the common shape of every ALTER TABLE-level operation and its reversal *)
Lemma on_table_undo s t f g A ts ts' :
  wf_db A -> lookup (qkey s t) A = Some ts -> f ts = Some ts' -> g ts' = Some ts -> wf_ts ts' ->
  on_table s t f A = Some (put (qkey s t) ts' A) /\
  on_table s t g (put (qkey s t) ts' A) = Some A /\
  wf_db (put (qkey s t) ts' A).
Proof.
  intros Hwf Hl Hf Hg Hts. unfold on_table. rewrite Hl, Hf. split; [reflexivity|]. split.
  - rewrite lookup_put_eq, Hg, put_put. f_equal. apply put_same; [apply Hwf|auto].
  - apply wf_put; auto.
Qed.

Lemma on_table_back s t g A ts ts' :
  wf_db A -> lookup (qkey s t) A = Some ts -> g ts' = Some ts -> wf_ts ts' ->
  on_table s t g (put (qkey s t) ts' A) = Some A /\ wf_db (put (qkey s t) ts' A).
Proof.
  intros Hwf Hl Hg Hts. unfold on_table. split.
  - rewrite lookup_put_eq, Hg, put_put. f_equal. apply put_same; [apply Hwf|auto].
  - apply wf_put; auto.
Qed.

Lemma with_table_true s t f A : with_table s t f A = true -> exists ts, lookup (qkey s t) A = Some ts /\ f ts = true.
Proof. unfold with_table. destruct (lookup (qkey s t) A) as [ts|]; [eauto|discriminate]. Qed.

Lemma on_table_some s t f A B : on_table s t f A = Some B ->
  exists ts ts', lookup (qkey s t) A = Some ts /\ f ts = Some ts' /\ B = put (qkey s t) ts' A.
Proof.
  unfold on_table. destruct (lookup (qkey s t) A) as [ts|]; [|discriminate].
  destruct (f ts) as [ts'|] eqn:E; [|discriminate]. intros H; inversion H. eauto.
Qed.

(* ------------------------------------------------------------------ constraints through from_constraint *)

Lemma truthy_b_idem x : truthy_b (truthy_b x) = truthy_b x.
Proof. destruct x as [[|]|]; reflexivity. Qed.
Lemma truthy_s_idem x : truthy_s (truthy_s x) = truthy_s x.
Proof. destruct x as [[|]|]; reflexivity. Qed.

Lemma norm_to_from c : norm_constr (to_constraint (from_constraint c)) = norm_constr c.
Proof.
  destruct c as [n t s cs k|n t s cs d i k|n t s cs rt rs rcs o k|n t s c k]; cbn; try reflexivity.
  - rewrite truthy_s_idem. reflexivity.
  - unfold norm_fkopts; cbn. rewrite !truthy_s_idem. reflexivity.
Qed.
Lemma name_to_from c : constr_name (to_constraint (from_constraint c)) = constr_name c.
Proof. destruct c; reflexivity. Qed.
Lemma table_to_from c : constr_table (to_constraint (from_constraint c)) = constr_table c.
Proof. destruct c; reflexivity. Qed.
Lemma schema_to_from c : constr_schema (to_constraint (from_constraint c)) = constr_schema c.
Proof. destruct c; reflexivity. Qed.
Lemma name_retarget n t s c : constr_name (retarget n t s c) = n.
Proof. destruct c; cbn; auto. destruct (_ && _); reflexivity. Qed.
Lemma table_retarget n t s c : constr_table (retarget n t s c) = t.
Proof. destruct c; cbn; auto. destruct (_ && _); reflexivity. Qed.
Lemma schema_retarget n t s c : constr_schema (retarget n t s c) = s.
Proof. destruct c; cbn; auto. destruct (_ && _); reflexivity. Qed.

Lemma table_or_no_table_idem t : table_or_no_table (table_or_no_table t) = table_or_no_table t.
Proof. destruct t; reflexivity. Qed.

Ltac tsx := cbn; unfold set_cons, set_cols, set_idx, set_comment; cbn.

(* ------------------------------------------------------------------ one operation *)

Definition undone (o : op) (A : db) : Prop :=
  exists o' B, reverse o = Ok o' /\ apply_op o A = Some B /\ apply_op o' B = Some A /\ wf_db B.

Lemma decb_opt_true {T} (d : forall a b : T, {a = b} + {a <> b}) a b : decb (option_eq_dec d) a (Some b) = true -> a = Some b.
Proof. apply decb_true. Qed.

Lemma undo_op o A : wf_db A -> undoable_op o A = true -> undone o A.
Proof.
  intros Hwf. unfold undone. destruct o; cbn [undoable_op reverse]; intros Hu; try discriminate.
  - (* AddConstraintOp *)
    destruct (apply_op (AddConstraintOp a) A) as [B|] eqn:Hap; [|discriminate]. clear Hu.
    cbn [apply_op] in Hap. set (c := to_constraint a) in *.
    destruct (constr_name c) as [n|] eqn:Hn; [|discriminate].
    apply on_table_some in Hap as (ts & ts' & Hl & Hf & ->).
    destruct (lookup n (ts_cons ts)) eqn:Hln; [discriminate|]. inversion Hf; subst ts'; clear Hf.
    eexists; eexists. split; [reflexivity|].
    unfold drop_from_constraint. cbn [apply_op]. fold c. rewrite Hn.
    pose proof (wf_lookup _ _ _ Hwf Hl) as (Hc1 & Hc2 & Hc3).
    split; [reflexivity|]. eapply on_table_back; eauto; tsx.
    + tsx. rewrite lookup_put_eq, del_put by auto. destruct ts; reflexivity.
    + repeat split; auto. apply sorted_put; auto.
  - (* DropConstraintOp *)
    destruct name as [n|]; [|discriminate]. destruct rev as [a|]; [|discriminate].
    apply with_table_true in Hu as (ts & Hl & Hu). apply decb_opt_true in Hu.
    set (c := retarget (Some n) table schema (to_constraint a)) in *.
    eexists; eexists. split; [reflexivity|].
    cbn [apply_op]. fold c. rewrite name_to_from, table_to_from, schema_to_from.
    rewrite (name_retarget (Some n) table schema (to_constraint a) : constr_name c = Some n),
      (table_retarget (Some n) table schema (to_constraint a) : constr_table c = table),
      (schema_retarget (Some n) table schema (to_constraint a) : constr_schema c = schema).
    pose proof (wf_lookup _ _ _ Hwf Hl) as (Hc1 & Hc2 & Hc3).
    eapply on_table_undo; eauto; tsx.
    + rewrite Hu. reflexivity.
    + tsx. rewrite lookup_del_eq by auto. rewrite norm_to_from, put_del by auto. destruct ts; reflexivity.
    + repeat split; auto. apply sorted_del; auto.
  - (* CreateIndexOp *)
    destruct (apply_op (CreateIndexOp c) A) as [B|] eqn:Hap; [|discriminate]. clear Hu.
    cbn [apply_op] in Hap. destruct c as [n t cs s u ine kw]. cbn in Hap.
    destruct n as [n|]; [|discriminate].
    apply on_table_some in Hap as (ts & ts' & Hl & Hf & ->).
    destruct (lookup n (ts_idx ts)) eqn:Hln; [discriminate|]. inversion Hf; subst ts'; clear Hf.
    eexists; eexists. split; [reflexivity|].
    unfold drop_from_index. cbn. rewrite table_or_no_table_idem.
    pose proof (wf_lookup _ _ _ Hwf Hl) as (Hc1 & Hc2 & Hc3).
    split; [reflexivity|]. eapply on_table_back; eauto; tsx.
    + tsx. rewrite lookup_put_eq, del_put by auto. destruct ts; reflexivity.
    + repeat split; auto. apply sorted_put; auto.
  - (* DropIndexOp *)
    cbn in Hu. destruct name as [n|]; [|discriminate].
    apply with_table_true in Hu as (ts & Hl & Hu). apply decb_opt_true in Hu.
    eexists; eexists. split; [reflexivity|].
    cbn.
    assert (Et : table_or_no_table (match table with Some t => table_or_no_table t | None => no_table end)
                 = match table with Some t => table_or_no_table t | None => no_table end).
    { destruct table; [apply table_or_no_table_idem|reflexivity]. }
    rewrite ?Et.
    pose proof (wf_lookup _ _ _ Hwf Hl) as (Hc1 & Hc2 & Hc3).
    eapply on_table_undo; eauto; tsx.
    + rewrite Hu. reflexivity.
    + tsx. rewrite lookup_del_eq by auto. unfold idesc_of in Hu; cbn in Hu. unfold idesc_of; cbn.
      rewrite put_del by auto. destruct ts; reflexivity.
    + repeat split; auto. apply sorted_del; auto.
  - (* CreateTableOp *)
    destruct (t_idx t) eqn:Ei; [|discriminate].
    destruct (apply_op (CreateTableOp t if_not_exists constraints_included) A) as [B|] eqn:Hap; [|discriminate]. clear Hu.
    cbn [apply_op] in Hap. cbn in Hap.
    destruct (lookup (qkey (t_schema t) (t_name t)) A) eqn:Hl; [discriminate|]. inversion Hap; subst B; clear Hap.
    eexists; eexists. split; [reflexivity|]. split; [reflexivity|].
    split.
    + cbn. rewrite lookup_put_eq, del_put by auto. reflexivity.
    + apply wf_put; auto. apply wf_ts_of.
  - (* DropTableOp *)
    apply with_table_true in Hu as (ts & Hl & Hu). apply decb_true in Hu. subst ts.
    eexists; eexists. split; [reflexivity|]. cbn [apply_op]. rewrite Hl. split; [reflexivity|]. split.
    + unfold create_from_table. cbn [apply_op].
      pose proof (ts_of_recreate name schema comment prefixes kw rev) as E. cbn zeta in E.
      change (t_name (drop_to_table name schema comment prefixes kw rev)) with name.
      change (t_schema (drop_to_table name schema comment prefixes kw rev)) with schema.
      change (t_comment (drop_to_table name schema comment prefixes kw rev)) with comment.
      change (t_prefixes (drop_to_table name schema comment prefixes kw rev)) with prefixes.
      change (t_kw (drop_to_table name schema comment prefixes kw rev)) with kw.
      rewrite E. cbn [create_to_table t_name t_schema].
      rewrite lookup_del_eq by apply Hwf. f_equal. apply put_del; [apply Hwf|exact Hl].
    + apply wf_del; auto.
  - (* CreateTableCommentOp *)
    apply with_table_true in Hu as (ts & Hl & Hu). apply decb_true in Hu. subst existing_comment.
    pose proof (wf_lookup _ _ _ Hwf Hl) as Hts.
    destruct (ts_comment ts) as [e|] eqn:He.
    + eexists; eexists. split; [reflexivity|]. cbn [apply_op].
      eapply on_table_undo; eauto; tsx. destruct ts; cbn in *; subst; reflexivity.
    + eexists; eexists. split; [reflexivity|]. cbn [apply_op].
      eapply on_table_undo; eauto; tsx. destruct ts; cbn in *; subst; reflexivity.
  - (* DropTableCommentOp *)
    apply with_table_true in Hu as (ts & Hl & Hu). apply decb_true in Hu. subst existing_comment.
    pose proof (wf_lookup _ _ _ Hwf Hl) as Hts.
    eexists; eexists. split; [reflexivity|]. cbn [apply_op].
    eapply on_table_undo; eauto; tsx. destruct ts; reflexivity.
  - (* AlterColumnOp *)
    apply andb_true_iff in Hu as [Hap Hu].
    destruct (apply_op (AlterColumnOp a) A) as [B|] eqn:Hap'; [|discriminate]. clear Hap.
    cbn [apply_op] in Hap'. apply on_table_some in Hap' as (ts & ts' & Hl & Hf & ->).
    unfold with_table in Hu. rewrite Hl in Hu.
    destruct (lookup (ac_column a) (ts_cols ts)) as [c|] eqn:Hlc; [|discriminate].
    destruct (lookup (alter_new_name a) (del (ac_column a) (ts_cols ts))) eqn:Hln; [discriminate|].
    inversion Hf; subst ts'; clear Hf.
    apply andb_true_iff in Hu as [Hu H4]. apply andb_true_iff in Hu as [Hu H3]. apply andb_true_iff in Hu as [H1 H2].
    pose proof (wf_lookup _ _ _ Hwf Hl) as (Hc1 & Hc2 & Hc3).
    eexists; eexists. split; [reflexivity|]. cbn [apply_op].
    assert (Ht : ac_table (alter_reverse a) = ac_table a) by (destruct a as [t0 c0 s0 et es en ec mn mc ms mname mt kw0]; unfold alter_reverse; cbn; destruct mt, mn, ms, mc, mname; reflexivity).
    assert (Hs : ac_schema (alter_reverse a) = ac_schema a) by (destruct a as [t0 c0 s0 et es en ec mn mc ms mname mt kw0]; unfold alter_reverse; cbn; destruct mt, mn, ms, mc, mname; reflexivity).
    rewrite Ht, Hs.
    assert (Hcol : ac_column (alter_reverse a) = alter_new_name a).
    { destruct a as [t0 c0 s0 et es en ec mn mc ms mname mt kw0]; unfold alter_reverse, alter_new_name; cbn.
      destruct mt, mn, ms, mc, mname; reflexivity. }
    assert (Hnew : alter_new_name (alter_reverse a) = ac_column a).
    { destruct a as [t0 c0 s0 et es en ec mn mc ms mname mt kw0]; unfold alter_reverse, alter_new_name; cbn.
      destruct mt, mn, ms, mc, mname; reflexivity. }
    assert (Hattrs : alter_attrs (alter_reverse a) (alter_attrs a c) = c).
    { destruct a as [t0 c0 s0 et es en ec mn mc ms mname mt kw0]; destruct c as [cty cnu cde cco]; cbn in H1, H2, H3, H4.
      unfold alter_reverse, alter_attrs; cbn.
      destruct mt as [mt|]; cbn in H1; [apply decb_true in H1; subst et|];
      (destruct mn as [mn|]; cbn in H2; [apply decb_true in H2; subst en|];
       (destruct ms as [|ms]; cbn in H3; [|apply decb_true in H3; subst es];
        (destruct mc as [|mc]; cbn in H4; [|apply decb_true in H4; subst ec];
         (destruct mname; reflexivity)))). }
    split; [reflexivity|]. eapply on_table_back; eauto; tsx.
    + tsx. rewrite Hcol, Hnew, lookup_put_eq, del_put by auto.
      rewrite lookup_del_eq by auto. rewrite Hattrs, put_del by auto. destruct ts; reflexivity.
    + repeat split; auto. apply sorted_put. apply sorted_del. auto.
  - (* AddColumnOp *)
    destruct (apply_op (AddColumnOp table c schema) A) as [B|] eqn:Hap; [|discriminate]. clear Hu.
    cbn [apply_op] in Hap. apply on_table_some in Hap as (ts & ts' & Hl & Hf & ->).
    destruct (lookup (c_name c) (ts_cols ts)) eqn:Hlc; [discriminate|]. inversion Hf; subst ts'; clear Hf.
    pose proof (wf_lookup _ _ _ Hwf Hl) as (Hc1 & Hc2 & Hc3).
    eexists; eexists. split; [reflexivity|]. cbn [apply_op drop_to_column].
    split; [reflexivity|]. eapply on_table_back; eauto; tsx.
    + tsx. rewrite lookup_put_eq, del_put by auto. destruct ts; reflexivity.
    + repeat split; auto. apply sorted_put; auto.
  - (* DropColumnOp *)
    destruct rev as [[[t0 c] s0]|]; [|discriminate].
    apply with_table_true in Hu as (ts & Hl & Hu). apply decb_opt_true in Hu.
    pose proof (wf_lookup _ _ _ Hwf Hl) as (Hc1 & Hc2 & Hc3).
    eexists; eexists. split; [reflexivity|]. cbn [apply_op drop_to_column].
    eapply on_table_undo; eauto; tsx.
    + rewrite Hu. reflexivity.
    + tsx. rewrite lookup_del_eq by auto. rewrite put_del by auto. destruct ts; reflexivity.
    + repeat split; auto. apply sorted_del; auto.
Qed.

(* ------------------------------------------------------------------ lists *)

Section Lists.
  Context {X : Type} (R : X -> res X) (ap : X -> db -> option db) (und : X -> db -> bool).
  Hypothesis step : forall x A, wf_db A -> und x A = true ->
    exists x' B, R x = Ok x' /\ ap x A = Some B /\ ap x' B = Some A /\ wf_db B.

  Fixpoint apl (l : list X) (A : db) : option db :=
    match l with [] => Some A | x :: r => match ap x A with Some B => apl r B | None => None end end.
  Fixpoint undl (l : list X) (A : db) : bool :=
    match l with [] => true | x :: r => und x A && match ap x A with Some B => undl r B | None => false end end.

  Lemma apl_app l1 l2 A : apl (l1 ++ l2) A = match apl l1 A with Some B => apl l2 B | None => None end.
  Proof. revert A; induction l1 as [|x r IH]; intros A; cbn; auto. destruct (ap x A); auto. Qed.

  Lemma undo_list l A : wf_db A -> undl l A = true ->
    exists l' B, mapM R l = Ok l' /\ apl l A = Some B /\ apl (rev l') B = Some A /\ wf_db B.
  Proof.
    revert A; induction l as [|x r IH]; intros A Hwf Hu; cbn in *.
    - exists [], A. auto.
    - apply andb_true_iff in Hu as [Hu1 Hu2].
      destruct (step _ _ Hwf Hu1) as (x' & B & HR & Hap & Hback & HwfB).
      rewrite Hap in Hu2 |- *. destruct (IH _ HwfB Hu2) as (l' & C & HM & Hapl & Hbackl & HwfC).
      exists (x' :: l'), C. rewrite HR, HM. cbn. split; [reflexivity|]. split; [exact Hapl|]. split; [|exact HwfC].
      rewrite apl_app, Hbackl. cbn. rewrite Hback. reflexivity.
  Qed.
End Lists.

Lemma apl_apply_list l A : apl apply_op l A = apply_list l A.
Proof. revert A; induction l as [|x r IH]; intros A; cbn; auto; try (destruct (apply_op x A); auto). Qed.
Lemma undl_undoable_list l A : undl apply_op undoable_op l A = undoable_list l A.
Proof. revert A; induction l as [|x r IH]; intros A; cbn; auto; try (destruct (apply_op x A); rewrite ?IH; auto). Qed.
Lemma apl_apply_ops l A : apl apply_top l A = apply_ops l A.
Proof. revert A; induction l as [|x r IH]; intros A; cbn; auto; try (destruct (apply_top x A); auto). Qed.
Lemma undl_undoable_ops l A : undl apply_top undoable_top l A = undoable_ops l A.
Proof. revert A; induction l as [|x r IH]; intros A; cbn; auto; try (destruct (apply_top x A); rewrite ?IH; auto). Qed.

Lemma undo_top x A : wf_db A -> undoable_top x A = true ->
  exists x' B, reverse_top x = Ok x' /\ apply_top x A = Some B /\ apply_top x' B = Some A /\ wf_db B.
Proof.
  intros Hwf. destruct x as [o|t s l]; cbn [undoable_top reverse_top apply_top]; intros Hu.
  - destruct (undo_op _ _ Hwf Hu) as (o' & B & HR & Hap & Hback & HwfB).
    exists (Leaf o'), B. rewrite HR. cbn. auto.
  - rewrite <- undl_undoable_list in Hu.
    destruct (undo_list reverse apply_op undoable_op undo_op l A Hwf Hu) as (l' & B & HM & Hap & Hback & HwfB).
    exists (ModifyTableOps t s (rev l')), B. unfold reverse_list. rewrite HM. cbn.
    rewrite <- !apl_apply_list. auto.
Qed.

Lemma undo_ops up A : wf_db A -> undoable_ops up A = true ->
  exists down B, reverse_ops up = Ok down /\ apply_ops up A = Some B /\ apply_ops down B = Some A /\ wf_db B.
Proof.
  intros Hwf Hu. rewrite <- undl_undoable_ops in Hu.
  destruct (undo_list reverse_top apply_top undoable_top undo_top up A Hwf Hu) as (l' & B & HM & Hap & Hback & HwfB).
  exists (rev l'), B. unfold reverse_ops. rewrite HM. cbn. rewrite <- !apl_apply_ops. auto.
Qed.

Lemma wf_empty : wf_db [].
Proof. split; cbn; [auto|intros ? ? []]. Qed.

(* ------------------------------------------------------------------ decider soundness, the model on its classes *)

Lemma wf_db_of tables : wf_db (db_of tables).
Proof.
  unfold db_of. generalize wf_empty. generalize (@nil (str * tstate)).
  induction tables as [|t r IH]; intros A HA; cbn; auto.
  apply IH. apply wf_put; auto. apply wf_ts_of.
Qed.

Lemma restoresb_sound tables up down : restoresb tables up down = true -> restores tables up down.
Proof.
  unfold restoresb, restores. destruct down as [d|e]; [|discriminate].
  destruct (apply_ops up (db_of tables)) as [B|] eqn:HB; [|discriminate]. intros H.
  apply andb_true_iff in H as [H H3]. apply andb_true_iff in H as [H1 H2]. apply decb_true in H1. apply decb_true in H2.
  exists d, B. auto.
Qed.

Lemma check_C09_sound i o : check_C09 i o = true -> C09_holds i o.
Proof.
  destruct i as [x|up|tables up|tables t s ch], o as [r rr df dfr sql|down|down upup ok|up' down]; cbn [check_C09 C09_holds];
    try discriminate; intros H.
  - apply andb_true_iff in H as [H H4]. apply andb_true_iff in H as [H H3]. apply andb_true_iff in H as [H1 H2].
    split; [|split; [|split]].
    + intros x' ->. apply decb_true in H1. exact H1.
    + intros x'' ->. apply andb_true_iff in H2 as [H2 H5]. split; [apply ddl_equivb_top_sound; auto|auto].
    + intros ds ds' -> ->. eapply forall2b_Forall2; [|exact H3]. intros a b Hab; exact Hab.
    + intros ds ->. apply Nat.eqb_eq. exact H4.
  - apply andb_true_iff in H as [H1 H2]; split.
    + intros d ->. apply andb_true_iff in H1 as [H1 H3]. apply decb_true in H1. split; auto.
    + intros u ->. eapply forall2b_Forall2; [|exact H2]. apply ddl_equivb_top_sound.
  - apply restoresb_sound; auto.
  - apply restoresb_sound; auto.
Qed.

Lemma restores_model tables up : undoable_ops up (db_of tables) = true -> restores tables up (reverse_ops up).
Proof.
  intros Hs. destruct (undo_ops up (db_of tables) (wf_db_of tables) Hs) as (d & B & Hd & Hap & Hback & _).
  exists d, B. repeat split; auto. apply reverse_ops_kinds; auto.
Qed.

Lemma model_C09_holds i : inclass_C09 i = true -> C09_holds i (model_C09 i).
Proof.
  destruct i as [x|up|tables up|tables t s ch]; cbn [inclass_C09 model_C09 C09_holds]; intros Hs.
  - apply andb_true_iff in Hs as [Hs Hd]. split; [|split; [|split]].
    + intros x' H. apply reverse_top_kind; auto.
    + intros x'' H. split; [|reflexivity].
      destruct (reverse_top x) as [x'|e] eqn:Hx; cbn [bind] in H; [|discriminate].
      destruct (reverse_top_involutive _ _ Hs Hx) as [y [Hy He]]. rewrite Hy in H. inversion H; subst. exact He.
    + intros ds ds' H1 H2. destruct (reverse_top x) as [x'|e] eqn:Hx; cbn [bind] in H2; [|discriminate].
      destruct (top_inv_diff _ _ _ Hd Hx H1) as (ds2 & Hds2 & Hf). rewrite Hds2 in H2. inversion H2; subst. exact Hf.
    + intros ds H. apply as_diffs_length; auto.
  - split.
    + intros d H. split; [apply reverse_ops_kinds; auto|reflexivity].
    + intros u H.
      destruct (reverse_ops up) as [d|e] eqn:Hd; cbn [bind] in H; [|discriminate].
      destruct (reverse_ops_involutive _ _ Hs Hd) as [y [Hy He]]. rewrite Hy in H. inversion H; subst. exact He.
  - apply restores_model; auto.
  - apply restores_model; auto.
Qed.

(* had compare.py captured the metadata's object for the drop (the stored original of the DropConstraintOp = the NEW unique
   constraint), the upgrade would read the same and apply the same, but the captured payload would not describe the database
   and the downgrade would re-create the new columns *)
Definition w_cap_tables : list tdesc :=
  [ mkT [116%N] None [mkCol [97%N] 1%N true None None false false; mkCol [98%N] 1%N true None None false false] 
        [CUq (Some [117%N]) [116%N] None [[97%N]] None None 0%N] [] None [] 0%N ].
Definition w_cap_old : constr := CUq (Some [117%N]) [116%N] None [[97%N]] None None 0%N.
Definition w_cap_new : constr := CUq (Some [117%N]) [116%N] None [[97%N]; [98%N]] None None 0%N.
Lemma capture_witness :
  (* the real capture: undoable, restored *)
  inclass_C09 (InChange w_cap_tables [116%N] None (ChUnique w_cap_old w_cap_new)) = true /\
  (* old := new: same DDL for the upgrade, payload does not describe the database, database not restored *)
  let bad := capture_ops [116%N] None (ChUnique w_cap_new w_cap_new) in
  Forall2 ddl_equiv_top bad (capture_ops [116%N] None (ChUnique w_cap_old w_cap_new)) /\
  undoable_ops bad (db_of w_cap_tables) = false /\
  restoresb w_cap_tables bad (reverse_ops bad) = false.
Proof.
  split; [vm_compute; reflexivity|]. split; [|split; vm_compute; reflexivity].
  constructor; [|constructor]. cbn. repeat split. constructor; [reflexivity|]. constructor; [reflexivity|constructor].
Qed.

(* ------------------------------------------------------------------ one operation; and what happens without the stored original *)

(* DropTableCommentOp('t') built without existing_comment, on a table whose comment is 'o': it applies and reverses,
   but the reversal (CreateTableCommentOp('t', None)) does not give the comment back *)
Definition w_undo_db : db := [([0; 116]%N, mkTS [] [] [] (Some [111%N]) [] [] 0%N)].
Definition w_undo_op : op := DropTableCommentOp [116%N] None None.
Lemma undo_refuted_witness :
  wf_db w_undo_db /\ undoable_op w_undo_op w_undo_db = false /\
  exists o' B, reverse w_undo_op = Ok o' /\ apply_op w_undo_op w_undo_db = Some B /\
               exists C, apply_op o' B = Some C /\ C <> w_undo_db.
Proof.
  split.
  { split.
    - cbn. split; [intros ? ? []|exact I].
    - intros k ts H. cbn in H. destruct H as [H|[]]. inversion H; subst. repeat split; cbn; auto. }
  split; [reflexivity|]. eexists; eexists. split; [reflexivity|]. split; [reflexivity|].
  eexists. split; [vm_compute; reflexivity|]. vm_compute. discriminate.
Qed.
