(* Lemmas about keyed lists, folds of operations seen "through one key", and the C06 theorems:
   the transcribed comparators are quiet on equal schemas and converge in one pass. *)
From AV Require Import Model.Schema Model.Diff.

(* ================================================================ keyed lists *)
Section KeyedLemmas.
  Context {A:Type} (key : A -> N).

  (* all elements with key n, in order *)
  Definition ksel (n:N) (l:list A) : list A := filter (fun a => N.eqb (key a) n) l.

  Lemma ksel_app n l1 l2 : ksel n (l1 ++ l2) = ksel n l1 ++ ksel n l2.
  Proof. unfold ksel. induction l1 as [|a l IH]; simpl; auto. destruct (N.eqb (key a) n); simpl; congruence. Qed.

  Lemma ksel_In n l a : In a (ksel n l) <-> In a l /\ key a = n.
  Proof. unfold ksel. rewrite filter_In, N.eqb_eq. tauto. Qed.

  Lemma kfind_hd n l : kfind key n l = hd_error (ksel n l).
  Proof. unfold kfind, ksel. induction l as [|a l IH]; simpl; auto. destruct (N.eqb (key a) n); simpl; auto. Qed.

  Lemma kfind_some n l a : kfind key n l = Some a -> In a l /\ key a = n.
  Proof. unfold kfind. intros H. apply find_some in H. rewrite N.eqb_eq in H. exact H. Qed.

  Lemma kfind_none n l : kfind key n l = None -> ~ In n (keys key l).
  Proof. unfold kfind, keys. intros H Hin. apply in_map_iff in Hin. destruct Hin as [a [Ha Hin]].
    eapply find_none in H; eauto. simpl in H. rewrite N.eqb_neq in H. congruence. Qed.

  Lemma kfind_in_keys n l : In n (keys key l) -> exists a, kfind key n l = Some a.
  Proof. intros H. destruct (kfind key n l) eqn:E; eauto. apply kfind_none in E. tauto. Qed.

  Lemma memN_keys n l : memN n (keys key l) = match kfind key n l with Some _ => true | None => false end.
  Proof. destruct (kfind key n l) eqn:E.
    - apply memN_In. apply kfind_some in E. destruct E as [Hin Hk]. unfold keys. rewrite <- Hk. apply in_map; auto.
    - apply memN_nIn. apply kfind_none; auto. Qed.

  Lemma ksel_nil_of_notin n l : ~ In n (keys key l) -> ksel n l = [].
  Proof. unfold ksel, keys. induction l as [|a l IH]; simpl; auto. intros H.
    destruct (N.eqb_spec (key a) n) as [E|E]; [exfalso; auto|]. apply IH. tauto. Qed.

  Lemma ksel_nodup n l : NoDup (keys key l) ->
    ksel n l = match kfind key n l with Some a => [a] | None => [] end.
  Proof. unfold ksel, kfind, keys. induction l as [|a l IH]; simpl; auto. intros H. inversion H as [|? ? Hn Hd]; subst.
    destruct (N.eqb_spec (key a) n) as [E|E]; auto. f_equal. subst n. apply ksel_nil_of_notin; auto. Qed.

  Lemma kfind_nodup a l : NoDup (keys key l) -> In a l -> kfind key (key a) l = Some a.
  Proof. unfold kfind, keys. induction l as [|b l IH]; simpl; [tauto|]. intros H Hin. inversion H as [|? ? Hn Hd]; subst.
    destruct Hin as [->|Hin]. { rewrite N.eqb_refl; auto. }
    destruct (N.eqb_spec (key b) (key a)) as [E|E]; auto. exfalso. apply Hn. rewrite E. apply in_map; auto. Qed.

  Lemma ksel_kremove n m l : ksel n (kremove key m l) = if N.eqb m n then [] else ksel n l.
  Proof. unfold ksel, kremove. induction l as [|a l IH]; simpl. { destruct (N.eqb m n); auto. }
    destruct (N.eqb_spec (key a) m) as [E|E]; simpl.
    - rewrite IH. destruct (N.eqb_spec m n) as [E'|E']; auto. destruct (N.eqb_spec (key a) n); auto. congruence.
    - rewrite IH. destruct (N.eqb_spec m n) as [E'|E']; auto. destruct (N.eqb_spec (key a) n); auto. congruence. Qed.

  Lemma ksel_kupdate n m f l : (forall a, key (f a) = key a) ->
    ksel n (kupdate key m f l) = if N.eqb m n then map f (ksel n l) else ksel n l.
  Proof. intros Hf. unfold ksel, kupdate. induction l as [|a l IH]; simpl. { destruct (N.eqb m n); auto. }
    destruct (N.eqb_spec (key a) m) as [E|E]; simpl.
    - rewrite Hf, IH. destruct (N.eqb_spec m n) as [E'|E'].
      + subst. rewrite N.eqb_refl. simpl. auto.
      + destruct (N.eqb_spec (key a) n); auto. congruence.
    - rewrite IH. destruct (N.eqb_spec m n) as [E'|E'].
      + destruct (N.eqb_spec (key a) n); auto. congruence.
      + destruct (N.eqb (key a) n); auto. Qed.

  Lemma ksel_filter n p l : ksel n (filter p l) = filter p (ksel n l).
  Proof. unfold ksel. induction l as [|a l IH]; simpl; auto.
    destruct (p a) eqn:Ep; destruct (N.eqb (key a) n) eqn:Ek; simpl; rewrite ?Ep, ?Ek, ?IH; auto. Qed.
End KeyedLemmas.

Lemma flat_map_nil {A B} (f:A -> list B) l : (forall x, In x l -> f x = []) -> flat_map f l = [].
Proof. induction l as [|a l IH]; simpl; auto. intros H. rewrite (H a), IH; auto. Qed.

Lemma flat_map_map {A B C} (f:B -> list C) (g:A -> B) l : flat_map f (map g l) = flat_map (fun x => f (g x)) l.
Proof. induction l; simpl; congruence. Qed.
Section KeyedMap.
  Context {A:Type} (key:A->N) (r:A->A) (Hr: forall a, key (r a) = key a).
  Lemma keys_map l : keys key (map r l) = keys key l.
  Proof. unfold keys. rewrite map_map. apply map_ext. auto. Qed.
  Lemma kfind_map n l : kfind key n (map r l) = option_map r (kfind key n l).
  Proof. unfold kfind. induction l as [|a l IH]; simpl; auto. rewrite Hr. destruct (N.eqb (key a) n); auto. Qed.
  Lemma ksel_map n l : ksel key n (map r l) = map r (ksel key n l).
  Proof. unfold ksel. induction l as [|a l IH]; simpl; auto. rewrite Hr. destruct (N.eqb (key a) n); simpl; congruence. Qed.
End KeyedMap.

(* ================================================================ folds seen through one key *)
Section Run.
  Context {O St : Type} (step : O -> St -> St).
  Definition run (L:list O) (s:St) : St := fold_left (fun s o => step o s) L s.
  Lemma run_app L1 L2 s : run (L1 ++ L2) s = run L2 (run L1 s).
  Proof. unfold run. apply fold_left_app. Qed.
  Lemma run_id L s : (forall o, In o L -> forall s', step o s' = s') -> run L s = s.
  Proof. revert s; induction L as [|o L IH]; simpl; auto. intros s H. unfold run in *. simpl. rewrite (H o); auto. Qed.

  Context {A:Type} (key : A -> N).
  (* a segment flat_map f L whose pieces only act on "their own" key: only the piece of key n matters *)
  Lemma run_seg (f:A -> list O) (n:N) (L:list A) s :
    NoDup (keys key L) ->
    (forall x, In x L -> key x <> n -> forall o, In o (f x) -> forall s', step o s' = s') ->
    run (flat_map f L) s = match kfind key n L with Some x => run (f x) s | None => s end.
  Proof. revert s; induction L as [|x L IH]; intros s Hnd Hown; simpl; auto.
    inversion Hnd as [|? ? Hn Hd]; subst. rewrite run_app. unfold kfind. simpl. fold (kfind key n L).
    destruct (N.eqb_spec (key x) n) as [E|E].
    - rewrite IH; auto. 2:{ intros; eapply Hown; eauto; simpl; auto. }
      destruct (kfind key n L) eqn:Ef; auto. apply kfind_some in Ef. destruct Ef as [Hin Hk]. exfalso. apply Hn.
      rewrite E, <- Hk. apply in_map; auto.
    - rewrite (run_id (f x)). 2:{ intros; eapply Hown; eauto; simpl; auto. }
      apply IH; auto. intros; eapply Hown; eauto; simpl; auto. Qed.
End Run.

Section RunProj.
  Context {O S1 S2 : Type} (f : O -> S1 -> S1) (g : O -> S2 -> S2) (proj : S1 -> S2).
  Lemma run_proj L s : (forall o s, proj (f o s) = g o (proj s)) -> proj (run f L s) = run g L (proj s).
  Proof. intros H. revert s; induction L as [|o L IH]; intros s; simpl; auto. unfold run in *. simpl. rewrite IH, H. auto. Qed.
End RunProj.

(* ================================================================ operations seen through one name *)
Definition cstep (n:N) (o:op) (s:list col) : list col :=
  match o with
  | OpAddColumn _ c => s ++ (if N.eqb (c_name c) n then [c] else [])
  | OpDropColumn _ m => if N.eqb m n then [] else s
  | OpAlterColumn _ m _ _ _ mn mt md => if N.eqb m n then map (alter_col mn mt md) s else s
  | _ => s
  end.
Definition kstep (n:N) (o:op) (s:list cons) : list cons :=
  match o with
  | OpAddCons _ k => s ++ (if N.eqb (k_name k) n then [k] else [])
  | OpDropCons _ ix m => if N.eqb m n then filter (fun k => negb (Bool.eqb (is_ix k) ix)) s else s
  | _ => s
  end.
Definition tstep (n:N) (o:op) (s:list table) : list table :=
  match o with
  | OpCreateTable t => s ++ (if N.eqb (t_name t) n then [t] else [])
  | OpDropTable m => if N.eqb m n then [] else s
  | _ => if N.eqb (op_table o) n then map (apply_top o) s else s
  end.

Lemma ksel_single {A} (key:A->N) n a : ksel key n [a] = if N.eqb (key a) n then [a] else [].
Proof. unfold ksel. simpl. destruct (N.eqb (key a) n); auto. Qed.

Lemma ksel_apply_cop n o cs : ksel c_name n (apply_cop o cs) = cstep n o (ksel c_name n cs).
Proof. destruct o; simpl; auto.
  - rewrite ksel_app, ksel_single. auto.
  - apply ksel_kremove.
  - apply ksel_kupdate. intros a; reflexivity. Qed.
Lemma ksel_apply_kop n o ks : ksel k_name n (apply_kop o ks) = kstep n o (ksel k_name n ks).
Proof. destruct o; simpl; auto.
  - rewrite ksel_app, ksel_single. auto.
  - rewrite ksel_filter. destruct (N.eqb_spec n0 n) as [E|E].
    + apply filter_ext_in. intros k Hk. apply ksel_In in Hk. destruct Hk as [_ Hk]. rewrite Hk, E, N.eqb_refl, andb_true_r. auto.
    + rewrite <- (filter_ext_in (fun _ => true)). { clear. induction (ksel k_name n ks); simpl; congruence. }
      intros k Hk. apply ksel_In in Hk. destruct Hk as [_ Hk]. rewrite Hk.
      assert (N.eqb n n0 = false) as -> by (apply N.eqb_neq; congruence). rewrite andb_false_r. auto. Qed.
Lemma ksel_apply_op n o S : ksel t_name n (apply_op o S) = tstep n o (ksel t_name n S).
Proof. destruct o; simpl; try (apply ksel_kupdate; intros a; reflexivity).
  - rewrite ksel_app, ksel_single. auto.
  - apply ksel_kremove. Qed.

Lemma ksel_run_cop n L cs : ksel c_name n (run apply_cop L cs) = run (cstep n) L (ksel c_name n cs).
Proof. apply run_proj. intros; apply ksel_apply_cop. Qed.
Lemma ksel_run_kop n L ks : ksel k_name n (run apply_kop L ks) = run (kstep n) L (ksel k_name n ks).
Proof. apply run_proj. intros; apply ksel_apply_kop. Qed.
Lemma ksel_apply_ops_direct n L S : ksel t_name n (apply_ops_direct L S) = run (tstep n) L (ksel t_name n S).
Proof. unfold apply_ops_direct. apply (run_proj apply_op (tstep n) (ksel t_name n)). intros; apply ksel_apply_op. Qed.

Lemma cols_run_top L t : t_cols (run apply_top L t) = run apply_cop L (t_cols t).
Proof. apply (run_proj apply_top apply_cop t_cols). reflexivity. Qed.
Lemma cons_run_top L t : t_cons (run apply_top L t) = run apply_kop L (t_cons t).
Proof. apply (run_proj apply_top apply_kop t_cons). reflexivity. Qed.
Lemma fks_run_top L t : t_fks (run apply_top L t) = run apply_fop L (t_fks t).
Proof. apply (run_proj apply_top apply_fop t_fks). reflexivity. Qed.
Lemma name_run_top L t : t_name (run apply_top L t) = t_name t.
Proof. revert t; induction L as [|o L IH]; intros t; simpl; auto. unfold run in *. simpl. rewrite IH. reflexivity. Qed.

(* ================================================================ reflexivity facts of the comparators *)
Lemma list_eqbN_refl l : list_eqb N.eqb l l = true.
Proof. apply list_eqbN_eq; auto. Qed.
Lemma permb_refl l : permb l l = true.
Proof. unfold permb. rewrite Nat.eqb_refl. simpl. apply forallb_forall. intros x _. apply Nat.eqb_refl. Qed.
Lemma sig_equal_refl k : sig_equal k k = true.
Proof. destruct k; simpl; [apply permb_refl|]. rewrite eqb_reflx, list_eqbN_refl. auto. Qed.
Lemma impl_compare_type_refl t : impl_compare_type t t = false.
Proof. unfold impl_compare_type, column_types_match, column_args_match. rewrite N.eqb_refl, Nat.eqb_refl, list_eqbN_refl. reflexivity. Qed.
Lemma ctx_compare_type_refl g t : ctx_compare_type g t t = false.
Proof. unfold ctx_compare_type. rewrite impl_compare_type_refl. destruct (compare_type g); auto. Qed.
Lemma alter_col_none c : alter_col None None None c = c.
Proof. destruct c; reflexivity. Qed.

(* ================================================================ strings: server default normalisation *)
Lemma wrapped_intro a b p : p <> [] -> wrapped a b (a :: p ++ [b]) = true.
Proof. intros Hp. unfold wrapped. rewrite N.eqb_refl, last_last, N.eqb_refl. simpl. rewrite app_length. simpl.
  destruct p; [congruence|]. simpl. rewrite Nat.add_comm. reflexivity. Qed.
Lemma unwrap_intro a b p : unwrap (a :: p ++ [b]) = p.
Proof. unfold unwrap. simpl. apply removelast_last. Qed.
Lemma wrapped_hd a b s : N.eqb (hd 0%N s) a = false -> wrapped a b s = false.
Proof. destruct s; simpl; auto. intros ->. reflexivity. Qed.
Lemma wrapped_elim a b s : wrapped a b s = true -> s = a :: unwrap s ++ [b] /\ unwrap s <> [].
Proof. destruct s as [|x r]; simpl; [congruence|]. rewrite !andb_true_iff, !N.eqb_eq. intros [[-> Hl] Hn].
  unfold unwrap. simpl. destruct r as [|y r']; [simpl in Hn; congruence|]. destruct r' as [|z r'']; [simpl in Hn; congruence|].
  split.
  - f_equal. rewrite <- Hl. apply app_removelast_last. congruence.
  - simpl. congruence. Qed.

Lemma plain_hd s : plain s = true -> plain_char (hd 0%N s) = true /\ s <> [].
Proof. destruct s; simpl; [congruence|]. rewrite andb_true_iff. intros [H _]. split; auto. congruence. Qed.
Lemma plain_char_neq x : plain_char x = true ->
  N.eqb x ch_quote = false /\ N.eqb x ch_dquote = false /\ N.eqb x ch_lpar = false /\ N.eqb x ch_rpar = false.
Proof. unfold plain_char. rewrite negb_true_iff, !orb_false_iff. tauto. Qed.
Lemma dbl_quotes_plain s : forallb plain_char s = true -> dbl_quotes s = s.
Proof. induction s as [|x r IH]; simpl; auto. rewrite andb_true_iff. intros [Hx Hr]. apply plain_char_neq in Hx.
  destruct Hx as [-> _]. rewrite IH; auto. Qed.

Lemma strip_quotes_plain s : plain s = true -> strip_quotes s = s.
Proof. intros H. destruct s as [|x [|y r]]; auto. apply plain_hd in H. destruct H as [H _]. simpl in H. apply plain_char_neq in H.
  destruct H as [H1 [H2 _]]. unfold strip_quotes. rewrite H1, H2. reflexivity. Qed.
Lemma strip_parens_plain s : plain s = true -> strip_parens s = s.
Proof. intros H. unfold strip_parens. rewrite wrapped_hd; auto. apply plain_hd in H. destruct H as [H _]. apply plain_char_neq in H. tauto. Qed.
Lemma norm_plain s : plain s = true -> norm_default s = s.
Proof. intros H. unfold norm_default. rewrite strip_parens_plain, strip_quotes_plain; auto. Qed.
Lemma norm_paren p : plain p = true -> norm_default (ch_lpar :: p ++ [ch_rpar]) = p.
Proof. intros H. unfold norm_default, strip_parens. destruct (plain_hd _ H) as [_ Hne].
  rewrite wrapped_intro, unwrap_intro; auto. apply strip_quotes_plain; auto. Qed.
Lemma strip_quotes_quoted p : p <> [] -> strip_quotes (ch_quote :: p ++ [ch_quote]) = p.
Proof. intros Hne. destruct p as [|y r]; [congruence|]. unfold strip_quotes.
  rewrite <- app_comm_cons.
  replace (N.eqb ch_quote ch_dquote) with false by reflexivity. replace (N.eqb ch_quote ch_quote) with true by reflexivity.
  cbn [andb]. rewrite app_comm_cons, last_last, removelast_last. replace (N.eqb ch_quote ch_quote) with true by reflexivity.
  reflexivity. Qed.
Lemma norm_quoted p : p <> [] -> norm_default (ch_quote :: p ++ [ch_quote]) = p.
Proof. intros Hne. unfold norm_default, strip_parens. rewrite wrapped_hd; [|reflexivity]. apply strip_quotes_quoted; auto. Qed.

Lemma guess_quoted p : p <> [] -> guess_if_default_is_unparenthesized_sql_expr (ch_quote :: p ++ [ch_quote]) = false.
Proof. intros Hne. destruct p as [|x r]; [congruence|]. unfold guess_if_default_is_unparenthesized_sql_expr.
  rewrite <- app_comm_cons. rewrite app_comm_cons, wrapped_intro; auto; try congruence. Qed.

(* the reflected form of a default of the covered class normalises like the default itself *)
Lemma default_quiet d : dflt_ok d = true -> norm_default (d_txt (reflect_default d)) = norm_default (d_txt d).
Proof. destruct d as [s|s|s p]; simpl; intros H; [| |reflexivity].
  - (* Python string *) unfold autogen_column_reflect. destruct (plain_hd _ H) as [_ Hne].
    assert (Hf: forallb plain_char s = true) by (destruct s; [congruence|exact H]).
    rewrite dbl_quotes_plain; auto.
    assert (Hg: guess_if_default_is_unparenthesized_sql_expr (ch_quote :: s ++ [ch_quote]) = false) by (apply guess_quoted; auto).
    rewrite Hg, norm_quoted, norm_plain; auto.
  - (* text() *) rewrite !orb_true_iff, !andb_true_iff in H. unfold autogen_column_reflect. destruct H as [[[Hp _]|[Hw Hp]]|[[Hw Hp] _]].
    + rewrite wrapped_hd. 2:{ apply plain_hd in Hp. destruct Hp as [Hp _]. apply plain_char_neq in Hp. tauto. }
      destruct (guess_if_default_is_unparenthesized_sql_expr s); auto. rewrite norm_paren, norm_plain; auto.
    + apply wrapped_elim in Hw. destruct Hw as [Hs Hne].
      assert (Hwl: wrapped ch_lpar ch_rpar s = false) by (rewrite Hs; apply wrapped_hd; reflexivity).
      assert (Hg: guess_if_default_is_unparenthesized_sql_expr s = false) by (rewrite Hs; apply guess_quoted; auto).
      rewrite Hwl, Hg. reflexivity.
    + pose proof Hw as Hw'. apply wrapped_elim in Hw'. destruct Hw' as [Hs Hne]. rewrite Hw.
      assert (Hn: norm_default s = unwrap s) by (rewrite Hs at 1; apply norm_paren; auto). rewrite Hn.
      destruct (guess_if_default_is_unparenthesized_sql_expr (unwrap s)); [apply norm_paren|apply norm_plain]; auto.
Qed.

Lemma list_eqbN_refl' l : list_eqb N.eqb l l = true. Proof. apply list_eqbN_refl. Qed.

Definition dok_col (c:col) : Prop := match c_default c with Some d => dflt_ok d = true | None => True end.

Lemma is_computed_reflect d : is_computed (option_map reflect_default d) = is_computed d.
Proof. destruct d as [[s|s|s p]|]; reflexivity. Qed.
Lemma is_computed_reflect' d : is_computed (Some (reflect_default d)) = is_computed (Some d).
Proof. destruct d; reflexivity. Qed.
Lemma csd_quiet g c : dok_col c -> compare_server_default_col g (reflect_col c) c = None.
Proof. unfold dok_col, compare_server_default_col. cbn [reflect_col c_default].
  destruct (c_default c) as [d|]; cbn [option_map]; auto. rewrite is_computed_reflect'. destruct (is_computed (Some d)); auto.
  intros H. unfold ctx_compare_server_default, sqlite_compare_server_default. cbn [option_map opt_eqb].
  rewrite default_quiet, list_eqbN_refl; auto. destruct (compare_server_default g); auto. Qed.

(* the column that an AlterColumnOp of the comparison (database column cc, seen as reflect_col cc) leaves behind *)
Definition alter_fix (g:cfg) (cc mc:col) : col :=
  alter_col (compare_nullable (reflect_col cc) mc) (compare_type_col g (reflect_col cc) mc)
            (compare_server_default_col g (reflect_col cc) mc) cc.

Lemma csd_ext g a b mc : c_default a = c_default b -> compare_server_default_col g a mc = compare_server_default_col g b mc.
Proof. unfold compare_server_default_col. intros ->. auto. Qed.
Lemma csd_some g rc mc d : compare_server_default_col g rc mc = Some d ->
  d = c_default mc /\ is_computed (c_default mc) = false /\ is_computed (c_default rc) = false.
Proof. unfold compare_server_default_col. set (cd := c_default rc). set (md := c_default mc).
  assert (H0: (if is_computed md then None else if is_computed cd then None
               else if ctx_compare_server_default g (option_map d_txt cd) (option_map d_txt md) then Some md else None) = Some d ->
              d = md /\ is_computed md = false /\ is_computed cd = false).
  { destruct (is_computed md); [congruence|]. destruct (is_computed cd); [congruence|].
    destruct (ctx_compare_server_default _ _ _); [|congruence]. intros H; inversion H; auto. }
  destruct cd, md; auto; congruence. Qed.
Lemma fix_computed g cc mc : is_computed (c_default (reflect_col (alter_col (compare_nullable (reflect_col cc) mc) (compare_type_col g (reflect_col cc) mc)
            (compare_server_default_col g (reflect_col cc) mc) cc))) = is_computed (c_default (reflect_col cc)).
Proof. unfold alter_col. cbn [reflect_col c_default]. rewrite !is_computed_reflect.
  destruct (compare_server_default_col g (reflect_col cc) mc) as [d|] eqn:E; auto.
  apply csd_some in E. destruct E as [-> [H1 H2]]. cbn [reflect_col c_default] in H2. rewrite is_computed_reflect in H2. congruence. Qed.

Lemma alter_column_nil g tn rc mc :
  compare_nullable rc mc = None -> compare_type_col g rc mc = None -> compare_server_default_col g rc mc = None ->
  alter_column g tn rc mc = [].
Proof. unfold alter_column. intros -> -> ->. auto. Qed.

Lemma alter_column_fix g tn cc mc : dok_col mc -> alter_column g tn (reflect_col (alter_fix g cc mc)) mc = [].
Proof. intros Hok. apply alter_column_nil.
  - unfold alter_fix. unfold compare_nullable at 1. rewrite fix_computed. unfold alter_col. cbn [reflect_col c_null c_default].
    unfold compare_nullable. cbn [reflect_col c_null c_default].
    destruct (Bool.eqb (c_null cc) (c_null mc)) eqn:En.
    + rewrite En. auto.
    + destruct ((is_computed (c_default mc) || is_computed (option_map reflect_default (c_default cc))) && negb (c_null_set mc)) eqn:Eg.
      * rewrite En. auto.
      * rewrite eqb_reflx. auto.
  - unfold alter_fix, alter_col, compare_type_col. simpl.
    destruct (ctx_compare_type g (c_ty cc) (c_ty mc)) eqn:Et; simpl; [rewrite ctx_compare_type_refl|rewrite Et]; auto.
  - destruct (compare_server_default_col g (reflect_col cc) mc) as [d|] eqn:Ed.
    + destruct (csd_some _ _ _ _ Ed) as [Hd _]. rewrite (csd_ext g (reflect_col (alter_fix g cc mc)) (reflect_col mc) mc).
      * apply csd_quiet; auto.
      * unfold alter_fix, alter_col. cbn [reflect_col c_default]. rewrite Ed, Hd. reflexivity.
    + rewrite (csd_ext g (reflect_col (alter_fix g cc mc)) (reflect_col cc) mc); auto.
      unfold alter_fix, alter_col. cbn [reflect_col c_default]. rewrite Ed. reflexivity.
Qed.
Lemma alter_column_refl g tn c : dok_col c -> alter_column g tn (reflect_col c) c = [].
Proof. intros Hok. apply alter_column_nil.
  - unfold compare_nullable. simpl. rewrite eqb_reflx. auto.
  - unfold compare_type_col. simpl. rewrite ctx_compare_type_refl. auto.
  - apply csd_quiet; auto. Qed.

(* what alter_column's output does to the column it is about *)
Lemma run_alter_column g tn n rc cc mc : c_name mc = n ->
  run (cstep n) (alter_column g tn rc mc) [cc] =
  [alter_col (compare_nullable rc mc) (compare_type_col g rc mc) (compare_server_default_col g rc mc) cc].
Proof. intros Hn. unfold alter_column.
  destruct (compare_nullable rc mc) eqn:E1; destruct (compare_type_col g rc mc) eqn:E2; destruct (compare_server_default_col g rc mc) eqn:E3;
    simpl; rewrite ?Hn, ?N.eqb_refl; simpl; auto. rewrite alter_col_none. auto. Qed.

(* ================================================================ columns: one pass fixes them *)
Definition cstep_id (K:list op) : Prop := forall o, In o K -> forall n s, cstep n o s = s.
Definition kstep_id (K:list op) : Prop := forall o, In o K -> forall n s, kstep n o s = s.

Lemma reflect_col_name c : c_name (reflect_col c) = c_name c. Proof. reflexivity. Qed.

Lemma cols_after g tn c m K n :
  NoDup (keys c_name (t_cols c)) -> NoDup (keys c_name (t_cols m)) -> cstep_id K ->
  ksel c_name n (run apply_cop (compare_columns_pre g tn (reflect_table c) m ++ K ++ compare_columns_post tn (reflect_table c) m) (t_cols c)) =
  match kfind c_name n (t_cols m) with
  | Some mc => match kfind c_name n (t_cols c) with Some cc => [alter_fix g cc mc] | None => [mc] end
  | None => []
  end.
Proof.
  intros Hc Hm HK. rewrite ksel_run_cop, (ksel_nodup c_name n _ Hc). unfold compare_columns_pre, compare_columns_post.
  cbn [reflect_table t_cols]. rewrite (keys_map c_name reflect_col reflect_col_name), flat_map_map.
  rewrite !run_app.
  rewrite (run_seg (cstep n) c_name _ n (t_cols m)); auto.
  2:{ intros x _ Hx o Ho s'. rewrite (kfind_map c_name reflect_col reflect_col_name) in Ho.
      destruct (kfind c_name (c_name x) (t_cols c)) as [c0|]; simpl in Ho; [|tauto].
      unfold alter_column in Ho. apply N.eqb_neq in Hx.
      destruct (compare_nullable (reflect_col c0) x); destruct (compare_type_col g (reflect_col c0) x);
        destruct (compare_server_default_col g (reflect_col c0) x); simpl in Ho; try tauto;
        destruct Ho as [<-|[]]; simpl; rewrite Hx; auto. }
  rewrite (run_seg (cstep n) c_name _ n (t_cols m)); auto.
  2:{ intros x _ Hx o Ho s'. destruct (memN (c_name x) (keys c_name (t_cols c))); simpl in Ho; [tauto|].
      destruct Ho as [<-|[]]. simpl. apply N.eqb_neq in Hx. rewrite Hx. apply app_nil_r. }
  rewrite (run_id (cstep n) K). 2:{ intros; apply HK; auto. }
  rewrite (run_seg (cstep n) c_name _ n (t_cols c)); auto.
  2:{ intros x _ Hx o Ho s'. cbn [reflect_col c_name] in Ho. destruct (memN (c_name x) (keys c_name (t_cols m))); simpl in Ho; [tauto|].
      destruct Ho as [<-|[]]. simpl. apply N.eqb_neq in Hx. rewrite Hx. auto. }
  cbn [reflect_col c_name].
  destruct (kfind c_name n (t_cols m)) as [mc|] eqn:Em.
  - destruct (kfind_some _ _ _ _ Em) as [_ Hmc]. rewrite Hmc. rewrite (kfind_map c_name reflect_col reflect_col_name).
    rewrite (memN_keys c_name n (t_cols c)).
    destruct (kfind c_name n (t_cols c)) as [cc|] eqn:Ec.
    + destruct (kfind_some _ _ _ _ Ec) as [_ Hcc]. rewrite Hcc.
      rewrite (memN_keys c_name n (t_cols m)), Em. cbn [option_map].
      change (run (cstep n) [] (run (cstep n) (alter_column g tn (reflect_col cc) mc) [cc]) = [alter_fix g cc mc]).
      rewrite run_alter_column; auto.
    + simpl. rewrite Hmc, N.eqb_refl. reflexivity.
  - destruct (kfind c_name n (t_cols c)) as [cc|] eqn:Ec; auto.
    destruct (kfind_some _ _ _ _ Ec) as [_ Hcc]. rewrite Hcc.
    rewrite (memN_keys c_name n (t_cols m)), Em. simpl. rewrite N.eqb_refl. auto.
Qed.

(* ================================================================ constraints and indexes: one pass fixes them *)
Lemma obj_removed_true tn ck : obj_removed tn true false ck = [OpDropCons tn (is_ix ck) (k_name ck)].
Proof. destruct ck; simpl; auto. rewrite andb_false_r. auto. Qed.
Lemma obj_added_true tn mk : obj_added tn true false mk = [OpAddCons tn mk].
Proof. destruct mk; reflexivity. Qed.

Lemma kstep_drop_other n tn ix m s : m <> n -> kstep n (OpDropCons tn ix m) s = s.
Proof. intros H. simpl. apply N.eqb_neq in H. rewrite H. auto. Qed.
Lemma kstep_add_other n tn k s : k_name k <> n -> kstep n (OpAddCons tn k) s = s.
Proof. intros H. simpl. apply N.eqb_neq in H. rewrite H. apply app_nil_r. Qed.

(* without unnamed unique constraints in the metadata table the comparison is the three name-driven loops *)
Definition ciu_named (tn:N) (conn_table metadata_table:option table) : list op :=
  let is_create_table := match conn_table with None => true | Some _ => false end in
  let is_drop_table := match metadata_table with None => true | Some _ => false end in
  let cod := is_create_table || is_drop_table in
  let metadata_cons := match metadata_table with Some m => t_cons m | None => [] end in
  let supports_unique_constraints := negb is_create_table in
  let conn_cons := match conn_table with
                   | Some c => if is_drop_table then filter is_ix (t_cons c) else t_cons c
                   | None => []
                   end in
  flat_map (fun ck => if memN (k_name ck) (keys k_name metadata_cons) then []
                      else obj_removed tn supports_unique_constraints cod ck) conn_cons
  ++ flat_map (fun mk => match kfind k_name (k_name mk) conn_cons with
                         | Some ck => if negb (Bool.eqb (is_ix ck) (is_ix mk))
                                      then obj_removed tn supports_unique_constraints cod ck
                                           ++ obj_added tn supports_unique_constraints cod mk
                                      else if sig_equal mk ck then [] else obj_changed tn ck mk
                         | None => []
                         end) metadata_cons
  ++ flat_map (fun mk => if memN (k_name mk) (keys k_name conn_cons) then []
                         else obj_added tn supports_unique_constraints cod mk) metadata_cons.
Definition no_uuq (mt:option table) : Prop := match mt with Some m => t_uuqs m = [] | None => True end.
Lemma ciu_no_unnamed tn ct mt : no_uuq mt -> compare_indexes_and_uniques tn ct mt = ciu_named tn ct mt.
Proof. intros H. unfold compare_indexes_and_uniques, ciu_named.
  assert (Hu: match mt with Some m => t_uuqs m | None => [] end = []) by (destruct mt; auto).
  rewrite Hu. f_equal.
  - apply flat_map_ext. intros a. simpl. rewrite andb_false_r. reflexivity.
  - f_equal. rewrite <- app_nil_r. f_equal. destruct ct, mt; auto. simpl in H. rewrite H. reflexivity. Qed.

Definition cons_fix (ck mk:cons) : cons := if Bool.eqb (is_ix ck) (is_ix mk) && sig_equal mk ck then ck else mk.

Lemma cons_after tn c m K1 K2 n : t_uuqs m = [] ->
  NoDup (keys k_name (t_cons c)) -> NoDup (keys k_name (t_cons m)) -> kstep_id K1 -> kstep_id K2 ->
  ksel k_name n (run apply_kop (K1 ++ compare_indexes_and_uniques tn (Some c) (Some m) ++ K2) (t_cons c)) =
  match kfind k_name n (t_cons m) with
  | Some mk => match kfind k_name n (t_cons c) with Some ck => [cons_fix ck mk] | None => [mk] end
  | None => []
  end.
Proof.
  intros Hu Hc Hm HK1 HK2. rewrite ksel_run_kop, (ksel_nodup k_name n _ Hc).
  rewrite (ciu_no_unnamed tn (Some c) (Some m) Hu). unfold ciu_named. cbn [orb negb]. rewrite !run_app.
  rewrite (run_id (kstep n) K1). 2:{ intros; apply HK1; auto. }
  rewrite (run_id (kstep n) K2). 2:{ intros; apply HK2; auto. }
  (* added names (outermost), existing names, removed names *)
  rewrite (run_seg (kstep n) k_name _ n (t_cons m)); auto.
  2:{ intros x _ Hx o Ho s'. destruct (memN (k_name x) (keys k_name (t_cons c))); simpl in Ho; [tauto|].
      rewrite obj_added_true in Ho. destruct Ho as [<-|[]]. apply kstep_add_other; auto. }
  rewrite (run_seg (kstep n) k_name _ n (t_cons m)); auto.
  2:{ intros x _ Hx o Ho s'. destruct (kfind k_name (k_name x) (t_cons c)) as [ck|] eqn:Ek; simpl in Ho; [|tauto].
      destruct (kfind_some _ _ _ _ Ek) as [_ Hck].
      destruct (negb (Bool.eqb (is_ix ck) (is_ix x))).
      - rewrite obj_removed_true, obj_added_true in Ho. simpl in Ho. destruct Ho as [<-|[<-|[]]].
        + apply kstep_drop_other; congruence.
        + apply kstep_add_other; auto.
      - destruct (sig_equal x ck); simpl in Ho; [tauto|]. destruct Ho as [<-|[<-|[]]].
        + apply kstep_drop_other; congruence.
        + apply kstep_add_other; auto. }
  rewrite (run_seg (kstep n) k_name _ n (t_cons c)); auto.
  2:{ intros x _ Hx o Ho s'. destruct (memN (k_name x) (keys k_name (t_cons m))); simpl in Ho; [tauto|].
      rewrite obj_removed_true in Ho. destruct Ho as [<-|[]]. apply kstep_drop_other; auto. }
  destruct (kfind k_name n (t_cons m)) as [mk|] eqn:Em.
  - destruct (kfind_some _ _ _ _ Em) as [_ Hmk]. rewrite Hmk.
    rewrite (memN_keys k_name n (t_cons c)).
    destruct (kfind k_name n (t_cons c)) as [ck|] eqn:Ec.
    + destruct (kfind_some _ _ _ _ Ec) as [_ Hck]. rewrite Hck.
      rewrite (memN_keys k_name n (t_cons m)), Em. unfold cons_fix.
      destruct (Bool.eqb (is_ix ck) (is_ix mk)) eqn:Ei; cbn [negb andb].
      * destruct (sig_equal mk ck); [reflexivity|].
        unfold obj_changed. cbn. rewrite Hck, Hmk, !N.eqb_refl. cbn. rewrite eqb_reflx. reflexivity.
      * rewrite obj_removed_true, obj_added_true. cbn. rewrite Hck, Hmk, !N.eqb_refl. cbn. rewrite eqb_reflx. reflexivity.
    + rewrite obj_added_true. cbn. rewrite Hmk, N.eqb_refl. reflexivity.
  - destruct (kfind k_name n (t_cons c)) as [ck|] eqn:Ec; auto.
    destruct (kfind_some _ _ _ _ Ec) as [_ Hck]. rewrite Hck.
    rewrite (memN_keys k_name n (t_cons m)), Em. rewrite obj_removed_true. cbn. rewrite Hck, N.eqb_refl. cbn. rewrite eqb_reflx. reflexivity.
Qed.

(* ================================================================ which operations the comparators emit *)
Definition col_op (tn:N) (o:op) : Prop :=
  match o with OpAddColumn t _ | OpDropColumn t _ | OpAlterColumn t _ _ _ _ _ _ _ => t = tn | _ => False end.
Definition cons_op (tn:N) (o:op) : Prop :=
  match o with OpAddCons t _ | OpDropCons t _ _ | OpAddUUq t _ => t = tn | _ => False end.

Definition fk_op (tn:N) (o:op) : Prop :=
  match o with OpAddFk t _ | OpDropFk t _ _ => t = tn | _ => False end.

Lemma obj_added_In tn s c k o : In o (obj_added tn s c k) -> o = OpAddCons tn k.
Proof. destruct k; simpl; [destruct (negb s); simpl; [tauto|]; destruct c; simpl|]; intuition. Qed.
Lemma obj_removed_In tn s c k o : In o (obj_removed tn s c k) -> o = OpDropCons tn (is_ix k) (k_name k).
Proof. destruct k; simpl; [destruct c|destruct (u && negb s)]; simpl; intuition. Qed.

Lemma ciu_ops tn ct mt o : In o (compare_indexes_and_uniques tn ct mt) -> cons_op tn o.
Proof. unfold compare_indexes_and_uniques. rewrite !in_app_iff, !in_flat_map. intros [[x [_ H]]|[[x [_ H]]|[[x [_ H]]|H]]].
  - destruct (memN _ _); [inversion H|]. destruct (is_uq x && _); [inversion H|]. apply obj_removed_In in H. subst; simpl; auto.
  - destruct (kfind _ _ _); [|inversion H]. destruct (negb _).
    + apply in_app_iff in H. destruct H as [H|H]; [apply obj_removed_In in H|apply obj_added_In in H]; subst; simpl; auto.
    + destruct (sig_equal _ _); [inversion H|]. simpl in H. destruct H as [<-|[<-|[]]]; simpl; auto.
  - destruct (memN _ _); [inversion H|]. apply obj_added_In in H. subst; simpl; auto.
  - destruct ct as [c|]; [|inversion H]. destruct mt as [m|]; [|inversion H]. apply in_flat_map in H. destruct H as [u [_ H]].
    destruct (existsb _ _); [inversion H|]. destruct H as [<-|[]]. simpl; auto. Qed.
Lemma pre_ops g tn c m o : In o (compare_columns_pre g tn c m) -> col_op tn o.
Proof. unfold compare_columns_pre. rewrite in_app_iff, !in_flat_map. intros [[x [_ H]]|[x [_ H]]].
  - destruct (memN _ _); simpl in H; [tauto|]. destruct H as [<-|[]]. simpl; auto.
  - destruct (kfind _ _ _); [|inversion H]. unfold alter_column in H.
    destruct (compare_nullable _ _); destruct (compare_type_col _ _ _); destruct (compare_server_default_col _ _ _);
      simpl in H; try tauto; destruct H as [<-|[]]; simpl; auto. Qed.
Lemma post_ops tn c m o : In o (compare_columns_post tn c m) -> col_op tn o.
Proof. unfold compare_columns_post. rewrite in_flat_map. intros [x [_ H]].
  destruct (memN _ _); simpl in H; [tauto|]. destruct H as [<-|[]]. simpl; auto. Qed.

Lemma cfk_ops tn ct mt o : In o (compare_foreign_keys tn ct mt) -> fk_op tn o.
Proof. unfold compare_foreign_keys. destruct ct as [c|]; [|simpl; tauto]. destruct mt as [m|]; [|simpl; tauto].
  rewrite in_app_iff, !in_flat_map. intros [[x [_ H]]|[x [_ H]]]; destruct (existsb _ _); simpl in H; try tauto;
    destruct H as [<-|[]]; simpl; auto. Qed.
Lemma fk_op_cstep tn o : fk_op tn o -> forall n s, cstep n o s = s.
Proof. destruct o; simpl; tauto. Qed.
Lemma fk_op_kstep tn o : fk_op tn o -> forall n s, kstep n o s = s.
Proof. destruct o; simpl; tauto. Qed.
Lemma fk_op_cop tn o : fk_op tn o -> forall s, apply_cop o s = s.
Proof. destruct o; simpl; tauto. Qed.
Lemma col_op_fop tn o : col_op tn o -> forall s, apply_fop o s = s.
Proof. destruct o; simpl; tauto. Qed.
Lemma cons_op_fop tn o : cons_op tn o -> forall s, apply_fop o s = s.
Proof. destruct o; simpl; tauto. Qed.
Lemma cons_op_cstep tn o : cons_op tn o -> forall n s, cstep n o s = s.
Proof. destruct o; simpl; tauto. Qed.
Lemma col_op_kstep tn o : col_op tn o -> forall n s, kstep n o s = s.
Proof. destruct o; simpl; tauto. Qed.
Lemma cons_op_cop tn o : cons_op tn o -> forall s, apply_cop o s = s.
Proof. destruct o; simpl; tauto. Qed.

Lemma existing_ops g c m o : In o (existing_table g c m) -> col_op (t_name m) o \/ cons_op (t_name m) o \/ fk_op (t_name m) o.
Proof. unfold existing_table. rewrite !in_app_iff.
  intros [H|[H|[H|H]]]; [left; eapply pre_ops|right; left; eapply ciu_ops|right; right; eapply cfk_ops|left; eapply post_ops]; eauto. Qed.

(* ================================================================ "nothing to do" criteria *)
Definition cols_ok (g:cfg) (tn:N) (cc mm:list col) : Prop :=
  (forall mc, In mc mm -> exists x, kfind c_name (c_name mc) cc = Some x /\ alter_column g tn x mc = []) /\
  (forall x, In x cc -> In (c_name x) (keys c_name mm)).
Definition cons_ok (cc mm:list cons) : Prop :=
  (forall mk, In mk mm -> exists x, kfind k_name (k_name mk) cc = Some x /\ Bool.eqb (is_ix x) (is_ix mk) = true /\ sig_equal mk x = true) /\
  (forall x, In x cc -> In (k_name x) (keys k_name mm)).

(* foreign keys: the two sides carry the same set of signatures *)
Definition fks_ok (fc fm:list fk) : Prop :=
  (forall cf, In cf fc -> existsb (fk_sig_eqb cf) fm = true) /\ (forall mf, In mf fm -> existsb (fk_sig_eqb mf) fc = true).
Lemma cfk_nil tn c m : fks_ok (t_fks c) (t_fks m) -> compare_foreign_keys tn (Some c) (Some m) = [].
Proof. intros [H1 H2]. unfold compare_foreign_keys.
  rewrite (flat_map_nil _ (t_fks c)). 2:{ intros x Hx. rewrite (H1 x Hx). auto. }
  rewrite (flat_map_nil _ (t_fks m)). 2:{ intros x Hx. rewrite (H2 x Hx). auto. }
  reflexivity. Qed.

Lemma existing_table_nil g c m : t_uuqs m = [] ->
  cols_ok g (t_name m) (t_cols c) (t_cols m) -> cons_ok (t_cons c) (t_cons m) -> fks_ok (t_fks c) (t_fks m) -> existing_table g c m = [].
Proof. intros Hu [Hc1 Hc2] [Hk1 Hk2] Hf. unfold existing_table. rewrite (cfk_nil _ _ _ Hf).
  rewrite (ciu_no_unnamed (t_name m) (Some c) (Some m) Hu).
  unfold compare_columns_pre, compare_columns_post, ciu_named.
  cbn [orb negb].
  rewrite (flat_map_nil _ (t_cols m)). 2:{ intros x Hx. destruct (Hc1 x Hx) as [y [Hy _]]. rewrite memN_keys, Hy. auto. }
  rewrite (flat_map_nil _ (t_cols m)). 2:{ intros x Hx. destruct (Hc1 x Hx) as [y [Hy Ha]]. rewrite Hy. auto. }
  rewrite (flat_map_nil _ (t_cons c)). 2:{ intros x Hx. apply Hk2 in Hx. apply memN_In in Hx. rewrite Hx. auto. }
  rewrite (flat_map_nil _ (t_cons m)). 2:{ intros x Hx. destruct (Hk1 x Hx) as [y [Hy [Hi Hs]]]. rewrite Hy, Hi, Hs. auto. }
  rewrite (flat_map_nil _ (t_cons m)). 2:{ intros x Hx. destruct (Hk1 x Hx) as [y [Hy _]]. rewrite memN_keys, Hy. auto. }
  rewrite (flat_map_nil _ (t_cols c)). 2:{ intros x Hx. apply Hc2 in Hx. apply memN_In in Hx. rewrite Hx. auto. }
  reflexivity. Qed.

Lemma cols_ok_of_sel g tn cc mm : NoDup (keys c_name mm) ->
  (forall n, match kfind c_name n mm with
             | Some mc => exists x, ksel c_name n cc = [x] /\ alter_column g tn x mc = []
             | None => ksel c_name n cc = [] end) -> cols_ok g tn cc mm.
Proof. intros Hm H. split.
  - intros mc Hin. specialize (H (c_name mc)). rewrite (kfind_nodup c_name mc mm Hm Hin) in H. destruct H as [x [Hs Ha]].
    exists x. rewrite kfind_hd, Hs. auto.
  - intros x Hin. specialize (H (c_name x)). destruct (kfind c_name (c_name x) mm) eqn:E.
    + apply kfind_some in E. destruct E as [E1 E2]. unfold keys. rewrite <- E2. apply in_map; auto.
    + assert (Hx: In x (ksel c_name (c_name x) cc)) by (apply ksel_In; auto). rewrite H in Hx. inversion Hx. Qed.
Lemma cons_ok_of_sel cc mm : NoDup (keys k_name mm) ->
  (forall n, match kfind k_name n mm with
             | Some mk => exists x, ksel k_name n cc = [x] /\ Bool.eqb (is_ix x) (is_ix mk) = true /\ sig_equal mk x = true
             | None => ksel k_name n cc = [] end) -> cons_ok cc mm.
Proof. intros Hm H. split.
  - intros mk Hin. specialize (H (k_name mk)). rewrite (kfind_nodup k_name mk mm Hm Hin) in H. destruct H as [x [Hs Ha]].
    exists x. rewrite kfind_hd, Hs. auto.
  - intros x Hin. specialize (H (k_name x)). destruct (kfind k_name (k_name x) mm) eqn:E.
    + apply kfind_some in E. destruct E as [E1 E2]. unfold keys. rewrite <- E2. apply in_map; auto.
    + assert (Hx: In x (ksel k_name (k_name x) cc)) by (apply ksel_In; auto). rewrite H in Hx. inversion Hx. Qed.

Lemma cons_fix_ok ck mk : Bool.eqb (is_ix (cons_fix ck mk)) (is_ix mk) = true /\ sig_equal mk (cons_fix ck mk) = true.
Proof. unfold cons_fix. destruct (Bool.eqb (is_ix ck) (is_ix mk)) eqn:E1; simpl.
  - destruct (sig_equal mk ck) eqn:E2; auto. rewrite eqb_reflx, sig_equal_refl. auto.
  - rewrite eqb_reflx, sig_equal_refl. auto. Qed.

(* ================================================================ foreign keys: one pass fixes them *)
Definition fk_sig (f:fk) :=
  (f_cols f, f_rtable f, f_rcols f, sig_action (o_onupdate (f_opts f)), sig_action (o_ondelete (f_opts f)), sig_defer (f_opts f)).
Lemma opt_list_eqb_eq (a b:option (list N)) : opt_eqb (list_eqb N.eqb) a b = true <-> a = b.
Proof. destruct a, b; simpl; try (split; congruence). rewrite list_eqbN_eq. split; congruence. Qed.
Lemma defer3_eqb_eq a b : defer3_eqb a b = true <-> a = b.
Proof. destruct a, b; simpl; split; congruence. Qed.
Lemma fk_sig_eqb_spec a b : fk_sig_eqb a b = true <-> fk_sig a = fk_sig b.
Proof. unfold fk_sig_eqb, fk_sig. rewrite !andb_true_iff, !list_eqbN_eq, N.eqb_eq, !opt_list_eqb_eq, defer3_eqb_eq. split.
  - intros [[[[[-> ->] ->] ->] ->] ->]. reflexivity.
  - intros H. inversion H. tauto. Qed.
Lemma fk_sig_eqb_refl a : fk_sig_eqb a a = true.
Proof. apply fk_sig_eqb_spec. auto. Qed.
Lemma fk_sig_eqb_sym a b : fk_sig_eqb a b = true -> fk_sig_eqb b a = true.
Proof. rewrite !fk_sig_eqb_spec. auto. Qed.
Lemma fk_sig_eqb_ext a a' b b' : fk_sig a = fk_sig a' -> fk_sig b = fk_sig b' -> fk_sig_eqb a b = fk_sig_eqb a' b'.
Proof. intros Ha Hb. destruct (fk_sig_eqb a b) eqn:E; symmetry.
  - apply fk_sig_eqb_spec. apply fk_sig_eqb_spec in E. congruence.
  - destruct (fk_sig_eqb a' b') eqn:E'; auto. apply fk_sig_eqb_spec in E'. assert (fk_sig_eqb a b = true) by (apply fk_sig_eqb_spec; congruence). congruence. Qed.

(* reflection upper-cases the option keywords and drops NO ACTION; the signature lower-cases them and maps NO ACTION to None *)
Lemma lower_upper_char x : lower_char (upper_char x) = lower_char x.
Proof. unfold lower_char, upper_char.
  destruct (N.leb_spec 97 x); destruct (N.leb_spec x 122); simpl;
    repeat match goal with |- context [N.leb ?a ?b] => destruct (N.leb_spec a b) end; simpl; lia. Qed.
Lemma lower_upper s : lower (upper s) = lower s.
Proof. unfold lower, upper. rewrite map_map. apply map_ext. apply lower_upper_char. Qed.
Lemma upper_nil s : upper s = [] -> s = [].
Proof. destruct s; simpl; congruence. Qed.
Lemma sig_action_reflect a : sig_action (reflect_action a) = sig_action a.
Proof. destruct a as [s|]; simpl; auto. destruct (list_eqb N.eqb (lower s) s_no_action) eqn:E.
  - destruct s; simpl; auto; try (simpl in E; rewrite E; auto).
  - simpl. destruct s as [|x r]; auto. change (upper (x :: r)) with (upper_char x :: upper r). cbv iota.
    change (upper_char x :: upper r) with (upper (x :: r)). rewrite lower_upper, E. auto. Qed.
Lemma sig_defer_reflect o : sig_defer (reflect_fkopts o) = sig_defer o.
Proof. unfold sig_defer. simpl. destruct (o_initially o) as [s|]; simpl; auto. rewrite lower_upper. auto. Qed.
Lemma fk_sig_reflect f : fk_sig (reflect_fk f) = fk_sig f.
Proof. unfold fk_sig. simpl. rewrite !sig_action_reflect, sig_defer_reflect. auto. Qed.
Lemma reflect_fk_name f : f_name (reflect_fk f) = f_name f. Proof. reflexivity. Qed.

Lemma existsb_sig_reflect_l f l : existsb (fk_sig_eqb (reflect_fk f)) l = existsb (fk_sig_eqb f) l.
Proof. induction l as [|a l IH]; simpl; auto. rewrite IH. f_equal. apply fk_sig_eqb_ext; auto. apply fk_sig_reflect. Qed.
Lemma existsb_sig_reflect_r f l : existsb (fk_sig_eqb f) (map reflect_fk l) = existsb (fk_sig_eqb f) l.
Proof. induction l as [|a l IH]; simpl; auto. rewrite IH. f_equal. apply fk_sig_eqb_ext; auto. apply fk_sig_reflect. Qed.
Lemma cfk_reflect tn c m : compare_foreign_keys tn (Some (reflect_table c)) (Some m) = compare_foreign_keys tn (Some c) (Some m).
Proof. unfold compare_foreign_keys. cbn [reflect_table t_fks]. rewrite flat_map_map. f_equal.
  - apply flat_map_ext. intros a. rewrite existsb_sig_reflect_l. reflexivity.
  - apply flat_map_ext. intros a. rewrite existsb_sig_reflect_r. reflexivity. Qed.

Definition drop_of (tn:N) (f:fk) : op := OpDropFk tn (f_name f) (f_named f).
Lemma drops_as_map tn (p:fk->bool) l :
  flat_map (fun cf => if p cf then [] else [OpDropFk tn (f_name cf) (f_named cf)]) l = map (drop_of tn) (filter (fun f => negb (p f)) l).
Proof. induction l as [|a l IH]; simpl; auto. destruct (p a); simpl; auto. rewrite IH. reflexivity. Qed.
Lemma adds_as_map tn (q:fk->bool) l :
  flat_map (fun mf => if q mf then [] else [OpAddFk tn mf]) l = map (OpAddFk tn) (filter (fun f => negb (q f)) l).
Proof. induction l as [|a l IH]; simpl; auto. destruct (q a); simpl; congruence. Qed.
Lemma run_drops tn (ds:list fk) S f : In f (run apply_fop (map (drop_of tn) ds) S) <-> In f S /\ ~ In (f_name f) (map f_name ds).
Proof. revert S; induction ds as [|d ds IH]; intros S; simpl. { unfold run; simpl. tauto. }
  unfold run in *. simpl. rewrite IH. unfold kremove. rewrite filter_In, negb_true_iff, N.eqb_neq. intuition. Qed.
Lemma kremove_notin {A} (key:A->N) n l : ~ In n (keys key l) -> kremove key n l = l.
Proof. unfold kremove, keys. induction l as [|a l IH]; simpl; auto. intros H. destruct (N.eqb_spec (key a) n) as [E|E]; [exfalso; auto|].
  simpl. rewrite IH; auto. Qed.
Lemma run_adds tn L S : (forall a, In a L -> f_named a = true -> ~ In (f_name a) (keys f_name S)) -> NoDup (keys f_name L) ->
  run apply_fop (map (OpAddFk tn) L) S = S ++ L.
Proof. revert S; induction L as [|a L IH]; intros S Hfresh Hnd; simpl. { unfold run; simpl. rewrite app_nil_r; auto. }
  inversion Hnd as [|? ? Hn Hd]; subst. unfold run in *. simpl.
  assert (Ha: (if f_named a then kremove f_name (f_name a) S else S) = S).
  { destruct (f_named a) eqn:E; auto. apply kremove_notin. apply Hfresh; simpl; auto. }
  rewrite Ha, IH, <- app_assoc; auto.
  intros b Hb Hnb Hin. unfold keys in Hin. rewrite map_app, in_app_iff in Hin. destruct Hin as [Hin|[Hin|[]]].
  - apply (Hfresh b); simpl; auto.
  - apply Hn. rewrite Hin. apply in_map; auto. Qed.
Lemma NoDup_keys_filter {A} (key:A->N) p l : NoDup (keys key l) -> NoDup (keys key (filter p l)).
Proof. unfold keys. induction l as [|a l IH]; simpl; auto. intros H. inversion H as [|? ? Hn Hd]; subst.
  destruct (p a); simpl; auto. constructor; auto. intros Hin. apply Hn. apply in_map_iff in Hin. destruct Hin as [x [Hx Hin]].
  apply filter_In in Hin. rewrite <- Hx. apply in_map. tauto. Qed.
Definition fk_names_okP (fc fm:list fk) : Prop :=
  forall cf mf, In cf fc -> In mf fm -> f_name cf = f_name mf -> f_named mf = true -> existsb (fk_sig_eqb cf) fm = true -> fk_sig_eqb mf cf = true.
Lemma fk_names_okb_P fc fm : fk_names_okb fk_sig_eqb fc fm = true -> fk_names_okP fc fm.
Proof. unfold fk_names_okb, fk_names_okP. rewrite forallb_forall. intros H cf mf Hc Hm Hn Hnm He. specialize (H mf Hm).
  rewrite forallb_forall in H. specialize (H cf Hc). rewrite Hn, N.eqb_refl, Hnm, He in H. simpl in H. auto. Qed.

Lemma fks_after tn c m : NoDup (keys f_name (t_fks c)) -> NoDup (keys f_name (t_fks m)) -> fk_names_okP (t_fks c) (t_fks m) ->
  fks_ok (run apply_fop (compare_foreign_keys tn (Some c) (Some m)) (t_fks c)) (t_fks m).
Proof. intros Hnd Hndm Hok. unfold compare_foreign_keys. rewrite drops_as_map, adds_as_map, run_app.
  set (fc := t_fks c) in *. set (fm := t_fks m) in *.
  assert (Hin0: forall f, In f (run apply_fop (map (drop_of tn) (filter (fun f => negb (existsb (fk_sig_eqb f) fm)) fc)) fc) ->
                         In f fc /\ existsb (fk_sig_eqb f) fm = true).
  { intros f Hf. apply run_drops in Hf. destruct Hf as [Hf Hn]. split; auto. destruct (existsb (fk_sig_eqb f) fm) eqn:E; auto. exfalso. apply Hn.
    apply in_map. apply filter_In. rewrite E. auto. }
  rewrite run_adds.
  2:{ intros mf Hmf Hnm Hk. apply filter_In in Hmf. destruct Hmf as [Hmf Hq]. apply negb_true_iff in Hq.
      unfold keys in Hk. apply in_map_iff in Hk. destruct Hk as [cf [Hcn Hcf]]. apply Hin0 in Hcf. destruct Hcf as [Hcf Hs].
      pose proof (Hok cf mf Hcf Hmf Hcn Hnm Hs) as Heq.
      assert (existsb (fk_sig_eqb mf) fc = true) by (apply existsb_exists; exists cf; auto). congruence. }
  2:{ apply NoDup_keys_filter; auto. }
  assert (Hin: forall f, In f (run apply_fop (map (drop_of tn) (filter (fun f => negb (existsb (fk_sig_eqb f) fm)) fc)) fc) <->
                         In f fc /\ existsb (fk_sig_eqb f) fm = true).
  { intros f. rewrite run_drops. split.
    - intros [Hf Hn]. split; auto. destruct (existsb (fk_sig_eqb f) fm) eqn:E; auto. exfalso. apply Hn.
      apply in_map. apply filter_In. rewrite E. auto.
    - intros [Hf He]. split; auto. intros Hn. apply in_map_iff in Hn. destruct Hn as [f' [Hn Hf']]. apply filter_In in Hf'.
      destruct Hf' as [Hf' Hp]. assert (f' = f).
      { pose proof (kfind_nodup f_name f fc Hnd Hf) as K1. pose proof (kfind_nodup f_name f' fc Hnd Hf') as K2. rewrite Hn in K2. congruence. }
      subst. rewrite He in Hp. discriminate. }
  split.
  - intros cf Hcf. apply in_app_iff in Hcf. destruct Hcf as [Hcf|Hcf].
    + apply Hin in Hcf. tauto.
    + apply filter_In in Hcf. destruct Hcf as [Hcf _]. apply existsb_exists. exists cf. split; auto. apply fk_sig_eqb_refl.
  - intros mf Hmf. destruct (existsb (fk_sig_eqb mf) fc) eqn:E.
    + apply existsb_exists in E. destruct E as [cf [Hcf Hs]]. apply existsb_exists. exists cf. split; auto.
      apply in_app_iff. left. apply Hin. split; auto. apply existsb_exists. exists mf. split; auto. apply fk_sig_eqb_sym; auto.
    + apply existsb_exists. exists mf. split; [|apply fk_sig_eqb_refl]. apply in_app_iff. right. apply filter_In. rewrite E. auto.
Qed.
Lemma fks_ok_refl fs : fks_ok fs fs.
Proof. split; intros f Hf; apply existsb_exists; exists f; split; auto; apply fk_sig_eqb_refl. Qed.
Lemma fks_ok_reflect fc fm : fks_ok fc fm -> fks_ok (map reflect_fk fc) fm.
Proof. intros [H1 H2]. split.
  - intros cf Hcf. apply in_map_iff in Hcf. destruct Hcf as [c0 [<- Hc0]]. rewrite existsb_sig_reflect_l. auto.
  - intros mf Hmf. rewrite existsb_sig_reflect_r. auto. Qed.

(* table-level well-formedness as used by the proofs *)
Definition nd_table (t:table) : Prop := NoDup (keys c_name (t_cols t)) /\ NoDup (keys k_name (t_cons t)).
(* the server defaults of the table are of the covered class *)
Definition dok_table (t:table) : Prop := forall c, In c (t_cols t) -> dok_col c.

Lemma cols_ok_reflect g tn cs mm : NoDup (keys c_name mm) ->
  (forall n, match kfind c_name n mm with
             | Some mc => exists x, ksel c_name n cs = [x] /\ alter_column g tn (reflect_col x) mc = []
             | None => ksel c_name n cs = [] end) -> cols_ok g tn (map reflect_col cs) mm.
Proof. intros Hm H. apply cols_ok_of_sel; auto. intros n. specialize (H n). rewrite (ksel_map c_name reflect_col reflect_col_name).
  destruct (kfind c_name n mm) as [mc|].
  - destruct H as [x [-> Hx]]. exists (reflect_col x). auto.
  - rewrite H. auto. Qed.

(* ================================================================ an existing table converges in one pass *)
Lemma existing_converge g c m : t_uuqs m = [] -> nd_table c -> nd_table m -> dok_table m -> NoDup (keys f_name (t_fks c)) ->
  NoDup (keys f_name (t_fks m)) -> fk_names_okP (t_fks c) (t_fks m) ->
  existing_table g (reflect_table (run apply_top (existing_table g (reflect_table c) m) c)) m = [].
Proof. intros Hu [Hcc Hck] [Hmc Hmk] Hok Hfk Hfkm Hnames.
  set (pre := compare_columns_pre g (t_name m) (reflect_table c) m).
  set (ciu := compare_indexes_and_uniques (t_name m) (Some (reflect_table c)) (Some m)).
  set (cfk := compare_foreign_keys (t_name m) (Some (reflect_table c)) (Some m)).
  set (post := compare_columns_post (t_name m) (reflect_table c) m).
  assert (Hpre: forall o, In o pre -> col_op (t_name m) o) by (intros o Ho; eapply pre_ops; eauto).
  assert (Hpost: forall o, In o post -> col_op (t_name m) o) by (intros o Ho; eapply post_ops; eauto).
  assert (Hciu: forall o, In o ciu -> cons_op (t_name m) o) by (intros o Ho; eapply ciu_ops; eauto).
  assert (Hcfk: forall o, In o cfk -> fk_op (t_name m) o) by (intros o Ho; eapply cfk_ops; eauto).
  apply existing_table_nil; auto.
  - cbn [reflect_table t_cols]. rewrite cols_run_top. unfold existing_table. fold pre ciu cfk post.
    replace (pre ++ ciu ++ cfk ++ post) with (pre ++ (ciu ++ cfk) ++ post) by (rewrite <- !app_assoc; reflexivity).
    apply cols_ok_reflect; auto. intros n. unfold pre, post.
    rewrite cols_after; auto.
    2:{ intros o Ho. apply in_app_iff in Ho. destruct Ho as [Ho|Ho]; [eapply cons_op_cstep|eapply fk_op_cstep]; eauto. }
    destruct (kfind c_name n (t_cols m)) as [mc|] eqn:Em; auto.
    assert (Hd: dok_col mc) by (apply Hok; apply kfind_some in Em; tauto).
    destruct (kfind c_name n (t_cols c)) as [cc|]; eexists; split; eauto.
    + apply alter_column_fix; auto.
    + apply alter_column_refl; auto.
  - cbn [reflect_table t_cons]. rewrite cons_run_top. unfold existing_table. fold pre ciu cfk post. apply cons_ok_of_sel; auto. intros n.
    pose proof (cons_after (t_name m) (reflect_table c) m pre (cfk ++ post) n) as HA.
    cbn [reflect_table t_cons] in HA. fold ciu in HA. rewrite HA; auto.
    2:{ intros o Ho. eapply col_op_kstep; eauto. }
    2:{ intros o Ho. apply in_app_iff in Ho. destruct Ho as [Ho|Ho]; [eapply fk_op_kstep|eapply col_op_kstep]; eauto. }
    destruct (kfind k_name n (t_cons m)) as [mk|]; auto.
    destruct (kfind k_name n (t_cons c)) as [ck|]; eexists; split; eauto.
    + apply cons_fix_ok.
    + rewrite eqb_reflx, sig_equal_refl. auto.
  - cbn [reflect_table t_fks]. apply fks_ok_reflect. rewrite fks_run_top. unfold existing_table. fold pre ciu cfk post. rewrite !run_app.
    rewrite (run_id apply_fop pre). 2:{ intros o Ho. eapply col_op_fop; eauto. }
    rewrite (run_id apply_fop ciu). 2:{ intros o Ho. eapply cons_op_fop; eauto. }
    rewrite (run_id apply_fop post). 2:{ intros o Ho. eapply col_op_fop; eauto. }
    unfold cfk. rewrite cfk_reflect. apply fks_after; auto.
Qed.

Lemma cols_ok_refl g tn cs : NoDup (keys c_name cs) -> (forall c, In c cs -> dok_col c) -> cols_ok g tn (map reflect_col cs) cs.
Proof. intros H Hok. apply cols_ok_reflect; auto. intros n. rewrite (ksel_nodup c_name n _ H).
  destruct (kfind c_name n cs) as [mc|] eqn:E; auto. exists mc. split; auto. apply alter_column_refl. apply Hok. apply kfind_some in E. tauto. Qed.
Lemma cons_ok_refl ks : NoDup (keys k_name ks) -> cons_ok ks ks.
Proof. intros H. split.
  - intros mk Hin. exists mk. rewrite kfind_nodup; auto. rewrite eqb_reflx, sig_equal_refl. auto.
  - intros x Hin. apply in_map; auto. Qed.
Lemma existing_quiet g m : t_uuqs m = [] -> nd_table m -> dok_table m -> existing_table g (reflect_table m) m = [].
Proof. intros Hu [H1 H2] Hok. apply existing_table_nil; auto; [apply cols_ok_refl|apply cons_ok_refl|apply fks_ok_reflect, fks_ok_refl]; auto. Qed.

(* ================================================================ a created table needs nothing more *)
Lemma created_after m n : t_uuqs m = [] -> NoDup (keys k_name (t_cons m)) ->
  ksel k_name n (run apply_kop (compare_indexes_and_uniques (t_name m) None (Some m)) (filter is_uq (t_cons m))) =
  match kfind k_name n (t_cons m) with Some mk => [mk] | None => [] end.
Proof. intros Hu Hm. rewrite ksel_run_kop, ksel_filter, (ksel_nodup k_name n _ Hm).
  rewrite (ciu_no_unnamed (t_name m) None (Some m) Hu). unfold ciu_named. cbn [orb negb flat_map app].
  rewrite (flat_map_nil _ (t_cons m)). 2:{ intros; reflexivity. }
  cbn [app]. rewrite (run_seg (kstep n) k_name _ n (t_cons m)); auto.
  2:{ intros x _ Hx o Ho s'. cbn in Ho. apply obj_added_In in Ho. subst o. apply kstep_add_other; auto. }
  destruct (kfind k_name n (t_cons m)) as [mk|] eqn:E; auto.
  destruct (kfind_some _ _ _ _ E) as [_ Hk]. destruct mk; cbn; auto. cbn in Hk. rewrite Hk, N.eqb_refl. auto. Qed.

Lemma created_quiet g m : t_uuqs m = [] -> nd_table m -> dok_table m ->
  existing_table g (reflect_table (run apply_top (compare_indexes_and_uniques (t_name m) None (Some m)) (create_table_of m))) m = [].
Proof. intros Hu [Hc Hk] Hok. apply existing_table_nil; auto.
  - cbn [reflect_table t_cols]. rewrite cols_run_top. cbn [create_table_of t_cols].
    rewrite (run_id apply_cop). 2:{ intros o Ho. eapply cons_op_cop, ciu_ops; eauto. }
    apply cols_ok_refl; auto.
  - cbn [reflect_table t_cons]. rewrite cons_run_top. cbn [create_table_of t_cons]. apply cons_ok_of_sel; auto. intros n.
    rewrite created_after; auto. destruct (kfind k_name n (t_cons m)) as [mk|]; auto.
    exists mk. rewrite eqb_reflx, sig_equal_refl. auto.
  - cbn [reflect_table t_fks]. apply fks_ok_reflect. rewrite fks_run_top. cbn [create_table_of t_fks].
    rewrite (run_id apply_fop). 2:{ intros o Ho. eapply cons_op_fop, ciu_ops; eauto. }
    apply fks_ok_refl. Qed.

(* ================================================================ the schema level *)
Lemma tstep_other n o s : op_table o <> n -> tstep n o s = s.
Proof. intros H. apply N.eqb_neq in H. destruct o; simpl in *; rewrite H; auto. apply app_nil_r. Qed.

Lemma added_ops m o : In o (added_table m) -> op_table o = t_name m.
Proof. unfold added_table. intros [<-|H]; [reflexivity|]. apply ciu_ops in H. destruct o; simpl in *; tauto. Qed.
Lemma removed_ops c o : In o (removed_table c) -> op_table o = t_name c.
Proof. unfold removed_table. rewrite in_app_iff. intros [H|[<-|[]]]; [|reflexivity]. apply ciu_ops in H. destruct o; simpl in *; tauto. Qed.
Lemma existing_ops_table g c m o : In o (existing_table g c m) -> op_table o = t_name m.
Proof. intros H. apply existing_ops in H. destruct o; simpl in *; tauto. Qed.
Lemma wf_table_ndf t : wf_table t = true -> NoDup (keys f_name (t_fks t)).
Proof. unfold wf_table. rewrite !andb_true_iff. intros [[[[[H1 H2] H3] _] _] _]. apply nodupb_NoDup; auto. Qed.
Lemma wf_schema_ndf S : wf_schemab S = true -> forall t, In t S -> NoDup (keys f_name (t_fks t)).
Proof. unfold wf_schemab. rewrite andb_true_iff, forallb_forall. intros [H1 H2] t Ht. apply wf_table_ndf; auto. Qed.

(* operations on the inside of table n act on the selected tables one by one *)
Lemma run_tstep_own n L s : (forall o, In o L -> col_op n o \/ cons_op n o \/ fk_op n o) ->
  run (tstep n) L s = map (run apply_top L) s.
Proof. revert s; induction L as [|o L IH]; intros s H.
  - simpl. rewrite map_id. auto.
  - unfold run in *. simpl. rewrite IH. 2:{ intros; apply H; simpl; auto. }
    assert (Ho: tstep n o s = map (apply_top o) s).
    { destruct (H o (or_introl eq_refl)) as [Hc|[Hc|Hc]]; destruct o; simpl in Hc; try tauto; subst; simpl; rewrite N.eqb_refl; auto. }
    rewrite Ho, map_map. auto. Qed.

Lemma reflect_table_name t : t_name (reflect_table t) = t_name t. Proof. reflexivity. Qed.

Lemma tables_after g A B n : NoDup (keys t_name A) -> NoDup (keys t_name B) ->
  ksel t_name n (apply_ops_direct (compare_tables g (reflect_sqlite A) B) A) =
  match kfind t_name n B with
  | Some m => match kfind t_name n A with
              | Some c => [run apply_top (existing_table g (reflect_table c) m) c]
              | None => [run apply_top (compare_indexes_and_uniques (t_name m) None (Some m)) (create_table_of m)]
              end
  | None => []
  end.
Proof. intros HA HB. rewrite ksel_apply_ops_direct, (ksel_nodup t_name n _ HA). unfold compare_tables, reflect_sqlite.
  rewrite (keys_map t_name reflect_table reflect_table_name), flat_map_map. rewrite !run_app.
  rewrite (run_seg (tstep n) t_name _ n B); auto.
  2:{ intros x _ Hx o Ho s'. destruct (kfind t_name (t_name x) (map reflect_table A)); [|inversion Ho].
      apply tstep_other. apply existing_ops_table in Ho. congruence. }
  rewrite (run_seg (tstep n) t_name _ n A); auto.
  2:{ intros x _ Hx o Ho s'. cbn [reflect_table t_name] in Ho. destruct (memN _ _); [inversion Ho|]. apply tstep_other.
      apply removed_ops in Ho. rewrite Ho. auto. }
  rewrite (run_seg (tstep n) t_name _ n B); auto.
  2:{ intros x _ Hx o Ho s'. destruct (memN _ _); [inversion Ho|]. apply tstep_other. apply added_ops in Ho. congruence. }
  cbn [reflect_table t_name].
  destruct (kfind t_name n B) as [m|] eqn:Em.
  - destruct (kfind_some _ _ _ _ Em) as [_ Hm]. rewrite Hm, (memN_keys t_name n A), (kfind_map t_name reflect_table reflect_table_name).
    destruct (kfind t_name n A) as [c|] eqn:Ec.
    + destruct (kfind_some _ _ _ _ Ec) as [_ Hc]. rewrite Hc, (memN_keys t_name n B), Em. cbn [option_map].
      change (run (tstep n) (existing_table g (reflect_table c) m) [c] = [run apply_top (existing_table g (reflect_table c) m) c]).
      rewrite run_tstep_own; auto. intros o Ho. rewrite <- Hm. eapply existing_ops; eauto.
    + unfold added_table. rewrite Hm.
      change (run (tstep n) (compare_indexes_and_uniques n None (Some m)) (tstep n (OpCreateTable (create_table_of m)) [])
              = [run apply_top (compare_indexes_and_uniques n None (Some m)) (create_table_of m)]).
      cbn [tstep create_table_of t_name app]. rewrite Hm, N.eqb_refl.
      rewrite run_tstep_own; auto. intros o Ho. right; left. eapply ciu_ops; eauto.
  - destruct (kfind t_name n A) as [c|] eqn:Ec; auto.
    destruct (kfind_some _ _ _ _ Ec) as [_ Hc]. rewrite Hc, (memN_keys t_name n B), Em.
    unfold removed_table. rewrite run_app. cbn. rewrite Hc, N.eqb_refl. reflexivity. Qed.

Lemma compare_tables_nil g conn meta :
  (forall m, In m meta -> exists c, kfind t_name (t_name m) conn = Some c /\ existing_table g c m = []) ->
  (forall c, In c conn -> In (t_name c) (keys t_name meta)) ->
  compare_tables g conn meta = [].
Proof. intros H1 H2. unfold compare_tables.
  rewrite (flat_map_nil _ meta). 2:{ intros x Hx. destruct (H1 x Hx) as [c [Hc _]]. rewrite memN_keys, Hc. auto. }
  rewrite (flat_map_nil _ conn). 2:{ intros x Hx. apply H2 in Hx. apply memN_In in Hx. rewrite Hx. auto. }
  rewrite (flat_map_nil _ meta). 2:{ intros x Hx. destruct (H1 x Hx) as [c [Hc He]]. rewrite Hc. auto. }
  reflexivity. Qed.

(* ================================================================ well-formedness, reflection *)
Lemma wf_table_nd t : wf_table t = true -> nd_table t.
Proof. unfold wf_table. rewrite !andb_true_iff. intros [[[[[H1 H2] H3] _] _] _]. split; apply nodupb_NoDup; auto. Qed.
Lemma wf_schema_nd S : wf_schemab S = true -> NoDup (keys t_name S) /\ forall t, In t S -> nd_table t.
Proof. unfold wf_schemab. rewrite andb_true_iff, forallb_forall. intros [H1 H2]. split; [apply nodupb_NoDup; auto|].
  intros t Ht. apply wf_table_nd; auto. Qed.

Lemma defaults_ok_dok S : defaults_ok S = true -> forall t, In t S -> dok_table t.
Proof. unfold defaults_ok. rewrite forallb_forall. intros H t Ht c Hc. specialize (H t Ht). rewrite forallb_forall in H.
  specialize (H c Hc). unfold dok_col. destruct (c_default c); auto. Qed.

Lemma no_unnamed_uq_nil S : no_unnamed_uq S = true -> forall t, In t S -> t_uuqs t = [].
Proof. unfold no_unnamed_uq. rewrite forallb_forall. intros H t Ht. specialize (H t Ht). destruct (t_uuqs t); auto. discriminate. Qed.

(* ================================================================ C06 *)
Theorem diff_quiet g A : wf_schemab A = true -> defaults_ok A = true -> no_unnamed_uq A = true -> diff g (reflect_sqlite A) A = [].
Proof. intros H Hd Hu. pose proof (no_unnamed_uq_nil _ Hu) as Hun. apply wf_schema_nd in H. destruct H as [Hn Ht]. pose proof (defaults_ok_dok _ Hd) as Hok. unfold diff.
  apply compare_tables_nil.
  - intros m Hm. exists (reflect_table m). unfold reflect_sqlite. rewrite (kfind_map t_name reflect_table reflect_table_name), kfind_nodup; auto.
    split; auto. apply existing_quiet; auto.
  - intros c Hc. unfold reflect_sqlite in Hc. apply in_map_iff in Hc. destruct Hc as [c0 [<- Hc0]]. cbn [reflect_table t_name].
    unfold keys. apply in_map; auto. Qed.

Theorem diff_converge g A B : wf_schemab A = true -> wf_schemab B = true -> defaults_ok B = true -> fk_names_ok A B = true ->
  no_unnamed_uq B = true ->
  diff g (reflect_sqlite (apply_ops_direct (diff g (reflect_sqlite A) B) A)) B = [].
Proof. intros HA HB Hd Hnm Hu. pose proof (no_unnamed_uq_nil _ Hu) as Hun. pose proof (wf_schema_ndf _ HA) as HAf. pose proof (wf_schema_ndf _ HB) as HBf. apply wf_schema_nd in HA. apply wf_schema_nd in HB. destruct HA as [HAn HAt], HB as [HBn HBt].
  pose proof (defaults_ok_dok _ Hd) as Hok. unfold diff. apply compare_tables_nil.
  - intros m Hm. unfold reflect_sqlite at 1. rewrite (kfind_map t_name reflect_table reflect_table_name), kfind_hd, tables_after; auto.
    rewrite (kfind_nodup t_name m B); auto.
    destruct (kfind t_name (t_name m) A) as [c|] eqn:Ec; eexists; split; try reflexivity.
    + assert (Hn: fk_names_okP (t_fks c) (t_fks m)).
      { apply fk_names_okb_P. unfold fk_names_ok in Hnm. rewrite forallb_forall in Hnm. specialize (Hnm m Hm). rewrite Ec in Hnm. auto. }
      apply kfind_some in Ec. apply existing_converge; auto; [apply HAt|apply HAf]; tauto.
    + apply created_quiet; auto.
  - intros c Hc. unfold reflect_sqlite at 1 in Hc. apply in_map_iff in Hc. destruct Hc as [c0 [<- Hc0]]. cbn [reflect_table t_name].
    assert (Hs: In c0 (ksel t_name (t_name c0) (apply_ops_direct (compare_tables g (reflect_sqlite A) B) A))) by (apply ksel_In; auto).
    rewrite tables_after in Hs; auto. destruct (kfind t_name (t_name c0) B) as [m|] eqn:Em; [|inversion Hs].
    apply kfind_some in Em. destruct Em as [E1 E2]. unfold keys. rewrite <- E2. apply in_map; auto. Qed.

(* ================================================================ the rendered upgrade *)
(* for server defaults of the covered class the printed text says what the operation objects say *)
Lemma forallb_last {A} (p:A->bool) l d : l <> [] -> forallb p l = true -> p (last l d) = true.
Proof. induction l as [|a l IH]; [congruence|]. intros _ H. simpl in H. apply andb_true_iff in H. destruct H as [Ha Hl].
  destruct l as [|b l']; auto. apply IH; auto. congruence. Qed.
Lemma strip_edge_quotes_plain s : plain s = true -> strip_edge_quotes s = s.
Proof. intros H. destruct (plain_hd _ H) as [Hh Hne]. destruct s as [|x r]; [congruence|]. simpl in Hh.
  assert (Hf: forallb plain_char (x :: r) = true) by exact H.
  unfold strip_edge_quotes. destruct (plain_char_neq _ Hh) as [Hq _]. unfold ch_quote in Hq. rewrite Hq.
  pose proof (forallb_last plain_char (x :: r) 0%N Hne Hf) as Hl. destruct (plain_char_neq _ Hl) as [Hq2 _]. unfold ch_quote in Hq2.
  rewrite Hq2. reflexivity. Qed.
Lemma render_default_ok d : dflt_ok d = true -> render_default d = d.
Proof. destruct d; simpl; auto. intros H. rewrite strip_edge_quotes_plain; auto. Qed.
Lemma render_col_ok c : dok_col c -> render_col c = c.
Proof. unfold dok_col, render_col. destruct c as [n t nl pk d ns]. simpl. destruct d as [d|]; simpl; auto. intros H. rewrite render_default_ok; auto. Qed.

Lemma cons_op_render tn o : cons_op tn o -> render_op o = o. Proof. destruct o; simpl; intros H; try reflexivity; exfalso; exact H. Qed.
Lemma fk_op_render tn o : fk_op tn o -> render_op o = o. Proof. destruct o; simpl; intros H; try reflexivity; exfalso; exact H. Qed.

Lemma pre_render g tn c m o : dok_table m -> In o (compare_columns_pre g tn c m) -> render_op o = o.
Proof. intros Hok. unfold compare_columns_pre. rewrite in_app_iff, !in_flat_map. intros [[x [Hx H]]|[x [Hx H]]].
  - destruct (memN _ _); simpl in H; [tauto|]. destruct H as [<-|[]]. simpl. rewrite render_col_ok; auto.
  - destruct (kfind _ _ _) as [cc|]; [|inversion H]. unfold alter_column in H.
    destruct (compare_server_default_col g cc x) as [d|] eqn:Ed.
    + destruct (csd_some _ _ _ _ Ed) as [-> _].
      assert (Hd: option_map render_default (c_default x) = c_default x).
      { specialize (Hok x Hx). unfold dok_col in Hok. destruct (c_default x); simpl; auto. rewrite render_default_ok; auto. }
      destruct (compare_nullable cc x); destruct (compare_type_col g cc x); simpl in H; destruct H as [<-|[]]; simpl; rewrite Hd; reflexivity.
    + destruct (compare_nullable cc x); destruct (compare_type_col g cc x); simpl in H; try tauto; destruct H as [<-|[]]; reflexivity. Qed.
Lemma post_render tn c m o : In o (compare_columns_post tn c m) -> render_op o = o.
Proof. unfold compare_columns_post. rewrite in_flat_map. intros [x [_ H]]. destruct (memN _ _); simpl in H; [tauto|].
  destruct H as [<-|[]]. reflexivity. Qed.

Lemma render_created m : dok_table m -> render_op (OpCreateTable (create_table_of m)) = OpCreateTable (create_table_of m).
Proof. intros Hok. unfold create_table_of. simpl. f_equal. f_equal. rewrite <- (map_id (t_cols m)) at 2. apply map_ext_in.
  intros c Hc. apply render_col_ok; auto. Qed.

Lemma render_diff g conn B : (forall t, In t B -> dok_table t) -> map render_op (compare_tables g conn B) = compare_tables g conn B.
Proof. intros Hok. rewrite <- (map_id (compare_tables g conn B)) at 2. apply map_ext_in. intros o Ho.
  unfold compare_tables in Ho. rewrite !in_app_iff, !in_flat_map in Ho. destruct Ho as [[m [Hm H]]|[[c [Hc H]]|[m [Hm H]]]].
  - destruct (memN _ _); [inversion H|]. destruct H as [<-|H]; [apply render_created; auto|]. eapply cons_op_render, ciu_ops; eauto.
  - destruct (memN _ _); [inversion H|]. unfold removed_table in H. apply in_app_iff in H. destruct H as [H|[<-|[]]]; auto.
    eapply cons_op_render, ciu_ops; eauto.
  - destruct (kfind _ _ _) as [c|]; [|inversion H]. unfold existing_table in H. rewrite !in_app_iff in H. destruct H as [H|[H|[H|H]]].
    + eapply pre_render; eauto.
    + eapply cons_op_render, ciu_ops; eauto.
    + eapply fk_op_render, cfk_ops; eauto.
    + eapply post_render; eauto. Qed.

Theorem diff_converge_rendered g A B : wf_schemab A = true -> wf_schemab B = true -> defaults_ok B = true -> fk_names_ok A B = true ->
  no_unnamed_uq B = true ->
  diff g (reflect_sqlite (apply_ops (diff g (reflect_sqlite A) B) A)) B = [].
Proof. intros HA HB Hd Hn Hu. unfold apply_ops. unfold diff at 2. rewrite render_diff; [|apply defaults_ok_dok; auto].
  apply diff_converge; auto. Qed.
