(* C07: every operation of the comparison is about an object on which the two schemas differ (locality, all pairs);
   each mutation of the catalogue is detected on its object; nothing unrelated is touched. *)
From AV Require Import Model.Schema Model.Diff Spec.C06 Spec.C07 Proofs.SchemaProof Proofs.C06Proof.

(* ================================================================ lookups after list edits *)
Section KF.
  Context {A:Type} (key:A->N).
  Lemma kfind_app n l1 l2 : kfind key n (l1 ++ l2) = match kfind key n l1 with Some a => Some a | None => kfind key n l2 end.
  Proof. rewrite !kfind_hd, ksel_app. destruct (ksel key n l1); auto. Qed.
  Lemma kfind_kremove n m l : kfind key n (kremove key m l) = if N.eqb m n then None else kfind key n l.
  Proof. rewrite !kfind_hd, ksel_kremove. destruct (N.eqb m n); auto. Qed.
  Lemma kfind_kupdate n m f l : (forall a, key (f a) = key a) ->
    kfind key n (kupdate key m f l) = if N.eqb m n then option_map f (kfind key n l) else kfind key n l.
  Proof. intros Hf. rewrite !kfind_hd, ksel_kupdate; auto. destruct (N.eqb m n); auto. destruct (ksel key n l); auto. Qed.
  Lemma kfind_single n a : kfind key n [a] = if N.eqb (key a) n then Some a else None.
  Proof. unfold kfind. simpl. destruct (N.eqb (key a) n); auto. Qed.
  Lemma memN_false_kfind n l : memN n (keys key l) = false -> kfind key n l = None.
  Proof. rewrite memN_keys. destruct (kfind key n l); congruence. Qed.
  Lemma memN_true_kfind n l : memN n (keys key l) = true -> exists a, kfind key n l = Some a.
  Proof. rewrite memN_keys. destruct (kfind key n l); eauto; congruence. Qed.
End KF.

(* ================================================================ locality *)
Definition look_table (S:schema) (n:N) : option table := kfind t_name n S.
Definition look_col (S:schema) (t n:N) : option col :=
  match kfind t_name t S with Some tb => kfind c_name n (t_cols tb) | None => None end.
Definition look_cons (S:schema) (t n:N) : option cons :=
  match kfind t_name t S with Some tb => kfind k_name n (t_cons tb) | None => None end.
(* the object is not the same thing in the two schemas *)
Definition changed (A B:schema) (r:objref) : Prop :=
  match r with
  | RTable n => (look_table A n = None /\ look_table B n <> None) \/ (look_table A n <> None /\ look_table B n = None)
  | RColumn t n => look_col A t n <> look_col B t n
  | RCons t n => look_cons A t n <> look_cons B t n
  end.

Definition nd_schema (S:schema) : Prop := NoDup (keys t_name S) /\ forall t, In t S -> nd_table t.

Lemma ciu_local tn ct mt o : In o (compare_indexes_and_uniques tn ct mt) ->
  match ct with Some c => NoDup (keys k_name (t_cons c)) | None => True end ->
  match mt with Some m => NoDup (keys k_name (t_cons m)) | None => True end ->
  exists n, op_target o = RCons tn n /\
    match ct with Some c => kfind k_name n (t_cons c) | None => None end <> match mt with Some m => kfind k_name n (t_cons m) | None => None end.
Proof. unfold compare_indexes_and_uniques. rewrite !in_app_iff, !in_flat_map. intros [[x [Hx H]]|[[x [Hx H]]|[x [Hx H]]]] Hc Hm.
  - destruct (memN _ _) eqn:E; [inversion H|]. apply obj_removed_In in H. subst o. exists (k_name x). split; auto.
    apply memN_false_kfind in E.
    destruct ct as [c|]; [|inversion Hx].
    assert (Hin: In x (t_cons c)) by (destruct mt; [auto|apply filter_In in Hx; tauto]).
    rewrite (kfind_nodup k_name x _ Hc Hin). destruct mt as [m|]; [rewrite E|]; congruence.
  - destruct mt as [m|]; [|inversion Hx]. destruct (kfind k_name (k_name x) _) as [ck|] eqn:E; [|inversion H].
    destruct ct as [c|]; [|inversion E]. simpl in E. exists (k_name x).
    rewrite (kfind_nodup k_name x _ Hm Hx), E.
    destruct (kfind_some _ _ _ _ E) as [_ Hk].
    destruct (Bool.eqb (is_ix ck) (is_ix x)) eqn:Ei; cbn [negb] in H.
    + destruct (sig_equal x ck) eqn:Es; [inversion H|]. split.
      * simpl in H. destruct H as [<-|[<-|[]]]; simpl; congruence.
      * intros Heq. inversion Heq; subst. rewrite sig_equal_refl in Es. congruence.
    + split.
      * apply in_app_iff in H. destruct H as [H|H]; [apply obj_removed_In in H|apply obj_added_In in H]; subst o; simpl; congruence.
      * intros Heq. inversion Heq; subst. rewrite eqb_reflx in Ei. congruence.
  - destruct mt as [m|]; [|inversion Hx]. destruct (memN _ _) eqn:E; [inversion H|]. apply obj_added_In in H. subst o.
    exists (k_name x). split; auto. apply memN_false_kfind in E. rewrite (kfind_nodup k_name x _ Hm Hx).
    destruct ct as [c|]; [|congruence]. simpl in E. rewrite E. congruence.
Qed.
