(* C07: every operation of the comparison is about an object on which the two schemas differ (locality, all pairs);
   each mutation of the catalogue is detected on its object; nothing unrelated is touched. *)
From AV Require Import Model.Schema Model.Diff Spec.C06 Spec.C07 Proofs.SchemaProof Proofs.C06Proof.

(* ================================================================ lookups after list edits *)
Section KF.
  Context {A:Type} (key:A->N).
  Lemma kfind_app n l1 l2 : kfind key n (l1 ++ l2) = match kfind key n l1 with Some a => Some a | None => kfind key n l2 end.
  Proof. rewrite !kfind_hd, ksel_app. destruct (ksel key n l1); auto. Qed.
  Lemma kfind_kremove n m l : kfind key n (kremove key m l) = if N.eqb m n then None else kfind key n l.
  Proof. rewrite !kfind_hd, ksel_kremove. destruct (N.eqb m n); auto. Qed.
  Lemma kfind_kupdate n m f l : (forall a, key (f a) = key a) ->
    kfind key n (kupdate key m f l) = if N.eqb m n then option_map f (kfind key n l) else kfind key n l.
  Proof. intros Hf. rewrite !kfind_hd, ksel_kupdate; auto. destruct (N.eqb m n); auto. destruct (ksel key n l); auto. Qed.
  Lemma kfind_kreplace n k l :
    kfind key n (kupdate key (key k) (fun _ => k) l) = if N.eqb (key k) n then option_map (fun _ => k) (kfind key n l) else kfind key n l.
  Proof. unfold kfind, kupdate. induction l as [|a l IH]; simpl. { destruct (N.eqb (key k) n); auto. }
    destruct (N.eqb_spec (key a) (key k)) as [E|E].
    - rewrite E. destruct (N.eqb_spec (key k) n) as [E'|E']; simpl; auto.
    - destruct (N.eqb_spec (key k) n) as [E'|E'].
      + destruct (N.eqb_spec (key a) n); [congruence|]. rewrite IH. auto.
      + destruct (N.eqb (key a) n); auto. Qed.
  Lemma kfind_single n a : kfind key n [a] = if N.eqb (key a) n then Some a else None.
  Proof. unfold kfind. simpl. destruct (N.eqb (key a) n); auto. Qed.
  Lemma memN_false_kfind n l : memN n (keys key l) = false -> kfind key n l = None.
  Proof. rewrite memN_keys. destruct (kfind key n l); congruence. Qed.
  Lemma memN_true_kfind n l : memN n (keys key l) = true -> exists a, kfind key n l = Some a.
  Proof. rewrite memN_keys. destruct (kfind key n l); eauto; congruence. Qed.
End KF.

(* ================================================================ locality *)
Definition look_table (S:schema) (n:N) : option table := kfind t_name n S.
Definition look_col (S:schema) (t n:N) : option col :=
  match kfind t_name t S with Some tb => kfind c_name n (t_cols tb) | None => None end.
Definition look_cons (S:schema) (t n:N) : option cons :=
  match kfind t_name t S with Some tb => kfind k_name n (t_cons tb) | None => None end.
Definition look_fk (S:schema) (t n:N) : option fk :=
  match kfind t_name t S with Some tb => kfind f_name n (t_fks tb) | None => None end.
(* the object is not the same thing in the two schemas *)
Definition changed (A B:schema) (r:objref) : Prop :=
  match r with
  | RTable n => (look_table A n = None /\ look_table B n <> None) \/ (look_table A n <> None /\ look_table B n = None)
  | RColumn t n => look_col A t n <> look_col B t n
  | RCons t n => look_cons A t n <> look_cons B t n
  | RFk t n => look_fk A t n <> look_fk B t n
  | RUUq _ _ => False           (* no unnamed unique constraints in the class C07 covers *)
  end.

Definition nd_schema (S:schema) : Prop :=
  NoDup (keys t_name S) /\ forall t, In t S -> nd_table t /\ NoDup (keys f_name (t_fks t)).
Definition dok_schema (S:schema) : Prop := forall t, In t S -> dok_table t.
Definition named_schema (S:schema) : Prop := forall t, In t S -> t_uuqs t = [].

Lemma ciu_local tn ct mt o : no_uuq mt -> In o (compare_indexes_and_uniques tn ct mt) ->
  match ct with Some c => NoDup (keys k_name (t_cons c)) | None => True end ->
  match mt with Some m => NoDup (keys k_name (t_cons m)) | None => True end ->
  exists n, op_target o = RCons tn n /\
    match ct with Some c => kfind k_name n (t_cons c) | None => None end <> match mt with Some m => kfind k_name n (t_cons m) | None => None end.
Proof. intros Hu. rewrite (ciu_no_unnamed tn ct mt Hu). unfold ciu_named. rewrite !in_app_iff, !in_flat_map. intros [[x [Hx H]]|[[x [Hx H]]|[x [Hx H]]]] Hc Hm.
  - destruct (memN _ _) eqn:E; [inversion H|]. apply obj_removed_In in H. subst o. exists (k_name x). split; auto.
    apply memN_false_kfind in E.
    destruct ct as [c|]; [|inversion Hx].
    assert (Hin: In x (t_cons c)) by (destruct mt; [auto|apply filter_In in Hx; tauto]).
    rewrite (kfind_nodup k_name x _ Hc Hin). destruct mt as [m|]; [rewrite E|]; congruence.
  - destruct mt as [m|]; [|inversion Hx]. destruct (kfind k_name (k_name x) _) as [ck|] eqn:E; [|inversion H].
    destruct ct as [c|]; [|inversion E]. simpl in E. exists (k_name x).
    rewrite (kfind_nodup k_name x _ Hm Hx), E.
    destruct (kfind_some _ _ _ _ E) as [_ Hk].
    destruct (Bool.eqb (is_ix ck) (is_ix x)) eqn:Ei; cbn [negb] in H.
    + destruct (sig_equal x ck) eqn:Es; [inversion H|]. split.
      * simpl in H. destruct H as [<-|[<-|[]]]; simpl; congruence.
      * intros Heq. inversion Heq; subst. rewrite sig_equal_refl in Es. congruence.
    + split.
      * apply in_app_iff in H. destruct H as [H|H]; [apply obj_removed_In in H|apply obj_added_In in H]; subst o; simpl; congruence.
      * intros Heq. inversion Heq; subst. rewrite eqb_reflx in Ei. congruence.
  - destruct mt as [m|]; [|inversion Hx]. destruct (memN _ _) eqn:E; [inversion H|]. apply obj_added_In in H. subst o.
    exists (k_name x). split; auto. apply memN_false_kfind in E. rewrite (kfind_nodup k_name x _ Hm Hx).
    destruct ct as [c|]; [|congruence]. simpl in E. rewrite E. congruence.
Qed.

Lemma alter_column_In g tn cc mc o : dok_col mc -> In o (alter_column g tn (reflect_col cc) mc) ->
  op_target o = RColumn tn (c_name mc) /\ cc <> mc.
Proof. intros Hok H. split.
  - unfold alter_column in H. destruct (compare_nullable _ mc); destruct (compare_type_col g _ mc); destruct (compare_server_default_col g _ mc);
      simpl in H; try tauto; destruct H as [<-|[]]; reflexivity.
  - intros ->. rewrite alter_column_refl in H; auto. Qed.

Lemma cols_local g tn c m o : NoDup (keys c_name (t_cols c)) -> NoDup (keys c_name (t_cols m)) -> dok_table m ->
  In o (compare_columns_pre g tn (reflect_table c) m) \/ In o (compare_columns_post tn (reflect_table c) m) ->
  exists n, op_target o = RColumn tn n /\ kfind c_name n (t_cols c) <> kfind c_name n (t_cols m).
Proof. intros Hc Hm Hok. unfold compare_columns_pre, compare_columns_post. cbn [reflect_table t_cols].
  rewrite (keys_map c_name reflect_col reflect_col_name), in_app_iff, !in_flat_map.
  intros [[[x [Hx H]]|[x [Hx H]]]|[x [Hx H]]].
  - destruct (memN _ _) eqn:E; simpl in H; [tauto|]. destruct H as [<-|[]]. exists (c_name x). split; auto.
    apply memN_false_kfind in E. rewrite E, (kfind_nodup c_name x _ Hm Hx). congruence.
  - rewrite (kfind_map c_name reflect_col reflect_col_name) in H.
    destruct (kfind c_name (c_name x) (t_cols c)) as [cc|] eqn:E; [|inversion H]. cbn [option_map] in H.
    apply alter_column_In in H; auto. destruct H as [Ht Hne].
    exists (c_name x). split; auto. rewrite E, (kfind_nodup c_name x _ Hm Hx). congruence.
  - apply in_map_iff in Hx. destruct Hx as [x0 [<- Hx0]]. cbn [reflect_col c_name] in H.
    destruct (memN _ _) eqn:E; simpl in H; [tauto|]. destruct H as [<-|[]]. exists (c_name x0). split; auto.
    apply memN_false_kfind in E. rewrite E, (kfind_nodup c_name x0 _ Hc Hx0). congruence.
Qed.

Lemma cfk_local tn c m o : NoDup (keys f_name (t_fks c)) -> NoDup (keys f_name (t_fks m)) ->
  In o (compare_foreign_keys tn (Some c) (Some m)) ->
  exists n, op_target o = RFk tn n /\ kfind f_name n (t_fks c) <> kfind f_name n (t_fks m).
Proof. intros Hc Hm. unfold compare_foreign_keys. rewrite in_app_iff, !in_flat_map. intros [[x [Hx H]]|[x [Hx H]]].
  - destruct (existsb _ _) eqn:E; simpl in H; [tauto|]. destruct H as [<-|[]]. exists (f_name x). split; auto.
    rewrite (kfind_nodup f_name x _ Hc Hx). intros Heq. symmetry in Heq. apply kfind_some in Heq. destruct Heq as [Hin _].
    assert (existsb (fk_sig_eqb x) (t_fks m) = true) by (apply existsb_exists; exists x; split; auto; apply fk_sig_eqb_refl). congruence.
  - destruct (existsb _ _) eqn:E; simpl in H; [tauto|]. destruct H as [<-|[]]. exists (f_name x). split; auto.
    rewrite (kfind_nodup f_name x _ Hm Hx). intros Heq. apply kfind_some in Heq. destruct Heq as [Hin _].
    assert (existsb (fk_sig_eqb x) (t_fks c) = true) by (apply existsb_exists; exists x; split; auto; apply fk_sig_eqb_refl). congruence.
Qed.

Lemma in_compare_tables g A B o : In o (compare_tables g A B) <->
  (exists m, In m B /\ memN (t_name m) (keys t_name A) = false /\ In o (added_table m)) \/
  (exists c, In c A /\ memN (t_name c) (keys t_name B) = false /\ In o (removed_table c)) \/
  (exists m c, In m B /\ kfind t_name (t_name m) A = Some c /\ In o (existing_table g c m)).
Proof. unfold compare_tables. rewrite !in_app_iff, !in_flat_map. split.
  - intros [[x [Hx H]]|[[x [Hx H]]|[x [Hx H]]]].
    + left. exists x. destruct (memN _ _); [inversion H|auto].
    + right; left. exists x. destruct (memN _ _); [inversion H|auto].
    + right; right. exists x. destruct (kfind _ _ _) as [c|]; [|inversion H]. exists c. auto.
  - intros [[x [Hx [E H]]]|[[x [Hx [E H]]]|[x [c [Hx [E H]]]]]].
    + left. exists x. rewrite E. auto.
    + right; left. exists x. rewrite E. auto.
    + right; right. exists x. rewrite E. auto.
Qed.

(* the same, with the database side seen through reflection *)
Lemma in_diff_reflect g A B o : In o (diff g (reflect_sqlite A) B) <->
  (exists m, In m B /\ kfind t_name (t_name m) A = None /\ In o (added_table m)) \/
  (exists c, In c A /\ kfind t_name (t_name c) B = None /\ In o (removed_table (reflect_table c))) \/
  (exists m c, In m B /\ kfind t_name (t_name m) A = Some c /\ In o (existing_table g (reflect_table c) m)).
Proof. unfold diff. rewrite in_compare_tables. unfold reflect_sqlite. rewrite (keys_map t_name reflect_table reflect_table_name). split.
  - intros [[m [Hm [E H]]]|[[c [Hc [E H]]]|[m [c [Hm [E H]]]]]].
    + left. exists m. apply memN_false_kfind in E. auto.
    + right; left. apply in_map_iff in Hc. destruct Hc as [c0 [<- Hc0]]. exists c0. apply memN_false_kfind in E. auto.
    + right; right. rewrite (kfind_map t_name reflect_table reflect_table_name) in E.
      destruct (kfind t_name (t_name m) A) as [c0|] eqn:E0; [|inversion E]. inversion E; subst. exists m, c0. auto.
  - intros [[m [Hm [E H]]]|[[c [Hc [E H]]]|[m [c [Hm [E H]]]]]].
    + left. exists m. rewrite memN_keys, E. auto.
    + right; left. exists (reflect_table c). split; [apply in_map; auto|]. cbn [reflect_table t_name]. rewrite memN_keys, E. auto.
    + right; right. exists m, (reflect_table c). rewrite (kfind_map t_name reflect_table reflect_table_name), E. auto.
Qed.

(* every emitted operation is about an object whose lookup differs between the two schemas *)
Theorem diff_local g A B o : nd_schema A -> nd_schema B -> dok_schema B -> named_schema B -> In o (diff g (reflect_sqlite A) B) -> changed A B (op_target o).
Proof. intros [HAn HAt] [HBn HBt] HBd HBu. rewrite in_diff_reflect.
  intros [[m [Hm [E H]]]|[[c [Hc [E H]]]|[m [c [Hm [E H]]]]]].
  - destruct H as [<-|H].
    + simpl. left. unfold look_table. rewrite E, (kfind_nodup t_name m B); auto. split; congruence.
    + destruct (HBt m Hm) as [[_ Hk] _]. apply ciu_local in H; auto; [|apply (HBu m Hm)]. destruct H as [n [-> Hne]]. simpl.
      unfold look_cons. rewrite E, (kfind_nodup t_name m B); auto.
  - unfold removed_table in H. apply in_app_iff in H. cbn [reflect_table t_name] in H. destruct H as [H|[<-|[]]].
    + destruct (HAt c Hc) as [[_ Hk] _]. apply ciu_local in H; simpl; auto. destruct H as [n [-> Hne]]. simpl.
      unfold look_cons. rewrite E, (kfind_nodup t_name c A); auto.
    + simpl. right. unfold look_table. rewrite E, (kfind_nodup t_name c A); auto. split; congruence.
  - destruct (kfind_some _ _ _ _ E) as [Hc _]. destruct (HAt c Hc) as [[Hcc Hck] Hcf]. destruct (HBt m Hm) as [[Hmc Hmk] Hmf].
    unfold existing_table in H. rewrite !in_app_iff in H.
    assert (HB: kfind t_name (t_name m) B = Some m) by (apply kfind_nodup; auto).
    destruct H as [H|[H|[H|H]]].
    + destruct (cols_local g (t_name m) c m o Hcc Hmc (HBd m Hm) (or_introl H)) as [n [-> Hne]]. simpl. unfold look_col. rewrite E, HB. auto.
    + apply ciu_local in H; auto; [|apply (HBu m Hm)]. destruct H as [n [-> Hne]]. simpl. unfold look_cons. rewrite E, HB. auto.
    + rewrite cfk_reflect in H. apply (cfk_local (t_name m) c m) in H; auto. destruct H as [n [-> Hne]]. simpl. unfold look_fk. rewrite E, HB. auto.
    + destruct (cols_local g (t_name m) c m o Hcc Hmc (HBd m Hm) (or_intror H)) as [n [-> Hne]]. simpl. unfold look_col. rewrite E, HB. auto.
Qed.

(* ================================================================ the catalogue: what a mutation changes *)
Lemma name_with_cols f tb : t_name (with_cols f tb) = t_name tb. Proof. reflexivity. Qed.
Lemma name_with_cons f tb : t_name (with_cons f tb) = t_name tb. Proof. reflexivity. Qed.
Lemma name_with_fks f tb : t_name (with_fks f tb) = t_name tb. Proof. reflexivity. Qed.

Lemma changed_on_table A t f tb r : (forall x, t_name (f x) = t_name x) -> kfind t_name t A = Some tb ->
  changed A (on_table t f A) r ->
  match r with
  | RTable _ => False
  | RColumn t' n => t' = t /\ kfind c_name n (t_cols tb) <> kfind c_name n (t_cols (f tb))
  | RCons t' n => t' = t /\ kfind k_name n (t_cons tb) <> kfind k_name n (t_cons (f tb))
  | RFk t' n => t' = t /\ kfind f_name n (t_fks tb) <> kfind f_name n (t_fks (f tb))
  | RUUq _ _ => False
  end.
Proof. intros Hf Ht. unfold on_table. destruct r as [n|t' n|t' n|t' n|t' n]; simpl; [| | | |tauto].
  - unfold look_table. rewrite kfind_kupdate; auto. destruct (N.eqb t n); [|tauto].
    destruct (kfind t_name n A); simpl; intros [[? ?]|[? ?]]; congruence.
  - unfold look_col. rewrite kfind_kupdate; auto. destruct (N.eqb_spec t t') as [<-|Hne]; [|tauto].
    rewrite Ht. simpl. auto.
  - unfold look_cons. rewrite kfind_kupdate; auto. destruct (N.eqb_spec t t') as [<-|Hne]; [|tauto].
    rewrite Ht. simpl. auto.
  - unfold look_fk. rewrite kfind_kupdate; auto. destruct (N.eqb_spec t t') as [<-|Hne]; [|tauto].
    rewrite Ht. simpl. auto.
Qed.

Lemma in_table_some t A p : in_table t A p = true -> exists tb, kfind t_name t A = Some tb /\ p tb = true.
Proof. unfold in_table. destruct (kfind t_name t A); eauto; congruence. Qed.

Lemma inside_col tb n x : kfind c_name n (t_cols tb) = Some x -> In (RColumn (t_name tb) n) (inside tb).
Proof. intros H. apply kfind_some in H. destruct H as [H1 H2]. unfold inside. right. apply in_app_iff. left.
  apply in_map_iff. exists x. subst; auto. Qed.
Lemma inside_cons tb n x : kfind k_name n (t_cons tb) = Some x -> In (RCons (t_name tb) n) (inside tb).
Proof. intros H. apply kfind_some in H. destruct H as [H1 H2]. unfold inside. right. apply in_app_iff. right. apply in_app_iff. left.
  apply in_map_iff. exists x. subst; auto. Qed.
Lemma inside_fk tb n x : kfind f_name n (t_fks tb) = Some x -> In (RFk (t_name tb) n) (inside tb).
Proof. intros H. apply kfind_some in H. destruct H as [H1 H2]. unfold inside. right. apply in_app_iff. right. apply in_app_iff. right.
  apply in_map_iff. exists x. subst; auto. Qed.

Ltac on_tab Ha Hc A t r lem :=
  apply in_table_some in Ha; destruct Ha as [tb [Htb Hp]];
  apply (changed_on_table A t _ tb r lem Htb) in Hc; left; destruct r as [n|t' n|t' n|t' n|t' n]; simpl in Hc; try tauto;
  destruct Hc as [-> Hc].

Lemma changed_touches A m r : applicable m A = true -> changed A (apply_mut m A) r -> In r (touches A m).
Proof. intros Ha Hc. destruct m as [t|n0|t c|t c|t c|t c y|t c d|t k|t n0|t k|t f|t n0]; simpl in *.
  - (* add table *) destruct r as [n|t' n|t' n|t' n|t' n]; simpl in Hc; [| | | |tauto].
    + unfold look_table in Hc. rewrite kfind_app, kfind_single in Hc. left.
      destruct (kfind t_name n A); [destruct Hc as [[? ?]|[? ?]]; congruence|].
      destruct (N.eqb_spec (t_name t) n); [congruence|]. destruct Hc as [[? ?]|[? ?]]; congruence.
    + unfold look_col in Hc. rewrite kfind_app, kfind_single in Hc.
      destruct (kfind t_name t' A); [congruence|]. destruct (N.eqb_spec (t_name t) t') as [<-|]; [|congruence].
      destruct (kfind c_name n (t_cols t)) eqn:E; [|congruence]. eapply inside_col; eauto.
    + unfold look_cons in Hc. rewrite kfind_app, kfind_single in Hc.
      destruct (kfind t_name t' A); [congruence|]. destruct (N.eqb_spec (t_name t) t') as [<-|]; [|congruence].
      destruct (kfind k_name n (t_cons t)) eqn:E; [|congruence]. eapply inside_cons; eauto.
    + unfold look_fk in Hc. rewrite kfind_app, kfind_single in Hc.
      destruct (kfind t_name t' A); [congruence|]. destruct (N.eqb_spec (t_name t) t') as [<-|]; [|congruence].
      destruct (kfind f_name n (t_fks t)) eqn:E; [|congruence]. eapply inside_fk; eauto.
  - (* drop table *) apply memN_true_kfind in Ha. destruct Ha as [tb Htb]. rewrite Htb.
    destruct (kfind_some _ _ _ _ Htb) as [_ Hn]. destruct r as [n|t' n|t' n|t' n|t' n]; simpl in Hc; [| | | |tauto].
    + unfold look_table in Hc. rewrite kfind_kremove in Hc. left. destruct (N.eqb_spec n0 n); [congruence|].
      destruct Hc as [[? ?]|[? ?]]; congruence.
    + unfold look_col in Hc. rewrite kfind_kremove in Hc. destruct (N.eqb_spec n0 t') as [<-|]; [|congruence].
      rewrite Htb in Hc. destruct (kfind c_name n (t_cols tb)) eqn:E; [|congruence]. rewrite <- Hn. eapply inside_col; eauto.
    + unfold look_cons in Hc. rewrite kfind_kremove in Hc. destruct (N.eqb_spec n0 t') as [<-|]; [|congruence].
      rewrite Htb in Hc. destruct (kfind k_name n (t_cons tb)) eqn:E; [|congruence]. rewrite <- Hn. eapply inside_cons; eauto.
    + unfold look_fk in Hc. rewrite kfind_kremove in Hc. destruct (N.eqb_spec n0 t') as [<-|]; [|congruence].
      rewrite Htb in Hc. destruct (kfind f_name n (t_fks tb)) eqn:E; [|congruence]. rewrite <- Hn. eapply inside_fk; eauto.
  - (* add column *) on_tab Ha Hc A t r (name_with_cols (fun cs => cs ++ [c])).
    rewrite kfind_app, kfind_single in Hc. destruct (kfind c_name n (t_cols tb)); [congruence|].
    destruct (N.eqb_spec (c_name c) n); congruence.
  - (* drop column *) on_tab Ha Hc A t r (name_with_cols (kremove c_name c)).
    rewrite kfind_kremove in Hc. destruct (N.eqb_spec c n); congruence.
  - (* flip nullable *) on_tab Ha Hc A t r (name_with_cols (kupdate c_name c flip_null)).
    rewrite kfind_kupdate in Hc; [|reflexivity]. destruct (N.eqb_spec c n); congruence.
  - (* change type *) on_tab Ha Hc A t r (name_with_cols (kupdate c_name c (set_ty y))).
    rewrite kfind_kupdate in Hc; [|reflexivity]. destruct (N.eqb_spec c n); congruence.
  - (* change default *) on_tab Ha Hc A t r (name_with_cols (kupdate c_name c (set_default d))).
    rewrite kfind_kupdate in Hc; [|reflexivity]. destruct (N.eqb_spec c n); congruence.
  - (* add cons *) on_tab Ha Hc A t r (name_with_cons (fun ks => ks ++ [k])).
    rewrite kfind_app, kfind_single in Hc. destruct (kfind k_name n (t_cons tb)); [congruence|].
    destruct (N.eqb_spec (k_name k) n); congruence.
  - (* drop cons *) on_tab Ha Hc A t r (name_with_cons (kremove k_name n0)).
    rewrite kfind_kremove in Hc. destruct (N.eqb_spec n0 n); congruence.
  - (* change cons *) on_tab Ha Hc A t r (name_with_cons (kupdate k_name (k_name k) (fun _ => k))).
    rewrite kfind_kreplace in Hc. destruct (N.eqb_spec (k_name k) n); congruence.
  - (* add fk *) on_tab Ha Hc A t r (name_with_fks (fun fs => fs ++ [f])).
    rewrite kfind_app, kfind_single in Hc. destruct (kfind f_name n (t_fks tb)); [congruence|].
    destruct (N.eqb_spec (f_name f) n); congruence.
  - (* drop fk *) on_tab Ha Hc A t r (name_with_fks (kremove f_name n0)).
    rewrite kfind_kremove in Hc. destruct (N.eqb_spec n0 n); congruence.
Qed.

(* ================================================================ the catalogue: detection *)
Lemma in_diff_on_table g A t f tb o : (forall x, t_name (f x) = t_name x) -> kfind t_name t A = Some tb ->
  In o (existing_table g (reflect_table tb) (f tb)) -> In o (diff g (reflect_sqlite A) (on_table t f A)).
Proof. intros Hf Htb Ho. rewrite in_diff_reflect. right; right. exists (f tb), tb.
  destruct (kfind_some _ _ _ _ Htb) as [Hin Hn]. split; [|split; auto].
  - unfold on_table, kupdate. apply in_map_iff. exists tb. rewrite Hn, N.eqb_refl. auto.
  - rewrite Hf, Hn. auto. Qed.

Lemma in_pre g c m o : In o (compare_columns_pre g (t_name m) c m) -> In o (existing_table g c m).
Proof. unfold existing_table. rewrite !in_app_iff. auto. Qed.
Lemma in_ciu g c m o : In o (compare_indexes_and_uniques (t_name m) (Some c) (Some m)) -> In o (existing_table g c m).
Proof. unfold existing_table. rewrite !in_app_iff. auto. Qed.
Lemma in_cfk g c m o : In o (compare_foreign_keys (t_name m) (Some c) (Some m)) -> In o (existing_table g c m).
Proof. unfold existing_table. rewrite !in_app_iff. auto. Qed.
Lemma in_post g c m o : In o (compare_columns_post (t_name m) c m) -> In o (existing_table g c m).
Proof. unfold existing_table. rewrite !in_app_iff. auto. Qed.

Lemma in_kupdate_of {A} (key:A->N) n f l a : In a l -> key a = n -> In (f a) (kupdate key n f l).
Proof. intros Hin Hk. unfold kupdate. apply in_map_iff. exists a. rewrite Hk, N.eqb_refl. auto. Qed.

Lemma eqb_negb_false b : Bool.eqb b (negb b) = false.
Proof. destruct b; reflexivity. Qed.

(* an AlterColumnOp with the wanted modification is emitted as soon as one comparator fires *)
Lemma alter_has_null g tn rc mc b : compare_nullable rc mc = Some b ->
  exists o, In o (alter_column g tn rc mc) /\ op_has_kind o KAlterNullable = true /\ op_target o = RColumn tn (c_name mc).
Proof. intros H. unfold alter_column. rewrite H. destruct (compare_type_col g rc mc); destruct (compare_server_default_col g rc mc);
    eexists; (split; [left; reflexivity|]); simpl; auto. Qed.
Lemma alter_has_type g tn rc mc y : compare_type_col g rc mc = Some y ->
  exists o, In o (alter_column g tn rc mc) /\ op_has_kind o KAlterType = true /\ op_target o = RColumn tn (c_name mc).
Proof. intros H. unfold alter_column. rewrite H. destruct (compare_nullable rc mc); destruct (compare_server_default_col g rc mc);
    eexists; (split; [left; reflexivity|]); simpl; auto. Qed.
Lemma alter_has_default g tn rc mc d : compare_server_default_col g rc mc = Some d ->
  exists o, In o (alter_column g tn rc mc) /\ op_has_kind o KAlterDefault = true /\ op_target o = RColumn tn (c_name mc).
Proof. intros H. unfold alter_column. rewrite H. destruct (compare_nullable rc mc); destruct (compare_type_col g rc mc);
    eexists; (split; [left; reflexivity|]); simpl; auto. Qed.

Lemma csd_detect g x d : compare_server_default g = true -> dok_col x -> is_computed (c_default x) = false -> is_computed d = false ->
  negb (opt_eqb (list_eqb N.eqb) (option_map (fun o => norm_default (d_txt o)) (c_default x)) (option_map (fun o => norm_default (d_txt o)) d)) = true ->
  compare_server_default_col g (reflect_col x) (set_default d x) = Some d.
Proof. intros Hg Hok Hc1 Hc2 H. unfold compare_server_default_col, ctx_compare_server_default, sqlite_compare_server_default, dok_col in *.
  cbn [reflect_col set_default c_default]. rewrite Hg. cbn [negb].
  destruct (c_default x) as [d0|]; destruct d as [d1|]; cbn [option_map opt_eqb] in *; try discriminate;
    rewrite ?is_computed_reflect', ?Hc1, ?Hc2; auto.
  - rewrite default_quiet; auto. rewrite H. auto.
Qed.

Lemma column_modified_detected g A t c f tb x k :
  kfind t_name t A = Some tb -> kfind c_name c (t_cols tb) = Some x -> c_name (f x) = c_name x ->
  (exists o, In o (alter_column g t (reflect_col x) (f x)) /\ op_has_kind o k = true /\ op_target o = RColumn t (c_name (f x))) ->
  exists o, In o (diff g (reflect_sqlite A) (on_table t (with_cols (kupdate c_name c f)) A)) /\ op_has_kind o k = true /\ op_target o = RColumn t c.
Proof. intros Htb Hx Hf [o [Ho [Hk Ht]]]. destruct (kfind_some _ _ _ _ Htb) as [Hin Hn]. destruct (kfind_some _ _ _ _ Hx) as [Hxin Hxn].
  exists o. split; [|split; auto; rewrite Ht, Hf, Hxn; auto].
  eapply in_diff_on_table; eauto. apply in_pre. unfold compare_columns_pre. apply in_or_app. right. apply in_flat_map. exists (f x).
  cbn [with_cols t_cols t_name reflect_table]. split; [apply in_kupdate_of; auto|].
  rewrite (kfind_map c_name reflect_col reflect_col_name), Hf, Hxn, Hx, Hn. exact Ho. Qed.

Theorem detects_catalogue g A m : nd_schema A -> dok_schema A -> named_schema A -> applicable m A = true -> enabled g m = true ->
  detects A m (diff g (reflect_sqlite A) (apply_mut m A)).
Proof. intros [HAn HAt] HAd HAu Ha He k Hk. destruct m as [t|n0|t c|t c|t c|t c y|t c d|t kk|t n0|t kk|t f|t n0]; simpl in *.
  - (* add table *) destruct Hk as [<-|[]]. exists (OpCreateTable (create_table_of t)). split; [|auto].
    rewrite in_diff_reflect. left. exists t. split; [apply in_or_app; simpl; auto|]. split.
    + apply negb_true_iff in Ha. apply memN_false_kfind; auto.
    + left; auto.
  - (* drop table *) destruct Hk as [<-|[]]. apply memN_true_kfind in Ha. destruct Ha as [tb Htb].
    destruct (kfind_some _ _ _ _ Htb) as [Hin Hn]. exists (OpDropTable n0). split; [|auto].
    rewrite in_diff_reflect. right; left. exists tb. split; auto. split.
    + rewrite kfind_kremove, Hn, N.eqb_refl. auto.
    + unfold removed_table. apply in_or_app. right. cbn [reflect_table t_name]. rewrite Hn. left; auto.
  - (* add column *) destruct Hk as [<-|[]]. apply in_table_some in Ha. destruct Ha as [tb [Htb Hp]].
    destruct (kfind_some _ _ _ _ Htb) as [Hin Hn]. apply negb_true_iff in Hp.
    exists (OpAddColumn t c). split; [|auto]. eapply in_diff_on_table; eauto. apply in_pre.
    unfold compare_columns_pre. apply in_or_app. left. apply in_flat_map. exists c. cbn [with_cols t_cols t_name reflect_table].
    split; [apply in_or_app; simpl; auto|]. rewrite (keys_map c_name reflect_col reflect_col_name), Hp, Hn. left; auto.
  - (* drop column *) destruct Hk as [<-|[]]. apply in_table_some in Ha. destruct Ha as [tb [Htb Hp]].
    destruct (kfind_some _ _ _ _ Htb) as [Hin Hn]. apply memN_true_kfind in Hp. destruct Hp as [x Hx].
    destruct (kfind_some _ _ _ _ Hx) as [Hxin Hxn].
    exists (OpDropColumn t c). split; [|auto]. eapply in_diff_on_table; eauto. apply in_post.
    unfold compare_columns_post. apply in_flat_map. exists (reflect_col x). cbn [with_cols t_cols t_name reflect_table]. split; [apply in_map; auto|].
    cbn [reflect_col c_name]. rewrite memN_keys, kfind_kremove, Hxn, N.eqb_refl, Hn. left; auto.
  - (* flip nullable *) destruct Hk as [<-|[]]. apply in_table_some in Ha. destruct Ha as [tb [Htb Hp]].
    apply memN_true_kfind in Hp. destruct Hp as [x Hx].
    eapply column_modified_detected; eauto. apply (alter_has_null g t (reflect_col x) (flip_null x) (negb (c_null x))).
    unfold compare_nullable. cbn [reflect_col flip_null c_null c_null_set c_default negb]. rewrite eqb_negb_false, andb_false_r. auto.
  - (* change type *) destruct Hk as [<-|[]]. apply in_table_some in Ha. destruct Ha as [tb [Htb Hp]].
    destruct (kfind c_name c (t_cols tb)) as [x|] eqn:Hx; [|congruence]. apply negb_true_iff in Hp.
    eapply column_modified_detected; eauto. apply (alter_has_type g t (reflect_col x) (set_ty y x) y).
    unfold compare_type_col, ctx_compare_type, impl_compare_type. cbn [reflect_col set_ty c_ty]. rewrite He, Hp. auto.
  - (* change default *) destruct Hk as [<-|[]]. apply in_table_some in Ha. destruct Ha as [tb [Htb Hp]].
    destruct (kfind c_name c (t_cols tb)) as [x|] eqn:Hx; [|congruence].
    rewrite !andb_true_iff, !negb_true_iff in Hp. destruct Hp as [[Hc1 Hc2] Hp]. apply negb_true_iff in Hp.
    eapply column_modified_detected; eauto. apply (alter_has_default g t (reflect_col x) (set_default d x) d).
    apply csd_detect; auto. apply (HAd tb); [apply kfind_some in Htb|apply kfind_some in Hx]; tauto.
  - (* add cons *) destruct Hk as [<-|[]]. apply in_table_some in Ha. destruct Ha as [tb [Htb Hp]].
    destruct (kfind_some _ _ _ _ Htb) as [Hin Hn]. apply negb_true_iff in Hp.
    exists (OpAddCons t kk). split; [|split; auto]. 2:{ destruct kk; reflexivity. }
    eapply in_diff_on_table; eauto. apply in_ciu.
    rewrite ciu_no_unnamed; [|simpl; apply (HAu tb Hin)]. unfold ciu_named. cbn [orb negb]. apply in_or_app. right. apply in_or_app. right.
    apply in_flat_map. exists kk. cbn [with_cons t_cons t_name reflect_table]. split; [apply in_or_app; simpl; auto|].
    rewrite Hp, obj_added_true, Hn. left; auto.
  - (* drop cons *) apply in_table_some in Ha. destruct Ha as [tb [Htb Hp]].
    destruct (kfind_some _ _ _ _ Htb) as [Hin Hn]. apply memN_true_kfind in Hp. destruct Hp as [x Hx].
    destruct (kfind_some _ _ _ _ Hx) as [Hxin Hxn].
    unfold in_table in Hk. rewrite Htb, Hx in Hk. destruct Hk as [<-|[]].
    exists (OpDropCons t (is_ix x) n0). split; [|split; auto]. 2:{ destruct (is_ix x); reflexivity. }
    eapply in_diff_on_table; eauto. apply in_ciu.
    rewrite ciu_no_unnamed; [|simpl; apply (HAu tb Hin)]. unfold ciu_named. cbn [orb negb]. apply in_or_app. left.
    apply in_flat_map. exists x. cbn [with_cons t_cons t_name reflect_table]. split; auto.
    rewrite memN_keys, kfind_kremove, Hxn, N.eqb_refl, obj_removed_true, Hxn, Hn. left; auto.
  - (* change cons *) apply in_table_some in Ha. destruct Ha as [tb [Htb Hp]].
    destruct (kfind_some _ _ _ _ Htb) as [Hin Hn]. destruct (kfind k_name (k_name kk) (t_cons tb)) as [x|] eqn:Hx; [|congruence].
    destruct (kfind_some _ _ _ _ Hx) as [Hxin Hxn]. apply andb_true_iff in Hp. destruct Hp as [Hi Hs]. apply negb_true_iff in Hs.
    assert (Hops: forall o, In o (obj_changed t x kk) ->
                    In o (diff g (reflect_sqlite A) (on_table t (with_cons (kupdate k_name (k_name kk) (fun _ => kk))) A))).
    { intros o Ho. eapply in_diff_on_table; eauto. apply in_ciu.
      rewrite ciu_no_unnamed; [|simpl; apply (HAu tb Hin)]. unfold ciu_named. cbn [orb negb]. apply in_or_app. right. apply in_or_app. left.
      apply in_flat_map. exists kk. cbn [with_cons t_cons t_name reflect_table]. split.
      - apply (in_kupdate_of k_name (k_name kk) (fun _ => kk) (t_cons tb) x); auto.
      - rewrite Hx, Hi, Hs, Hn. auto. }
    apply eqb_prop in Hi. unfold obj_changed in Hops.
    destruct (is_ix kk) eqn:Ek; simpl in Hk; destruct Hk as [<-|[<-|[]]].
    + exists (OpDropCons t (is_ix x) (k_name x)). split; [apply Hops; simpl; auto|]. simpl. rewrite Hi, Hxn. auto.
    + exists (OpAddCons t kk). split; [apply Hops; simpl; auto|]. simpl. auto.
    + exists (OpDropCons t (is_ix x) (k_name x)). split; [apply Hops; simpl; auto|]. simpl. rewrite Hi, Hxn. auto.
    + exists (OpAddCons t kk). split; [apply Hops; simpl; auto|]. simpl. unfold is_uq. rewrite Ek. auto.
  - (* add fk *) destruct Hk as [<-|[]]. apply in_table_some in Ha. destruct Ha as [tb [Htb Hp]].
    destruct (kfind_some _ _ _ _ Htb) as [Hin Hn]. apply andb_true_iff in Hp. destruct Hp as [_ Hs]. apply negb_true_iff in Hs.
    exists (OpAddFk t f). split; [|auto]. eapply in_diff_on_table; eauto. apply in_cfk. rewrite cfk_reflect.
    unfold compare_foreign_keys. apply in_or_app. right. apply in_flat_map. exists f. cbn [with_fks t_fks t_name reflect_table].
    split; [apply in_or_app; simpl; auto|]. rewrite Hs, Hn. left; auto.
  - (* drop fk *) destruct Hk as [<-|[]]. apply in_table_some in Ha. destruct Ha as [tb [Htb Hp]].
    destruct (kfind_some _ _ _ _ Htb) as [Hin Hn]. destruct (kfind f_name n0 (t_fks tb)) as [x|] eqn:Hx; [|congruence].
    destruct (kfind_some _ _ _ _ Hx) as [Hxin Hxn]. apply negb_true_iff in Hp.
    exists (OpDropFk t n0 (f_named x)). split; [|auto]. eapply in_diff_on_table; eauto. apply in_cfk. rewrite cfk_reflect.
    unfold compare_foreign_keys. apply in_or_app. left. apply in_flat_map. exists x. cbn [with_fks t_fks t_name reflect_table].
    split; auto. rewrite Hp, Hxn, Hn. left; auto.
Qed.

Theorem nothing_else_catalogue g A m : nd_schema A -> nd_schema (apply_mut m A) -> dok_schema (apply_mut m A) -> named_schema (apply_mut m A) ->
  applicable m A = true -> nothing_else A m (diff g (reflect_sqlite A) (apply_mut m A)).
Proof. intros HA HB HBd HBu Ha o Ho. apply changed_touches; auto. eapply diff_local; eauto. Qed.

(* ================================================================ decider, model *)
Lemma objref_eqb_eq a b : objref_eqb a b = true -> a = b.
Proof. destruct a, b; simpl; try congruence; rewrite ?andb_true_iff, ?N.eqb_eq; intuition congruence. Qed.

Lemma detectsb_sound A m ops : detectsb A m ops = true -> detects A m ops.
Proof. unfold detectsb, detects. rewrite forallb_forall. intros H k Hk. apply H in Hk. apply existsb_exists in Hk.
  destruct Hk as [o [Ho Hb]]. apply andb_true_iff in Hb. destruct Hb as [H1 H2]. exists o. split; auto. split; auto.
  apply objref_eqb_eq; auto. Qed.
Lemma nothing_elseb_sound A m ops : nothing_elseb A m ops = true -> nothing_else A m ops.
Proof. unfold nothing_elseb, nothing_else. rewrite forallb_forall. intros H o Ho. apply H in Ho. apply existsb_exists in Ho.
  destruct Ho as [r [Hr Hb]]. apply objref_eqb_eq in Hb. congruence. Qed.

Theorem check_C07_sound i out : check_C07 i out = true -> C07_holds i out.
Proof. unfold check_C07, C07_holds. rewrite andb_true_iff, forallb_forall. intros [H1 H2]. split.
  - apply (list_eqb_sound cfg_eqb cfg_eqb_eq); auto.
  - intros g ops Hin. specialize (H2 _ Hin). simpl in H2. apply andb_true_iff in H2. destruct H2 as [Hd Hn]. split.
    + intros He. rewrite He in Hd. simpl in Hd. apply detectsb_sound; auto.
    + apply nothing_elseb_sound; auto. Qed.

Lemma wf_nd_schema S : wf_schemab S = true -> nd_schema S.
Proof. intros H. pose proof (wf_schema_ndf _ H) as Hf. apply wf_schema_nd in H. destruct H as [H1 H2]. split; auto. Qed.
Lemma dok_of_defaults_ok S : defaults_ok S = true -> dok_schema S.
Proof. intros H. exact (defaults_ok_dok S H). Qed.

Lemma named_of_no_unnamed S : no_unnamed_uq S = true -> named_schema S.
Proof. intros H. exact (no_unnamed_uq_nil S H). Qed.

Theorem model_C07_holds i : inclass_C07 i = true -> C07_holds i (model_C07 i).
Proof. destruct i as [A m]. unfold inclass_C07. simpl. rewrite !andb_true_iff. intros [[[[[[[[HuA HuB] HA] Ha] HB] HdA] HdB] _] _].
  apply named_of_no_unnamed in HuA. apply named_of_no_unnamed in HuB.
  apply wf_nd_schema in HA. apply wf_nd_schema in HB. apply dok_of_defaults_ok in HdA. apply dok_of_defaults_ok in HdB.
  unfold C07_holds, model_C07. simpl. split; [reflexivity|].
  intros g ops Hin.
  assert (Ho: ops = diff g (reflect_sqlite A) (apply_mut m A)).
  { repeat (destruct Hin as [Hin|Hin]; [inversion Hin; reflexivity|]). inversion Hin. }
  subst ops. split.
  - intros He. apply detects_catalogue; auto.
  - apply nothing_else_catalogue; auto. Qed.

(* ================================================================ several changes at once *)
Lemma unchanged_refl A r : ~ changed A A r.
Proof. destruct r; simpl; try tauto; intros H; apply H; reflexivity. Qed.
Lemma unchanged_trans A B C r : ~ changed A B r -> ~ changed B C r -> ~ changed A C r.
Proof. destruct r; simpl; try tauto.
  - intros H1 H2 H3. apply H1. intro E. apply H2. intro E2. apply H3. congruence.
  - intros H1 H2 H3. apply H1. intro E. apply H2. intro E2. apply H3. congruence.
  - intros H1 H2 H3. apply H1. intro E. apply H2. intro E2. apply H3. congruence. Qed.
Lemma objref_eqb_refl r : objref_eqb r r = true.
Proof. destruct r; simpl; rewrite ?N.eqb_refl; auto. Qed.
Lemma mem_ref_In r l : In r l -> mem_ref r l = true.
Proof. intros H. apply existsb_exists. exists r. split; auto. apply objref_eqb_refl. Qed.
Lemma In_mem_ref r l : mem_ref r l = true -> In r l.
Proof. intros H. apply existsb_exists in H. destruct H as [x [Hx E]]. apply objref_eqb_eq in E. congruence. Qed.

Lemma unchanged_stages ms : forall A r, stages_applicable (stages ms A) = true -> mem_ref r (touched (stages ms A)) = false ->
  ~ changed A (apply_muts ms A) r.
Proof. induction ms as [|m ms IH]; intros A r Ha Hm; simpl.
  - apply unchanged_refl.
  - simpl in Ha. apply andb_true_iff in Ha. destruct Ha as [Ha Hr].
    unfold touched in Hm. simpl in Hm. unfold mem_ref in Hm. rewrite existsb_app in Hm. apply orb_false_iff in Hm. destruct Hm as [Hm1 Hm2].
    apply (unchanged_trans A (apply_mut m A)).
    + intros Hc. apply changed_touches in Hc; auto. apply mem_ref_In in Hc. unfold mem_ref in Hc. congruence.
    + apply IH; auto. Qed.

Theorem nothing_else_seq g A ms o : nd_schema A -> nd_schema (apply_muts ms A) -> dok_schema (apply_muts ms A) -> named_schema (apply_muts ms A) ->
  stages_applicable (stages ms A) = true -> In o (diff g (reflect_sqlite A) (apply_muts ms A)) -> In (op_target o) (touched (stages ms A)).
Proof. intros HA HB HBd HBu Ha Ho. destruct (mem_ref (op_target o) (touched (stages ms A))) eqn:E.
  - apply In_mem_ref; auto.
  - exfalso. apply (unchanged_stages ms A (op_target o) Ha E). eapply diff_local; eauto. Qed.

Theorem check_C07s_sound i out : check_C07s i out = true -> C07s_holds i out.
Proof. unfold check_C07s, C07s_holds. rewrite andb_true_iff, forallb_forall. intros [H1 H2]. split.
  - apply (list_eqb_sound cfg_eqb cfg_eqb_eq); auto.
  - intros g ops Hin. specialize (H2 _ Hin). simpl in H2. apply andb_true_iff in H2. destruct H2 as [Hd Hn].
    rewrite forallb_forall in Hd, Hn. split.
    + intros x Hx He. specialize (Hd _ Hx). rewrite He in Hd. simpl in Hd. apply detectsb_sound; auto.
    + intros o Ho. apply In_mem_ref. apply Hn; auto. Qed.
