(* C16: which revisions carry which branch label after the load (RevisionMap._add_branches), for every order oracle. *)
From AV Require Import Model.Resolve Spec.C16 Proofs.ResolveProof.
From Coq Require Import Lia.

(* ------------------------------------------------------------------ lists of strings *)
Lemma dedupes_acc_In seen l x : In x (dedupes_acc seen l) <-> In x l /\ ~ In x seen.
Proof.
  revert seen; induction l as [|a l IH]; intros seen; cbn; [tauto|].
  destruct (mems a seen) eqn:E.
  - rewrite IH. apply mems_In in E. split; [tauto|]. intros [[->|H] N]; tauto.
  - apply mems_nIn in E. cbn. rewrite IH. cbn. split.
    + intros [->|[H N]]; [tauto|]. split; [tauto|]. intros Hs. apply N; right; auto.
    + intros [[->|H] N]; [left; auto|]. destruct (streqb a x) eqn:Ea; [apply streqb_eq in Ea; left; auto|].
      apply streqb_neq in Ea. right. split; auto. intros [?|?]; [congruence|tauto].
Qed.
Lemma dedupes_In l x : In x (dedupes l) <-> In x l.
Proof. unfold dedupes. rewrite dedupes_acc_In. cbn. tauto. Qed.

(* ------------------------------------------------------------------ labels_add / labels_get *)
Lemma lookup_labels_add bl n ls x :
  lookup x (labels_add bl n ls) =
  match lookup x bl with Some v => Some (if streqb x n then dedupes (v ++ ls) else v) | None => None end.
Proof.
  unfold labels_add. induction bl as [|[k v] bl IH]; cbn [map lookup fst snd]; auto.
  destruct (streqb k n) eqn:Ekn; cbn [fst snd]; destruct (streqb x k) eqn:Exk; auto.
  - apply streqb_eq in Exk; subst. rewrite Ekn. reflexivity.
  - apply streqb_eq in Exk; subst. rewrite Ekn. reflexivity.
Qed.
Lemma labels_add_fst bl n ls : map fst (labels_add bl n ls) = map fst bl.
Proof. unfold labels_add. rewrite map_map. apply map_ext. intros [k v]; cbn. destruct (streqb k n); reflexivity. Qed.
Lemma get_labels_add bl n ls x L :
  In L (labels_get (labels_add bl n ls) x) <-> In L (labels_get bl x) \/ (x = n /\ In x (map fst bl) /\ In L ls).
Proof.
  unfold labels_get. rewrite lookup_labels_add. destruct (lookup x bl) as [v|] eqn:E.
  - assert (K : In x (map fst bl)) by (apply lookup_In in E; apply in_map_iff; exists (x, v); auto).
    destruct (streqb x n) eqn:En.
    + apply streqb_eq in En. subst. rewrite dedupes_In, in_app_iff. tauto.
    + apply streqb_neq in En. tauto.
  - apply lookup_None in E. cbn. tauto.
Qed.
Lemma get_fold_add nodes ls : forall bl x L,
  In L (labels_get (fold_left (fun b n => labels_add b n ls) nodes bl) x) <->
  In L (labels_get bl x) \/ (In x nodes /\ In x (map fst bl) /\ In L ls).
Proof.
  induction nodes as [|n nodes IH]; intros bl x L; cbn [fold_left].
  - cbn. tauto.
  - rewrite IH, get_labels_add, labels_add_fst. cbn. split.
    + intros [[H|(-> & K & H)]|(H1 & K & H)]; auto.
    + intros [H|([->|H1] & K & H)]; auto.
Qed.
Lemma fold_add_fst nodes ls : forall bl, map fst (fold_left (fun b n => labels_add b n ls) nodes bl) = map fst bl.
Proof. induction nodes; intros bl; cbn; auto. rewrite IHnodes. apply labels_add_fst. Qed.

(* the upward loop is the fold over `upchain` *)
Lemma add_branches_up_fold G ls : forall fuel p bl,
  add_branches_up G fuel p ls bl = fold_left (fun b n => labels_add b n ls) (upchain G fuel p) bl.
Proof.
  induction fuel as [|f IH]; intros p bl; cbn [add_branches_up upchain]; auto.
  destruct (find_rev G p) as [r|]; auto.
  destruct ((1 <? length (all_nextrev G p)) || (1 <? length (s_down r))); auto.
  cbn [fold_left]. destruct (s_down r) as [|d t]; auto.
Qed.

(* descendants through the children map *)
Lemma reach_next_spec G rk x y : ranked G rk -> NoDup (ids G) -> In x (ids G) ->
  (In y (reach (length G) (nextrev G) x) <-> anc G y x).
Proof.
  intros R ND Hx. unfold anc. split.
  - intros H. apply reach_sound in H. eapply path_rev; [|exact H]. intros a b Hb. apply nextrev_down in Hb; tauto.
  - intros P.
    assert (P' : path (nextrev G) x y).
    { clear R. induction P as [z|z c w Hc P IH]; [constructor|].
      specialize (IH Hx). eapply path_snoc; eauto. apply nextrev_down; auto. split; auto.
      apply down_of_In in Hc as (r & _ & Hr & <- & _). apply in_map; auto. }
    eapply reach_complete with (rk:=fun z => length G - rk z); eauto using ranked_next. lia.
Qed.
Lemma anc_ids G x y : In y (ids G) -> anc G x y -> In x (ids G).
Proof.
  intros Hy P. induction P as [z|z c w Hc P IH]; auto.
  apply down_of_In in Hc as (r & _ & Hr & <- & _). apply in_map; auto.
Qed.

(* ------------------------------------------------------------------ the invariant *)
Section Invariant.
Variables (G:list srev) (rk:str -> nat).
Hypothesis ND : NoDup (ids G).
Hypothesis RK : ranked G rk.

Definition agrees (bl:list (str * list str)) (cur:str -> str -> Prop) : Prop :=
  map fst bl = ids G /\ forall x L, In x (ids G) -> (In L (labels_get bl x) <-> cur x L).

Lemma add_branches_spec oracle : forall bl cur,
  (forall p, In p oracle -> In (fst p) (ids G)) ->
  agrees bl cur -> agrees (add_branches G oracle bl) (carries_from G cur oracle).
Proof.
  induction oracle as [|[R last] oracle IH]; intros bl cur HO A; cbn [add_branches carries_from]; auto.
  apply IH; [intros p Hp; apply HO; right; auto|].
  destruct A as [AF AG]. assert (HR : In R (ids G)) by (apply (HO (R, last)); left; auto).
  rewrite add_branches_up_fold. split.
  - rewrite !fold_add_fst. exact AF.
  - intros x L Hx. rewrite !get_fold_add, fold_add_fst, AF.
    rewrite (reach_next_spec G rk R x RK ND HR). rewrite (AG x L Hx), (AG R L HR). tauto.
Qed.

Lemma init_agrees : agrees (map (fun r => (s_id r, s_labels r)) G) (orig_label G).
Proof.
  split; [rewrite map_map; reflexivity|].
  intros x L Hx. unfold labels_get, orig_label.
  apply in_map_iff in Hx as (r & <- & Hr). rewrite (find_rev_NoDup G r ND Hr).
  assert (E : lookup (s_id r) (map (fun r => (s_id r, s_labels r)) G) = Some (s_labels r)).
  { clear RK. induction G as [|a G' IH]; [destruct Hr|]. cbn [map lookup].
    destruct (streqb (s_id r) (s_id a)) eqn:E.
    - apply streqb_eq in E. destruct Hr as [->|Hr]; auto.
      inversion ND as [|? ? Hn ND']; subst. exfalso. apply Hn. rewrite <- E. apply in_map; auto.
    - destruct Hr as [->|Hr]; [rewrite streqb_refl in E; discriminate|]. inversion ND; subst. auto. }
  rewrite E. split; [intros H; exists r; auto | intros (r' & Er & H); inversion Er; subst; auto].
Qed.

(* the propagated labels of the loaded map are exactly `carries`, for every admissible order oracle *)
Theorem labels_invariant oracle M : load G oracle = Ok M ->
  map fst (m_blabels M) = ids G /\
  forall x L, In x (ids G) -> (In L (labels_get (m_blabels M) x) <-> carries G oracle x L).
Proof.
  unfold load. destruct (negb (oracle_ok G oracle)) eqn:OK; [discriminate|].
  destruct (map_branch_labels G (map fst oracle) _) as [keys|]; cbn [bind]; [|discriminate].
  intros H; inversion H; subst; clear H. cbn [m_blabels]. apply add_branches_spec; [|apply init_agrees].
  apply negb_false_iff in OK. unfold oracle_ok in OK. rewrite !andb_true_iff in OK. destruct OK as [[[_ _] O3] _].
  rewrite forallb_forall in O3. intros p Hp. specialize (O3 (fst p) (in_map fst _ _ Hp)). apply mems_In in O3.
  apply in_map_iff in O3 as (r & E & Hr). apply filter_In in Hr as [Hr _]. rewrite <- E. apply in_map; auto.
Qed.
End Invariant.

(* ------------------------------------------------------------------ label keys of the loaded map *)
Lemma add_labels_lookup x ls : forall keys keys' l, add_labels x ls keys = Ok keys' -> In l ls -> lookup l keys' = Some x.
Proof.
  induction ls as [|a ls IH]; cbn; intros keys keys' l H Hl; [destruct Hl|].
  destruct (lookup a keys) eqn:E; [discriminate|].
  destruct (streqb a l) eqn:Eal.
  - apply streqb_eq in Eal. subst a. apply add_labels_spec in H as (extra & -> & _).
    apply lookup_app_l. rewrite lookup_app_r by auto. cbn. rewrite streqb_refl. reflexivity.
  - destruct Hl as [->|Hl]; [rewrite streqb_refl in Eal; discriminate|]. eapply IH; eauto.
Qed.
Lemma map_branch_labels_lookup G order : forall keys keys' x r l, map_branch_labels G order keys = Ok keys' ->
  In x order -> find_rev G x = Some r -> In l (s_labels r) -> lookup l keys' = Some x.
Proof.
  induction order as [|a order IH]; cbn; intros keys keys' x r l H Hx F Hl; [destruct Hx|].
  destruct (add_labels a _ keys) as [k1|] eqn:E; cbn in H; [|discriminate].
  destruct (streqb a x) eqn:Eax.
  - apply streqb_eq in Eax. subst a. rewrite F in E. eapply add_labels_lookup in E; eauto.
    apply map_branch_labels_spec in H as (extra & -> & _). apply lookup_app_l; auto.
  - destruct Hx as [->|Hx]; [rewrite streqb_refl in Eax; discriminate|]. eapply IH; eauto.
Qed.

Section Labels.
Variables (G:list srev) (rk:str -> nat) (oracle:list (str*str)) (M:rmap).
Hypothesis ND : NoDup (ids G).
Hypothesis RK : ranked G rk.
Hypothesis RO : refs_ok G.
Hypothesis LOAD : load G oracle = Ok M.

Lemma oracle_covers r : In r G -> s_labels r <> [] -> exists last, In (s_id r, last) oracle.
Proof.
  intros Hr NE. pose proof LOAD as L0. unfold load in L0. destruct (negb (oracle_ok G oracle)) eqn:OK; [discriminate|].
  apply negb_false_iff in OK. unfold oracle_ok in OK. rewrite !andb_true_iff in OK. destruct OK as [[[_ O2] _] _].
  rewrite forallb_forall in O2. specialize (O2 (s_id r)).
  assert (H : In (s_id r) (map s_id (filter (fun r => nonempty (s_labels r)) G))).
  { apply in_map. apply filter_In. split; auto. destruct (s_labels r); [congruence|reflexivity]. }
  apply O2 in H. apply mems_In in H. apply in_map_iff in H as ([a last] & E & H). cbn in E. subst a. eauto.
Qed.
Lemma label_key r l : In r G -> In l (s_labels r) -> lookup l (m_keys M) = Some (s_id r).
Proof.
  intros Hr Hl. destruct (oracle_covers r Hr) as (last & Hin); [intros E; rewrite E in Hl; destruct Hl|].
  pose proof LOAD as L0. unfold load in L0. destruct (negb (oracle_ok G oracle)); [discriminate|].
  destruct (map_branch_labels G (map fst oracle) _) as [keys|] eqn:E; cbn [bind] in L0; [|discriminate].
  inversion L0; subst; cbn [m_keys]. eapply map_branch_labels_lookup; eauto.
  - apply in_map_iff. exists (s_id r, last). auto.
  - apply find_rev_NoDup; auto.
Qed.
Lemma label_unique r r' l : In r G -> In r' G -> In l (s_labels r) -> In l (s_labels r') -> r = r'.
Proof.
  intros H H' L L'. pose proof (label_key r l H L) as E. rewrite (label_key r' l H' L') in E.
  inversion E. eapply same_id; eauto.
Qed.
Lemma label_owner r l : In r G -> In l (s_labels r) -> r_label_owner G l = Some (s_id r).
Proof.
  intros Hr Hl. unfold r_label_owner.
  destruct (filter (fun r0 => mems l (s_labels r0)) G) as [|r1 t] eqn:F.
  - assert (In r (filter (fun r0 => mems l (s_labels r0)) G)) by (apply filter_In; split; auto; apply mems_In; auto).
    rewrite F in H. destruct H.
  - assert (H1 : In r1 (filter (fun r0 => mems l (s_labels r0)) G)) by (rewrite F; left; auto).
    apply filter_In in H1 as [H1 H2]. apply mems_In in H2. rewrite (label_unique r1 r l); auto.
Qed.
Lemma label_not_id r l : In r G -> In l (s_labels r) -> ~ In l (ids G).
Proof.
  intros Hr Hl Hin.
  (* l is an id, so the label could not have been added *)
  destruct (oracle_covers r Hr) as (last & Ho); [intros E0; rewrite E0 in Hl; destruct Hl|].
  pose proof LOAD as L0. unfold load in L0. destruct (negb (oracle_ok G oracle)); [discriminate|].
  destruct (map_branch_labels G (map fst oracle) _) as [keys|] eqn:EM; cbn [bind] in L0; [|discriminate].
  clear - EM Ho Hl Hin ND Hr.
  assert (Q : forall order ks ks', map_branch_labels G order ks = Ok ks' -> In (s_id r) order ->
              lookup l ks = None).
  { induction order as [|a order IH]; cbn; intros ks ks' H Hx; [destruct Hx|].
    destruct (add_labels a _ ks) as [k1|] eqn:E; cbn in H; [|discriminate].
    destruct (streqb a (s_id r)) eqn:Ea.
    - apply streqb_eq in Ea. subst a. rewrite (find_rev_NoDup G r ND Hr) in E.
      clear - E Hl. revert ks E. induction (s_labels r) as [|b ls IHl]; intros ks E; [destruct Hl|]. cbn in E.
      destruct (lookup b ks) eqn:Eb; [discriminate|]. destruct Hl as [->|Hl]; auto.
      apply IHl in E; auto. destruct (lookup l ks) eqn:El; auto. erewrite lookup_app_l in E; eauto.
    - destruct Hx as [Hx|Hx]; [rewrite Hx, streqb_refl in Ea; discriminate|].
      specialize (IH _ _ H Hx). apply add_labels_spec in E as (extra & -> & _).
      destruct (lookup l ks) eqn:El; auto. erewrite lookup_app_l in IH; eauto. }
  specialize (Q _ _ _ EM (in_map fst _ _ Ho)). rewrite lookup_self in Q; [discriminate|auto].
Qed.

(* --- completeness: every down_revision-descendant of a labelled revision carries its labels *)
Lemma carries_mono todo : forall (cur:str -> str -> Prop) x L, cur x L -> carries_from G cur todo x L.
Proof. induction todo as [|[R last] todo IH]; intros cur x L H; cbn; auto. Qed.
Lemma carries_desc todo : forall (cur:str -> str -> Prop) R last x L, In (R, last) todo -> cur R L -> In x (ids G) -> anc G x R ->
  carries_from G cur todo x L.
Proof.
  induction todo as [|[R' last'] todo IH]; intros cur R last x L Hin HR Hx HA; [destruct Hin|]. cbn.
  destruct Hin as [E|Hin].
  - inversion E; subst. apply carries_mono. right. auto.
  - eapply IH; eauto.
Qed.

(* --- soundness: a revision only carries labels of revisions it shares lineage with *)
Definition inv (o:str) (x:str) : Prop := In x (ids G) /\ forall d, anc G d x -> lineage G o d.
Definition passes (p:str) : Prop :=
  exists r, find_rev G p = Some r /\ length (all_nextrev G p) <= 1 /\ length (s_down r) <= 1.

Lemma path_inv_last s x z : path s x z -> x = z \/ exists c, path s x c /\ In z (s c).
Proof.
  induction 1 as [x|x y z Hy P IH]; [left; auto|]. right. destruct IH as [->|(c & Pc & Hc)].
  - exists x. split; [constructor|auto].
  - exists c. split; auto. eapply path_step; eauto.
Qed.
Lemma filter_length_le {A} (f g:A -> bool) l : (forall a, f a = true -> g a = true) -> length (filter f l) <= length (filter g l).
Proof.
  intros H. induction l as [|a l IH]; cbn; auto. destruct (f a) eqn:F.
  - rewrite (H a F). cbn. lia.
  - destruct (g a); cbn; lia.
Qed.
Lemma mems_dedupes x l : mems x (dedupes l) = mems x l.
Proof.
  destruct (mems x l) eqn:E.
  - apply mems_In. apply dedupes_In. apply mems_In; auto.
  - apply mems_nIn. rewrite dedupes_In. apply mems_nIn; auto.
Qed.
Lemma nextrev_le_all x : length (nextrev G x) <= length (all_nextrev G x).
Proof.
  unfold nextrev, all_nextrev. rewrite !map_length. apply filter_length_le.
  intros a H. unfold all_down_r. rewrite mems_dedupes. apply mems_In. apply in_or_app. left. apply mems_In; auto.
Qed.

Lemma inv_desc o R x : inv o R -> In x (ids G) -> anc G x R -> inv o x.
Proof. intros [_ H] Hx A. split; auto. intros d Hd. apply H. eapply path_trans; eauto. Qed.

Lemma inv_step o p d r : inv o p -> passes d -> find_rev G p = Some r -> s_down r = [d] -> inv o d.
Proof.
  intros [Hp Ip] (rd & Fd & B1 & B2) Fp Dp.
  assert (Hd : In d (ids G)).
  { apply find_rev_In in Fp as [Fp _]. apply (RO r d Fp). rewrite Dp; left; auto. }
  assert (Dof : down_of G p = [d]) by (unfold down_of; rewrite Fp; auto).
  assert (Hpd : In p (nextrev G d)).
  { apply nextrev_down; auto. split; auto. rewrite Dof; left; auto. }
  assert (Only : forall c, In c (nextrev G d) -> c = p).
  { intros c Hc. pose proof (nextrev_le_all d) as Le. destruct (nextrev G d) as [|a [|b t]]; [destruct Hc| |cbn [length] in Le; lia].
    destruct Hc as [<-|[]], Hpd as [<-|[]]. reflexivity. }
  split; auto. intros y Hy. apply path_inv_last in Hy as [->|(c & Pc & Hc)].
  - (* d itself *)
    destruct (Ip p (path_refl _ _)) as [A|A].
    + left. unfold anc in *. eapply path_snoc; eauto. rewrite Dof; left; auto.
    + unfold anc in A. inversion A as [|? c ? Hc P]; subst.
      * left. unfold anc. eapply path_step; [rewrite Dof; left; reflexivity|constructor].
      * rewrite Dof in Hc. destruct Hc as [<-|[]]. right. exact P.
  - assert (c = p).
    { apply Only. apply nextrev_down; auto. split; auto.
      apply down_of_In in Hc as (rc & _ & Hrc & <- & _). apply in_map; auto. }
    subst c. apply Ip. exact Pc.
Qed.

Lemma upchain_inv o : forall fuel p x, In x (upchain G fuel p) -> (passes p -> inv o p) -> inv o x.
Proof.
  induction fuel as [|f IH]; intros p x Hx Hp; cbn [upchain] in Hx; [destruct Hx|].
  destruct (find_rev G p) as [r|] eqn:Fp; [|destruct Hx].
  destruct ((1 <? length (all_nextrev G p)) || (1 <? length (s_down r))) eqn:T; [destruct Hx|].
  apply orb_false_iff in T as [T1 T2]. apply Nat.ltb_ge in T1, T2.
  assert (Pp : passes p) by (exists r; auto). specialize (Hp Pp).
  destruct Hx as [<-|Hx]; auto.
  destruct (s_down r) as [|d t] eqn:D; [destruct Hx|]. destruct t; [|cbn in T2; lia].
  eapply IH; eauto. intros Pd. eapply inv_step; eauto.
Qed.

Lemma carries_sound o l todo : forall (cur:str -> str -> Prop),
  (forall p, In p todo -> In (fst p) (ids G) /\ anc G (snd p) (fst p)) ->
  (forall x, cur x l -> inv o x) -> forall x, carries_from G cur todo x l -> inv o x.
Proof.
  induction todo as [|[R last] todo IH]; intros cur HO Hc x; cbn [carries_from]; auto.
  apply IH; [intros p Hp; apply HO; right; auto|].
  intros y [H|(HR & Hy & [A|U])]; auto.
  - eapply inv_desc; eauto.
  - destruct (HO (R, last) (or_introl eq_refl)) as [HRid HL]. cbn in HRid, HL.
    eapply upchain_inv; eauto. intros _. eapply inv_desc; eauto. eapply anc_ids; eauto.
Qed.

Lemma carries_owner (P:str -> Prop) todo : forall (cur:str -> str -> Prop) x L,
  (forall x, cur x L -> P L) -> carries_from G cur todo x L -> P L.
Proof.
  induction todo as [|[R last] todo IH]; intros cur x L H C; cbn in C; [eauto|].
  eapply IH; [|exact C]. intros y [Hy|(Hy & _)]; eauto.
Qed.

Lemma oracle_last p : In p oracle -> In (fst p) (ids G) /\ anc G (snd p) (fst p).
Proof.
  intros Hp. pose proof LOAD as L0. unfold load in L0. destruct (negb (oracle_ok G oracle)) eqn:OK; [discriminate|].
  apply negb_false_iff in OK. unfold oracle_ok in OK. rewrite !andb_true_iff in OK. destruct OK as [[[_ _] O3] O4].
  rewrite forallb_forall in O3, O4.
  assert (Hid : In (fst p) (ids G)).
  { specialize (O3 (fst p) (in_map fst _ _ Hp)). apply mems_In in O3.
    apply in_map_iff in O3 as (r & E & Hr). apply filter_In in Hr as [Hr _]. rewrite <- E. apply in_map; auto. }
  split; auto. specialize (O4 p Hp). apply mems_In in O4. eapply reach_next_spec; eauto.
Qed.

Lemma lookup_NoDup {A} (bl:list (str*A)) p : NoDup (map fst bl) -> In p bl -> lookup (fst p) bl = Some (snd p).
Proof.
  induction bl as [|[k v] bl IH]; intros N H; [destruct H|]. cbn [map fst] in N. cbn [lookup].
  destruct H as [E|H].
  - subst p. cbn [fst snd]. rewrite streqb_refl. reflexivity.
  - inversion N as [|? ? Hn N']; subst. destruct (streqb (fst p) k) eqn:E.
    + apply streqb_eq in E. exfalso. apply Hn. rewrite <- E. apply in_map; auto.
    + auto.
Qed.

(* the branch-label clause of the property holds of the model, for every admissible oracle *)
Theorem labels_ok_model : labels_okb G (m_blabels M) = true.
Proof.
  destruct (labels_invariant G rk ND RK oracle M LOAD) as [HF HC].
  unfold labels_okb. destruct (m_blabels M) as [|p0 bl0] eqn:EB; [reflexivity|]. rewrite <- EB in *. clear EB p0 bl0.
  assert (NDk : NoDup (map fst (m_blabels M))) by (rewrite HF; auto).
  rewrite !andb_true_iff. repeat split.
  - rewrite HF. clear. induction (ids G) as [|a l IH]; cbn; auto. rewrite streqb_refl; auto.
  - rewrite forallb_forall. intros R HR. rewrite forallb_forall. intros l Hl. rewrite forallb_forall. intros p Hp.
    destruct (r_is_anc G (fst p) (s_id R)) eqn:A; [|reflexivity]. cbn [negb orb].
    assert (Hx : In (fst p) (ids G)) by (rewrite <- HF; apply in_map; auto).
    apply mems_In. pose proof (lookup_NoDup _ p NDk Hp) as E.
    assert (In l (labels_get (m_blabels M) (fst p))); [|unfold labels_get in H; rewrite E in H; exact H].
    apply HC; auto. destruct (oracle_covers R HR) as (last & Ho); [intros E0; rewrite E0 in Hl; destruct Hl|].
    eapply carries_desc; eauto.
    + exists R. split; [apply find_rev_NoDup; auto|auto].
    + unfold r_is_anc, r_parents in A. apply mems_In in A. apply reach_sound in A. exact A.
  - rewrite forallb_forall. intros p Hp. rewrite forallb_forall. intros l Hl.
    assert (Hx : In (fst p) (ids G)) by (rewrite <- HF; apply in_map; auto).
    pose proof (lookup_NoDup _ p NDk Hp) as E.
    assert (C : carries G oracle (fst p) l).
    { apply HC; auto. unfold labels_get. rewrite E. exact Hl. }
    assert (Own : exists ro, In ro G /\ In l (s_labels ro)).
    { eapply carries_owner; [|exact C]. intros x (r & F & H). apply find_rev_In in F as [F _]. eauto. }
    destruct Own as (ro & Hro & Hlo).
    rewrite (label_owner ro l Hro Hlo).
    assert (I : inv (s_id ro) (fst p)).
    { eapply carries_sound; [apply oracle_last| |exact C].
      intros x (r & F & H). apply find_rev_In in F as [F Ex]. rewrite (label_unique r ro l F Hro H Hlo) in Ex. subst x.
      split; [apply in_map; auto|]. intros d Hd. right. exact Hd. }
    destruct I as [_ I]. specialize (I (fst p) (path_refl _ _)).
    unfold r_lineage, r_is_anc, r_parents. apply orb_true_iff.
    destruct I as [A|A]; [left|right]; apply mems_In; eapply reach_complete with (rk:=rk); eauto using ranked_down; apply RK.
Qed.
End Labels.
