(* Lemmas about the shared graph core: find_rev, path, the DFS transcription
   (exactly the reachable set; never out of fuel), reversal of the parent relation,
   and the finite-walk lemma (an acyclic finite relation reaches a terminal node). *)
From AV Require Import Model.RevGraph.

(* ---------- find_rev ---------- *)
Lemma find_rev_In G x r : find_rev G x = Some r -> In r G /\ r_id r = x.
Proof. induction G as [|a G IH]; simpl; [discriminate|]. destruct (N.eqb_spec (r_id a) x) as [E|E].
  - intros H; inversion H; subst; auto.
  - intros H; destruct (IH H); auto. Qed.
Lemma find_rev_None G x : find_rev G x = None <-> ~ In x (ids G).
Proof. induction G as [|a G IH]; simpl; [tauto|]. destruct (N.eqb_spec (r_id a) x) as [E|E].
  - split; [discriminate|]. intros H; exfalso; auto.
  - rewrite IH. tauto. Qed.
Lemma find_rev_NoDup G r : NoDup (ids G) -> In r G -> find_rev G (r_id r) = Some r.
Proof. induction G as [|a G IH]; simpl; [tauto|]. intros ND [->|Hr].
  - rewrite N.eqb_refl; auto.
  - inversion ND as [|? ? Hn ND']; subst. destruct (N.eqb_spec (r_id a) (r_id r)) as [E|E]; auto.
    exfalso. apply Hn. rewrite E. apply in_map; auto. Qed.
Lemma of_rev_notin f G x : ~ In x (ids G) -> of_rev f G x = [].
Proof. intros H. unfold of_rev. apply find_rev_None in H. rewrite H; auto. Qed.
Lemma of_rev_In f G x y : In y (of_rev f G x) -> exists r, In r G /\ r_id r = x /\ In y (f r).
Proof. unfold of_rev. destruct (find_rev G x) eqn:E; [|intros []]. apply find_rev_In in E. intros; exists r; tauto. Qed.
Lemma of_rev_intro f G r y : NoDup (ids G) -> In r G -> In y (f r) -> In y (of_rev f G (r_id r)).
Proof. intros ND Hr Hy. unfold of_rev. rewrite (find_rev_NoDup G r ND Hr); auto. Qed.

Lemma children_by_In f G x c : In c (children_by f G x) <-> exists r, In r G /\ r_id r = c /\ In x (f r).
Proof. unfold children_by. rewrite in_map_iff. split.
  - intros [r [E H]]. apply filter_In in H. rewrite memN_In in H. exists r; tauto.
  - intros [r [Hr [E Hx]]]. exists r. split; auto. apply filter_In. rewrite memN_In; auto. Qed.
Lemma children_by_rev f G x c : NoDup (ids G) -> (In c (children_by f G x) <-> In x (of_rev f G c) /\ In c (ids G)).
Proof. intros ND. rewrite children_by_In. split.
  - intros [r [Hr [E Hx]]]. subst c. split; [apply of_rev_intro; auto|apply in_map; auto].
  - intros [Hx _]. apply of_rev_In in Hx. exact Hx. Qed.
Lemma children_by_ids f G x c : In c (children_by f G x) -> In c (ids G).
Proof. rewrite children_by_In. intros [r [Hr [E _]]]. subst. apply in_map; auto. Qed.

(* ---------- path ---------- *)
Section PATH.
  Variable succ : N -> list N.
  Lemma path_trans x y z : path succ x y -> path succ y z -> path succ x z.
  Proof. induction 1; auto. intros. eapply path_step; eauto. Qed.
  Lemma path_snoc x y z : path succ x y -> In z (succ y) -> path succ x z.
  Proof. intros P H. eapply path_trans; eauto. eapply path_step; eauto. constructor. Qed.
  Lemma path1_path x z : path1 succ x z -> path succ x z.
  Proof. intros [y [H P]]. eapply path_step; eauto. Qed.
  Lemma path1_trans_l x y z : path1 succ x y -> path succ y z -> path1 succ x z.
  Proof. intros [w [H P]] Q. exists w; split; auto. eapply path_trans; eauto. Qed.
  Lemma path1_trans_r x y z : path succ x y -> path1 succ y z -> path1 succ x z.
  Proof. induction 1; auto. intros Q. exists y; split; auto. apply path1_path. auto. Qed.
  Lemma path_inv x z : path succ x z -> x = z \/ path1 succ x z.
  Proof. destruct 1; auto. right. exists y; auto. Qed.
  Lemma path1_snoc x y z : path succ x y -> In z (succ y) -> path1 succ x z.
  Proof. intros P H. eapply path1_trans_r; eauto. exists z; split; auto. constructor. Qed.
End PATH.

Lemma path_mono (s1 s2 : N -> list N) : (forall x y, In y (s1 x) -> In y (s2 x)) ->
  forall x z, path s1 x z -> path s2 x z.
Proof. intros H x z P. induction P; [constructor|]. eapply path_step; eauto. Qed.
Lemma path1_mono (s1 s2 : N -> list N) : (forall x y, In y (s1 x) -> In y (s2 x)) ->
  forall x z, path1 s1 x z -> path1 s2 x z.
Proof. intros H x z [y [Hy P]]. exists y; split; auto. eapply path_mono; eauto. Qed.
Lemma cyclic_mono (s1 s2 : N -> list N) : (forall x y, In y (s1 x) -> In y (s2 x)) -> cyclic s1 -> cyclic s2.
Proof. intros H [x P]. exists x. eapply path1_mono; eauto. Qed.

(* reversal: s2 is the converse of s1 on U *)
Lemma path_converse (s1 s2 : N -> list N) : (forall x y, In y (s1 x) -> In x (s2 y)) ->
  forall x z, path s1 x z -> path s2 z x.
Proof. intros H x z P. induction P; [constructor|]. eapply path_snoc; eauto. Qed.

(* ---------- DFS = reachable set ---------- *)
Section DFS.
  Variable succ : N -> list N.

  Lemma dfs_sound fuel : forall todo seen out, dfs succ fuel todo seen = Some out ->
     forall z, In z out -> In z seen \/ exists t, In t todo /\ path succ t z.
  Proof.
    induction fuel as [|f IH]; intros todo seen out H z Hz; [discriminate|].
    cbn [dfs] in H. destruct todo as [|x rest]. { inversion H; subst; auto. }
    destruct (memN x seen) eqn:E.
    - destruct (IH _ _ _ H z Hz) as [|[t [Ht Hr]]]; auto. right. exists t; split; [right|]; auto.
    - destruct (IH _ _ _ H z Hz) as [Hs|[t [Ht Hr]]].
      + destruct Hs as [->|Hs]; auto. right. exists z; split; [left; auto|constructor].
      + apply in_app_or in Ht. destruct Ht as [Ht|Ht].
        * apply in_rev in Ht. right. exists x. split; [left; auto|]. eapply path_step; eauto.
        * right. exists t. split; [right|]; auto.
  Qed.

  Definition closed (seen todo : list N) := forall x y, In x seen -> In y (succ x) -> In y seen \/ In y todo.

  Lemma dfs_mono fuel : forall todo seen out, dfs succ fuel todo seen = Some out -> incl seen out.
  Proof. induction fuel as [|f IH]; intros todo seen out H; [discriminate|]. cbn [dfs] in H.
    destruct todo as [|x rest]. { inversion H; subst; apply incl_refl. }
    destruct (memN x seen). { eauto. } apply IH in H. intros a Ha. apply H. right; auto. Qed.

  Lemma dfs_closed fuel : forall todo seen out, dfs succ fuel todo seen = Some out ->
     closed seen todo -> closed out [] /\ incl todo out.
  Proof.
    induction fuel as [|f IH]; intros todo seen out H C; [discriminate|]. cbn [dfs] in H.
    destruct todo as [|x rest]. { inversion H; subst. split; auto. intros a []. }
    destruct (memN x seen) eqn:E.
    - apply memN_In in E. pose proof (dfs_mono _ _ _ _ H) as M.
      destruct (IH _ _ _ H) as [C' I'].
      { intros a b Ha Hb. destruct (C a b Ha Hb) as [Hq|[Hq|Hq]]; auto. subst b. auto. }
      split; auto. intros a [Hq|Ha]; auto. subst a. apply M; auto.
    - pose proof (dfs_mono _ _ _ _ H) as M.
      destruct (IH _ _ _ H) as [C' I'].
      { intros a b Ha Hb. destruct Ha as [->|Ha].
        - right. apply in_or_app. left. apply -> in_rev. auto.
        - destruct (C a b Ha Hb) as [Hq|[Hq|Hq]].
          + left; right; exact Hq.
          + left; left; exact Hq.
          + right. apply in_or_app; right; exact Hq. }
      split; auto. intros a [Hq|Ha]. { subst a. apply M. left; reflexivity. } apply I'. apply in_or_app; right; exact Ha.
  Qed.

  Lemma closed_path out : closed out [] -> forall x z, path succ x z -> In x out -> In z out.
  Proof. intros C x z R. induction R; auto. intros Hx. apply IHR. destruct (C x y Hx H) as [|[]]; auto. Qed.

  Theorem dfs_correct fuel targets out : dfs succ fuel targets [] = Some out ->
     forall z, In z out <-> exists t, In t targets /\ path succ t z.
  Proof. intros H z. split.
    - intros Hz. destruct (dfs_sound _ _ _ _ H z Hz) as [[]|]; auto.
    - intros [t [Ht R]]. destruct (dfs_closed _ _ _ _ H) as [C I]. { intros a b []. }
      eapply closed_path; eauto. Qed.

  (* the result never repeats a node *)
  Lemma dfs_NoDup fuel : forall todo seen out, dfs succ fuel todo seen = Some out -> NoDup seen -> NoDup out.
  Proof. induction fuel as [|f IH]; intros todo seen out H ND; [discriminate|]. cbn [dfs] in H.
    destruct todo as [|x rest]. { inversion H; subst; auto. }
    destruct (memN x seen) eqn:E; [eauto|]. apply IH in H; auto. constructor; auto. apply memN_nIn; auto. Qed.

  (* ----- fuel: every node of U is expanded at most once ----- *)
  Variable U : list N.
  Hypothesis outside : forall x, ~ In x U -> succ x = [].

  Fixpoint weight (seen l : list N) : nat :=
    match l with
    | [] => 0
    | y :: r => (if memN y seen then 0 else S (length (succ y))) + weight seen r
    end.
  Lemma weight_le seen l : weight seen l <= edge_count succ l.
  Proof. induction l as [|y r IH]; simpl; [lia|]. destruct (memN y seen); lia. Qed.
  Lemma weight_notin x seen l : ~ In x l -> weight (x :: seen) l = weight seen l.
  Proof. induction l as [|y r IH]; simpl; auto. intros H. rewrite IH by tauto.
    unfold memN; simpl. destruct (N.eqb_spec y x) as [->|Hne]; [tauto|]. reflexivity. Qed.
  Lemma weight_add x seen l : NoDup l -> In x l -> memN x seen = false ->
    weight (x :: seen) l + S (length (succ x)) = weight seen l.
  Proof. induction l as [|y r IH]; simpl; [tauto|]. intros ND Hin Hs. inversion ND as [|? ? Hn ND']; subst.
    destruct Hin as [->|Hin].
    - unfold memN at 1; simpl. rewrite N.eqb_refl. simpl. rewrite Hs. rewrite weight_notin by auto. lia.
    - unfold memN at 1; simpl. destruct (N.eqb_spec y x) as [->|Hne]; [tauto|]. simpl. specialize (IH ND' Hin Hs).
      fold (memN y seen). destruct (memN y seen); lia. Qed.

  Lemma dfs_fuel_ok : NoDup U -> forall fuel todo seen,
    length todo + weight seen U < fuel -> dfs succ fuel todo seen <> None.
  Proof. intros ND. induction fuel as [|f IH]; intros todo seen Hlt; [lia|]. cbn [dfs].
    destruct todo as [|x rest]; [discriminate|]. simpl in Hlt.
    destruct (memN x seen) eqn:E. { apply IH. lia. }
    apply IH. rewrite app_length, rev_length.
    destruct (in_dec N.eq_dec x U) as [Hin|Hnin].
    - pose proof (weight_add x seen U ND Hin E). lia.
    - rewrite (outside x Hnin). rewrite weight_notin by auto. simpl. lia. Qed.
End DFS.

Lemma reach_set_total succ G targets : NoDup (ids G) -> (forall x, ~ In x (ids G) -> succ x = []) ->
  reach_set succ G targets <> None.
Proof. intros ND Ho. unfold reach_set, dfs_fuel. apply (dfs_fuel_ok succ (ids G) Ho ND).
  pose proof (weight_le succ [] (ids G)). lia. Qed.
Lemma reach_set_correct succ G targets out : reach_set succ G targets = Some out ->
  forall z, In z out <-> exists t, In t targets /\ path succ t z.
Proof. apply dfs_correct. Qed.

(* ---------- finite walk: an acyclic relation on a finite closed universe reaches a terminal ---------- *)
Section WALK.
  Variable succ : N -> list N.
  Variable U : list N.
  Hypothesis closedU : forall x y, In x U -> In y (succ x) -> In y U.
  Hypothesis acyc : ~ cyclic succ.

  Lemma terminal_aux : forall k vis x, NoDup vis -> incl vis U -> In x U -> ~ In x vis ->
    (forall v, In v vis -> path1 succ v x) -> length U <= k + length vis ->
    exists y, path succ x y /\ In y U /\ succ y = [].
  Proof. induction k as [|k IH]; intros vis x ND Hi Hx Hnx Hp Hl.
    - exfalso. assert (NoDup (x :: vis)) as ND' by (constructor; auto).
      assert (incl (x :: vis) U) as Hi' by (intros a [->|Ha]; auto).
      pose proof (NoDup_incl_length ND' Hi'). simpl in *. lia.
    - destruct (succ x) as [|y0 rest] eqn:E. { exists x. split; [constructor|]; auto. }
      assert (In y0 (succ x)) as Hy0 by (rewrite E; left; auto).
      assert (~ In y0 (x :: vis)) as Hny.
      { intros [<-|Hv]; apply acyc.
        - exists x. exists x. split; auto. constructor.
        - exists x. exists y0. split; auto. apply path1_path. auto. }
      destruct (IH (x :: vis) y0) as [y [P [Hy Ht]]]; auto.
      + constructor; auto.
      + intros a [->|Ha]; auto.
      + eapply closedU; eauto.
      + intros v [<-|Hv].
        * exists y0; split; auto. constructor.
        * eapply path1_snoc; [apply path1_path|]; eauto.
      + simpl. lia.
      + exists y. split; auto. eapply path_step; eauto. Qed.

  Lemma terminal_reachable x : In x U -> exists y, path succ x y /\ In y U /\ succ y = [].
  Proof. intros Hx. apply (terminal_aux (length U) [] x); auto.
    - constructor.
    - intros a [].
    - intros v [].
    - simpl; lia. Qed.
End WALK.
