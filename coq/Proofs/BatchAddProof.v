(* C10 — the bookkeeping of ApplyBatchImpl with add_column inside: refinement of the append specification `edit_app`
   (Spec/C10.v), and what `finish` returns when the columns go through SQLAlchemy's topological sort. *)
From AV Require Import Base.ListSet Model.BatchFail Model.Batch Spec.C11 Spec.C10 Proofs.BatchFailProof Proofs.BatchProof Proofs.BatchSortProof.

Record InvA (s:bstate) (T:tbl) : Prop := mkInvA {
  ia_cols : b_cols s = tb_cols T;
  ia_trk : akeys (b_tr s) = akeys (b_cols s);
  (* a surviving original column is copied from itself; an added column has no source *)
  ia_src : forall k tr, In (k, tr) (b_tr s) ->
           (In k (b_existing s) -> exists cs, tr_expr tr = Some (k, cs)) /\ (~ In k (b_existing s) -> tr_expr tr = None);
  ia_cons : b_named s = tb_cons T;
  ia_pk : b_pk s = tb_pk T;
  ia_idx : tb_idx T = b_idx s ++ b_newidx s;
  ia_new : forall x, In x (b_newidx s) -> idx_get (x_name x) (b_idx s) = None;
  ia_ex : exists zs, akeys (b_cols s) = b_existing s ++ zs;       (* the original columns first, then the added ones *)
  ia_nk : NoDup (akeys (b_cols s));
  ia_wfc : Forall (fun c => incl (k_cols c) (akeys (tb_cols T))) (tb_cons T);
  ia_wfp : incl (tb_pk T) (akeys (tb_cols T));
  ia_nd : NoDup (map k_name (b_named s));
  ia_fl : forall k, In k (b_flags s) -> In k (akeys (b_cols s)) ->
          In k (b_pk s) \/ exists c, In c (b_named s) /\ is_primary c = true /\ In k (k_cols c);
  ia_part : b_partial s = [];
  ia_targs : b_targs s = [] }.

Lemma initA T : wf_tbl T = true -> NoDup (akeys (tb_cols T)) -> InvA (init T) T.
Proof.
  intros Hwf Hn. destruct (init_inv T Hwf) as [I1 I2 I3 I4 I5 I6 I7 I8 I9 I10 I11 I12 I13 I14 I15].
  constructor; auto.
  - intros k tr Hin. cbn in Hin. apply in_map_iff in Hin. destruct Hin as [[k1 c1] [E Hin]]. cbn in E. inversion E. subst k tr. cbn. split.
    + intros _. exists []. auto.
    + intros Hn'. exfalso. apply Hn'. unfold akeys. change k1 with (fst (k1, c1)). apply in_map; auto.
  - exists []. cbn. rewrite app_nil_r. auto.
Qed.

Lemma aset_fresh {V} k (v:V) l : aget k l = None -> aset k v l = l ++ [(k, v)].
Proof. induction l as [|[k1 v1] l IH]; simpl; auto. destruct (name_eqb k k1); [discriminate|]. intros H. rewrite IH; auto. Qed.
Lemma aget_none_notin {V} k (l:list (key * V)) : aget k l = None -> ~ In k (akeys l).
Proof. unfold akeys. induction l as [|[k1 v1] l IH]; simpl; [tauto|]. destruct (name_eqb k k1) eqn:E; [discriminate|].
  intros H [E1|H1]; [subst; rewrite name_eqb_refl in E; discriminate|]. apply IH; auto. Qed.
Lemma notin_aget_none {V} k (l:list (key * V)) : ~ In k (akeys l) -> aget k l = None.
Proof. intros H. destruct (aget k l) eqn:G; auto. exfalso. apply H. eapply aget_some_in; eauto. Qed.
Lemma remove_name_app k a b : remove_name k (a ++ b) = remove_name k a ++ remove_name k b.
Proof. unfold remove_name. apply filter_app. Qed.
Lemma NoDup_app_l {A} (a b:list A) : NoDup (a ++ b) -> NoDup a.
Proof. induction a; simpl; [constructor|]. inversion 1; subst. constructor; auto. rewrite in_app_iff in *. tauto. Qed.
Lemma NoDup_app_r' {A} (a b:list A) : NoDup (a ++ b) -> NoDup b.
Proof. induction a; simpl; auto. inversion 1; subst. auto. Qed.
Lemma NoDup_app_notin {A} (a b:list A) x : NoDup (a ++ b) -> In x a -> ~ In x b.
Proof. induction a as [|y a IH]; simpl; [tauto|]. inversion 1; subst. intros [->|Hx]; auto. rewrite in_app_iff in *. tauto. Qed.
Lemma in_adel {V} k (l:list (key * V)) p : In p (adel k l) <-> In p l /\ fst p <> k.
Proof. unfold adel. rewrite filter_In, negb_true_iff, name_eqb_neq. split; intros [H1 H2]; split; auto; intro E; apply H2; auto. Qed.
Lemma in_aset_nd {V} k (v:V) l p : aget k l <> None -> NoDup (akeys l) -> In p (aset k v l) -> p = (k, v) \/ (In p l /\ fst p <> k).
Proof. unfold akeys. induction l as [|[k1 v1] l IH]; simpl; [congruence|]. intros Hg Hn.
  inversion Hn as [|? ? Hx Hl]; subst. destruct (name_eqb k k1) eqn:E.
  - apply name_eqb_eq in E. subst k1. intros [<-|Hp]; auto. right. split; auto. intro; subst. apply Hx. apply in_map; auto.
  - intros [<-|Hp]. + right. split; auto. cbn. intro; subst. rewrite name_eqb_refl in E. discriminate.
    + destruct (IH Hg Hl Hp) as [?|[? ?]]; auto. Qed.
Lemma aget_some_tr k (l:list (key * transfer)) t : aget k l = Some t -> In (k, t) l.
Proof. induction l as [|[k1 v1] l IH]; simpl; [congruence|]. destruct (name_eqb k k1) eqn:E.
  - apply name_eqb_eq in E. subst. inversion 1; auto.
  - auto. Qed.

Ltac psimplA := cbn [b_cols b_tr b_named b_pk b_idx b_newidx b_order b_existing b_flags b_partial b_targs tb_cols tb_pk tb_cons tb_idx].

Lemma stepA o s s' T T' :
  in_class_a o = true -> InvA s T -> apply_batch_op o s = BOk s' -> edit_app o T = BOk T' -> InvA s' T'.
Proof.
  intros Hc [Icols Itrk Isrc Icons Ipk Iidx Inew [zs Iex] Ink Iwfc Iwfp Ind Ifl Ipart Itargs] Hm He.
  destruct o as [k c b a|k|k a|c|n|x|n]; cbn [edit_app] in He.
  - (* add column *)
    cbn [apply_batch_op] in Hm. destruct (setup_dependencies s k b a) as [ord|]; [|discriminate].
    inversion Hm; subst s'; clear Hm.
    unfold has_key in He. rewrite <- Icols in He. destruct (aget k (b_cols s)) eqn:G; [discriminate|]. cbn in He.
    destruct (mem_name (c_name c) (names_of T)); [discriminate|]. cbn in He. destruct (name_eqb k (c_name c)); [|discriminate]. cbn in He.
    inversion He; subst T'; clear He.
    assert (Gt : aget k (b_tr s) = None) by (apply (aget_keys_none k (b_cols s) (b_tr s)); auto).
    pose proof (aget_none_notin _ _ G) as Hk.
    constructor; psimplA; auto.
    + rewrite aset_fresh; auto; rewrite ?Icols; auto.
    + rewrite !aset_fresh; auto. unfold akeys. rewrite !map_app. cbn. f_equal. exact Itrk.
    + intros k0 tr Hin. rewrite aset_fresh in Hin; auto. apply in_app_or in Hin. destruct Hin as [Hin|[E|[]]]; [apply Isrc; auto|].
      inversion E; subst. cbn. split; auto. intros He. exfalso. apply Hk. rewrite Iex. apply in_or_app; auto.
    + exists (zs ++ [k]). rewrite aset_fresh; auto. unfold akeys in *. rewrite map_app. cbn. rewrite Iex, app_assoc. auto.
    + rewrite aset_fresh; auto. unfold akeys in *. rewrite map_app. cbn. apply NoDup_snoc; auto.
    + unfold akeys. rewrite map_app. apply Forall_forall. intros c1 Hc1. rewrite Forall_forall in Iwfc.
      intros y Hy. apply in_or_app. left. fold (akeys (b_cols s)). rewrite Icols. apply (Iwfc c1 Hc1); auto.
    + intros y Hy. unfold akeys. rewrite map_app. apply in_or_app. left. fold (akeys (b_cols s)). rewrite Icols. apply Iwfp; auto.
    + intros k0 Hk0 Hin. apply remove_name_In in Hk0. destruct Hk0 as [Hk0 Hne].
      rewrite aset_fresh in Hin; auto. unfold akeys in Hin. rewrite map_app in Hin. apply in_app_or in Hin.
      destruct Hin as [Hin|[E|[]]]; [apply Ifl; auto|]. cbn in E. congruence.
  - (* drop column *)
    cbn [apply_batch_op edit] in *. unfold has_key in He. rewrite <- Icols in He.
    destruct (aget k (b_cols s)) eqn:G; [|discriminate]. cbn in He.
    destruct (mem_name k (b_existing s)) eqn:Eex; [|discriminate]. apply mem_name_In in Eex.
    destruct (existsb _ (tb_idx T)); [discriminate|].
    destruct (existsb (fun c => negb (is_primary c) && mem_name k (k_cols c)) (tb_cons T)) eqn:Ec; [discriminate|].
    inversion Hm; inversion He; subst s' T'; clear Hm He.
    assert (Hkz : ~ In k zs) by (apply (NoDup_app_notin (b_existing s)); auto; rewrite <- Iex; auto).
    constructor; psimplA; auto.
    + rewrite !akeys_adel. congruence.
    + intros k0 tr Hin. apply in_adel in Hin. destruct Hin as [Hin Hne]. cbn in Hne. destruct (Isrc _ _ Hin) as [S1 S2]. split.
      * intros He. apply S1. apply remove_name_In in He. tauto.
      * intros He. apply S2. intro. apply He. apply remove_name_In. auto.
    + congruence.
    + congruence.
    + exists zs. rewrite akeys_adel, Iex, remove_name_app. f_equal. apply remove_name_notin; auto.
    + rewrite akeys_adel. apply NoDup_filter_s; auto.
    + rewrite akeys_adel. apply Forall_forall. intros c1 Hc'. apply in_map_iff in Hc'. destruct Hc' as [c0 [<- Hc0]].
      rewrite Forall_forall in Iwfc. intros y Hy. apply remove_name_In. unfold pk_drop_col in Hy.
      destruct (is_primary c0) eqn:Ep; cbn [k_cols] in Hy.
      * apply remove_name_In in Hy. split; [rewrite Icols; apply (Iwfc c0 Hc0); tauto|tauto].
      * split; [rewrite Icols; apply (Iwfc c0 Hc0); auto|].
        pose proof (existsb_false_forall _ _ Ec c0 Hc0) as Hk. cbn in Hk. rewrite Ep in Hk. cbn in Hk.
        apply mem_name_false in Hk. intro; subst; auto.
    + rewrite akeys_adel. intros y Hy. apply remove_name_In in Hy. destruct Hy as [Hy1 Hy2].
      apply remove_name_In. split; auto. rewrite Icols. apply Iwfp. auto.
    + rewrite map_map. erewrite map_ext; [exact Ind|]. intros; apply pk_drop_col_name.
    + intros k0 Hk0 Hin. rewrite akeys_adel in Hin. apply remove_name_In in Hin. destruct Hin as [Hin Hne].
      destruct (Ifl k0 Hk0 Hin) as [Hp|[c1 [Hc1 [Hp1 Hk1]]]].
      * left. apply remove_name_In. auto.
      * right. exists (pk_drop_col k c1). split; [apply in_map; auto|]. split; [rewrite pk_drop_col_primary; auto|].
        unfold pk_drop_col. rewrite Hp1. cbn. apply remove_name_In. auto.
  - (* alter column *)
    cbn [apply_batch_op edit] in *. rewrite <- Icols in He.
    destruct (aget k (b_cols s)) as [c|] eqn:G; [|discriminate].
    destruct (aget k (b_tr s)) as [t|] eqn:Gt; [|discriminate].
    destruct (mem_name _ _); [discriminate|].
    inversion Hm; inversion He; subst s' T'; clear Hm He.
    assert (Gn : aget k (b_cols s) <> None) by congruence.
    assert (Gtn : aget k (b_tr s) <> None) by congruence.
    assert (Hnt : NoDup (akeys (b_tr s))) by (rewrite Itrk; auto).
    constructor; psimplA; auto.
    + f_equal. destruct a as [an aty anl adf]; cbn in *. destruct c as [cn cty cnl cdf]; cbn.
      destruct an as [n|]; cbn.
      * destruct (name_eqb n cn) eqn:En; cbn; [apply name_eqb_eq in En; subst n|]; destruct aty, anl, adf; reflexivity.
      * destruct aty, anl, adf; reflexivity.
    + rewrite !akeys_aset; auto.
    + intros k0 tr Hin. apply in_aset_nd in Hin; auto. destruct Hin as [E|[Hin _]]; [|apply Isrc; auto].
      inversion E; subst k0 tr; clear E. destruct (Isrc _ _ (aget_some_tr _ _ _ Gt)) as [S1 S2]. split.
      * intros He. destruct (S1 He) as [cs Hcs].
        destruct a as [an aty anl adf]; cbn. destruct an as [n|]; cbn; try (destruct (negb (name_eqb n (c_name c)))); cbn;
          destruct aty as [nt|]; cbn; try (destruct (N.eqb _ _)); cbn; rewrite ?Hcs; eauto.
      * intros He. pose proof (S2 He) as Hn.
        destruct a as [an aty anl adf]; cbn. destruct an as [n|]; cbn; try (destruct (negb (name_eqb n (c_name c)))); cbn;
          destruct aty as [nt|]; cbn; try (destruct (N.eqb _ _)); cbn; rewrite ?Hn; auto.
    + exists zs. rewrite akeys_aset; auto.
    + rewrite akeys_aset; auto.
    + rewrite akeys_aset, Icols; auto.
    + rewrite akeys_aset, Icols; auto.
    + intros k0 Hk0 Hin. rewrite akeys_aset in Hin; auto.
  - (* add constraint *)
    cbn [apply_batch_op edit] in *. rewrite <- Icons in He.
    destruct (is_some (con_get (k_name c) (b_named s))) eqn:F; [discriminate|]. cbn in He.
    destruct (sub_names (k_cols c) (akeys (tb_cols T))) eqn:Sb; [|discriminate]. cbn in He.
    inversion Hm; inversion He; subst s' T'; clear Hm He.
    apply is_some_false in F.
    constructor; psimplA; eauto.
    + rewrite con_set_fresh; auto.
    + apply Forall_app. split; [rewrite Icons; auto|]. constructor; auto. apply sub_names_incl; auto.
    + rewrite con_set_fresh; auto. rewrite map_app. cbn. apply NoDup_snoc; auto. apply con_get_none_notin; auto.
    + intros k0 Hk0 Hin. destruct (Ifl k0 Hk0 Hin) as [Hp|[c1 [Hc1 H1]]]; [left; auto|].
      right. exists c1. split; auto. rewrite con_set_fresh; auto. apply in_or_app; auto.
  - (* drop constraint *)
    cbn [apply_batch_op edit] in *. rewrite <- Icons in He.
    destruct (con_get n (b_named s)) as [c0|] eqn:F; [|discriminate]. cbn in He.
    inversion Hm; inversion He; subst s' T'; clear Hm He.
    destruct (con_get_some_in _ _ _ F) as [Hc0 Hn0].
    constructor; psimplA; eauto.
    + unfold con_del. apply Forall_forall. intros c1 Hc'. apply filter_In in Hc'.
      rewrite Forall_forall in Iwfc. apply Iwfc. rewrite <- Icons. tauto.
    + unfold con_del. apply NoDup_map_filter; auto.
    + intros k0 Hk0 Hin.
      assert (Hk0' : In k0 (b_flags s)) by (destruct (is_primary c0); [apply filter_In in Hk0; tauto|auto]).
      destruct (Ifl k0 Hk0' Hin) as [Hp|[c1 [Hc1 [Hp1 Hk1]]]]; [left; auto|].
      right. exists c1. split; [|auto]. unfold con_del. apply filter_In. split; auto.
      apply negb_true_iff. apply name_eqb_neq. intro Heq.
      assert (c1 = c0) by (apply (names_unique (b_named s)); auto; congruence). subst c1.
      rewrite Hp1 in Hk0. apply filter_In in Hk0. destruct Hk0 as [_ Hk0]. apply negb_true_iff in Hk0.
      apply mem_name_false in Hk0. auto.
  - (* create index *)
    cbn [apply_batch_op edit] in *.
    destruct (is_some (idx_get (x_name x) (tb_idx T))) eqn:F; [discriminate|]. cbn in He.
    destruct (sub_names (x_cols x) (akeys (tb_cols T))); [|discriminate]. cbn in He.
    inversion Hm; inversion He; subst s' T'; clear Hm He.
    apply is_some_false in F. rewrite Iidx, idx_get_app in F.
    destruct (idx_get (x_name x) (b_idx s)) eqn:F1; [discriminate|].
    constructor; psimplA; eauto.
    + rewrite idx_set_fresh; auto. rewrite Iidx, app_assoc; auto.
    + intros y Hy. rewrite idx_set_fresh in Hy; auto. apply in_app_or in Hy. destruct Hy as [Hy|[<-|[]]]; auto.
  - (* drop index *)
    cbn [apply_batch_op edit] in *.
    destruct (idx_get n (b_idx s)) as [x0|] eqn:F1; [|discriminate].
    destruct (is_some (idx_get n (tb_idx T))); [|discriminate].
    inversion Hm; inversion He; subst s' T'; clear Hm He.
    constructor; psimplA; eauto.
    + rewrite Iidx, idx_del_app. f_equal. apply idx_del_none. intros y Hy.
      destruct (name_eqb n (x_name y)) eqn:E; auto. apply name_eqb_eq in E. subst n.
      rewrite (Inew y Hy) in F1. discriminate.
    + intros y Hy. apply idx_get_del_none. auto.
Qed.

Lemma opsA ops : forall s T s' T',
  forallb in_class_a ops = true -> InvA s T -> apply_ops ops s = BOk s' -> edit_app_all ops T = BOk T' -> InvA s' T'.
Proof.
  induction ops as [|o ops IH]; cbn [apply_ops edit_app_all forallb]; intros s T s' T' Hc HI Hm He.
  - inversion Hm; inversion He; subst; auto.
  - apply andb_true_iff in Hc. destruct Hc as [Hc1 Hc2].
    destruct (apply_batch_op o s) as [s1|] eqn:A; [|discriminate]. destruct (edit_app o T) as [T1|] eqn:E; [|discriminate].
    apply (IH s1 T1); auto. apply (stepA o s s1 T T1); auto.
Qed.

(* ------------------------------------------------------------------ _adjust_self_columns_for_partial_reordering *)
Definition getc (l:list (key * col)) (k:key) : col := match aget k l with Some v => v | None => mkCol [] 0%N true None end.
Definition gett (l:list (key * transfer)) (k:key) : transfer := match aget k l with Some v => v | None => mkTr None None end.

Lemma pick_id {V} (d:V) (l:list (key * V)) : NoDup (akeys l) ->
  map (fun k => (k, match aget k l with Some v => v | None => d end)) (akeys l) = l.
Proof. unfold akeys. induction l as [|[k v] l IH]; simpl; auto. intros Hn. inversion Hn as [|? ? Hx Hl]; subst.
  rewrite name_eqb_refl. f_equal. rewrite <- (IH Hl) at 2. apply map_ext_in. intros k0 Hk0.
  destruct (name_eqb k0 k) eqn:E; auto. apply name_eqb_eq in E. subst. tauto. Qed.
Lemma aget_pick {V} (g:key -> V) sorted k : aget k (map (fun k0 => (k0, g k0)) sorted) = if mem_name k sorted then Some (g k) else None.
Proof. induction sorted as [|x l IH]; simpl; auto. destruct (name_eqb k x) eqn:E; simpl; auto. apply name_eqb_eq in E. subst. auto. Qed.
Lemma sub_names_ext a b b' : (forall x, In x b <-> In x b') -> sub_names a b = sub_names a b'.
Proof. intros H. unfold sub_names. induction a as [|x a IH]; simpl; auto. rewrite IH. f_equal.
  destruct (mem_name x b) eqn:E1, (mem_name x b') eqn:E2; auto.
  - apply mem_name_In in E1. apply H in E1. apply mem_name_In in E1. congruence.
  - apply mem_name_In in E2. apply H in E2. apply mem_name_In in E2. congruence. Qed.
Lemma mem_name_ext x b b' : (forall y, In y b <-> In y b') -> mem_name x b = mem_name x b'.
Proof. intros H. destruct (mem_name x b) eqn:E1, (mem_name x b') eqn:E2; auto.
  - apply mem_name_In in E1. apply H in E1. apply mem_name_In in E1. congruence.
  - apply mem_name_In in E2. apply H in E2. apply mem_name_In in E2. congruence. Qed.

Definition rpairs (s:bstate) : list (key * key) := base_pairs s ++ b_order s.

Lemma reorder_spec s cols trs : NoDup (akeys (b_cols s)) -> akeys (b_tr s) = akeys (b_cols s) -> b_partial s = [] ->
  reorder sa_tsort s = BOk (cols, trs) ->
  exists sorted, cols = map (fun k => (k, getc (b_cols s) k)) sorted /\ trs = map (fun k => (k, gett (b_tr s) k)) sorted /\
    NoDup sorted /\ (forall x, In x sorted <-> In x (akeys (b_cols s))) /\
    (b_order s = [] -> sorted = akeys (b_cols s)) /\
    (b_order s <> [] -> forall a b, In (a, b) (rpairs s) -> a <> b -> In a (akeys (b_cols s)) -> In b (akeys (b_cols s)) -> precedes a b sorted).
Proof.
  intros Hn Htk Hpart. unfold reorder. rewrite Hpart. destruct (b_order s) as [|p0 ord] eqn:Eo.
  - intros E. inversion E; subst cols trs. exists (akeys (b_cols s)).
    split; [symmetry; apply (pick_id (mkCol [] 0%N true None)); auto|].
    split; [symmetry; rewrite <- Htk; apply (pick_id (mkTr None None)); rewrite Htk; auto|].
    split; [auto|]. split; [tauto|]. split; [auto|congruence].
  - rewrite <- Eo. destruct (sa_tsort _ (akeys (b_cols s))) as [sorted|] eqn:St; [|discriminate].
    destruct (forallb _ sorted); [|discriminate]. intros E. inversion E; subst cols trs; clear E.
    unfold sa_tsort in St. destruct (sa_rounds_spec _ _ _ _ Hn St) as [M [N P]].
    exists sorted. split; [auto|]. split; [auto|]. split; [auto|]. split; [exact M|]. split; [rewrite Eo; discriminate|].
    intros _ a b Hp Hab Ha Hb. apply P; auto. apply filter_In. split; [exact Hp|]. cbn. apply negb_true_iff. apply name_eqb_neq; auto.
Qed.

(* ------------------------------------------------------------------ finish, with the columns possibly re-sorted *)
Record FinA (s:bstate) (T:tbl) (nd:ndesc) (cm:copymap) (sorted:list key) : Prop := mkFinA {
  fa_nd : NoDup sorted;
  fa_mem : forall x, In x sorted <-> In x (akeys (tb_cols T));
  fa_id : b_order s = [] -> sorted = akeys (tb_cols T);
  fa_prec : b_order s <> [] -> forall a b, In (a, b) (rpairs s) -> a <> b ->
            In a (akeys (tb_cols T)) -> In b (akeys (tb_cols T)) -> precedes a b sorted;
  fa_cols : n_cols nd = map (getc (tb_cols T)) sorted;
  fa_pk : n_pk nd = n_pk (describe T);
  fa_cons : n_cons nd = n_cons (describe T);
  fa_idx : n_idx nd = n_idx (describe T);
  fa_names : NoDup (map c_name (n_cols nd));
  fa_cm : cm = flat_map (fun k => match tr_expr (gett (b_tr s) k) with
                                  | Some (src, cs) => [(cur_name (tb_cols T) k, src, cs)] | None => [] end) sorted }.

Lemma in_keys_aget {V} k (l:list (key * V)) : In k (akeys l) -> exists v, aget k l = Some v.
Proof. intros H. destruct (aget k l) eqn:G; eauto. exfalso. apply (aget_none_notin _ _ G); auto. Qed.

Lemma finishA s T nd cm : InvA s T -> finish sa_tsort s = BOk (nd, cm) -> exists sorted, FinA s T nd cm sorted.
Proof.
  intros [Icols Itrk Isrc Icons Ipk Iidx Inew [zs Iex] Ink Iwfc Iwfp Ind Ifl Ipart Itargs]. unfold finish.
  destruct (reorder sa_tsort s) as [[cols trs]|] eqn:R; [|discriminate].
  destruct (reorder_spec s cols trs Ink Itrk Ipart R) as [sorted [Ec [Et [Hnd [Hmem [Hid Hprec]]]]]].
  assert (Hkc : akeys cols = sorted) by (unfold akeys; rewrite Ec, map_map; cbn; apply map_id).
  assert (Hkt : akeys trs = sorted) by (unfold akeys; rewrite Et, map_map; cbn; apply map_id).
  assert (Hcn : forall k, cur_name cols k = cur_name (b_cols s) k).
  { intros k. unfold cur_name. rewrite Ec, aget_pick. destruct (mem_name k sorted) eqn:Em.
    - apply mem_name_In, Hmem in Em. destruct (in_keys_aget _ _ Em) as [v Hv]. unfold getc. rewrite Hv. auto.
    - apply mem_name_false in Em. rewrite notin_aget_none; auto. intro Hk. apply Em. apply Hmem; auto. }
  assert (Hsnd : map snd cols = map (getc (b_cols s)) sorted) by (rewrite Ec, map_map; auto).
  destruct (has_dup (map (fun p => c_name (snd p)) cols)) eqn:Hdup; [discriminate|]. destruct (no_transfer trs); [discriminate|].
  match goal with |- context [existsb ?g (flat_map x_cols (b_idx s))] => destruct (existsb g (flat_map x_cols (b_idx s))); [discriminate|] end.
  destruct (negb (forallb _ (b_newidx s))); [discriminate|]. destruct (negb (forallb _ (b_idx s ++ b_newidx s))); [discriminate|]. destruct (negb (forallb _ (b_idx s ++ b_newidx s))); [discriminate|].
  intros E. inversion E as [[End Ecm]]; clear E. exists sorted.
  assert (Hkept : filter (fun c => sub_names (k_cols c) (akeys trs)) (b_named s) = b_named s).
  { apply filter_all. intros c Hc. rewrite Hkt. rewrite (sub_names_ext _ sorted (akeys (b_cols s)) Hmem).
    apply sub_names_incl. rewrite Icols. rewrite Forall_forall in Iwfc. apply Iwfc. rewrite <- Icons. auto. }
  constructor; rewrite <- ?Icols; auto.
  - cbn [n_pk describe]. rewrite Hkept, Hkt.
    rewrite (sub_names_ext _ sorted (akeys (b_cols s)) Hmem).
    replace (sub_names (b_pk s) (akeys (b_cols s))) with true by (symmetry; apply sub_names_incl; rewrite Ipk, Icols; auto).
    rewrite <- Ipk, <- ?Icols. destruct (b_pk s) as [|k0 l0] eqn:Epk.
    + destruct (existsb is_primary (b_named s)) eqn:Ep; [reflexivity|].
      rewrite filter_nil; [reflexivity|]. intros k Hk. rewrite Hkc in Hk. apply Hmem in Hk.
      destruct (mem_name k (b_flags s)) eqn:Em; auto. exfalso.
      apply mem_name_In in Em. destruct (Ifl k Em Hk) as [Hp|[c [Hc [Hp _]]]]; [destruct Hp|].
      pose proof (existsb_false_forall _ _ Ep c Hc). congruence.
    + change (cur_name cols k0 :: map (cur_name cols) l0) with (map (cur_name cols) (k0 :: l0)). rewrite <- ?Icols. apply map_ext. intros; apply Hcn.
  - cbn [n_cons describe]. rewrite Hkept, Itargs, app_nil_r, <- Icons, <- ?Icols. apply map_ext. intros c. f_equal. apply map_ext. intros; apply Hcn.
  - cbn [n_idx describe]. rewrite Iidx, <- ?Icols. apply map_ext. intros x. f_equal. apply map_ext. intros; apply Hcn.
  - cbn [n_cols]. rewrite Hsnd in *. apply has_dup_false_NoDup. rewrite <- Hdup. rewrite Ec, !map_map. auto.
  - rewrite Et. rewrite flat_map_concat_map, map_map, <- flat_map_concat_map. apply flat_map_ext. intros k. cbn [fst snd].
    destruct (tr_expr (gett (b_tr s) k)) as [[src cs]|]; auto. rewrite Hcn. auto.
Qed.

(* ------------------------------------------------------------------ the original columns keep their relative order *)
From Coq Require Import Sorting.Sorted.

Lemma precedes_irrefl a l : ~ precedes a a l.
Proof. intros [i [j [Hi [Hj Hl]]]]. rewrite Hi in Hj. inversion Hj. lia. Qed.
Lemma precedes_asym a b l : precedes a b l -> ~ precedes b a l.
Proof. intros [i [j [Hi [Hj Hl]]]] [i' [j' [Hi' [Hj' Hl']]]]. rewrite Hi in Hj'. rewrite Hj in Hi'. inversion Hj'; inversion Hi'. lia. Qed.
Lemma precedes_trans a b c l : precedes a b l -> precedes b c l -> precedes a c l.
Proof. intros [i [j [Hi [Hj Hl]]]] [i' [j' [Hi' [Hj' Hl']]]]. rewrite Hj in Hi'. inversion Hi'; subst. exists i, j'. repeat split; auto. lia. Qed.

Lemma ss_precedes pre l : NoDup (pre ++ l) -> StronglySorted (fun a b => precedes a b (pre ++ l)) l.
Proof.
  revert pre. induction l as [|x l IH]; intros pre Hn; [constructor|]. constructor.
  - replace (pre ++ x :: l) with ((pre ++ [x]) ++ l) by (rewrite <- app_assoc; auto). apply IH. rewrite <- app_assoc. auto.
  - apply Forall_forall. intros y Hy.
    assert (Hx : ~ In x pre /\ ~ In y pre /\ x <> y /\ ~ In x l).
    { pose proof (NoDup_remove_2 _ _ _ Hn) as Hr. rewrite in_app_iff in Hr.
      split; [tauto|]. split; [intro Hp; apply (NoDup_app_notin pre (x :: l) y Hn Hp); simpl; auto|].
      split; [intro; subst; tauto|tauto]. }
    destruct Hx as [H1 [H2 [H3 H4]]].
    apply precedes_app_r; auto. exists 0%nat. destruct (index_of_in y l Hy) as [j Hj]. exists (S j). cbn. rewrite name_eqb_refl.
    destruct (name_eqb y x) eqn:E; [apply name_eqb_eq in E; congruence|]. rewrite Hj. cbn. repeat split; auto. lia.
Qed.

Lemma ss_filter {A} (R:A -> A -> Prop) (p:A -> bool) l : StronglySorted R l -> StronglySorted R (filter p l).
Proof. induction 1 as [|x l Hs IH Hf]; simpl; [constructor|]. destruct (p x); auto. constructor; auto.
  rewrite Forall_forall in *. intros y Hy. apply filter_In in Hy. apply Hf; tauto. Qed.

Lemma ss_unique (R:key -> key -> Prop) : (forall a b, R a b -> ~ R b a) -> forall l1 l2,
  StronglySorted R l1 -> StronglySorted R l2 -> (forall x, In x l1 <-> In x l2) -> l1 = l2.
Proof.
  intros Hasym. induction l1 as [|x l1 IH]; intros l2 H1 H2 Hm.
  - destruct l2 as [|y l2]; auto. exfalso. apply (Hm y). simpl; auto.
  - destruct l2 as [|y l2]; [exfalso; apply (Hm x); simpl; auto|].
    inversion H1 as [|? ? S1 F1]; inversion H2 as [|? ? S2 F2]; subst. rewrite Forall_forall in F1, F2.
    assert (Exy : x = y).
    { destruct (proj1 (Hm x) (or_introl eq_refl)) as [E|Hx]; auto.
      destruct (proj2 (Hm y) (or_introl eq_refl)) as [E|Hy]; auto.
      exfalso. apply (Hasym x y); auto. }
    subst y. f_equal. apply IH; auto. intros z. split; intros Hz.
    + destruct (proj1 (Hm z) (or_intror Hz)) as [E|?]; auto. subst z. exfalso. apply (Hasym x x); auto.
    + destruct (proj2 (Hm z) (or_intror Hz)) as [E|?]; auto. subst z. exfalso. apply (Hasym x x); auto.
Qed.

(* consecutive elements of E, as zip_pairs (E ++ zs) E = combine (E ++ zs) (tl E) produces them *)
Lemma zip_pairs_consec E zs a b pre post : E = pre ++ a :: b :: post -> In (a, b) (zip_pairs (E ++ zs) E).
Proof.
  intros ->. unfold zip_pairs. revert zs. induction pre as [|x pre IH]; intros zs; simpl.
  - left; auto.
  - destruct pre as [|y pre]; simpl in *; right; apply (IH zs). Qed.

Lemma sorted_from_consec (R:key -> key -> Prop) : (forall a b c, R a b -> R b c -> R a c) -> forall E,
  (forall pre a b post, E = pre ++ a :: b :: post -> R a b) -> StronglySorted R E.
Proof.
  intros Htr E H. apply Sorted_StronglySorted; [exact Htr|].
  induction E as [|x E IH]; [constructor|]. constructor.
  - apply IH. intros pre a b post ->. apply (H (x :: pre) a b post). auto.
  - destruct E as [|y E]; constructor. apply (H [] x y E). auto.
Qed.

Lemma filter_in_app_l E zs : NoDup (E ++ zs) -> filter (fun k => mem_name k E) (E ++ zs) = E.
Proof. intros Hn. rewrite filter_app. rewrite filter_all by (intros x Hx; apply mem_name_In; auto).
  rewrite filter_nil; [apply app_nil_r|]. intros x Hx. apply mem_name_false. intro HE. apply (NoDup_app_notin E zs x); auto. Qed.

Theorem existing_order_kept s T nd cm sorted : InvA s T -> FinA s T nd cm sorted ->
  filter (fun k => mem_name k (b_existing s)) sorted = b_existing s.
Proof.
  intros [Icols Itrk Isrc Icons Ipk Iidx Inew [zs Iex] Ink Iwfc Iwfp Ind Ifl Ipart Itargs] [Fnd Fmem Fid Fprec _ _ _ _ _ _].
  rewrite Icols in Iex, Ink.
  destruct (b_order s) as [|p0 ord] eqn:Eo.
  - rewrite (Fid eq_refl), Iex. rewrite Iex in Ink. apply filter_in_app_l. exact Ink.
  - assert (Ho : p0 :: ord <> []) by discriminate. specialize (Fprec Ho).
    assert (HnE : NoDup (b_existing s)) by (apply (NoDup_app_l _ zs); rewrite <- Iex; auto).
    apply (ss_unique (fun a b => precedes a b sorted) (fun a b H => precedes_asym a b sorted H)).
    + apply ss_filter. replace sorted with ([] ++ sorted) at 1 by auto. apply (ss_precedes [] sorted). auto.
    + apply sorted_from_consec; [intros a b c; apply precedes_trans|].
      intros pre a b post E. assert (Hab : a <> b /\ In a (b_existing s) /\ In b (b_existing s)).
      { rewrite E in HnE |- *. apply NoDup_app_r' in HnE. inversion HnE as [|? ? Hx _]; subst. repeat split.
        - intro; subst. apply Hx. simpl; auto.
        - apply in_or_app; right; simpl; auto.
        - apply in_or_app; right; simpl; auto. }
      destruct Hab as [H1 [H2 H3]].
      apply Fprec; auto; try (rewrite Iex; apply in_or_app; auto).
      unfold rpairs, base_pairs. rewrite Ipart. apply in_or_app. left. rewrite Icols, Iex. apply (zip_pairs_consec _ zs a b pre post); auto.
    + intros x. rewrite filter_In, mem_name_In, Fmem, Iex, in_app_iff. tauto.
Qed.

Theorem sa_tsort_spec pairs items out : NoDup items -> sa_tsort pairs items = Some out ->
  (forall x, In x out <-> In x items) /\ NoDup out /\
  (forall a b, In (a, b) pairs -> In a items -> In b items -> a <> b -> precedes a b out).
Proof. intros Hn H. unfold sa_tsort in H. apply (sa_rounds_spec _ _ _ _ Hn H). Qed.

(* the refinement with add_column inside (any insert_before / insert_after): against the append specification *)
Theorem schema_add T ops T1 nd cm :
  wf_tbl T = true -> NoDup (akeys (tb_cols T)) -> forallb in_class_a ops = true ->
  edit_app_all ops T = BOk T1 -> batch sa_tsort T ops = BOk (nd, cm) ->
  exists s sorted, apply_ops ops (init T) = BOk s /\ InvA s T1 /\ FinA s T1 nd cm sorted /\
    filter (fun k => mem_name k (b_existing s)) sorted = b_existing s.
Proof.
  intros Hwf Hn Hc He. unfold batch, batch_with. change (init_with [] []) with init. destruct (apply_ops ops (init T)) as [s|] eqn:A; [|discriminate]. intros Hf.
  pose proof (opsA ops (init T) T s T1 Hc (initA T Hwf Hn) A He) as HI.
  destruct (finishA s T1 nd cm HI Hf) as [sorted HF]. exists s, sorted.
  split; [auto|]. split; [auto|]. split; [auto|]. apply (existing_order_kept s T1 nd cm sorted); auto.
Qed.
