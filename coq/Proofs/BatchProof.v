(* Proofs for C10 (Model/Batch.v, Spec/C10.v). *)
From AV Require Import Base.ListSet Model.BatchFail Model.Batch Spec.C11 Spec.C10 Proofs.BatchFailProof.

(* ------------------------------------------------------------------ boolean equalities *)
Lemma oname_eqb_eq a b : oname_eqb a b = true <-> a = b.
Proof. destruct a, b; simpl; try (split; congruence). rewrite name_eqb_eq. split; congruence. Qed.
Lemma names_eqb_eq a b : names_eqb a b = true <-> a = b.
Proof. apply list_eqb_spec. apply name_eqb_eq. Qed.
Lemma col_eqb_eq a b : col_eqb a b = true <-> a = b.
Proof. destruct a, b. unfold col_eqb; simpl. rewrite !andb_true_iff, name_eqb_eq, N.eqb_eq, Bool.eqb_true_iff, oname_eqb_eq.
  split; [intros [[[-> ->] ->] ->]; auto | inversion 1; auto]. Qed.
Lemma ckind_eqb_eq a b : ckind_eqb a b = true <-> a = b.
Proof. destruct a, b; simpl; try (split; congruence).
  - rewrite N.eqb_eq. split; congruence.
  - rewrite andb_true_iff, name_eqb_eq, names_eqb_eq. split; [intros [-> ->]; auto | inversion 1; auto]. Qed.
Lemma con_eqb_eq a b : con_eqb a b = true <-> a = b.
Proof. destruct a, b. unfold con_eqb; simpl. rewrite !andb_true_iff, name_eqb_eq, ckind_eqb_eq, names_eqb_eq.
  split; [intros [[-> ->] ->]; auto | inversion 1; auto]. Qed.
Lemma where_eqb_eq a b : where_eqb a b = true <-> a = b.
Proof. destruct a as [[t m]|], b as [[t' m']|]; simpl; try (split; congruence).
  rewrite andb_true_iff, N.eqb_eq, names_eqb_eq. split; [intros [-> ->]; auto | inversion 1; auto]. Qed.
Lemma index_eqb_eq a b : index_eqb a b = true <-> a = b.
Proof. destruct a, b. unfold index_eqb; simpl. rewrite !andb_true_iff, name_eqb_eq, names_eqb_eq, Bool.eqb_true_iff, where_eqb_eq.
  split; [intros [[[-> ->] ->] ->]; auto | inversion 1; auto]. Qed.
Lemma subsetb_sound {A} (eqb:A -> A -> bool) (H:forall x y, eqb x y = true <-> x = y) a b :
  subsetb eqb a b = true -> incl a b.
Proof. unfold subsetb. rewrite forallb_forall. intros Hs x Hx. specialize (Hs x Hx). apply existsb_exists in Hs.
  destruct Hs as [y [Hy E]]. apply H in E. subst; auto. Qed.
Lemma seteqb_sound {A} (eqb:A -> A -> bool) (H:forall x y, eqb x y = true <-> x = y) a b :
  seteqb eqb a b = true -> set_equiv a b.
Proof. unfold seteqb, set_equiv. rewrite !andb_true_iff. intros [[H1 H2] H3]. split; [|apply Nat.eqb_eq; auto].
  intros x. split; apply (subsetb_sound eqb H); auto. Qed.
Lemma subsetb_complete {A} (eqb:A -> A -> bool) (H:forall x y, eqb x y = true <-> x = y) a b :
  incl a b -> subsetb eqb a b = true.
Proof. unfold subsetb. intros Hi. apply forallb_forall. intros x Hx. apply existsb_exists. exists x. split; [apply Hi; auto|apply H; auto]. Qed.
Lemma seteqb_complete {A} (eqb:A -> A -> bool) (H:forall x y, eqb x y = true <-> x = y) a b :
  set_equiv a b -> seteqb eqb a b = true.
Proof. unfold seteqb, set_equiv. intros [Hm Hl]. rewrite !andb_true_iff. split; [split|apply Nat.eqb_eq; auto];
  apply (subsetb_complete eqb H); intros x Hx; apply Hm; auto. Qed.
Lemma ooname_eqb_eq a b : ooname_eqb a b = true <-> a = b.
Proof. destruct a, b; simpl; try (split; congruence). rewrite oname_eqb_eq. split; congruence. Qed.
Lemma desc_eqb_w_sound ad a b : desc_eqb_w ad a b = true -> desc_equiv_w ad a b.
Proof. unfold desc_eqb_w, desc_equiv_w. rewrite !andb_true_iff. intros [[[[[H1 H2] Hg] H3] H4] H5].
  split; [apply (seteqb_sound col_eqb col_eqb_eq _ _ H1)|].
  split; [apply (list_eqb_spec col_eqb col_eqb_eq); auto|].
  split; [|split; [apply names_eqb_eq; auto|split; [apply (seteqb_sound con_eqb con_eqb_eq _ _ H4)|apply (seteqb_sound index_eqb index_eqb_eq _ _ H5)]]].
  unfold same_gaps_b in Hg. rewrite forallb_forall in Hg. intros c Hc Hm. specialize (Hg c Hc). rewrite Hm in Hg.
  apply ooname_eqb_eq; auto.
Qed.

Lemma desc_eqb_sound a b : desc_eqb a b = true -> desc_equiv a b.
Proof. unfold desc_eqb, desc_equiv. rewrite !andb_true_iff. intros [[[H1 H2] H3] H4].
  split; [apply (list_eqb_spec col_eqb col_eqb_eq); auto|]. split; [apply names_eqb_eq; auto|].
  split; [apply (seteqb_sound con_eqb con_eqb_eq _ _ H3)|apply (seteqb_sound index_eqb index_eqb_eq _ _ H4)]. Qed.

Lemma desc_eqb_p_sound a b : desc_eqb_p a b = true -> desc_equiv_p a b.
Proof. unfold desc_eqb_p, desc_equiv_p. rewrite !andb_true_iff. intros [[[H1 H2] H3] H4].
  split; [apply (seteqb_sound col_eqb col_eqb_eq _ _ H1)|]. split; [apply names_eqb_eq; auto|].
  split; [apply (seteqb_sound con_eqb con_eqb_eq _ _ H3)|apply (seteqb_sound index_eqb index_eqb_eq _ _ H4)]. Qed.

Theorem decider_sound10 i o : check_C10 i o = true -> C10_holds i o.
Proof.
  unfold check_C10, C10_holds. destruct (j_never i); auto.
  destruct o as [nd rows tl|e]; cbn [check_C10_r C10_holds_r]; auto.
  rewrite !andb_true_iff. intros [[[[[[[[[H1 H2] H3] H4] H5] H6] Hs] Hp] Ha] H7].
  split; [destruct tl; auto; discriminate|].
  split; [apply Nat.eqb_eq; auto|].
  split; [auto|]. split; [apply mseqb_sound; auto|]. split; [auto|]. split; [auto|]. split; [auto|]. split; [auto|]. split; [auto|].
  intros T' HT. rewrite HT in H7. destruct (is_nil (j_partial i)); [apply desc_eqb_w_sound; auto|apply desc_eqb_p_sound; auto].
Qed.

(* ------------------------------------------------------------------ list facts *)
Lemma mem_name_false x l : mem_name x l = false <-> ~ In x l.
Proof. rewrite <- mem_name_In. destruct (mem_name x l); split; congruence. Qed.
Lemma remove_name_In k l x : In x (remove_name k l) <-> In x l /\ x <> k.
Proof. unfold remove_name. rewrite filter_In, negb_true_iff, name_eqb_neq. intuition congruence. Qed.
Lemma sub_names_incl a b : sub_names a b = true <-> incl a b.
Proof. unfold sub_names, incl. rewrite forallb_forall. split; intros H x Hx; apply mem_name_In; auto. Qed.
Lemma akeys_adel {V} k (l:list (key * V)) : akeys (adel k l) = remove_name k (akeys l).
Proof. unfold akeys, adel, remove_name. induction l as [|[k' v] l IH]; simpl; auto.
  destruct (name_eqb k k'); simpl; rewrite IH; auto. Qed.
Lemma akeys_aset {V} k (v:V) l : aget k l <> None -> akeys (aset k v l) = akeys l.
Proof. unfold akeys. induction l as [|[k' v'] l IH]; simpl; [congruence|].
  destruct (name_eqb k k') eqn:E; simpl; auto. intros H. rewrite IH; auto. Qed.
Lemma aget_aset_same {V} k (v:V) l : aget k (aset k v l) = Some v.
Proof. induction l as [|[k' v'] l IH]; simpl; [rewrite name_eqb_refl; auto|].
  destruct (name_eqb k k') eqn:E; simpl; rewrite E; auto. Qed.
Lemma con_set_fresh c l : con_get (k_name c) l = None -> con_set c l = l ++ [c].
Proof. unfold con_get. induction l as [|c' l IH]; simpl; auto.
  destruct (name_eqb (k_name c) (k_name c')); [discriminate|]. intros H. rewrite IH; auto. Qed.
Lemma idx_set_fresh x l : idx_get (x_name x) l = None -> idx_set x l = l ++ [x].
Proof. unfold idx_get. induction l as [|c' l IH]; simpl; auto.
  destruct (name_eqb (x_name x) (x_name c')); [discriminate|]. intros H. rewrite IH; auto. Qed.
Lemma idx_get_app n a b : idx_get n (a ++ b) = match idx_get n a with Some x => Some x | None => idx_get n b end.
Proof. unfold idx_get. induction a as [|x a IH]; simpl; auto. destruct (name_eqb n (x_name x)); auto. Qed.
Lemma idx_del_app n a b : idx_del n (a ++ b) = idx_del n a ++ idx_del n b.
Proof. unfold idx_del. apply filter_app. Qed.
Lemma idx_del_none n l : (forall x, In x l -> name_eqb n (x_name x) = false) -> idx_del n l = l.
Proof. unfold idx_del. induction l as [|x l IH]; simpl; auto. intros H. rewrite (H x) by auto. simpl. rewrite IH; auto. Qed.
Lemma idx_get_del_none n m l : idx_get n l = None -> idx_get n (idx_del m l) = None.
Proof. unfold idx_get, idx_del. induction l as [|x l IH]; simpl; auto.
  destruct (name_eqb n (x_name x)) eqn:E; [discriminate|]. intros H. destruct (negb (name_eqb m (x_name x))); simpl; [rewrite E|]; auto. Qed.
Lemma idx_get_some_in n l x : idx_get n l = Some x -> In x l /\ name_eqb n (x_name x) = true.
Proof. unfold idx_get. intros H. apply find_some in H. auto. Qed.
Lemma is_some_false {A} (o:option A) : is_some o = false -> o = None.
Proof. destruct o; simpl; congruence. Qed.
Lemma existsb_false_forall {A} (f:A -> bool) l : existsb f l = false -> forall x, In x l -> f x = false.
Proof. intros H x Hx. destruct (f x) eqn:E; auto. assert (existsb f l = true) by (apply existsb_exists; eauto). congruence. Qed.

(* ------------------------------------------------------------------ refinement: the bookkeeping against `edit` *)
Definition own_source (p:key * transfer) : Prop := exists cs, tr_expr (snd p) = Some (fst p, cs).
Record Inv (s:bstate) (T:tbl) : Prop := mkInv {
  inv_cols : b_cols s = tb_cols T;
  inv_trk : akeys (b_tr s) = akeys (b_cols s);
  inv_src : Forall own_source (b_tr s);
  inv_cons : b_named s = tb_cons T;
  inv_pk : b_pk s = tb_pk T;
  inv_idx : tb_idx T = b_idx s ++ b_newidx s;
  inv_new : forall x, In x (b_newidx s) -> idx_get (x_name x) (b_idx s) = None;
  inv_ord : b_order s = [];
  inv_ex : b_existing s = akeys (b_cols s);
  inv_wfc : Forall (fun c => incl (k_cols c) (akeys (tb_cols T))) (tb_cons T);
  inv_wfp : incl (tb_pk T) (akeys (tb_cols T));
  inv_nd : NoDup (map k_name (b_named s));
  (* a column that still carries the primary_key flag is a column of a primary key constraint that is still there *)
  inv_fl : forall k, In k (b_flags s) -> In k (akeys (b_cols s)) ->
           In k (b_pk s) \/ exists c, In c (b_named s) /\ is_primary c = true /\ In k (k_cols c);
  inv_part : b_partial s = [];
  inv_targs : b_targs s = [] }.

Lemma has_dup_false_NoDup l : has_dup l = false -> NoDup l.
Proof. induction l as [|x l IH]; simpl; [constructor|]. intros H. apply orb_false_iff in H. destruct H as [H1 H2].
  constructor; auto. apply mem_name_false; auto. Qed.
Lemma pk_drop_col_name k c : k_name (pk_drop_col k c) = k_name c.
Proof. unfold pk_drop_col. destruct (is_primary c); auto. Qed.
Lemma pk_drop_col_primary k c : is_primary (pk_drop_col k c) = is_primary c.
Proof. unfold pk_drop_col. destruct (is_primary c) eqn:E; auto. Qed.
Lemma con_get_some_in n l c : con_get n l = Some c -> In c l /\ k_name c = n.
Proof. unfold con_get. intros H. apply find_some in H. destruct H as [H1 H2]. apply name_eqb_eq in H2. auto. Qed.
Lemma con_get_none_notin n l : con_get n l = None -> ~ In n (map k_name l).
Proof. unfold con_get. intros H Hin. apply in_map_iff in Hin. destruct Hin as [c [<- Hc]].
  pose proof (find_none _ _ H c Hc) as E. cbn in E. rewrite name_eqb_refl in E. discriminate. Qed.
Lemma names_unique l c c' : NoDup (map k_name l) -> In c l -> In c' l -> k_name c = k_name c' -> c = c'.
Proof. induction l as [|x l IH]; simpl; [tauto|]. intros Hn H1 H2 E. inversion Hn as [|? ? Hx Hl]; subst.
  destruct H1 as [<-|H1], H2 as [<-|H2]; auto.
  - exfalso. apply Hx. rewrite E. apply in_map; auto.
  - exfalso. apply Hx. rewrite <- E. apply in_map; auto. Qed.
Lemma NoDup_snoc {A} (l:list A) x : NoDup l -> ~ In x l -> NoDup (l ++ [x]).
Proof. induction l as [|y l IH]; simpl; intros H Hn; [constructor; auto; constructor|].
  inversion H; subst. constructor; [|apply IH; auto]. intros Hi. apply in_app_or in Hi. destruct Hi as [Hi|[<-|[]]]; auto. Qed.
Lemma NoDup_map_filter {A B} (f:A -> B) (p:A -> bool) l : NoDup (map f l) -> NoDup (map f (filter p l)).
Proof. induction l as [|x l IH]; simpl; auto. intros H. inversion H; subst. destruct (p x); simpl; auto.
  constructor; auto. intros Hi. apply in_map_iff in Hi. destruct Hi as [y [E Hy]]. apply filter_In in Hy.
  match goal with Hn : ~ In (f x) (map f l) |- _ => apply Hn end. rewrite <- E. apply in_map; tauto. Qed.
Lemma filter_nil {A} (f:A -> bool) l : (forall x, In x l -> f x = false) -> filter f l = [].
Proof. induction l as [|x l IH]; simpl; auto. intros H. rewrite (H x) by auto. apply IH; auto. Qed.

Lemma init_inv T : wf_tbl T = true -> Inv (init T) T.
Proof.
  unfold wf_tbl. rewrite !andb_true_iff, forallb_forall, sub_names_incl, negb_true_iff. intros [[H1 H2] H3].
  constructor; cbn; auto.
  - unfold akeys. rewrite map_map. auto.
  - apply Forall_forall. intros p Hp. apply in_map_iff in Hp. destruct Hp as [q [<- _]]. exists []. auto.
  - rewrite app_nil_r; auto.
  - intros x [].
  - apply Forall_forall. intros c Hc. apply sub_names_incl. auto.
  - apply has_dup_false_NoDup; auto.
  - intros k Hk _. apply in_app_or in Hk. destruct Hk as [Hk|Hk]; [left; auto|]. right.
    apply in_flat_map in Hk. destruct Hk as [c [Hc Hkc]]. apply filter_In in Hc. exists c. tauto.
Qed.

Lemma adel_Forall {V} (P:key * V -> Prop) k l : Forall P l -> Forall P (adel k l).
Proof. unfold adel. intros H. apply Forall_forall. intros x Hx. apply filter_In in Hx. rewrite Forall_forall in H. apply H; tauto. Qed.
Lemma aset_Forall {V} (P:key * V -> Prop) k v (l:list (key * V)) : aget k l <> None -> Forall P l -> (forall k', name_eqb k k' = true -> P (k', v)) -> Forall P (aset k v l).
Proof. induction l as [|[k' v'] l IH]; simpl; [congruence|]. intros Hn H Hv. inversion H; subst.
  destruct (name_eqb k k') eqn:E; constructor; auto. Qed.
Lemma aget_some_in {V} k (l:list (key * V)) v : aget k l = Some v -> In k (akeys l).
Proof. unfold akeys. induction l as [|[k' v'] l IH]; simpl; [congruence|]. destruct (name_eqb k k') eqn:E.
  - apply name_eqb_eq in E; subst; auto.
  - auto. Qed.

Lemma aget_keys_none {V W} k (a:list (key * V)) (b:list (key * W)) : akeys a = akeys b -> aget k a = None -> aget k b = None.
Proof. unfold akeys. revert b. induction a as [|[k1 v1] a IH]; destruct b as [|[k2 v2] b]; simpl; try congruence.
  intros E. inversion E; subst. destruct (name_eqb k k2); [congruence|]. apply IH; auto. Qed.

Ltac psimpl := cbn [b_cols b_tr b_named b_pk b_idx b_newidx b_order b_existing b_flags b_partial b_targs tb_cols tb_pk tb_cons tb_idx].

Lemma step_refines o s s' T T' :
  in_class o = true -> Inv s T -> apply_batch_op o s = BOk s' -> edit o T = BOk T' -> Inv s' T'.
Proof.
  intros Hc [Icols Itrk Isrc Icons Ipk Iidx Inew Iord Iex Iwfc Iwfp Ind Ifl Ipart Itargs] Hm He.
  destruct o as [k c b a|k|k a|c|n|x|n]; cbn [in_class] in Hc; try discriminate.
  - (* drop column *)
    cbn [apply_batch_op edit] in *. unfold has_key in He. rewrite <- Icols in He.
    destruct (aget k (b_cols s)) eqn:G; [|discriminate]. cbn in He.
    destruct (mem_name k (b_existing s)); [|discriminate].
    destruct (existsb _ (tb_idx T)); [discriminate|].
    destruct (existsb (fun c => negb (is_primary c) && mem_name k (k_cols c)) (tb_cons T)) eqn:Ec; [discriminate|].
    inversion Hm; inversion He; subst s' T'; clear Hm He.
    constructor; psimpl; auto.
    + rewrite !akeys_adel. congruence.
    + apply adel_Forall; auto.
    + congruence.
    + congruence.
    + rewrite akeys_adel. congruence.
    + rewrite akeys_adel. apply Forall_forall. intros c1 Hc'. apply in_map_iff in Hc'. destruct Hc' as [c0 [<- Hc0]].
      rewrite Forall_forall in Iwfc. intros y Hy. apply remove_name_In. unfold pk_drop_col in Hy.
      destruct (is_primary c0) eqn:Ep; cbn [k_cols] in Hy.
      * apply remove_name_In in Hy. split; [rewrite Icols; apply (Iwfc c0 Hc0); tauto|tauto].
      * split; [rewrite Icols; apply (Iwfc c0 Hc0); auto|].
        pose proof (existsb_false_forall _ _ Ec c0 Hc0) as Hk. cbn in Hk. rewrite Ep in Hk. cbn in Hk.
        apply mem_name_false in Hk. intro; subst; auto.
    + rewrite akeys_adel. intros y Hy. apply remove_name_In in Hy. destruct Hy as [Hy1 Hy2].
      apply remove_name_In. split; auto. rewrite Icols. apply Iwfp. auto.
    + rewrite map_map. erewrite map_ext; [exact Ind|]. intros; apply pk_drop_col_name.
    + intros k0 Hk0 Hin. rewrite akeys_adel in Hin. apply remove_name_In in Hin. destruct Hin as [Hin Hne].
      destruct (Ifl k0 Hk0 Hin) as [Hp|[c1 [Hc1 [Hp1 Hk1]]]].
      * left. apply remove_name_In. auto.
      * right. exists (pk_drop_col k c1). split; [apply in_map; auto|]. split; [rewrite pk_drop_col_primary; auto|].
        unfold pk_drop_col. rewrite Hp1. cbn. apply remove_name_In. auto.
  - (* alter column *)
    cbn [apply_batch_op edit] in *. rewrite <- Icols in He.
    destruct (aget k (b_cols s)) as [c|] eqn:G; [|discriminate].
    destruct (aget k (b_tr s)) as [t|] eqn:Gt; [|discriminate].
    destruct (mem_name _ _); [discriminate|].
    inversion Hm; inversion He; subst s' T'; clear Hm He.
    assert (Gn : aget k (b_cols s) <> None) by congruence.
    assert (Gtn : aget k (b_tr s) <> None) by congruence.
    constructor; psimpl; auto.
    + (* the column built by the code is the column of the specification *)
      f_equal. destruct a as [an aty anl adf]; cbn in *. destruct c as [cn cty cnl cdf]; cbn.
      destruct an as [n|]; cbn.
      * destruct (name_eqb n cn) eqn:En; cbn; [apply name_eqb_eq in En; subst n|]; destruct aty, anl, adf; reflexivity.
      * destruct aty, anl, adf; reflexivity.
    + rewrite !akeys_aset; auto.
    + apply aset_Forall; auto. intros k' E. apply name_eqb_eq in E. subst k'.
      rewrite Forall_forall in Isrc.
      assert (Hin : exists cs, tr_expr t = Some (k, cs)).
      { clear - Gt Isrc. induction (b_tr s) as [|[k1 t1] l IH]; simpl in *; [discriminate|].
        destruct (name_eqb k k1) eqn:E.
        - inversion Gt; subst. apply name_eqb_eq in E. subst. destruct (Isrc (k1, t)) as [cs H]; simpl; auto. exists cs; auto.
        - apply IH; auto; intros x Hx; apply Isrc; simpl; auto. }
      destruct Hin as [cs Hcs]. unfold own_source. cbn.
      destruct a as [an aty anl adf]; cbn. destruct an as [n|]; cbn; try (destruct (negb (name_eqb n (c_name c)))); cbn;
        destruct aty as [nt|]; cbn; try (destruct (N.eqb _ _)); cbn; rewrite ?Hcs; eauto.
    + rewrite akeys_aset; auto.
    + rewrite akeys_aset, Icols; auto.
    + rewrite akeys_aset, Icols; auto.
    + intros k0 Hk0 Hin. rewrite akeys_aset in Hin; auto.
  - (* add constraint *)
    cbn [apply_batch_op edit] in *. rewrite <- Icons in He.
    destruct (is_some (con_get (k_name c) (b_named s))) eqn:F; [discriminate|]. cbn in He.
    destruct (sub_names (k_cols c) (akeys (tb_cols T))) eqn:Sb; [|discriminate]. cbn in He.
    inversion Hm; inversion He; subst s' T'; clear Hm He.
    apply is_some_false in F.
    constructor; psimpl; auto.
    + rewrite con_set_fresh; auto.
    + apply Forall_app. split; [rewrite Icons; auto|]. constructor; auto. apply sub_names_incl; auto.
    + rewrite con_set_fresh; auto. rewrite map_app. cbn. apply NoDup_snoc; auto. apply con_get_none_notin; auto.
    + intros k0 Hk0 Hin. destruct (Ifl k0 Hk0 Hin) as [Hp|[c1 [Hc1 H1]]]; [left; auto|].
      right. exists c1. split; auto. rewrite con_set_fresh; auto. apply in_or_app; auto.
  - (* drop constraint *)
    cbn [apply_batch_op edit] in *. rewrite <- Icons in He.
    destruct (con_get n (b_named s)) as [c0|] eqn:F; [|discriminate]. cbn in He.
    inversion Hm; inversion He; subst s' T'; clear Hm He.
    destruct (con_get_some_in _ _ _ F) as [Hc0 Hn0].
    constructor; psimpl; auto.
    + unfold con_del. apply Forall_forall. intros c1 Hc'. apply filter_In in Hc'.
      rewrite Forall_forall in Iwfc. apply Iwfc. rewrite <- Icons. tauto.
    + unfold con_del. apply NoDup_map_filter; auto.
    + intros k0 Hk0 Hin.
      assert (Hk0' : In k0 (b_flags s)) by (destruct (is_primary c0); [apply filter_In in Hk0; tauto|auto]).
      destruct (Ifl k0 Hk0' Hin) as [Hp|[c1 [Hc1 [Hp1 Hk1]]]]; [left; auto|].
      right. exists c1. split; [|auto]. unfold con_del. apply filter_In. split; auto.
      apply negb_true_iff. apply name_eqb_neq. intro Heq.
      assert (c1 = c0) by (apply (names_unique (b_named s)); auto; congruence). subst c1.
      rewrite Hp1 in Hk0. apply filter_In in Hk0. destruct Hk0 as [_ Hk0]. apply negb_true_iff in Hk0.
      apply mem_name_false in Hk0. auto.
  - (* create index *)
    cbn [apply_batch_op edit] in *.
    destruct (is_some (idx_get (x_name x) (tb_idx T))) eqn:F; [discriminate|]. cbn in He.
    destruct (sub_names (x_cols x) (akeys (tb_cols T))); [|discriminate]. cbn in He.
    inversion Hm; inversion He; subst s' T'; clear Hm He.
    apply is_some_false in F. rewrite Iidx, idx_get_app in F.
    destruct (idx_get (x_name x) (b_idx s)) eqn:F1; [discriminate|].
    constructor; psimpl; auto.
    + rewrite idx_set_fresh; auto. rewrite Iidx, app_assoc; auto.
    + intros y Hy. rewrite idx_set_fresh in Hy; auto. apply in_app_or in Hy. destruct Hy as [Hy|[<-|[]]]; auto.
  - (* drop index *)
    cbn [apply_batch_op edit] in *.
    destruct (idx_get n (b_idx s)) as [x0|] eqn:F1; [|discriminate].
    destruct (is_some (idx_get n (tb_idx T))); [|discriminate].
    inversion Hm; inversion He; subst s' T'; clear Hm He.
    constructor; psimpl; auto.
    + rewrite Iidx, idx_del_app. f_equal. apply idx_del_none. intros y Hy.
      destruct (name_eqb n (x_name y)) eqn:E; auto. apply name_eqb_eq in E. subst n.
      rewrite (Inew y Hy) in F1. discriminate.
    + intros y Hy. apply idx_get_del_none. auto.
Qed.

Lemma ops_refine ops : forall s T s' T',
  forallb in_class ops = true -> Inv s T -> apply_ops ops s = BOk s' -> edit_all ops T = BOk T' -> Inv s' T'.
Proof.
  induction ops as [|o ops IH]; cbn [apply_ops edit_all forallb]; intros s T s' T' Hc HI Hm He.
  - inversion Hm; inversion He; subst; auto.
  - apply andb_true_iff in Hc. destruct Hc as [Hc1 Hc2].
    destruct (apply_batch_op o s) as [s1|] eqn:A; [|discriminate]. destruct (edit o T) as [T1|] eqn:E; [|discriminate].
    apply (IH s1 T1); auto. apply (step_refines o s s1 T T1); auto.
Qed.

Lemma filter_all {A} (f:A -> bool) l : (forall x, In x l -> f x = true) -> filter f l = l.
Proof. induction l as [|x l IH]; simpl; auto. intros H. rewrite (H x) by auto. rewrite IH; auto. Qed.

Lemma cm_own (rn:key -> name) (trs:list (key * transfer)) : Forall own_source trs ->
  let cm := flat_map (fun p => match tr_expr (snd p) with Some (src, cast) => [(rn (fst p), src, cast)] | None => [] end) trs in
  map (fun e => snd (fst e)) cm = akeys trs /\ (forall e, In e cm -> fst (fst e) = rn (snd (fst e))).
Proof.
  induction trs as [|[k t] l IH]; intros H; cbn; [split; [auto|tauto]|].
  inversion H as [|? ? [cs Hcs] Hl]; subst. cbn in Hcs. rewrite Hcs. cbn. destruct (IH Hl) as [H1 H2]. split.
  - f_equal. auto.
  - intros e [<-|He]; auto.
Qed.

Section Refinement.
  Variable tsort : list (key * key) -> list key -> option (list key).     (* SQLAlchemy's topological sort: never called in this class *)

  Lemma finish_inv s T nd cm : Inv s T -> finish tsort s = BOk (nd, cm) ->
    nd = describe T /\ map (fun e => snd (fst e)) cm = akeys (tb_cols T) /\
    (forall e, In e cm -> fst (fst e) = cur_name (tb_cols T) (snd (fst e))).
  Proof.
    intros [Icols Itrk Isrc Icons Ipk Iidx Inew Iord Iex Iwfc Iwfp Ind Ifl Ipart Itargs]. unfold finish, reorder. rewrite Iord, Ipart, Itargs.
    destruct (has_dup _); [discriminate|]. destruct (no_transfer _); [discriminate|].
    match goal with |- context [existsb ?g (flat_map x_cols (b_idx s))] => destruct (existsb g (flat_map x_cols (b_idx s))); [discriminate|] end.
    destruct (negb (forallb _ (b_newidx s))); [discriminate|]. destruct (negb (forallb _ (b_idx s ++ b_newidx s))); [discriminate|]. destruct (negb (forallb _ (b_idx s ++ b_newidx s))); [discriminate|].
    intros E. inversion E; subst nd cm; clear E. split; [|rewrite <- Icols, <- Itrk; apply cm_own; auto].
    assert (Hkept : filter (fun c => sub_names (k_cols c) (akeys (b_tr s))) (b_named s) = b_named s).
    { apply filter_all. intros c Hc. apply sub_names_incl. rewrite Itrk, Icols.
      rewrite Forall_forall in Iwfc. apply Iwfc. rewrite <- Icons. auto. }
    rewrite Hkept, app_nil_r.
    unfold describe. rewrite <- Icols, <- Icons, <- Ipk, Iidx. f_equal.
    rewrite Itrk. replace (sub_names (b_pk s) (akeys (b_cols s))) with true
      by (symmetry; apply sub_names_incl; rewrite Ipk, Icols; auto).
    destruct (b_pk s) as [|k0 l0] eqn:Epk; [|reflexivity].
    destruct (existsb is_primary (b_named s)) eqn:Ep; [reflexivity|].
    rewrite filter_nil; [reflexivity|]. intros k Hk. destruct (mem_name k (b_flags s)) eqn:Em; auto. exfalso.
    apply mem_name_In in Em. destruct (Ifl k Em Hk) as [Hp|[c [Hc [Hp _]]]].
    - try rewrite Epk in Hp. destruct Hp.
    - pose proof (existsb_false_forall _ _ Ep c Hc). congruence.
  Qed.

  (* C10_schema / C10_rows *)
  Theorem schema_rows T ops T' nd cm :
    wf_tbl T = true -> forallb in_class ops = true ->
    edit_all ops T = BOk T' -> batch tsort T ops = BOk (nd, cm) ->
    nd = describe T' /\ map (fun e => snd (fst e)) cm = akeys (tb_cols T') /\
    (forall e, In e cm -> fst (fst e) = cur_name (tb_cols T') (snd (fst e))).
  Proof.
    intros Hwf Hc He. unfold batch, batch_with. change (init_with [] []) with init. destruct (apply_ops ops (init T)) as [s|] eqn:A; [|discriminate].
    intros Hf. apply (finish_inv s T' nd cm); auto. apply (ops_refine ops (init T) T s T'); auto. apply init_inv; auto.
  Qed.
End Refinement.

Lemma copy_rows_length cast dflt T nd cm rows : length (copy_rows cast dflt T nd cm rows) = length rows.
Proof. unfold copy_rows. apply map_length. Qed.

(* ------------------------------------------------------------------ what the operations do not mention stays (specification level) *)
Lemma aget_adel_other {V} k k' (l:list (key * V)) : k <> k' -> aget k (adel k' l) = aget k l.
Proof. intros Hn. unfold adel. induction l as [|[k1 v1] l IH]; simpl; auto.
  destruct (name_eqb k' k1) eqn:E; simpl.
  - apply name_eqb_eq in E. subst k1. destruct (name_eqb k k') eqn:E2; [apply name_eqb_eq in E2; congruence|]. auto.
  - rewrite IH. auto. Qed.
Lemma aget_aset_other {V} k k' (v:V) l : k <> k' -> aget k (aset k' v l) = aget k l.
Proof. intros Hn. induction l as [|[k1 v1] l IH]; simpl.
  - destruct (name_eqb k k') eqn:E; auto. apply name_eqb_eq in E; congruence.
  - destruct (name_eqb k' k1) eqn:E; simpl; [|rewrite IH; auto].
    apply name_eqb_eq in E. subst k1. destruct (name_eqb k k') eqn:E2; auto. apply name_eqb_eq in E2; congruence. Qed.

Lemma remove_name_notin k l : ~ In k l -> remove_name k l = l.
Proof. intros H. unfold remove_name. apply filter_all. intros x Hx. apply negb_true_iff. apply name_eqb_neq. intro; subst; auto. Qed.

Lemma edit_untouched o T T' : in_class o = true -> edit o T = BOk T' ->
  ((forall k, In k (tb_pk T) -> ~ In k (op_mentions o)) -> tb_pk T' = tb_pk T) /\
  (forall k, ~ In k (op_mentions o) -> aget k (tb_cols T') = aget k (tb_cols T)) /\
  (forall c, In c (tb_cons T) -> ~ In (k_name c) (op_mentions o) -> (forall x, In x (k_cols c) -> ~ In x (op_mentions o)) -> In c (tb_cons T')) /\
  (forall x, In x (tb_idx T) -> ~ In (x_name x) (op_mentions o) -> In x (tb_idx T')).
Proof.
  intros Hc He. destruct o as [k c b a|k|k a|c|n|x|n]; cbn [in_class edit op_mentions] in *; try discriminate.
  - destruct (negb (has_key k T)); [discriminate|]. destruct (existsb _ (tb_idx T)); [discriminate|]. destruct (existsb _ (tb_cons T)); [discriminate|].
    inversion He; subst T'; cbn. repeat split; auto.
    + intros Hpk. apply remove_name_notin. intro Hin. apply (Hpk k Hin). simpl; auto.
    + intros k0 Hk. apply aget_adel_other. simpl in Hk. intuition.
    + intros c Hc1 _ Hc3. apply in_map_iff. exists c. split; auto. unfold pk_drop_col. destruct (is_primary c); auto.
      rewrite remove_name_notin; [destruct c; reflexivity|]. intro Hin. apply (Hc3 k Hin). simpl; auto.
  - destruct (aget k (tb_cols T)); [|discriminate]. destruct (mem_name _ _); [discriminate|].
    inversion He; subst T'; cbn. repeat split; auto. intros k0 Hk. apply aget_aset_other. simpl in Hk. intuition.
  - destruct (_ || _); [discriminate|]. inversion He; subst T'; cbn. repeat split; auto. intros; apply in_or_app; auto.
  - destruct (is_some _); [|discriminate]. inversion He; subst T'; cbn. repeat split; auto.
    intros c Hc1 Hc2 _. unfold con_del. apply filter_In. split; auto. apply negb_true_iff. apply name_eqb_neq. simpl in Hc2. intuition.
  - destruct (_ || _); [discriminate|]. inversion He; subst T'; cbn. repeat split; auto. intros; apply in_or_app; auto.
  - destruct (is_some _); [|discriminate]. inversion He; subst T'; cbn. repeat split; auto.
    intros x Hx1 Hx2. unfold idx_del. apply filter_In. split; auto. apply negb_true_iff. apply name_eqb_neq. simpl in Hx2. intuition.
Qed.

Theorem untouched_spec ops : forall T T', forallb in_class ops = true -> edit_all ops T = BOk T' ->
  ((forall k, In k (tb_pk T) -> ~ In k (mentioned ops)) -> tb_pk T' = tb_pk T) /\
  (forall k, ~ In k (mentioned ops) -> aget k (tb_cols T') = aget k (tb_cols T)) /\
  (forall c, In c (tb_cons T) -> ~ In (k_name c) (mentioned ops) -> (forall x, In x (k_cols c) -> ~ In x (mentioned ops)) -> In c (tb_cons T')) /\
  (forall x, In x (tb_idx T) -> ~ In (x_name x) (mentioned ops) -> In x (tb_idx T')).
Proof.
  induction ops as [|o ops IH]; cbn [edit_all forallb mentioned flat_map]; intros T T' Hc He.
  - inversion He; subst. repeat split; auto.
  - apply andb_true_iff in Hc. destruct Hc as [Hc1 Hc2]. destruct (edit o T) as [T1|] eqn:E; [|discriminate].
    destruct (edit_untouched o T T1 Hc1 E) as [A0 [A1 [A2 A3]]]. destruct (IH T1 T' Hc2 He) as [B0 [B1 [B2 B3]]].
    split; [|repeat split].
    + intros Hpk. assert (E1 : tb_pk T1 = tb_pk T) by (apply A0; intros k Hk Hm; apply (Hpk k Hk); apply in_or_app; auto).
      rewrite <- E1. apply B0. intros k Hk Hm. rewrite E1 in Hk. apply (Hpk k Hk). apply in_or_app; auto.
    + intros k Hk. rewrite B1, A1; auto; intro; apply Hk; apply in_or_app; auto.
    + intros c Hc Hn Hx. apply B2; [apply A2; auto| |]; try (intro; apply Hn; apply in_or_app; auto);
        intros x Hxc Hm; apply (Hx x Hxc); apply in_or_app; auto.
    + intros x Hx Hn. apply B3; [apply A3; auto|]; intro; apply Hn; apply in_or_app; auto.
Qed.

(* ------------------------------------------------------------------ closed witnesses of the deviations *)
Local Open Scope N_scope.
Definition nm (l:list N) : name := l.
Definition w_id := nm [105;100]. Definition w_a := nm [97]. Definition w_b := nm [98]. Definition w_c := nm [99].
Definition w_a2 := nm [97;50]. Definition w_z := nm [122].
Definition w_uqc := nm [117;113;95;99]. Definition w_uqa := nm [117;113;95;97]. Definition w_ixb := nm [105;120;95;98].
(* t(id INTEGER PK, a INTEGER, b TEXT, c INTEGER, uq_c UNIQUE(c), ix_b(b)) with rows (1,1,'x',1), (2,NULL,'y',2) *)
Definition w_tbl : tbl :=
  mkTbl [(w_id, mkCol w_id 0 false None); (w_a, mkCol w_a 0 true None); (w_b, mkCol w_b 2 true None); (w_c, mkCol w_c 0 true None)]
        [w_id] [mkCon w_uqc KUnique [w_c]] [mkIndex w_ixb [w_b] false None].
Definition w_rows : list row := [[VInt 1; VInt 1; VText [120]; VInt 1]; [VInt 2; VNull; VText [121]; VInt 2]].
Definition w_in (ops:list batch_op) : input10 := mkIn10 w_tbl w_rows ops [] [] true [] [] true [] false.

(* rename a -> a2, then create a UNIQUE constraint over ['a2']: accepted, and the constraint is silently left out *)
Definition w_ops_byname := [OAlterColumn w_a (mkAlter (Some w_a2) None None None); OAddConstraint (mkCon w_uqa KUnique [w_a2])].
Theorem byname_refuted : exists i, (exists nd r, model10 i = OutOk nd r false) /\ check_C10 i (model10 i) = false /\ ~ C10_holds i (model10 i).
Proof.
  exists (w_in w_ops_byname). split; [eexists; eexists; vm_compute; reflexivity|]. split; [vm_compute; reflexivity|].
  intros H. vm_compute in H. destruct H as [_ [_ [_ [_ [_ [H _]]]]]]. discriminate.
Qed.

(* add_column of the existing last column c: accepted, c is recreated and every value it held is gone *)
Definition w_ops_readd := [OAddColumn w_c (mkCol w_c 2 true None) None None].
Theorem readd_refuted : exists i, (exists nd r, model10 i = OutOk nd r false) /\ check_C10 i (model10 i) = false /\ ~ C10_holds i (model10 i).
Proof.
  exists (w_in w_ops_readd). split; [eexists; eexists; vm_compute; reflexivity|]. split; [vm_compute; reflexivity|].
  intros H. cbn [C10_holds model10] in H.
  assert (E : model10 (w_in w_ops_readd) = OutOk (mkDesc [mkCol w_id 0 false None; mkCol w_a 0 true None; mkCol w_b 2 true None; mkCol w_c 2 true None]
                [w_id] [mkCon w_uqc KUnique [w_c]] [mkIndex w_ixb [w_b] false None])
              [[VInt 1; VInt 1; VText [120]; VNull]; [VInt 2; VNull; VText [121]; VNull]] false) by (vm_compute; reflexivity).
  rewrite E in H. destruct H as [_ [_ [_ [H _]]]].
  specialize (H [VInt 1; VInt 1; VText [120]; VNull]). vm_compute in H. discriminate.
Qed.

(* add z (no position: append), then drop the column that was last: the code records the pair (c, z) in add_col_ordering,
   c disappears, and SQLAlchemy's topological sort emits z as soon as the first column is out: z lands SECOND, not last *)
Definition w_ops_order := [OAddColumn w_z (mkCol w_z 0 true None) None None; ODropConstraint w_uqc; ODropColumn w_c].
Theorem added_order_refuted : exists i,
  (exists nd r, model10 i = OutOk nd r false /\ map c_name (n_cols nd) = [w_id; w_z; w_a; w_b]) /\
  (exists T', edit_all (j_ops i) (j_tbl i) = BOk T' /\ map c_name (n_cols (describe T')) = [w_id; w_a; w_b; w_z]) /\
  check_C10 i (model10 i) = false /\ ~ C10_holds i (model10 i).
Proof.
  exists (w_in w_ops_order). split; [eexists; eexists; split; vm_compute; reflexivity|].
  split; [eexists; split; vm_compute; reflexivity|]. split; [vm_compute; reflexivity|].
  intros H. cbn [C10_holds] in H.
  assert (E : exists nd r, model10 (w_in w_ops_order) = OutOk nd r false /\ map c_name (n_cols nd) = [w_id; w_z; w_a; w_b])
    by (eexists; eexists; split; vm_compute; reflexivity).
  destruct E as [nd [r [E1 E2]]]. rewrite E1 in H. destruct H as [_ [_ [_ [_ [_ [_ [_ [_ [_ H]]]]]]]]].
  assert (ET : exists T', edit_all (j_ops (w_in w_ops_order)) (j_tbl (w_in w_ops_order)) = BOk T' /\ map c_name (n_cols (describe T')) = [w_id; w_a; w_b; w_z])
    by (eexists; split; vm_compute; reflexivity).
  destruct ET as [T' [ET1 ET2]]. clear E2 ET2. vm_compute in E1. inversion E1; subst nd r. vm_compute in ET1. inversion ET1; subst T'.
  destruct (H _ eq_refl) as [_ [_ [Hg _]]]. specialize (Hg (mkCol w_z 0 true None)). vm_compute in Hg.
  assert (Hx : Some (Some w_id) = Some (Some w_b)) by (apply Hg; auto). vm_compute in Hx. discriminate.
Qed.

(* the primary key: if no operation mentions one of its columns it comes out identical — same columns, same order *)
Theorem untouched_pk ops T T' : forallb in_class ops = true -> edit_all ops T = BOk T' ->
  (forall k, In k (tb_pk T) -> ~ In k (mentioned ops)) -> n_pk (describe T') = n_pk (describe T).
Proof.
  intros Hc He Hpk. destruct (untouched_spec ops T T' Hc He) as [B0 [B1 _]].
  unfold describe; cbn [n_pk]. rewrite (B0 Hpk). apply map_ext_in. intros k Hk. unfold cur_name. rewrite B1; auto.
Qed.


