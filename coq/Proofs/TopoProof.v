(* Partial correctness of the _topological_sort transcription (invariant of ten fields). *)
From Coq Require Import List NArith Arith Lia Bool Permutation.
Import ListNotations.
From AV Require Import Model.Topo.

(* ---------- list surgery lemmas ---------- *)
Lemma set_nth_split {A} (l1 l2:list A) y x : set_nth (length l1) x (l1 ++ y :: l2) = l1 ++ x :: l2.
Proof. induction l1 as [|a l1 IH]; cbn; [reflexivity|]. now rewrite IH. Qed.
Lemma del_nth_split {A} (l1 l2:list A) y : del_nth (length l1) (l1 ++ y :: l2) = l1 ++ l2.
Proof. induction l1 as [|a l1 IH]; cbn; [reflexivity|]. now rewrite IH. Qed.
Lemma nth_error_split' {A} (l:list A) i y : nth_error l i = Some y -> exists l1 l2, l = l1 ++ y :: l2 /\ length l1 = i.
Proof. apply nth_error_split. Qed.

Lemma find_blocker_None c i : forall l k, find_blocker c i k l = None ->
  forall j h A, nth_error l j = Some (h,A) -> k + j <> i -> memN c A = false.
Proof.
  induction l as [|[h0 A0] l IH]; intros k H j h A Hn Hne.
  - destruct j; discriminate.
  - cbn in H. destruct (negb (k =? i) && memN c A0) eqn:E; [discriminate|].
    destruct j as [|j].
    + cbn in Hn. inversion Hn; subst. apply andb_false_iff in E. destruct E as [E|E]; auto.
      apply negb_false_iff, Nat.eqb_eq in E. lia.
    + cbn in Hn. eapply IH; eauto. lia.
Qed.
Lemma find_blocker_Some c i : forall l k r, find_blocker c i k l = Some r ->
  k <= r < k + length l /\ r <> i.
Proof.
  induction l as [|[h0 A0] l IH]; intros k r H; [discriminate|].
  cbn in H. destruct (negb (k =? i) && memN c A0) eqn:E.
  - inversion H; subst. apply andb_true_iff in E. destruct E as [E _].
    apply negb_true_iff, Nat.eqb_neq in E. cbn. lia.
  - apply IH in H. cbn. lia.
Qed.


Lemma NoDup_app_iff' (a b : list N) : NoDup a -> NoDup b -> (forall x, In x a -> ~ In x b) -> NoDup (a ++ b).
Proof. induction a as [|x a IH]; cbn; intros Ha Hb Hd; auto. inversion Ha; subst.
  constructor. - intros Hin. apply in_app_or in Hin. destruct Hin; auto. eapply Hd; eauto.
  - apply IH; auto. Qed.

Section PROOF.
  Variable parents : N -> list N.
  Variable anc     : N -> list N.
  Variable linear  : N -> bool.

  Inductive Anc : N -> N -> Prop :=
  | Anc_refl x : Anc x x
  | Anc_step x p y : In p (parents x) -> Anc p y -> Anc x y.
  Lemma Anc_trans x y z : Anc x y -> Anc y z -> Anc x z.
  Proof. induction 1; auto. intros. eapply Anc_step; eauto. Qed.
  Lemma Anc_inv x y : Anc x y -> x = y \/ exists p, In p (parents x) /\ Anc p y.
  Proof. destruct 1; eauto. Qed.

  Hypothesis anc_spec : forall x y, In y (anc x) <-> Anc x y.
  Hypothesis acyclic  : forall x p, In p (parents x) -> ~ Anc p x.
  Hypothesis linear_spec : forall c, linear c = true -> exists p, parents c = [p].
  Hypothesis parents_nodup : forall x, NoDup (parents x).

  Lemma Anc_antisym x y : Anc x y -> Anc y x -> x = y.
  Proof. intros H1 H2. destruct (Anc_inv _ _ H1) as [|[p [Hp Hpy]]]; auto.
    exfalso. eapply acyclic; eauto. eapply Anc_trans; eauto. Qed.

  Variable todo0 : list N.
  Hypothesis todo0_nodup : NoDup todo0.
  Hypothesis convex : forall x y p, In x todo0 -> In y todo0 -> Anc x p -> Anc p y -> In p todo0.

  Fixpoint ordered (o:list N) : Prop :=    (* o is reversed emission order: newest first *)
    match o with [] => True | c :: rest => (forall x, In x rest -> ~ Anc c x) /\ ordered rest end.

  Record Inv (s:st) : Prop := {
    i_nodup_heads : NoDup (map fst (hs s));
    i_heads : forall h A, In (h,A) (hs s) -> In h (todo s) /\ forall y, In y A <-> Anc h y;
    i_cover : forall y, In y (todo s) -> exists h A, In (h,A) (hs s) /\ Anc h y;
    i_todo_nodup : NoDup (todo s);
    i_part : forall x, In x todo0 <-> In x (out s) \/ In x (todo s);
    i_disj : forall x, In x (out s) -> ~ In x (todo s);
    i_out_nodup : NoDup (out s);
    i_closed : forall x y, In x (out s) -> In y (todo s) -> ~ Anc y x;
    i_ordered : ordered (out s);
    i_idx : hs s = [] \/ idx s < length (hs s)
  }.

  Lemma In_map_fst (l:list (N*list N)) h : In h (map fst l) <-> exists A, In (h,A) l.
  Proof. rewrite in_map_iff. split.
    - intros [[h' A] [E H]]. cbn in E; subst. eauto.
    - intros [A H]. exists (h,A). auto. Qed.

  Lemma step_preserves s s' : Inv s -> step parents anc linear s = Next s' -> Inv s'.
  Proof.
    intros I H. unfold step in H.
    destruct (hs s) as [|hd tl] eqn:Ehs; [discriminate|]. rewrite <- Ehs in *.
    destruct (nth_error (hs s) (idx s)) as [[c Ac]|] eqn:En; [|discriminate].
    destruct (find_blocker c (idx s) 0 (hs s)) as [k|] eqn:Eb.
    - (* switch *)
      inversion H; subst; clear H. destruct I. constructor; cbn; auto.
      apply find_blocker_Some in Eb. right. lia.
    - (* emit *)
      pose proof (nth_error_split' _ _ _ En) as [l1 [l2 [Hsplit Hlen]]].
      assert (Hc_in : In (c,Ac) (hs s)) by (eapply nth_error_In; eauto).
      destruct (i_heads _ I _ _ Hc_in) as [Hc_todo HAc].
      assert (Em : memN c (todo s) = true) by (apply memN_In; auto).
      rewrite Em in H.
      (* facts used by all three sub-branches *)
      assert (Hnoblock : forall h A, In (h,A) (hs s) -> h <> c -> ~ Anc h c).
      { intros h A Hin Hne Hanc. apply In_nth_error in Hin. destruct Hin as [j Hj].
        assert (j <> idx s).
        { intros ->. rewrite En in Hj. inversion Hj; subst. congruence. }
        pose proof (find_blocker_None _ _ _ _ Eb j h A Hj ltac:(lia)) as Hm.
        apply memN_nIn in Hm. apply Hm.
        apply (proj2 (i_heads _ I _ _ (nth_error_In _ _ Hj))). exact Hanc. }
      assert (Hclosed' : forall y, In y (removeN c (todo s)) -> ~ Anc y c).
      { intros y Hy Hanc. apply removeN_In in Hy. destruct Hy as [Hy Hne].
        destruct (i_cover _ I y Hy) as [h [A [Hin Hhy]]].
        destruct (N.eq_dec h c) as [->|Hhc].
        - apply Hne. apply Anc_antisym; auto.
        - eapply Hnoblock; eauto. eapply Anc_trans; eauto. }
      set (todo' := removeN c (todo s)) in *.
      set (add := filter (fun r => memN r todo' && negb (memN r (map fst (hs s)))) (parents c)) in *.
      assert (Hadd : forall p, In p add <-> In p (parents c) /\ In p todo' /\ ~ In p (map fst (hs s))).
      { intros p. unfold add. rewrite filter_In, andb_true_iff, negb_true_iff, memN_In, memN_nIn. tauto. }
      assert (Hadd_nodup : NoDup add) by (apply NoDup_filter; auto).
      (* every remaining todo node under c is under a parent that is still todo *)
      assert (Hunder : forall y, In y todo' -> Anc c y -> exists p, In p (parents c) /\ In p todo' /\ Anc p y).
      { intros y Hy Hcy. apply removeN_In in Hy. destruct Hy as [Hy Hne].
        destruct (Anc_inv _ _ Hcy) as [->|[p [Hp Hpy]]]; [congruence|].
        exists p. split; auto. split; auto. apply removeN_In. split.
        - assert (In p todo0).
          { eapply convex with (x:=c) (y:=y).
            - apply (i_part _ I). right; auto.
            - apply (i_part _ I). right; auto.
            - eapply Anc_step; eauto. constructor.
            - auto. }
          apply (i_part _ I) in H0. destruct H0 as [Ho|Ht]; auto.
          exfalso. eapply (i_closed _ I p c Ho Hc_todo). eapply Anc_step; eauto. constructor.
        - intros ->. eapply acyclic; eauto. constructor. }
      (* common parts of the new invariant *)
      assert (Ctodo_nodup : NoDup todo') by (apply NoDup_filter; apply I).
      assert (Cpart : forall x, In x todo0 <-> In x (c :: out s) \/ In x todo').
      { intros x. rewrite (i_part _ I x). unfold todo'. rewrite removeN_In. cbn.
        destruct (N.eq_dec x c) as [->|Hn].
        - split; intros _; [left; left; reflexivity | right; exact Hc_todo].
        - split.
          + intros [Ho|Ht]; [left; right; exact Ho | right; split; assumption].
          + intros [[E|Ho]|[Ht _]]; [congruence | left; exact Ho | right; exact Ht]. }
      assert (Cdisj : forall x, In x (c :: out s) -> ~ In x todo').
      { intros x [<-|Hx] Hy; apply removeN_In in Hy; destruct Hy as [Hy Hne]; [congruence|].
        eapply (i_disj _ I); eauto. }
      assert (Cout_nodup : NoDup (c :: out s)).
      { constructor; [|apply I]. intros Hin. eapply (i_disj _ I); eauto. }
      assert (Cclosed : forall x y, In x (c :: out s) -> In y todo' -> ~ Anc y x).
      { intros x y [<-|Hx] Hy; [apply Hclosed'; auto|].
        apply removeN_In in Hy. destruct Hy as [Hy _]. eapply (i_closed _ I); eauto. }
      assert (Cordered : ordered (c :: out s)).
      { cbn. split; [|apply I]. intros x Hx. eapply (i_closed _ I); eauto. }
      (* generic re-establishment of the invariant for a new head list hs' *)
      assert (Hc_unique : forall A, In (c,A) (hs s) -> A = Ac).
      { intros A HA. pose proof (i_nodup_heads _ I) as ND. rewrite Hsplit in ND, HA.
        rewrite map_app in ND. cbn in ND. apply NoDup_remove_2 in ND.
        apply in_app_or in HA. destruct HA as [HA|[HA|HA]].
        - exfalso. apply ND. apply in_or_app. left. apply in_map_iff. exists (c,A); auto.
        - congruence.
        - exfalso. apply ND. apply in_or_app. right. apply in_map_iff. exists (c,A); auto. }
      assert (Gen : forall hs' idx' nh,
                 (forall e, In e hs' <-> (In e (hs s) /\ fst e <> c) \/ In e nh) ->
                 NoDup (map fst hs') ->
                 (forall h A, In (h,A) nh -> In h todo' /\ forall y, In y A <-> Anc h y) ->
                 (forall p, In p (parents c) -> In p todo' -> In p (map fst (hs s)) \/ In p (map fst nh)) ->
                 (hs' = [] \/ idx' < length hs') ->
                 Inv {| hs := hs'; idx := idx'; todo := todo'; out := c :: out s |}).
      { intros hs' idx' nh Hmem Hnd Hnh Hcov Hidx. constructor; cbn; auto.
        - intros h A Hin. apply Hmem in Hin. destruct Hin as [[Hin Hne]|Hin]; [|apply Hnh; auto].
          cbn in Hne. destruct (i_heads _ I _ _ Hin) as [Ht HA]. split; auto.
          apply removeN_In. split; auto.
        - intros y Hy. pose proof Hy as Hy0. apply removeN_In in Hy0. destruct Hy0 as [Hy0 Hyc].
          destruct (i_cover _ I y Hy0) as [h [A [Hin Hhy]]].
          destruct (N.eq_dec h c) as [->|Hhc].
          + destruct (Hunder y Hy Hhy) as [p [Hp [Hpt Hpy]]].
            destruct (Hcov p Hp Hpt) as [Hh|Hh].
            * apply In_map_fst in Hh. destruct Hh as [A' HA']. exists p, A'. split; auto.
              apply Hmem. left. split; auto. cbn. intros ->. eapply acyclic; eauto. constructor.
            * apply In_map_fst in Hh. destruct Hh as [A' HA']. exists p, A'. split; auto.
              apply Hmem. right; auto.
          + exists h, A. split; auto. apply Hmem. left. split; auto. }
      destruct add as [|p more] eqn:Eadd.
      + (* no new heads: delete idx *)
        inversion H; subst s'; clear H.
        assert (Ehs' : del_nth (idx s) (hs s) = l1 ++ l2).
        { rewrite Hsplit, <- Hlen. apply del_nth_split. }
        rewrite Ehs'.
        apply Gen with (nh := []).
        * intros e. split.
          -- intros He. left. split.
             ++ rewrite Hsplit. apply in_app_or in He. apply in_or_app. destruct He; [left|right; right]; auto.
             ++ pose proof (i_nodup_heads _ I) as ND. rewrite Hsplit, map_app in ND. cbn in ND.
                apply NoDup_remove_2 in ND. intros Hfe. apply ND. rewrite <- Hfe, <- map_app.
                apply in_map. exact He.
          -- intros [[He Hne]|[]]. rewrite Hsplit in He. apply in_app_or in He.
             apply in_or_app. destruct He as [He|[He|He]]; auto. subst e. cbn in Hne. congruence.
        * pose proof (i_nodup_heads _ I) as ND. rewrite Hsplit, map_app in ND. cbn in ND.
          apply NoDup_remove_1 in ND. rewrite map_app. exact ND.
        * intros h A [].
        * intros p Hp Hpt. left. destruct (in_dec N.eq_dec p (map fst (hs s))) as [|Hn]; auto.
          exfalso. assert (In p []) as []. apply Hadd. auto.
        * destruct (l1 ++ l2) eqn:E; [left; reflexivity|right]. rewrite <- E, app_length.
          destruct l1; cbn in *; [destruct l2; cbn in *; [discriminate|lia]|lia].
      + (* new heads *)
        assert (Hp : In p (parents c) /\ In p todo' /\ ~ In p (map fst (hs s))) by (apply Hadd; left; auto).
        assert (Hmore : forall q, In q more -> In q (parents c) /\ In q todo' /\ ~ In q (map fst (hs s)))
          by (intros q Hq; apply Hadd; right; auto).
        assert (NDadd : NoDup (p :: more)) by exact Hadd_nodup.
        assert (Hset : forall x, set_nth (idx s) x (hs s) = l1 ++ x :: l2).
        { intros x. rewrite Hsplit, <- Hlen. apply set_nth_split. }
        assert (Hmem_old : forall e, In e (l1 ++ l2) <-> In e (hs s) /\ fst e <> c).
        { intros e. split.
          - intros He. split.
            + rewrite Hsplit. apply in_app_or in He. apply in_or_app. destruct He; [left|right; right]; auto.
            + pose proof (i_nodup_heads _ I) as ND. rewrite Hsplit, map_app in ND. cbn in ND.
              apply NoDup_remove_2 in ND. intros Hfe. apply ND. rewrite <- Hfe, <- map_app.
              apply in_map. exact He.
          - intros [He Hne]. rewrite Hsplit in He. apply in_app_or in He.
            apply in_or_app. destruct He as [He|[He|He]]; auto. subst e. cbn in Hne. congruence. }
        assert (ND_old : NoDup (map fst (l1 ++ l2))).
        { pose proof (i_nodup_heads _ I) as ND. rewrite Hsplit, map_app in ND. cbn in ND.
          apply NoDup_remove_1 in ND. rewrite map_app. exact ND. }
        assert (Hsub : forall x, In x (map fst (l1 ++ l2)) -> In x (map fst (hs s))).
        { intros x Hx. apply in_map_iff in Hx. destruct Hx as [e [<- He]]. apply in_map. apply Hmem_old in He. tauto. }
        destruct (linear c) eqn:Elin.
        * (* linear shortcut: ancestors_by_idx[idx].discard(candidate) *)
          inversion H; subst s'; clear H. rewrite Hset.
          destruct (linear_spec _ Elin) as [p0 Hp0].
          assert (p = p0) by (destruct Hp as [Hp _]; rewrite Hp0 in Hp; destruct Hp as [|[]]; auto). subst p0.
          apply Gen with (nh := [(p, removeN c Ac)]).
          -- intros e. rewrite <- Hmem_old. split.
             ++ intros He. apply in_app_or in He. destruct He as [He|[He|He]].
                ** left. apply in_or_app; auto.
                ** right. left; auto.
                ** left. apply in_or_app; auto.
             ++ intros [He|[He|[]]].
                ** apply in_app_or in He. apply in_or_app. destruct He; [left|right; right]; auto.
                ** apply in_or_app. right. left. auto.
          -- rewrite map_app. cbn. rewrite map_app in ND_old.
             apply NoDup_Add with (a:=p) (l:=map fst l1 ++ map fst l2); [apply Add_app|].
             constructor; auto. rewrite <- map_app. intros Hin. apply Hsub in Hin. tauto.
          -- intros h A [E|[]]. inversion E; subst. split; [tauto|].
             intros y. rewrite removeN_In, HAc. split.
             ++ intros [Hcy Hne]. destruct (Anc_inv _ _ Hcy) as [|[q [Hq Hqy]]]; [congruence|].
                rewrite Hp0 in Hq. destruct Hq as [<-|[]]. exact Hqy.
             ++ intros Hpy. split.
                ** eapply Anc_step; [|exact Hpy]. tauto.
                ** intros ->. eapply acyclic; [|exact Hpy]. tauto.
          -- intros q Hq _. right. rewrite Hp0 in Hq. destruct Hq as [<-|[]]. left. reflexivity.
          -- right. rewrite app_length. cbn. rewrite <- Hlen. lia.
        * (* recompute ancestors for every added head *)
          inversion H; subst s'; clear H. rewrite Hset.
          apply Gen with (nh := (p, anc p) :: map (fun h => (h, anc h)) more).
          -- intros e. rewrite <- Hmem_old. split.
             ++ intros He. apply in_app_or in He. destruct He as [He|He].
                ** apply in_app_or in He. destruct He as [He|[He|He]].
                   --- left. apply in_or_app; auto.
                   --- right. left; auto.
                   --- left. apply in_or_app; auto.
                ** right. right. exact He.
             ++ intros [He|[He|He]].
                ** apply in_or_app. left. apply in_app_or in He. apply in_or_app. destruct He; [left|right; right]; auto.
                ** apply in_or_app. left. apply in_or_app. right. left. auto.
                ** apply in_or_app. right. exact He.
          -- rewrite map_app, map_app. cbn. rewrite map_map. cbn. rewrite map_id.
             rewrite <- app_assoc. cbn.
             assert (P : Permutation (map fst l1 ++ p :: map fst l2 ++ more) ((p :: more) ++ map fst (l1 ++ l2))).
             { rewrite map_app. cbn. rewrite <- Permutation_middle. constructor.
               rewrite app_assoc. rewrite Permutation_app_comm. reflexivity. }
             eapply Permutation_NoDup; [symmetry; exact P|].
             apply NoDup_app_iff'; auto. intros x Hx Hin. apply Hsub in Hin. assert (~ In x (map fst (hs s))) by (apply Hadd; exact Hx). tauto.
          -- intros h A [E|Hin].
             ++ inversion E; subst. split; [tauto|]. intros y. apply anc_spec.
             ++ apply in_map_iff in Hin. destruct Hin as [q [E Hq]]. inversion E; subst.
                split; [apply Hmore; auto|]. intros y. apply anc_spec.
          -- intros q Hq Hqt. destruct (in_dec N.eq_dec q (map fst (hs s))) as [|Hn]; [left; auto|right].
             cbn. rewrite map_map. cbn. rewrite map_id.
             assert (In q (p :: more)) as [|] by (apply Hadd; auto); [left|right]; auto.
          -- right. rewrite !app_length. cbn. rewrite <- Hlen. lia.
  Qed.


  Lemma ordered_app l1 l2 : ordered (l1 ++ l2) -> ordered l2 /\ forall a b, In a l1 -> In b l2 -> ~ Anc a b.
  Proof. induction l1 as [|c l1 IH]; cbn; [intros H; split; auto; intros a b []|].
    intros [Hc Ho]. destruct (IH Ho) as [H2 H12]. split; auto.
    intros a b [<-|Ha] Hb; [apply Hc; apply in_or_app; auto|apply H12; auto]. Qed.
  Lemma ordered_rev l pre x post : ordered l -> rev l = pre ++ x :: post -> forall y, In y post -> ~ Anc y x.
  Proof. intros Ho E y Hy.
    assert (E' : l = rev post ++ x :: rev pre).
    { rewrite <- (rev_involutive l), E, rev_app_distr. cbn. rewrite <- app_assoc. reflexivity. }
    subst l. apply ordered_app in Ho. destruct Ho as [_ H]. apply H; [apply -> in_rev; exact Hy|left; reflexivity]. Qed.

  Lemma step_not_stuck s : Inv s -> step parents anc linear s <> Stuck.
  Proof.
    intros I. unfold step. destruct (hs s) as [|hd tl] eqn:E; [discriminate|]. rewrite <- E.
    destruct (i_idx _ I) as [Hn|Hlt]; [congruence|].
    destruct (nth_error (hs s) (idx s)) as [[c Ac]|] eqn:En.
    - destruct (find_blocker c (idx s) 0 (hs s)); [discriminate|].
      destruct (filter _ (parents c)); [discriminate|]. destruct (linear c); discriminate.
    - apply nth_error_None in En. lia.
  Qed.

  Lemma step_done s o : Inv s -> step parents anc linear s = Done o ->
    o = rev (out s) /\ todo s = [].
  Proof.
    intros I H. unfold step in H. destruct (hs s) as [|hd tl] eqn:E.
    - inversion H; subst. split; auto. destruct (todo s) as [|y t] eqn:Et; auto.
      destruct (i_cover _ I y) as [h [A [Hin _]]]; [rewrite Et; left; auto|]. rewrite E in Hin. destruct Hin.
    - rewrite <- E in H. destruct (nth_error (hs s) (idx s)) as [[c Ac]|]; [|discriminate].
      destruct (find_blocker c (idx s) 0 (hs s)); [discriminate|].
      destruct (filter _ (parents c)); [discriminate|]. destruct (linear c); discriminate.
  Qed.

  Lemma run_inv fuel : forall s o, Inv s -> run parents anc linear fuel s = Some o ->
     exists s', Inv s' /\ o = rev (out s') /\ todo s' = [].
  Proof.
    induction fuel as [|f IH]; intros s o I H; [discriminate|]. cbn [run] in H.
    destruct (step parents anc linear s) as [o'|s'|] eqn:E; [| |discriminate].
    - inversion H; subst. exists s. destruct (step_done _ _ I E). auto.
    - eapply IH; [|exact H]. eapply step_preserves; eauto.
  Qed.

  (* what the caller gets: exactly todo0, each once, every node before all of its (todo) ancestors *)
  Lemma init_Inv heads : NoDup heads -> incl heads todo0 ->
    (forall y, In y todo0 -> exists h, In h heads /\ Anc h y) -> Inv (init anc todo0 heads heads).
  Proof.
    intros NDh Hincl Hcov.
    unfold init. constructor; cbn.
      - rewrite map_map. cbn. rewrite map_id. exact NDh.
      - intros h A Hin. apply in_map_iff in Hin. destruct Hin as [h' [E Hh]]. inversion E; subst.
        split; [apply Hincl; exact Hh | intros y; apply anc_spec].
      - intros y Hy. destruct (Hcov y Hy) as [h [Hh Hhy]]. exists h, (anc h). split; [|exact Hhy].
        apply in_map_iff. exists h; split; [reflexivity|exact Hh].
      - exact todo0_nodup.
      - intros x. tauto.
      - intros x [].
      - constructor.
      - intros x y [].
      - exact I.
      - destruct heads; [left; reflexivity|right; cbn; lia].
  Qed.

  (* what the caller gets: exactly todo0, each once, every node before all of its (todo) ancestors *)
  Theorem topo_sort_correct fuel heads o :
    NoDup heads -> incl heads todo0 ->
    (forall y, In y todo0 -> exists h, In h heads /\ Anc h y) ->
    run parents anc linear fuel (init anc todo0 heads heads) = Some o ->
    NoDup o /\ (forall x, In x o <-> In x todo0) /\
    (forall pre x post, o = pre ++ x :: post -> forall y, In y post -> ~ Anc y x).
  Proof.
    intros NDh Hincl Hcov Hrun.
    pose proof (init_Inv heads NDh Hincl Hcov) as I0.
    destruct (run_inv _ _ _ I0 Hrun) as [s' [I' [-> Ht]]].
    split; [apply NoDup_rev; apply I'|]. split.
    - intros x. rewrite <- in_rev, (i_part _ I' x), Ht. cbn. tauto.
    - intros pre x post E y Hy. eapply ordered_rev; eauto. apply I'.
  Qed.
End PROOF.

(* extra facts used by the termination argument *)
Lemma find_blocker_Some_spec c i : forall l k r, find_blocker c i k l = Some r ->
  exists h A, nth_error l (r - k) = Some (h,A) /\ r <> i /\ memN c A = true /\ k <= r.
Proof.
  induction l as [|[h0 A0] l IH]; intros k r H; [discriminate|].
  cbn in H. destruct (negb (k =? i) && memN c A0) eqn:E.
  - inversion H; subst. apply andb_true_iff in E. destruct E as [E1 E2].
    apply negb_true_iff, Nat.eqb_neq in E1. exists h0, A0. rewrite Nat.sub_diag. cbn. auto.
  - destruct (IH _ _ H) as [h [A [Hn [Hne [Hm Hle]]]]]. exists h, A.
    replace (r - k) with (S (r - S k)) by lia. cbn. repeat split; auto. lia.
Qed.
