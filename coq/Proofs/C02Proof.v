(* C02: the downgrade planner model returns exactly the applied dependents, children first. *)
From AV Require Import Model.Plan Spec.C01 Spec.C02 Proofs.GraphProof Proofs.CycleProof Proofs.PlanProof Proofs.C01Proof.

Lemma children_first_spec G : forall plan remaining, children_first G remaining plan = true ->
  forall pre r post, plan = pre ++ r :: post ->
  forall c, In c remaining -> In r (all_down G c) -> c <> r -> In c pre.
Proof. induction plan as [|a plan IH]; intros remaining H pre r post E c Hc Hr Hne.
  - destruct pre; discriminate.
  - cbn [children_first] in H. apply andb_true_iff in H. destruct H as [H1 H2]. apply negb_true_iff in H1.
    destruct pre as [|b pre]; simpl in E; inversion E; subst.
    + exfalso. assert (existsb (fun c0 => memN r (all_down G c0)) (removeN r remaining) = true) as X.
      { apply existsb_exists. exists c. split; [apply removeN_In; auto|apply memN_In; auto]. }
      congruence.
    + destruct (N.eq_dec c b) as [->|Hcb]; [left; auto|]. right.
      apply (IH _ H2 pre r post eq_refl c); auto. apply removeN_In; auto. Qed.

Section C02.
  Variable G : graph.
  Hypothesis WF : wf_refs G.
  Hypothesis AC : ~ cyclic (all_down G).
  Hypothesis NOK : ndeps_ok G.
  Let ND : NoDup (ids G) := proj1 WF.

  Lemma all_nextrev_outside x : ~ In x (ids G) -> all_nextrev G x = [].
  Proof. apply (up_outside G all_down_r ND (wf_all_down G WF)). Qed.

  Lemma path_up_down x z : path (all_nextrev G) x z <-> path (all_down G) z x.
  Proof. split.
    - apply (path_converse (all_nextrev G) (all_down G)). intros a b. apply (up_dn G all_down_r ND).
    - apply (path_converse (all_down G) (all_nextrev G)). intros a b. apply (dn_up G all_down_r ND). Qed.

  Lemma descs_spec R : NoDup (descs G R) /\ forall z, In z (descs G R) <-> DescOf G R z.
  Proof. unfold descs. destruct (reach_or_nil_spec G WF (all_nextrev G) R all_nextrev_outside) as [H1 H2].
    split; auto. intros z. rewrite H2. unfold DescOf, Anc. split; intros [r [Hr P]]; exists r; split; auto; apply path_up_down; auto. Qed.

  Lemma active_spec X : NoDup (reach_or_nil (norm_down G) G X) /\ forall z, In z (reach_or_nil (norm_down G) G X) <-> AncOf G X z.
  Proof. destruct (reach_or_nil_spec G WF (norm_down G) X (norm_outside G)) as [H1 H2]. split; auto.
    intros z. rewrite H2. unfold AncOf, Anc. split; intros [t [Ht P]]; exists t; split; auto; apply (norm_path_iff G WF AC NOK); auto. Qed.

  Lemma roots_sub target branch r : In r (roots_of G target branch) -> In r (roots0_of G target).
  Proof. unfold roots_of. destruct branch as [b|]; auto. destruct (roots0_of G target) as [|a [|c l]] eqn:E; auto.
    intros H. apply interN_In in H. tauto. Qed.

  Lemma root_child_of_target t branch r : In r (roots_of G (Some t) branch) -> In t (all_down G r).
  Proof. intros H. apply roots_sub in H. cbn [roots0_of] in H. apply (up_dn G r_down ND) in H.
    apply down_sub_all. exact H. Qed.

  Theorem downgrade_plan_result rq target branch Cur : ref_agrees02 G Cur rq target branch = true ->
    C02_holds (G, rq, target, branch, Cur) (downgrade_plan G target branch Cur).
  Proof. intros HREF. unfold downgrade_plan, collect_downgrade.
    set (R := roots_of G target branch).
    assert (forall z, In z (interN (reach_or_nil (all_nextrev G) G R) (reach_or_nil (norm_down G) G Cur)) <-> DescOf G R z /\ AncOf G Cur z) as Hdg.
    { intros z. rewrite interN_In. fold (descs G R). rewrite (proj2 (descs_spec R)), (proj2 (active_spec Cur)). tauto. }
    set (dg := interN (reach_or_nil (all_nextrev G) G R) (reach_or_nil (norm_down G) G Cur)) in *.
    assert (NoDup dg) as NDdg by (apply NoDup_interN; apply (proj1 (descs_spec R))).
    assert (forall res, (res = POk (dg, Cur) -> (dg = [] -> forall t, target = Some t -> In t Cur) ->
       C02_holds (G, rq, target, branch, Cur) (match res with PErr e => PErr e | POk (d, heads) => topological_sort G d heads end))) as Hok.
    { intros res -> Hempty. cbn [C02_holds]. fold R. split; [exact HREF|].
      destruct (topological_sort_correct G WF AC NOK dg Cur NDdg) as [o [Eo [NDo [Hino Hord]]]].
      { intros x y p Hx Hy A1 A2. apply Hdg in Hx. apply Hdg in Hy. apply Hdg. split.
        - destruct (proj1 Hy) as [r [Hr Ar]]. exists r. split; auto. eapply path_trans; eauto.
        - destruct (proj2 Hx) as [c [Hc Ac]]. exists c. split; auto. eapply path_trans; eauto. }
      { intros y Hy. apply Hdg in Hy. destruct Hy as [[r [Hr Ar]] [c [Hc Ac]]]. exists c. split; auto. split; auto.
        apply Hdg. split; [exists r; split; auto; eapply path_trans; eauto|exists c; split; auto; constructor]. }
      rewrite Eo. split; auto. split. { intros r. rewrite Hino. apply Hdg. }
      split.
      { intros pre r post E c Hc Hr.
        assert (In r dg) as Hrd by (apply Hino; rewrite E; apply in_or_app; right; left; auto).
        assert (Anc G c r) as Acr by (eapply path_step; [exact Hr|constructor]).
        assert (In c dg) as Hcd.
        { apply Hdg. split; auto. apply Hdg in Hrd. destruct (proj1 Hrd) as [rt [Hrt Art]]. exists rt. split; auto. eapply path_trans; eauto. }
        apply Hino in Hcd. rewrite E in Hcd. apply in_app_or in Hcd. destruct Hcd as [H|[H|H]]; auto.
        - exfalso. subst c. apply AC. exists r, r. split; [exact Hr|constructor].
        - exfalso. eapply Hord; eauto. }
      split.
      { intros t Et a Ata Hin. apply Hino, Hdg in Hin. destruct (proj1 Hin) as [rt [Hrt Aart]].
        unfold R in Hrt. rewrite Et in Hrt. pose proof (root_child_of_target t branch rt Hrt) as Hch.
        apply AC. exists rt, t. split; auto. eapply path_trans; eauto. }
      { intros Ep t Et. apply Hempty; auto. destruct dg as [|d dg']; auto. exfalso.
        assert (In d o) as Hd by (apply Hino; left; auto). rewrite Ep in Hd. destruct Hd. } }
    assert (C02_holds (G, rq, target, branch, Cur)
              (match (match target, dg with
                      | Some t, [] => if memN t Cur then POk (dg, Cur) else PErr PERange
                      | _, _ => POk (dg, Cur) end) with
               | PErr e => PErr e | POk (d, heads) => topological_sort G d heads end)) as Htail.
    { destruct target as [t0|].
      - destruct dg as [|d dg'] eqn:Ed.
        + destruct (memN_reflect t0 Cur) as [Hin|Hnin].
          * apply (Hok (POk ([], Cur)) eq_refl). intros _ t' Et. inversion Et; subst; auto.
          * cbn [C02_holds]. split; [exact HREF|]. exists t0. split; auto. split; auto. intros r Hr. apply Hdg in Hr. destruct Hr.
        + apply (Hok (POk (d :: dg', Cur)) eq_refl). discriminate.
      - apply (Hok (POk (dg, Cur)) eq_refl). intros _ t1 Et. discriminate. }
    destruct branch as [b|]; [|exact Htail].
    destruct (roots0_of G target) as [|a [|c l]] eqn:E0; try exact Htail.
    clear Hok Hdg NDdg. subst dg. subst R. revert Htail.
    destruct (roots_of G target (Some b)) as [|x xs] eqn:ER; intros Htail; [|exact Htail].
    cbn [C02_holds]. rewrite ER. split; [exact HREF|]. split; auto. discriminate.
  Qed.

  Theorem decider_sound rq target branch Cur out :
    check_C02 (G, rq, target, branch, Cur) out = true -> C02_holds (G, rq, target, branch, Cur) out.
  Proof. unfold check_C02, C02_holds. set (R := roots_of G target branch). rewrite andb_true_iff. intros [HREF H]. split; [exact HREF|]. revert H.
    destruct (descs_spec R) as [_ HD]. destruct (ancs_spec G WF Cur) as [_ HA].
    assert (forall z, In z (interN (descs G R) (ancs G Cur)) <-> DescOf G R z /\ AncOf G Cur z) as Hexp.
    { intros z. rewrite interN_In, HD, HA. tauto. }
    destruct out as [plan|e].
    - rewrite !andb_true_iff, nodupb_NoDup, seteqN_spec. intros [[[[H1 H2] H3] H4] H5].
      split; auto. split. { intros r. rewrite H2. apply Hexp. }
      split.
      { intros pre r post E c Hc Hr. destruct (N.eq_dec c r) as [->|Hne].
        - exfalso. apply AC. exists r, r. split; [exact Hr|constructor].
        - apply (children_first_spec G plan _ H3 pre r post E c); auto. apply HA. exact Hc. }
      split.
      { intros t Et a Ata Hin. rewrite Et in H4. apply negb_true_iff in H4.
        assert (existsb (fun a0 => memN a0 plan) (ancs G [t]) = true) as X; [|congruence].
        apply existsb_exists. exists a. split; [|apply memN_In; auto].
        apply (proj2 (ancs_spec G WF [t])). exists t. split; [left; auto|exact Ata]. }
      { intros Ep t Et. subst plan. rewrite Et in H5. apply memN_In. exact H5. }
    - destruct e; try discriminate.
      + destruct target as [t|]; [|discriminate]. destruct (interN (descs G R) (ancs G Cur)) as [|x xs] eqn:E; [|discriminate].
        intros H. apply negb_true_iff, memN_nIn in H. exists t. split; auto. split; auto.
        intros r Hr. apply Hexp in Hr. destruct Hr.
      + destruct R; [|discriminate]. destruct branch; [|discriminate]. intros _. split; auto. discriminate. Qed.
End C02.

(* ---------- end points: `heads` covers the whole history, `base` removes everything applied ---------- *)
Section ENDPOINTS.
  Variable G : graph.
  Hypothesis WF : wf_refs G.
  Hypothesis AC : ~ cyclic (all_down G).
  Let ND : NoDup (ids G) := proj1 WF.

  Lemma every_revision_below_a_real_head x : In x (ids G) -> AncOf G (real_heads_of G) x.
  Proof. intros Hx. destruct (reaches_head G all_down_r ND AC x Hx) as [h [Hh [Hnil P]]].
    exists h. split; [|exact P]. apply no_children_in_heads; auto. Qed.

  Lemma every_revision_above_a_base x : In x (ids G) -> DescOf G (bases_of G) x.
  Proof. intros Hx. assert (~ cyclic (down G)) as ACd by (apply acyclic_down; auto).
    destruct (reaches_base G r_down ND (wf_down G WF) ACd x Hx) as [b [Hb [Hnil P]]].
    exists b. split.
    - apply bases_of_spec. unfold ids in Hb. apply in_map_iff in Hb. destruct Hb as [r [E Hr]]. subst b.
      unfold of_rev in Hnil. rewrite (find_rev_NoDup G r ND Hr) in Hnil. exists r; auto.
    - unfold Anc. apply (path_mono (down G) (all_down G) (down_sub_all G)).
      apply (path_converse (nextrev G) (down G)); [|exact P]. intros a c. apply (up_dn G r_down ND). Qed.
End ENDPOINTS.
